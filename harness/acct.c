// Accounting allocator: records every live block with its size, checks sized free,
// counts, and can fail the k-th allocation.  Memory itself comes from malloc/free so that
// ASan still sees every access.
#include "acct.h"
#include <pthread.h>
#include <stdio.h>
#include <stdlib.h>
#include <string.h>

#define TBL (1u << 20)
typedef struct {
	void  *p;
	size_t sz;
	uint64_t seq;
} ent;
static ent             tbl[TBL];
static pthread_mutex_t mtx = PTHREAD_MUTEX_INITIALIZER;
static uint64_t        live_blocks, live_bytes, total_allocs, mismatches, bad_frees;
static uint64_t        fail_k, fail_cnt;
static int             fail_fired;

static unsigned
hp(void *p)
{
	uint64_t x = (uint64_t) (uintptr_t) p;
	x ^= x >> 33;
	x *= 0xff51afd7ed558ccdULL;
	x ^= x >> 29;
	return ((unsigned) x) & (TBL - 1);
}

#include <execinfo.h>
static void
rec(void *p, size_t sz)
{
	// debugging aid: ACCT_TRACE_SIZE=<n> prints the stack of every allocation of n bytes
	static long trace_sz = -1;
	if (trace_sz == -1) {
		const char *e = getenv("ACCT_TRACE_SIZE");
		trace_sz      = e != NULL ? atol(e) : 0;
	}
	if (trace_sz > 0 && (size_t) trace_sz == sz) {
		void *bt[24];
		int   n = backtrace(bt, 24);
		fprintf(stderr, "ACCT: trace alloc of %zu bytes -> %p\n", sz, p);
		backtrace_symbols_fd(bt, n, 2);
	}
	unsigned i = hp(p);
	while (tbl[i].p != NULL && tbl[i].p != (void *) 1) {
		i = (i + 1) & (TBL - 1);
	}
	tbl[i].p   = p;
	tbl[i].sz  = sz;
	tbl[i].seq = total_allocs;
	live_blocks++;
	live_bytes += sz;
}

static int
should_fail(void)
{
	if (fail_k == 0) {
		return 0;
	}
	fail_cnt++;
	if (fail_cnt == fail_k) {
		fail_fired = 1;
		return 1;
	}
	return 0;
}

static void *
a_malloc(size_t sz)
{
	void *p;
	pthread_mutex_lock(&mtx);
	if (should_fail()) {
		pthread_mutex_unlock(&mtx);
		return NULL;
	}
	total_allocs++;
	pthread_mutex_unlock(&mtx);
	p = malloc(sz);
	if (p != NULL) {
		memset(p, 0xA5, sz); // callers must not rely on zeroed memory from malloc
		pthread_mutex_lock(&mtx);
		rec(p, sz);
		pthread_mutex_unlock(&mtx);
	}
	return p;
}

static void *
a_calloc(size_t n, size_t sz)
{
	void *p;
	pthread_mutex_lock(&mtx);
	if (should_fail()) {
		pthread_mutex_unlock(&mtx);
		return NULL;
	}
	total_allocs++;
	pthread_mutex_unlock(&mtx);
	p = calloc(n, sz);
	if (p != NULL) {
		pthread_mutex_lock(&mtx);
		rec(p, n * sz);
		pthread_mutex_unlock(&mtx);
	}
	return p;
}

static void
a_free(void *p, size_t sz)
{
	unsigned i;
	if (p == NULL) {
		return;
	}
	pthread_mutex_lock(&mtx);
	i = hp(p);
	for (;;) {
		if (tbl[i].p == p) {
			break;
		}
		if (tbl[i].p == NULL) {
			bad_frees++;
			pthread_mutex_unlock(&mtx);
			fprintf(stderr, "ACCT: free of unknown/double-freed pointer %p size %zu\n", p, sz);
			free(p); // let ASan say what it thinks
			return;
		}
		i = (i + 1) & (TBL - 1);
	}
	if (tbl[i].sz != sz) {
		mismatches++;
		fprintf(stderr, "ACCT: sized free mismatch %p allocated %zu freed as %zu\n", p, tbl[i].sz, sz);
	}
	live_blocks--;
	live_bytes -= tbl[i].sz;
	memset(p, 0xDD, tbl[i].sz);
	tbl[i].p = (void *) 1; // tombstone
	pthread_mutex_unlock(&mtx);
	free(p);
}

void
acct_fill_params(nng_init_params *p)
{
	p->malloc_fn = a_malloc;
	p->calloc_fn = a_calloc;
	p->free_fn   = a_free;
}

uint64_t acct_live_blocks(void) { return live_blocks; }
uint64_t acct_live_bytes(void) { return live_bytes; }
uint64_t acct_total_allocs(void) { return total_allocs; }
uint64_t acct_size_mismatches(void) { return mismatches; }
uint64_t acct_bad_frees(void) { return bad_frees; }
void
acct_fail_at(uint64_t k)
{
	pthread_mutex_lock(&mtx);
	fail_k     = k;
	fail_cnt   = 0;
	fail_fired = 0;
	pthread_mutex_unlock(&mtx);
}
uint64_t acct_fail_count(void) { return fail_cnt; }
int      acct_fail_fired(void) { return fail_fired; }

static uint64_t dump_min_seq;
void
acct_dump_since(uint64_t seq)
{
	dump_min_seq = seq;
}
void
acct_dump_live(int max)
{
	int n = 0;
	for (unsigned i = 0; i < TBL && n < max; i++) {
		if (tbl[i].p != NULL && tbl[i].p != (void *) 1 && tbl[i].seq >= dump_min_seq) {
			fprintf(stderr, "ACCT: live %p size %zu alloc#%llu\n", tbl[i].p, tbl[i].sz,
			    (unsigned long long) tbl[i].seq);
			n++;
		}
	}
}
