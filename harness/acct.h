// Accounting / fault-injecting allocator installed through nng_init_params.
#ifndef VERIF_ACCT_H
#define VERIF_ACCT_H
#include <stddef.h>
#include <stdint.h>
#include <nng/nng.h>

void     acct_fill_params(nng_init_params *p); // sets malloc_fn/calloc_fn/free_fn
uint64_t acct_live_blocks(void);
uint64_t acct_live_bytes(void);
uint64_t acct_total_allocs(void);
uint64_t acct_size_mismatches(void); // sized free with the wrong size
uint64_t acct_bad_frees(void);       // free of a pointer we never handed out / double free
// fail the k-th allocation from now (1-based; 0 = never).  Only allocations made while
// acct_fail_enable is on count.
void     acct_fail_at(uint64_t k);
uint64_t acct_fail_count(void); // allocations counted since acct_fail_at
int      acct_fail_fired(void);
void     acct_dump_live(int max); // to stderr
void     acct_dump_since(uint64_t alloc_seq); // dump only blocks allocated at or after this allocation number
#endif
