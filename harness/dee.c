// Deterministic execution environment (see dee.h).
#include "dee.h"
#include <pthread.h>
#include <stdio.h>
#include <stdlib.h>
#include <string.h>
#include <time.h>
#include <unistd.h>

static pthread_mutex_t mtx = PTHREAD_MUTEX_INITIALIZER;
static dee_task        pend[DEE_MAXTASKS];
static int             npend;
static uint64_t        dseq;
static volatile int    gate_on;
static volatile uint64_t vnow = 1000000; // virtual ms
static FILE           *tracef;
static unsigned long   ev_xtake, ev_xdone, ev_total;
static struct {
	char          pat[40];
	unsigned long n;
} watch[8];
static int nwatch;

static bool
gate_fn(nni_task *t)
{
	if (!gate_on) {
		return false;
	}
	pthread_mutex_lock(&mtx);
	if (npend >= DEE_MAXTASKS) {
		fprintf(stderr, "DEE: too many pending tasks\n");
		abort();
	}
	pend[npend].task = t;
	pend[npend].cb   = t->task_cb;
	pend[npend].arg  = t->task_arg;
	pend[npend].seq  = ++dseq;
	npend++;
	pthread_mutex_unlock(&mtx);
	return true;
}

static nni_time
clock_fn(void)
{
	return (nni_time) __atomic_load_n(&vnow, __ATOMIC_SEQ_CST);
}

static void
sink_fn(const char *line)
{
	// called with the trace mutex held, in sequence order
	ev_total++;
	if (strstr(line, "\"e\":\"xtake\"") != NULL) {
		ev_xtake++;
	} else if (strstr(line, "\"e\":\"xdone\"") != NULL) {
		ev_xdone++;
	}
	for (int i = 0; i < nwatch; i++) {
		if (strstr(line, watch[i].pat) != NULL) {
			watch[i].n++;
		}
	}
	if (tracef != NULL) {
		fputs(line, tracef);
		fputc('\n', tracef);
	}
}

void
dee_init(int gated, int vclock, const char *tracefile)
{
	gate_on            = gated;
	nni_verif.task_gate = gate_fn;
	if (vclock) {
		nni_verif.clock = clock_fn;
	}
	if (tracefile != NULL) {
		tracef = fopen(tracefile, "w");
		setvbuf(tracef, NULL, _IOFBF, 1 << 20);
	}
	nni_verif.sink = sink_fn;
}

void
dee_gate(int on)
{
	gate_on = on;
}

int
dee_npending(void)
{
	int n;
	pthread_mutex_lock(&mtx);
	n = npend;
	pthread_mutex_unlock(&mtx);
	return n;
}

int
dee_pending(dee_task *out, int max)
{
	int n;
	pthread_mutex_lock(&mtx);
	n = npend < max ? npend : max;
	memcpy(out, pend, sizeof(dee_task) * (size_t) n);
	pthread_mutex_unlock(&mtx);
	return n;
}

static bool
take(int i, dee_task *out)
{
	*out = pend[i];
	memmove(&pend[i], &pend[i + 1], sizeof(dee_task) * (size_t) (npend - i - 1));
	npend--;
	return true;
}

bool
dee_run_task(nni_task *t)
{
	dee_task d;
	bool     found = false;
	pthread_mutex_lock(&mtx);
	for (int i = 0; i < npend; i++) {
		if (pend[i].task == t) {
			found = take(i, &d);
			break;
		}
	}
	pthread_mutex_unlock(&mtx);
	if (found) {
		nni_verif_task_run(d.task);
	}
	return found;
}

bool
dee_run(const char *sym, void *arg)
{
	dee_task d;
	bool     found = false;
	pthread_mutex_lock(&mtx);
	for (int i = 0; i < npend; i++) {
		if ((arg == NULL || pend[i].arg == arg) &&
		    (sym == NULL || strcmp(dee_symname((void *) pend[i].cb), sym) == 0)) {
			found = take(i, &d);
			break;
		}
	}
	pthread_mutex_unlock(&mtx);
	if (found) {
		nni_verif_task_run(d.task);
	}
	return found;
}

int
dee_run_all(int limit)
{
	int n = 0;
	while (n < limit) {
		dee_task d;
		bool     found = false;
		pthread_mutex_lock(&mtx);
		if (npend > 0) {
			found = take(0, &d);
		}
		pthread_mutex_unlock(&mtx);
		if (!found) {
			break;
		}
		nni_verif_task_run(d.task);
		n++;
	}
	return n;
}

// ---- symbol table of this executable (static functions included), via nm
typedef struct {
	uintptr_t addr;
	char      name[64];
} sym;
static sym *syms;
static int  nsyms;

static int
symcmp(const void *a, const void *b)
{
	uintptr_t x = ((const sym *) a)->addr, y = ((const sym *) b)->addr;
	return x < y ? -1 : x > y;
}

static void
load_syms(void)
{
	char  cmd[256], line[512], exe[256];
	FILE *p;
	ssize_t n = readlink("/proc/self/exe", exe, sizeof(exe) - 1);
	if (n <= 0) {
		return;
	}
	exe[n] = 0;
	snprintf(cmd, sizeof(cmd), "nm --defined-only %s 2>/dev/null", exe);
	if ((p = popen(cmd, "r")) == NULL) {
		return;
	}
	syms = malloc(sizeof(sym) * 65536);
	while (fgets(line, sizeof(line), p) != NULL && nsyms < 65536) {
		unsigned long a;
		char          t, name[256];
		if (sscanf(line, "%lx %c %255s", &a, &t, name) == 3 && (t == 't' || t == 'T')) {
			syms[nsyms].addr = a;
			snprintf(syms[nsyms].name, sizeof(syms[nsyms].name), "%s", name);
			nsyms++;
		}
	}
	pclose(p);
	qsort(syms, (size_t) nsyms, sizeof(sym), symcmp);
}

const char *
dee_symname(void *fn)
{
	static int loaded;
	if (!loaded) {
		loaded = 1;
		load_syms();
	}
	uintptr_t a = (uintptr_t) fn;
	int       lo = 0, hi = nsyms - 1;
	while (lo <= hi) {
		int mid = (lo + hi) / 2;
		if (syms[mid].addr == a) {
			return syms[mid].name;
		}
		if (syms[mid].addr < a) {
			lo = mid + 1;
		} else {
			hi = mid - 1;
		}
	}
	return "?";
}

void
dee_watch(const char *ev)
{
	if (nwatch < 8) {
		snprintf(watch[nwatch].pat, sizeof(watch[nwatch].pat), "\"e\":\"%s\"", ev);
		watch[nwatch].n = 0;
		nwatch++;
	}
}

uint64_t
dee_now(void)
{
	return __atomic_load_n(&vnow, __ATOMIC_SEQ_CST);
}

void
dee_expire_settle(void)
{
	// two scan starts after now => one complete scan with the current clock value
	unsigned long   c0 = nni_verif_expire_scans();
	struct timespec ts = { 0, 200000 };
	for (int i = 0; i < 100000; i++) {
		if (nni_verif_expire_scans() >= c0 + 2) {
			return;
		}
		nanosleep(&ts, NULL);
	}
	fprintf(stderr, "DEE: expire thread did not scan (watchdog)\n");
	abort();
}

void
dee_advance(uint64_t ms)
{
	__atomic_add_fetch(&vnow, ms, __ATOMIC_SEQ_CST);
	dee_expire_settle();
}

unsigned long
dee_event_count(const char *ev)
{
	for (int i = 0; i < nwatch; i++) {
		size_t l = strlen(ev);
		if (strncmp(watch[i].pat + 5, ev, l) == 0 && watch[i].pat[5 + l] == '"') {
			return __atomic_load_n(&watch[i].n, __ATOMIC_SEQ_CST);
		}
	}
	if (!strcmp(ev, "xtake")) {
		return ev_xtake;
	}
	if (!strcmp(ev, "xdone")) {
		return ev_xdone;
	}
	return ev_total;
}
