// Deterministic execution environment: task gate, virtual clock, trace capture.
#ifndef VERIF_DEE_H
#define VERIF_DEE_H
#include "core/nng_impl.h"
#include <nng/nng.h>
#include <stdbool.h>
#include <stdint.h>

#define DEE_MAXTASKS 256
typedef struct {
	nni_task *task;
	nni_cb    cb;
	void     *arg;
	uint64_t  seq; // order of dispatch
} dee_task;

void dee_init(int gated, int vclock, const char *tracefile); // call before nng_init
void dee_gate(int on);                                      // switch the task gate on/off (off: tasks run free)
int  dee_npending(void);
int  dee_pending(dee_task *out, int max); // snapshot, in dispatch order
// run the oldest pending task whose callback symbol is `sym` (NULL: any) and whose arg is `arg` (NULL: any)
bool dee_run(const char *sym, void *arg);
bool dee_run_task(nni_task *t);
int  dee_run_all(int limit); // run pending tasks (and the ones they dispatch) until none; returns number run
const char *dee_symname(void *fn); // function symbol (via nm on /proc/self/exe), "?" if unknown

uint64_t dee_now(void);
void     dee_advance(uint64_t ms); // advance the virtual clock and wait until the expire threads have acted on it
void     dee_expire_settle(void);

// trace events (H-AIO etc.) captured through the sink: counters by event name for one pointer
void          dee_watch(const char *ev); // count events named ev (call before they can happen)
unsigned long dee_event_count(const char *ev);
#endif
