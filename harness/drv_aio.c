// drv_aio: replays behaviours of spec/core/Aio.tla on the real aio framework.  The driver is the
// consumer and the "ext" provider (nng_aio_start / nng_aio_finish with its own cancel function);
// completion callbacks are held by the task gate and released by run_cb steps; time is virtual.
#include "acct.h"
#include "dee.h"
#include <pthread.h>
#include <stdarg.h>
#include <stdio.h>
#include <stdlib.h>
#include <string.h>
#include <time.h>

static nng_aio *aio;
static int      held;        // ext provider still owns the operation
static int      honor;       // what the cancel function does when called in this step
static int      cbs;         // callbacks run
static int      last_result; // nng_aio_result seen by the last callback
static int      resub;       // callback re-submits
static int      resub_started;
static int      stop_called;
static volatile int stop_returned;
static pthread_t    stop_thr;
static pthread_mutex_t pmtx = PTHREAD_MUTEX_INITIALIZER; // the provider's own lock

static const char *
rvname(int rv)
{
	switch (rv) {
	case 0: return "ok";
	case NNG_ECANCELED: return "canceled";
	case NNG_ETIMEDOUT: return "timedout";
	case NNG_ESTOPPED: return "stopped";
	case NNG_ECLOSED: return "closed";
	default: return "other";
	}
}
static int
rvcode(const char *s)
{
	if (!strcmp(s, "ok")) return 0;
	if (!strcmp(s, "canceled")) return NNG_ECANCELED;
	if (!strcmp(s, "timedout")) return NNG_ETIMEDOUT;
	if (!strcmp(s, "stopped")) return NNG_ESTOPPED;
	if (!strcmp(s, "closed")) return NNG_ECLOSED;
	return NNG_EINTERNAL;
}

static void
cancel_fn(nng_aio *a, void *arg, nng_err rv)
{
	int fin = 0;
	(void) arg;
	pthread_mutex_lock(&pmtx);
	if (held && honor) {
		held = 0;
		fin  = 1;
	}
	pthread_mutex_unlock(&pmtx);
	if (fin) {
		nni_aio_finish(a, rv, 0);
	}
}

static int
do_start(void)
{
	// the provider's operation entry point
	// (internal entry point: the public nng_aio_start wrapper always resets first)
	if (!nni_aio_start(aio, cancel_fn, NULL)) {
		return 0;
	}
	pthread_mutex_lock(&pmtx);
	held = 1;
	pthread_mutex_unlock(&pmtx);
	return 1;
}

static void
user_cb(void *arg)
{
	(void) arg;
	cbs++;
	last_result = nng_aio_result(aio);
	if (resub) {
		resub_started = do_start();
	}
}

static void *
stopper(void *arg)
{
	(void) arg;
	nng_aio_stop(aio);
	stop_returned = 1;
	return NULL;
}

static void
wait_flag(volatile int *f, const char *what)
{
	struct timespec ts = { 0, 200000 };
	for (int i = 0; i < 100000 && !*f; i++) {
		nanosleep(&ts, NULL);
	}
	if (!*f) {
		fprintf(stderr, "driver: watchdog: %s\n", what);
	}
}

static void
obs(long walk, int step, const char *out, int expect_stopret)
{
	(void) expect_stopret;
	// nng_aio_stop blocks in nni_aio_wait exactly while the task is busy: once it is past its
	// critical section (stop_wait record) and the aio is not busy, it must return.
	if (stop_called && !stop_returned && !nng_aio_busy(aio)) {
		wait_flag(&stop_returned, "nng_aio_stop does not return although the aio is not busy");
	}
	printf("R %ld %d {\"out\":%s,\"obs\":{\"cbs\":%d,\"gated\":%d,\"busy\":%s,\"stopret\":%s}}\n", walk, step,
	    out, cbs, dee_npending(), nng_aio_busy(aio) ? "true" : "false", stop_returned ? "true" : "false");
	fflush(stdout);
}

int
main(int argc, char **argv)
{
	nng_init_params p;
	char            line[256], out[256];
	FILE           *in   = stdin;
	long            walk = -1;
	int             step = 0;
	uint64_t        live0 = 0;
	const char     *trace = getenv("DRV_TRACE");

	memset(&p, 0, sizeof(p));
	acct_fill_params(&p);
	p.num_task_threads   = 2;
	p.max_task_threads   = 2;
	p.num_expire_threads = 1;
	p.max_expire_threads = 1;
	setvbuf(stdout, NULL, _IOLBF, 0);
	dee_init(1, 1, trace);
	dee_watch("stop_wait");
	if (nng_init(&p) != 0) {
		return 3;
	}
	if (argc > 1 && (in = fopen(argv[1], "r")) == NULL) {
		return 3;
	}
	while (fgets(line, sizeof(line), in) != NULL) {
		char obj[16] = "", act[32] = "", s1[32] = "", s2[32] = "", s3[32] = "";
		int  n       = sscanf(line, "%15s %31s %31s %31s %31s", obj, act, s1, s2, s3);
		int  expect_stopret = 0;
		if (n < 1) {
			continue;
		}
		if (!strcmp(obj, "W")) {
			walk = atol(act);
			step = 0;
			printf("B %ld\n", walk);
			fflush(stdout);
			live0 = acct_live_blocks();
			continue;
		}
		if (!strcmp(obj, "E")) {
			// teardown whatever is left: release callbacks, stop, free
			dee_gate(0);
			honor = 1;
			resub = 0;
			if (aio != NULL) {
				// a provider that still holds the operation completes it now
				pthread_mutex_lock(&pmtx);
				int mine = held;
				held     = 0;
				pthread_mutex_unlock(&pmtx);
				if (mine) {
					nni_aio_finish(aio, NNG_ECLOSED, 0);
				}
				if (stop_called) {
					dee_run_all(100);
					pthread_join(stop_thr, NULL);
				}
				dee_run_all(100);
				nng_aio_stop(aio);
				dee_run_all(100);
				nng_aio_free(aio);
				aio = NULL;
			} else if (stop_called) {
				pthread_join(stop_thr, NULL);
			}
			dee_gate(1);
			printf("X %ld {\"fin\":0,\"leak\":%lld,\"mism\":%llu,\"badfree\":%llu}\n", walk,
			    (long long) acct_live_blocks() - (long long) live0, (unsigned long long) acct_size_mismatches(),
			    (unsigned long long) acct_bad_frees());
			fflush(stdout);
			continue;
		}
		// last token "x<0|1>" carries the expected stopret (settling hint only)
		{
			char *x = strstr(line, " x");
			if (x != NULL) {
				expect_stopret = x[2] == '1';
			}
		}
		if (!strcmp(act, "init")) {
			held = honor = cbs = resub = stop_called = 0;
			stop_returned = 0;
			if (nng_aio_alloc(&aio, user_cb, NULL) != 0) {
				abort();
			}
			continue;
		}
		honor = 0;
		resub = 0;
		if (!strcmp(act, "set_timeout")) {
			long t = atol(s1);
			nng_aio_set_timeout(aio, t == 9999 ? NNG_DURATION_INFINITE : (nng_duration) t);
			snprintf(out, sizeof(out), "null");
		} else if (!strcmp(act, "submit")) {
			if (atoi(s1)) {
				nni_aio_reset(aio);
			}
			snprintf(out, sizeof(out), "{\"started\":\"%s\"}", do_start() ? "ok" : "no");
		} else if (!strcmp(act, "sleep")) {
			int g0 = dee_npending();
			nng_sleep_aio((nng_duration) atol(s1), aio);
			snprintf(out, sizeof(out), "{\"started\":\"%s\"}", dee_npending() > g0 ? "no" : "ok");
		} else if (!strcmp(act, "finish")) {
			int mine = 0;
			pthread_mutex_lock(&pmtx);
			if (held) {
				held = 0;
				mine = 1;
			}
			pthread_mutex_unlock(&pmtx);
			if (!mine) {
				fprintf(stderr, "driver: finish without holding\n");
				exit(3);
			}
			nni_aio_finish(aio, rvcode(s1), 0);
			snprintf(out, sizeof(out), "null");
		} else if (!strcmp(act, "abort")) {
			honor = atoi(s2);
			nng_aio_abort(aio, rvcode(s1));
			snprintf(out, sizeof(out), "null");
		} else if (!strcmp(act, "tick")) {
			unsigned long x0 = dee_event_count("xtake");
			honor            = atoi(s2);
			dee_advance((uint64_t) atol(s1));
			snprintf(out, sizeof(out), "{\"fired\":%s}", dee_event_count("xtake") > x0 ? "true" : "false");
		} else if (!strcmp(act, "run_cb")) {
			resub         = atoi(s1);
			resub_started = 0;
			if (!dee_run(NULL, NULL)) {
				fprintf(stderr, "driver: run_cb with nothing pending\n");
				snprintf(out, sizeof(out), "{\"result\":\"nopending\",\"started\":\"no\"}");
			} else {
				snprintf(out, sizeof(out), "{\"result\":\"%s\",\"started\":\"%s\"}", rvname(last_result),
				    resub ? (resub_started ? "ok" : "no") : "no");
			}
		} else if (!strcmp(act, "stop")) {
			unsigned long sw0 = dee_event_count("stop_wait");
			honor       = atoi(s1);
			stop_called = 1;
			pthread_create(&stop_thr, NULL, stopper, NULL);
			// wait until the stopper is past its critical section and the cancel function
			{
				struct timespec ts = { 0, 200000 };
				for (int i = 0; i < 100000 && dee_event_count("stop_wait") == sw0; i++) {
					nanosleep(&ts, NULL);
				}
			}
			snprintf(out, sizeof(out), "null");
		} else if (!strcmp(act, "free")) {
			pthread_join(stop_thr, NULL);
			stop_called = 0;
			nng_aio_free(aio);
			aio = NULL;
			printf("R %ld %d {\"out\":null,\"obs\":{\"cbs\":%d,\"gated\":%d,\"busy\":false,\"stopret\":true}}\n", walk, step,
			    cbs, dee_npending());
			fflush(stdout);
			step++;
			continue;
		} else {
			fprintf(stderr, "bad action %s\n", act);
			return 3;
		}
		obs(walk, step, out, expect_stopret);
		step++;
	}
	dee_gate(0);
	nng_fini();
	printf("Z\n");
	return 0;
}
