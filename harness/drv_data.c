// drv_data: replays behaviours of the data specifications (Lmq, Msgq, IdMap, Msg) on the real
// implementation.  Input (stdin or file): one command per line
//     W <walk-id>           start a walk (fresh object)
//     <obj> <action> args   one step of the behaviour
//     E                     end of walk: destructive final observation, teardown, leak check
// Output: one line per step   "R <walk> <step> <json {out:..,obs:..}>"   and per walk "X <walk> <json>".
#include "acct.h"
#include "core/nng_impl.h"
#include <nng/nng.h>
#include <stdarg.h>
#include <stdio.h>
#include <stdlib.h>
#include <string.h>

static char   ob[1 << 20];
static size_t on;
static void
o(const char *fmt, ...)
{
	va_list ap;
	va_start(ap, fmt);
	on += (size_t) vsnprintf(ob + on, sizeof(ob) - on, fmt, ap);
	va_end(ap);
}

static long walk = -1;
static int  step;
static uint64_t na0; // allocations before the current command
static void
emit(void)
{
	// na: allocations made by this command; ff: the armed allocation failure (" F<k>" on the command line) fired
	printf("R %ld %d {\"na\":%llu,\"ff\":%d,%s\n", walk, step,
	    (unsigned long long) (acct_total_allocs() - na0), acct_fail_fired(), ob + 1);
	fflush(stdout);
	on    = 0;
	ob[0] = 0;
	step++;
}

static const char *
rvname(int rv)
{
	switch (rv) {
	case 0: return "ok";
	case NNG_EAGAIN: return "eagain";
	case NNG_EINVAL: return "einval";
	case NNG_ENOMEM: return "enomem";
	case NNG_ENOENT: return "enoent";
	case NNG_ECLOSED: return "eclosed";
	case NNG_ECANCELED: return "canceled";
	case NNG_ETIMEDOUT: return "etimedout";
	case NNG_ESTOPPED: return "estopped";
	default: {
		static char b[32];
		snprintf(b, sizeof(b), "rv%d", rv);
		return b;
	}
	}
}

static nng_msg *
mkmsg(uint32_t id)
{
	nng_msg *m;
	if (nng_msg_alloc(&m, 0) != 0) {
		abort();
	}
	nng_msg_append_u32(m, id);
	return m;
}
static uint32_t
msgid(nng_msg *m)
{
	uint32_t v = 0;
	if (nng_msg_len(m) != 4) {
		return 0xffffffffu;
	}
	NNI_GET32((uint8_t *) nng_msg_body(m), v);
	return v;
}

// ------------------------------------------------------------------ lmq
static nni_lmq lmq;
static int     lmq_live;
static void
lmq_obs(void)
{
	o(",\"obs\":{\"len\":%zu,\"cap\":%zu,\"full\":%s,\"empty\":%s}}", nni_lmq_len(&lmq), nni_lmq_cap(&lmq),
	    nni_lmq_full(&lmq) ? "true" : "false", nni_lmq_empty(&lmq) ? "true" : "false");
}
static void
do_lmq(char *act, long a1)
{
	int rv;
	if (!strcmp(act, "init")) {
		nni_lmq_init(&lmq, (size_t) a1);
		lmq_live = 1;
		return; // no R line: init is the initial state
	}
	if (!strcmp(act, "put")) {
		nng_msg *m = mkmsg((uint32_t) a1);
		rv         = nni_lmq_put(&lmq, m);
		if (rv != 0) {
			nng_msg_free(m);
		}
		o("{\"out\":{\"rv\":\"%s\"}", rvname(rv));
	} else if (!strcmp(act, "get")) {
		nng_msg *m  = NULL;
		uint32_t id = 0;
		rv          = nni_lmq_get(&lmq, &m);
		if (rv == 0) {
			id = msgid(m);
			nng_msg_free(m);
		}
		o("{\"out\":{\"rv\":\"%s\",\"m\":%u}", rvname(rv), id);
	} else if (!strcmp(act, "flush")) {
		nni_lmq_flush(&lmq);
		o("{\"out\":{\"rv\":\"ok\"}");
	} else if (!strcmp(act, "resize")) {
		rv = nni_lmq_resize(&lmq, (size_t) a1);
		o("{\"out\":{\"rv\":\"%s\"}", rvname(rv));
	} else {
		fprintf(stderr, "bad lmq action %s\n", act);
		exit(3);
	}
	lmq_obs();
	emit();
}
static void
lmq_end(void)
{
	nng_msg *m;
	int      first = 1;
	o("\"fin\":[");
	while (nni_lmq_get(&lmq, &m) == 0) {
		o("%s%u", first ? "" : ",", msgid(m));
		first = 0;
		nng_msg_free(m);
	}
	o("]");
	nni_lmq_fini(&lmq);
	lmq_live = 0;
}

// ------------------------------------------------------------------ msgq
#define MAXOPS 64
static nni_msgq *mq;
static struct {
	nni_aio *aio;
	int      isput;
	uint32_t m;
	int      done; // result already harvested
	char     st[16];
	uint32_t rm;
} mqop[MAXOPS];
static int nmqop;
static int mq_rfd = -1, mq_wfd = -1; // the poll descriptors a raw socket hands out for this queue
#include <poll.h>
static int
fd_readable(int fd)
{
	struct pollfd p = { .fd = fd, .events = POLLIN };
	return fd >= 0 && poll(&p, 1, 0) == 1 && (p.revents & POLLIN) != 0;
}

static void
mq_harvest(void)
{
	for (int i = 0; i < nmqop; i++) {
		if (mqop[i].done != 0 || nni_aio_busy(mqop[i].aio)) {
			continue;
		}
		int      rv = nni_aio_result(mqop[i].aio);
		nng_msg *m  = nni_aio_get_msg(mqop[i].aio);
		mqop[i].done = 1;
		snprintf(mqop[i].st, sizeof(mqop[i].st), "%s", rv == NNG_ECLOSED ? "closed" : rvname(rv));
		if (mqop[i].isput) {
			mqop[i].rm = mqop[i].m;
			if (rv != 0) {
				// failed send: the message must still be attached, and still ours
				if (m == NULL || msgid(m) != mqop[i].m) {
					snprintf(mqop[i].st, sizeof(mqop[i].st), "lostmsg");
				} else {
					nng_msg_free(m);
				}
			} else if (m != NULL) {
				snprintf(mqop[i].st, sizeof(mqop[i].st), "msgkept");
			}
		} else {
			if (rv == 0 && m != NULL) {
				mqop[i].rm = msgid(m);
				nng_msg_free(m);
			} else {
				mqop[i].rm = 0;
			}
		}
		nni_aio_set_msg(mqop[i].aio, NULL);
	}
}
static void
mq_done_obs(const char *rv)
{
	int first = 1, npend = 0;
	mq_harvest();
	if (rv != NULL) {
		o("{\"out\":{\"rv\":\"%s\",\"done\":[", rv);
	} else {
		o("{\"out\":{\"done\":[");
	}
	for (int i = 0; i < nmqop; i++) {
		if (mqop[i].done == 1) {
			o("%s{\"i\":%d,\"k\":\"%s\",\"m\":%u,\"st\":\"%s\"}", first ? "" : ",", i + 1,
			    mqop[i].isput ? "put" : "get", mqop[i].rm, mqop[i].st);
			first        = 0;
			mqop[i].done = 2; // reported
		} else if (mqop[i].done == 0) {
			npend++;
		}
	}
	o("]},\"obs\":{\"cap\":%d,\"npend\":%d,\"pollr\":\"%d\",\"pollw\":\"%d\"}}", nni_msgq_cap(mq), npend, fd_readable(mq_rfd),
	    fd_readable(mq_wfd));
}
static void
do_mq(char *act, long a1)
{
	int         rv;
	const char *rvs = NULL;
	if (!strcmp(act, "init")) {
		nni_pollable *pr, *pw;
		if (nni_msgq_init(&mq, (unsigned) a1) != 0) {
			abort();
		}
		// as nng_socket_get_recv_poll_fd / get_send_poll_fd do on a raw socket: asked for once, then only polled
		if (nni_msgq_get_recvable(mq, &pr) != 0 || nni_msgq_get_sendable(mq, &pw) != 0 || nni_pollable_getfd(pr, &mq_rfd) != 0 ||
		    nni_pollable_getfd(pw, &mq_wfd) != 0) {
			abort();
		}
		nmqop = 0;
		return;
	}
	if (!strcmp(act, "aio_put") || !strcmp(act, "aio_get") || !strcmp(act, "nb_put") || !strcmp(act, "nb_get")) {
		int nb    = act[0] == 'n';
		int isput = act[nb ? 3 : 4] == 'p';
		if (nmqop >= MAXOPS) {
			exit(3);
		}
		if (nni_aio_alloc(&mqop[nmqop].aio, NULL, NULL) != 0) {
			abort();
		}
		mqop[nmqop].isput = isput;
		mqop[nmqop].m     = (uint32_t) a1;
		mqop[nmqop].done  = 0;
		nmqop++;
		if (nb) {
			nni_aio_set_timeout(mqop[nmqop - 1].aio, NNG_DURATION_ZERO); // NNG_FLAG_NONBLOCK
		}
		if (isput) {
			nni_aio_set_msg(mqop[nmqop - 1].aio, mkmsg((uint32_t) a1));
			nni_msgq_aio_put(mq, mqop[nmqop - 1].aio);
		} else {
			nni_msgq_aio_get(mq, mqop[nmqop - 1].aio);
		}
		if (nb) {
			nni_aio_wait(mqop[nmqop - 1].aio); // a zero-timeout operation always ends at once
		}
	} else if (!strcmp(act, "tryput")) {
		nng_msg *m = mkmsg((uint32_t) a1);
		rv         = nni_msgq_tryput(mq, m);
		if (rv != 0) {
			nng_msg_free(m);
		}
		rvs = rvname(rv);
	} else if (!strcmp(act, "cancel")) {
		nni_aio_abort(mqop[a1 - 1].aio, NNG_ECANCELED);
	} else if (!strcmp(act, "close")) {
		nni_msgq_close(mq);
	} else if (!strcmp(act, "resize")) {
		rv  = nni_msgq_resize(mq, (int) a1);
		rvs = rvname(rv);
	} else {
		fprintf(stderr, "bad mq action %s\n", act);
		exit(3);
	}
	mq_done_obs(rvs);
	emit();
}
static void
mq_end(void)
{
	// destructive: drain with fresh getters (closed queue is already empty)
	int first = 1;
	o("\"fin\":[");
	// cancel everything still pending so the drain below sees only buffered data
	for (int i = 0; i < nmqop; i++) {
		if (mqop[i].done == 0) {
			nni_aio_abort(mqop[i].aio, NNG_ECANCELED);
		}
	}
	mq_harvest();
	for (;;) {
		nni_aio *a;
		nni_aio_alloc(&a, NULL, NULL);
		nni_msgq_aio_get(mq, a);
		if (nni_aio_busy(a)) {
			nni_aio_abort(a, NNG_ECANCELED);
			nni_aio_free(a);
			break;
		}
		if (nni_aio_result(a) != 0) {
			nni_aio_free(a);
			break;
		}
		nng_msg *m = nni_aio_get_msg(a);
		o("%s%u", first ? "" : ",", msgid(m));
		first = 0;
		nng_msg_free(m);
		nni_aio_free(a);
	}
	o("]");
	for (int i = 0; i < nmqop; i++) {
		nni_aio_free(mqop[i].aio);
	}
	nmqop = 0;
	nni_msgq_fini(mq);
	mq = NULL;
}

// ------------------------------------------------------------------ id map
static nng_id_map *idm;
static char        vbase[64];
static void
id_obs(void)
{
	uint64_t keys[256];
	int      vals[256];
	int      n = 0;
	uint64_t k;
	void    *v;
	uint32_t cursor = 0;
	while (nng_id_visit(idm, &k, &v, &cursor) && n < 256) {
		keys[n] = k;
		vals[n] = (int) ((char *) v - vbase);
		n++;
	}
	// sort by key
	for (int i = 0; i < n; i++) {
		for (int j = i + 1; j < n; j++) {
			if (keys[j] < keys[i]) {
				uint64_t tk = keys[i];
				int      tv = vals[i];
				keys[i]     = keys[j];
				vals[i]     = vals[j];
				keys[j]     = tk;
				vals[j]     = tv;
			}
		}
	}
	o(",\"obs\":{\"count\":%d,\"m\":[", n);
	for (int i = 0; i < n; i++) {
		o("%s[%llu,%d]", i ? "," : "", (unsigned long long) keys[i], vals[i]);
	}
	o("]}}");
}
static void
do_id(char *act, long a1, long a2)
{
	int rv;
	if (!strcmp(act, "init")) {
		if (nng_id_map_alloc(&idm, (uint64_t) a1, (uint64_t) a2, 0) != 0) {
			abort();
		}
		return;
	}
	if (!strcmp(act, "set")) {
		rv = nng_id_set(idm, (uint64_t) a1, vbase + a2);
		o("{\"out\":{\"rv\":\"%s\"}", rvname(rv));
	} else if (!strcmp(act, "get")) {
		void *v = nng_id_get(idm, (uint64_t) a1);
		o("{\"out\":{\"v\":%d}", v == NULL ? 0 : (int) ((char *) v - vbase));
	} else if (!strcmp(act, "remove")) {
		rv = nng_id_remove(idm, (uint64_t) a1);
		o("{\"out\":{\"rv\":\"%s\"}", rvname(rv));
	} else if (!strcmp(act, "alloc")) {
		uint64_t id = 0;
		rv          = nng_id_alloc(idm, &id, vbase + a1);
		o("{\"out\":{\"rv\":\"%s\",\"id\":%llu}", rvname(rv), rv == 0 ? (unsigned long long) id : 0ULL);
	} else {
		fprintf(stderr, "bad id action %s\n", act);
		exit(3);
	}
	id_obs();
	emit();
}

// ------------------------------------------------------------------ msg
static nng_msg *msg;
static void
rle(const char *name, const uint8_t *p, size_t n)
{
	o("\"%s\":[", name);
	size_t i = 0;
	int    first = 1;
	while (i < n) {
		size_t j = i;
		while (j < n && p[j] == p[i]) {
			j++;
		}
		o("%s[%u,%zu]", first ? "" : ",", p[i], j - i);
		first = 0;
		i     = j;
	}
	o("]");
}
static void
msg_obs(void)
{
	size_t len = nng_msg_len(msg), hlen = nng_msg_header_len(msg);
	o(",\"obs\":{\"len\":%zu,\"hlen\":%zu,", len, hlen);
	rle("body", nng_msg_body(msg), len);
	o(",");
	rle("hdr", nng_msg_header(msg), hlen);
	o(",\"capok\":%s}}", nng_msg_capacity(msg) >= len ? "true" : "false");
}
static void
vbytes(uint64_t v, int k)
{
	o(",\"v\":[");
	for (int i = k - 1; i >= 0; i--) {
		o("%u%s", (unsigned) ((v >> (8 * i)) & 0xff), i ? "," : "");
	}
	o("]");
}
static uint64_t
ramp(long t, int k)
{
	uint64_t v = 0;
	for (int i = 0; i < k; i++) {
		v = (v << 8) | (uint64_t) ((t + i) & 0xff);
	}
	return v;
}
static void
do_msg(char *act, long n, long t)
{
	int      rv  = 0;
	int      hdr = !strncmp(act, "h_", 2);
	char    *a   = hdr ? act + 2 : act;
	uint8_t *tmp = NULL;
	if (!strcmp(act, "init")) {
		if (nng_msg_alloc(&msg, (size_t) n) != 0) {
			abort();
		}
		if (n > 0) {
			memset(nng_msg_body(msg), (int) t, (size_t) n);
		}
		return;
	}
	if (!strcmp(a, "append") || !strcmp(a, "insert")) {
		tmp = malloc((size_t) n + 1);
		memset(tmp, (int) t, (size_t) n);
		if (hdr) {
			rv = a[0] == 'a' ? nng_msg_header_append(msg, tmp, (size_t) n)
			                 : nng_msg_header_insert(msg, tmp, (size_t) n);
		} else {
			rv = a[0] == 'a' ? nng_msg_append(msg, tmp, (size_t) n) : nng_msg_insert(msg, tmp, (size_t) n);
		}
		free(tmp);
		o("{\"out\":{\"rv\":\"%s\"}", rvname(rv));
	} else if (!strcmp(a, "append_u") || !strcmp(a, "insert_u")) {
		uint64_t v  = ramp(t, (int) n);
		int      ap = a[0] == 'a';
		if (hdr) {
			rv = n == 2 ? (ap ? nng_msg_header_append_u16(msg, (uint16_t) v) : nng_msg_header_insert_u16(msg, (uint16_t) v))
			   : n == 4 ? (ap ? nng_msg_header_append_u32(msg, (uint32_t) v) : nng_msg_header_insert_u32(msg, (uint32_t) v))
			            : (ap ? nng_msg_header_append_u64(msg, v) : nng_msg_header_insert_u64(msg, v));
		} else {
			rv = n == 2 ? (ap ? nng_msg_append_u16(msg, (uint16_t) v) : nng_msg_insert_u16(msg, (uint16_t) v))
			   : n == 4 ? (ap ? nng_msg_append_u32(msg, (uint32_t) v) : nng_msg_insert_u32(msg, (uint32_t) v))
			            : (ap ? nng_msg_append_u64(msg, v) : nng_msg_insert_u64(msg, v));
		}
		o("{\"out\":{\"rv\":\"%s\"}", rvname(rv));
	} else if (!strcmp(a, "trim") || !strcmp(a, "chop")) {
		if (hdr) {
			rv = a[0] == 't' ? nng_msg_header_trim(msg, (size_t) n) : nng_msg_header_chop(msg, (size_t) n);
		} else {
			rv = a[0] == 't' ? nng_msg_trim(msg, (size_t) n) : nng_msg_chop(msg, (size_t) n);
		}
		o("{\"out\":{\"rv\":\"%s\"}", rvname(rv));
	} else if (!strcmp(a, "trim_u") || !strcmp(a, "chop_u")) {
		uint16_t v16 = 0;
		uint32_t v32 = 0;
		uint64_t v64 = 0;
		int      tr  = a[0] == 't';
		if (hdr) {
			rv = n == 2 ? (tr ? nng_msg_header_trim_u16(msg, &v16) : nng_msg_header_chop_u16(msg, &v16))
			   : n == 4 ? (tr ? nng_msg_header_trim_u32(msg, &v32) : nng_msg_header_chop_u32(msg, &v32))
			            : (tr ? nng_msg_header_trim_u64(msg, &v64) : nng_msg_header_chop_u64(msg, &v64));
		} else {
			rv = n == 2 ? (tr ? nng_msg_trim_u16(msg, &v16) : nng_msg_chop_u16(msg, &v16))
			   : n == 4 ? (tr ? nng_msg_trim_u32(msg, &v32) : nng_msg_chop_u32(msg, &v32))
			            : (tr ? nng_msg_trim_u64(msg, &v64) : nng_msg_chop_u64(msg, &v64));
		}
		o("{\"out\":{\"rv\":\"%s\"", rvname(rv));
		if (rv == 0) {
			vbytes(n == 2 ? v16 : n == 4 ? v32 : v64, (int) n);
		} else {
			o(",\"v\":[]");
		}
		o("}");
	} else if (!strcmp(a, "realloc")) {
		size_t old = nng_msg_len(msg);
		rv         = nng_msg_realloc(msg, (size_t) n);
		if (rv == 0 && (size_t) n > old) {
			memset((uint8_t *) nng_msg_body(msg) + old, (int) t, (size_t) n - old);
		}
		o("{\"out\":{\"rv\":\"%s\"}", rvname(rv));
	} else if (!strcmp(a, "reserve")) {
		rv = nng_msg_reserve(msg, (size_t) n);
		// the reserved capacity must be writable
		if (rv == 0 && nng_msg_capacity(msg) > nng_msg_len(msg)) {
			size_t l = nng_msg_len(msg), c = nng_msg_capacity(msg);
			if (c < (size_t) n) {
				rv = -1; // reserve did not provide what was asked
			}
			memset((uint8_t *) nng_msg_body(msg) + l, 0xEE, c - l);
		}
		o("{\"out\":{\"rv\":\"%s\"}", rvname(rv));
	} else if (!strcmp(a, "clear")) {
		if (hdr) {
			nng_msg_header_clear(msg);
		} else {
			nng_msg_clear(msg);
		}
		o("{\"out\":{\"rv\":\"ok\"}");
	} else if (!strcmp(a, "dup")) {
		nng_msg *d = NULL;
		rv         = nng_msg_dup(&d, msg);
		if (rv == 0) {
			// independence: scribble over the original in every way, then release it
			uint8_t z[8] = { 0xEE, 0xEE, 0xEE, 0xEE, 0xEE, 0xEE, 0xEE, 0xEE };
			if (nng_msg_len(msg) > 0) {
				memset(nng_msg_body(msg), 0xEE, nng_msg_len(msg));
			}
			if (nng_msg_header_len(msg) > 0) {
				memset(nng_msg_header(msg), 0xEE, nng_msg_header_len(msg));
			}
			nng_msg_append(msg, z, 8);
			nng_msg_insert(msg, z, 8);
			nng_msg_header_clear(msg);
			nng_msg_free(msg);
			msg = d;
		}
		o("{\"out\":{\"rv\":\"%s\"}", rvname(rv));
	} else {
		fprintf(stderr, "bad msg action %s\n", act);
		exit(3);
	}
	msg_obs();
	emit();
}


// ------------------------------------------------------------------ http chunked transfer decoder (HttpChunk.tla)
#include "supplemental/http/http_api.h"
static nni_http_chunks *hc;
static size_t           hc_maxsz;
static uint8_t          hc_stream[8192]; // every byte offered to the decoder in this walk, in order
static size_t           hc_len;
static size_t           hc_eaten;     // bytes the decoder reported as consumed
static size_t           hc_start[32]; // stream offset at which the data of chunk i starts
static int              hc_nstart;
static int              hc_lastrv;
static const char *
hc_rvname(int rv)
{
	switch (rv) {
	case 0: return "ok";
	case NNG_EAGAIN: return "again";
	case NNG_EPROTO: return "eproto";
	case NNG_EMSGSIZE: return "emsgsize";
	default: return rvname(rv);
	}
}
static int
hc_count(nni_http_chunks *cl)
{
	int n = 0;
	for (nni_http_chunk *c = nni_http_chunks_iter(cl, NULL); c != NULL; c = nni_http_chunks_iter(cl, c)) {
		n++;
	}
	return n;
}
// concrete bytes of a character class; printable filler varies with the position so that a shifted copy is seen
static size_t
hc_token(const char *t, uint8_t *dst, size_t pos)
{
	static const char fill[] = "~!#$%&*+-./";
	if (!strcmp(t, "HUGE")) {
		memcpy(dst, "ffffffffffffffff", 16);
		return 16;
	}
	dst[0] = !strcmp(t, "~")  ? (uint8_t) fill[pos % 11]
	    : !strcmp(t, "SP")    ? ' '
	    : !strcmp(t, "TAB")   ? '\t'
	    : !strcmp(t, "CR")    ? '\r'
	    : !strcmp(t, "LF")    ? '\n'
	    : !strcmp(t, "HI")    ? 0x80
	                          : (uint8_t) t[0];
	return 1;
}
// sizes, total and whether the data collected so far equals the stream bytes behind each chunk line
static void
hc_obs(nni_http_chunks *cl, size_t eaten, const size_t *start)
{
	int ok = 1, i = 0;
	o(",\"obs\":{\"sizes\":[");
	for (nni_http_chunk *c = nni_http_chunks_iter(cl, NULL); c != NULL; c = nni_http_chunks_iter(cl, c), i++) {
		size_t sz = nni_http_chunk_size(c), have = eaten > start[i] ? eaten - start[i] : 0;
		o("%s%zu", i ? "," : "", sz);
		if (have > sz) {
			have = sz;
		}
		if (have > 0 && memcmp(nni_http_chunk_data(c), hc_stream + start[i], have) != 0) {
			ok = 0;
		}
	}
	o("],\"total\":%zu,\"dataok\":%s}}", nni_http_chunks_size(cl), ok ? "true" : "false");
}
static void
do_chunk(char *act, long a1, const char *tok)
{
	if (!strcmp(act, "init")) {
		hc_maxsz = (size_t) a1;
		if (nni_http_chunks_init(&hc, hc_maxsz) != 0) {
			abort();
		}
		hc_len = hc_eaten = 0;
		hc_nstart         = 0;
		hc_lastrv         = NNG_EAGAIN;
		return;
	}
	if (strcmp(act, "feed") != 0 || hc_len + 16 > sizeof(hc_stream)) {
		fprintf(stderr, "bad chunk action %s\n", act);
		exit(3);
	}
	size_t n   = hc_token(tok, hc_stream + hc_len, hc_len);
	size_t len = 0;
	int    c0  = hc_count(hc);
	int    rv  = nni_http_chunks_parse(hc, hc_stream + hc_len, n, &len);
	hc_len += n;
	hc_eaten += len;
	hc_lastrv = rv;
	if (hc_count(hc) > c0 && hc_nstart < 32) {
		hc_start[hc_nstart++] = hc_eaten; // the data begins right behind the LF that created the chunk
	}
	o("{\"out\":{\"rv\":\"%s\",\"eat\":%zu}", hc_rvname(rv), len);
	hc_obs(hc, hc_eaten, hc_start);
	emit();
}
// The same byte stream parsed again under other segmentations must give the same outcome: result, bytes consumed, chunks.
static void
hc_end(void)
{
	static const int pieces[] = { 0, 1, 2, 3, 5, 7, -1, -2, -3 };
	char             why[96] = "";
	unsigned         seed    = (unsigned) walk * 2654435761u + 12345u;
	for (size_t k = 0; k < sizeof(pieces) / sizeof(pieces[0]) && !why[0]; k++) {
		nni_http_chunks *cl;
		size_t           pos = 0;
		int              rv  = NNG_EAGAIN;
		if (nni_http_chunks_init(&cl, hc_maxsz) != 0) {
			abort();
		}
		while (pos < hc_len) {
			size_t n = hc_len - pos, len = 0;
			if (pieces[k] > 0 && n > (size_t) pieces[k]) {
				n = (size_t) pieces[k];
			} else if (pieces[k] < 0) {
				seed = seed * 1103515245u + 12345u;
				size_t r = 1 + (seed >> 16) % 6;
				n        = n > r ? r : n;
			}
			rv = nni_http_chunks_parse(cl, hc_stream + pos, n, &len);
			pos += len;
			if (rv != NNG_EAGAIN) {
				break;
			}
			if (len != n) {
				snprintf(why, sizeof(why), "seg%d:again-with-%zu-of-%zu", pieces[k], len, n);
				break;
			}
		}
		if (!why[0] && (rv != hc_lastrv || pos != hc_eaten)) {
			snprintf(why, sizeof(why), "seg%d:%s@%zu-for-%s@%zu", pieces[k], hc_rvname(rv), pos, hc_rvname(hc_lastrv), hc_eaten);
		}
		if (!why[0]) {
			nni_http_chunk *a = nni_http_chunks_iter(hc, NULL), *b = nni_http_chunks_iter(cl, NULL);
			int             i = 0;
			for (; a != NULL && b != NULL; a = nni_http_chunks_iter(hc, a), b = nni_http_chunks_iter(cl, b), i++) {
				size_t sz = nni_http_chunk_size(a), have = hc_eaten > hc_start[i] ? hc_eaten - hc_start[i] : 0;
				have = have > sz ? sz : have;
				if (nni_http_chunk_size(b) != sz || (have > 0 && memcmp(nni_http_chunk_data(b), hc_stream + hc_start[i], have) != 0)) {
					snprintf(why, sizeof(why), "seg%d:chunk%d-differs", pieces[k], i);
					break;
				}
			}
			if (!why[0] && (a != NULL || b != NULL || nni_http_chunks_size(cl) != nni_http_chunks_size(hc))) {
				snprintf(why, sizeof(why), "seg%d:chunk-count", pieces[k]);
			}
		}
		nni_http_chunks_free(cl);
	}
	nni_http_chunks_free(hc);
	hc = NULL;
	if (why[0]) {
		o("\"fin\":\"%s\"", why);
	} else {
		o("\"fin\":0");
	}
}

// ------------------------------------------------------------------ ids (spec data/Ids.tla)
// sockets, contexts, dialers, listeners: every id handed out during the life of this process is remembered
#define IDS_MAXLIVE 8
#define IDS_EVER 65536
static struct {
	int      n;
	uint32_t id[IDS_MAXLIVE];
	union {
		nng_socket   s;
		nng_ctx      c;
		nng_dialer   d;
		nng_listener l;
	} h[IDS_MAXLIVE];
	uint32_t *ever;
	int       never;
} idk[4];
static nng_init_params ids_params;
static long long       ids_after_fini = -1;
static int
ids_kind(const char *k)
{
	return !strcmp(k, "sock") ? 0 : !strcmp(k, "ctx") ? 1 : !strcmp(k, "dialer") ? 2 : 3;
}
static int
ids_close_handle(int k, int i)
{
	switch (k) {
	case 0: return nng_socket_close(idk[k].h[i].s);
	case 1: return nng_ctx_close(idk[k].h[i].c);
	case 2: return nng_dialer_close(idk[k].h[i].d);
	default: return nng_listener_close(idk[k].h[i].l);
	}
}
static void
do_ids(char *act, char *kind, long a2)
{
	int k = ids_kind(kind), rv = 0;
	if (!strcmp(act, "init")) {
		for (int j = 0; j < 4; j++) {
			idk[j].n = 0;
		}
		return;
	}
	if (!strcmp(act, "open")) {
		uint32_t id = 0;
		int      i = idk[k].n, fresh = 1, uniq = 1;
		if (k == 0) {
			rv = nng_rep0_open(&idk[k].h[i].s);
			id = (uint32_t) nng_socket_id(idk[k].h[i].s);
		} else if (k == 1) {
			rv = nng_ctx_open(&idk[k].h[i].c, idk[0].h[0].s);
			id = (uint32_t) nng_ctx_id(idk[k].h[i].c);
		} else if (k == 2) {
			rv = nng_dialer_create(&idk[k].h[i].d, idk[0].h[0].s, "inproc://ids-d");
			id = (uint32_t) nng_dialer_id(idk[k].h[i].d);
		} else {
			rv = nng_listener_create(&idk[k].h[i].l, idk[0].h[0].s, "inproc://ids-l");
			id = (uint32_t) nng_listener_id(idk[k].h[i].l);
		}
		if (rv == 0) {
			if (idk[k].ever == NULL) {
				idk[k].ever = calloc(IDS_EVER, sizeof(uint32_t));
			}
			for (int j = 0; j < idk[k].never; j++) {
				fresh &= idk[k].ever[j] != id;
			}
			for (int j = 0; j < i; j++) {
				uniq &= idk[k].id[j] != id;
			}
			if (idk[k].never < IDS_EVER) {
				idk[k].ever[idk[k].never++] = id;
			}
			idk[k].id[i] = id;
			idk[k].n++;
		}
		if (rv != 0) {
			o("{\"out\":{\"rv\":\"%s\"}", rvname(rv));
		} else {
			o("{\"out\":{\"rv\":\"ok\",\"fresh\":%s,\"inrange\":%s,\"unique\":%s}", fresh ? "true" : "false",
			    (id >= 1 && id <= 0x7fffffffu) ? "true" : "false", uniq ? "true" : "false");
		}
	} else if (!strcmp(act, "close")) {
		int i = (int) a2 - 1, rv2;
		rv  = ids_close_handle(k, i);
		rv2 = ids_close_handle(k, i); // the handle is stale now: it must be refused, whatever was opened meanwhile
		for (int j = i; j + 1 < idk[k].n; j++) {
			idk[k].id[j] = idk[k].id[j + 1];
			idk[k].h[j]  = idk[k].h[j + 1];
		}
		idk[k].n--;
		o("{\"out\":{\"rv\":\"%s\",\"stale\":\"%s\"}", rv == 0 ? "ok" : nng_strerror(rv),
		    (rv2 == NNG_ECLOSED || rv2 == NNG_ENOENT) ? "refused" : rv2 == 0 ? "accepted" : nng_strerror(rv2));
	} else if (!strcmp(act, "cycle")) {
		nng_fini();
		rv = nng_init(&ids_params);
		o("{\"out\":{\"rv\":\"%s\"}", rv == 0 ? "ok" : nng_strerror(rv));
	} else {
		fprintf(stderr, "bad ids action %s\n", act);
		exit(3);
	}
	o(",\"obs\":{\"nlive\":{\"sock\":%d,\"ctx\":%d,\"dialer\":%d,\"listener\":%d}}}", idk[0].n, idk[1].n, idk[2].n, idk[3].n);
	emit();
}
static void
ids_end(void)
{
	for (int k = 3; k >= 0; k--) {
		while (idk[k].n > 0) {
			ids_close_handle(k, idk[k].n - 1);
			idk[k].n--;
		}
	}
	o("\"fin\":0");
	// the balance of an ids walk is taken where it is exact: after nng_fini nothing may be left (the static id tables are created
	// lazily and would otherwise look like a leak of the walk that first used them)
	nng_fini();
	ids_after_fini = (long long) acct_live_blocks();
	if (ids_after_fini != 0) {
		acct_dump_live(8);
	}
	if (nng_init(&ids_params) != 0) {
		abort();
	}
}

// ------------------------------------------------------------------ main loop
int
main(int argc, char **argv)
{
	nng_init_params p;
	char            line[512];
	char            cur[8] = "";
	uint64_t        live0  = 0;
	FILE           *in     = stdin;

	memset(&p, 0, sizeof(p));
	acct_fill_params(&p);
	ids_params = p;
	if (nng_init(&p) != 0) {
		fprintf(stderr, "nng_init failed\n");
		return 3;
	}
	if (argc > 1 && (in = fopen(argv[1], "r")) == NULL) {
		perror(argv[1]);
		return 3;
	}
	while (fgets(line, sizeof(line), in) != NULL) {
		char obj[32] = "", act[32] = "";
		long a1 = 0, a2 = 0;
		int  n = sscanf(line, "%31s %31s %ld %ld", obj, act, &a1, &a2);
		if (n < 1) {
			continue;
		}
		if (!strcmp(obj, "W")) {
			walk   = atol(act);
			step   = 0;
			live0  = acct_live_blocks();
			cur[0] = 0;
			printf("B %ld\n", walk);
			fflush(stdout);
			continue;
		}
		if (!strcmp(obj, "E")) {
			uint64_t mism0 = acct_size_mismatches(), bad0 = acct_bad_frees();
			o("{");
			if (!strcmp(cur, "lmq")) {
				lmq_end();
			} else if (!strcmp(cur, "mq")) {
				mq_end();
			} else if (!strcmp(cur, "id")) {
				nng_id_map_free(idm);
				idm = NULL;
				o("\"fin\":0");
			} else if (!strcmp(cur, "msg")) {
				nng_msg_free(msg);
				msg = NULL;
				o("\"fin\":0");
			} else if (!strcmp(cur, "chunk")) {
				hc_end();
			} else if (!strcmp(cur, "ids")) {
				ids_end();
			} else {
				o("\"fin\":0");
			}
			(void) mism0;
			(void) bad0;
			o(",\"leak\":%lld,\"mism\":%llu,\"badfree\":%llu}", !strcmp(cur, "ids") ? ids_after_fini : (long long) acct_live_blocks() - (long long) live0,
			    (unsigned long long) acct_size_mismatches(), (unsigned long long) acct_bad_frees());
			printf("X %ld %s\n", walk, ob);
			fflush(stdout);
			on = 0;
			continue;
		}
		snprintf(cur, sizeof(cur), "%s", obj);
		na0 = acct_total_allocs();
		{
			char *f = strstr(line, " F");
			acct_fail_at(f != NULL ? (uint64_t) atoi(f + 2) : 0);
		}
		if (!strcmp(obj, "lmq")) {
			do_lmq(act, a1);
		} else if (!strcmp(obj, "mq")) {
			do_mq(act, a1);
		} else if (!strcmp(obj, "id")) {
			do_id(act, a1, a2);
		} else if (!strcmp(obj, "msg")) {
			do_msg(act, a1, a2);
		} else if (!strcmp(obj, "ids")) {
			char kind[32] = "";
			long idx      = 0;
			sscanf(line, "%*s %*s %31s %ld", kind, &idx);
			do_ids(act, kind, idx);
		} else if (!strcmp(obj, "chunk")) {
			char tok[32] = "";
			sscanf(line, "%*s %*s %31s", tok);
			do_chunk(act, a1, tok);
		} else {
			fprintf(stderr, "bad object %s\n", obj);
			return 3;
		}
		acct_fail_at(0);
	}
	nng_fini();
	if (acct_live_blocks() != 0) {
		printf("L %llu\n", (unsigned long long) acct_live_blocks());
		acct_dump_live(10);
	}
	printf("Z\n");
	return 0;
}
