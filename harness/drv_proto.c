// drv_proto: steps one SP socket (the SUT) deterministically.  The driver is every peer (through the
// harness transport vtran), the application (send/recv/cancel/options/close) and the scheduler (gated
// callbacks are released one at a time; the clock is virtual).  One command per line, one result line
// per step:  R <walk> <step> {"out":..., "obs":{...}}   (same framing as drv_data.c).
#include "acct.h"
#include "dee.h"
#include "vtran.h"
#include "core/sockimpl.h"
#include <poll.h>
#include <pthread.h>
#include <signal.h>
#include <stdarg.h>
#include <stdio.h>
#include <stdlib.h>
#include <string.h>
#include <time.h>
#include <unistd.h>

#include <nng/nng.h>

#define MAXOPS 32
#define MAXCTX 8

static nng_socket sut;
static nng_listener the_listener;
static nng_dialer   the_dialer;
static int          have_dialer;
static int          life_mode;   // record all pipe events, report endpoint state
static int          ctx_ever1;
static int          reject_next; // the ADD_PRE callback closes the pipe
static char         evbuf[512];
static size_t       evn;
static int          evcnt[VT_MAXSLOTS];
static nng_pipe     slot_pipe[VT_MAXSLOTS]; // application handles of the pipes, by slot (for probing after close)
static int        sut_open;
static uint16_t   peer_proto;
static char       proto_name[32];
static int        raw_mode;
static nng_ctx    ctxs[MAXCTX];
static int        ctx_open_[MAXCTX];

typedef struct {
	nng_aio *aio;
	int      used;
	int      issend;
	int      done;     // callback has run
	int      reported;
	int      rv;
	uint32_t tag;      // body tag of the received message (recv) / sent message (send)
	uint32_t hdr[20];
	int      nhdr;
	uint32_t pipe;     // pipe id of a received message
	int      msgkept;  // failed send: message still attached to the aio
	int      id;
	int      ncb;      // how often the callback ran (C02: exactly once per operation)
	int      nomsg;    // the operation carries no message (dial)
} op_t;
static op_t ops[MAXOPS + 1];

static char   ob[1 << 16];
static size_t on;
static void
o(const char *fmt, ...)
{
	va_list ap;
	va_start(ap, fmt);
	on += (size_t) vsnprintf(ob + on, sizeof(ob) - on, fmt, ap);
	va_end(ap);
}

static const char *
rvname(int rv)
{
	switch (rv) {
	case 0: return "ok";
	case -1: return "blocked";
	case NNG_EAGAIN: return "eagain";
	case NNG_ETIMEDOUT: return "etimedout";
	case NNG_ECANCELED: return "ecanceled";
	case NNG_ECLOSED: return "eclosed";
	case NNG_ESTATE: return "estate";
	case NNG_ENOTSUP: return "enotsup";
	case NNG_ECONNRESET: return "econnreset";
	case NNG_ECONNSHUT: return "econnshut";
	case NNG_ESTOPPED: return "estopped";
	case NNG_EINVAL: return "einval";
	case NNG_ENOMEM: return "enomem";
	case NNG_ENOENT: return "enoent";
	case NNG_EPROTO: return "eproto";
	case NNG_EBUSY: return "ebusy";
	case NNG_ECONNREFUSED: return "econnrefused";
	case NNG_ECONNABORTED: return "econnaborted";
	default: {
		static char b[24];
		snprintf(b, sizeof(b), "rv%d", rv);
		return b;
	}
	}
}

static uint32_t
get32(const uint8_t *p)
{
	return ((uint32_t) p[0] << 24) | ((uint32_t) p[1] << 16) | ((uint32_t) p[2] << 8) | p[3];
}

// a message as a JSON object: header words (if any, 4-byte aligned) and the body tag.
// body: 4 bytes = tag; otherwise "len" is reported and tag = first 4 bytes (or 0)
static int symw;
static nng_aio *dev_aio;
static int dev_plain; // device kinds pipeline / pair: plain tagged messages, device life cycle reported (spec dev/DevLife.tla)
static int dev_mode; // "proto device <kind>": sut = replier-side raw socket, sut2 = requester-side raw socket, nng_device between
static void
sym_word(uint32_t w, int first)
{
	// device mode: words as ["p",slot] (id of the pipe in that slot), ["i",n] (top bit set) or ["h",n]
	for (int s = 1; s < VT_MAXSLOTS; s++) {
		if (w != 0 && vt_pipe_id(s) == w) {
			o("%s[\"p\",%d]", first ? "" : ",", s);
			return;
		}
	}
	o("%s[\"%s\",%u]", first ? "" : ",", (w & 0x80000000u) ? "i" : "h", w & 0x7fffffffu);
}
static void
msg_json(nng_msg *m)
{
	size_t   hl = nng_msg_header_len(m), bl = nng_msg_len(m);
	uint8_t *h = nng_msg_header(m), *b = nng_msg_body(m);
	if (dev_mode && !dev_plain) {
		o("{\"hdr\":[");
		for (size_t i = 0; i + 4 <= hl; i += 4) {
			sym_word(get32(h + i), i == 0);
		}
		o("],\"body\":[");
		for (size_t i = 0; i + 4 <= bl; i += 4) {
			sym_word(get32(b + i), i == 0);
		}
		o("]");
		if (hl % 4 || bl % 4) {
			o(",\"ragged\":true");
		}
		o("}");
		return;
	}
	o("{\"hdr\":[");
	for (size_t i = 0; i + 4 <= hl; i += 4) {
		uint32_t w = get32(h + i);
		if (symw) {
			// symbolic words: "i<n>" has the request/survey bit, "h<n>" does not
			o("%s\"%c%u\"", i ? "," : "", (w & 0x80000000u) ? 'i' : 'h', w & 0x7fffffffu);
		} else {
			o("%s%u", i ? "," : "", w);
		}
	}
	o("],\"m\":%u", bl >= 4 ? get32(b) : 0);
	if (bl != 4) {
		o(",\"len\":%zu", bl);
	}
	if (hl % 4) {
		o(",\"hlen\":%zu", hl);
	}
	o("}");
}

static uint16_t
proto_id(const char *n)
{
	if (!strcmp(n, "pair0")) return NNI_PROTO(1, 0);
	if (!strcmp(n, "pair1")) return NNI_PROTO(1, 1);
	if (!strcmp(n, "pub")) return NNI_PROTO(2, 0);
	if (!strcmp(n, "sub")) return NNI_PROTO(2, 1);
	if (!strcmp(n, "req")) return NNI_PROTO(3, 0);
	if (!strcmp(n, "rep")) return NNI_PROTO(3, 1);
	if (!strcmp(n, "push")) return NNI_PROTO(5, 0);
	if (!strcmp(n, "pull")) return NNI_PROTO(5, 1);
	if (!strcmp(n, "surveyor")) return NNI_PROTO(6, 2);
	if (!strcmp(n, "respondent")) return NNI_PROTO(6, 3);
	if (!strcmp(n, "bus")) return NNI_PROTO(7, 0);
	return 0;
}
static const char *
peer_of(const char *n)
{
	if (!strcmp(n, "pub")) return "sub";
	if (!strcmp(n, "sub")) return "pub";
	if (!strcmp(n, "req")) return "rep";
	if (!strcmp(n, "rep")) return "req";
	if (!strcmp(n, "push")) return "pull";
	if (!strcmp(n, "pull")) return "push";
	if (!strcmp(n, "surveyor")) return "respondent";
	if (!strcmp(n, "respondent")) return "surveyor";
	return n;
}

static int
open_proto(const char *n, int raw, nng_socket *s)
{
#define OPEN(name, fn) \
	if (!strcmp(n, name)) return raw ? fn##_open_raw(s) : fn##_open(s)
	OPEN("pair0", nng_pair0);
	OPEN("pair1", nng_pair1);
	OPEN("pub", nng_pub0);
	OPEN("sub", nng_sub0);
	OPEN("req", nng_req0);
	OPEN("rep", nng_rep0);
	OPEN("push", nng_push0);
	OPEN("pull", nng_pull0);
	OPEN("surveyor", nng_surveyor0);
	OPEN("respondent", nng_respondent0);
	OPEN("bus", nng_bus0);
	return NNG_ENOTSUP;
}

// ---------------------------------------------------------------- user aio callbacks
static void
op_cb(void *arg)
{
	op_t    *op = arg;
	nng_msg *m;
	op->rv   = nng_aio_result(op->aio);
	op->done = 1;
	op->ncb++;
	m        = nng_aio_get_msg(op->aio);
	if (op->issend) {
		if (op->rv != 0) {
			// failed send: the message is still ours and must still be attached
			op->msgkept = (m != NULL && nng_msg_len(m) >= 4 && get32(nng_msg_body(m)) == op->tag);
			if (m != NULL) {
				nng_msg_free(m);
			}
		} else {
			op->msgkept = (m == NULL) ? 0 : 2; // 2: success but message still attached
		}
		nng_aio_set_msg(op->aio, NULL);
	} else if (op->rv == 0 && m != NULL) {
		size_t hl = nng_msg_header_len(m);
		op->tag   = nng_msg_len(m) >= 4 ? get32(nng_msg_body(m)) : 0;
		op->nhdr  = 0;
		for (size_t i = 0; i + 4 <= hl && op->nhdr < 20; i += 4) {
			op->hdr[op->nhdr++] = get32((uint8_t *) nng_msg_header(m) + i);
		}
		op->pipe = nng_pipe_id(nng_msg_get_pipe(m));
		nng_msg_free(m);
		nng_aio_set_msg(op->aio, NULL);
	}
}

static int
slot_of_pipeid(uint32_t id)
{
	for (int i = 0; i < VT_MAXSLOTS; i++) {
		if (vt_pipe_id(i) == id && id != 0) {
			return i;
		}
	}
	return 0;
}

static uint32_t
hdrword(uint32_t w)
{
	int s = slot_of_pipeid(w);
	return s > 0 ? (uint32_t) s : w;
}

// newly completed user operations, in op order:  [{"op":k,"rv":"ok","m":tag,...}]
static int auto_run, done_final;
static void
done_json(void)
{
	int first = 1;
	if (auto_run && !done_final) {
		// macro-step mode: completions are reported once, in obs.done, after running to quiescence
		o("[]");
		return;
	}
	o("[");
	for (int i = 1; i <= MAXOPS; i++) {
		op_t *op = &ops[i];
		if (op->used && op->done && !op->reported) {
			op->reported = 1;
			o("%s{\"op\":%d,\"rv\":\"%s\"", first ? "" : ",", i, rvname(op->rv));
			if (op->issend) {
				if (op->rv != 0 && op->msgkept != 1) {
					o(",\"msglost\":true");
				}
				if (op->rv == 0 && op->msgkept == 2) {
					o(",\"msgkept\":true");
				}
			} else if (op->rv == 0 && !op->nomsg) {
				o(",\"m\":%u", op->tag);
				if (raw_mode) {
					o(",\"hdr\":[");
					for (int k = 0; k < op->nhdr; k++) {
						o("%s%u", k ? "," : "", hdrword(op->hdr[k]));
					}
					o("]");
				}
			}
			o("}");
			first = 0;
		}
	}
	o("]");
}

// ---------------------------------------------------------------- settle and observe
static int dying[VT_MAXSLOTS]; // slots whose pipe has been closed (teardown may need their callbacks)

static void
pipe_event(nng_pipe p, nng_pipe_ev ev, void *arg)
{
	(void) arg;
	if (life_mode) {
		int s = slot_of_pipeid(nng_pipe_id(p));
		// [slot, event, n]: n-th notification of that pipe (the list is compared as a set: the order between pipes is free)
		evn += (size_t) snprintf(evbuf + evn, sizeof(evbuf) - evn, "%s[%d,\"%s\",%d]", evn ? "," : "", s,
		    ev == NNG_PIPE_EV_ADD_PRE ? "pre" : ev == NNG_PIPE_EV_ADD_POST ? "post" : "rem",
		    (s > 0 && s < VT_MAXSLOTS) ? ++evcnt[s] : 0);
		if (s > 0 && s < VT_MAXSLOTS) {
			slot_pipe[s] = p;
		}
		if (ev == NNG_PIPE_EV_ADD_PRE && reject_next) {
			nng_pipe_close(p);
			if (s > 0) {
				dying[s] = 1;
			}
		}
	}
	if (ev == NNG_PIPE_EV_REM_POST) {
		int s = slot_of_pipeid(nng_pipe_id(p));
		if (s > 0) {
			dying[s] = 1;
		}
	}
}

// The reaper tears pipes down asynchronously and, in pipe_stop, waits for the callbacks of the
// pipe's own aios.  Release exactly those (they belong to a pipe that is going away) and wait
// until the reaper is idle again.
static void
settle(void)
{
	struct timespec ts = { 0, 100000 };
	for (int i = 0; i < 200000; i++) {
		int      ran = 0;
		dee_task t[DEE_MAXTASKS];
		int      n;
		if (!nni_verif_reap_busy()) {
			// twice: a task we ran may have queued more work for the reaper
			nanosleep(&ts, NULL);
			if (!nni_verif_reap_busy()) {
				return;
			}
		}
		n = dee_pending(t, DEE_MAXTASKS);
		for (int k = 0; k < n; k++) {
			int s = vt_slot_of_proto_data(t[k].arg);
			if (s > 0 && (dying[s] || vt_closed(s))) {
				dee_run_task(t[k].task);
				ran = 1;
				break;
			}
		}
		if (!ran && auto_run && dee_run_all(10000) > 0) {
			// macro-step mode runs everything to quiescence anyway: the reaper may be waiting for a callback of an
			// endpoint (dialer timer, accept) rather than of a pipe
			ran = 1;
		}
		if (!ran) {
			nanosleep(&ts, NULL);
		}
	}
	fprintf(stderr, "driver: watchdog: reaper does not become idle\n");
	abort();
}

// auto mode (macro-step specifications): after every command run every runnable callback, and the ones
// they make runnable, until the library is quiescent
// A blocking nng_dial (no NNG_FLAG_NONBLOCK) runs on a helper thread: it returns when the first attempt has ended (the driver
// completes or fails the parked connect) or when the socket is closed under it; its result is reported as operation <op>.
static struct {
	pthread_t    th;
	volatile int inflight, done;
	int          op, rv;
	nng_dialer   d;
} bd;
static void *
bd_thread(void *arg)
{
	(void) arg;
	bd.rv   = nng_dial(sut, "irc://dial", &bd.d, 0);
	bd.done = 1;
	return NULL;
}
// after a step: if the first attempt is over (nothing parked in the transport any more) the call must return
static void
bd_collect(void)
{
	struct timespec ts = { 0, 200000 };
	if (!bd.inflight) {
		return;
	}
	if (!bd.done && vt_parked_conns("dial") == 0) {
		for (int i = 0; i < 50000 && !bd.done; i++) {
			if (dee_run_all(10000) == 0) {
				nanosleep(&ts, NULL);
			}
		}
	}
	if (bd.done) {
		op_t *op = &ops[bd.op];
		pthread_join(bd.th, NULL);
		bd.inflight = 0;
		op->rv      = bd.rv;
		op->ncb     = 1;
		op->done    = 1;
		if (bd.rv == 0) {
			the_dialer  = bd.d;
			have_dialer = 1;
		}
	}
}

static void
quiesce(void)
{
	if (!auto_run) {
		return;
	}
	for (int i = 0; i < 10000; i++) {
		int n = dee_run_all(10000);
		settle();
		if (n == 0 && dee_npending() == 0) {
			if (bd.inflight) {
				bd_collect();
				if (dee_npending() != 0 || nni_verif_reap_busy()) {
					continue;
				}
			}
			return;
		}
	}
	fprintf(stderr, "driver: watchdog: library does not become quiescent\n");
	abort();
}

// A close call blocks until the callbacks of the object have run.  Under the task gate those callbacks are released by
// this thread, so the call is made on a helper thread while this thread keeps releasing whatever becomes runnable.
static struct {
	int kind; // 0 socket, 1 listener, 2 dialer
	int rv;
	volatile int done;
} bc;
static void *
bc_thread(void *arg)
{
	(void) arg;
	bc.rv   = bc.kind == 0 ? nng_socket_close(sut) : bc.kind == 1 ? nng_listener_close(the_listener) : nng_dialer_close(the_dialer);
	bc.done = 1;
	return NULL;
}
static int
blocking_close(int kind)
{
	pthread_t       th;
	struct timespec ts = { 0, 200000 };
	bc.kind = kind;
	bc.done = 0;
	pthread_create(&th, NULL, bc_thread, NULL);
	for (int i = 0; i < 100000 && !bc.done; i++) {
		if (dee_run_all(10000) == 0) {
			nanosleep(&ts, NULL);
		}
	}
	if (!bc.done) {
		fprintf(stderr, "driver: watchdog: close does not return\n");
		abort();
	}
	pthread_join(th, NULL);
	return bc.rv;
}

static const char *
role_of(const char *sym)
{
	// strip the protocol/module prefix: push0_send_cb -> send_cb, listener_accept_cb -> accept_cb
	const char *u = strchr(sym, '_');
	return u ? u + 1 : sym;
}

// C02: a user operation whose callback ran more than once (reported in every observation from then on)
static void
dupcb_json(void)
{
	for (int i = 1; i <= MAXOPS; i++) {
		if (ops[i].used && ops[i].ncb > 1) {
			o(",\"dupcb\":[%d,%d]", i, ops[i].ncb);
			return;
		}
	}
}

static void
obs_json(void)
{
	dee_task t[DEE_MAXTASKS];
	int      n = dee_pending(t, DEE_MAXTASKS);
	int      fd, rv;
	if (life_mode) {
		int first = 1;
		o("\"obs\":{\"done\":");
		done_final = 1;
		done_json();
		done_final = 0;
		o(",\"S_ev\":[%s],\"up\":[", evbuf);
		evn      = 0;
		evbuf[0] = 0;
		for (int s = 1; s < VT_MAXSLOTS; s++) {
			if (vt_alive(s) && !vt_closed(s)) {
				o("%s%d", first ? "" : ",", s);
				first = 0;
			}
		}
		o("],\"lparked\":%s,\"dparked\":%s", vt_parked_conns("sut") > 0 ? "true" : "false",
		    vt_parked_conns("dial") > 0 ? "true" : "false");
		dupcb_json();
		o("}");
		return;
	}
	o("\"obs\":{");
	if (auto_run) {
		done_final = 1;
		o("\"done\":");
		done_json();
		o(",");
		done_final = 0;
	}
	o("\"S_pend\":[");
	for (int k = 0; k < n; k++) {
		const char *sym = dee_symname((void *) t[k].cb);
		int         id  = 0;
		if (t[k].cb == op_cb) {
			id  = ((op_t *) t[k].arg)->id;
			sym = "x_cb";
		} else {
			int s = vt_slot_of_proto_data(t[k].arg);
			id    = s > 0 ? s : 0;
		}
		o("%s[\"%s\",%d]", k ? "," : "", role_of(sym), id);
	}
	o("],\"wire\":[");
	{
		int first = 1;
		for (int s = 1; s < VT_MAXSLOTS; s++) {
			if (vt_alive(s) && !vt_closed(s)) {
				if (dev_plain) {
					o("%s[%d,%d]", first ? "" : ",", s, vt_send_parked(s));
				} else {
					o("%s[%d,%d,%d]", first ? "" : ",", s, vt_send_parked(s), vt_recv_parked(s));
				}
				first = 0;
			}
		}
	}
	o("]");
	if (dev_plain) {
		if (dev_aio == NULL) {
			o(",\"dev\":\"idle\"");
		} else if (nng_aio_busy(dev_aio)) {
			o(",\"dev\":\"run\"");
		} else {
			o(",\"dev\":\"done:%s\"", rvname(nng_aio_result(dev_aio)));
		}
	}
	if (!sut_open && !dev_mode) {
		// closed socket: no descriptors left to poll
		o(",\"pollw\":false,\"pollr\":false");
	}
	if (sut_open && !dev_mode) {
		if ((rv = nng_socket_get_send_poll_fd(sut, &fd)) == 0) {
			struct pollfd pf = { fd, POLLIN, 0 };
			poll(&pf, 1, 0);
			o(",\"pollw\":%s", (pf.revents & POLLIN) ? "true" : "false");
		}
		if ((rv = nng_socket_get_recv_poll_fd(sut, &fd)) == 0) {
			struct pollfd pf = { fd, POLLIN, 0 };
			poll(&pf, 1, 0);
			o(",\"pollr\":%s", (pf.revents & POLLIN) ? "true" : "false");
		}
	}
	dupcb_json();
	o("}");
}

static nng_socket sut2;
static int        sut2_open;
static uint16_t   peer_proto2;
static long walk = -1;
static int  step;
static int  quiet_cmd; // the current command came with a leading '!': configuration, no result line
static void
emit(void)
{
	if (!quiet_cmd) {
		printf("R %ld %d %s\n", walk, step, ob);
		fflush(stdout);
		step++;
	}
	on    = 0;
	ob[0] = 0;
}

// ids seen on the wire (REQ request ids, SURVEYOR survey ids), by the body tag of the message that carried them
static struct {
	uint32_t tag, id;
} idtab[256];
static int nidtab;
// Ids are allocated consecutively, one per send call: a peer that has seen one id can predict the id of a request
// that was allocated but never written (cancelled or superseded while it waited for a pipe).
static uint32_t sendtab[256];
static int      nsendtab;
static int      id_base_known;
static uint32_t id_base;
static int
send_index(uint32_t tag)
{
	for (int i = 0; i < nsendtab; i++) {
		if (sendtab[i] == tag) {
			return i;
		}
	}
	return -1;
}
static uint32_t
id_of_tag(uint32_t tag)
{
	for (int i = 0; i < nidtab; i++) {
		if (idtab[i].tag == tag) {
			return idtab[i].id;
		}
	}
	if (id_base_known && send_index(tag) >= 0) {
		return id_base + (uint32_t) send_index(tag);
	}
	return 0;
}
// classify the header word of an outgoing request: "id" = has the request bit, is consistent with what this
// request carried before, and is not used by another outstanding request
static const char *
note_id(uint32_t tag, uint32_t id)
{
	uint32_t prev = id_of_tag(tag);
	if ((id & 0x80000000u) == 0) {
		return "nobit";
	}
	if (prev != 0) {
		return prev == id ? "id" : "idchanged";
	}
	for (int i = 0; i < nidtab; i++) {
		if (idtab[i].id == id) {
			return "iddup";
		}
	}
	if (nidtab < 256) {
		idtab[nidtab].tag = tag;
		idtab[nidtab].id  = id;
		nidtab++;
	}
	if (!id_base_known && send_index(tag) >= 0) {
		id_base_known = 1;
		id_base       = id - (uint32_t) send_index(tag);
	}
	return "id";
}

static nng_msg *
mk_msg(uint32_t tag)
{
	nng_msg *m;
	if (nng_msg_alloc(&m, 0) != 0) {
		abort();
	}
	nng_msg_append_u32(m, tag);
	return m;
}

// per-walk watchdog: a walk takes milliseconds; a call that never returns (e.g. waiting for an operation that is never
// completed) must end the run quickly and visibly
static void
on_alarm(int sig)
{
	static const char m[] = "driver: watchdog: walk does not finish (an operation never completes / a call never returns)\n";
	(void) sig;
	if (write(2, m, sizeof(m) - 1) < 0) {
	}
	_exit(97);
}

static op_t *
new_op(int id, int issend)
{
	op_t *op = &ops[id];
	if (id < 1 || id > MAXOPS || op->used) {
		fprintf(stderr, "driver: bad op id %d\n", id);
		exit(3);
	}
	memset(op, 0, sizeof(*op));
	op->used   = 1;
	op->id     = id;
	op->issend = issend;
	if (nng_aio_alloc(&op->aio, op_cb, op) != 0) {
		abort();
	}
	return op;
}

int
main(int argc, char **argv)
{
	nng_init_params p;
	char            line[512];
	FILE           *in    = stdin;
	uint64_t        live0 = 0;

	setvbuf(stdout, NULL, _IOLBF, 0);
	memset(&p, 0, sizeof(p));
	acct_fill_params(&p);
	p.num_task_threads   = 2;
	p.max_task_threads   = 2;
	p.num_expire_threads = 1;
	p.max_expire_threads = 1;
	if (getenv("DRV_LIFE_TRACE_DIR") != NULL) {
		// life-cycle trace points of this process (validated against life/TraceLife.tla)
		char tf[512];
		snprintf(tf, sizeof(tf), "%s/drv-%d.ndjson", getenv("DRV_LIFE_TRACE_DIR"), (int) getpid());
		setenv("NNG_VERIF_TRACE_SKIP", "aio,task", 1);
		setenv("DRV_TRACE", tf, 1);
	}
	dee_init(0, 1, getenv("DRV_TRACE"));
	if (nng_init(&p) != 0) {
		return 3;
	}
	vt_register();
	if (argc > 1 && (in = fopen(argv[1], "r")) == NULL) {
		return 3;
	}
	// warm up lazily created global state (static id maps of sockets, listeners, pipes, contexts, pollable
	// descriptors) with a complete free-running cycle, so that the per-walk allocation balance is exact
	{
		nng_socket   w;
		nng_listener l;
		nng_ctx      c;
		dee_gate(0);
		if (nng_rep0_open(&w) == 0) {
			int             fd;
			struct timespec ts = { 0, 1000000 };
			nng_socket_get_send_poll_fd(w, &fd);
			nng_socket_get_recv_poll_fd(w, &fd);
			if (nng_ctx_open(&c, w) == 0) {
				nng_ctx_close(c);
			}
			{
				nng_dialer wd;
				if (nng_dialer_create(&wd, w, "irc://warmd") == 0) {
					nng_dialer_close(wd);
				}
			}
			if (nng_listener_create(&l, w, "irc://warm") == 0 && nng_listener_start(l, 0) == 0) {
				if (vt_connect("warm", NNI_PROTO(3, 0), 31) == 31) {
					for (int i = 0; i < 2000 && vt_recv_parked(31) == 0; i++) {
						nanosleep(&ts, NULL);
					}
				}
			}
			nng_socket_close(w);
			nni_reap_sys_drain();
		}
		vt_reset();
	}
	while (fgets(line, sizeof(line), in) != NULL) {
		char cmd[32] = "", a1[64] = "", a2[64] = "", a3[64] = "", a4[64] = "", a5[64] = "";
		int  n;
		quiet_cmd = line[0] == '!';
		if (quiet_cmd) {
			memmove(line, line + 1, strlen(line));
		}
		n = sscanf(line, "%31s %63s %63s %63s %63s %63s", cmd, a1, a2, a3, a4, a5);
		if (n < 1) {
			continue;
		}
		if (!strcmp(cmd, "W")) {
			walk = atol(a1);
			step = 0;
			signal(SIGALRM, on_alarm);
			alarm(60);
			printf("B %ld\n", walk);
			fflush(stdout);
			memset(ops, 0, sizeof(ops));
			memset(dying, 0, sizeof(dying));
			memset(ctx_open_, 0, sizeof(ctx_open_));
			memset(slot_pipe, 0, sizeof(slot_pipe));
			memset(evcnt, 0, sizeof(evcnt));
			ctx_ever1 = have_dialer = life_mode = reject_next = 0;
			evn = 0;
			evbuf[0] = 0;
			nidtab   = 0;
			nsendtab = 0;
			id_base_known = 0;
			auto_run = 0;
			vt_reset();
			live0 = acct_live_blocks();
			acct_dump_since(acct_total_allocs());
			dee_gate(1);
			continue;
		}
		if (!strcmp(cmd, "E")) {
			// teardown: everything runs free from here
			dee_gate(0);
			dee_run_all(10000);
			for (int i = 1; i <= MAXOPS; i++) {
				if (ops[i].used) {
					nng_aio_stop(ops[i].aio);
				}
			}
			dee_run_all(10000);
			if (dev_aio != NULL) {
				// cancelling its aio is the only way to end a device; it then closes both sockets itself
				nng_aio_cancel(dev_aio);
				dee_run_all(10000);
				nng_aio_wait(dev_aio);
				nng_aio_free(dev_aio);
				dev_aio = NULL;
			}
			if (sut_open) {
				nng_socket_close(sut);
				sut_open = 0;
			}
			if (sut2_open) {
				nng_socket_close(sut2);
				sut2_open = 0;
			}
			dev_mode = dev_plain = 0;
			dee_run_all(10000);
			if (bd.inflight) {
				// a blocking dial still in flight: closing the socket must have ended it
				struct timespec ts = { 0, 200000 };
				for (int i = 0; i < 100000 && !bd.done; i++) {
					dee_run_all(10000);
					nanosleep(&ts, NULL);
				}
				if (!bd.done) {
					fprintf(stderr, "driver: watchdog: blocking dial does not return after socket close\n");
					abort();
				}
				pthread_join(bd.th, NULL);
				bd.inflight = 0;
			}
			for (int i = 1; i <= MAXOPS; i++) {
				if (ops[i].used) {
					nng_msg *m = nng_aio_get_msg(ops[i].aio);
					if (m != NULL && !ops[i].done) {
						nng_msg_free(m);
					}
					nng_aio_free(ops[i].aio);
					ops[i].used = 0;
				}
			}
			nni_reap_sys_drain();
			{
				struct timespec ts = { 0, 200000 };
				for (int i = 0; i < 20000 && acct_live_blocks() != live0; i++) {
					nni_reap_sys_drain();
					nanosleep(&ts, NULL);
				}
			}
			printf("X %ld {\"fin\":0,\"leak\":%lld,\"mism\":%llu,\"badfree\":%llu}\n", walk,
			    (long long) acct_live_blocks() - (long long) live0, (unsigned long long) acct_size_mismatches(),
			    (unsigned long long) acct_bad_frees());
			if (acct_live_blocks() != live0) {
				acct_dump_live(8);
			}
			fflush(stdout);
			continue;
		}
		if (!strcmp(cmd, "auto")) {
			auto_run = atoi(a1);
			continue;
		}
		if (!strcmp(cmd, "proto")) {
			// proto <name> <raw>: open the socket under test and listen on irc://sut
			int          rv;
			nng_listener l;
			snprintf(proto_name, sizeof(proto_name), "%s", a1);
			if (!strcmp(a1, "device")) {
				// proto device reqrep|survey: sut (irc://sut) faces the requesters/surveyors, sut2 (irc://sut2) the repliers
				int surv = !strcmp(a2, "survey");
				int pl   = !strcmp(a2, "pipeline"), pr = !strcmp(a2, "pair");
				dev_mode   = 1;
				dev_plain  = pl || pr;
				raw_mode   = 1;
				peer_proto = surv ? NNI_PROTO(6, 2) : NNI_PROTO(3, 0);
				peer_proto2 = surv ? NNI_PROTO(6, 3) : NNI_PROTO(3, 1);
				if (pl) {
					// raw PULL (its peers push) -> raw PUSH (its peers pull)
					peer_proto  = NNI_PROTO(5, 0);
					peer_proto2 = NNI_PROTO(5, 1);
					if ((rv = nng_pull0_open_raw(&sut)) != 0 || (rv = nng_push0_open_raw(&sut2)) != 0) {
						return 3;
					}
				} else if (pr) {
					peer_proto = peer_proto2 = NNI_PROTO(1, 0);
					if ((rv = nng_pair0_open_raw(&sut)) != 0 || (rv = nng_pair0_open_raw(&sut2)) != 0) {
						return 3;
					}
				} else
				if ((rv = (surv ? nng_respondent0_open_raw(&sut) : nng_rep0_open_raw(&sut))) != 0 ||
				    (rv = (surv ? nng_surveyor0_open_raw(&sut2) : nng_req0_open_raw(&sut2))) != 0) {
					return 3;
				}
				sut_open = sut2_open = 1;
				nng_pipe_notify(sut, NNG_PIPE_EV_REM_POST, pipe_event, NULL);
				nng_pipe_notify(sut2, NNG_PIPE_EV_REM_POST, pipe_event, NULL);
				if ((rv = nng_listener_create(&l, sut, "irc://sut")) != 0 || (rv = nng_listener_start(l, 0)) != 0 ||
				    (rv = nng_listener_create(&l, sut2, "irc://sut2")) != 0 || (rv = nng_listener_start(l, 0)) != 0) {
					fprintf(stderr, "driver: listen: %s\n", nng_strerror(rv));
					return 3;
				}
				continue; // the device starts with the first connection: a socket owned by a device refuses options
			}
			raw_mode   = atoi(a2);
			peer_proto = proto_id(peer_of(a1));
			if ((rv = open_proto(a1, raw_mode, &sut)) != 0) {
				fprintf(stderr, "driver: open %s: %s\n", a1, nng_strerror(rv));
				return 3;
			}
			sut_open = 1;
			nng_pipe_notify(sut, NNG_PIPE_EV_REM_POST, pipe_event, NULL);
			if ((rv = nng_listener_create(&l, sut, "irc://sut")) != 0 || (rv = nng_listener_start(l, 0)) != 0) {
				fprintf(stderr, "driver: listen: %s\n", nng_strerror(rv));
				return 3;
			}
			the_listener = l;
			continue; // part of the initial state: no result line
		}
		o("{");
		if (!strcmp(cmd, "connect")) {
			int s = atoi(a1);
			int r;
			if (dev_mode && dev_aio == NULL && !dev_plain) {
				nng_aio_alloc(&dev_aio, NULL, NULL);
				nng_device_aio(dev_aio, sut, sut2);
				quiesce();
			}
			if (dev_plain) {
				r = !strcmp(a2, "R") ? vt_connect("sut2", peer_proto2, s) : vt_connect("sut", peer_proto, s);
			} else if (!strcmp(a2, "D")) {
				r = vt_connect("dial", peer_proto, s);
			} else if (dev_mode && !strcmp(a2, "R")) {
				r = vt_connect("sut2", peer_proto2, s);
			} else if (dev_mode) {
				r = vt_connect("sut", peer_proto, s);
			} else
				r = vt_connect("sut", n > 2 ? (uint16_t) strtoul(a2, NULL, 0) : peer_proto, s);
			o("\"out\":{\"rv\":\"%s\"},", r == s ? "ok" : "none");
		} else if (!strcmp(cmd, "run")) {
			// run <role> <id>
			dee_task t[DEE_MAXTASKS];
			int      np = dee_pending(t, DEE_MAXTASKS), id = atoi(a2), found = 0;
			for (int k = 0; k < np && !found; k++) {
				const char *sym = dee_symname((void *) t[k].cb);
				int         tid;
				if (t[k].cb == op_cb) {
					sym = "x_cb";
					tid = ((op_t *) t[k].arg)->id;
				} else {
					int s = vt_slot_of_proto_data(t[k].arg);
					tid   = s > 0 ? s : 0;
				}
				if (!strcmp(role_of(sym), a1) && tid == id) {
					dee_run_task(t[k].task);
					found = 1;
				}
			}
			if (!found) {
				o("\"out\":{\"rv\":\"notask\",\"done\":[]},");
				goto finish;
			}
			settle();
			o("\"out\":{\"done\":");
			done_json();
			o("},");
		} else if (!strcmp(cmd, "send") || !strcmp(cmd, "recv")) {
			// send <op> <mode> <tag> <ctx> [hdrword...] | recv <op> <mode> <ctx>
			int   issend = cmd[0] == 's';
			int   id     = atoi(a1);
			int   nb     = !strcmp(a2, "nb");
			int   c      = atoi(issend ? a4 : a3);
			if (issend && nsendtab < 256) {
				sendtab[nsendtab++] = (uint32_t) strtoul(a3, NULL, 0);
			}
			if (nb) {
				// the synchronous non-blocking form: completes (or fails) before it returns
				nng_msg *m = NULL;
				int      rv;
				uint64_t t0 = dee_now();
				if (issend) {
					char *h = strstr(line, " h");
					m       = mk_msg((uint32_t) strtoul(a3, NULL, 0));
					while (h != NULL) {
						nng_msg_header_append_u32(m, h[2] == 'p' ? vt_pipe_id(atoi(h + 3)) : (uint32_t) strtoul(h + 2, NULL, 0));
						h = strstr(h + 2, " h");
					}
					rv = c > 0 ? nng_ctx_sendmsg(ctxs[c], m, NNG_FLAG_NONBLOCK) : nng_sendmsg(sut, m, NNG_FLAG_NONBLOCK);
					if (rv != 0) {
						nng_msg_free(m); // still ours
					}
					settle();
					o("\"out\":{\"rv\":\"%s\",\"done\":", rvname(rv));
				} else {
					if (!strcmp(proto_name, "surveyor")) {
						// the same operation in its aio form (zero timeout), so that a call that would block is
						// reported instead of hanging the driver under the virtual clock
						nng_aio *na;
						nng_aio_alloc(&na, NULL, NULL);
						nng_aio_set_timeout(na, NNG_DURATION_ZERO);
						c > 0 ? nng_ctx_recv(ctxs[c], na) : nng_socket_recv(sut, na);
						settle();
						if (nng_aio_busy(na)) {
							rv = -1;
							nng_aio_cancel(na);
							settle();
							nng_aio_wait(na);
							if (nng_aio_result(na) == 0) {
								nng_msg_free(nng_aio_get_msg(na));
							}
						} else {
							rv = nng_aio_result(na);
							rv = rv == NNG_ETIMEDOUT ? NNG_EAGAIN : rv;
							m  = rv == 0 ? nng_aio_get_msg(na) : NULL;
						}
						nng_aio_free(na);
					} else {
						rv = c > 0 ? nng_ctx_recvmsg(ctxs[c], &m, NNG_FLAG_NONBLOCK) : nng_recvmsg(sut, &m, NNG_FLAG_NONBLOCK);
					}
					settle();
					o("\"out\":{\"rv\":\"%s\"", rvname(rv));
					if (rv == 0) {
						o(",\"m\":%u", nng_msg_len(m) >= 4 ? get32(nng_msg_body(m)) : 0);
						if (raw_mode) {
							size_t hl = nng_msg_header_len(m);
							o(",\"hdr\":[");
							for (size_t i = 0; i + 4 <= hl; i += 4) {
								o("%s%u", i ? "," : "", hdrword(get32((uint8_t *) nng_msg_header(m) + i)));
							}
							o("]");
						}
						nng_msg_free(m);
					}
					o(",\"done\":");
				}
				(void) t0;
				(void) id;
				done_json();
				o("},");
			} else {
				op_t *op = new_op(id, issend);
				if (issend) {
					nng_msg *m = mk_msg((uint32_t) strtoul(a3, NULL, 0));
					char    *h = strstr(line, " h");
					op->tag    = (uint32_t) strtoul(a3, NULL, 0);
					while (h != NULL) {
						nng_msg_header_append_u32(m, h[2] == 'p' ? vt_pipe_id(atoi(h + 3)) : (uint32_t) strtoul(h + 2, NULL, 0));
						h = strstr(h + 2, " h");
					}
					nng_aio_set_msg(op->aio, m);
				}
				nng_aio_set_timeout(op->aio, !strcmp(a2, "aio") ? NNG_DURATION_INFINITE : atoi(a2 + 1));
				if (c > 0) {
					issend ? nng_ctx_send(ctxs[c], op->aio) : nng_ctx_recv(ctxs[c], op->aio);
				} else {
					issend ? nng_socket_send(sut, op->aio) : nng_socket_recv(sut, op->aio);
				}
				settle();
				o("\"out\":{\"done\":");
				done_json();
				o("},");
			}
		} else if (!strcmp(cmd, "devstart")) {
			nng_aio_alloc(&dev_aio, NULL, NULL);
			nng_device_aio(dev_aio, sut, sut2);
			o("\"out\":{\"rv\":\"ok\"},");
		} else if (!strcmp(cmd, "devcancel")) {
			// the only way to end a device; the operation must then complete (once), whatever the paths are doing
			// (its last callback closes both sockets, which waits for other callbacks: everything runs free from here)
			dee_gate(0);
			dee_run_all(10000);
			nng_aio_cancel(dev_aio);
			for (int i = 0; i < 30000 && nng_aio_busy(dev_aio); i++) {
				struct timespec ts = { 0, 100000 };
				nanosleep(&ts, NULL);
			}
			o("\"out\":{\"rv\":\"ok\"},");
		} else if (!strcmp(cmd, "cancel")) {
			nng_aio_cancel(ops[atoi(a1)].aio);
			settle();
			o("\"out\":{\"done\":");
			done_json();
			o("},");
		} else if (!strcmp(cmd, "take")) {
			nng_msg *m = vt_take(atoi(a1));
			o("\"out\":");
			if (m == NULL) {
				o("{\"hdr\":[],\"m\":0,\"none\":true}");
			} else if ((!strcmp(proto_name, "req") || !strcmp(proto_name, "surveyor")) && !raw_mode &&
			    nng_msg_header_len(m) == 4 && nng_msg_len(m) == 4) {
				uint32_t tg = get32(nng_msg_body(m));
				o("{\"hdr\":[\"%s\"],\"m\":%u}", note_id(tg, get32(nng_msg_header(m))), tg);
				nng_msg_free(m);
			} else {
				msg_json(m);
				nng_msg_free(m);
			}
			o(",");
		} else if (!strcmp(cmd, "inject")) {
			// inject <slot> <tag> [w<word> ...]: wire image = the words, then the 4-byte tag
			nng_msg *m;
			char    *h = strstr(line, " w");
			int      r;
			nng_msg_alloc(&m, 0);
			while (h != NULL) {
				uint32_t w;
				if (h[2] == 'p') {
					int sl = atoi(h + 3);
					w      = (sl > 0 && sl < VT_MAXSLOTS && vt_pipe_id(sl) != 0) ? vt_pipe_id(sl) : 0x7ffffff0u;
				} else if (h[2] == 'i') {
					w = 0x80000000u | (uint32_t) strtoul(h + 3, NULL, 0);
				} else if (h[2] == 'r') {
					w = id_of_tag((uint32_t) strtoul(h + 3, NULL, 0));
				} else if (h[2] == 'n') {
					w = id_of_tag((uint32_t) strtoul(h + 3, NULL, 0)) & 0x7fffffffu;
				} else if (h[2] == 'u') {
					w = 0x80000000u | 0x00abcdefu;
					while (1) {
						int clash = 0;
						for (int i = 0; i < nidtab; i++) {
							clash |= idtab[i].id == w;
						}
						if (!clash) {
							break;
						}
						w++;
					}
				} else {
					w = (uint32_t) strtoul(h + 2, NULL, 0);
				}
				nng_msg_append_u32(m, w);
				h = strstr(h + 2, " w");
			}
			if (strcmp(a2, "-") != 0) {
				nng_msg_append_u32(m, (uint32_t) strtoul(a2, NULL, 0));
			}
			r = vt_inject(atoi(a1), m);
			o("\"out\":{\"rv\":\"%s\"},", r == 1 ? "delivered" : r == 0 ? "queued" : "nopipe");
		} else if (!strcmp(cmd, "life")) {
			life_mode = atoi(a1);
			nng_pipe_notify(sut, NNG_PIPE_EV_ADD_PRE, pipe_event, NULL);
			nng_pipe_notify(sut, NNG_PIPE_EV_ADD_POST, pipe_event, NULL);
		} else if (!strcmp(cmd, "dial")) {
			// dial | dial aio0 <op> | dial aio <op>
			int rv = 0;
			if (!strcmp(a1, "block")) {
				// dial block <op>: nng_dial without NNG_FLAG_NONBLOCK on a helper thread (the reconnect times are the socket's)
				op_t *op    = new_op(atoi(a2), 0);
				op->nomsg   = 1;
				bd.op       = atoi(a2);
				bd.done     = 0;
				bd.inflight = 1;
				nng_socket_set_ms(sut, NNG_OPT_RECONNMINT, 10);
				nng_socket_set_ms(sut, NNG_OPT_RECONNMAXT, 25);
				pthread_create(&bd.th, NULL, bd_thread, NULL);
				for (int i = 0; i < 20000 && vt_parked_conns("dial") == 0 && !bd.done; i++) {
					struct timespec ts = { 0, 100000 };
					dee_run_all(10000);
					nanosleep(&ts, NULL);
				}
				settle();
				o("\"out\":{\"rv\":\"ok\"},");
				goto finish;
			}
			if (!have_dialer) {
				rv = nng_dialer_create(&the_dialer, sut, "irc://dial");
				if (rv == 0) {
					nng_dialer_set_ms(the_dialer, NNG_OPT_RECONNMINT, 10);
					nng_dialer_set_ms(the_dialer, NNG_OPT_RECONNMAXT, 25);
					have_dialer = 1;
				}
			}
			if (rv == 0 && a1[0] == 'a') {
				op_t *op  = new_op(atoi(a2), 0);
				op->nomsg = 1;
				nng_aio_set_timeout(op->aio, !strcmp(a1, "aio0") ? NNG_DURATION_ZERO : NNG_DURATION_INFINITE);
				nng_dialer_start_aio(the_dialer, NNG_FLAG_NONBLOCK, op->aio);
			} else if (rv == 0) {
				rv = nng_dialer_start(the_dialer, NNG_FLAG_NONBLOCK);
			}
			settle();
			o("\"out\":{\"rv\":\"%s\"},", rvname(rv));
		} else if (!strcmp(cmd, "dfail")) {
			vt_connect_fail("dial", NNG_ECONNREFUSED);
			settle();
			o("\"out\":{\"rv\":\"ok\"},");
		} else if (!strcmp(cmd, "reject")) {
			reject_next = atoi(a1);
			o("\"out\":{\"rv\":\"ok\"},");
		} else if (!strcmp(cmd, "lclose") || !strcmp(cmd, "dclose")) {
			int rv = blocking_close(cmd[0] == 'l' ? 1 : 2);
			o("\"out\":{\"rv\":\"%s\"},", rvname(rv));
		} else if (!strcmp(cmd, "close")) {
			int rv   = blocking_close(0);
			sut_open = 0;
			o("\"out\":{\"rv\":\"%s\"},", rvname(rv));
		} else if (!strcmp(cmd, "probe")) {
			// every handle derived from the closed socket must be refused
			nng_msg    *m = mk_msg(7);
			int         rv, bad = 0;
#define CLS(r) (((r) == NNG_ECLOSED || (r) == NNG_ENOENT) ? "invalid" : rvname(r))
			rv = nng_sendmsg(sut, m, NNG_FLAG_NONBLOCK);
			if (rv != 0) {
				nng_msg_free(m);
			}
			o("\"out\":{\"sock\":\"%s\"", CLS(rv));
			if (ctx_ever1) {
				m  = NULL;
				rv = nng_ctx_recvmsg(ctxs[1], &m, NNG_FLAG_NONBLOCK);
				if (rv == 0) {
					nng_msg_free(m);
				}
				o(",\"ctx\":\"%s\"", CLS(rv));
			} else {
				o(",\"ctx\":\"none\"");
			}
			o(",\"lst\":\"%s\"", CLS(nng_listener_close(the_listener)));
			o(",\"dial\":\"%s\"", have_dialer ? CLS(nng_dialer_close(the_dialer)) : "none");
			for (int s = 1; s < VT_MAXSLOTS; s++) {
				if (nng_pipe_id(slot_pipe[s]) > 0) {
					rv = nng_pipe_close(slot_pipe[s]);
					bad |= !(rv == NNG_ECLOSED || rv == NNG_ENOENT);
				}
			}
			o(",\"pipes\":\"%s\"},", bad ? "alive" : "invalid");
			settle();
		} else if (!strcmp(cmd, "symw")) {
			symw = atoi(a1);
		} else if (!strcmp(cmd, "pipe_close")) {
			nni_pipe *np = vt_npipe(atoi(a1));
			if (np != NULL) {
				nni_pipe_close(np);
			}
			settle();
			o("\"out\":null,");
		} else if (!strcmp(cmd, "peer_close")) {
			vt_peer_close(atoi(a1));
			settle();
			o("\"out\":null,");
		} else if (!strcmp(cmd, "setopt")) {
			// setopt <name> <int|ms|bool|size> <value> [ctx]
			int rv;
			if (!strcmp(a2, "int")) {
				rv = nng_socket_set_int(sut, a1, atoi(a3));
			} else if (!strcmp(a2, "ms")) {
				rv = nng_socket_set_ms(sut, a1, atoi(a3));
			} else if (!strcmp(a2, "bool")) {
				rv = nng_socket_set_bool(sut, a1, atoi(a3) != 0);
			} else {
				rv = nng_socket_set_size(sut, a1, (size_t) atol(a3));
			}
			settle();
			o("\"out\":{\"rv\":\"%s\"},", rvname(rv));
		} else if (!strcmp(cmd, "ctxopt")) {
			// ctxopt <ctx> <name> <int|ms|bool> <value>
			int c = atoi(a1), rv;
			if (!strcmp(a3, "int")) {
				rv = nng_ctx_set_int(ctxs[c], a2, atoi(a4));
			} else if (!strcmp(a3, "ms")) {
				rv = nng_ctx_set_ms(ctxs[c], a2, atoi(a4));
			} else {
				rv = nng_ctx_set_bool(ctxs[c], a2, atoi(a4) != 0);
			}
			settle();
			o("\"out\":{\"rv\":\"%s\"},", rvname(rv));
		} else if (!strcmp(cmd, "sub") || !strcmp(cmd, "unsub")) {
			// sub <ctx> <hex-topic | ->
			int     c = atoi(a1), rv;
			uint8_t t[32];
			size_t  tl = 0;
			if (strcmp(a2, "-") != 0) {
				for (size_t i = 0; a2[i] && a2[i + 1] && tl < sizeof(t); i += 2) {
					unsigned x;
					sscanf(a2 + i, "%2x", &x);
					t[tl++] = (uint8_t) x;
				}
			}
			if (cmd[0] == 's') {
				rv = c > 0 ? nng_sub0_ctx_subscribe(ctxs[c], t, tl) : nng_sub0_socket_subscribe(sut, t, tl);
			} else {
				rv = c > 0 ? nng_sub0_ctx_unsubscribe(ctxs[c], t, tl) : nng_sub0_socket_unsubscribe(sut, t, tl);
			}
			settle();
			o("\"out\":{\"rv\":\"%s\"},", rvname(rv));
		} else if (!strcmp(cmd, "tick")) {
			dee_advance((uint64_t) atol(a1));
			settle();
			o("\"out\":{\"done\":");
			done_json();
			o("},");
		} else if (!strcmp(cmd, "ctx_open")) {
			int c  = atoi(a1);
			int rv = nng_ctx_open(&ctxs[c], sut);
			ctx_open_[c] = rv == 0;
			ctx_ever1 |= (c == 1 && rv == 0);
			o("\"out\":{\"rv\":\"%s\"},", rvname(rv));
		} else if (!strcmp(cmd, "ctx_close")) {
			int c  = atoi(a1);
			int rv = nng_ctx_close(ctxs[c]);
			ctx_open_[c] = 0;
			settle();
			o("\"out\":{\"rv\":\"%s\",\"done\":", rvname(rv));
			done_json();
			o("},");
		} else {
			fprintf(stderr, "driver: bad command %s\n", cmd);
			return 3;
		}
	finish:
		quiesce();
		obs_json();
		o("}");
		emit();
	}
	dee_gate(0);
	nng_fini();
	printf("Z\n");
	return 0;
}
