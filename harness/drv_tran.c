// drv_tran: steps an SP *transport* from the protocol side of the transport interface.  Two sockets of this process
// (A listens, B dials) speak a harness protocol (vproto, below): it does nothing by itself, the driver submits
// nni_pipe_send / nni_pipe_recv operations on the pipe ends, cancels them, closes pipe ends, endpoints and sockets.
// This is the mirror image of vtran.c (harness transport under a real protocol).  The task gate is on and every
// command runs the library to quiescence (macro steps); the clock is virtual.
// Specification: spec/wire/Inproc.tla.  One command per line, one result per step:
//   R <walk> <step> {"out":{...},"obs":{...}}          (same framing as drv_data.c / drv_proto.c)
#include "acct.h"
#include "dee.h"
#include "core/sockimpl.h"
#include <pthread.h>
#include <signal.h>
#include <stdarg.h>
#include <stdio.h>
#include <stdlib.h>
#include <string.h>
#include <time.h>
#include <unistd.h>

#include <nng/nng.h>

#define MAXOPS 16
#define MAXCONN 8
#define BIGLEN 3000

// ---------------------------------------------------------------- vproto
typedef struct vp_sock {
	nni_sock *ns;
	int       side; // 0 = A, 1 = B
} vp_sock;

typedef struct vp_pipe {
	nni_pipe *np;
	vp_sock  *s;
	int       conn; // connection number (creation order on this socket), 1-based
	int       started, closed, stopped;
} vp_pipe;

static vp_sock *socks[2];
static int      nsock;
// pipe ends by [side][conn]
static vp_pipe *ends[2][MAXCONN + 1];
static int      nends[2];
static int      finid[2][MAXCONN + 1];
static nni_mtx  vp_mtx = NNI_MTX_INITIALIZER;
static int      start_refuse; // the protocol refuses the next pipe (pipe_start fails)

static void
vp_sock_init(void *arg, nni_sock *ns)
{
	vp_sock *s = arg;
	s->ns      = ns;
	s->side    = nsock < 2 ? nsock : 1;
	socks[s->side] = s;
	nsock++;
}
static void vp_sock_fini(void *arg) { (void) arg; }
static void vp_sock_open(void *arg) { (void) arg; }
static void vp_sock_close(void *arg) { (void) arg; }
static void vp_sock_send(void *arg, nni_aio *aio) { (void) arg; nni_aio_finish_error(aio, NNG_ENOTSUP); }
static void vp_sock_recv(void *arg, nni_aio *aio) { (void) arg; nni_aio_finish_error(aio, NNG_ENOTSUP); }

static int
vp_pipe_init(void *arg, nni_pipe *np, void *sarg)
{
	vp_pipe *p = arg;
	memset(p, 0, sizeof(*p));
	p->np = np;
	p->s  = sarg;
	// connections are numbered in creation order on each socket (a pipe rejected in ADD_PRE never starts but has a number)
	nni_mtx_lock(&vp_mtx);
	if (nends[p->s->side] < MAXCONN) {
		p->conn                   = ++nends[p->s->side];
		ends[p->s->side][p->conn] = p;
	}
	nni_mtx_unlock(&vp_mtx);
	return (0);
}
static void
vp_pipe_fini(void *arg)
{
	vp_pipe *p = arg;
	nni_mtx_lock(&vp_mtx);
	if (p->conn > 0 && p->conn <= MAXCONN && ends[p->s->side][p->conn] == p) {
		ends[p->s->side][p->conn]  = NULL;
		finid[p->s->side][p->conn] = 1;
	}
	nni_mtx_unlock(&vp_mtx);
}
static int
vp_pipe_start(void *arg)
{
	vp_pipe *p = arg;
	nni_mtx_lock(&vp_mtx);
	if (start_refuse) {
		start_refuse = 0;
		nni_mtx_unlock(&vp_mtx);
		return (NNG_EPROTO);
	}
	if (nni_pipe_peer(p->np) != NNI_PROTO(1, 0) || p->conn == 0) {
		nni_mtx_unlock(&vp_mtx);
		return (NNG_EPROTO);
	}
	p->started = 1;
	nni_mtx_unlock(&vp_mtx);
	return (0);
}
static void
vp_pipe_close(void *arg)
{
	vp_pipe *p = arg;
	nni_mtx_lock(&vp_mtx);
	p->closed = 1;
	nni_mtx_unlock(&vp_mtx);
}
static void
vp_pipe_stop(void *arg)
{
	vp_pipe *p = arg;
	nni_mtx_lock(&vp_mtx);
	p->stopped = 1;
	nni_mtx_unlock(&vp_mtx);
}

static nni_option vp_options[] = { { .o_name = NULL } };

static nni_proto_pipe_ops vp_pipe_ops = {
	.pipe_size  = sizeof(vp_pipe),
	.pipe_init  = vp_pipe_init,
	.pipe_fini  = vp_pipe_fini,
	.pipe_start = vp_pipe_start,
	.pipe_close = vp_pipe_close,
	.pipe_stop  = vp_pipe_stop,
};
static nni_proto_sock_ops vp_sock_ops = {
	.sock_size    = sizeof(vp_sock),
	.sock_init    = vp_sock_init,
	.sock_fini    = vp_sock_fini,
	.sock_open    = vp_sock_open,
	.sock_close   = vp_sock_close,
	.sock_send    = vp_sock_send,
	.sock_recv    = vp_sock_recv,
	.sock_options = vp_options,
};
static nni_proto vp_proto = {
	.proto_self     = { NNI_PROTO(1, 0), "vpair" },
	.proto_peer     = { NNI_PROTO(1, 0), "vpair" },
	.proto_flags    = NNI_PROTO_FLAG_SNDRCV,
	.proto_sock_ops = &vp_sock_ops,
	.proto_pipe_ops = &vp_pipe_ops,
};

// ---------------------------------------------------------------- driver state
static nng_socket   sk[2];
static int          sk_open[2];
static nng_listener the_listener;
static int          have_listener;
static nng_dialer   the_dialer;
static int          have_dialer;
static char         url[128];
static int          fail_step; // C20: fail the k-th allocation of one step

typedef struct {
	nng_aio *aio;
	int      used, issend, done, reported, rv, ncb;
	int      conn, side;
	nng_msg *orig;  // the message given to a send
	nng_msg *clone; // second reference held by the driver (shared message)
	nng_msg *got;
	size_t   count;
	int      kept; // failed send: the message is still attached to the aio
} op_t;
static op_t ops[MAXOPS + 1];

static char   ob[1 << 16];
static size_t on;
static void
o(const char *fmt, ...)
{
	va_list ap;
	va_start(ap, fmt);
	on += (size_t) vsnprintf(ob + on, sizeof(ob) - on, fmt, ap);
	va_end(ap);
}

static const char *
rvname(int rv)
{
	switch (rv) {
	case 0: return "ok";
	case NNG_EAGAIN: return "eagain";
	case NNG_ETIMEDOUT: return "etimedout";
	case NNG_ECANCELED: return "ecanceled";
	case NNG_ECLOSED: return "eclosed";
	case NNG_ESTATE: return "estate";
	case NNG_ENOTSUP: return "enotsup";
	case NNG_ECONNRESET: return "econnreset";
	case NNG_ECONNSHUT: return "econnshut";
	case NNG_ESTOPPED: return "estopped";
	case NNG_EINVAL: return "einval";
	case NNG_ENOMEM: return "enomem";
	case NNG_ENOENT: return "enoent";
	case NNG_EPROTO: return "eproto";
	case NNG_EBUSY: return "ebusy";
	case NNG_ECONNREFUSED: return "econnrefused";
	case NNG_EADDRINUSE: return "eaddrinuse";
	default: {
		static char b[24];
		snprintf(b, sizeof(b), "rv%d", rv);
		return b;
	}
	}
}

static uint32_t
get32(const uint8_t *p)
{
	return ((uint32_t) p[0] << 24) | ((uint32_t) p[1] << 16) | ((uint32_t) p[2] << 8) | p[3];
}
static void
put32(uint8_t *p, uint32_t v)
{
	p[0] = (uint8_t) (v >> 24);
	p[1] = (uint8_t) (v >> 16);
	p[2] = (uint8_t) (v >> 8);
	p[3] = (uint8_t) v;
}
static uint8_t
pat(uint32_t tag, size_t j)
{
	return (uint8_t) (tag * 7 + j * 13 + (j >> 8));
}

// pipe events: [side, conn-or-0, event, n-th event of that pipe]; before pipe_start the connection number is unknown: the
// ADD_PRE of the n-th pipe of a socket is attributed by counting
static char   evbuf[1024];
static size_t evn;
static int    evpre[2], evcnt[2][MAXCONN + 2];
static int    reject_next[2]; // the ADD_PRE callback closes the pipe
static uint32_t pre_id[2][MAXCONN + 2];
static void
pipe_event(nng_pipe p, nng_pipe_ev ev, void *arg)
{
	int side = (int) (intptr_t) arg;
	int c    = 0;
	uint32_t id = (uint32_t) nng_pipe_id(p);
	if (ev == NNG_PIPE_EV_ADD_PRE) {
		c = ++evpre[side];
		if (c <= MAXCONN) {
			pre_id[side][c] = id;
		}
	} else {
		for (int i = 1; i <= MAXCONN; i++) {
			if (pre_id[side][i] == id) {
				c = i;
			}
		}
	}
	evn += (size_t) snprintf(evbuf + evn, sizeof(evbuf) - evn, "%s[%d,%d,\"%s\",%d]", evn ? "," : "", side, c,
	    ev == NNG_PIPE_EV_ADD_PRE ? "pre" : ev == NNG_PIPE_EV_ADD_POST ? "post" : "rem", (c > 0 && c <= MAXCONN) ? ++evcnt[side][c] : 0);
	if (ev == NNG_PIPE_EV_ADD_PRE && reject_next[side]) {
		reject_next[side] = 0;
		nng_pipe_close(p);
	}
}

static void
op_cb(void *arg)
{
	op_t *op = arg;
	op->ncb++;
	op->rv    = nng_aio_result(op->aio);
	op->count = nng_aio_count(op->aio);
	if (op->issend) {
		op->kept = nng_aio_get_msg(op->aio) == op->orig && op->orig != NULL;
	} else if (op->rv == 0) {
		op->got = nng_aio_get_msg(op->aio);
		nng_aio_set_msg(op->aio, NULL);
	}
	op->done = 1;
}

static void
settle(void)
{
	struct timespec ts = { 0, 100000 };
	for (int i = 0; i < 200000; i++) {
		if (!nni_verif_reap_busy()) {
			nanosleep(&ts, NULL);
			if (!nni_verif_reap_busy()) {
				return;
			}
		}
		if (dee_run_all(10000) == 0) {
			nanosleep(&ts, NULL);
		}
	}
	fprintf(stderr, "driver: watchdog: reaper does not become idle\n");
	abort();
}
static void
quiesce(void)
{
	for (int i = 0; i < 10000; i++) {
		int n = dee_run_all(10000);
		settle();
		if (n == 0 && dee_npending() == 0) {
			return;
		}
	}
	fprintf(stderr, "driver: watchdog: library does not become quiescent\n");
	abort();
}

// blocking calls (dial without NNG_FLAG_NONBLOCK, close calls) wait for callbacks that this thread releases
static struct {
	int          kind, arg, rv;
	volatile int done;
} bc;
static void *
bc_thread(void *a)
{
	(void) a;
	switch (bc.kind) {
	case 0: bc.rv = nng_socket_close(sk[bc.arg]); break;
	case 1: bc.rv = nng_listener_close(the_listener); break;
	case 2: bc.rv = nng_dialer_close(the_dialer); break;
	case 3: bc.rv = nng_dial(sk[1], url, &the_dialer, 0); break;
	}
	bc.done = 1;
	return NULL;
}
static int
blocking(int kind, int arg)
{
	pthread_t       th;
	struct timespec ts = { 0, 200000 };
	bc.kind = kind;
	bc.arg  = arg;
	bc.done = 0;
	pthread_create(&th, NULL, bc_thread, NULL);
	for (int i = 0; i < 100000 && !bc.done; i++) {
		if (dee_run_all(10000) == 0) {
			nanosleep(&ts, NULL);
		}
	}
	if (!bc.done) {
		fprintf(stderr, "driver: watchdog: blocking call %d does not return\n", kind);
		abort();
	}
	pthread_join(th, NULL);
	return bc.rv;
}

// per-walk watchdog: a walk takes milliseconds; a library call that never returns (an operation that is never completed makes
// nng_aio_stop wait forever) must end the run quickly and visibly
static void
on_alarm(int sig)
{
	static const char m[] = "driver: watchdog: walk does not finish (an operation never completes / a call never returns)\n";
	(void) sig;
	if (write(2, m, sizeof(m) - 1) < 0) {
	}
	_exit(97);
}

static vp_pipe *
end_of(int conn, int side)
{
	vp_pipe *p = NULL;
	if (conn >= 1 && conn <= MAXCONN) {
		nni_mtx_lock(&vp_mtx);
		p = ends[side][conn];
		if (p != NULL && (p->closed || !p->started)) {
			p = NULL;
		}
		nni_mtx_unlock(&vp_mtx);
	}
	return p;
}

// message <tag, nh header words, shape e|t|b>
static nng_msg *
mk_msg(uint32_t tag, int nh, char shape)
{
	nng_msg *m;
	size_t   bl = shape == 'e' ? 0 : shape == 't' ? 4 : BIGLEN;
	if (nng_msg_alloc(&m, bl) != 0) {
		fprintf(stderr, "driver: out of memory\n");
		abort();
	}
	if (bl >= 4) {
		uint8_t *b = nng_msg_body(m);
		put32(b, tag);
		for (size_t j = 4; j < bl; j++) {
			b[j] = pat(tag, j);
		}
	}
	for (int i = 1; i <= nh; i++) {
		nng_msg_header_append_u32(m, 0x01000000u * (uint32_t) i + tag);
	}
	return m;
}

// a received message: total length, the leading words decoded, and whether the rest matches the pattern of its tag
static void
got_json(nng_msg *m)
{
	size_t   bl = nng_msg_len(m), hl = nng_msg_header_len(m), i = 0;
	uint8_t *b = nng_msg_body(m);
	uint32_t tag = 0;
	int      havetag = 0, first = 1, okpat = 1;
	o(",\"hl\":%zu,\"len\":%zu,\"w\":[", hl, bl);
	while (i + 4 <= bl && !havetag) {
		uint32_t w = get32(b + i);
		i += 4;
		if ((w >> 24) >= 1 && (w >> 24) <= 3) {
			o("%s{\"k\":\"h\",\"i\":%u,\"m\":%u}", first ? "" : ",", w >> 24, w & 0xffffffu);
		} else {
			o("%s{\"k\":\"t\",\"i\":0,\"m\":%u}", first ? "" : ",", w);
			tag     = w;
			havetag = 1;
		}
		first = 0;
	}
	o("]");
	if (havetag) {
		size_t base = i - 4;
		for (size_t j = 4; base + j < bl; j++) {
			if (b[base + j] != pat(tag, j)) {
				okpat = 0;
			}
		}
	} else if (i != bl) {
		okpat = 0;
	}
	o(",\"pat\":%s", okpat ? "true" : "false");
}

static void
done_json(void)
{
	int first = 1;
	o("[");
	for (int i = 1; i <= MAXOPS; i++) {
		op_t *op = &ops[i];
		if (!op->used || !op->done || op->reported) {
			continue;
		}
		op->reported = 1;
		o("%s{\"op\":%d,\"rv\":\"%s\"", first ? "" : ",", i, rvname(op->rv));
		first = 0;
		if (op->ncb != 1) {
			o(",\"ncb\":%d", op->ncb);
		}
		if (op->issend) {
			if (op->rv == 0) {
				o(",\"n\":%zu", op->count);
				if (op->kept) {
					o(",\"kept\":true");
				}
			} else {
				o(",\"kept\":%s", op->kept ? "true" : "false");
				if (op->kept) {
					// touch it: it must still be ours
					volatile uint8_t x = 0;
					if (nng_msg_len(op->orig) > 0) {
						x = *(uint8_t *) nng_msg_body(op->orig);
					}
					(void) x;
					nng_aio_set_msg(op->aio, NULL);
					nng_msg_free(op->orig);
				}
			}
			op->orig = NULL;
		} else if (op->rv == 0 && op->got != NULL) {
			got_json(op->got);
			if (nng_msg_len(op->got) > 0) {
				// the receiver owns an exclusive copy: scribbling on it must not show in anybody else's reference
				((uint8_t *) nng_msg_body(op->got))[0] ^= 0xff;
			}
			nng_msg_free(op->got);
			op->got = NULL;
		}
		o("}");
	}
	o("]");
}

// shared messages: the driver's second reference must still read as it was built
static int
clones_intact(void)
{
	for (int i = 1; i <= MAXOPS; i++) {
		op_t *op = &ops[i];
		if (op->used && op->clone != NULL) {
			size_t   bl = nng_msg_len(op->clone);
			uint8_t *b  = nng_msg_body(op->clone);
			if (bl >= 4) {
				uint32_t tag = get32(b);
				for (size_t j = 4; j < bl; j++) {
					if (b[j] != pat(tag, j)) {
						return 0;
					}
				}
				if ((tag >> 24) != 0) {
					return 0;
				}
			}
		}
	}
	return 1;
}

static void
obs_json(void)
{
	int first = 1;
	o("\"obs\":{\"up\":[");
	for (int c = 1; c <= MAXCONN; c++) {
		for (int s = 0; s < 2; s++) {
			if (end_of(c, s) != NULL) {
				o("%s[%d,%d]", first ? "" : ",", c, s);
				first = 0;
			}
		}
	}
	o("],\"S_ev\":[%s]", evbuf);
	evn      = 0;
	evbuf[0] = 0;
	first    = 1;
	o(",\"pend\":[");
	for (int i = 1; i <= MAXOPS; i++) {
		if (ops[i].used && !ops[i].done) {
			o("%s%d", first ? "" : ",", i);
			first = 0;
		}
	}
	o("],\"shared_ok\":%s,\"tasks\":%d}", clones_intact() ? "true" : "false", dee_npending());
}

int
main(int argc, char **argv)
{
	nng_init_params p;
	char            line[512];
	FILE           *in    = stdin;
	uint64_t        live0 = 0;
	long            walk = 0, step = 0;

	setvbuf(stdout, NULL, _IOLBF, 0);
	memset(&p, 0, sizeof(p));
	acct_fill_params(&p);
	p.num_task_threads   = 2;
	p.max_task_threads   = 2;
	p.num_expire_threads = 1;
	p.max_expire_threads = 1;
	dee_init(0, 1, getenv("DRV_TRACE"));
	if (nng_init(&p) != 0) {
		return 3;
	}
	if (argc > 1 && (in = fopen(argv[1], "r")) == NULL) {
		return 3;
	}
	// warm up lazily created global state with one free-running cycle, so that the per-walk allocation balance is exact
	{
		nng_socket a, b;
		dee_gate(0);
		nsock = 0;
		if (nni_proto_open(&a, &vp_proto) == 0 && nni_proto_open(&b, &vp_proto) == 0) {
			nng_listener l;
			nng_dialer   d;
			nng_listen(a, "inproc://warm", &l, 0);
			nng_dial(b, "inproc://warm", &d, 0);
			nng_socket_close(b);
			nng_socket_close(a);
		}
		nni_reap_sys_drain();
	}
	while (fgets(line, sizeof(line), in) != NULL) {
		char cmd[32] = "", a1[64] = "", a2[64] = "", a3[64] = "", a4[64] = "", a5[64] = "", a6[64] = "", a7[64] = "";
		int  n, quiet;
		quiet = line[0] == '!';
		if (quiet) {
			memmove(line, line + 1, strlen(line));
		}
		n = sscanf(line, "%31s %63s %63s %63s %63s %63s %63s %63s", cmd, a1, a2, a3, a4, a5, a6, a7);
		if (n < 1) {
			continue;
		}
		if (!strcmp(cmd, "W")) {
			walk = atol(a1);
			step = 0;
			signal(SIGALRM, on_alarm);
			alarm(60);
			printf("B %ld\n", walk);
			fflush(stdout);
			memset(ops, 0, sizeof(ops));
			memset(ends, 0, sizeof(ends));
			memset(nends, 0, sizeof(nends));
			memset(finid, 0, sizeof(finid));
			memset(evpre, 0, sizeof(evpre));
			memset(evcnt, 0, sizeof(evcnt));
			memset(pre_id, 0, sizeof(pre_id));
			memset(reject_next, 0, sizeof(reject_next));
			evn = 0;
			evbuf[0] = 0;
			nsock = 0;
			have_listener = have_dialer = 0;
			start_refuse = 0;
			fail_step = 0;
			live0 = acct_live_blocks();
			acct_dump_since(acct_total_allocs());
			dee_gate(1);
			continue;
		}
		if (!strcmp(cmd, "E")) {
			dee_gate(0);
			dee_run_all(10000);
			for (int i = 1; i <= MAXOPS; i++) {
				if (ops[i].used) {
					nng_aio_stop(ops[i].aio);
				}
			}
			for (int s = 0; s < 2; s++) {
				if (sk_open[s]) {
					nng_socket_close(sk[s]);
					sk_open[s] = 0;
				}
			}
			dee_run_all(10000);
			for (int i = 1; i <= MAXOPS; i++) {
				if (ops[i].used) {
					nng_msg *m = nng_aio_get_msg(ops[i].aio);
					if (m != NULL) {
						nng_msg_free(m);
					}
					if (ops[i].got != NULL) {
						nng_msg_free(ops[i].got);
					}
					if (ops[i].clone != NULL) {
						nng_msg_free(ops[i].clone);
					}
					nng_aio_free(ops[i].aio);
					ops[i].used = 0;
				}
			}
			nni_reap_sys_drain();
			{
				struct timespec ts = { 0, 200000 };
				for (int i = 0; i < 20000 && acct_live_blocks() != live0; i++) {
					nni_reap_sys_drain();
					nanosleep(&ts, NULL);
				}
			}
			printf("X %ld {\"fin\":0,\"leak\":%lld,\"mism\":%llu,\"badfree\":%llu}\n", walk,
			    (long long) acct_live_blocks() - (long long) live0, (unsigned long long) acct_size_mismatches(),
			    (unsigned long long) acct_bad_frees());
			if (acct_live_blocks() != live0) {
				acct_dump_live(8);
			}
			fflush(stdout);
			continue;
		}
		if (!strcmp(cmd, "open")) {
			// open <scheme-and-prefix>: two sockets; the address is made unique per walk
			int rv;
			nsock = 0;
			snprintf(url, sizeof(url), "%s%ld", a1, walk);
			if ((rv = nni_proto_open(&sk[0], &vp_proto)) != 0 || (rv = nni_proto_open(&sk[1], &vp_proto)) != 0) {
				fprintf(stderr, "driver: open: %s\n", nng_strerror(rv));
				return 3;
			}
			sk_open[0] = sk_open[1] = 1;
			for (int s = 0; s < 2; s++) {
				nng_socket_set_ms(sk[s], NNG_OPT_RECONNMINT, 10);
				nng_socket_set_ms(sk[s], NNG_OPT_RECONNMAXT, 40);
				nng_pipe_notify(sk[s], NNG_PIPE_EV_ADD_PRE, pipe_event, (void *) (intptr_t) s);
				nng_pipe_notify(sk[s], NNG_PIPE_EV_ADD_POST, pipe_event, (void *) (intptr_t) s);
				nng_pipe_notify(sk[s], NNG_PIPE_EV_REM_POST, pipe_event, (void *) (intptr_t) s);
			}
			continue;
		}
		if (!strcmp(cmd, "failat")) {
			// the k-th allocation made during the next command fails (C20)
			fail_step = atoi(a1);
			continue;
		}
		step++;
		on = 0;
		o("R %ld %ld {\"out\":{", walk, step);
		if (fail_step > 0 && strcmp(cmd, "send") != 0 && strcmp(cmd, "recv") != 0) {
			acct_fail_at((uint64_t) fail_step);
		}
		if (!strcmp(cmd, "listen") || !strcmp(cmd, "listen2")) {
			nng_listener l;
			int          rv = nng_listen(sk[0], url, &l, 0);
			if (rv == 0 && !strcmp(cmd, "listen")) {
				the_listener  = l;
				have_listener = 1;
			}
			o("\"rv\":\"%s\",", rvname(rv));
		} else if (!strcmp(cmd, "dial")) {
			int rv;
			if (!strcmp(a1, "sync")) {
				rv = blocking(3, 0);
			} else {
				rv = nng_dialer_create(&the_dialer, sk[1], url);
				if (rv == 0) {
					nng_dialer_set_ms(the_dialer, NNG_OPT_RECONNMINT, 10);
					nng_dialer_set_ms(the_dialer, NNG_OPT_RECONNMAXT, 40);
					rv = nng_dialer_start(the_dialer, NNG_FLAG_NONBLOCK);
				}
			}
			if (rv == 0) {
				nng_dialer_set_ms(the_dialer, NNG_OPT_RECONNMINT, 10);
				nng_dialer_set_ms(the_dialer, NNG_OPT_RECONNMAXT, 40);
			}
			have_dialer = rv == 0;
			o("\"rv\":\"%s\",", rvname(rv));
		} else if (!strcmp(cmd, "tick")) {
			quiesce();
			dee_advance((uint64_t) atoi(a1));
		} else if (!strcmp(cmd, "send") || !strcmp(cmd, "recv")) {
			// send <op> <conn> <side> <tag> <nh> <shape> <shared>  |  recv <op> <conn> <side>
			int      k = atoi(a1), conn = atoi(a2), side = atoi(a3);
			op_t    *op;
			vp_pipe *e = end_of(conn, side);
			if (k < 1 || k > MAXOPS || ops[k].used) {
				fprintf(stderr, "driver: bad op %d\n", k);
				return 3;
			}
			op = &ops[k];
			memset(op, 0, sizeof(*op));
			op->used   = 1;
			op->issend = !strcmp(cmd, "send");
			op->conn   = conn;
			op->side   = side;
			if (nng_aio_alloc(&op->aio, op_cb, op) != 0) {
				return 3;
			}
			{
				// send <op> <conn> <side> <tag> <nh> <shape> <shared> [tmo] | recv <op> <conn> <side> [tmo]
				int tmo = 0;
				if (op->issend) {
					char *q = line;
					for (int f = 0; f < 8 && q != NULL; f++) {
						q = strchr(q + 1, ' ');
					}
					tmo = q != NULL ? atoi(q) : 0;
				} else {
					tmo = atoi(a4);
				}
				nng_aio_set_timeout(op->aio, tmo > 0 ? tmo : NNG_DURATION_INFINITE);
			}
			if (op->issend) {
				op->orig = mk_msg((uint32_t) atoi(a4), atoi(a5), a6[0]);
				if (atoi(a7)) {
					nni_msg_clone(op->orig);
					op->clone = op->orig;
				}
				nng_aio_set_msg(op->aio, op->orig);
			}
			if (fail_step > 0) {
				// only the library's own allocations count (the message and the aio are the driver's)
				acct_fail_at((uint64_t) fail_step);
			}
			if (e == NULL) {
				o("\"rv\":\"noend\",");
			} else if (op->issend) {
				nni_pipe_send(e->np, op->aio);
			} else {
				nni_pipe_recv(e->np, op->aio);
			}
		} else if (!strcmp(cmd, "cancel")) {
			int k = atoi(a1);
			if (k >= 1 && k <= MAXOPS && ops[k].used) {
				nng_aio_cancel(ops[k].aio);
			}
		} else if (!strcmp(cmd, "pclose")) {
			vp_pipe *e = end_of(atoi(a1), atoi(a2));
			if (e == NULL) {
				o("\"rv\":\"noend\",");
			} else {
				nng_pipe pp = { .id = nni_pipe_id(e->np) };
				o("\"rv\":\"%s\",", rvname(nng_pipe_close(pp)));
			}
		} else if (!strcmp(cmd, "reject")) {
			reject_next[atoi(a1)] = 1;
		} else if (!strcmp(cmd, "refuse")) {
			start_refuse = 1;
		} else if (!strcmp(cmd, "lclose")) {
			o("\"rv\":\"%s\",", have_listener ? rvname(blocking(1, 0)) : "none");
			have_listener = 0;
		} else if (!strcmp(cmd, "dclose")) {
			o("\"rv\":\"%s\",", have_dialer ? rvname(blocking(2, 0)) : "none");
			have_dialer = 0;
		} else if (!strcmp(cmd, "sclose")) {
			int s = atoi(a1);
			o("\"rv\":\"%s\",", sk_open[s] ? rvname(blocking(0, s)) : "none");
			sk_open[s] = 0;
			if (s == 0) {
				have_listener = 0;
			} else {
				have_dialer = 0;
			}
		} else {
			fprintf(stderr, "driver: bad command %s\n", cmd);
			return 3;
		}
		quiesce();
		if (fail_step > 0) {
			o("\"failed\":%s,", acct_fail_fired() ? "true" : "false");
			acct_fail_at(0);
			fail_step = 0;
		}
		o("\"done\":");
		done_json();
		o("},");
		obs_json();
		o("}");
		if (!quiet) {
			fputs(ob, stdout);
			fputc('\n', stdout);
			fflush(stdout);
		}
	}
	dee_gate(0);
	nng_fini();
	printf("Z\n");
	return 0;
}
