// drv_url: feeds URL strings (one per line, hex encoded) to nng_url_parse and reports the verdict,
// every accessor, the sprintf->parse round trip and clone equality/independence.
#include "acct.h"
#include <nng/nng.h>
#include <stdio.h>
#include <stdlib.h>
#include <string.h>

static void
hex(const char *name, const char *s)
{
	if (s == NULL) {
		printf("\"%s\":null", name);
		return;
	}
	printf("\"%s\":\"", name);
	for (const unsigned char *p = (const unsigned char *) s; *p; p++) {
		printf("%02x", *p);
	}
	printf("\"");
}
static int
seq(const char *a, const char *b)
{
	if (a == NULL || b == NULL) {
		return a == b;
	}
	return strcmp(a, b) == 0;
}
static int
same(const nng_url *a, const nng_url *b)
{
	return seq(nng_url_scheme(a), nng_url_scheme(b)) && seq(nng_url_hostname(a), nng_url_hostname(b)) &&
	    nng_url_port(a) == nng_url_port(b) && seq(nng_url_path(a), nng_url_path(b)) &&
	    seq(nng_url_query(a), nng_url_query(b)) && seq(nng_url_fragment(a), nng_url_fragment(b));
}

int
main(int argc, char **argv)
{
	nng_init_params p;
	static char     line[8192], raw[4096];
	FILE           *in = stdin;
	long            n  = 0;
	memset(&p, 0, sizeof(p));
	acct_fill_params(&p);
	if (nng_init(&p) != 0) {
		return 3;
	}
	if (argc > 1 && (in = fopen(argv[1], "r")) == NULL) {
		return 3;
	}
	while (fgets(line, sizeof(line), in) != NULL) {
		size_t   l = strlen(line), k = 0;
		nng_url *u = NULL;
		uint64_t live0 = acct_live_blocks();
		while (l > 0 && (line[l - 1] == '\n' || line[l - 1] == '\r')) {
			line[--l] = 0;
		}
		for (size_t i = 0; i + 1 < l && k < sizeof(raw) - 1; i += 2) {
			unsigned v;
			sscanf(line + i, "%2x", &v);
			raw[k++] = (char) v;
		}
		raw[k] = 0;
		// exact-size heap copy so that ASan sees any read past the terminator
		char *in_s = malloc(k + 1);
		memcpy(in_s, raw, k + 1);
		printf("B %ld\n", n);
		fflush(stdout);
		int rv = nng_url_parse(&u, in_s);
		printf("R %ld {\"rv\":%d", n, rv);
		if (rv == 0) {
			char        buf[4096];
			nng_url    *u2 = NULL, *c = NULL;
			int         rv2, rvc, len;
			printf(",\"scheme\":\"%s\",\"port\":%u,", nng_url_scheme(u), nng_url_port(u));
			hex("host", nng_url_hostname(u));
			printf(",");
			hex("user", nng_url_userinfo(u));
			printf(",");
			hex("path", nng_url_path(u));
			printf(",");
			hex("query", nng_url_query(u));
			printf(",");
			hex("frag", nng_url_fragment(u));
			// formatting, then parsing again
			len = nng_url_sprintf(buf, sizeof(buf), u);
			if (len < 0 || (size_t) len >= sizeof(buf)) {
				printf(",\"rt\":{\"rv\":-1,\"same\":false}");
			} else {
				char *f = malloc((size_t) len + 1);
				memcpy(f, buf, (size_t) len + 1);
				rv2 = nng_url_parse(&u2, f);
				printf(",\"rt\":{\"rv\":%d,\"same\":%s}", rv2, rv2 == 0 && same(u, u2) ? "true" : "false");
				if (rv2 == 0) {
					nng_url_free(u2);
				}
				free(f);
			}
			// clone: equal, and still equal after the original is gone
			rvc = nng_url_clone(&c, u);
			if (rvc == 0) {
				int eq = same(u, c) && seq(nng_url_userinfo(u), nng_url_userinfo(c));
				nng_url_free(u);
				u = NULL;
				nng_url *u3 = NULL;
				int      ind = 0;
				if (nng_url_parse(&u3, in_s) == 0) {
					// every component of the clone is read after the original is gone, the user info included
					ind = same(u3, c) && seq(nng_url_userinfo(u3), nng_url_userinfo(c));
					nng_url_free(u3);
				}
				printf(",\"clone\":{\"rv\":0,\"same\":%s,\"indep\":%s}", eq ? "true" : "false", ind ? "true" : "false");
				nng_url_free(c);
			} else {
				printf(",\"clone\":{\"rv\":%d,\"same\":false,\"indep\":false}", rvc);
			}
			if (u != NULL) {
				nng_url_free(u);
			}
		}
		free(in_s);
		printf(",\"leak\":%lld,\"mism\":%llu}\n", (long long) acct_live_blocks() - (long long) live0,
		    (unsigned long long) acct_size_mismatches());
		fflush(stdout);
		n++;
	}
	nng_fini();
	printf("Z\n");
	return 0;
}
