// drv_wire: the socket under test listens on real tcp and ipc endpoints; the driver is the remote peer, a plain
// POSIX socket that writes handshakes, frames and garbage byte by byte as told (spec/wire/Framing.tla).
// Real threads, real time: every wait is bounded and uses the expectation passed with the command only to decide
// how long to wait, never what to report.
//
//   W <id>
//   open pull|push <recvmax-class> <scale> <clamp>      size class n stands for n*scale payload bytes; recvmax = class*scale
//   conn <c> tcp|ipc
//   wr <c> <kind> <n> <serial> <expectN> <expectClosed>  kind: hs_ok hs_bad_magic hs_bad_proto hs_short_close frame huge_len
//                                                              bad_type trunc_hdr_close trunc_body_close close
//   send <c> <n> <serial>                               (push) the socket sends a message, the peer reads one frame
//   E
#include "acct.h"
#include "core/nng_impl.h"
#include <arpa/inet.h>
#include <errno.h>
#include <fcntl.h>
#include <netinet/in.h>
#include <netinet/tcp.h>
#include <nng/nng.h>
#include <poll.h>
#include <stdarg.h>
#include <stdio.h>
#include <stdlib.h>
#include <string.h>
#include <sys/socket.h>
#include <sys/un.h>
#include <time.h>
#include <unistd.h>

extern size_t nni_verif_io_max; // NNG_VERIF hook: upper bound of the bytes moved by one read/write system call

#define MAXC 8
static struct {
	int  fd;
	int  ipc;
	int  closed_seen;
	int  hs_read; // bytes of the socket's own handshake consumed
	int  udp;     // SP/UDP: a connected datagram socket; 'closed' means a DISC datagram was received
} cn[MAXC];
static nng_socket sut;
static nng_listener sfd_l;
static int        sut_open, is_push;
static size_t     scale = 1;
static char       tcp_url[64], ipc_url[128], ipc_path[100];
static uint16_t   tcp_port, udp_port;
static long       walk = -1;
static int        lenient, skip_walk; // failure-injection mode; the socket could not even be opened
static int        step;
static int        quiet_cmd; // the command came with a leading '!': part of the set-up, no result line
static char       ob[8192];
static size_t     on;

static void
o(const char *fmt, ...)
{
	va_list ap;
	va_start(ap, fmt);
	on += (size_t) vsnprintf(ob + on, sizeof(ob) - on, fmt, ap);
	va_end(ap);
}
static uint64_t
now_ms(void)
{
	struct timespec ts;
	clock_gettime(CLOCK_MONOTONIC, &ts);
	return (uint64_t) ts.tv_sec * 1000 + (uint64_t) ts.tv_nsec / 1000000;
}
static void
obs_emit(void)
{
	int first = 1;
	o(",\"obs\":{\"S_open\":[");
	for (int c = 1; c < MAXC; c++) {
		if (cn[c].fd > 0 && !cn[c].closed_seen) {
			o("%s%d", first ? "" : ",", c);
			first = 0;
		}
	}
	o("]}}");
	if (!quiet_cmd) {
		printf("R %ld %d %s\n", walk, step++, ob);
		fflush(stdout);
	}
	on    = 0;
	ob[0] = 0;
}
static int
write_all(int fd, const uint8_t *b, size_t n)
{
	while (n > 0) {
		ssize_t k = send(fd, b, n, MSG_NOSIGNAL);
		if (k < 0) {
			if (errno == EINTR) {
				continue;
			}
			if (errno == EAGAIN) {
				struct pollfd pf = { fd, POLLOUT, 0 };
				poll(&pf, 1, 1000);
				continue;
			}
			return -1; // the other side is gone: that is an outcome, not an error of the driver
		}
		b += k;
		n -= (size_t) k;
	}
	return 0;
}
// has the socket under test closed connection c?  (EOF or reset on the peer's descriptor; its handshake bytes are skipped)
static int
check_closed(int c, int wait_ms)
{
	uint64_t end = now_ms() + (uint64_t) wait_ms;
	for (;;) {
		struct pollfd pf   = { cn[c].fd, POLLIN, 0 };
		int           left = (int) (end > now_ms() ? end - now_ms() : 0);
		uint8_t       buf[64];
		ssize_t       k;
		if (cn[c].closed_seen) {
			return 1;
		}
		if (poll(&pf, 1, left) <= 0) {
			return 0;
		}
		k = recv(cn[c].fd, buf, 1, MSG_DONTWAIT | MSG_PEEK);
		if (k == 0 || (k < 0 && errno != EAGAIN && errno != EINTR)) {
			cn[c].closed_seen = 1;
			return 1;
		}
		if (k > 0) {
			if (cn[c].hs_read < 8) {
				// the socket's own handshake
				k = recv(cn[c].fd, buf, (size_t) (8 - cn[c].hs_read), MSG_DONTWAIT);
				cn[c].hs_read += k > 0 ? (int) k : 0;
				continue;
			}
			if (!is_push) {
				recv(cn[c].fd, buf, sizeof(buf), MSG_DONTWAIT); // a pull socket has nothing to say: ignore
				continue;
			}
			// push: a frame waiting for `send` to read it; the connection is alive
			if (now_ms() >= end) {
				return 0;
			}
			usleep(2000);
		}
		if (now_ms() >= end) {
			return 0;
		}
	}
}
static size_t
put_len(uint8_t *b, int ipc, uint64_t len)
{
	size_t n = 0;
	if (ipc) {
		b[n++] = 1;
	}
	for (int i = 7; i >= 0; i--) {
		b[n++] = (uint8_t) (len >> (8 * i));
	}
	return n;
}

int
main(int argc, char **argv)
{
	nng_init_params p;
	char            line[512];
	FILE           *in    = stdin;
	uint64_t        live0 = 0, allocs0 = 0;

	setvbuf(stdout, NULL, _IOLBF, 0);
	memset(&p, 0, sizeof(p));
	acct_fill_params(&p);
	if (nng_init(&p) != 0) {
		return 3;
	}
	if (argc > 1 && (in = fopen(argv[1], "r")) == NULL) {
		return 3;
	}
	// warm up lazily created global state so that the per-walk allocation balance is exact
	{
		nng_socket   w;
		nng_listener l;
		if (nng_pull0_open(&w) == 0) {
			if (nng_listener_create(&l, w, "tcp://127.0.0.1:0") == 0 && nng_listener_start(l, 0) == 0) {
				// one real connection, so that the static pipe / dialer id maps exist
				int        port = 0;
				nng_socket d;
				char       url[64];
				nng_listener_get_int(l, NNG_OPT_BOUND_PORT, &port);
				snprintf(url, sizeof(url), "tcp://127.0.0.1:%d", port);
				if (nng_push0_open(&d) == 0) {
					nng_msg *m;
					nng_dial(d, url, NULL, 0);
					nng_socket_set_ms(w, NNG_OPT_RECVTIMEO, 2000);
					if (nng_msg_alloc(&m, 1) == 0 && nng_sendmsg(d, m, 0) != 0) {
						nng_msg_free(m);
					}
					if (nng_recvmsg(w, &m, 0) == 0) {
						nng_msg_free(m);
					}
					nng_socket_close(d);
				}
			}
			snprintf(ipc_url, sizeof(ipc_url), "ipc:///tmp/vwire-warm-%d.sock", (int) getpid());
			if (nng_listener_create(&l, w, ipc_url) == 0) {
				nng_listener_start(l, 0);
			}
			nng_socket_close(w);
			nni_reap_sys_drain();
		}
	}
	while (fgets(line, sizeof(line), in) != NULL) {
		char cmd[32] = "", a1[32] = "", a2[32] = "", a3[32] = "", a4[32] = "", a5[32] = "", a6[32] = "";
		int  n;
		quiet_cmd = line[0] == '!';
		n = sscanf(line + quiet_cmd, "%31s %31s %31s %31s %31s %31s %31s", cmd, a1, a2, a3, a4, a5, a6);
		if (n < 1) {
			continue;
		}
		if (!strcmp(cmd, "W")) {
			walk = atol(a1);
			step = 0;
			memset(cn, 0, sizeof(cn));
			lenient = skip_walk = 0;
			allocs0 = acct_total_allocs();
			live0 = acct_live_blocks();
			acct_dump_since(acct_total_allocs());
			printf("B %ld\n", walk);
			fflush(stdout);
			continue;
		}
		if (!strcmp(cmd, "E")) {
			struct timespec ts = { 0, 500000 };
			for (int c = 1; c < MAXC; c++) {
				if (cn[c].fd > 0) {
					close(cn[c].fd);
				}
			}
			if (sut_open) {
				nng_socket_close(sut);
				sut_open = 0;
			}
			unlink(ipc_path);
			nni_reap_sys_drain();
			for (int i = 0; i < 10000 && acct_live_blocks() != live0; i++) {
				nni_reap_sys_drain();
				nanosleep(&ts, NULL);
			}
			nni_verif_io_max = (size_t) INT32_MAX;
			printf("A %ld {\"allocs\":%llu,\"fired\":%d}\n", walk, (unsigned long long) (acct_total_allocs() - allocs0), acct_fail_fired());
			acct_fail_at(0);
			printf("X %ld {\"fin\":0,\"leak\":%lld,\"mism\":%llu,\"badfree\":%llu}\n", walk,
			    (long long) acct_live_blocks() - (long long) live0, (unsigned long long) acct_size_mismatches(),
			    (unsigned long long) acct_bad_frees());
			if (acct_live_blocks() != live0) {
				acct_dump_live(8);
			}
			fflush(stdout);
			continue;
		}
		if (!strcmp(cmd, "failat")) {
			// allocation-failure injection (C20): the k-th allocation from now fails, in whatever thread it happens;
			// from here on results are not compared, waits are short, only crash / hang / leak count
			lenient = 1;
			acct_fail_at((uint64_t) atol(a1));
			continue;
		}
		if (skip_walk) {
			continue;
		}
		if (!strcmp(cmd, "open")) {
			nng_listener l;
			int          bport = 0;
			int          rv;
			is_push = !strcmp(a1, "push");
			scale   = (size_t) atol(a3);
			if ((rv = is_push ? nng_push0_open(&sut) : nng_pull0_open(&sut)) != 0) {
				if (lenient) {
					skip_walk = 1;
					continue;
				}
				return 3;
			}
			sut_open = 1;
			nng_socket_set_size(sut, NNG_OPT_RECVMAXSZ, (size_t) atol(a2) * scale);
			nng_socket_set_ms(sut, NNG_OPT_SENDTIMEO, 5000);
			if ((rv = nng_listener_create(&l, sut, "tcp://127.0.0.1:0")) != 0 || (rv = nng_listener_start(l, 0)) != 0 ||
			    (rv = nng_listener_get_int(l, NNG_OPT_BOUND_PORT, &bport)) != 0) {
				if (lenient) {
					skip_walk = 1;
					continue;
				}
				fprintf(stderr, "driver: tcp listen: %s\n", nng_strerror(rv));
				return 3;
			}
			tcp_port = (uint16_t) bport;
			snprintf(tcp_url, sizeof(tcp_url), "tcp://127.0.0.1:%u", tcp_port);
			snprintf(ipc_path, sizeof(ipc_path), "/tmp/vwire-%d-%ld.sock", (int) getpid(), walk);
			snprintf(ipc_url, sizeof(ipc_url), "ipc://%s", ipc_path);
			unlink(ipc_path);
			if ((rv = nng_listener_create(&l, sut, ipc_url)) != 0 || (rv = nng_listener_start(l, 0)) != 0) {
				if (lenient) {
					skip_walk = 1;
					continue;
				}
				fprintf(stderr, "driver: ipc listen: %s\n", nng_strerror(rv));
				return 3;
			}
			{
				int up = 0;
				if ((rv = nng_listener_create(&l, sut, "udp://127.0.0.1:0")) != 0 || (rv = nng_listener_start(l, 0)) != 0 ||
				    (rv = nng_listener_get_int(l, NNG_OPT_BOUND_PORT, &up)) != 0) {
					if (lenient) {
						skip_walk = 1;
						continue;
					}
					fprintf(stderr, "driver: udp listen: %s\n", nng_strerror(rv));
					return 3;
				}
				udp_port = (uint16_t) up;
			}
			if ((rv = nng_listener_create(&sfd_l, sut, "socket://")) != 0 || (rv = nng_listener_start(sfd_l, 0)) != 0) {
				if (lenient) {
					skip_walk = 1;
					continue;
				}
				fprintf(stderr, "driver: socket:// listen: %s\n", nng_strerror(rv));
				return 3;
			}
			nni_verif_io_max = atol(a4) > 0 ? (size_t) atol(a4) : (size_t) INT32_MAX;
			continue; // part of the initial state
		}
		o("{");
		if (!strcmp(cmd, "conn")) {
			int c = atoi(a1), fd, rv, one = 1;
			cn[c].ipc = !strcmp(a2, "ipc");
			cn[c].udp = !strcmp(a2, "udp");
			if (cn[c].udp) {
				struct sockaddr_in si;
				memset(&si, 0, sizeof(si));
				si.sin_family      = AF_INET;
				si.sin_port        = htons(udp_port);
				si.sin_addr.s_addr = htonl(INADDR_LOOPBACK);
				fd                 = socket(AF_INET, SOCK_DGRAM, 0);
				rv                 = connect(fd, (struct sockaddr *) &si, sizeof(si));
			} else if (!strcmp(a2, "sfd")) {
				// socket:// transport: one end of a socketpair is handed to the listener, the driver keeps the other
				int fds[2];
				rv = socketpair(AF_UNIX, SOCK_STREAM, 0, fds);
				fd = fds[0];
				if (rv == 0 && (rv = nng_listener_set_int(sfd_l, NNG_OPT_SOCKET_FD, fds[1])) != 0) {
					close(fds[1]);
					close(fds[0]);
					errno = ENOMEM;
					rv    = -1;
				}
			} else if (cn[c].ipc) {
				struct sockaddr_un su;
				memset(&su, 0, sizeof(su));
				su.sun_family = AF_UNIX;
				snprintf(su.sun_path, sizeof(su.sun_path), "%s", ipc_path);
				fd = socket(AF_UNIX, SOCK_STREAM, 0);
				rv = connect(fd, (struct sockaddr *) &su, sizeof(su));
			} else {
				struct sockaddr_in si;
				memset(&si, 0, sizeof(si));
				si.sin_family      = AF_INET;
				si.sin_port        = htons(tcp_port);
				si.sin_addr.s_addr = htonl(INADDR_LOOPBACK);
				fd                 = socket(AF_INET, SOCK_STREAM, 0);
				rv                 = connect(fd, (struct sockaddr *) &si, sizeof(si));
				setsockopt(fd, IPPROTO_TCP, TCP_NODELAY, &one, sizeof(one));
			}
			cn[c].fd = rv == 0 ? fd : -1;
			o("\"out\":{\"rv\":\"%s\"}", rv == 0 ? "ok" : strerror(errno));
		} else if (!strcmp(cmd, "wr")) {
			int       c = atoi(a1), expn = lenient ? 0 : atoi(a5), expclosed = lenient ? 0 : atoi(a6), first = 1, got = 0;
			size_t    cls = (size_t) atol(a3), len = cls * scale, hl, nb = 0;
			uint8_t   seed = (uint8_t) atoi(a4);
			uint8_t  *buf  = malloc(len + 32);
			int       then_close = 0;
			uint16_t  peer = is_push ? 0x51 : 0x50; // what the driver claims to be: PULL for a PUSH socket, PUSH for a PULL socket
			uint64_t  end;
			if (cn[c].udp) {
				// SP/UDP datagram: ver(1) op(1) type(2, LE) p0(2, LE) p1(2, LE) [payload]
				uint8_t  d[8] = { 1, 0, (uint8_t) peer, (uint8_t) (peer >> 8), 0, 0, 0, 0 };
				size_t   dl   = 8, paylen = 0;
				uint16_t p0 = 0, p1 = 0;
				int      nrep = 0, exprep = atoi(a6);
				uint64_t end2;
				if (!strcmp(a2, "creq_ok") || !strcmp(a2, "creq_ref0") || !strcmp(a2, "creq_badtype")) {
					d[1] = 1;
					p0   = 65000;
					p1   = !strcmp(a2, "creq_ref0") ? 0 : 5;
					if (!strcmp(a2, "creq_badtype")) {
						d[2] = 0x10; // PAIR
						d[3] = 0;
					}
				} else if (!strcmp(a2, "data") || !strcmp(a2, "data_trunc")) {
					d[1]   = 0;
					paylen = len;
					p0     = (uint16_t) (len + (!strcmp(a2, "data_trunc") ? 1 : 0));
				} else if (!strcmp(a2, "badver")) {
					d[0] = 2;
					d[1] = 1;
					p1   = 5;
				} else if (!strcmp(a2, "short")) {
					dl = 4;
				} else if (!strcmp(a2, "badop")) {
					d[1] = 9;
				} else if (!strcmp(a2, "disc")) {
					d[1] = 3;
				} else {
					fprintf(stderr, "driver: bad udp item %s\n", a2);
					return 3;
				}
				d[4] = (uint8_t) p0;
				d[5] = (uint8_t) (p0 >> 8);
				d[6] = (uint8_t) p1;
				d[7] = (uint8_t) (p1 >> 8);
				memcpy(buf, d, dl);
				for (size_t i = 0; i < paylen; i++) {
					buf[dl + i] = (uint8_t) (seed + 7 * i);
				}
				send(cn[c].fd, buf, dl + paylen, MSG_NOSIGNAL);
				free(buf);
				o("\"out\":{\"got\":[");
				end = now_ms() + 8000;
				for (;;) {
					nng_msg *m = NULL;
					nng_socket_set_ms(sut, NNG_OPT_RECVTIMEO, got < expn ? (nng_duration) (end > now_ms() ? end - now_ms() : 1) : 25);
					if (nng_recvmsg(sut, &m, 0) != 0) {
						break;
					}
					{
						size_t   l  = nng_msg_len(m);
						uint8_t *b  = nng_msg_body(m);
						int      ok = scale > 0 && l % scale == 0 && nng_msg_header_len(m) == 0;
						for (size_t i = 1; ok && i < l; i++) {
							ok = b[i] == (uint8_t) (b[0] + 7 * i);
						}
						o("%s%ld", first ? "" : ",", ok ? (long) (l / scale) : -1L);
						first = 0;
						got++;
					}
					nng_msg_free(m);
				}
				// datagrams the socket sent back: [opcode, first parameter]; they must be well-formed (8 bytes, version 1, our
				// peer's protocol id)
				o("],\"replies\":[");
				first = 1;
				end2  = now_ms() + 8000;
				for (;;) {
					struct pollfd pf = { cn[c].fd, POLLIN, 0 };
					uint8_t       r[64];
					ssize_t       k;
					int           w = nrep < exprep ? (int) (end2 > now_ms() ? end2 - now_ms() : 0) : 25;
					if (poll(&pf, 1, lenient ? 25 : w) <= 0) {
						break;
					}
					k = recv(cn[c].fd, r, sizeof(r), MSG_DONTWAIT);
					if (k < 0) {
						break; // (ICMP errors surface here: the listener is gone)
					}
					if (k != 8 || r[0] != 1) {
						o("%s[-1,%ld]", first ? "" : ",", (long) k);
					} else {
						o("%s[%d,%d]", first ? "" : ",", r[1], r[4] | (r[5] << 8));
						if (r[1] == 3) {
							cn[c].closed_seen = 1;
						}
					}
					first = 0;
					nrep++;
				}
				o("],\"closed\":%s}", cn[c].closed_seen ? "true" : "false");
				obs_emit();
				continue;
			}
			if (!strcmp(a2, "hs_ok") || !strcmp(a2, "hs_bad_magic") || !strcmp(a2, "hs_bad_proto") || !strcmp(a2, "hs_short_close")) {
				uint8_t h[8] = { 0, 'S', 'P', 0, (uint8_t) (peer >> 8), (uint8_t) peer, 0, 0 };
				if (!strcmp(a2, "hs_bad_magic")) {
					h[1] = 'X';
				}
				if (!strcmp(a2, "hs_bad_proto")) {
					h[4] = 0;
					h[5] = 0x10; // PAIR
				}
				nb = !strcmp(a2, "hs_short_close") ? 5 : 8;
				memcpy(buf, h, nb);
				then_close = !strcmp(a2, "hs_short_close");
			} else if (!strcmp(a2, "frame")) {
				hl = put_len(buf, cn[c].ipc, len);
				for (size_t i = 0; i < len; i++) {
					buf[hl + i] = (uint8_t) (seed + 7 * i);
				}
				nb = hl + len;
			} else if (!strcmp(a2, "huge_len")) {
				nb = put_len(buf, cn[c].ipc, 0xfffffffffffffff0ull);
			} else if (!strcmp(a2, "bad_type")) {
				nb     = put_len(buf, 1, 1);
				buf[0] = 2;
				buf[nb++] = 0;
			} else if (!strcmp(a2, "trunc_hdr_close")) {
				nb         = put_len(buf, cn[c].ipc, 3) - 3;
				then_close = 1;
			} else if (!strcmp(a2, "trunc_body_close")) {
				nb         = put_len(buf, cn[c].ipc, 3);
				buf[nb++]  = 0x41;
				then_close = 1;
			} else if (!strcmp(a2, "close")) {
				nb         = 0;
				then_close = 1;
			} else {
				fprintf(stderr, "driver: bad item %s\n", a2);
				return 3;
			}
			write_all(cn[c].fd, buf, nb);
			free(buf);
			if (then_close) {
				close(cn[c].fd);
				cn[c].closed_seen = 1;
			}
			// what reached the application: wait for what is expected, then a little longer for what is not
			o("\"out\":{\"got\":[");
			end = now_ms() + 8000;
			while (!is_push) {
				nng_msg *m = NULL;
				int      rv;
				nng_socket_set_ms(sut, NNG_OPT_RECVTIMEO, got < expn ? (nng_duration) (end > now_ms() ? end - now_ms() : 1) : 25);
				rv = nng_recvmsg(sut, &m, 0);
				if (rv != 0) {
					break;
				}
				{
					size_t   l  = nng_msg_len(m);
					uint8_t *b  = nng_msg_body(m);
					int      ok = scale > 0 && l % scale == 0 && nng_msg_header_len(m) == 0;
					for (size_t i = 1; ok && i < l; i++) {
						ok = b[i] == (uint8_t) (b[0] + 7 * i);
					}
					o("%s%ld", first ? "" : ",", ok ? (long) (l / scale) : -1L);
					first = 0;
					got++;
				}
				nng_msg_free(m);
			}
			o("],\"closed\":%s}", check_closed(c, expclosed ? 8000 : 25) ? "true" : "false");
		} else if (!strcmp(cmd, "send")) {
			// the socket under test sends n*scale bytes; the peer on connection c must read exactly one frame with them
			int       c    = atoi(a1);
			size_t    len  = (size_t) atol(a2) * scale, hl = cn[c].ipc ? 9 : 8, want = hl + len, have = 0;
			uint8_t   seed = (uint8_t) atoi(a3);
			nng_msg  *m;
			uint8_t  *buf = malloc(want + 16);
			uint64_t  end = now_ms() + (lenient ? 300 : 8000);
			int       rv, ok = 1;
			if (nng_msg_alloc(&m, len) != 0) {
				free(buf);
				o("\"out\":{\"rv\":\"enomem\"}");
				obs_emit();
				continue;
			}
			for (size_t i = 0; i < len; i++) {
				((uint8_t *) nng_msg_body(m))[i] = (uint8_t) (seed + 7 * i);
			}
			// first swallow the socket's handshake
			while (cn[c].hs_read < 8 && now_ms() < end) {
				struct pollfd pf = { cn[c].fd, POLLIN, 0 };
				uint8_t       h[8];
				ssize_t       k;
				poll(&pf, 1, 100);
				k = recv(cn[c].fd, h, (size_t) (8 - cn[c].hs_read), MSG_DONTWAIT);
				if (k > 0) {
					cn[c].hs_read += (int) k;
				} else if (k == 0) {
					break;
				}
			}
			if ((rv = nng_sendmsg(sut, m, 0)) != 0) {
				nng_msg_free(m);
			}
			while (rv == 0 && have < want && now_ms() < end) {
				struct pollfd pf = { cn[c].fd, POLLIN, 0 };
				ssize_t       k;
				poll(&pf, 1, 100);
				k = recv(cn[c].fd, buf + have, want - have, MSG_DONTWAIT);
				if (k > 0) {
					have += (size_t) k;
				} else if (k == 0) {
					break;
				}
			}
			if (have == want) {
				uint8_t exp[9];
				put_len(exp, cn[c].ipc, len);
				ok = memcmp(buf, exp, hl) == 0;
				for (size_t i = 0; ok && i < len; i++) {
					ok = buf[hl + i] == (uint8_t) (seed + 7 * i);
				}
			}
			// anything beyond the frame?
			{
				struct pollfd pf = { cn[c].fd, POLLIN, 0 };
				uint8_t       x;
				if (poll(&pf, 1, 25) > 0 && recv(cn[c].fd, &x, 1, MSG_DONTWAIT | MSG_PEEK) > 0) {
					ok = 0;
				}
			}
			free(buf);
			o("\"out\":{\"rv\":\"%s\",\"frame\":%ld,\"ok\":%s}", rv == 0 ? "ok" : nng_strerror(rv),
			    have == want ? (long) atol(a2) : -1L, (have == want && ok) ? "true" : "false");
		} else {
			fprintf(stderr, "driver: bad command %s\n", cmd);
			return 3;
		}
		obs_emit();
	}
	nng_fini();
	if (acct_live_blocks() != 0) {
		printf("L %llu\n", (unsigned long long) acct_live_blocks());
	}
	printf("Z\n");
	return 0;
}
