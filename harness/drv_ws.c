// drv_ws: the socket under test listens on ws://127.0.0.1:<port>/sp; the driver is the remote peer on a plain TCP socket:
// it writes HTTP upgrade requests (good and bad) and WebSocket frames (well-formed and not) as told (spec/wire/Ws.tla) and
// checks everything the server writes for well-formedness.  Real threads, real time: waits are bounded and use the
// expectation passed with the command only to decide how long to wait.
//
//   W <id>
//   open pull|push <recvmax-units> <maxframe-units> <fragsize-units> <scale> <clamp>
//   conn <c>
//   http <c> <kind> <expectClosed>
//   ws <c> <fin> <op> <masked> <rsv> <lenenc> <units> <serial> <newmsg> <expectN> <expectReplies> <expectClosed>
//   send <c> <units> <serial>
//   E
#include "acct.h"
#include "core/nng_impl.h"
#include "supplemental/websocket/base64.h"
#include "supplemental/websocket/sha1.h"
#include <arpa/inet.h>
#include <errno.h>
#include <netinet/in.h>
#include <netinet/tcp.h>
#include <nng/nng.h>
#include <poll.h>
#include <stdarg.h>
#include <stdio.h>
#include <stdlib.h>
#include <string.h>
#include <sys/socket.h>
#include <time.h>
#include <unistd.h>

extern size_t nni_verif_io_max;

#define MAXC 8
#define RXCAP (1 << 20)
static struct {
	int      fd;
	int      closed_seen;
	uint8_t *rx; // bytes read from the server and not yet parsed
	size_t   nrx;
	// the data message being written by the peer: running byte pattern
	uint8_t  mseed;
	size_t   mpos;
	// last ping payload (for the echo check)
	uint8_t  ping[128];
	size_t   nping;
} cn[MAXC];
static nng_socket sut;
static int        sut_open, is_push, is_client, lfd = -1; // is_client: the socket dials, the driver is the WebSocket server
static char       reqkey[64];                             // Sec-WebSocket-Key of the last upgrade request
static size_t     scale = 1, fragsize;
static uint16_t   port;
static nng_dialer the_dialer;
static nng_listener the_listener;
static size_t     base_req_len; // length of the upgrade request the dialer emits without padding
static size_t     pad_n;        // length of the padding header's value in force
static char       pad_cls[8];   // "" or m1 / eq / p1: the emitted request block is padded to HTTP_BUFSIZE - 1, + 0, + 1 bytes
#define EMIT_BUFSIZE (8192 - 32) // http_conn.c HTTP_BUFSIZE: the fixed buffer a header block is formatted into when it fits
static long       walk = -1;
static int        lenient, skip_walk;
static int        step;
static char       ob[8192];
static size_t     on;

static void
o(const char *fmt, ...)
{
	va_list ap;
	va_start(ap, fmt);
	on += (size_t) vsnprintf(ob + on, sizeof(ob) - on, fmt, ap);
	va_end(ap);
}
static uint64_t
now_ms(void)
{
	struct timespec ts;
	clock_gettime(CLOCK_MONOTONIC, &ts);
	return (uint64_t) ts.tv_sec * 1000 + (uint64_t) ts.tv_nsec / 1000000;
}
static void
obs_emit(void)
{
	int first = 1;
	o(",\"obs\":{\"S_open\":[");
	for (int c = 1; c < MAXC; c++) {
		if (cn[c].fd > 0 && !cn[c].closed_seen) {
			o("%s%d", first ? "" : ",", c);
			first = 0;
		}
	}
	o("]}}");
	printf("R %ld %d %s\n", walk, step++, ob);
	fflush(stdout);
	on    = 0;
	ob[0] = 0;
}
static int
write_all(int fd, const uint8_t *b, size_t n)
{
	while (n > 0) {
		ssize_t k = send(fd, b, n, MSG_NOSIGNAL);
		if (k < 0) {
			if (errno == EINTR) {
				continue;
			}
			if (errno == EAGAIN) {
				struct pollfd pf = { fd, POLLOUT, 0 };
				poll(&pf, 1, 1000);
				continue;
			}
			return -1;
		}
		b += k;
		n -= (size_t) k;
	}
	return 0;
}
// pull whatever the server has written into the connection's buffer; returns 1 if the connection is closed
static int
pump(int c, int wait_ms)
{
	struct pollfd pf = { cn[c].fd, POLLIN, 0 };
	ssize_t       k;
	if (cn[c].closed_seen) {
		return 1;
	}
	if (poll(&pf, 1, wait_ms) <= 0) {
		return 0;
	}
	k = recv(cn[c].fd, cn[c].rx + cn[c].nrx, RXCAP - cn[c].nrx, MSG_DONTWAIT);
	if (k > 0) {
		cn[c].nrx += (size_t) k;
		return 0;
	}
	if (k == 0 || (errno != EAGAIN && errno != EINTR)) {
		cn[c].closed_seen = 1;
		return 1;
	}
	return 0;
}
static void
consume(int c, size_t n)
{
	memmove(cn[c].rx, cn[c].rx + n, cn[c].nrx - n);
	cn[c].nrx -= n;
}

// One complete server frame at the head of the buffer?  Returns its total length (0: incomplete) and checks the rules for
// frames a server may emit: no mask, no reserved bits, known opcode, minimal length encoding, control frames short and final.
static size_t
server_frame(int c, int *op, int *fin, size_t *plen, size_t *hlen, int *wf)
{
	uint8_t *b = cn[c].rx;
	size_t   n = cn[c].nrx, l, h = 2;
	if (n < 2) {
		return 0;
	}
	*fin = (b[0] & 0x80) != 0;
	*op  = b[0] & 0x0f;
	*wf  = 1;
	if ((b[0] & 0x70) != 0 || ((b[1] & 0x80) != 0) != (is_client != 0)) {
		*wf = 0; // reserved bits / a server must not mask, a client must
	}
	l = b[1] & 0x7f;
	if (l == 126) {
		if (n < 4) {
			return 0;
		}
		l = ((size_t) b[2] << 8) | b[3];
		h = 4;
		if (l < 126) {
			*wf = 0;
		}
	} else if (l == 127) {
		if (n < 10) {
			return 0;
		}
		l = 0;
		for (int i = 0; i < 8; i++) {
			l = (l << 8) | b[2 + i];
		}
		h = 10;
		if (l < 65536) {
			*wf = 0;
		}
	}
	if (b[1] & 0x80) {
		h += 4;
	}
	if (!(*op == 0 || *op == 1 || *op == 2 || *op == 8 || *op == 9 || *op == 10)) {
		*wf = 0;
	}
	if (*op >= 8 && (l > 125 || !*fin)) {
		*wf = 0;
	}
	if (l > RXCAP || n < h + l) {
		return l > RXCAP ? (size_t) -1 : 0;
	}
	if (b[1] & 0x80) {
		// unmask in place (once: the mask bit is cleared)
		uint8_t *mk = b + h - 4;
		for (size_t i = 0; i < l; i++) {
			b[h + i] ^= mk[i & 3];
		}
		b[1] &= 0x7f;
		memmove(b + h - 4, b + h, n - h);
		cn[c].nrx -= 4;
		h -= 4;
	}
	*plen = l;
	*hlen = h;
	return h + l;
}

int
main(int argc, char **argv)
{
	nng_init_params p;
	char            line[512];
	FILE           *in    = stdin;
	uint64_t        live0 = 0, allocs0 = 0;

	setvbuf(stdout, NULL, _IOLBF, 0);
	memset(&p, 0, sizeof(p));
	acct_fill_params(&p);
	if (nng_init(&p) != 0) {
		return 3;
	}
	if (argc > 1 && (in = fopen(argv[1], "r")) == NULL) {
		return 3;
	}
	for (int c = 0; c < MAXC; c++) {
		cn[c].rx = malloc(RXCAP);
	}
	// warm up lazily created global state (id maps, http server table) with one real ws connection
	{
		nng_socket w, d;
		int        s = socket(AF_INET, SOCK_STREAM, 0);
		struct sockaddr_in si;
		socklen_t          sl = sizeof(si);
		char               url[64];
		memset(&si, 0, sizeof(si));
		si.sin_family      = AF_INET;
		si.sin_addr.s_addr = htonl(INADDR_LOOPBACK);
		bind(s, (struct sockaddr *) &si, sizeof(si));
		getsockname(s, (struct sockaddr *) &si, &sl);
		close(s);
		snprintf(url, sizeof(url), "ws://127.0.0.1:%u/warm", ntohs(si.sin_port));
		if (nng_pull0_open(&w) == 0 && nng_push0_open(&d) == 0) {
			nng_msg *m;
			nng_listen(w, url, NULL, 0);
			nng_dial(d, url, NULL, 0);
			nng_socket_set_ms(w, NNG_OPT_RECVTIMEO, 2000);
			if (nng_msg_alloc(&m, 1) == 0 && nng_sendmsg(d, m, 0) != 0) {
				nng_msg_free(m);
			}
			if (nng_recvmsg(w, &m, 0) == 0) {
				nng_msg_free(m);
			}
			nng_socket_close(d);
			nng_socket_close(w);
			nni_reap_sys_drain();
		}
	}
	while (fgets(line, sizeof(line), in) != NULL) {
		char cmd[32] = "", a[12][32];
		int  n;
		memset(a, 0, sizeof(a));
		n = sscanf(line, "%31s %31s %31s %31s %31s %31s %31s %31s %31s %31s %31s %31s %31s", cmd, a[0], a[1], a[2], a[3], a[4],
		    a[5], a[6], a[7], a[8], a[9], a[10], a[11]);
		if (n < 1) {
			continue;
		}
		if (!strcmp(cmd, "W")) {
			walk = atol(a[0]);
			step = 0;
			for (int c = 0; c < MAXC; c++) {
				uint8_t *rx = cn[c].rx;
				memset(&cn[c], 0, sizeof(cn[c]));
				cn[c].rx = rx;
			}
			lenient = skip_walk = 0;
			allocs0 = acct_total_allocs();
			live0   = acct_live_blocks();
			acct_dump_since(acct_total_allocs());
			printf("B %ld\n", walk);
			fflush(stdout);
			continue;
		}
		if (!strcmp(cmd, "E")) {
			struct timespec ts = { 0, 500000 };
			for (int c = 1; c < MAXC; c++) {
				if (cn[c].fd > 0) {
					close(cn[c].fd);
				}
			}
			if (sut_open) {
				nng_socket_close(sut);
				sut_open = 0;
			}
			if (lfd >= 0) {
				close(lfd);
				lfd = -1;
			}
			nni_reap_sys_drain();
			for (int i = 0; i < 10000 && acct_live_blocks() != live0; i++) {
				nni_reap_sys_drain();
				nanosleep(&ts, NULL);
			}
			nni_verif_io_max = (size_t) INT32_MAX;
			printf("A %ld {\"allocs\":%llu,\"fired\":%d}\n", walk, (unsigned long long) (acct_total_allocs() - allocs0), acct_fail_fired());
			acct_fail_at(0);
			printf("X %ld {\"fin\":0,\"leak\":%lld,\"mism\":%llu,\"badfree\":%llu}\n", walk,
			    (long long) acct_live_blocks() - (long long) live0, (unsigned long long) acct_size_mismatches(),
			    (unsigned long long) acct_bad_frees());
			if (acct_live_blocks() != live0) {
				acct_dump_live(8);
			}
			fflush(stdout);
			continue;
		}
		if (!strcmp(cmd, "failat")) {
			// allocation-failure injection (C20): results are not compared from here on, waits are short
			lenient = 1;
			acct_fail_at((uint64_t) atol(a[0]));
			continue;
		}
		if (skip_walk) {
			continue;
		}
		if (!strcmp(cmd, "open")) {
			nng_listener l;
			int          rv, s = socket(AF_INET, SOCK_STREAM, 0);
			struct sockaddr_in si;
			socklen_t          sl = sizeof(si);
			char               url[64];
			is_push   = !strncmp(a[0], "push", 4);
			is_client = a[0][4] == 'd'; // pulld / pushd: the socket dials
			scale     = (size_t) atol(a[4]);
			fragsize = (size_t) atol(a[3]) * scale;
			memset(&si, 0, sizeof(si));
			si.sin_family      = AF_INET;
			si.sin_addr.s_addr = htonl(INADDR_LOOPBACK);
			bind(s, (struct sockaddr *) &si, sizeof(si));
			getsockname(s, (struct sockaddr *) &si, &sl);
			close(s);
			port = ntohs(si.sin_port);
			snprintf(url, sizeof(url), "ws://127.0.0.1:%u/sp", port);
			if ((rv = is_push ? nng_push0_open(&sut) : nng_pull0_open(&sut)) != 0) {
				if (lenient) {
					skip_walk = 1;
					continue;
				}
				return 3;
			}
			sut_open = 1;
			nng_socket_set_ms(sut, NNG_OPT_SENDTIMEO, 5000);
			if (is_client) {
				// the driver listens; the socket's dialer connects (and reconnects, 50 ms) on its own
				nng_dialer d;
				int        one = 1;
				base_req_len = 0;
				pad_cls[0]   = 0;
				lfd = socket(AF_INET, SOCK_STREAM, 0);
				setsockopt(lfd, SOL_SOCKET, SO_REUSEADDR, &one, sizeof(one));
				si.sin_port = htons(port);
				if (bind(lfd, (struct sockaddr *) &si, sizeof(si)) != 0 || listen(lfd, 8) != 0) {
					fprintf(stderr, "driver: cannot listen on %u\n", port);
					return 3;
				}
				if ((rv = nng_dialer_create(&d, sut, url)) != 0 ||
				    (rv = nng_dialer_set_size(d, NNG_OPT_RECVMAXSZ, (size_t) atol(a[1]) * scale)) != 0 ||
				    (rv = nng_dialer_set_size(d, NNG_OPT_WS_RECVMAXFRAME, (size_t) atol(a[2]) * scale)) != 0 ||
				    (rv = nng_dialer_set_size(d, NNG_OPT_WS_SENDMAXFRAME, fragsize)) != 0 ||
				    (rv = nng_dialer_set_ms(d, NNG_OPT_RECONNMINT, 50)) != 0 || (rv = nng_dialer_set_ms(d, NNG_OPT_RECONNMAXT, 50)) != 0 ||
				    (rv = nng_dialer_start(d, NNG_FLAG_NONBLOCK)) != 0) {
					if (lenient) {
						skip_walk = 1;
						continue;
					}
					fprintf(stderr, "driver: ws dial %s: %s\n", url, nng_strerror(rv));
					return 3;
				}
				the_dialer       = d;
				nni_verif_io_max = atol(a[5]) > 0 ? (size_t) atol(a[5]) : (size_t) INT32_MAX;
				continue;
			}
			if ((rv = nng_listener_create(&l, sut, url)) != 0 ||
			    (rv = nng_listener_set_size(l, NNG_OPT_RECVMAXSZ, (size_t) atol(a[1]) * scale)) != 0 ||
			    (rv = nng_listener_set_size(l, NNG_OPT_WS_RECVMAXFRAME, (size_t) atol(a[2]) * scale)) != 0 ||
			    (rv = nng_listener_set_size(l, NNG_OPT_WS_SENDMAXFRAME, fragsize)) != 0 || (rv = nng_listener_start(l, 0)) != 0) {
				if (lenient) {
					skip_walk = 1;
					continue;
				}
				fprintf(stderr, "driver: ws listen %s: %s\n", url, nng_strerror(rv));
				return 3;
			}
			the_listener = l;
			base_req_len = 0;
			pad_cls[0]   = 0;
			nni_verif_io_max = atol(a[5]) > 0 ? (size_t) atol(a[5]) : (size_t) INT32_MAX;
			continue;
		}
		o("{");
		if (!strcmp(cmd, "conn")) {
			int                c = atoi(a[0]), fd, rv, one = 1;
			struct sockaddr_in si;
			memset(&si, 0, sizeof(si));
			si.sin_family      = AF_INET;
			si.sin_port        = htons(port);
			si.sin_addr.s_addr = htonl(INADDR_LOOPBACK);
			fd                 = socket(AF_INET, SOCK_STREAM, 0);
			rv                 = connect(fd, (struct sockaddr *) &si, sizeof(si));
			setsockopt(fd, IPPROTO_TCP, TCP_NODELAY, &one, sizeof(one));
			cn[c].fd = rv == 0 ? fd : -1;
			o("\"out\":{\"rv\":\"%s\"}", rv == 0 ? "ok" : strerror(errno));
		} else if (!strcmp(cmd, "accept")) {
			// client role: wait for the dialer's connection, read its upgrade request and check that it is well-formed
			int           c = atoi(a[0]), wf = 1, one = 1;
			struct pollfd pf = { lfd, POLLIN, 0 };
			uint64_t      end = now_ms() + (lenient ? 500 : 8000);
			char         *eoh = NULL;
			const char   *blk = "base";
			cn[c].fd = -1;
			for (;;) {
				eoh = NULL;
				if (poll(&pf, 1, lenient ? 500 : 8000) > 0) {
					cn[c].fd = accept(lfd, NULL, NULL);
				}
				if (cn[c].fd >= 0) {
					setsockopt(cn[c].fd, IPPROTO_TCP, TCP_NODELAY, &one, sizeof(one));
					while (now_ms() < end && !cn[c].closed_seen) {
						cn[c].rx[cn[c].nrx] = 0;
						if ((eoh = strstr((char *) cn[c].rx, "\r\n\r\n")) != NULL) {
							break;
						}
						pump(c, 100);
					}
				}
				// a request composed before the padding header was set (the dialer redials on its own): not the one we wait for
				if (eoh != NULL && pad_cls[0] != 0 && now_ms() < end) {
					char *xp = strstr((char *) cn[c].rx, "\r\nX-Pad: ");
					if (xp != NULL && strcspn(xp + 9, "\r") == pad_n) {
						break; // padded as currently configured
					}
					close(cn[c].fd);
					cn[c].fd          = -1;
					cn[c].nrx         = 0;
					cn[c].closed_seen = 0;
					continue;
				}
				break;
			}
			if (eoh != NULL) {
				size_t hl0 = (size_t) (eoh - (char *) cn[c].rx) + 4;
				if (pad_cls[0] == 0) {
					base_req_len = hl0;
				} else {
					blk = hl0 == EMIT_BUFSIZE - 1 ? "m1" : hl0 == EMIT_BUFSIZE ? "eq" : hl0 == EMIT_BUFSIZE + 1 ? "p1" : "other";
				}
				// no NUL may be on the wire inside the block
				if (memchr(cn[c].rx, 0, hl0) != NULL) {
					wf = 0;
				}
			}
			if (eoh != NULL) {
				char  *r = (char *) cn[c].rx, *k;
				char   want[96];
				size_t hl = (size_t) (eoh - r) + 4;
				*eoh = 0;
				snprintf(want, sizeof(want), "\r\nSec-WebSocket-Protocol: %s.sp.nanomsg.org", is_push ? "pull" : "push");
				if (strncmp(r, "GET /sp HTTP/1.1\r\n", 18) != 0 || strcasestr(r, "\r\nHost: ") == NULL ||
				    strcasestr(r, "\r\nUpgrade: websocket") == NULL || strcasestr(r, "\r\nConnection: Upgrade") == NULL ||
				    strstr(r, "\r\nSec-WebSocket-Version: 13") == NULL || strstr(r, want) == NULL) {
					wf = 0;
				}
				for (char *q = r; q < eoh; q++) {
					if (*q == '\n' && (q == r || q[-1] != '\r')) {
						wf = 0;
					}
				}
				reqkey[0] = 0;
				if ((k = strcasestr(r, "\r\nSec-WebSocket-Key: ")) != NULL) {
					sscanf(k + 21, "%63[^\r\n]", reqkey);
				}
				if (strlen(reqkey) != 24) {
					wf = 0;
				}
				consume(c, hl);
			}
			o("\"out\":{\"rv\":\"%s\",\"wf\":%s,\"blk\":\"%s\"}", eoh != NULL ? "ok" : (cn[c].fd < 0 ? "noconn" : "norequest"), (eoh != NULL && wf) ? "true" : "false", blk);
		} else if (!strcmp(cmd, "pad")) {
			// pad m1|eq|p1: a request header of the dialer makes the next upgrade request exactly HTTP_BUFSIZE - 1 / + 0 / + 1 bytes long
			size_t target = EMIT_BUFSIZE + (!strcmp(a[0], "m1") ? -1 : !strcmp(a[0], "p1") ? 1 : 0);
			int    rv     = NNG_EINVAL;
			if (base_req_len > 0 && target > base_req_len + 9) {
				size_t n = target - base_req_len - 9; // "X-Pad: " + value + CR LF
				char  *v = malloc(n + 1);
				memset(v, 'p', n);
				v[n] = 0;
				rv    = is_client ? nng_dialer_set_string(the_dialer, NNG_OPT_WS_HEADER "X-Pad", v)
				                  : nng_listener_set_string(the_listener, NNG_OPT_WS_HEADER "X-Pad", v);
				pad_n = n;
				free(v);
				snprintf(pad_cls, sizeof(pad_cls), "%s", a[0]);
			}
			o("\"out\":{\"rv\":\"%s\"}", rv == 0 ? "ok" : nng_strerror(rv));
		} else if (!strcmp(cmd, "resp")) {
			// client role: the driver's answer to the upgrade request
			int         c = atoi(a[0]), expclosed = lenient ? 0 : atoi(a[2]), then_close = 0;
			const char *k = a[1];
			char        res[1024], accept[40] = "", own[96];
			const char *st = "HTTP/1.1 101 Switching Protocols\r\n", *upg = "Upgrade: websocket\r\n", *conh = "Connection: Upgrade\r\n";
			char        acch[96];
			{
				// Sec-WebSocket-Accept = base64(sha1(key + GUID))
				uint8_t      dig[20];
				nni_sha1_ctx ctx;
				nni_sha1_init(&ctx);
				nni_sha1_update(&ctx, reqkey, strlen(reqkey));
				nni_sha1_update(&ctx, "258EAFA5-E914-47DA-95CA-C5AB0DC85B11", 36);
				nni_sha1_final(&ctx, dig);
				nni_base64_encode(dig, 20, accept, 28);
				accept[28] = 0;
			}
			snprintf(acch, sizeof(acch), "Sec-WebSocket-Accept: %s\r\n", accept);
			snprintf(own, sizeof(own), "Sec-WebSocket-Protocol: %s.sp.nanomsg.org\r\n", is_push ? "pull" : "push");
			if (!strcmp(k, "bad_accept")) {
				snprintf(acch, sizeof(acch), "Sec-WebSocket-Accept: AAAAAAAAAAAAAAAAAAAAAAAAAAA=\r\n");
			} else if (!strcmp(k, "no_accept")) {
				acch[0] = 0;
			} else if (!strcmp(k, "no_upgrade")) {
				upg = "";
			} else if (!strcmp(k, "no_connection")) {
				conh = "";
			} else if (!strcmp(k, "upgrade_case")) {
				upg = "Upgrade: WebSocket\r\n";
			} else if (!strcmp(k, "wrong_proto")) {
				snprintf(own, sizeof(own), "Sec-WebSocket-Protocol: pair.sp.nanomsg.org\r\n");
			} else if (!strcmp(k, "no_proto")) {
				own[0] = 0;
			} else if (!strcmp(k, "status200")) {
				st = "HTTP/1.1 200 OK\r\nContent-Length: 0\r\n";
			} else if (!strcmp(k, "status400")) {
				st = "HTTP/1.1 400 Bad Request\r\nContent-Length: 0\r\n";
			} else if (!strcmp(k, "status404")) {
				st = "HTTP/1.1 404 Not Found\r\nContent-Length: 0\r\n";
			} else if (!strcmp(k, "garbage")) {
				st = "\x01\x02 garbage\r\n";
			} else if (!strcmp(k, "short_close")) {
				then_close = 1;
			} else if (strcmp(k, "ok") != 0) {
				fprintf(stderr, "driver: bad resp item %s\n", k);
				return 3;
			}
			snprintf(res, sizeof(res), "%s%s%s%s%s\r\n", st, upg, conh, acch, own);
			write_all(cn[c].fd, (uint8_t *) res, then_close ? 12 : strlen(res));
			if (then_close) {
				close(cn[c].fd);
				cn[c].closed_seen = 1;
			}
			{
				uint64_t e2 = now_ms() + (expclosed ? 8000 : 40);
				while (!cn[c].closed_seen && now_ms() < e2) {
					pump(c, 10);
				}
				// a client that gives up after a 101 may say so with a close frame first: not an error, drop it
				if (cn[c].closed_seen) {
					cn[c].nrx = 0;
				}
			}
			o("\"out\":{\"closed\":%s}", cn[c].closed_seen ? "true" : "false");
		} else if (!strcmp(cmd, "http")) {
			int         c = atoi(a[0]), expclosed = lenient ? 0 : atoi(a[2]), status = 0, wf = 1, then_close = 0;
			const char *hblk = "na";
			const char *k = a[1];
			static char req[40000], pad[30000];
			const char *own   = is_push ? "push" : "pull";
			uint64_t    end   = now_ms() + (lenient ? 300 : 8000);
			char       *eoh   = NULL;
			const char *line1 = "GET /sp HTTP/1.1\r\n", *host = "Host: 127.0.0.1\r\n", *upg = "Upgrade: websocket\r\n",
			           *conh = "Connection: Upgrade\r\n", *key = "Sec-WebSocket-Key: dGhlIHNhbXBsZSBub25jZQ==\r\n",
			           *ver = "Sec-WebSocket-Version: 13\r\n", *extra = "";
			char        proto[96];
			snprintf(proto, sizeof(proto), "Sec-WebSocket-Protocol: %s.sp.nanomsg.org\r\n", own);
			if (!strcmp(k, "no_host")) {
				host = "";
			} else if (!strcmp(k, "no_upgrade")) {
				upg = "";
			} else if (!strcmp(k, "bad_version")) {
				line1 = "GET /sp HTTP/2.0\r\n";
			} else if (!strcmp(k, "http10")) {
				line1 = "GET /sp HTTP/1.0\r\n";
			} else if (!strcmp(k, "wrong_proto")) {
				snprintf(proto, sizeof(proto), "Sec-WebSocket-Protocol: pair.sp.nanomsg.org\r\n");
			} else if (!strcmp(k, "no_proto")) {
				proto[0] = 0;
			} else if (!strcmp(k, "wrong_path")) {
				line1 = "GET /nope HTTP/1.1\r\n";
			} else if (!strcmp(k, "post")) {
				line1 = "POST /sp HTTP/1.1\r\n";
			} else if (!strcmp(k, "bad_key")) {
				key = "Sec-WebSocket-Key: short\r\n";
			} else if (!strcmp(k, "bad_wsver")) {
				ver = "Sec-WebSocket-Version: 8\r\n";
			} else if (!strcmp(k, "chunked")) {
				extra = "Transfer-Encoding: chunked\r\n";
			} else if (!strcmp(k, "many_headers")) {
				// more header bytes than the server's read buffer (8160) holds, in short lines: still a good request
				size_t n = 0;
				for (int i = 0; i < 110; i++) {
					n += (size_t) snprintf(pad + n, sizeof(pad) - n, "X-Pad-%03d: %.80s\r\n", i,
					    "abcdefghijklmnopqrstuvwxyzabcdefghijklmnopqrstuvwxyzabcdefghijklmnopqrstuvwxyzabcdefgh");
				}
				extra = pad;
			} else if (!strcmp(k, "long_header") || !strcmp(k, "long_uri")) {
				// a single line that can never fit the server's read buffer
				size_t n = (size_t) snprintf(pad, sizeof(pad), k[5] == 'h' ? "X-Long: " : "GET /sp?");
				memset(pad + n, 'a', 9000);
				n += 9000;
				snprintf(pad + n, sizeof(pad) - n, k[5] == 'h' ? "\r\n" : " HTTP/1.1\r\n");
				if (k[5] == 'h') {
					extra = pad;
				} else {
					line1 = pad;
				}
			} else if (!strcmp(k, "garbage")) {
				line1 = "\x01\x02 garbage\r\n";
			} else if (!strcmp(k, "short_close")) {
				then_close = 1;
			} else if (strcmp(k, "ok") != 0) {
				fprintf(stderr, "driver: bad http item %s\n", k);
				return 3;
			}
			snprintf(req, sizeof(req), "%s%s%s%s%s%s%s%s\r\n", line1, host, upg, conh, key, ver, proto, extra);
			if (then_close) {
				write_all(cn[c].fd, (uint8_t *) req, 20);
				close(cn[c].fd);
				cn[c].closed_seen = 1;
			} else {
				write_all(cn[c].fd, (uint8_t *) req, strlen(req));
				// the response: status line, headers, blank line (error responses carry a body: Content-Length)
				while (now_ms() < end && !cn[c].closed_seen) {
					cn[c].rx[cn[c].nrx] = 0;
					if ((eoh = strstr((char *) cn[c].rx, "\r\n\r\n")) != NULL) {
						break;
					}
					pump(c, 100);
				}
				if (eoh != NULL) {
					char  *r = (char *) cn[c].rx, *cl;
					size_t hl = (size_t) (eoh - r) + 4, body = 0;
					int    maj, min;
					if (sscanf(r, "HTTP/%d.%d %d", &maj, &min, &status) != 3 || maj != 1 || r[8] != ' ' || r[12] != ' ') {
						wf = 0;
					}
					for (char *q = r; q < eoh; q++) {
						if (*q == '\n' && (q == r || q[-1] != '\r')) {
							wf = 0; // bare LF in the header block
						}
					}
					*eoh = 0;
					if ((cl = strcasestr(r, "\r\nContent-Length:")) != NULL) {
						body = (size_t) atol(cl + 17);
					}
					if (status == 101 && !strcmp(k, "ok")) {
						// the size class of the emitted header block (server role: padded through the listener's response headers)
						if (pad_cls[0] == 0) {
							base_req_len = hl;
							hblk         = "base";
						} else {
							hblk = hl == EMIT_BUFSIZE - 1 ? "m1" : hl == EMIT_BUFSIZE ? "eq" : hl == EMIT_BUFSIZE + 1 ? "p1" : "other";
						}
						if (memchr(r, 0, hl - 4) != NULL) {
							wf = 0;
						}
					}
					if (status == 101) {
						if (strcasestr(r, "\r\nUpgrade: websocket") == NULL || strcasestr(r, "\r\nConnection: Upgrade") == NULL ||
						    strstr(r, "\r\nSec-WebSocket-Accept: s3pPLMBiTxaQ9kYGzzhZRbK+xOo=") == NULL) {
							wf = 0;
						}
						body = 0;
					}
					*eoh = '\r';
					while (now_ms() < end && cn[c].nrx < hl + body && !cn[c].closed_seen) {
						pump(c, 100);
					}
					if (cn[c].nrx >= hl + body) {
						consume(c, hl + body);
					} else {
						wf = 0;
					}
				}
			}
			{
				uint64_t e2 = now_ms() + (expclosed ? 8000 : 30);
				while (!cn[c].closed_seen && now_ms() < e2) {
					pump(c, 10);
					if (status == 101 || !expclosed) {
						break;
					}
				}
			}
			o("\"out\":{\"status\":%d,\"wf\":%s,\"closed\":%s,\"blk\":\"%s\"}", status, wf ? "true" : "false", cn[c].closed_seen ? "true" : "false", hblk);
		} else if (!strcmp(cmd, "ws")) {
			int      c = atoi(a[0]), fin = atoi(a[1]), op = atoi(a[2]), masked = atoi(a[3]), rsv = atoi(a[4]), lenenc = atoi(a[5]);
			size_t   len  = (size_t) atol(a[6]) * scale;
			uint8_t  seed = (uint8_t) atoi(a[7]);
			int      newmsg = atoi(a[8]), expn = lenient ? 0 : atoi(a[9]), exprep = lenient ? 0 : atoi(a[10]), expclosed = lenient ? 0 : atoi(a[11]);
			uint8_t *buf = malloc(len + 32), mask[4] = { 0x37, 0xfa, 0x21, 0x3d };
			size_t   h = 0;
			int      got = 0, first = 1, nrep = 0, wfall = 1;
			uint64_t end;
			if (op >= 8 && len > 125 && atol(a[6]) <= 1) {
				len = op == 8 ? 2 : len; // (control frames use the unit as bytes when it would not fit otherwise)
			}
			if (op >= 8) {
				len = (size_t) atol(a[6]); // control frames: the size is in bytes (0, 2, 125, 126)
			}
			buf[h++] = (uint8_t) ((fin ? 0x80 : 0) | ((rsv & 7) << 4) | (op & 0x0f));
			if (lenenc == 0 && len < 126) {
				buf[h++] = (uint8_t) ((masked ? 0x80 : 0) | len);
			} else if ((lenenc == 0 && len < 65536) || lenenc == 1) {
				buf[h++] = (uint8_t) ((masked ? 0x80 : 0) | 126);
				buf[h++] = (uint8_t) (len >> 8);
				buf[h++] = (uint8_t) len;
			} else {
				buf[h++] = (uint8_t) ((masked ? 0x80 : 0) | 127);
				for (int i = 7; i >= 0; i--) {
					buf[h++] = (uint8_t) ((uint64_t) len >> (8 * i));
				}
			}
			if (masked) {
				memcpy(buf + h, mask, 4);
				h += 4;
			}
			if (op < 8) {
				if (newmsg) {
					cn[c].mseed = seed;
					cn[c].mpos  = 0;
				}
				for (size_t i = 0; i < len; i++) {
					buf[h + i] = (uint8_t) (cn[c].mseed + 7 * (cn[c].mpos + i));
				}
				cn[c].mpos += len;
			} else {
				for (size_t i = 0; i < len; i++) {
					buf[h + i] = op == 8 && i < 2 ? (i == 0 ? 0x03 : 0xe8) : (uint8_t) (seed + i); // close code 1000
				}
				if (op == 9) {
					memcpy(cn[c].ping, buf + h, len < 128 ? len : 128);
					cn[c].nping = len;
				}
			}
			if (masked) {
				for (size_t i = 0; i < len; i++) {
					buf[h + i] ^= mask[i & 3];
				}
			}
			write_all(cn[c].fd, buf, h + len);
			free(buf);
			// deliveries
			o("\"out\":{\"got\":[");
			end = now_ms() + 8000;
			while (!is_push) {
				nng_msg *m = NULL;
				int      rv;
				nng_socket_set_ms(sut, NNG_OPT_RECVTIMEO, got < expn ? (nng_duration) (end > now_ms() ? end - now_ms() : 1) : 25);
				rv = nng_recvmsg(sut, &m, 0);
				if (rv != 0) {
					break;
				}
				{
					size_t   l  = nng_msg_len(m);
					uint8_t *b  = nng_msg_body(m);
					int      ok = scale > 0 && l % scale == 0 && nng_msg_header_len(m) == 0;
					for (size_t i = 1; ok && i < l; i++) {
						ok = b[i] == (uint8_t) (b[0] + 7 * i);
					}
					o("%s%ld", first ? "" : ",", ok ? (long) (l / scale) : -1L);
					first = 0;
					got++;
				}
				nng_msg_free(m);
			}
			// what the server wrote: pongs, a close frame, then possibly the end of the connection
			o("],\"replies\":[");
			end   = now_ms() + 8000;
			first = 1;
			for (;;) {
				int    sop, sfin, wf;
				size_t pl = 0, hl = 0, fl;
				while ((fl = server_frame(c, &sop, &sfin, &pl, &hl, &wf)) != 0 && fl != (size_t) -1) {
					o("%s[%d", first ? "" : ",", sop);
					first = 0;
					if (sop == 8) {
						o(",%d", pl >= 2 ? (cn[c].rx[hl] << 8) | cn[c].rx[hl + 1] : 0);
					} else if (sop == 10) {
						o(",%s", (pl == cn[c].nping && memcmp(cn[c].rx + hl, cn[c].ping, pl) == 0) ? "true" : "false");
					} else {
						o(",%zu", pl);
					}
					o("]");
					wfall &= wf;
					nrep++;
					consume(c, fl);
				}
				if (fl == (size_t) -1) {
					wfall = 0;
					break;
				}
				if (cn[c].closed_seen || now_ms() >= end) {
					break;
				}
				if (nrep >= exprep && !(expclosed && !cn[c].closed_seen)) {
					// everything expected is here: one short look for more
					if (pump(c, 25) == 0 && cn[c].nrx == 0) {
						break;
					}
					continue;
				}
				pump(c, 50);
			}
			o("],\"wf\":%s,\"closed\":%s}", wfall ? "true" : "false", cn[c].closed_seen ? "true" : "false");
		} else if (!strcmp(cmd, "send")) {
			int      c    = atoi(a[0]);
			size_t   len  = (size_t) atol(a[1]) * scale, have = 0;
			uint8_t  seed = (uint8_t) atoi(a[2]);
			nng_msg *m;
			uint64_t end = now_ms() + (lenient ? 300 : 8000);
			int      rv, ok = 1, nfrag = 0, done = 0, expect_op = 2;
			if (nng_msg_alloc(&m, len) != 0) {
				o("\"out\":{\"rv\":\"enomem\"}");
				obs_emit();
				continue;
			}
			for (size_t i = 0; i < len; i++) {
				((uint8_t *) nng_msg_body(m))[i] = (uint8_t) (seed + 7 * i);
			}
			if ((rv = nng_sendmsg(sut, m, 0)) != 0) {
				nng_msg_free(m);
			}
			while (rv == 0 && !done && now_ms() < end) {
				int    sop, sfin, wf;
				size_t pl = 0, hl = 0, fl;
				fl = server_frame(c, &sop, &sfin, &pl, &hl, &wf);
				if (fl == 0) {
					if (pump(c, 100)) {
						break;
					}
					continue;
				}
				if (fl == (size_t) -1) {
					ok = 0;
					break;
				}
				ok &= wf && sop == expect_op && (fragsize == 0 || pl <= fragsize) && have + pl <= len;
				for (size_t i = 0; ok && i < pl; i++) {
					ok = cn[c].rx[hl + i] == (uint8_t) (seed + 7 * (have + i));
				}
				have += pl;
				nfrag++;
				expect_op = 0;
				done      = sfin;
				consume(c, fl);
			}
			ok &= done && have == len;
			o("\"out\":{\"rv\":\"%s\",\"units\":%ld,\"ok\":%s,\"nfrag\":%d}", rv == 0 ? "ok" : nng_strerror(rv),
			    (done && have == len) ? atol(a[1]) : -1L, ok ? "true" : "false", nfrag);
		} else {
			fprintf(stderr, "driver: bad command %s\n", cmd);
			return 3;
		}
		obs_emit();
	}
	nng_fini();
	if (acct_live_blocks() != 0) {
		printf("L %llu\n", (unsigned long long) acct_live_blocks());
	}
	printf("Z\n");
	return 0;
}
