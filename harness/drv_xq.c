// drv_xq: replays behaviours of spec/core/ExpireQ.tla: blocks of 50 nng_sleep_aio operations on one
// expire queue (NNI_EXPIRE_BATCH = 100 = two blocks), virtual clock.
#include "acct.h"
#include "dee.h"
#include <stdio.h>
#include <stdlib.h>
#include <string.h>
#include <time.h>

#define BLOCK 50
#define MAXB 8
static struct {
	nng_aio *aio[BLOCK];
	int      used;
	int      ok, canceled, other; // completions by result
} blk[MAXB + 1];
static pthread_mutex_t m = PTHREAD_MUTEX_INITIALIZER;

static void
cb(void *arg)
{
	long k = (long) arg / 1000, i = (long) arg % 1000;
	int  rv = nng_aio_result(blk[k].aio[i]);
	pthread_mutex_lock(&m);
	if (rv == 0) {
		blk[k].ok++;
	} else if (rv == NNG_ECANCELED) {
		blk[k].canceled++;
	} else {
		blk[k].other++;
	}
	pthread_mutex_unlock(&m);
}

static void
settle(void)
{
	// enough complete scans for every batch of the largest scenario, then let the task threads drain
	for (int r = 0; r < 100; r++) {
		for (int i = 0; i < 5; i++) {
			dee_expire_settle();
		}
		// run every completion the expire thread (or a cancel) has produced; nothing else runs callbacks
		if (dee_run_all(100000) == 0 && dee_npending() == 0) {
			break;
		}
	}
	struct timespec ts = { 0, 300000 };
	for (int i = 0; i < 20000; i++) {
		int busy = 0;
		for (int k = 1; k <= MAXB && !busy; k++) {
			for (int j = 0; j < BLOCK && blk[k].used && !busy; j++) {
				// an operation is either still sleeping (busy, on the queue) or completed and its callback done
				(void) j;
			}
		}
		int total = 0, done = 0;
		for (int k = 1; k <= MAXB; k++) {
			if (blk[k].used) {
				total += BLOCK;
				done += blk[k].ok + blk[k].canceled + blk[k].other;
				for (int j = 0; j < BLOCK; j++) {
					if (nng_aio_busy(blk[k].aio[j])) {
						busy++;
					}
				}
			}
		}
		if (done + busy == total) {
			return; // every operation is either still pending or fully completed
		}
		nanosleep(&ts, NULL);
	}
}

int
main(int argc, char **argv)
{
	nng_init_params p;
	char            line[256];
	FILE           *in = stdin;
	long            walk = -1;
	int             step = 0;
	uint64_t        live0 = 0;
	setvbuf(stdout, NULL, _IOLBF, 0);
	memset(&p, 0, sizeof(p));
	acct_fill_params(&p);
	p.num_task_threads   = 2;
	p.max_task_threads   = 2;
	p.num_expire_threads = 1;
	p.max_expire_threads = 1;
	dee_init(1, 1, NULL); // task gate: completions run when this thread releases them, so "busy" means "still sleeping"
	if (nng_init(&p) != 0) {
		return 3;
	}
	if (argc > 1 && (in = fopen(argv[1], "r")) == NULL) {
		return 3;
	}
	while (fgets(line, sizeof(line), in) != NULL) {
		char obj[16] = "", act[32] = "";
		long a1 = 0, a2 = 0;
		if (sscanf(line, "%15s %31s %ld %ld", obj, act, &a1, &a2) < 1) {
			continue;
		}
		if (!strcmp(obj, "W")) {
			walk = atol(act);
			step = 0;
			printf("B %ld\n", walk);
			live0 = acct_live_blocks();
			memset(blk, 0, sizeof(blk));
			dee_gate(1);
			continue;
		}
		if (!strcmp(obj, "E")) {
			dee_gate(0); // stopping an operation waits for its callback
			dee_run_all(100000);
			for (int k = 1; k <= MAXB; k++) {
				for (int j = 0; j < BLOCK && blk[k].used; j++) {
					nng_aio_stop(blk[k].aio[j]);
					nng_aio_free(blk[k].aio[j]);
				}
			}
			printf("X %ld {\"fin\":0,\"leak\":%lld,\"mism\":%llu,\"badfree\":%llu}\n", walk,
			    (long long) acct_live_blocks() - (long long) live0, (unsigned long long) acct_size_mismatches(),
			    (unsigned long long) acct_bad_frees());
			continue;
		}
		if (!strcmp(act, "init")) {
			continue;
		}
		if (!strcmp(act, "xq_add")) {
			blk[a1].used = 1;
			for (long j = 0; j < BLOCK; j++) {
				nng_aio_alloc(&blk[a1].aio[j], cb, (void *) (a1 * 1000 + j));
				nng_sleep_aio((nng_duration) a2, blk[a1].aio[j]);
			}
		} else if (!strcmp(act, "xq_cancel")) {
			for (int j = 0; j < BLOCK; j++) {
				nng_aio_cancel(blk[a1].aio[j]);
			}
		} else if (!strcmp(act, "xq_tick")) {
			dee_advance((uint64_t) a1);
		} else {
			fprintf(stderr, "bad action %s\n", act);
			return 3;
		}
		settle();
		{
			int q = 0, first;
			printf("R %ld %d {\"out\":null,\"obs\":{\"S_fired\":[", walk, step);
			first = 1;
			for (int k = 1; k <= MAXB; k++) {
				if (blk[k].used && blk[k].ok == BLOCK) {
					printf("%s%d", first ? "" : ",", k);
					first = 0;
				}
			}
			printf("],\"S_gone\":[");
			first = 1;
			for (int k = 1; k <= MAXB; k++) {
				if (blk[k].used && blk[k].canceled == BLOCK) {
					printf("%s%d", first ? "" : ",", k);
					first = 0;
				}
			}
			printf("],\"queued\":");
			for (int k = 1; k <= MAXB; k++) {
				if (blk[k].used && blk[k].ok + blk[k].canceled + blk[k].other == 0) {
					q++;
				} else if (blk[k].used && blk[k].ok != BLOCK && blk[k].canceled != BLOCK) {
					q = -100; // a block only partly completed / unexpected results
				}
			}
			printf("%d}}\n", q);
		}
		step++;
	}
	nng_fini();
	printf("Z\n");
	return 0;
}
