// vtran: harness-controlled SP transport (see vtran.h).
#include "vtran.h"
#include "core/sockimpl.h"
#include <stdio.h>
#include <stdlib.h>
#include <string.h>

typedef struct vt_ep   vt_ep;
typedef struct vt_pipe vt_pipe;

struct vt_pipe {
	nni_pipe *npipe;
	int       slot;
	uint16_t  peer;
	bool      closed;
	bool      peer_closed;
	nni_list  sendq; // parked send aios
	nni_list  recvq; // parked recv aios
	nng_msg  *inbox[16];
	int       ninbox;
	nng_sockaddr sa;
};

struct vt_ep {
	char          addr[64];
	nni_listener *listener;
	nni_dialer   *dialer;
	nni_list      aios; // parked accept / connect
	bool          closed;
	nni_list_node node;
};

static nni_mtx  vt_mtx = NNI_MTX_INITIALIZER; // one lock for everything: the harness is not performance critical
static nni_list vt_eps = NNI_LIST_INITIALIZER(vt_eps, vt_ep, node);
static vt_pipe *slots[VT_MAXSLOTS];
static uint32_t slot_ids[VT_MAXSLOTS];
static void    *slot_pd[VT_MAXSLOTS];

static void vt_init(void) {}
static void vt_fini(void) {}

// ------------------------------------------------------------------ pipe ops
static size_t
vt_pipe_size(void)
{
	return (sizeof(vt_pipe));
}
static int
vt_pipe_init(void *arg, nni_pipe *np)
{
	vt_pipe *p = arg;
	p->npipe   = np;
	p->slot    = -1;
	nni_aio_list_init(&p->sendq);
	nni_aio_list_init(&p->recvq);
	return (0);
}
static void
vt_pipe_fini(void *arg)
{
	vt_pipe *p = arg;
	nni_mtx_lock(&vt_mtx);
	for (int i = 0; i < p->ninbox; i++) {
		nng_msg_free(p->inbox[i]);
	}
	p->ninbox = 0;
	if (p->slot >= 0 && slots[p->slot] == p) {
		slots[p->slot] = NULL;
	}
	nni_mtx_unlock(&vt_mtx);
}
static void
vt_pipe_stop(void *arg)
{
	NNI_ARG_UNUSED(arg);
}
static void
vt_cancel(nni_aio *aio, void *arg, nng_err rv)
{
	NNI_ARG_UNUSED(arg);
	nni_mtx_lock(&vt_mtx);
	if (nni_aio_list_active(aio)) {
		nni_aio_list_remove(aio);
		nni_aio_finish_error(aio, rv);
	}
	nni_mtx_unlock(&vt_mtx);
}
static void
vt_pipe_send(void *arg, nni_aio *aio)
{
	vt_pipe *p = arg;
	nni_aio_reset(aio);
	nni_mtx_lock(&vt_mtx);
	if (!nni_aio_start(aio, vt_cancel, p)) {
		nni_mtx_unlock(&vt_mtx);
		return;
	}
	if (p->closed) {
		nni_aio_finish_error(aio, NNG_ECLOSED);
	} else {
		nni_aio_list_append(&p->sendq, aio);
	}
	nni_mtx_unlock(&vt_mtx);
}
static void
vt_pipe_recv(void *arg, nni_aio *aio)
{
	vt_pipe *p = arg;
	nni_aio_reset(aio);
	nni_mtx_lock(&vt_mtx);
	if (!nni_aio_start(aio, vt_cancel, p)) {
		nni_mtx_unlock(&vt_mtx);
		return;
	}
	if (p->closed) {
		nni_aio_finish_error(aio, NNG_ECLOSED);
	} else if (p->ninbox > 0) {
		nng_msg *m = p->inbox[0];
		memmove(&p->inbox[0], &p->inbox[1], sizeof(nng_msg *) * (size_t) (p->ninbox - 1));
		p->ninbox--;
		nni_aio_finish_msg(aio, m);
	} else if (p->peer_closed) {
		nni_aio_finish_error(aio, NNG_ECONNSHUT);
	} else {
		nni_aio_list_append(&p->recvq, aio);
	}
	nni_mtx_unlock(&vt_mtx);
}
static void
vt_pipe_close(void *arg)
{
	vt_pipe *p = arg;
	nni_aio *aio;
	nni_mtx_lock(&vt_mtx);
	p->closed = true;
	while (((aio = nni_list_first(&p->sendq)) != NULL) || ((aio = nni_list_first(&p->recvq)) != NULL)) {
		nni_aio_list_remove(aio);
		nni_aio_finish_error(aio, NNG_ECLOSED);
	}
	nni_mtx_unlock(&vt_mtx);
}
static uint16_t
vt_pipe_peer(void *arg)
{
	return (((vt_pipe *) arg)->peer);
}
static nng_err
vt_pipe_getopt(void *arg, const char *name, void *v, size_t *szp, nni_type t)
{
	NNI_ARG_UNUSED(arg);
	NNI_ARG_UNUSED(name);
	NNI_ARG_UNUSED(v);
	NNI_ARG_UNUSED(szp);
	NNI_ARG_UNUSED(t);
	return (NNG_ENOTSUP);
}
static const nng_sockaddr *
vt_pipe_addr(void *arg)
{
	return (&((vt_pipe *) arg)->sa);
}
static nni_sp_pipe_ops vt_pipe_ops = {
	.p_size      = vt_pipe_size,
	.p_init      = vt_pipe_init,
	.p_fini      = vt_pipe_fini,
	.p_stop      = vt_pipe_stop,
	.p_send      = vt_pipe_send,
	.p_recv      = vt_pipe_recv,
	.p_close     = vt_pipe_close,
	.p_peer      = vt_pipe_peer,
	.p_getopt    = vt_pipe_getopt,
	.p_peer_addr = vt_pipe_addr,
	.p_self_addr = vt_pipe_addr,
};

// ------------------------------------------------------------------ endpoint ops
static void
vt_ep_common(vt_ep *ep, const nng_url *url)
{
	snprintf(ep->addr, sizeof(ep->addr), "%s%s", nng_url_hostname(url) ? nng_url_hostname(url) : "",
	    nng_url_path(url) ? nng_url_path(url) : "");
	nni_aio_list_init(&ep->aios);
	NNI_LIST_NODE_INIT(&ep->node);
	nni_mtx_lock(&vt_mtx);
	nni_list_append(&vt_eps, ep);
	nni_mtx_unlock(&vt_mtx);
}
static nng_err
vt_dialer_init(void *arg, nng_url *url, nni_dialer *d)
{
	vt_ep *ep  = arg;
	ep->dialer = d;
	vt_ep_common(ep, url);
	return (NNG_OK);
}
static nng_err
vt_listener_init(void *arg, nng_url *url, nni_listener *l)
{
	vt_ep *ep    = arg;
	ep->listener = l;
	vt_ep_common(ep, url);
	return (NNG_OK);
}
static void
vt_ep_fini(void *arg)
{
	vt_ep *ep = arg;
	nni_mtx_lock(&vt_mtx);
	if (nni_list_node_active(&ep->node)) {
		nni_list_remove(&vt_eps, ep);
	}
	nni_mtx_unlock(&vt_mtx);
}
static void
vt_ep_close(void *arg)
{
	vt_ep   *ep = arg;
	nni_aio *aio;
	nni_mtx_lock(&vt_mtx);
	ep->closed = true;
	while ((aio = nni_list_first(&ep->aios)) != NULL) {
		nni_aio_list_remove(aio);
		nni_aio_finish_error(aio, NNG_ECLOSED);
	}
	nni_mtx_unlock(&vt_mtx);
}
static void
vt_ep_stop(void *arg)
{
	NNI_ARG_UNUSED(arg);
}
static nng_err
vt_ep_bind(void *arg, nng_url *url)
{
	NNI_ARG_UNUSED(arg);
	NNI_ARG_UNUSED(url);
	return (NNG_OK);
}
static void
vt_ep_start(void *arg, nni_aio *aio)
{
	vt_ep *ep = arg;
	nni_aio_reset(aio);
	nni_mtx_lock(&vt_mtx);
	if (!nni_aio_start(aio, vt_cancel, ep)) {
		nni_mtx_unlock(&vt_mtx);
		return;
	}
	if (ep->closed) {
		nni_aio_finish_error(aio, NNG_ECLOSED);
	} else {
		nni_aio_list_append(&ep->aios, aio);
	}
	nni_mtx_unlock(&vt_mtx);
}
static nng_err
vt_ep_getopt(void *arg, const char *name, void *v, size_t *szp, nni_type t)
{
	NNI_ARG_UNUSED(arg);
	NNI_ARG_UNUSED(name);
	NNI_ARG_UNUSED(v);
	NNI_ARG_UNUSED(szp);
	NNI_ARG_UNUSED(t);
	return (NNG_ENOTSUP);
}
static nng_err
vt_ep_setopt(void *arg, const char *name, const void *v, size_t sz, nni_type t)
{
	NNI_ARG_UNUSED(arg);
	NNI_ARG_UNUSED(name);
	NNI_ARG_UNUSED(v);
	NNI_ARG_UNUSED(sz);
	NNI_ARG_UNUSED(t);
	return (NNG_ENOTSUP);
}
static nni_sp_dialer_ops vt_dialer_ops = {
	.d_size    = sizeof(vt_ep),
	.d_init    = vt_dialer_init,
	.d_fini    = vt_ep_fini,
	.d_connect = vt_ep_start,
	.d_close   = vt_ep_close,
	.d_stop    = vt_ep_stop,
	.d_getopt  = vt_ep_getopt,
	.d_setopt  = vt_ep_setopt,
};
static nni_sp_listener_ops vt_listener_ops = {
	.l_size   = sizeof(vt_ep),
	.l_init   = vt_listener_init,
	.l_fini   = vt_ep_fini,
	.l_bind   = vt_ep_bind,
	.l_accept = vt_ep_start,
	.l_close  = vt_ep_close,
	.l_stop   = vt_ep_stop,
	.l_getopt = vt_ep_getopt,
	.l_setopt = vt_ep_setopt,
};
static nni_sp_tran vt_tran = {
	.tran_scheme   = "irc",
	.tran_dialer   = &vt_dialer_ops,
	.tran_listener = &vt_listener_ops,
	.tran_pipe     = &vt_pipe_ops,
	.tran_init     = vt_init,
	.tran_fini     = vt_fini,
};

void
vt_register(void)
{
	nni_sp_tran_register(&vt_tran);
}

void
vt_reset(void)
{
	nni_mtx_lock(&vt_mtx);
	memset(slots, 0, sizeof(slots));
	memset(slot_ids, 0, sizeof(slot_ids));
	memset(slot_pd, 0, sizeof(slot_pd));
	nni_mtx_unlock(&vt_mtx);
}

// ------------------------------------------------------------------ driver side
static vt_ep *
find_ep(const char *addr)
{
	vt_ep *ep;
	NNI_LIST_FOREACH (&vt_eps, ep) {
		if (strcmp(ep->addr, addr) == 0 && !ep->closed) {
			return (ep);
		}
	}
	return (NULL);
}

int
vt_parked_conns(const char *addr)
{
	vt_ep   *ep;
	nni_aio *a;
	int      n = 0;
	nni_mtx_lock(&vt_mtx);
	if ((ep = find_ep(addr)) != NULL) {
		NNI_LIST_FOREACH (&ep->aios, a) {
			n++;
		}
	}
	nni_mtx_unlock(&vt_mtx);
	return (n);
}

int
vt_connect(const char *addr, uint16_t peer_proto, int slot)
{
	vt_ep   *ep;
	nni_aio *aio;
	vt_pipe *p = NULL;
	int      rv;

	nni_mtx_lock(&vt_mtx);
	if (((ep = find_ep(addr)) == NULL) || ((aio = nni_list_first(&ep->aios)) == NULL)) {
		nni_mtx_unlock(&vt_mtx);
		return (-1);
	}
	nni_aio_list_remove(aio);
	nni_mtx_unlock(&vt_mtx);
	// (allocation outside our lock: it calls back into vt_pipe_init)
	if (ep->listener != NULL) {
		rv = nni_pipe_alloc_listener((void **) &p, ep->listener);
	} else {
		rv = nni_pipe_alloc_dialer((void **) &p, ep->dialer);
	}
	if (rv != 0) {
		nni_aio_finish_error(aio, rv);
		return (-2);
	}
	nni_mtx_lock(&vt_mtx);
	p->peer        = peer_proto;
	p->slot        = slot;
	slots[slot]    = p;
	slot_ids[slot] = nni_pipe_id(p->npipe);
	slot_pd[slot]  = p->npipe->p_proto_data;
	nni_mtx_unlock(&vt_mtx);
	nni_aio_set_output(aio, 0, p->npipe);
	nni_aio_finish(aio, 0, 0);
	return (slot);
}

int
vt_connect_fail(const char *addr, int rv)
{
	vt_ep   *ep;
	nni_aio *aio;
	nni_mtx_lock(&vt_mtx);
	if (((ep = find_ep(addr)) == NULL) || ((aio = nni_list_first(&ep->aios)) == NULL)) {
		nni_mtx_unlock(&vt_mtx);
		return (-1);
	}
	nni_aio_list_remove(aio);
	nni_aio_finish_error(aio, rv);
	nni_mtx_unlock(&vt_mtx);
	return (0);
}

int vt_alive(int s) { return slots[s] != NULL; }
int vt_closed(int s) { return slots[s] == NULL || slots[s]->closed; }
uint32_t vt_pipe_id(int s) { return slot_ids[s]; }
nni_pipe *vt_npipe(int s) { return slots[s] ? slots[s]->npipe : NULL; }
void *vt_proto_data(int s) { return slot_pd[s]; }
int
vt_slot_of_proto_data(void *pd)
{
	for (int i = 0; i < VT_MAXSLOTS; i++) {
		if (slot_pd[i] == pd && pd != NULL) {
			return i;
		}
	}
	return -1;
}
static int
count(nni_list *l)
{
	int      n = 0;
	nni_aio *a;
	NNI_LIST_FOREACH (l, a) {
		n++;
	}
	return n;
}
int
vt_send_parked(int s)
{
	int n = 0;
	nni_mtx_lock(&vt_mtx);
	if (slots[s] != NULL) {
		n = count(&slots[s]->sendq);
	}
	nni_mtx_unlock(&vt_mtx);
	return n;
}
int
vt_recv_parked(int s)
{
	int n = 0;
	nni_mtx_lock(&vt_mtx);
	if (slots[s] != NULL) {
		n = count(&slots[s]->recvq);
	}
	nni_mtx_unlock(&vt_mtx);
	return n;
}
int
vt_inbox_len(int s)
{
	return slots[s] ? slots[s]->ninbox : 0;
}

nng_msg *
vt_take(int s)
{
	vt_pipe *p;
	nni_aio *aio;
	nng_msg *m = NULL;
	nni_mtx_lock(&vt_mtx);
	if (((p = slots[s]) != NULL) && ((aio = nni_list_first(&p->sendq)) != NULL)) {
		size_t len;
		nni_aio_list_remove(aio);
		m   = nni_aio_get_msg(aio);
		len = nni_msg_len(m);
		nni_aio_set_msg(aio, NULL);
		nni_aio_finish(aio, 0, len);
	}
	nni_mtx_unlock(&vt_mtx);
	return m;
}

int
vt_fail_send(int s, int rv)
{
	vt_pipe *p;
	nni_aio *aio;
	int      r = -1;
	nni_mtx_lock(&vt_mtx);
	if (((p = slots[s]) != NULL) && ((aio = nni_list_first(&p->sendq)) != NULL)) {
		nni_aio_list_remove(aio);
		nni_aio_finish_error(aio, rv);
		r = 0;
	}
	nni_mtx_unlock(&vt_mtx);
	return r;
}

int
vt_inject(int s, nng_msg *m)
{
	vt_pipe *p;
	nni_aio *aio;
	int      r = -1;
	nni_mtx_lock(&vt_mtx);
	if ((p = slots[s]) != NULL && !p->closed) {
		if ((aio = nni_list_first(&p->recvq)) != NULL) {
			nni_aio_list_remove(aio);
			nni_aio_finish_msg(aio, m);
			r = 1;
		} else if (p->ninbox < 16) {
			p->inbox[p->ninbox++] = m;
			r                     = 0;
		}
	}
	nni_mtx_unlock(&vt_mtx);
	if (r < 0) {
		nng_msg_free(m);
	}
	return r;
}

int
vt_peer_close(int s)
{
	vt_pipe *p;
	nni_aio *aio;
	int      r = -1;
	nni_mtx_lock(&vt_mtx);
	if ((p = slots[s]) != NULL) {
		p->peer_closed = true;
		if (p->ninbox == 0) {
			while ((aio = nni_list_first(&p->recvq)) != NULL) {
				nni_aio_list_remove(aio);
				nni_aio_finish_error(aio, NNG_ECONNSHUT);
			}
		}
		r = 0;
	}
	nni_mtx_unlock(&vt_mtx);
	return r;
}
