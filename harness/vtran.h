// vtran: harness-controlled SP transport for the scheme "irc" (irc://<name>).
// Its pipes are one-ended: the other end is the driver.
#ifndef VERIF_VTRAN_H
#define VERIF_VTRAN_H
#include "core/nng_impl.h"
#include <nng/nng.h>

#define VT_MAXSLOTS 32

void vt_register(void);
void vt_reset(void); // forget all slots (between walks; all endpoints must be closed)

// Complete a parked accept (listener) or connect (dialer) of the endpoint whose URL path is
// `addr` with a new pipe whose peer speaks peer_proto.  Returns the slot (>= 0), or -1 if
// nothing is parked there.
int vt_connect(const char *addr, uint16_t peer_proto, int slot);
int vt_connect_fail(const char *addr, int rv);
int vt_parked_conns(const char *addr); // parked accept/connect operations

// slot state
int       vt_alive(int slot);        // transport pipe still exists (p_fini not called)
int       vt_closed(int slot);       // p_close was called
int       vt_send_parked(int slot);  // sends waiting to be taken
int       vt_recv_parked(int slot);
uint32_t  vt_pipe_id(int slot);
nni_pipe *vt_npipe(int slot);
void     *vt_proto_data(int slot);
int       vt_slot_of_proto_data(void *pd); // -1 if unknown

nng_msg *vt_take(int slot);                 // complete the oldest parked send successfully; caller owns the message
int      vt_fail_send(int slot, int rv);    // fail the oldest parked send
int      vt_inject(int slot, nng_msg *m);   // deliver m to a parked recv (1) or queue it in the inbox (0)
int      vt_peer_close(int slot);           // the peer goes away: parked and future receives fail
int      vt_inbox_len(int slot);
#endif
