---------------------------- MODULE Aio ----------------------------
(* The life of one nng_aio (src/core/aio.c + src/core/taskq.c).      C02.

   Fields are those of struct nng_aio / nni_task; one action per critical section as seen from the
   harness: the consumer (submit, abort, stop, free), the provider (finish, and the cancel function,
   which either honours the cancellation by finishing the operation or declines because it has lost
   the race with its own completion), the expire thread (Tick), and the task thread (RunCb: the
   completion callback, released one at a time through the NNG_VERIF task gate, optionally
   re-submitting from inside the callback).  Time is virtual.

   Two providers: "ext" (the harness itself, through nng_aio_start/nng_aio_finish) and "sleep"
   (the library's own nng_sleep_aio, which exercises a_sleep / a_expire_ok).

   The properties are C02's: the callback runs exactly once per operation, with the result chosen by
   whoever completed it; a timeout never fires early; cancel/stop/timeout codes are reported only if
   the operation had not completed; after stop returned nothing runs. *)
EXTENDS Naturals, Sequences, TLC, Json

CONSTANTS MaxOps,        \* operations submitted on the aio
          MaxNow,        \* bound on virtual time
          Timeouts,      \* aio timeouts in ms; 0 = NNG_DURATION_ZERO, 9999 = NNG_DURATION_INFINITE
          Ticks,         \* clock advances
          SleepTimes,    \* nng_sleep_aio durations
          FixedAbort     \* TRUE: a late abort does not overwrite a_result (repaired); FALSE: defect

Never == 99999   \* NNI_TIME_NEVER
Inf == 9999      \* NNG_DURATION_INFINITE
Zero == 0        \* NNG_DURATION_ZERO

VARIABLES
  stop, abort, abortRv, sleep, xok, cfn, onx, res,   \* struct nng_aio (under eq_mtx)
  exp, now, tmo,                                     \* a_expire (Never or time), clock, a_timeout
  busy, prep, gated,                                 \* nni_task: task_busy, task_prep, dispatched-and-held-by-gate
  held,                                              \* the external provider still owns the operation
  stopCalled, stopRet, freed,                        \* nng_aio_stop on a helper thread; nng_aio_free
  stoppedOnce,                                       \* a_stopped: an operation already completed with NNG_ESTOPPED
  submitted, cbCount, intend, faithful, early,       \* ghosts: intended result of the operation in flight; latches
  lastAct

vars == <<stop, abort, abortRv, sleep, xok, cfn, onx, res, exp, now, tmo, busy, prep, gated, held,
          stopCalled, stopRet, freed, stoppedOnce, submitted, cbCount, intend, faithful, early, lastAct>>

Init ==
  /\ stop = FALSE /\ abort = FALSE /\ abortRv = "ok" /\ sleep = FALSE /\ xok = FALSE /\ cfn = FALSE /\ onx = FALSE
  /\ res = "ok" /\ exp = Never /\ now = 10 /\ tmo = Inf
  /\ busy = 0 /\ prep = FALSE /\ gated = 0 /\ held = FALSE
  /\ stopCalled = FALSE /\ stopRet = FALSE /\ freed = FALSE /\ stoppedOnce = FALSE
  /\ submitted = 0 /\ cbCount = 0 /\ intend = "none" /\ faithful = TRUE /\ early = FALSE
  /\ lastAct = [a |-> "init"]

\* ---------------------------------------------------------------- records for composing steps
\* Steps are composed functionally on a record of all mutable fields, because one harness step can
\* contain several critical sections (abort -> cancel function -> finish -> dispatch).
S0 == [stop |-> stop, abort |-> abort, abortRv |-> abortRv, sleep |-> sleep, xok |-> xok, cfn |-> cfn, onx |-> onx,
       res |-> res, exp |-> exp, now |-> now, tmo |-> tmo, busy |-> busy, prep |-> prep, gated |-> gated, held |-> held,
       stopCalled |-> stopCalled, stopRet |-> stopRet, freed |-> freed, stoppedOnce |-> stoppedOnce,
       submitted |-> submitted, cbCount |-> cbCount, intend |-> intend, faithful |-> faithful, early |-> early]
Commit(S0_, a) ==
  LET S == [S0_ EXCEPT !.stopRet = S0_.stopRet \/ (S0_.stopCalled /\ S0_.busy = 0)] IN   \* nni_aio_wait in stop returns
  /\ stop' = S.stop /\ abort' = S.abort /\ abortRv' = S.abortRv /\ sleep' = S.sleep /\ xok' = S.xok /\ cfn' = S.cfn
  /\ onx' = S.onx /\ res' = S.res /\ exp' = S.exp /\ now' = S.now /\ tmo' = S.tmo /\ busy' = S.busy /\ prep' = S.prep
  /\ gated' = S.gated /\ held' = S.held /\ stopCalled' = S.stopCalled /\ stopRet' = S.stopRet /\ freed' = S.freed
  /\ stoppedOnce' = S.stoppedOnce
  /\ submitted' = S.submitted /\ cbCount' = S.cbCount /\ intend' = S.intend /\ faithful' = S.faithful /\ early' = S.early
  /\ lastAct' = a

\* nni_task_dispatch (callback is not NULL, so the gate takes the task)
Dispatch(S) == [S EXCEPT !.prep = FALSE, !.busy = IF S.prep THEN S.busy ELSE S.busy + 1, !.gated = S.gated + 1]
Intend(S, rv) == [S EXCEPT !.intend = rv]
\* nni_aio_finish_impl
FinishImpl(S, rv) == Dispatch(Intend([S EXCEPT !.onx = FALSE, !.res = rv, !.cfn = FALSE, !.exp = Never, !.sleep = FALSE], rv))
\* the provider's cancel function, called with rv by abort / expire / stop
\*   ext provider: honours (finishes with rv) if asked to and it still holds the operation, else does nothing
\*   sleep provider (nni_sleep_cancel): finishes iff still sleeping
CancelFn(S, rv, honor) ==
  IF S.sleep THEN FinishImpl([S EXCEPT !.sleep = FALSE, !.onx = FALSE], rv)
  ELSE IF S.held /\ honor THEN FinishImpl([S EXCEPT !.held = FALSE], rv)
  ELSE S

\* nni_aio_start (after nni_task_prep), for the external provider
Start(S1) ==
  LET S == [S1 EXCEPT !.busy = S1.busy + 1, !.prep = TRUE, !.submitted = S1.submitted + 1]
      tz == S.tmo = Zero
      e  == IF S.tmo \in {Inf, Zero} THEN Never ELSE S.now + S.tmo
      T  == [S EXCEPT !.exp = IF tz THEN S.exp ELSE e, !.xok = FALSE]
  IN IF T.stop THEN [r |-> "stopped", S |-> Dispatch(Intend([T EXCEPT !.res = "stopped", !.sleep = FALSE, !.stoppedOnce = TRUE], "stopped"))]
     ELSE IF T.abort THEN
          LET rv == IF FixedAbort THEN T.abortRv ELSE T.res IN
          [r |-> "aborted", S |-> Dispatch(Intend([T EXCEPT !.abort = FALSE, !.sleep = FALSE, !.res = rv], rv))]
     ELSE IF tz THEN [r |-> "timedout", S |-> Dispatch(Intend([T EXCEPT !.res = "timedout", !.sleep = FALSE], "timedout"))]
     ELSE [r |-> "ok", S |-> [T EXCEPT !.res = "ok", !.cfn = TRUE, !.onx = (T.exp # Never), !.held = TRUE]]

Idle(S) == ~S.held /\ ~S.sleep /\ S.gated = 0 /\ S.busy = 0
\* (submitting again on an aio that has already reported NNG_ESTOPPED is a caller bug by the code's own
\*  contract: debug builds assert !a_stopped in nni_aio_start; the harness respects that precondition)
CanSubmit == submitted < MaxOps /\ Idle(S0) /\ ~freed /\ ~stoppedOnce

\* consumer: nng_aio_set_timeout
SetTimeout(t) == /\ CanSubmit /\ t # tmo
                 /\ Commit([S0 EXCEPT !.tmo = t], [a |-> "set_timeout", t |-> t])
\* consumer calls an operation of the external provider: optional nng_aio_reset, then nng_aio_start
Submit(reset) ==
  /\ CanSubmit
  /\ LET R == IF reset THEN [S0 EXCEPT !.res = "ok", !.abort = FALSE, !.xok = FALSE, !.sleep = FALSE] ELSE S0
         st == Start(R)
     IN Commit(st.S, [a |-> "submit", reset |-> reset, out |-> [started |-> IF st.r = "ok" THEN "ok" ELSE "no"]])
\* consumer: nng_sleep_aio(ms)
Sleep(ms) ==
  /\ CanSubmit
  /\ LET R  == [S0 EXCEPT !.res = "ok", !.abort = FALSE]
         short == R.tmo \notin {Inf, Zero} /\ ms > R.tmo      \* aio timeout shorter than the sleep: early ETIMEDOUT
         zero  == R.tmo = Zero
         d  == IF short THEN R.tmo ELSE IF zero THEN 0 ELSE ms
         S1 == [R EXCEPT !.xok = ~(short \/ zero), !.sleep = TRUE, !.exp = R.now + d,
                         !.busy = R.busy + 1, !.prep = TRUE, !.submitted = R.submitted + 1]
     IN IF S1.stop
          THEN Commit(Dispatch(Intend([S1 EXCEPT !.res = "stopped", !.sleep = FALSE, !.xok = FALSE, !.stoppedOnce = TRUE], "stopped")),
                      [a |-> "sleep", ms |-> ms, out |-> [started |-> "no"]])
          ELSE Commit([S1 EXCEPT !.res = "ok", !.cfn = TRUE, !.onx = TRUE],
                      [a |-> "sleep", ms |-> ms, out |-> [started |-> "ok"]])
\* provider completes the operation it holds
Finish(rv) ==
  /\ held
  /\ Commit(FinishImpl([S0 EXCEPT !.held = FALSE], rv), [a |-> "finish", rv |-> rv])
\* consumer: nng_aio_abort(aio, rv) / nng_aio_cancel
Abort(rv, honor) ==
  /\ ~freed /\ submitted > 0
  /\ (honor => (held /\ cfn))      \* the choice only matters when the cancel function will be called
  /\ LET S1 == [S0 EXCEPT !.onx = FALSE] IN
     IF S1.cfn THEN Commit(CancelFn([S1 EXCEPT !.cfn = FALSE], rv, honor), [a |-> "abort", rv |-> rv, honor |-> honor])
     ELSE Commit(IF FixedAbort THEN [S1 EXCEPT !.abort = TRUE, !.abortRv = rv]
                               ELSE [S1 EXCEPT !.abort = TRUE, !.res = rv],
                 [a |-> "abort", rv |-> rv, honor |-> honor])
\* clock advance; the expire thread then runs to quiescence
Tick(d, honor) ==
  /\ now + d <= MaxNow /\ ~freed
  /\ LET S1 == [S0 EXCEPT !.now = S0.now + d]
         due == S1.onx /\ S1.exp # Never /\ S1.exp < S1.now
     IN /\ (honor => (due /\ held /\ cfn))
        /\ IF ~due THEN Commit(S1, [a |-> "tick", d |-> d, honor |-> honor, out |-> [fired |-> FALSE]])
           ELSE LET rv == IF S1.xok THEN "ok" ELSE "timedout"
                    S2 == [S1 EXCEPT !.onx = FALSE, !.xok = FALSE, !.cfn = FALSE,
                                     !.early = S1.early \/ ~(S1.exp < S1.now)]
                    S3 == IF S2.sleep THEN Dispatch(Intend([S2 EXCEPT !.res = rv, !.sleep = FALSE], rv))
                          ELSE IF S1.cfn THEN CancelFn(S2, rv, honor) ELSE S2
                IN Commit(S3, [a |-> "tick", d |-> d, honor |-> honor, out |-> [fired |-> TRUE]])
\* the task thread runs one completion callback (released through the gate); the callback reads the
\* result and may submit the next operation on the same aio before it returns
RunCb(resub) ==
  /\ gated > 0
  /\ (resub => submitted < MaxOps /\ ~held /\ ~sleep /\ gated = 1 /\ ~stoppedOnce)
  /\ LET S1 == [S0 EXCEPT !.gated = S0.gated - 1, !.cbCount = S0.cbCount + 1,
                           !.faithful = S0.faithful /\ (S0.res = S0.intend), !.intend = "none"]
         st == Start(S1)
         S2 == IF resub THEN st.S ELSE S1
         S3 == [S2 EXCEPT !.busy = S2.busy - 1]
     IN Commit(S3, [a |-> "run_cb", resub |-> resub, out |-> [result |-> S0.res, started |-> IF resub /\ st.r = "ok" THEN "ok" ELSE "no"]])
\* nng_aio_stop on a helper thread: latch, take the cancel function, then wait for the task
Stop(honor) ==
  /\ ~stopCalled /\ ~freed /\ submitted > 0
  /\ (honor => (held /\ cfn))
  /\ LET S1 == [S0 EXCEPT !.stop = TRUE, !.onx = FALSE, !.stopCalled = TRUE]
     IN Commit(IF S1.cfn THEN CancelFn([S1 EXCEPT !.cfn = FALSE], "stopped", honor) ELSE S1,
               [a |-> "stop", honor |-> honor])
\* nng_aio_free after stop returned (the documented teardown order)
Free == /\ stopRet /\ ~freed /\ Idle(S0)
        /\ Commit([S0 EXCEPT !.freed = TRUE], [a |-> "free"])

Rvs == {"ok", "closed"}
Next == \/ \E t \in Timeouts : SetTimeout(t)
        \/ \E r \in BOOLEAN : Submit(r)
        \/ \E ms \in SleepTimes : Sleep(ms)
        \/ \E rv \in Rvs : Finish(rv)
        \/ \E h \in BOOLEAN : Abort("canceled", h)
        \/ \E d \in Ticks, h \in BOOLEAN : Tick(d, h)
        \/ \E r \in BOOLEAN : RunCb(r)
        \/ \E h \in BOOLEAN : Stop(h)
        \/ Free
Spec == Init /\ [][Next]_vars

\* ---------------------------------------------------------------- properties (C02)
TypeOK == busy \in 0..4 /\ gated \in 0..4 /\ cbCount <= MaxOps + 1
\* the callback never runs more often than operations were submitted; the task is never queued twice
AtMostOnce == cbCount + gated <= submitted /\ gated <= 1
\* nothing is lost: when nothing is in flight every operation has had its callback
ExactlyOnceAtRest == Idle(S0) => cbCount = submitted
\* the result the k-th callback sees is the one chosen by whoever completed operation k
ResultFaithful == faithful
\* a timeout never fires before the deadline
TimeoutNotEarly == ~early
\* when nng_aio_stop returns, no callback is pending or running, and every operation submitted before is complete
\* (a callback pending afterwards can only be the immediate NNG_ESTOPPED completion of a later submission)
StopSound == stopRet => (~held /\ ~sleep /\ (gated > 0 => res = "stopped"))
\* after free nothing refers to the aio
FreeSound == freed => (gated = 0 /\ busy = 0 /\ ~onx /\ ~held)
\* the busy count is exactly: prepared/dispatched operations whose callback has not returned
BusyExact == busy = (IF held \/ sleep THEN 1 ELSE 0) + gated

\* ---------------------------------------------------------------- export
SId == <<stop, abort, abortRv, sleep, xok, cfn, onx, res, exp, now, tmo, busy, prep, gated, held,
         stopCalled, stopRet, freed, stoppedOnce, submitted, cbCount, intend, faithful, early>>
Obs == [cbs |-> cbCount, gated |-> gated, busy |-> (busy > 0), stopret |-> stopRet]
Fin == 0
ExportEdge == PrintT(<<"E", ToJson([s |-> SId, sa |-> lastAct, d |-> SId', act |-> lastAct', obs |-> Obs', fin |-> Fin'])>>)
View == SId
=====================================================================
