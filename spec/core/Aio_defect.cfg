SPECIFICATION Spec
CONSTANTS MaxOps = 2
          MaxNow = 22
          Timeouts = {9999, 0, 3}
          Ticks = {1, 4}
          SleepTimes = {2, 5}
          FixedAbort = FALSE
INVARIANTS TypeOK AtMostOnce ExactlyOnceAtRest ResultFaithful TimeoutNotEarly StopSound FreeSound BusyExact
VIEW View
