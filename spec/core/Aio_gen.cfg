SPECIFICATION Spec
CONSTANTS MaxOps = 2
          MaxNow = 16
          Timeouts = {9999, 0, 3}
          Ticks = {1, 4}
          SleepTimes = {2}
          FixedAbort = TRUE
INVARIANTS AtMostOnce ResultFaithful
ACTION_CONSTRAINT ExportEdge
VIEW View
