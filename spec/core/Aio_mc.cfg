SPECIFICATION Spec
CONSTANTS MaxOps = 3
          MaxNow = 22
          Timeouts = {9999, 0, 3}
          Ticks = {1, 4}
          SleepTimes = {2, 5}
          FixedAbort = TRUE
INVARIANTS TypeOK AtMostOnce ExactlyOnceAtRest ResultFaithful TimeoutNotEarly StopSound FreeSound BusyExact
VIEW View
