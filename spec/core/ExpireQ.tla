---------------------------- MODULE ExpireQ ----------------------------
(* One aio expire queue (nni_aio_expire_q in src/core/aio.c) holding several timed operations:
   nni_aio_expire_add / nni_aio_expire_rm, and the scan of nni_aio_expire_loop with its batch limit
   (NNI_EXPIRE_BATCH).  C02: "a timeout never fires before the configured duration" and - the part a
   single-aio model cannot see - every timed operation is eventually expired: the queue's wake-up time
   eq_next never lies beyond the deadline of an entry that is still queued, also when more entries are
   due than fit in one batch.

   An entry stands for a block of operations with the same deadline (the harness submits 50
   nng_sleep_aio operations per entry; Batch = 2 entries = NNI_EXPIRE_BATCH = 100 operations). *)
EXTENDS Naturals, Sequences, FiniteSets, TLC, Json

CONSTANTS Ids, Durations, Ticks, MaxNow, Batch,
          ScanAll       \* TRUE: the scan looks at every entry (code as it is); FALSE: stops when the batch is full (defect)

VARIABLES list,      \* queued entries in insertion order: [id, exp]
          eqNext, now,
          fired,     \* ids completed by expiry (result NNG_OK: a sleep that ran its course)
          gone,      \* ids cancelled
          early,     \* ghost: something fired although its deadline had not passed
          lastAct
vars == <<list, eqNext, now, fired, gone, early, lastAct>>
Never == 99999
Used == {list[i].id : i \in 1..Len(list)} \cup fired \cup gone

Init == list = <<>> /\ eqNext = Never /\ now = 10 /\ fired = {} /\ gone = {} /\ early = FALSE /\ lastAct = [a |-> "init"]

\* one scan at time t: entries with exp < t are taken, at most Batch of them; eq_next is recomputed from the rest
RECURSIVE ScanFrom(_, _, _, _, _)
ScanFrom(rest, kept, nfire, nxt, t) ==
  IF rest = <<>> THEN [list |-> kept, eqNext |-> nxt]
  ELSE LET e == Head(rest) IN
       IF e.exp < t /\ nfire < Batch THEN ScanFrom(Tail(rest), kept, nfire + 1, nxt, t)
       ELSE IF ~ScanAll /\ nfire >= Batch THEN [list |-> kept \o rest, eqNext |-> nxt]     \* defect: stop looking
       ELSE ScanFrom(Tail(rest), Append(kept, e), nfire, IF e.exp < nxt THEN e.exp ELSE nxt, t)
IdsOf(l) == {l[i].id : i \in 1..Len(l)}
\* the expire thread at time t runs until it goes back to sleep (t < eq_next)
RECURSIVE Loop(_, _)
Loop(S, t) == IF t < S.eqNext THEN S
              ELSE LET r == ScanFrom(S.list, <<>>, 0, Never, t) IN
                   IF r.list = S.list THEN [list |-> r.list, eqNext |-> r.eqNext, fired |-> S.fired]   \* an entry is due exactly now: the
                                                                                                       \* thread spins until the clock moves
                   ELSE Loop([list |-> r.list, eqNext |-> r.eqNext, fired |-> S.fired \cup (IdsOf(S.list) \ IdsOf(r.list))], t)

Add(i, d) ==
  /\ i \notin Used
  /\ LET e == [id |-> i, exp |-> now + d]
         S == Loop([list |-> Append(list, e), eqNext |-> IF eqNext > e.exp THEN e.exp ELSE eqNext, fired |-> fired], now)
     IN list' = S.list /\ eqNext' = S.eqNext /\ fired' = S.fired
  /\ lastAct' = [a |-> "xq_add", id |-> i, ms |-> d]
  /\ UNCHANGED <<now, gone, early>>
Cancel(i) ==
  /\ i \in IdsOf(list)
  /\ list' = SelectSeq(list, LAMBDA e : e.id # i) /\ gone' = gone \cup {i}
  /\ lastAct' = [a |-> "xq_cancel", id |-> i]
  /\ UNCHANGED <<eqNext, now, fired, early>>
Tick(d) ==
  /\ now + d <= MaxNow /\ now' = now + d
  /\ LET S == Loop([list |-> list, eqNext |-> eqNext, fired |-> fired], now + d)
     IN /\ list' = S.list /\ eqNext' = S.eqNext /\ fired' = S.fired
        /\ early' = (early \/ \E k \in 1..Len(list) : list[k].id \in S.fired /\ ~(list[k].exp < now + d))
  /\ lastAct' = [a |-> "xq_tick", d |-> d]
  /\ UNCHANGED gone

Next == (\E i \in Ids, d \in Durations : Add(i, d)) \/ (\E i \in Ids : Cancel(i)) \/ (\E d \in Ticks : Tick(d))
Spec == Init /\ [][Next]_vars

\* the queue never sleeps past the deadline of a queued entry
NoLostTimer == \A k \in 1..Len(list) : eqNext <= list[k].exp
\* when the thread is asleep nothing queued is overdue
NothingOverdue == \A k \in 1..Len(list) : ~(list[k].exp < now)
NotEarly == ~early

SId == <<list, eqNext, now, fired, gone>>
Obs == [S_fired |-> fired, S_gone |-> gone, queued |-> Len(list)]
Fin == 0
ExportEdge == PrintT(<<"E", ToJson([s |-> SId, sa |-> lastAct, d |-> SId', act |-> lastAct', obs |-> Obs', fin |-> Fin'])>>)
View == SId
=========================================================================
