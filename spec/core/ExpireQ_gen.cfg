SPECIFICATION Spec
CONSTANTS Ids = {1, 2, 3}
          Durations = {2, 5}
          Ticks = {1, 6}
          MaxNow = 17
          Batch = 2
          ScanAll = TRUE
ACTION_CONSTRAINT ExportEdge
VIEW View
