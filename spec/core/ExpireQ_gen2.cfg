SPECIFICATION Spec
CONSTANTS Ids = {1, 2, 3, 4}
          Durations = {2, 5}
          Ticks = {1, 3, 6}
          MaxNow = 20
          Batch = 2
          ScanAll = TRUE
ACTION_CONSTRAINT ExportEdge
VIEW View
