SPECIFICATION Spec
CONSTANTS Ids = {1, 2, 3, 4, 5}
          Durations = {2, 5}
          Ticks = {1, 3, 6}
          MaxNow = 26
          Batch = 2
          ScanAll = TRUE
INVARIANTS NoLostTimer NothingOverdue NotEarly
VIEW View
