---------------------------- MODULE HttpChunk ----------------------------
(* The decoder of HTTP/1.1 chunked transfer coding (src/supplemental/http/http_chunk.c, nni_http_chunks_parse), part of C16:
   "decode the same ... chunked body ... from a byte stream however it is split across reads" and "well-formed ... chunk sizes".

   Two formulations in one module, compared by TLC:
     Char(m, c)      the eight-state machine of chunk_ingest_char / chunk_ingest_len / ..._newline / ..._trailer, one
                     character at a time (the meaning of a stream is the fold of Char over it);
     Bulk(m, seg)    nni_http_chunks_parse on one buffer: the same grinder, except that in CS_DATA the bytes are taken in
                     one memcpy of min(n, resid) and the CRLF behind the data is looked at only once the last byte is in
                     (chunk_ingest_data), so the fast path has to agree with the grinder for every position of the cut.
   SegIndep (checked on the history of every behaviour): cutting the stream anywhere and feeding the two pieces to Bulk
   gives the state that the character-wise machine reached.

   Characters are classes (the decoder only distinguishes these); a token is fed as its concrete bytes by the driver.
   Sizes: small naturals, plus SMAX standing for SIZE_MAX (token HUGE = sixteen 'f' digits), compared symbolically.
   Binding: every edge of the graph (one token per step: result code, bytes consumed, list of chunk sizes, total, data
   bytes) is replayed on nni_http_chunks_parse; at the end of each walk the driver parses the same byte stream again in
   one piece, in pieces of 2, 3, 5, 7 bytes and with random cuts and requires the same outcome (harness/drv_data.c). *)
EXTENDS Naturals, Sequences, FiniteSets, TLC, Json

CONSTANTS MaxSzs,      \* values of maxsz given to nni_http_chunks_init (0: unlimited)
          MaxChunk,    \* largest chunk size explored
          MaxChunks,   \* chunks per body
          MaxLen       \* 0: no history (graph export); > 0: behaviours of at most MaxLen tokens, SegIndep checked on the history

VARIABLES m, stream, lastAct
vars == <<m, stream, lastAct>>

SMAX == 1000000        \* SIZE_MAX
Hex == [c \in {"0", "1", "2", "a", "F"} |-> CASE c = "0" -> 0 [] c = "1" -> 1 [] c = "2" -> 2 [] c = "a" -> 10 [] c = "F" -> 15]
Tokens == {"0", "1", "2", "a", "F", "g", "~", ";", "SP", "TAB", "CR", "LF", "HI", "HUGE"}
IsHex(c) == c \in DOMAIN Hex
IsAlnum(c) == IsHex(c) \/ c = "g" \/ c = "HUGE"
IsPrint(c) == c \in {"0", "1", "2", "a", "F", "g", "~", ";", "SP", "HUGE"}
TokLen(c) == IF c = "HUGE" THEN 16 ELSE 1

M0(maxsz) == [st |-> "INIT", size |-> 0, total |-> 0, line |-> FALSE, resid |-> 0, tailbad |-> FALSE, chunks |-> <<>>,
              maxsz |-> maxsz, rv |-> "again", eat |-> 0]
Fail(mm, rv) == [mm EXCEPT !.st = "FAILED", !.rv = rv, !.eat = 0]
Ok(mm) == [mm EXCEPT !.rv = "again", !.eat = 1]

\* chunk_ingest_len
Len_(mm, c) ==
  IF c = "HUGE" THEN (IF mm.size = 0 THEN [Ok(mm) EXCEPT !.st = "LEN", !.size = SMAX, !.eat = 16] ELSE Fail(mm, "emsgsize"))
  ELSE IF IsHex(c) THEN (IF mm.size = SMAX THEN Fail(mm, "emsgsize") ELSE [Ok(mm) EXCEPT !.st = "LEN", !.size = mm.size * 16 + Hex[c]])
  ELSE IF c = ";" THEN [Ok(mm) EXCEPT !.st = "EXT"]
  ELSE IF c = "CR" THEN [Ok(mm) EXCEPT !.st = "CR"]
  ELSE Fail(mm, "eproto")
\* chunk_ingest_newline
Newline(mm, c) ==
  IF c # "LF" THEN Fail(mm, "eproto")
  ELSE IF mm.size = 0 THEN [Ok(mm) EXCEPT !.st = "TRLR", !.line = FALSE]
  ELSE IF mm.size = SMAX \/ (mm.maxsz > 0 /\ (mm.total > mm.maxsz \/ mm.size > mm.maxsz - mm.total)) THEN Fail(mm, "emsgsize")
  ELSE [Ok(mm) EXCEPT !.st = "DATA", !.resid = mm.size + 2, !.total = mm.total + mm.size, !.tailbad = FALSE,
                      !.chunks = Append(mm.chunks, mm.size)]
\* one byte of chunk data or of the CRLF behind it: the CRLF is judged when the last byte has arrived
Data(mm, c) ==
  IF mm.resid > 2 THEN [Ok(mm) EXCEPT !.resid = mm.resid - 1]
  ELSE IF mm.resid = 2 THEN [Ok(mm) EXCEPT !.resid = 1, !.tailbad = (c # "CR")]
  ELSE IF mm.tailbad \/ c # "LF" THEN [Fail(mm, "eproto") EXCEPT !.eat = 1]      \* the bytes were copied: they count as consumed
  ELSE [Ok(mm) EXCEPT !.st = "INIT", !.resid = 0, !.size = 0, !.line = FALSE]
Char(mm, c) ==
  CASE mm.st = "INIT" -> IF IsAlnum(c) THEN Len_(mm, c) ELSE Fail(mm, "eproto")
    [] mm.st = "LEN" -> Len_(mm, c)
    [] mm.st = "EXT" -> IF c = "CR" THEN [Ok(mm) EXCEPT !.st = "CR"] ELSE IF IsPrint(c) THEN Ok(mm) ELSE Fail(mm, "eproto")
    [] mm.st = "CR" -> Newline(mm, c)
    [] mm.st = "DATA" -> Data(mm, c)
    [] mm.st = "TRLR" -> IF c = "CR" THEN [Ok(mm) EXCEPT !.st = "TRLRCR"]
                         ELSE IF IsPrint(c) THEN [Ok(mm) EXCEPT !.line = TRUE] ELSE Fail(mm, "eproto")
    [] mm.st = "TRLRCR" -> IF c # "LF" THEN Fail(mm, "eproto")
                           ELSE IF ~mm.line THEN [Ok(mm) EXCEPT !.st = "DONE", !.rv = "ok"] ELSE [Ok(mm) EXCEPT !.st = "TRLR", !.line = FALSE]
    [] mm.st = "DONE" -> [mm EXCEPT !.rv = "ok", !.eat = 0]
    [] OTHER -> mm

\* HUGE is sixteen characters; inside chunk data or a trailer it is sixteen ordinary printable bytes, so it is only offered
\* where it is a size (the driver could not cut it otherwise); data bytes are single-character tokens
Offered(mm, c) ==
  /\ mm.st \notin {"FAILED"}
  /\ c = "HUGE" => mm.st \in {"INIT", "LEN"} /\ mm.size = 0
  /\ mm.st = "DONE" => c = "0"
  \* classes the decoder cannot tell apart in a state are offered once
  /\ mm.st = "DATA" => c \in {"~", "CR", "LF"}
  /\ mm.st = "EXT" => c \in {"~", "SP", "TAB", "CR", "LF", "HI"}
  /\ mm.st \in {"TRLR", "TRLRCR", "CR"} => c \in {"~", "a", "TAB", "CR", "LF"}

Init == /\ \E z \in MaxSzs : m = M0(z)
        /\ stream = <<>> /\ lastAct = [a |-> "init", maxsz |-> m.maxsz]
Feed(c) == /\ Offered(m, c)
           /\ MaxLen > 0 => Len(stream) < MaxLen
           /\ m' = Char(m, c)
           /\ m'.size \in 0..MaxChunk \cup {SMAX}
           /\ Len(m'.chunks) <= MaxChunks
           /\ stream' = IF MaxLen > 0 THEN Append(stream, c) ELSE stream
           /\ lastAct' = [a |-> "feed", c |-> c, out |-> [rv |-> m'.rv, eat |-> m'.eat]]
Next == \E c \in Tokens : Feed(c)
Spec == Init /\ [][Next]_vars

\* ---------------------------------------------------------------- the bulk path (nni_http_chunks_parse on one buffer)
\* State of the fold: the machine, the bytes consumed from this buffer, and whether the loop has stopped.
RECURSIVE BulkFrom(_, _, _)
BulkFrom(mm, seg, i) ==
  IF i > Len(seg) \/ mm.st \in {"DONE", "FAILED"} THEN mm
  ELSE IF mm.st = "DATA" THEN
         \* chunk_ingest_data: take min(n, resid) bytes at once; judge the CRLF iff the chunk is now complete
         LET n == Len(seg) - i + 1
             k == IF n >= mm.resid THEN mm.resid ELSE n
             piece == SubSeq(seg, i, i + k - 1)
             \* which of the taken bytes land on the two tail positions (resid 2 and resid 1)
             crpos == mm.resid - 1        \* the byte taken when resid = 2 is the (resid-1)-th of the piece
             cr_ok == IF mm.resid >= 2 THEN (IF k >= crpos THEN piece[crpos] = "CR" ELSE TRUE) ELSE ~mm.tailbad
             lf_ok == IF k >= mm.resid THEN piece[mm.resid] = "LF" ELSE TRUE
             bad == IF mm.resid >= 2 /\ k >= crpos THEN ~cr_ok ELSE mm.tailbad
         IN IF k < mm.resid
              THEN BulkFrom([mm EXCEPT !.resid = mm.resid - k, !.tailbad = bad, !.rv = "again"], seg, i + k)
              ELSE IF bad \/ ~lf_ok THEN [mm EXCEPT !.st = "FAILED", !.rv = "eproto"]
                   ELSE BulkFrom([mm EXCEPT !.st = "INIT", !.resid = 0, !.size = 0, !.line = FALSE, !.tailbad = FALSE, !.rv = "again"], seg, i + k)
  ELSE BulkFrom(Char(mm, seg[i]), seg, i + 1)
Bulk(mm, seg) == BulkFrom(mm, seg, 1)

\* what the two formulations must agree on
Proj(mm) == IF mm.st = "FAILED" THEN [st |-> mm.st, rv |-> mm.rv, chunks |-> mm.chunks, total |-> mm.total]   \* after a failure only the outcome counts
            ELSE [st |-> mm.st, size |-> mm.size, total |-> mm.total, line |-> mm.line, resid |-> mm.resid, chunks |-> mm.chunks,
                  rv |-> IF mm.st = "DONE" THEN mm.rv ELSE "again",
                  tailbad |-> IF mm.st = "DATA" /\ mm.resid = 1 THEN mm.tailbad ELSE FALSE]
\* HUGE never appears inside DATA (Offered), so a token is a character for the purpose of cutting
SegIndep == MaxLen > 0 =>
  \A k \in 0..Len(stream) :
     Proj(Bulk(Bulk(M0(m.maxsz), SubSeq(stream, 1, k)), SubSeq(stream, k + 1, Len(stream)))) = Proj(m)

\* ---------------------------------------------------------------- properties of the decoder itself
TypeOK == m.st \in {"INIT", "LEN", "EXT", "CR", "DATA", "TRLR", "TRLRCR", "DONE", "FAILED"}
\* the copy into the chunk buffer stays inside it: offset = alloc - resid, alloc = size + 2
InBounds == m.st = "DATA" => (m.resid >= 1 /\ m.resid <= m.chunks[Len(m.chunks)] + 2)
\* nothing above maxsz is ever collected; the total is the sum of the chunk sizes
RECURSIVE Sum(_)
Sum(s) == IF s = <<>> THEN 0 ELSE Head(s) + Sum(Tail(s))
Bounded == m.total = Sum(m.chunks) /\ (m.maxsz > 0 => m.total <= m.maxsz)
\* a body is complete only after a zero-size chunk line and an empty trailer line, and never holds an empty chunk
DoneMeans == (m.st = "DONE" => m.size = 0 /\ ~m.line) /\ (\A i \in 1..Len(m.chunks) : m.chunks[i] > 0)

\* ---------------------------------------------------------------- export
SId == [st |-> m.st, size |-> m.size, total |-> m.total, line |-> m.line, resid |-> m.resid, tailbad |-> m.tailbad,
        chunks |-> m.chunks, maxsz |-> m.maxsz]
Obs == [sizes |-> m.chunks, total |-> m.total, dataok |-> TRUE]
FinV == 0
ExportEdge == PrintT(<<"E", ToJson([s |-> SId, sa |-> lastAct, d |-> SId', act |-> lastAct', obs |-> Obs', fin |-> FinV'])>>)
View == <<SId, stream>>
=====================================================================
