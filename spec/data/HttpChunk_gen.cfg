SPECIFICATION Spec
CONSTANTS MaxSzs = {0, 5, 40}
          MaxChunk = 18
          MaxChunks = 2
          MaxLen = 0
INVARIANTS TypeOK InBounds Bounded DoneMeans
ACTION_CONSTRAINT ExportEdge
VIEW View
