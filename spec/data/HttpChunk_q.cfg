SPECIFICATION Spec
CONSTANTS MaxSzs = {0, 5}
          MaxChunk = 3
          MaxChunks = 2
          MaxLen = 10
INVARIANTS TypeOK InBounds Bounded DoneMeans SegIndep
