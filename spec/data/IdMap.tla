---------------------------- MODULE IdMap ----------------------------
(* nni_id_map (src/core/idhash.c; public face: the nng_id_map functions).  C18 (identifier part).

   abstract        map (finite function key -> value), cur (next id to try; 0 = unset)
   implementation  tbl[i] = [key, skips, val], tcap, count, load, minl, maxl : open addressing
                   with the probe j -> 5j+1 and skip counters, grow/shrink by load, transcribed
                   from id_find / id_resize / nni_id_set / nni_id_remove / nni_id_alloc.
   TLC checks that the table refines the finite map (every key findable through its probe chain,
   skip counters exact, count/load consistent) and that allocated ids are unused, in range and
   follow the cursor.  The edge cover (all probe-chain and resize shapes for the bounded key
   set) is replayed on the public nng_id_* API. *)
EXTENDS Naturals, Sequences, FiniteSets, TLC, Json

CONSTANTS Keys,      \* keys used with set/get/remove (chosen to collide modulo 8 and 16)
          Lo, Hi,    \* range for alloc
          Vals,      \* values 1..n (0 = NULL)
          MaxOps

VARIABLES map, cur,
          tbl, tcap, count, load, minl, maxl,
          nops, lastAct

vars == <<map, cur, tbl, tcap, count, load, minl, maxl, nops, lastAct>>
MaxTbl == 32
Empty == [key |-> 0, skips |-> 0, val |-> 0]
NextI(j, c) == ((j * 5) + 1) % c
Index(k, c) == k % c

Init == /\ map = << >> /\ cur = 0
        /\ tbl = [i \in 0..(MaxTbl - 1) |-> Empty] /\ tcap = 0 /\ count = 0 /\ load = 0 /\ minl = 0 /\ maxl = 0
        /\ nops = 0 /\ lastAct = [a |-> "init", lo |-> Lo, hi |-> Hi]

\* ---- id_find on a table record T = [tbl, tcap, count, load, minl, maxl] ----
T0 == [tbl |-> tbl, tcap |-> tcap, count |-> count, load |-> load, minl |-> minl, maxl |-> maxl]
RECURSIVE FindFrom(_, _, _, _)
FindFrom(T, id, idx, start) ==
  IF T.tbl[idx].key = id /\ T.tbl[idx].val # 0 THEN idx
  ELSE IF T.tbl[idx].skips = 0 THEN MaxTbl         \* MaxTbl = "not found"
  ELSE LET n == NextI(idx, T.tcap) IN IF n = start THEN MaxTbl ELSE FindFrom(T, id, n, start)
Find(T, id) == IF T.count = 0 THEN MaxTbl ELSE FindFrom(T, id, Index(id, T.tcap), Index(id, T.tcap))

\* probe insert of (k, v) into table t of capacity c starting at index i; returns [tbl, probes]
RECURSIVE Place(_, _, _, _, _, _)
Place(t, c, i, k, v, n) ==
  IF t[i].val = 0 THEN [tbl |-> [t EXCEPT ![i] = [key |-> k, skips |-> t[i].skips, val |-> v]], probes |-> n + 1]
  ELSE Place([t EXCEPT ![i] = [key |-> @.key, skips |-> @.skips + 1, val |-> @.val]], c, NextI(i, c), k, v, n + 1)

NewCap(cnt) == IF cnt * 2 <= 8 THEN 8 ELSE IF cnt * 2 <= 16 THEN 16 ELSE 32
RECURSIVE Rehash(_, _, _, _, _)
Rehash(old, oc, i, nt, nc) ==   \* move entries old[i..oc-1] into nt (capacity nc); returns [tbl, load]
  IF i >= oc THEN [tbl |-> nt, load |-> 0]
  ELSE IF old[i].val = 0 THEN Rehash(old, oc, i + 1, nt, nc)
  ELSE LET p == Place(nt, nc, Index(old[i].key, nc), old[i].key, old[i].val, 0)
           r == Rehash(old, oc, i + 1, p.tbl, nc)
       IN [tbl |-> r.tbl, load |-> r.load + p.probes]

\* id_resize
Resize(T) ==
  IF T.load < T.maxl /\ T.load >= T.minl THEN T
  ELSE LET nc == NewCap(T.count) IN
       IF nc = T.tcap THEN T
       ELSE LET r == Rehash(T.tbl, T.tcap, 0, [i \in 0..(MaxTbl - 1) |-> Empty], nc) IN
            [tbl |-> r.tbl, tcap |-> nc, count |-> T.count, load |-> r.load,
             minl |-> IF nc > 8 THEN nc \div 8 ELSE 0,
             maxl |-> IF nc > 8 THEN (nc * 2) \div 3 ELSE 5]

\* nni_id_set
SetT(T, id, v) ==
  LET R == Resize(T)
      f == Find(R, id)
  IN IF f # MaxTbl THEN [R EXCEPT !.tbl = [@ EXCEPT ![f] = [key |-> @.key, skips |-> @.skips, val |-> v]]]
     ELSE LET p == Place(R.tbl, R.tcap, Index(id, R.tcap), id, v, 0) IN
          [R EXCEPT !.tbl = p.tbl, !.load = @ + p.probes, !.count = @ + 1]

\* nni_id_remove (id known to be present at index f)
RECURSIVE Unlink(_, _, _, _, _)
Unlink(t, c, probe, f, n) ==      \* returns [tbl, probes]
  IF probe = f THEN [tbl |-> [t EXCEPT ![f] = [key |-> 0, skips |-> @.skips, val |-> 0]], probes |-> n + 1]
  ELSE Unlink([t EXCEPT ![probe] = [key |-> @.key, skips |-> @.skips - 1, val |-> @.val]], c, NextI(probe, c), f, n + 1)
RemoveT(T, id, f) ==
  LET u == Unlink(T.tbl, T.tcap, Index(id, T.tcap), f, 0) IN
  Resize([T EXCEPT !.tbl = u.tbl, !.load = @ - u.probes, !.count = @ - 1])

ApplyT(T) == /\ tbl' = T.tbl /\ tcap' = T.tcap /\ count' = T.count /\ load' = T.load /\ minl' = T.minl /\ maxl' = T.maxl
Step(a) == lastAct' = a /\ UNCHANGED nops
Dom(m) == DOMAIN m
MapSet(m, k, v) == [x \in (DOMAIN m) \cup {k} |-> IF x = k THEN v ELSE m[x]]
MapDel(m, k) == [x \in (DOMAIN m) \ {k} |-> m[x]]

Set(k, v) == /\ Step([a |-> "set", k |-> k, v |-> v, out |-> [rv |-> "ok"]])
             /\ ApplyT(SetT(T0, k, v))
             /\ map' = MapSet(map, k, v)
             /\ UNCHANGED cur
Get(k) == /\ Step([a |-> "get", k |-> k, out |-> [v |-> IF k \in DOMAIN map THEN map[k] ELSE 0]])
          /\ UNCHANGED <<map, cur, tbl, tcap, count, load, minl, maxl>>
Remove(k) == LET f == Find(T0, k) IN
             IF f = MaxTbl
               THEN /\ Step([a |-> "remove", k |-> k, out |-> [rv |-> "enoent"]])
                    /\ UNCHANGED <<map, cur, tbl, tcap, count, load, minl, maxl>>
               ELSE /\ Step([a |-> "remove", k |-> k, out |-> [rv |-> "ok"]])
                    /\ ApplyT(RemoveT(T0, k, f))
                    /\ map' = MapDel(map, k)
                    /\ UNCHANGED cur
\* nni_id_alloc: the cursor walks lo..hi cyclically, skipping ids in use
RECURSIVE Pick(_, _)
Pick(T, c) == IF Find(T, c) = MaxTbl THEN c ELSE Pick(T, IF c + 1 > Hi THEN Lo ELSE c + 1)
Alloc(v) ==
  IF count > Hi - Lo
    THEN /\ Step([a |-> "alloc", v |-> v, out |-> [rv |-> "enomem", id |-> 0]])
         /\ UNCHANGED <<map, cur, tbl, tcap, count, load, minl, maxl>>
    ELSE LET c0 == IF cur = 0 THEN Lo ELSE cur
             id == Pick(T0, c0)
         IN /\ Step([a |-> "alloc", v |-> v, out |-> [rv |-> "ok", id |-> id]])
            /\ cur' = IF id + 1 > Hi THEN Lo ELSE id + 1
            /\ ApplyT(SetT(T0, id, v))
            /\ map' = MapSet(map, id, v)

Next == \/ \E k \in Keys, v \in Vals : Set(k, v)
        \/ \E k \in Keys : Get(k) \/ Remove(k)
        \/ \E v \in Vals : Alloc(v)
Spec == Init /\ [][Next]_vars

\* ---------------- properties ----------------
\* the table is a finite map: every key is found through its probe chain with its value, nothing else is
Refines == /\ \A k \in DOMAIN map : Find(T0, k) # MaxTbl /\ tbl[Find(T0, k)].val = map[k]
           /\ \A k \in (Keys \cup Lo..Hi) \ DOMAIN map : Find(T0, k) = MaxTbl
           /\ count = Cardinality(DOMAIN map)
           /\ Cardinality({i \in 0..(MaxTbl - 1) : tbl[i].val # 0}) = count
           /\ \A i \in 0..(MaxTbl - 1) : tbl[i].val # 0 => i < tcap
\* load never underflows and the table always has a free cell (the probe loops terminate)
LoadSane == load >= count /\ (tcap > 0 => count < tcap)
\* an allocated id is in range and was not in use; ENOMEM exactly when the range is exhausted
\* (stated for histories that only use in-range keys)
AllocOK == [][lastAct'.a = "alloc" =>
               IF lastAct'.out.rv = "ok"
                 THEN lastAct'.out.id \in Lo..Hi /\ lastAct'.out.id \notin DOMAIN map
                 ELSE (DOMAIN map \subseteq Lo..Hi) => (Lo..Hi) \subseteq DOMAIN map]_vars
\* not reissued before the cursor wraps: ids handed out go upwards (cyclically) from the cursor
AllocFollowsCursor == [][(lastAct'.a = "alloc" /\ lastAct'.out.rv = "ok" /\ cur # 0) =>
                           \A x \in Lo..Hi : (x \notin DOMAIN map /\ x # lastAct'.out.id) =>
                                ~(IF cur <= lastAct'.out.id THEN x >= cur /\ x < lastAct'.out.id
                                                           ELSE x >= cur \/ x < lastAct'.out.id)]_vars

\* ---------------- export ----------------
SId == <<map, cur, tbl, tcap, count, load, minl, maxl, nops>>
MapAsSeq == LET RECURSIVE S(_) S(ks) == IF ks = {} THEN <<>> ELSE LET k == CHOOSE x \in ks : \A y \in ks : x <= y IN <<<<k, map[k]>>>> \o S(ks \ {k}) IN S(DOMAIN map)
Obs == [count |-> Cardinality(DOMAIN map), m |-> MapAsSeq]
Fin == 0
ExportEdge == PrintT(<<"E", ToJson([s |-> SId, sa |-> lastAct, d |-> SId', act |-> lastAct', obs |-> Obs', fin |-> Fin'])>>)
View == SId
=====================================================================
