SPECIFICATION Spec
CONSTANTS Keys = {1, 9, 17}
          Lo = 8
          Hi = 10
          Vals = {1, 2}
          MaxOps = 0
INVARIANTS Refines LoadSane
ACTION_CONSTRAINT ExportEdge
VIEW View
