SPECIFICATION Spec
CONSTANTS Keys = {1, 9, 17, 25}
          Lo = 1
          Hi = 3
          Vals = {1, 2}
          MaxOps = 0
INVARIANTS Refines LoadSane
PROPERTIES AllocOK AllocFollowsCursor
VIEW View
