---------------------------- MODULE Ids ----------------------------
(* Identifiers of sockets, contexts, dialers and listeners (the static id maps behind nng_socket_id, nng_ctx_id, nng_dialer_id,
   nng_listener_id: src/core/socket.c, dialer.c, listener.c, idhash.c) over the life of a process, including complete
   nng_fini / nng_init cycles.   C18: identifiers are unique among live objects, positive and in range, and are not issued
   again before the range wraps - a handle that was closed never comes to name a new object; C10: a closed handle is refused. *)
EXTENDS Naturals, FiniteSets, Sequences, TLC, Json

CONSTANTS Kinds, MaxOpen, MaxIssued,
          ResetOnCycle      \* FALSE: the allocation cursor survives nng_fini (the code); TRUE: defect, for the invariant

VARIABLES next,     \* next[k]: abstract allocation cursor of kind k
          live,     \* live[k]: ids of live objects, in creation order
          ever,     \* ever[k]: every id handed out so far                                                    (ghost)
          cycles, lastAct
vars == <<next, live, ever, cycles, lastAct>>

Init == /\ next = [k \in Kinds |-> 1] /\ live = [k \in Kinds |-> <<>>] /\ ever = [k \in Kinds |-> {}] /\ cycles = 0
        /\ lastAct = [a |-> "init"]

\* contexts, dialers and listeners belong to the first live socket
NeedsSock(k) == k # "sock"
Open(k) ==
  /\ Len(live[k]) < MaxOpen /\ next[k] <= MaxIssued /\ (NeedsSock(k) => live["sock"] # <<>>)
  /\ live' = [live EXCEPT ![k] = Append(@, next[k])] /\ ever' = [ever EXCEPT ![k] = @ \cup {next[k]}]
  /\ next' = [next EXCEPT ![k] = @ + 1]
  /\ lastAct' = [a |-> "open", kind |-> k, out |-> [rv |-> "ok", fresh |-> next[k] \notin ever[k], inrange |-> TRUE, unique |-> TRUE]]
  /\ UNCHANGED cycles
\* close the i-th live object of kind k (the first socket only when nothing hangs on it)
Close(k, i) ==
  /\ i \in 1..Len(live[k])
  /\ (k = "sock" /\ i = 1) => \A j \in Kinds \ {"sock"} : live[j] = <<>>
  /\ live' = [live EXCEPT ![k] = SubSeq(@, 1, i - 1) \o SubSeq(@, i + 1, Len(@))]
  /\ lastAct' = [a |-> "close", kind |-> k, i |-> i, out |-> [rv |-> "ok", stale |-> "refused"]]
  /\ UNCHANGED <<next, ever, cycles>>
\* nng_fini followed by nng_init (everything closed first)
Cycle ==
  /\ \A k \in Kinds : live[k] = <<>>
  /\ cycles < 2 /\ cycles' = cycles + 1
  /\ next' = IF ResetOnCycle THEN [k \in Kinds |-> 1] ELSE next
  /\ lastAct' = [a |-> "cycle", out |-> [rv |-> "ok"]]
  /\ UNCHANGED <<live, ever>>

Next == Cycle \/ \E k \in Kinds : Open(k) \/ \E i \in 1..MaxOpen : Close(k, i)
Spec == Init /\ [][Next]_vars

SeqSet(q) == {q[i] : i \in 1..Len(q)}
\* C18: live ids are distinct, and an id is never handed out twice
UniqueLive == \A k \in Kinds : Cardinality(SeqSet(live[k])) = Len(live[k])
NeverReissued == [][\A k \in Kinds : lastAct'.a = "open" /\ lastAct'.kind = k => lastAct'.out.fresh]_vars
FreshInv == lastAct.a = "open" => lastAct.out.fresh

SId == <<next, live, ever, cycles>>
Obs == [nlive |-> [k \in Kinds |-> Len(live[k])]]
FinV == 0
ExportEdge == PrintT(<<"E", ToJson([s |-> SId, sa |-> lastAct, d |-> SId', act |-> lastAct', obs |-> Obs', fin |-> FinV'])>>)
View == SId
=====================================================================
