SPECIFICATION Spec
CONSTANTS Kinds = {"sock", "ctx", "dialer", "listener"}
          MaxOpen = 2
          MaxIssued = 4
          ResetOnCycle = TRUE
INVARIANTS UniqueLive FreshInv
VIEW View
