SPECIFICATION Spec
CONSTANTS Kinds = {"sock", "ctx", "dialer", "listener"}
          MaxOpen = 2
          MaxIssued = 3
          ResetOnCycle = FALSE
INVARIANTS UniqueLive FreshInv
ACTION_CONSTRAINT ExportEdge
VIEW View
