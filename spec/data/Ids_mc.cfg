SPECIFICATION Spec
CONSTANTS Kinds = {"sock", "ctx", "dialer", "listener"}
          MaxOpen = 2
          MaxIssued = 4
          ResetOnCycle = FALSE
INVARIANTS UniqueLive FreshInv
VIEW View
