---------------------------- MODULE Lmq ----------------------------
(* nni_lmq (src/core/lmq.c): the light-weight message queue behind the per-protocol
   send/receive buffers (PUSH wq, PAIR wmq/rmq, PUB per-pipe sendq, SUB ctx lmq, BUS,
   SURVEYOR recv_lmq).  C18: a bounded FIFO; resize keeps survivors in order, drops whole
   messages from one end, only as many as no longer fit.

   Two layers in one module:
     abstract        q, cap                      -- the meaning (a bounded FIFO)
     implementation  ring, get, put, len, alloc  -- transcription of lmq.c, action for action
   TLC checks that the implementation layer refines the abstract one and never indexes
   outside its ring.  The edge cover of this graph (which contains every ring offset for the
   bounded capacities) is replayed on the real nni_lmq_* functions by harness/drv_data.c. *)
EXTENDS Naturals, Sequences, TLC, Json

CONSTANTS MaxCap,        \* capacities 0..MaxCap
          MaxMsgs,       \* fresh message numbers 1..MaxMsgs
          FixedResize    \* TRUE: lmq_put = len & mask (repaired code); FALSE: lmq_put = len (defect, selftest)

VARIABLES q, cap,                      \* abstract
          ring, get, put, len, alloc,  \* implementation (alloc = number of slots; mask = alloc-1)
          nextMsg, lastAct

vars == <<q, cap, ring, get, put, len, alloc, nextMsg, lastAct>>

Pow2Ge(c) == CHOOSE a \in {2, 4, 8, 16} : a >= c /\ \A b \in {2, 4, 8, 16} : b >= c => a <= b
MaxAlloc == 16

\* nni_lmq_init(cap): cap <= 2 uses the inline 2-slot buffer, larger goes through resize
Init == /\ \E c \in 0..MaxCap :
             /\ cap = c
             /\ alloc = IF c > 2 THEN Pow2Ge(c) ELSE 2
        /\ q = <<>> /\ get = 0 /\ put = 0 /\ len = 0
        /\ ring = [i \in 0..(MaxAlloc-1) |-> 0]
        /\ nextMsg = 1
        /\ lastAct = [a |-> "init", cap |-> cap]

\* the sequence stored in the ring, read the way nni_lmq_get would read it
RingSeq == [i \in 1..len |-> ring[(get + i - 1) % alloc]]

Put == /\ nextMsg <= MaxMsgs
       /\ IF len >= cap
            THEN /\ lastAct' = [a |-> "put", m |-> nextMsg, out |-> [rv |-> "eagain"]]
                 /\ UNCHANGED <<q, ring, put, len>>
            ELSE /\ ring' = [ring EXCEPT ![put] = nextMsg]
                 /\ put' = (put + 1) % alloc
                 /\ len' = len + 1
                 /\ q' = Append(q, nextMsg)
                 /\ lastAct' = [a |-> "put", m |-> nextMsg, out |-> [rv |-> "ok"]]
       /\ nextMsg' = nextMsg + 1
       /\ UNCHANGED <<cap, get, alloc>>

Get == /\ IF len = 0
            THEN /\ lastAct' = [a |-> "get", out |-> [rv |-> "eagain", m |-> 0]]
                 /\ UNCHANGED <<q, get, len>>
            ELSE /\ get' = (get + 1) % alloc
                 /\ len' = len - 1
                 /\ q' = Tail(q)
                 /\ lastAct' = [a |-> "get", out |-> [rv |-> "ok", m |-> ring[get]]]
       /\ UNCHANGED <<cap, ring, put, alloc, nextMsg>>

Flush == /\ len > 0
         /\ get' = (get + len) % alloc
         /\ len' = 0 /\ q' = <<>>
         /\ lastAct' = [a |-> "flush", out |-> [rv |-> "ok"]]
         /\ UNCHANGED <<cap, ring, put, alloc, nextMsg>>

\* nni_lmq_resize(c): new ring of Pow2Ge(c) slots, first min(len,c) messages kept, rest freed
Resize(c) ==
  LET na   == Pow2Ge(c)
      keep == IF len < c THEN len ELSE c
  IN /\ ring' = [i \in 0..(MaxAlloc-1) |-> IF i < keep THEN ring[(get + i) % alloc] ELSE 0]
     /\ alloc' = na
     /\ cap' = c
     /\ len' = keep
     /\ get' = 0
     /\ put' = IF FixedResize THEN keep % na ELSE keep
     /\ q' = SubSeq(q, 1, keep)
     /\ lastAct' = [a |-> "resize", c |-> c, out |-> [rv |-> "ok"]]
     /\ UNCHANGED nextMsg

Next == Put \/ Get \/ Flush \/ \E c \in 0..MaxCap : Resize(c)
Spec == Init /\ [][Next]_vars

\* ---------------- properties ----------------
TypeOK == len \in 0..MaxAlloc /\ cap \in 0..MaxCap
IndexInRange == get < alloc /\ put < alloc        \* every ring access stays inside the allocation
Bounded == Len(q) <= cap /\ len <= alloc
Refines == len = Len(q) /\ RingSeq = q            \* the ring holds exactly the abstract FIFO, in order
NoDup == \A i, j \in 1..Len(q) : i # j => q[i] # q[j]
\* resize keeps a prefix (survivors in order, dropped from the tail only, only what no longer fits)
ResizeKeepsPrefix ==
  [][lastAct'.a = "resize" =>
        /\ Len(q') = (IF Len(q) < cap' THEN Len(q) ELSE cap')
        /\ q' = SubSeq(q, 1, Len(q'))]_vars

\* ---------------- export for the conformance binding ----------------
SId == <<q, cap, ring, get, put, len, alloc, nextMsg>>
Obs == [len |-> Len(q), cap |-> cap, full |-> (Len(q) >= cap), empty |-> (Len(q) = 0)]
Fin == q   \* what a destructive drain at the end of a walk must return
ExportEdge == PrintT(<<"E", ToJson([s |-> SId, sa |-> lastAct, d |-> SId', act |-> lastAct', obs |-> Obs', fin |-> Fin'])>>)
View == SId
=====================================================================
