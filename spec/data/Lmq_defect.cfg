SPECIFICATION Spec
CONSTANTS MaxCap = 3
          MaxMsgs = 4
          FixedResize = FALSE
INVARIANTS IndexInRange
VIEW View
