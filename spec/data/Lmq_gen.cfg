SPECIFICATION Spec
CONSTANTS MaxCap = 4
          MaxMsgs = 5
          FixedResize = TRUE
INVARIANTS IndexInRange Refines
ACTION_CONSTRAINT ExportEdge
VIEW View
