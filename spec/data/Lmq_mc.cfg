SPECIFICATION Spec
CONSTANTS MaxCap = 5
          MaxMsgs = 7
          FixedResize = TRUE
INVARIANTS TypeOK IndexInRange Bounded Refines NoDup
PROPERTY ResizeKeepsPrefix
VIEW View
