---------------------------- MODULE Msg ----------------------------
(* nng_msg (src/core/message.c + the nng_msg_* wrappers in src/nng.c).   C17.

   abstract        hdr, body        : two byte strings, run-length encoded  << <<tag,n>>, ... >>
   implementation  cap, off, len, buf, hlen : nni_chunk geometry and buffer content, transcribed
                                     from nni_chunk_grow / insert / append / trim / chop / dup and
                                     nni_msg_alloc; buf is the RLE content of the backing store
                                     (tag 0 = bytes whose value is unspecified).
   TLC checks: the chunk refines the string (content at [off, off+len) = body), every
   memcpy/memmove range lies inside [0, cap), capacity >= length, header <= 64.
   The edge cover of the graph (it contains the chunk geometry, so it walks every growth /
   headroom / slack-split path) is replayed on the public nng_msg_* API by harness/drv_data.c. *)
EXTENDS Naturals, Sequences, TLC, Json

CONSTANTS InitSizes,     \* sizes for nng_msg_alloc
          ArgSizes,      \* size arguments of append/insert/trim/chop/realloc/reserve
          HdrSizes,      \* size arguments of the header operations
          MaxOps,        \* operations per behaviour
          FixedInsert    \* TRUE: slack-split insert moves old data behind the new (repaired); FALSE: defect

VARIABLES hdr, body,                 \* abstract
          cap, off, len, buf,        \* implementation: chunk
          nops, tag, lastAct, bad    \* bad: a memcpy/memmove left the buffer (ghost)

vars == <<hdr, body, cap, off, len, buf, nops, tag, lastAct, bad>>

HdrCap == 64

\* ---------------- run-length encoded byte strings ----------------
RECURSIVE RLen(_), RTrim(_, _), RChop(_, _)
RLen(r) == IF r = <<>> THEN 0 ELSE Head(r)[2] + RLen(Tail(r))
\* (accumulator form: a LET-bound recursive call referenced several times is re-evaluated by TLC
\*  at every reference, which is exponential)
RECURSIVE NormAcc(_, _)
NormAcc(acc, r) ==
  IF r = <<>> THEN acc
  ELSE IF Head(r)[2] = 0 THEN NormAcc(acc, Tail(r))
  ELSE IF acc # <<>> /\ acc[Len(acc)][1] = Head(r)[1]
    THEN NormAcc([acc EXCEPT ![Len(acc)] = <<@[1], @[2] + Head(r)[2]>>], Tail(r))
    ELSE NormAcc(Append(acc, Head(r)), Tail(r))
Norm(r) == NormAcc(<<>>, r)
RTrim(r, n) == IF n = 0 \/ r = <<>> THEN r       \* drop n bytes from the front
               ELSE IF Head(r)[2] <= n THEN RTrim(Tail(r), n - Head(r)[2])
               ELSE <<<<Head(r)[1], Head(r)[2] - n>>>> \o Tail(r)
RChop(r, n) == IF n = 0 \/ r = <<>> THEN r       \* drop n bytes from the end
               ELSE LET l == r[Len(r)] IN
                    IF l[2] <= n THEN RChop(SubSeq(r, 1, Len(r) - 1), n - l[2])
                    ELSE SubSeq(r, 1, Len(r) - 1) \o <<<<l[1], l[2] - n>>>>
RTake(r, n) == RChop(r, RLen(r) - n)               \* first n bytes
RSub(r, o, n) == Norm(RTake(RTrim(r, o), n))       \* n bytes from offset o
Run(t, n) == IF n = 0 THEN <<>> ELSE <<<<t, n>>>>
Cat(a, b) == Norm(a \o b)
\* k consecutive tags t, t+1, .. (an integer written big-endian: distinct bytes)
RECURSIVE Ramp(_, _)
Ramp(t, k) == IF k = 0 THEN <<>> ELSE <<<<t, 1>>>> \o Ramp(t + 1, k - 1)
\* the tags of the first / last k bytes as a sequence (value read back by trim_uN / chop_uN)
RECURSIVE Bytes(_)
Bytes(r) == IF r = <<>> THEN <<>>
            ELSE IF Head(r)[2] = 1 THEN <<Head(r)[1]>> \o Bytes(Tail(r))
            ELSE <<Head(r)[1]>> \o Bytes(<<<<Head(r)[1], Head(r)[2] - 1>>>> \o Tail(r))

\* buffer write:  memcpy(buf + o, src, |src|);  out of range => bad
InRange(o, n) == o + n <= cap
Write(b, o, src) == Cat(Cat(RTake(b, o), src), RTrim(b, o + RLen(src)))

\* ---------------- nni_chunk_grow(newsz, headwanted) : [cap, off, buf] ----------------
\* (the pointer is always valid after nng_msg_alloc; the "no pointer yet" branch is in Alloc)
Grow(newsz0, head0) ==
  LET newsz1 == IF newsz0 < len THEN len ELSE newsz0
      headw  == IF head0 < off THEN off ELSE head0
  IN IF newsz1 + headw <= cap /\ headw <= off
       THEN [cap |-> cap, off |-> off, buf |-> buf, realloc |-> FALSE]
       ELSE LET newsz2 == IF newsz1 < cap - off THEN cap - off ELSE newsz1
                asz    == newsz2 + headw
            IN [cap |-> asz, off |-> headw,
                buf |-> Cat(Cat(Run(0, headw), RSub(buf, off, len)), Run(0, asz - headw - len)),
                realloc |-> TRUE]

NextTag == IF tag + 8 > 120 THEN 1 ELSE tag + 8
Step(a) == /\ nops < MaxOps /\ nops' = nops + 1 /\ tag' = NextTag /\ lastAct' = a

\* nni_msg_alloc(sz)
Init == \E sz \in InitSizes :
          LET hr == (sz < 1024) \/ ~(sz \in {1024, 2048, 4096, 8192})   \* not (>= 1024 and a power of two)
              c  == IF hr THEN sz + 64 ELSE sz
              o  == IF hr THEN 32 ELSE 0
          IN /\ cap = c /\ off = o /\ len = sz
             /\ buf = Cat(Cat(Run(0, o), Run(1, sz)), Run(0, c - o - sz))
             /\ body = Run(1, sz) /\ hdr = <<>>
             /\ nops = 0 /\ tag = 9 /\ bad = FALSE
             /\ lastAct = [a |-> "init", sz |-> sz, t |-> 1]

\* ---------------- body operations ----------------
\* nni_chunk_append(data, n) (n = 0 returns at once)
AppendRuns(src, name, n) ==
  /\ Step([a |-> name, n |-> n, t |-> tag, out |-> [rv |-> "ok"]])
  /\ IF n = 0 THEN UNCHANGED <<cap, off, len, buf, body, bad>>
     ELSE LET g == Grow(len + n, 0) IN
          /\ cap' = g.cap /\ off' = g.off
          /\ bad' = (bad \/ g.off + len + n > g.cap)
          /\ buf' = Write(g.buf, g.off + len, src)
          /\ len' = len + n
          /\ body' = Cat(body, src)
  /\ UNCHANGED hdr

\* nni_chunk_insert(data, n)
InsertRuns(src, name, n) ==
  /\ Step([a |-> name, n |-> n, t |-> tag, out |-> [rv |-> "ok"]])
  /\ LET needed == len + n IN
     IF n <= off THEN                       \* enough headroom
          /\ off' = off - n /\ cap' = cap
          /\ buf' = Write(buf, off - n, src)
          /\ bad' = bad
     ELSE IF needed + 8 <= cap THEN         \* slack split
          LET sh0 == (cap - needed) \div 2
              sh  == ((sh0 + 7) \div 8) * 8
              old == RSub(buf, off, len)
              b1  == IF FixedInsert THEN Write(buf, sh + n, old) ELSE Write(buf, sh, old)
          IN /\ off' = sh /\ cap' = cap
             /\ buf' = Write(b1, sh, src)
             /\ bad' = (bad \/ sh + needed > cap)
     ELSE LET g == Grow(0, n) IN            \* regrow with headroom n
          /\ cap' = g.cap /\ off' = g.off - n
          /\ buf' = Write(g.buf, g.off - n, src)
          /\ bad' = (bad \/ g.off < n)
  /\ len' = len + n
  /\ body' = Cat(src, body)
  /\ UNCHANGED hdr

MAppend(n)   == AppendRuns(Run(tag, n), "append", n)
MInsert(n)   == InsertRuns(Run(tag, n), "insert", n)
AppendU(k)   == AppendRuns(Ramp(tag, k), "append_u", k)     \* k \in {2,4,8}: u16/u32/u64
InsertU(k)   == InsertRuns(Ramp(tag, k), "insert_u", k)

Trim(n) == /\ IF len < n
                THEN /\ Step([a |-> "trim", n |-> n, out |-> [rv |-> "einval"]])
                     /\ UNCHANGED <<off, len, body>>
                ELSE /\ Step([a |-> "trim", n |-> n, out |-> [rv |-> "ok"]])
                     /\ len' = len - n
                     /\ off' = IF len - n # 0 THEN off + n ELSE off
                     /\ body' = RTrim(body, n)
           /\ UNCHANGED <<cap, buf, hdr, bad>>
Chop(n) == /\ IF len < n
                THEN /\ Step([a |-> "chop", n |-> n, out |-> [rv |-> "einval"]])
                     /\ UNCHANGED <<len, body>>
                ELSE /\ Step([a |-> "chop", n |-> n, out |-> [rv |-> "ok"]])
                     /\ len' = len - n
                     /\ body' = RChop(body, n)
           /\ UNCHANGED <<cap, off, buf, hdr, bad>>
TrimU(k) == /\ IF len < k
                 THEN /\ Step([a |-> "trim_u", n |-> k, out |-> [rv |-> "einval", v |-> <<>>]])
                      /\ UNCHANGED <<off, len, body>>
                 ELSE /\ Step([a |-> "trim_u", n |-> k, out |-> [rv |-> "ok", v |-> Bytes(RTake(body, k))]])
                      /\ len' = len - k
                      /\ off' = IF len - k # 0 THEN off + k ELSE off
                      /\ body' = RTrim(body, k)
            /\ UNCHANGED <<cap, buf, hdr, bad>>
ChopU(k) == /\ IF len < k
                 THEN /\ Step([a |-> "chop_u", n |-> k, out |-> [rv |-> "einval", v |-> <<>>]])
                      /\ UNCHANGED <<len, body>>
                 ELSE /\ Step([a |-> "chop_u", n |-> k, out |-> [rv |-> "ok", v |-> Bytes(RTrim(body, len - k))]])
                      /\ len' = len - k
                      /\ body' = RChop(body, k)
            /\ UNCHANGED <<cap, off, buf, hdr, bad>>
\* nni_msg_realloc(sz): grow = append of unspecified bytes (the driver then fills them with tag), shrink = chop
Realloc(sz) ==
  /\ Step([a |-> "realloc", n |-> sz, t |-> tag, out |-> [rv |-> "ok"]])
  /\ IF len < sz
       THEN LET g == Grow(sz, 0) IN
            /\ cap' = g.cap /\ off' = g.off
            /\ bad' = (bad \/ g.off + sz > g.cap)
            /\ buf' = Write(g.buf, g.off + len, Run(tag, sz - len))
            /\ len' = sz
            /\ body' = Cat(body, Run(tag, sz - len))
       ELSE /\ len' = sz /\ body' = RTake(body, sz)
            /\ UNCHANGED <<cap, off, buf, bad>>
  /\ UNCHANGED hdr
Reserve(c) ==
  /\ Step([a |-> "reserve", n |-> c, out |-> [rv |-> "ok"]])
  /\ LET g == Grow(c, 0) IN cap' = g.cap /\ off' = g.off /\ buf' = g.buf
  /\ UNCHANGED <<len, body, hdr, bad>>
Clear == /\ Step([a |-> "clear", out |-> [rv |-> "ok"]])
         /\ len' = 0 /\ body' = <<>>
         /\ UNCHANGED <<cap, off, buf, hdr, bad>>
\* nni_msg_dup: same capacity, headroom and content; the driver mutates and frees the original and
\* carries on with the duplicate (independence)
Dup == /\ Step([a |-> "dup", out |-> [rv |-> "ok"]])
       /\ buf' = Cat(Cat(Run(0, off), RSub(buf, off, len)), Run(0, cap - off - len))
       /\ UNCHANGED <<cap, off, len, body, hdr, bad>>

\* ---------------- header operations (fixed 64-byte area) ----------------
HLen == RLen(hdr)
HAppendRuns(src, name, n) ==
  /\ IF n + HLen > HdrCap
       THEN Step([a |-> name, n |-> n, t |-> tag, out |-> [rv |-> "einval"]]) /\ UNCHANGED hdr
       ELSE Step([a |-> name, n |-> n, t |-> tag, out |-> [rv |-> "ok"]]) /\ hdr' = Cat(hdr, src)
  /\ UNCHANGED <<cap, off, len, buf, body, bad>>
HInsertRuns(src, name, n) ==
  /\ IF n + HLen > HdrCap
       THEN Step([a |-> name, n |-> n, t |-> tag, out |-> [rv |-> "einval"]]) /\ UNCHANGED hdr
       ELSE Step([a |-> name, n |-> n, t |-> tag, out |-> [rv |-> "ok"]]) /\ hdr' = Cat(src, hdr)
  /\ UNCHANGED <<cap, off, len, buf, body, bad>>
HAppend(n)  == HAppendRuns(Run(tag, n), "h_append", n)
HInsert(n)  == HInsertRuns(Run(tag, n), "h_insert", n)
HAppendU(k) == HAppendRuns(Ramp(tag, k), "h_append_u", k)
HInsertU(k) == HInsertRuns(Ramp(tag, k), "h_insert_u", k)
HTrim(n) == /\ IF n > HLen THEN Step([a |-> "h_trim", n |-> n, out |-> [rv |-> "einval"]]) /\ UNCHANGED hdr
                           ELSE Step([a |-> "h_trim", n |-> n, out |-> [rv |-> "ok"]]) /\ hdr' = RTrim(hdr, n)
            /\ UNCHANGED <<cap, off, len, buf, body, bad>>
HChop(n) == /\ IF n > HLen THEN Step([a |-> "h_chop", n |-> n, out |-> [rv |-> "einval"]]) /\ UNCHANGED hdr
                           ELSE Step([a |-> "h_chop", n |-> n, out |-> [rv |-> "ok"]]) /\ hdr' = RChop(hdr, n)
            /\ UNCHANGED <<cap, off, len, buf, body, bad>>
HTrimU(k) == /\ IF HLen < k THEN Step([a |-> "h_trim_u", n |-> k, out |-> [rv |-> "einval", v |-> <<>>]]) /\ UNCHANGED hdr
                            ELSE Step([a |-> "h_trim_u", n |-> k, out |-> [rv |-> "ok", v |-> Bytes(RTake(hdr, k))]])
                                 /\ hdr' = RTrim(hdr, k)
             /\ UNCHANGED <<cap, off, len, buf, body, bad>>
HChopU(k) == /\ IF HLen < k THEN Step([a |-> "h_chop_u", n |-> k, out |-> [rv |-> "einval", v |-> <<>>]]) /\ UNCHANGED hdr
                            ELSE Step([a |-> "h_chop_u", n |-> k, out |-> [rv |-> "ok", v |-> Bytes(RTrim(hdr, HLen - k))]])
                                 /\ hdr' = RChop(hdr, k)
             /\ UNCHANGED <<cap, off, len, buf, body, bad>>
HClear == /\ Step([a |-> "h_clear", out |-> [rv |-> "ok"]]) /\ hdr' = <<>>
          /\ UNCHANGED <<cap, off, len, buf, body, bad>>

BodyNext == \/ \E n \in ArgSizes : MAppend(n) \/ MInsert(n) \/ Trim(n) \/ Chop(n) \/ Realloc(n) \/ Reserve(n)
            \/ \E k \in {2, 4, 8} : AppendU(k) \/ InsertU(k) \/ TrimU(k) \/ ChopU(k)
            \/ Clear \/ Dup
HdrNext == \/ \E n \in HdrSizes : HAppend(n) \/ HInsert(n) \/ HTrim(n) \/ HChop(n)
           \/ \E k \in {2, 4, 8} : HAppendU(k) \/ HInsertU(k) \/ HTrimU(k) \/ HChopU(k)
           \/ HClear
Next == BodyNext \/ HdrNext
Spec == Init /\ [][Next]_vars

\* ---------------- properties ----------------
InBounds   == ~bad /\ off + len <= cap /\ RLen(buf) = cap      \* never reads/writes outside storage
Refines    == len = RLen(body) /\ RSub(buf, off, len) = Norm(body)
CapGeLen   == cap - off >= len                                  \* nng_msg_capacity >= nng_msg_len
HdrBounded == RLen(hdr) <= HdrCap

\* ---------------- export ----------------
SId == <<hdr, body, cap, off, len, buf, nops, tag>>
Obs == [len |-> RLen(body), hlen |-> RLen(hdr), body |-> Norm(body), hdr |-> Norm(hdr), capok |-> TRUE]
Fin == 0
ExportEdge == PrintT(<<"E", ToJson([s |-> SId, sa |-> lastAct, d |-> SId', act |-> lastAct', obs |-> Obs', fin |-> Fin'])>>)
View == <<hdr, body, cap, off, len, buf, nops, tag>>
=====================================================================
