SPECIFICATION Spec
CONSTANTS InitSizes = {0, 8}
          ArgSizes = {0, 8, 33, 40}
          HdrSizes = {0}
          MaxOps = 2
          FixedInsert = FALSE
INVARIANTS InBounds Refines CapGeLen HdrBounded
VIEW View
