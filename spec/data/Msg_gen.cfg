SPECIFICATION Spec
CONSTANTS InitSizes = {0, 8, 33, 1024}
          ArgSizes = {0, 1, 8, 33, 40, 1024}
          HdrSizes = {0, 4, 60, 65}
          MaxOps = 2
          FixedInsert = TRUE
INVARIANTS InBounds Refines CapGeLen HdrBounded
ACTION_CONSTRAINT ExportEdge
VIEW View
