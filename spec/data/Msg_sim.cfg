SPECIFICATION Spec
CONSTANTS InitSizes = {0, 1, 31, 32, 33, 1023, 1024, 2048}
          ArgSizes = {0, 1, 4, 8, 31, 32, 33, 64, 1024}
          HdrSizes = {0, 1, 4, 60, 64, 65}
          MaxOps = 12
          FixedInsert = TRUE
INVARIANTS InBounds Refines CapGeLen HdrBounded
ACTION_CONSTRAINT ExportEdge
