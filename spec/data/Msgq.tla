---------------------------- MODULE Msgq ----------------------------
(* nni_msgq (src/core/msgqueue.c): the socket-level upper read/write queues of raw sockets
   (s_urq / s_uwq, resized through NNG_OPT_RECVBUF / NNG_OPT_SENDBUF) and the per-pipe send
   queues of xrep/xrespond/xsurvey/pair1-poly.    C18 (queue part), also used by C15 (pollables).

   abstract        q, cap, putq, getq, closed, ops     (ops[i] = the i-th asynchronous operation)
   implementation  ring, get, put, len, alloc           (alloc = cap + 2 at creation / growth)
   One action per critical section (mq_lock). *)
EXTENDS Naturals, Sequences, TLC, Json

CONSTANTS MaxCap, MaxOps, MaxMsgs,
          MaxPend,        \* asynchronous operations pending at the same time
          FixedWrap,      \* TRUE: resize wraps mq_get with >= (repaired); FALSE: > (defect: index = alloc)
          ResizeRuns,     \* TRUE: resize serves the waiting putters/getters and refreshes the pollables (repaired); FALSE: it does neither
          GetRefills,     \* TRUE: a get that frees a slot lets the first waiting putter in (repaired); FALSE: the putter keeps waiting
          NbReady         \* TRUE: a zero-timeout (non-blocking) put/get that can complete at once does (repaired); FALSE: always NNG_ETIMEDOUT

VARIABLES q, cap, putq, getq, closed,
          ops,      \* ops[i] = [k, m, st]; completed operations are reported in lastAct.out.done and then
                    \* forgotten (st = "gone") so that histories do not multiply states
          ring, get, put, len, alloc,
          nextMsg, lastAct

vars == <<q, cap, putq, getq, closed, ops, ring, get, put, len, alloc, nextMsg, lastAct>>
MaxAlloc == MaxCap + 2

Init == /\ \E c \in 0..MaxCap : cap = c /\ alloc = c + 2
        /\ q = <<>> /\ putq = <<>> /\ getq = <<>> /\ closed = FALSE /\ ops = <<>>
        /\ ring = [i \in 0..MaxAlloc |-> 0] /\ get = 0 /\ put = 0 /\ len = 0
        /\ nextMsg = 1
        /\ lastAct = [a |-> "init", cap |-> cap]

\* ---- the state that run_putq / run_getq / tryput work on, as a record ----
S0 == [q |-> q, ring |-> ring, get |-> get, put |-> put, len |-> len, putq |-> putq, getq |-> getq, ops |-> ops, cap |-> cap, alloc |-> alloc]
Enq(S, m) == [S EXCEPT !.q = Append(@, m), !.ring = [@ EXCEPT ![S.put] = m],
                       !.put = IF S.put + 1 = S.alloc THEN 0 ELSE S.put + 1, !.len = @ + 1]
Deq(S) == [S EXCEPT !.q = Tail(@), !.ring = [@ EXCEPT ![S.get] = 0], !.get = IF S.get + 1 = S.alloc THEN 0 ELSE S.get + 1, !.len = @ - 1]
Done(S, i, st, m) == [S EXCEPT !.ops = [@ EXCEPT ![i] = [k |-> @.k, m |-> m, st |-> st]]]

RECURSIVE RunPutq(_), RunGetq(_)
RunPutq(S) ==
  IF S.putq = <<>> THEN S
  ELSE LET w == Head(S.putq)  m == S.ops[w].m IN
       IF S.getq # <<>>
         THEN LET r == Head(S.getq) IN
              RunPutq(Done(Done([S EXCEPT !.putq = Tail(@), !.getq = Tail(@)], r, "ok", m), w, "ok", m))
       ELSE IF S.len < S.cap
         THEN RunPutq(Done(Enq([S EXCEPT !.putq = Tail(@)], m), w, "ok", m))
       ELSE S
RunGetq(S) ==
  IF S.getq = <<>> THEN S
  ELSE LET r == Head(S.getq) IN
       IF S.len # 0
         THEN RunGetq(Done(Deq([S EXCEPT !.getq = Tail(@)]), r, "ok", S.ring[S.get]))
       ELSE IF S.putq # <<>>
         THEN LET w == Head(S.putq)  m == S.ops[w].m IN
              RunGetq(Done(Done([S EXCEPT !.putq = Tail(@), !.getq = Tail(@)], w, "ok", m), r, "ok", m))
       ELSE S

\* completions of this step, in operation order; afterwards they are forgotten
DoneSeq(o) == LET RECURSIVE F(_)
                  F(i) == IF i > Len(o) THEN <<>>
                          ELSE IF o[i].st \in {"pend", "gone"} THEN F(i + 1)
                          ELSE <<[i |-> i, k |-> o[i].k, m |-> o[i].m, st |-> o[i].st]>> \o F(i + 1)
              IN F(1)
Forget(o) == [i \in 1..Len(o) |-> IF o[i].st = "pend" THEN o[i] ELSE [k |-> "x", m |-> 0, st |-> "gone"]]
Apply(S) == /\ q' = S.q /\ ring' = S.ring /\ get' = S.get /\ put' = S.put /\ len' = S.len
            /\ putq' = S.putq /\ getq' = S.getq /\ ops' = Forget(S.ops)

NOps == Len(ops)
NPend == Len(putq) + Len(getq)

\* nni_msgq_aio_put (closed is not checked by the code: the operation then just queues or completes)
AioPut == /\ NOps < MaxOps /\ NPend < MaxPend /\ nextMsg <= MaxMsgs
          /\ LET i == NOps + 1
                 S == [S0 EXCEPT !.ops = Append(@, [k |-> "put", m |-> nextMsg, st |-> "pend"]), !.putq = Append(@, i)]
             IN /\ Apply(RunPutq(S))
                /\ lastAct' = [a |-> "aio_put", m |-> nextMsg, out |-> [done |-> DoneSeq(RunPutq(S).ops)]]
          /\ nextMsg' = nextMsg + 1
          /\ UNCHANGED <<cap, alloc, closed>>
AioGet == /\ NOps < MaxOps /\ NPend < MaxPend
          /\ LET i == NOps + 1
                 S == [S0 EXCEPT !.ops = Append(@, [k |-> "get", m |-> 0, st |-> "pend"]), !.getq = Append(@, i)]
                R == IF GetRefills THEN RunPutq(RunGetq(S)) ELSE RunGetq(S)
             IN /\ Apply(R)
                /\ lastAct' = [a |-> "aio_get", out |-> [done |-> DoneSeq(R.ops)]]
          /\ UNCHANGED <<cap, alloc, closed, nextMsg>>
TryPut == /\ nextMsg <= MaxMsgs
          /\ nextMsg' = nextMsg + 1
          /\ IF closed THEN /\ lastAct' = [a |-> "tryput", m |-> nextMsg, out |-> [rv |-> "eclosed", done |-> <<>>]]
                            /\ UNCHANGED <<q, ring, get, put, len, putq, getq, ops>>
             ELSE IF getq # <<>> THEN
                  /\ Apply(Done([S0 EXCEPT !.getq = Tail(@)], Head(getq), "ok", nextMsg))
                  /\ lastAct' = [a |-> "tryput", m |-> nextMsg, out |-> [rv |-> "ok", done |-> <<[i |-> Head(getq), k |-> "get", m |-> nextMsg, st |-> "ok"]>>]]
             ELSE IF len < cap THEN
                  /\ Apply(Enq(S0, nextMsg))
                  /\ lastAct' = [a |-> "tryput", m |-> nextMsg, out |-> [rv |-> "ok", done |-> <<>>]]
             ELSE /\ lastAct' = [a |-> "tryput", m |-> nextMsg, out |-> [rv |-> "eagain", done |-> <<>>]]
                  /\ UNCHANGED <<q, ring, get, put, len, putq, getq, ops>>
          /\ UNCHANGED <<cap, alloc, closed>>
\* A put / get with a zero timeout (NNG_FLAG_NONBLOCK on a raw socket): completes iff it can complete at once, otherwise fails
\* with NNG_ETIMEDOUT (reported as NNG_EAGAIN by nng_sendmsg / nng_recvmsg) and leaves the queue as it was.   (C15)
NbFail(k, m) == /\ ops' = Append(ops, [k |-> "x", m |-> 0, st |-> "gone"])
                /\ UNCHANGED <<q, ring, get, put, len, putq, getq>>
NbPut == /\ NOps < MaxOps /\ nextMsg <= MaxMsgs
         /\ LET i == NOps + 1
                S == [S0 EXCEPT !.ops = Append(@, [k |-> "put", m |-> nextMsg, st |-> "pend"]), !.putq = Append(@, i)]
                R == RunPutq(S)
            IN IF NbReady /\ R.ops[i].st = "ok"
                 THEN /\ Apply(R) /\ lastAct' = [a |-> "nb_put", m |-> nextMsg, out |-> [done |-> DoneSeq(R.ops)]]
                 ELSE /\ NbFail("put", nextMsg)
                      /\ lastAct' = [a |-> "nb_put", m |-> nextMsg, out |-> [done |-> <<[i |-> i, k |-> "put", m |-> nextMsg, st |-> "etimedout"]>>]]
         /\ nextMsg' = nextMsg + 1
         /\ UNCHANGED <<cap, alloc, closed>>
NbGet == /\ NOps < MaxOps
         /\ LET i == NOps + 1
                S == [S0 EXCEPT !.ops = Append(@, [k |-> "get", m |-> 0, st |-> "pend"]), !.getq = Append(@, i)]
                R == IF GetRefills THEN RunPutq(RunGetq(S)) ELSE RunGetq(S)
            IN IF NbReady /\ R.ops[i].st = "ok"
                 THEN /\ Apply(R) /\ lastAct' = [a |-> "nb_get", out |-> [done |-> DoneSeq(R.ops)]]
                 ELSE /\ NbFail("get", 0)
                      /\ lastAct' = [a |-> "nb_get", out |-> [done |-> <<[i |-> i, k |-> "get", m |-> 0, st |-> "etimedout"]>>]]
         /\ UNCHANGED <<cap, alloc, closed, nextMsg>>
\* nni_msgq_cancel through nni_aio_abort(NNG_ECANCELED)
Cancel(i) == /\ i \in 1..NOps /\ ops[i].st = "pend"
             /\ ops' = [ops EXCEPT ![i] = [k |-> "x", m |-> 0, st |-> "gone"]]
             /\ putq' = SelectSeq(putq, LAMBDA x : x # i)
             /\ getq' = SelectSeq(getq, LAMBDA x : x # i)
             /\ lastAct' = [a |-> "cancel", i |-> i, out |-> [done |-> <<[i |-> i, k |-> ops[i].k, m |-> ops[i].m, st |-> "canceled"]>>]]
             /\ UNCHANGED <<q, cap, closed, ring, get, put, len, alloc, nextMsg>>
Close == /\ ~closed /\ closed' = TRUE
         /\ q' = <<>> /\ len' = 0 /\ get' = (get + len) % alloc
         /\ LET o2 == [i \in 1..NOps |-> IF ops[i].st = "pend" THEN [k |-> ops[i].k, m |-> ops[i].m, st |-> "closed"] ELSE ops[i]]
            IN ops' = Forget(o2) /\ lastAct' = [a |-> "close", out |-> [done |-> DoneSeq(o2)]]
         /\ putq' = <<>> /\ getq' = <<>>
         /\ UNCHANGED <<cap, ring, put, alloc, nextMsg>>

\* nni_msgq_resize(c): drop oldest while len > c+1; re-allocate only when growing
RECURSIVE DropTo(_, _)
DropTo(S, lim) == IF S.len <= lim THEN S
                  ELSE LET g1 == S.get + 1
                           g  == IF FixedWrap THEN (IF g1 >= alloc THEN 0 ELSE g1)
                                              ELSE (IF g1 > alloc THEN 0 ELSE g1)
                       IN DropTo([S EXCEPT !.q = Tail(@), !.get = g, !.len = @ - 1], lim)
Resize(c) ==
  LET D == DropTo(S0, c + 1)
      grow == c + 2 > alloc
      \* the queue after the (possible) re-allocation
      N == IF grow
             THEN [D EXCEPT !.ring = [i \in 0..MaxAlloc |-> IF i < D.len THEN D.ring[(D.get + i) % alloc] ELSE 0],
                            !.get = 0, !.put = IF D.len = c + 2 THEN 0 ELSE D.len, !.cap = c, !.alloc = c + 2]
             ELSE [D EXCEPT !.cap = c]
      \* "wake everyone up": the waiting putters and getters are served under the new capacity
      R == IF ResizeRuns THEN RunGetq(RunPutq(N)) ELSE N
  IN /\ cap' = c /\ alloc' = N.alloc
     /\ Apply(R)
     /\ lastAct' = [a |-> "resize", c |-> c, out |-> [rv |-> "ok", done |-> DoneSeq(R.ops)]]
     /\ UNCHANGED <<closed, nextMsg>>

Next == AioPut \/ AioGet \/ NbPut \/ NbGet \/ TryPut \/ Close \/ (\E i \in 1..MaxOps : Cancel(i)) \/ (\E c \in 0..MaxCap : Resize(c))
Spec == Init /\ [][Next]_vars

\* ---------------- properties ----------------
IndexInRange == get < alloc /\ put < alloc
RingSeq == [i \in 1..len |-> ring[(get + i - 1) % alloc]]
Refines == len = Len(q) /\ RingSeq = q
Bounded == Len(q) <= alloc /\ (lastAct.a # "resize" => Len(q) <= cap + 1)
NoDup == \A i, j \in 1..Len(q) : i # j => q[i] # q[j]
\* a getter never waits while data is buffered, a putter never waits while a getter does
NoLostWakeup == (getq # <<>> => len = 0 /\ putq = <<>>)
\* every message is in exactly one place: a completed get, the queue, a pending put, or dropped
\* a message handed to a getter in this step is no longer queued nor held by a pending putter
Delivered(a) == {a.out.done[i].m : i \in {j \in 1..Len(a.out.done) : a.out.done[j].k = "get" /\ a.out.done[j].st = "ok"}}
PendingPutMsgs == {ops[i].m : i \in {j \in 1..NOps : ops[j].k = "put" /\ ops[j].st = "pend"}}
NoDupDelivery == lastAct.a # "init" =>
                   /\ \A m \in Delivered(lastAct) : m \notin PendingPutMsgs /\ \A i \in 1..Len(q) : q[i] # m
                   /\ \A i, j \in 1..Len(lastAct.out.done) :
                        (i # j /\ lastAct.out.done[i].k = "get" /\ lastAct.out.done[j].k = "get"
                         /\ lastAct.out.done[i].st = "ok" /\ lastAct.out.done[j].st = "ok") => lastAct.out.done[i].m # lastAct.out.done[j].m
QueuedNotDelivered == \A i \in 1..Len(q) : q[i] \notin PendingPutMsgs
\* resize drops whole messages from the head only and only as many as no longer fit (one more than the capacity is tolerated);
\* the survivors stay in order in front of whatever the waiting putters add, and waiting getters are served from the head
GotMsgs(a) == LET d == a.out.done
                  RECURSIVE F(_)
                  F(i) == IF i > Len(d) THEN <<>> ELSE IF d[i].k = "get" /\ d[i].st = "ok" THEN <<d[i].m>> \o F(i + 1) ELSE F(i + 1)
              IN F(1)
ResizeKeepsSuffix ==
  [][lastAct'.a = "resize" =>
       LET dropped == IF Len(q) > cap' + 1 THEN Len(q) - (cap' + 1) ELSE 0
           surv == SubSeq(q, dropped + 1, Len(q))
           all == GotMsgs(lastAct') \o q'
       IN /\ Len(all) >= Len(surv)
          /\ SubSeq(all, 1, Len(surv)) = surv]_vars

\* C15 on the queue (raw sockets hand these two pollables out as their poll descriptors): readable iff a non-blocking get
\* would succeed, writable iff a non-blocking put would.  After close the descriptors no longer mean anything.
\* property level: what a non-blocking operation issued now would do
WouldPut == LET i == NOps + 1
                S == [S0 EXCEPT !.ops = Append(@, [k |-> "put", m |-> 0, st |-> "pend"]), !.putq = Append(@, i)]
            IN RunPutq(S).ops[i].st = "ok"
WouldGet == LET i == NOps + 1
                S == [S0 EXCEPT !.ops = Append(@, [k |-> "get", m |-> 0, st |-> "pend"]), !.getq = Append(@, i)]
            IN RunGetq(S).ops[i].st = "ok"
Pv(b) == IF closed THEN "0|1" ELSE IF b THEN "1" ELSE "0"
\* the rule nni_msgq_run_notify implements agrees with it in every reachable state (given the three repairs)
NotifyRuleOK == (GetRefills /\ ResizeRuns /\ ~closed) => /\ WouldGet = (len # 0 \/ putq # <<>>)
                                                         /\ WouldPut = (len < cap \/ getq # <<>>)
\* nobody waits without a reason: a putter only on a full queue without getters, a getter only on an empty one without putters
NoStaleWaiter == (GetRefills /\ ResizeRuns /\ ~closed) => /\ (putq # <<>> => len >= cap /\ getq = <<>>)
                                                          /\ (getq # <<>> => len = 0 /\ putq = <<>>)

\* ---------------- export ----------------
SId == <<q, cap, putq, getq, closed, ops, ring, get, put, len, alloc, nextMsg>>
Obs == [cap |-> cap, npend |-> Len(putq) + Len(getq), pollr |-> Pv(WouldGet), pollw |-> Pv(WouldPut)]
Fin == q
ExportEdge == PrintT(<<"E", ToJson([s |-> SId, sa |-> lastAct, d |-> SId', act |-> lastAct', obs |-> Obs', fin |-> Fin'])>>)
View == SId
=====================================================================
