SPECIFICATION Spec
CONSTANTS MaxCap = 3
          MaxOps = 3
          MaxPend = 3
          MaxMsgs = 6
          FixedWrap = FALSE
INVARIANTS IndexInRange
VIEW View
