SPECIFICATION Spec
CONSTANTS MaxCap = 3
          MaxOps = 3
          MaxPend = 3
          MaxMsgs = 6
          FixedWrap = FALSE
          ResizeRuns = TRUE
          GetRefills = TRUE
          NbReady = TRUE
INVARIANTS IndexInRange
VIEW View
