SPECIFICATION Spec
CONSTANTS MaxCap = 2
          MaxOps = 3
          MaxPend = 3
          MaxMsgs = 5
          FixedWrap = TRUE
          ResizeRuns = TRUE
          GetRefills = TRUE
          NbReady = TRUE
INVARIANTS IndexInRange Refines
ACTION_CONSTRAINT ExportEdge
VIEW View
