SPECIFICATION Spec
CONSTANTS MaxCap = 3
          MaxOps = 4
          MaxPend = 1
          MaxMsgs = 6
          FixedWrap = TRUE
          ResizeRuns = TRUE
          GetRefills = TRUE
          NbReady = TRUE
INVARIANTS IndexInRange Refines
ACTION_CONSTRAINT ExportEdge
VIEW View
