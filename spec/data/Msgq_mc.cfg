SPECIFICATION Spec
CONSTANTS MaxCap = 3
          MaxOps = 4
          MaxPend = 3
          MaxMsgs = 5
          FixedWrap = TRUE
INVARIANTS IndexInRange Refines Bounded NoDup NoLostWakeup NoDupDelivery QueuedNotDelivered
PROPERTY ResizeKeepsSuffix
VIEW View
