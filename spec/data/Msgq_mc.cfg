SPECIFICATION Spec
CONSTANTS MaxCap = 3
          MaxOps = 4
          MaxPend = 3
          MaxMsgs = 5
          FixedWrap = TRUE
          ResizeRuns = TRUE
          GetRefills = TRUE
          NbReady = TRUE
INVARIANTS IndexInRange Refines Bounded NoDup NoLostWakeup NoDupDelivery QueuedNotDelivered NoStaleWaiter NotifyRuleOK
PROPERTY ResizeKeepsSuffix
VIEW View
