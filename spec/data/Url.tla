---------------------------- MODULE Url ----------------------------
(* nng_url_parse / nng_url_sprintf / nng_url_clone (src/core/url.c).   C19.

   A functional specification over token sequences: a URL is
       scheme-token  separator-token  authority-token  path-atoms  query-token  fragment-token
   Accept(u) and the canonical components are defined from the RFC rules the property names
   (known scheme followed by "://", one optional userinfo, bracketed IPv6 literal, decimal port
   0..65535, "%HH" escapes, UTF-8 well-formedness per RFC 3629 table 3-7, unreserved escapes decoded,
   dot segments and duplicate slashes removed, host lower-cased).  Every state of the model is one
   input; TLC enumerates all of them (bounded token sequences) and exports the expected verdict; the
   driver harness/drv_url.c feeds the concrete string to the real parser and compares the verdict, every
   accessor, the sprintf->parse round trip and clone equality.

   Where the property leaves freedom the spec leaves freedom: a trailing "." / ".." segment may or may
   not leave a trailing slash (nng drops it, RFC 3986 5.2.4 keeps it), so Paths(u) is a SET. *)
EXTENDS Naturals, Sequences, FiniteSets, TLC, Json

CONSTANTS MaxAtoms,      \* path atoms per URL
          AtomSet,       \* names of the path atoms to use
          SchemeSet, SepSet, AuthSet, QuerySet, FragSet

VARIABLES u, lastAct
vars == <<u, lastAct>>

\* ---------------- tokens ----------------
KnownSchemes == {"http", "https", "tcp", "tcp4", "tcp6", "tls+tcp", "tls+tcp4", "tls+tcp6", "socket", "inproc",
                 "ipc", "unix", "abstract", "ws", "ws4", "ws6", "wss", "wss4", "wss6", "udp", "udp4", "udp6",
                 "dtls", "dtls4", "dtls6", "file", "mailto", "gopher", "ftp", "ssh", "git", "telnet", "irc", "imap", "imaps"}
\* schemes whose remainder is an opaque path (no authority, no canonicalisation)
OpaqueSchemes == {"socket", "inproc", "ipc", "unix", "abstract"}
DefaultPort(s) == CASE s \in {"http", "ws", "ws4", "ws6"} -> 80
                    [] s \in {"https", "wss", "wss4", "wss6"} -> 443
                    [] s = "git" -> 9418 [] s = "gopher" -> 70 [] s = "ssh" -> 22 [] s = "telnet" -> 23
                    [] OTHER -> 0

\* authority tokens: src text, validity, canonical host (bytes as a string), port (-1 = scheme default), userinfo
Auth(n) == CASE n = "host"      -> [src |-> "example.com", ok |-> TRUE, host |-> "example.com", port |-> 0 - 1, user |-> ""]
             [] n = "HOST"      -> [src |-> "EXAMPLE.Com", ok |-> TRUE, host |-> "example.com", port |-> 0 - 1, user |-> ""]
             [] n = "empty"     -> [src |-> "", ok |-> TRUE, host |-> "", port |-> 0 - 1, user |-> ""]
             [] n = "p80"       -> [src |-> "h:80", ok |-> TRUE, host |-> "h", port |-> 80, user |-> ""]
             [] n = "p0"        -> [src |-> "h:0", ok |-> TRUE, host |-> "h", port |-> 0, user |-> ""]
             [] n = "p65535"    -> [src |-> "h:65535", ok |-> TRUE, host |-> "h", port |-> 65535, user |-> ""]
             [] n = "p65536"    -> [src |-> "h:65536", ok |-> FALSE, host |-> "", port |-> 0, user |-> ""]
             [] n = "p8x"       -> [src |-> "h:8x", ok |-> FALSE, host |-> "", port |-> 0, user |-> ""]
             [] n = "pempty"    -> [src |-> "h:", ok |-> FALSE, host |-> "", port |-> 0, user |-> ""]
             [] n = "v6"        -> [src |-> "[::1]", ok |-> TRUE, host |-> "::1", port |-> 0 - 1, user |-> ""]
             [] n = "v6p"       -> [src |-> "[FE80::1]:8080", ok |-> TRUE, host |-> "fe80::1", port |-> 8080, user |-> ""]
             [] n = "v6open"    -> [src |-> "[::1", ok |-> FALSE, host |-> "", port |-> 0, user |-> ""]
             [] n = "v6junk"    -> [src |-> "[::1]x", ok |-> FALSE, host |-> "", port |-> 0, user |-> ""]
             [] n = "user"      -> [src |-> "Bob@Host", ok |-> TRUE, host |-> "host", port |-> 0 - 1, user |-> "Bob"]
             [] n = "user2"     -> [src |-> "a@b@c", ok |-> FALSE, host |-> "", port |-> 0, user |-> ""]

\* path atoms: src text, decoded canonical bytes (dec), kind
\*   kind "lit"  : literal / decoded unreserved / kept escape  -> contributes dec to the current segment
\*   kind "sep"  : "/"                                         -> segment separator
\*   kind "bad"  : malformed escape                            -> URL rejected
\* High bytes are decoded to raw bytes and must form well-formed UTF-8 in the canonical string.
Atom(n) == CASE n = "/"      -> [src |-> "/", kind |-> "sep", dec |-> <<47>>]
             [] n = "a"      -> [src |-> "a", kind |-> "lit", dec |-> <<97>>]
             [] n = "B"      -> [src |-> "B", kind |-> "lit", dec |-> <<66>>]
             [] n = "."      -> [src |-> ".", kind |-> "lit", dec |-> <<46>>]
             [] n = "%41"    -> [src |-> "%41", kind |-> "lit", dec |-> <<65>>]                 \* unreserved: decoded
             [] n = "%7e"    -> [src |-> "%7e", kind |-> "lit", dec |-> <<126>>]                \* "~" unreserved
             [] n = "%2e"    -> [src |-> "%2e", kind |-> "lit", dec |-> <<46>>]                 \* "." : decoded, then a dot segment
             [] n = "%2f"    -> [src |-> "%2f", kind |-> "lit", dec |-> <<37, 50, 70>>]         \* reserved: kept, upper-cased
             [] n = "%3F"    -> [src |-> "%3F", kind |-> "lit", dec |-> <<37, 51, 70>>]
             [] n = "%20"    -> [src |-> "%20", kind |-> "lit", dec |-> <<37, 50, 48>>]
             [] n = "%zz"    -> [src |-> "%zz", kind |-> "bad", dec |-> <<>>]
             [] n = "%4"     -> [src |-> "%4", kind |-> "bad", dec |-> <<>>]                    \* (only as last atom: truncated)
             [] n = "u2"     -> [src |-> "%C3%A9", kind |-> "lit", dec |-> <<195, 169>>]        \* U+00E9
             [] n = "u3"     -> [src |-> "%E2%82%AC", kind |-> "lit", dec |-> <<226, 130, 172>>] \* U+20AC
             [] n = "u3max"  -> [src |-> "%ED%9F%BF", kind |-> "lit", dec |-> <<237, 159, 191>>] \* U+D7FF, just below surrogates
             [] n = "u3e0"   -> [src |-> "%E0%A0%80", kind |-> "lit", dec |-> <<224, 160, 128>>] \* U+0800, smallest 3-byte
             [] n = "u4"     -> [src |-> "%F0%90%80%80", kind |-> "lit", dec |-> <<240, 144, 128, 128>>] \* U+10000
             [] n = "u4max"  -> [src |-> "%F4%8F%BF%BF", kind |-> "lit", dec |-> <<244, 143, 191, 191>>] \* U+10FFFF
             [] n = "over2"  -> [src |-> "%C0%AF", kind |-> "lit", dec |-> <<192, 175>>]        \* overlong "/"
             [] n = "over3"  -> [src |-> "%E0%80%BF", kind |-> "lit", dec |-> <<224, 128, 191>>] \* overlong
             [] n = "over3b" -> [src |-> "%E0%9F%BF", kind |-> "lit", dec |-> <<224, 159, 191>>] \* overlong (U+07FF)
             [] n = "over4"  -> [src |-> "%F0%80%80%80", kind |-> "lit", dec |-> <<240, 128, 128, 128>>]
             [] n = "over4b" -> [src |-> "%F0%8F%BF%BF", kind |-> "lit", dec |-> <<240, 143, 191, 191>>]
             [] n = "surr"   -> [src |-> "%ED%A0%80", kind |-> "lit", dec |-> <<237, 160, 128>>] \* U+D800
             [] n = "surr2"  -> [src |-> "%ED%BF%BF", kind |-> "lit", dec |-> <<237, 191, 191>>] \* U+DFFF
             [] n = "big"    -> [src |-> "%F4%90%80%80", kind |-> "lit", dec |-> <<244, 144, 128, 128>>] \* > U+10FFFF
             [] n = "f5"     -> [src |-> "%F5%80%80%80", kind |-> "lit", dec |-> <<245, 128, 128, 128>>]
             [] n = "cont"   -> [src |-> "%80", kind |-> "lit", dec |-> <<128>>]                \* stray continuation
             [] n = "lead2"  -> [src |-> "%C3", kind |-> "lit", dec |-> <<195>>]                \* lead byte without continuation
             [] n = "lead3"  -> [src |-> "%E2%82", kind |-> "lit", dec |-> <<226, 130>>]         \* truncated 3-byte
             [] n = "ff"     -> [src |-> "%FF", kind |-> "lit", dec |-> <<255>>]
             [] n = "pad"    -> [src |-> "PAD", kind |-> "lit", dec |-> <<2>>]    \* the binding expands "PAD" / byte 2 to a run of "P" sized so that
                                                                                \* the text after the scheme is exactly 127, 128 or 129 bytes long
             [] n = "long"   -> [src |-> "LONG", kind |-> "lit", dec |-> <<1>>]   \* the binding expands "LONG" and byte 1 to 130 x "L" (heap-buffer path)

Query(n) == CASE n = "none" -> [src |-> "", has |-> FALSE, ok |-> TRUE, dec |-> ""]
              [] n = "q"    -> [src |-> "?q=1", has |-> TRUE, ok |-> TRUE, dec |-> "q=1"]
              [] n = "qdots"-> [src |-> "?a/../b//c", has |-> TRUE, ok |-> TRUE, dec |-> "a/../b//c"]   \* not a path: untouched
              [] n = "qesc" -> [src |-> "?x=%41%2f", has |-> TRUE, ok |-> TRUE, dec |-> "x=A%2F"]
              [] n = "qbad" -> [src |-> "?x=%zz", has |-> TRUE, ok |-> FALSE, dec |-> ""]
Frag(n) == CASE n = "none" -> [src |-> "", has |-> FALSE, dec |-> ""]
             [] n = "f"    -> [src |-> "#frag", has |-> TRUE, dec |-> "frag"]
             [] n = "fq"   -> [src |-> "#a?b", has |-> TRUE, dec |-> "a?b"]

\* ---------------- RFC 3629 well-formedness (table 3-7) ----------------
In(x, lo, hi) == x >= lo /\ x <= hi
RECURSIVE Utf8(_)
Utf8(b) ==
  IF b = <<>> THEN TRUE
  ELSE LET c == b[1]  n == Len(b) IN
    IF c < 128 THEN Utf8(Tail(b))
    ELSE IF In(c, 194, 223) THEN n >= 2 /\ In(b[2], 128, 191) /\ Utf8(SubSeq(b, 3, n))
    ELSE IF c = 224 THEN n >= 3 /\ In(b[2], 160, 191) /\ In(b[3], 128, 191) /\ Utf8(SubSeq(b, 4, n))
    ELSE IF In(c, 225, 236) \/ In(c, 238, 239) THEN n >= 3 /\ In(b[2], 128, 191) /\ In(b[3], 128, 191) /\ Utf8(SubSeq(b, 4, n))
    ELSE IF c = 237 THEN n >= 3 /\ In(b[2], 128, 159) /\ In(b[3], 128, 191) /\ Utf8(SubSeq(b, 4, n))
    ELSE IF c = 240 THEN n >= 4 /\ In(b[2], 144, 191) /\ In(b[3], 128, 191) /\ In(b[4], 128, 191) /\ Utf8(SubSeq(b, 5, n))
    ELSE IF In(c, 241, 243) THEN n >= 4 /\ In(b[2], 128, 191) /\ In(b[3], 128, 191) /\ In(b[4], 128, 191) /\ Utf8(SubSeq(b, 5, n))
    ELSE IF c = 244 THEN n >= 4 /\ In(b[2], 128, 143) /\ In(b[3], 128, 191) /\ In(b[4], 128, 191) /\ Utf8(SubSeq(b, 5, n))
    ELSE FALSE

\* ---------------- path canonicalisation over atoms ----------------
\* 1. split the atom sequence into segments (each the concatenation of the decoded atoms);
\*    a path always starts with "/" (atoms[1] is "/" whenever the path is non-empty)
RECURSIVE Segs(_, _, _)
Segs(as, cur, acc) ==      \* acc: finished segments, cur: bytes of the segment being built
  IF as = <<>> THEN Append(acc, cur)
  ELSE LET a == Atom(Head(as)) IN
       IF a.kind = "sep" THEN Segs(Tail(as), <<>>, Append(acc, cur))
       ELSE Segs(Tail(as), cur \o a.dec, acc)
\* for the path "/x/y" Segs gives << <<>>, x, y >> : drop the empty segment before the first "/"
RawSegs(as) == IF as = <<>> THEN <<>> ELSE Tail(Segs(as, <<>>, <<>>))
Dot == <<46>>
DotDot == <<46, 46>>
\* 2. remove empty segments that come from "//" (an empty LAST segment is the trailing slash: kept as a flag)
\* 3. remove "." and apply ".."
RECURSIVE Reduce(_, _)
Reduce(ss, out) == IF ss = <<>> THEN out
                   ELSE IF Head(ss) = <<>> \/ Head(ss) = Dot THEN Reduce(Tail(ss), out)
                   ELSE IF Head(ss) = DotDot THEN Reduce(Tail(ss), IF out = <<>> THEN out ELSE SubSeq(out, 1, Len(out) - 1))
                   ELSE Reduce(Tail(ss), Append(out, Head(ss)))
RECURSIVE Join(_)
Join(ss) == IF ss = <<>> THEN <<>> ELSE <<47>> \o Head(ss) \o Join(Tail(ss))
\* allowed canonical paths (as byte sequences)
Paths(as) ==
  LET rs == RawSegs(as)
      kept == Reduce(rs, <<>>)
      base == Join(kept)
      n == Len(rs)
      lastEmpty == n > 0 /\ rs[n] = <<>>                  \* source ends in "/"
      lastDot   == n > 0 /\ (rs[n] = Dot \/ rs[n] = DotDot)  \* source ends in a dot segment
  IN IF n = 0 THEN {<<>>}
     ELSE IF lastEmpty THEN {base \o <<47>>}
     ELSE IF lastDot THEN {base, base \o <<47>>}            \* property leaves the trailing slash open
     ELSE {base}
AllBytes(as) == LET RECURSIVE F(_) F(x) == IF x = <<>> THEN <<>> ELSE Atom(Head(x)).dec \o F(Tail(x)) IN F(as)
\* "yes": must be accepted, "no": must be rejected, "either": the property leaves it open
\* (ill-formed bytes only inside a segment that ".." removes: they are not part of the decoded path)
PathVerdict(as) == IF \E i \in 1..Len(as) : Atom(as[i]).kind = "bad" THEN "no"
                   ELSE IF Utf8(AllBytes(as)) THEN "yes"
                   ELSE IF \E p \in Paths(as) : ~Utf8(p) THEN "no"
                   ELSE "either"

\* ---------------- the verdict ----------------
Accept(x) ==
  IF ~(x.scheme \in KnownSchemes /\ x.sep = "://") THEN "no"
  ELSE IF x.scheme \in OpaqueSchemes THEN "yes"
  ELSE IF ~Auth(x.auth).ok \/ ~Query(x.query).ok THEN "no"
  ELSE PathVerdict(x.path)

Expected(x) ==
  IF Accept(x) = "no" THEN [accept |-> "no"]
  ELSE IF x.scheme \in OpaqueSchemes THEN [accept |-> "yes", opaque |-> TRUE, scheme |-> x.scheme]
  ELSE LET a == Auth(x.auth) IN
       [accept |-> Accept(x), opaque |-> FALSE, scheme |-> x.scheme, host |-> a.host, user |-> a.user,
        port |-> IF a.port = 0 - 1 THEN DefaultPort(x.scheme) ELSE a.port,
        paths |-> Paths(x.path),
        hasq |-> Query(x.query).has, query |-> Query(x.query).dec,
        hasf |-> Frag(x.frag).has, frag |-> Frag(x.frag).dec]

Source(x) == [scheme |-> x.scheme, sep |-> x.sep,
              auth |-> IF x.scheme \in OpaqueSchemes THEN "" ELSE Auth(x.auth).src,
              path |-> [i \in 1..Len(x.path) |-> Atom(x.path[i]).src],
              query |-> Query(x.query).src, frag |-> Frag(x.frag).src]

\* ---------------- the input space ----------------
\* paths: empty, or "/" followed by atoms (separators allowed anywhere; truncated escape only last)
RECURSIVE SeqsUpTo(_, _)
SeqsUpTo(S, n) == IF n = 0 THEN {<<>>} ELSE LET P == SeqsUpTo(S, n - 1) IN P \cup {Append(p, a) : p \in {q \in P : Len(q) = n - 1}, a \in S}
PathSet == {<<>>} \cup {<<"/">> \o p : p \in {q \in SeqsUpTo(AtomSet, MaxAtoms) :
                                               \A i \in 1..Len(q) : q[i] = "%4" => i = Len(q)}}
\* a separator other than "://" is only meaningful as a token when the text after it cannot complete
\* it to "://" again: require a non-empty authority after it (no authority token starts with "/")
Inputs == {x \in [scheme : SchemeSet, sep : SepSet, auth : AuthSet, path : PathSet, query : QuerySet, frag : FragSet] :
             x.sep = "://" \/ (x.scheme \notin OpaqueSchemes /\ Auth(x.auth).src # "")}

Init == u \in Inputs /\ lastAct = [a |-> "init"]
Next == UNCHANGED vars
Spec == Init /\ [][Next]_vars

\* ---------------- properties of the specification itself ----------------
\* canonicalisation is idempotent: an allowed canonical path, read again as segments, reduces to itself
Resplit(bs) == LET RECURSIVE F(_, _, _)
                   F(b, cur, acc) == IF b = <<>> THEN Append(acc, cur)
                                     ELSE IF Head(b) = 47 THEN F(Tail(b), <<>>, Append(acc, cur))
                                     ELSE F(Tail(b), Append(cur, Head(b)), acc)
               IN IF bs = <<>> THEN <<>> ELSE Tail(F(bs, <<>>, <<>>))
CanonIdempotent == \A p \in Paths(u.path) :
                      LET rs == Resplit(p) IN
                      /\ \A i \in 1..Len(rs) : rs[i] # Dot /\ rs[i] # DotDot /\ (rs[i] = <<>> => i = Len(rs))
                      /\ (IF p = <<>> THEN <<>> ELSE Join(Reduce(rs, <<>>)) \o (IF rs[Len(rs)] = <<>> THEN <<47>> ELSE <<>>)) = p
\* the table-driven UTF-8 predicate agrees with the code-point definition on every atom (sanity of the spec)
ExportInput == PrintT(<<"U", ToJson([src |-> Source(u), exp |-> Expected(u)])>>)
=====================================================================
