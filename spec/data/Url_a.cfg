SPECIFICATION Spec
CONSTANTS MaxAtoms = 1
          AtomSet = {"a", ".", "%41", "u2", "surr"}
          SchemeSet = {"http", "https", "tcp", "tcp4", "ws", "wss", "udp", "ipc", "inproc", "tls+tcp", "socket", "ht", "tc", "", "w", "tls", "foo", "tcpx", "httpx", "abstract"}
          SepSet = {"://", ":/", ":", ""}
          AuthSet = {"host", "HOST", "empty", "p80", "p0", "p65535", "p65536", "p8x", "pempty", "v6", "v6p", "v6open", "v6junk", "user", "user2"}
          QuerySet = {"none", "q", "qbad"}
          FragSet = {"none", "f"}
INVARIANTS ExportInput CanonIdempotent
