SPECIFICATION Spec
CONSTANTS MaxAtoms = 2
          AtomSet = {"/", "a", "B", ".", "%41", "%7e", "%2e", "%2f", "%3F", "%20", "%zz", "%4", "u2", "u3", "u3max", "u3e0", "u4", "u4max", "over2", "over3", "over3b", "over4", "over4b", "surr", "surr2", "big", "f5", "cont", "lead2", "lead3", "ff", "long"}
          SchemeSet = {"http"}
          SepSet = {"://"}
          AuthSet = {"host"}
          QuerySet = {"none", "qdots", "qesc"}
          FragSet = {"none", "fq"}
INVARIANTS ExportInput CanonIdempotent
