SPECIFICATION Spec
CONSTANTS MaxAtoms = 3
          AtomSet = {"/", "a", "%41", "u2", "pad", "."}
          SchemeSet = {"http", "tcp", "inproc"}
          SepSet = {"://"}
          AuthSet = {"host", "p80", "v6p"}
          QuerySet = {"none", "q"}
          FragSet = {"none", "f"}
INVARIANTS ExportInput CanonIdempotent
