---------------------------- MODULE Backtrace ----------------------------
(* The routing backtrace of REQ/REP and SURVEYOR/RESPONDENT as pure operators (no state): what one raw hop does to a
   message.  A message on the wire is a sequence of 32-bit words followed by the payload; a word is <<kind, n>>:
   <<"p", n>> the id of pipe n of the receiving device, <<"h", n>> any other word with the top bit clear (a hop of some
   other device, or payload), <<"i", n>> a word with the top bit set (request / survey id).
   Transcribes xrep0_pipe_recv_cb / xrep0_sock_getq_cb / xreq0_recv_cb (and xrespond / xsurvey, which are the same). *)
EXTENDS Naturals, Sequences

IsId(w) == w[1] = "i"
HeaderCap == 16                      \* words: (NNI_MAX_MAX_TTL + 1) * 4 = 64 bytes

\* Receiving side of the replier-facing raw socket (xrep / xrespondent): the pipe id is pushed, then words are moved from
\* the body to the header up to and including the first id word, but no more than ttl of them.
\*   "drop":  too many hops (no disconnect);  "close": the words ran out before an id was seen (garbage: disconnect)
RECURSIVE ScanFrom(_, _, _)
ScanFrom(full, ttl, j) ==
  IF j > ttl THEN [v |-> "drop"]
  ELSE IF j > Len(full) THEN [v |-> "close"]
  ELSE IF IsId(full[j]) THEN [v |-> "accept", n |-> j]
  ELSE ScanFrom(full, ttl, j + 1)
RecvRequest(pipe, full, ttl) ==
  LET r == ScanFrom(full, ttl, 1) IN
  IF r.v # "accept" THEN r
  ELSE [v |-> "accept", hdr |-> <<<<"p", pipe>>>> \o SubSeq(full, 1, r.n), body |-> SubSeq(full, r.n + 1, Len(full))]

\* Receiving side of the requester-facing raw socket (xreq / xsurveyor): words are moved up to and including the first
\* id word; no hop limit here, only the capacity of the header.  "close": ran out of words, or of header room.
RECURSIVE ScanReply(_, _)
ScanReply(full, j) ==
  IF j > Len(full) THEN [v |-> "close"]
  ELSE IF j > HeaderCap THEN [v |-> "close"]
  ELSE IF IsId(full[j]) THEN [v |-> "accept", n |-> j]
  ELSE ScanReply(full, j + 1)
\* Sending side of xrep: the first header word names the outgoing pipe and is removed; unknown pipe: dropped
RouteReply(full, livePipes) ==
  LET r == ScanReply(full, 1) IN
  IF r.v # "accept" THEN r
  ELSE LET first == full[1] IN
       IF first[1] = "p" /\ first[2] \in livePipes
         THEN [v |-> "accept", pipe |-> first[2], hdr |-> SubSeq(full, 2, r.n), body |-> SubSeq(full, r.n + 1, Len(full))]
         ELSE [v |-> "drop"]
=====================================================================
