SPECIFICATION Spec
CONSTANTS N = 13
          TtlChoices = {15}
          PinChoices = {1}
          Loop = FALSE
          MaxSteps = 100
INVARIANTS Bounded ChainOK LoopDies
PROPERTY Terminates
CHECK_DEADLOCK FALSE
