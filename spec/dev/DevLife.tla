---------------------------- MODULE DevLife ----------------------------
(* Life cycle of one nng_device_aio (src/core/device.c): the forwarding paths (one for a one-way device such as raw PULL -> raw
   PUSH, two for a two-way device such as raw PAIR0 <-> raw PAIR0), each in state RECV / SEND / FINI, and the user's device
   operation, in macro steps through the harness transport on both sockets.

   C02: the device operation completes exactly once - with the cancel / stop / timeout code that ended it - in whatever state
        the paths are when it is cancelled, in particular with a path blocked in its send because the destination has no peer
        ready (nothing else can end a device: if this fails nng_aio_wait / nng_aio_free / nng_fini never return);
   C13: a message the device accepts is forwarded with an unchanged body; C03: the message in flight is freed.

   At most one message per direction is on its way through the device (queueing inside the sockets is C18's). *)
EXTENDS Naturals, Sequences, FiniteSets, TLC, Json

CONSTANTS TwoWay,      \* FALSE: raw PULL (left) -> raw PUSH (right);  TRUE: raw PAIR0 <-> raw PAIR0
          MaxMsgs, MaxSlots

Sides == {"L", "R"}
Other(s) == IF s = "L" THEN "R" ELSE "L"
\* direction d carries messages received on side d towards Other(d)
Dirs == IF TwoWay THEN {"L", "R"} ELSE {"L"}

VARIABLES
  dev,      \* "idle" | "run" | "done"
  slot,     \* slot[s]: harness pipe currently attached to side s (0: none)
  nslot,
  pst,      \* pst[d]: "recv" | "send" (the path holds a message the destination cannot take yet) | "fini"
  hold,     \* hold[d]: the message a blocked path holds (0: none)
  wire,     \* wire[s]: message parked in the transport send of side s's pipe (0: none)
  nextMsg,
  fwd,      \* ghost: messages taken by the peers, with the side they came out of
  lost,     \* ghost: messages dropped with their connection / with the device
  lastAct
vars == <<dev, slot, nslot, pst, hold, wire, nextMsg, fwd, lost, lastAct>>

Init == /\ dev = "idle" /\ slot = [s \in Sides |-> 0] /\ nslot = 0
        /\ pst = [d \in Sides |-> "recv"] /\ hold = [d \in Sides |-> 0] /\ wire = [s \in Sides |-> 0]
        /\ nextMsg = 101 /\ fwd = <<>> /\ lost = {} /\ lastAct = [a |-> "init"]

\* nng_device_aio: the paths start receiving
Start == /\ dev = "idle" /\ dev' = "run"
         /\ lastAct' = [a |-> "devstart", out |-> [rv |-> "ok"]]
         /\ UNCHANGED <<slot, nslot, pst, hold, wire, nextMsg, fwd, lost>>

\* the message m of direction d reaches the destination socket: parked on its pipe if that is idle, else the path blocks
Offer(d, m, W, H, P) ==
  LET t == Other(d) IN
  IF slot[t] # 0 /\ W[t] = 0 THEN [wire |-> [W EXCEPT ![t] = m], hold |-> [H EXCEPT ![d] = 0], pst |-> [P EXCEPT ![d] = "recv"]]
  ELSE [wire |-> W, hold |-> [H EXCEPT ![d] = m], pst |-> [P EXCEPT ![d] = "send"]]

Connect(s) ==
  /\ slot[s] = 0 /\ nslot < MaxSlots /\ dev # "done"
  /\ nslot' = nslot + 1 /\ slot' = [slot EXCEPT ![s] = nslot + 1]
  \* a path blocked on this side's socket gets its message out
  /\ LET d == Other(s) IN
     IF d \in Dirs /\ dev = "run" /\ pst[d] = "send" THEN
        /\ wire' = [wire EXCEPT ![s] = hold[d]] /\ hold' = [hold EXCEPT ![d] = 0] /\ pst' = [pst EXCEPT ![d] = "recv"]
     ELSE UNCHANGED <<wire, hold, pst>>
  /\ lastAct' = [a |-> "connect", p |-> nslot + 1, side |-> s, out |-> [rv |-> "ok"]]
  /\ UNCHANGED <<dev, nextMsg, fwd, lost>>

\* the peer on side s writes a message (only while that direction is idle: one message per direction)
Inject(s) ==
  /\ s \in Dirs /\ dev = "run" /\ slot[s] # 0 /\ pst[s] = "recv" /\ nextMsg <= 100 + MaxMsgs
  /\ LET r == Offer(s, nextMsg, wire, hold, pst) IN wire' = r.wire /\ hold' = r.hold /\ pst' = r.pst
  /\ nextMsg' = nextMsg + 1
  /\ lastAct' = [a |-> "inject", p |-> slot[s], m |-> nextMsg, out |-> [rv |-> "delivered"]]
  /\ UNCHANGED <<dev, slot, nslot, fwd, lost>>

\* the peer on side s reads the message parked for it
Take(s) ==
  /\ slot[s] # 0 /\ wire[s] # 0
  /\ fwd' = Append(fwd, [m |-> wire[s], side |-> s])
  /\ LET d == Other(s) IN
     IF d \in Dirs /\ dev = "run" /\ pst[d] = "send" THEN
        /\ wire' = [wire EXCEPT ![s] = hold[d]] /\ hold' = [hold EXCEPT ![d] = 0] /\ pst' = [pst EXCEPT ![d] = "recv"]
     ELSE /\ wire' = [wire EXCEPT ![s] = 0] /\ UNCHANGED <<hold, pst>>
  /\ lastAct' = [a |-> "take", p |-> slot[s], out |-> [hdr |-> <<>>, m |-> wire[s]]]
  /\ UNCHANGED <<dev, slot, nslot, nextMsg, lost>>

PeerClose(s) ==
  /\ slot[s] # 0 /\ dev # "done"
  /\ slot' = [slot EXCEPT ![s] = 0]
  /\ lost' = lost \cup (IF wire[s] # 0 THEN {wire[s]} ELSE {})
  /\ wire' = [wire EXCEPT ![s] = 0]
  /\ lastAct' = [a |-> "peer_close", p |-> slot[s]]
  /\ UNCHANGED <<dev, nslot, pst, hold, nextMsg, fwd>>

\* nng_aio_cancel on the device operation: every path ends, the operation completes once with NNG_ECANCELED, the device closes
\* both sockets (messages parked or held are freed)
Cancel ==
  /\ dev = "run"
  /\ dev' = "done"
  /\ pst' = [d \in Sides |-> "fini"]
  /\ lost' = lost \cup {hold[d] : d \in {x \in Sides : hold[x] # 0}} \cup {wire[s] : s \in {x \in Sides : wire[x] # 0}}
  /\ hold' = [d \in Sides |-> 0] /\ wire' = [s \in Sides |-> 0] /\ slot' = [s \in Sides |-> 0]
  /\ lastAct' = [a |-> "devcancel", out |-> [rv |-> "ok"]]
  /\ UNCHANGED <<nslot, nextMsg, fwd>>

Next == Start \/ Cancel \/ \E s \in Sides : Connect(s) \/ Inject(s) \/ Take(s) \/ PeerClose(s)
Spec == Init /\ [][Next]_vars

\* ---------------------------------------------------------------- properties
\* every message is in exactly one place: still to be injected, held by a blocked path, parked on a wire, taken, or lost
SeqSet(q) == {q[i] : i \in 1..Len(q)}
Places(m) == (IF \E d \in Sides : hold[d] = m THEN 1 ELSE 0) + (IF \E s \in Sides : wire[s] = m THEN 1 ELSE 0)
           + (IF \E i \in 1..Len(fwd) : fwd[i].m = m THEN 1 ELSE 0) + (IF m \in lost THEN 1 ELSE 0)
OnePlace == \A m \in 101..(nextMsg - 1) : Places(m) = 1
\* a one-way device never emits on its receiving side
OneWay == TwoWay \/ \A i \in 1..Len(fwd) : fwd[i].side = "R"
\* a blocked path means its destination cannot take the message
BlockedForAReason == \A d \in Dirs : (dev = "run" /\ pst[d] = "send") => (hold[d] # 0 /\ (slot[Other(d)] = 0 \/ wire[Other(d)] # 0))
\* once cancelled the device is over: nothing held, nothing parked, no path alive
DoneIsFinal == dev = "done" => (\A d \in Sides : pst[d] = "fini" /\ hold[d] = 0) /\ (\A s \in Sides : wire[s] = 0 /\ slot[s] = 0)

\* ---------------------------------------------------------------- export
SId == <<dev, slot, nslot, pst, hold, wire, nextMsg>>
WireObs == LET F(s) == IF slot[s] # 0 THEN <<<<slot[s], IF wire[s] # 0 THEN 1 ELSE 0>>>> ELSE <<>>
           IN IF slot["L"] < slot["R"] THEN F("L") \o F("R") ELSE F("R") \o F("L")
Obs == [dev |-> IF dev = "done" THEN "done:ecanceled" ELSE dev, wire |-> WireObs, done |-> <<>>, S_pend |-> <<>>]
FinV == 0
ExportEdge == PrintT(<<"E", ToJson([s |-> SId, sa |-> lastAct, d |-> SId', act |-> lastAct', obs |-> Obs', fin |-> FinV'])>>)
View == SId
=====================================================================
