SPECIFICATION Spec
CONSTANTS TwoWay = TRUE
          MaxMsgs = 3
          MaxSlots = 4
INVARIANTS OnePlace DoneIsFinal
ACTION_CONSTRAINT ExportEdge
VIEW View
