SPECIFICATION Spec
CONSTANTS TwoWay = TRUE
          MaxMsgs = 4
          MaxSlots = 4
INVARIANTS OnePlace OneWay BlockedForAReason DoneIsFinal
VIEW View
