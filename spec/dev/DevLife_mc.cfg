SPECIFICATION Spec
CONSTANTS TwoWay = FALSE
          MaxMsgs = 4
          MaxSlots = 4
INVARIANTS OnePlace OneWay BlockedForAReason DoneIsFinal
VIEW View
