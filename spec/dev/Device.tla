---------------------------- MODULE Device ----------------------------
(* One nng_device between a raw replier-side socket (xrep, "left": its peers are requesters) and a raw requester-side
   socket (xreq, "right": its peers are repliers), src/core/device.c + reqrep0/xrep.c + reqrep0/xreq.c
   (and survey0/xrespond.c + xsurvey.c), in macro steps through the harness transport.  C13.

   The driver plays requesters on the left and repliers on the right and sends every backtrace shape; at most one
   message per direction is in flight (buffering between the sockets is covered by C18's message queue). *)
EXTENDS Backtrace, FiniteSets, TLC, Json

CONSTANTS LPipes, RPipes, MaxMsgs, Ttls, ReqHops, RepHops,
          Fanout       \* FALSE: REQ/REP (a request goes to one replier, in turn); TRUE: SURVEY (a survey goes to every respondent)

VARIABLES lup, rup, used, ttl,
          rready,        \* right pipes waiting for something to send, in the order they will be served
          rwire, lwire,  \* per pipe: message parked in the transport send: <<>> or <<[hdr, body]>>
          sent,          \* ghost: what each forwarded request looked like, and from which left pipe it came
          nextMsg, lastAct
vars == <<lup, rup, used, ttl, rready, rwire, lwire, sent, nextMsg, lastAct>>
Remove(s, x) == SelectSeq(s, LAMBDA y : y # x)
Hops(k) == [i \in 1..k |-> <<"h", 6 + i>>]
Pay(m) == <<"h", m>>

Init == /\ lup = {} /\ rup = {} /\ used = {} /\ ttl = 8 /\ rready = <<>> /\ rwire = [r \in RPipes |-> <<>>]
        /\ lwire = [l \in LPipes |-> <<>>] /\ sent = <<>> /\ nextMsg = 101 /\ lastAct = [a |-> "init"]

ConnectL(l) == /\ l \in LPipes \ used /\ used' = used \cup {l} /\ lup' = lup \cup {l}
               /\ lastAct' = [a |-> "connect", p |-> l, side |-> "L", out |-> [rv |-> "ok"]]
               /\ UNCHANGED <<rup, ttl, rready, rwire, lwire, sent, nextMsg>>
ConnectR(r) == /\ r \in RPipes \ used /\ used' = used \cup {r} /\ rup' = rup \cup {r} /\ rready' = Append(rready, r)
               /\ lastAct' = [a |-> "connect", p |-> r, side |-> "R", out |-> [rv |-> "ok"]]
               /\ UNCHANGED <<lup, ttl, rwire, lwire, sent, nextMsg>>
\* (a socket owned by a running device refuses options: the hop limit is set before the device starts)
SetTtl(n) == /\ n # ttl /\ used = {} /\ ttl' = n /\ lastAct' = [a |-> "setopt", name |-> "ttl-max", val |-> n, out |-> [rv |-> "ok"]]
             /\ UNCHANGED <<lup, rup, used, rready, rwire, lwire, sent, nextMsg>>

\* a requester (or a device further left) writes k hop words, optionally an id, and the payload
Request(l, k, withId) ==
  /\ l \in lup /\ nextMsg <= 100 + MaxMsgs
  /\ (IF Fanout THEN rup # {} /\ \A q \in rup : rwire[q] = <<>> ELSE rready # <<>>)
  /\ LET ws == Hops(k) \o (IF withId THEN <<<<"i", nextMsg - 100>>>> ELSE <<>>)
         full == ws \o <<Pay(nextMsg)>>
         res == RecvRequest(l, full, ttl)
         r == IF Fanout THEN 0 ELSE Head(rready)
     IN /\ lastAct' = [a |-> "inject", p |-> l, words |-> full, out |-> [rv |-> "delivered"]]
        /\ IF res.v = "accept" THEN
              /\ rwire' = [q \in RPipes |-> IF (Fanout /\ q \in rup) \/ (~Fanout /\ q = r) THEN <<[hdr |-> res.hdr, body |-> res.body]>> ELSE rwire[q]]
              /\ rready' = (IF Fanout THEN rready ELSE Tail(rready))
              /\ sent' = Append(sent, [from |-> l, hdr |-> res.hdr, body |-> res.body]) /\ UNCHANGED <<lup, lwire>>
           ELSE IF res.v = "close" THEN
              /\ lup' = lup \ {l} /\ lwire' = [lwire EXCEPT ![l] = <<>>] /\ UNCHANGED <<rwire, rready, sent>>
           ELSE UNCHANGED <<lup, lwire, rwire, rready, sent>>
  /\ nextMsg' = nextMsg + 1 /\ UNCHANGED <<rup, used, ttl>>
TakeR(r) ==
  /\ r \in rup /\ rwire[r] # <<>>
  /\ lastAct' = [a |-> "take", p |-> r, out |-> [hdr |-> Head(rwire[r]).hdr, body |-> Head(rwire[r]).body]]
  /\ rwire' = [rwire EXCEPT ![r] = <<>>] /\ rready' = Append(rready, r)
  /\ UNCHANGED <<lup, rup, used, ttl, lwire, sent, nextMsg>>
\* a replier writes a reply: first word (a left pipe id, a dead one, a hop word or nothing), k more hop words, optionally an id
Reply(r, first, k, withId) ==
  /\ r \in rup /\ nextMsg <= 100 + MaxMsgs /\ \A l \in LPipes : lwire[l] = <<>>
  /\ LET ws == first \o Hops(k) \o (IF withId THEN <<<<"i", nextMsg - 100>>>> ELSE <<>>)
         full == ws \o <<Pay(nextMsg)>>
         res == RouteReply(full, lup)
     IN /\ lastAct' = [a |-> "inject", p |-> r, words |-> full, out |-> [rv |-> "delivered"]]
        /\ IF res.v = "accept" THEN
              /\ lwire' = [lwire EXCEPT ![res.pipe] = <<[hdr |-> res.hdr, body |-> res.body]>>] /\ UNCHANGED <<rup, rwire, rready>>
           ELSE IF res.v = "close" THEN
              /\ rup' = rup \ {r} /\ rwire' = [rwire EXCEPT ![r] = <<>>] /\ rready' = Remove(rready, r) /\ UNCHANGED lwire
           ELSE UNCHANGED <<rup, rwire, rready, lwire>>
  /\ nextMsg' = nextMsg + 1 /\ UNCHANGED <<lup, used, ttl, sent>>
TakeL(l) ==
  /\ l \in lup /\ lwire[l] # <<>>
  /\ lastAct' = [a |-> "take", p |-> l, out |-> [hdr |-> Head(lwire[l]).hdr, body |-> Head(lwire[l]).body]]
  /\ lwire' = [lwire EXCEPT ![l] = <<>>]
  /\ UNCHANGED <<lup, rup, used, ttl, rready, rwire, sent, nextMsg>>

Next == \/ (\E l \in LPipes : ConnectL(l) \/ TakeL(l) \/ \E k \in ReqHops, b \in BOOLEAN : Request(l, k, b))
        \/ (\E r \in RPipes : ConnectR(r) \/ TakeR(r)
              \/ \E k \in RepHops, b \in BOOLEAN, f \in {<<>>, <<<<"h", 5>>>>} \cup {<<<<"p", l>>>> : l \in LPipes} : Reply(r, f, k, b))
        \/ (\E n \in Ttls : SetTtl(n))
Spec == Init /\ [][Next]_vars

\* C13: what is forwarded is the original words behind the id of the pipe it came from, the body unchanged, never more
\* than ttl hops, never a header beyond its capacity; replies only ever leave on the pipe their first word names
ForwardSound == \A i \in 1..Len(sent) : LET s == sent[i] IN
                   /\ s.hdr[1] = <<"p", s.from>> /\ Len(s.hdr) <= HeaderCap /\ IsId(s.hdr[Len(s.hdr)])
                   /\ \A j \in 2..(Len(s.hdr) - 1) : ~IsId(s.hdr[j])
HeaderBounded == \A r \in RPipes : rwire[r] # <<>> => Len(Head(rwire[r]).hdr) <= HeaderCap
WireSound == (\A l \in LPipes : l \notin lup => lwire[l] = <<>>) /\ (\A r \in RPipes : r \notin rup => rwire[r] = <<>>)

SId == <<lup, rup, used, ttl, rready, rwire, lwire, nextMsg>>
WireObs == LET RECURSIVE F(_) F(S) == IF S = {} THEN <<>> ELSE LET p == CHOOSE x \in S : \A y \in S : x <= y IN
                  <<<<p, IF p \in LPipes THEN Len(lwire[p]) ELSE Len(rwire[p]), 1>>>> \o F(S \ {p}) IN F(lup \cup rup)
Obs == [done |-> <<>>, S_pend |-> {}, wire |-> WireObs]
FinV == 0
ExportEdge == PrintT(<<"E", ToJson([s |-> SId, sa |-> lastAct, d |-> SId', act |-> lastAct', obs |-> Obs', fin |-> FinV'])>>)
View == SId
=====================================================================
