---------------------------- MODULE DeviceChain ----------------------------
(* Chains and loops of devices, composed from the per-hop operators of Backtrace.tla (which the single real device is
   bound to by Device.tla's replay).  C13: every reply returns to exactly the original requester through any chain,
   and a message that has crossed more hops than the receiving socket's ttl is discarded, so loops die out.

   A request starts at requester q as <<id, payload>>.  Hop i (1..N) is a device whose xrep side has ttl[i]; the
   message arrives on its pipe pin[i].  After the chain comes either a cooked replier (Loop = FALSE; it applies the
   same scan with ttl[N+1], keeps the header as backtrace and replies with it), or the chain is closed into a ring
   (Loop = TRUE: hop N forwards to hop 1 again). *)
EXTENDS Backtrace, TLC

CONSTANTS N, TtlChoices, PinChoices, Loop, MaxSteps

VARIABLES ttl, pin, phase, at, words, body, trace, steps
vars == <<ttl, pin, phase, at, words, body, trace, steps>>

Init == /\ ttl \in [1..(N + 1) -> TtlChoices] /\ pin \in [1..N -> PinChoices]
        /\ phase = "request" /\ at = 1 /\ words = <<<<"i", 1>>>> /\ body = <<<<"h", 101>>>> /\ trace = <<>> /\ steps = 0

\* the message reaches hop `at`
Forward ==
  /\ phase = "request" /\ at <= N /\ steps < MaxSteps /\ steps' = steps + 1
  /\ LET res == RecvRequest(pin[at], words \o body, ttl[at]) IN
       IF res.v = "accept"
         THEN /\ words' = res.hdr /\ body' = res.body /\ trace' = Append(trace, at)
              /\ at' = (IF Loop /\ at = N THEN 1 ELSE at + 1) /\ UNCHANGED phase
         ELSE /\ phase' = (IF res.v = "drop" THEN "dropped" ELSE "closed") /\ UNCHANGED <<at, words, body, trace>>
  /\ UNCHANGED <<ttl, pin>>
\* the cooked replier at the end of an open chain
Serve ==
  /\ phase = "request" /\ at = N + 1 /\ ~Loop /\ steps' = steps + 1
  /\ LET res == ScanFrom(words \o body, ttl[N + 1], 1) IN
       IF res.v = "accept" THEN /\ phase' = (IF N = 0 THEN "returned" ELSE "reply") /\ at' = N /\ UNCHANGED <<words, body, trace>>
       ELSE /\ phase' = (IF res.v = "drop" THEN "dropped" ELSE "closed") /\ UNCHANGED <<at, words, body, trace>>
  /\ UNCHANGED <<ttl, pin>>
\* the reply comes back through hop `at`
Back ==
  /\ phase = "reply" /\ at >= 1 /\ steps' = steps + 1
  /\ LET res == RouteReply(words \o body, {pin[at]}) IN
       IF res.v = "accept" THEN /\ words' = res.hdr /\ body' = res.body /\ at' = at - 1
                                /\ phase' = (IF at = 1 THEN "returned" ELSE "reply") /\ UNCHANGED trace
       ELSE /\ phase' = "lost" /\ UNCHANGED <<at, words, body, trace>>
  /\ UNCHANGED <<ttl, pin>>
Next == Forward \/ Serve \/ Back
Spec == Init /\ [][Next]_vars /\ WF_vars(Next)

\* the header never outgrows its capacity, whatever the ttl settings (max ttl 15 + the pipe id = 16 words)
Bounded == Len(words) <= HeaderCap
\* open chain: the request is served iff at every hop i it arrives with i words <= ttl[i]; nobody disconnects a well-formed request
Reaches == \A i \in 1..(N + 1) : i <= ttl[i]
ChainOK == ~Loop =>
  /\ (phase \in {"reply", "returned"} => Reaches)
  /\ (phase = "dropped" => ~Reaches)
  /\ phase # "closed" /\ phase # "lost"
  \* the reply comes back to the requester carrying exactly the request id and the unchanged payload
  /\ (phase = "returned" => words = <<<<"i", 1>>>> /\ body = <<<<"h", 101>>>>)
\* ring: the message is never delivered anywhere and dies within max ttl hops
LoopDies == Loop => (phase \in {"request", "dropped"} /\ Len(trace) <= 15)
Terminates == <>(phase \in {"dropped", "returned", "closed", "lost"})
=====================================================================
