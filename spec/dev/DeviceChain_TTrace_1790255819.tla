---- MODULE DeviceChain_TTrace_1790255819 ----
EXTENDS Sequences, TLCExt, Toolbox, DeviceChain, Naturals, TLC

_expression ==
    LET DeviceChain_TEExpression == INSTANCE DeviceChain_TEExpression
    IN DeviceChain_TEExpression!expression
----

_trace ==
    LET DeviceChain_TETrace == INSTANCE DeviceChain_TETrace
    IN DeviceChain_TETrace!trace
----

_inv ==
    ~(
        TLCGet("level") = Len(_TETrace)
        /\
        phase = ("reply")
        /\
        trace = (<<>>)
        /\
        at = (0)
        /\
        pin = (<<>>)
        /\
        words = (<<<<"i", 1>>>>)
        /\
        body = (<<<<"h", 101>>>>)
        /\
        ttl = (<<6>>)
        /\
        steps = (1)
    )
----

_init ==
    /\ ttl = _TETrace[1].ttl
    /\ pin = _TETrace[1].pin
    /\ at = _TETrace[1].at
    /\ trace = _TETrace[1].trace
    /\ steps = _TETrace[1].steps
    /\ phase = _TETrace[1].phase
    /\ body = _TETrace[1].body
    /\ words = _TETrace[1].words
----

_next ==
    /\ \E i,j \in DOMAIN _TETrace:
        /\ \/ /\ j = i + 1
              /\ i = TLCGet("level")
        /\ ttl  = _TETrace[i].ttl
        /\ ttl' = _TETrace[j].ttl
        /\ pin  = _TETrace[i].pin
        /\ pin' = _TETrace[j].pin
        /\ at  = _TETrace[i].at
        /\ at' = _TETrace[j].at
        /\ trace  = _TETrace[i].trace
        /\ trace' = _TETrace[j].trace
        /\ steps  = _TETrace[i].steps
        /\ steps' = _TETrace[j].steps
        /\ phase  = _TETrace[i].phase
        /\ phase' = _TETrace[j].phase
        /\ body  = _TETrace[i].body
        /\ body' = _TETrace[j].body
        /\ words  = _TETrace[i].words
        /\ words' = _TETrace[j].words

\* Uncomment the ASSUME below to write the states of the error trace
\* to the given file in Json format. Note that you can pass any tuple
\* to `JsonSerialize`. For example, a sub-sequence of _TETrace.
    \* ASSUME
    \*     LET J == INSTANCE Json
    \*         IN J!JsonSerialize("DeviceChain_TTrace_1790255819.json", _TETrace)

=============================================================================

 Note that you can extract this module `DeviceChain_TEExpression`
  to a dedicated file to reuse `expression` (the module in the 
  dedicated `DeviceChain_TEExpression.tla` file takes precedence 
  over the module `DeviceChain_TEExpression` below).

---- MODULE DeviceChain_TEExpression ----
EXTENDS Sequences, TLCExt, Toolbox, DeviceChain, Naturals, TLC

expression == 
    [
        \* To hide variables of the `DeviceChain` spec from the error trace,
        \* remove the variables below.  The trace will be written in the order
        \* of the fields of this record.
        ttl |-> ttl
        ,pin |-> pin
        ,at |-> at
        ,trace |-> trace
        ,steps |-> steps
        ,phase |-> phase
        ,body |-> body
        ,words |-> words
        
        \* Put additional constant-, state-, and action-level expressions here:
        \* ,_stateNumber |-> _TEPosition
        \* ,_ttlUnchanged |-> ttl = ttl'
        
        \* Format the `ttl` variable as Json value.
        \* ,_ttlJson |->
        \*     LET J == INSTANCE Json
        \*     IN J!ToJson(ttl)
        
        \* Lastly, you may build expressions over arbitrary sets of states by
        \* leveraging the _TETrace operator.  For example, this is how to
        \* count the number of times a spec variable changed up to the current
        \* state in the trace.
        \* ,_ttlModCount |->
        \*     LET F[s \in DOMAIN _TETrace] ==
        \*         IF s = 1 THEN 0
        \*         ELSE IF _TETrace[s].ttl # _TETrace[s-1].ttl
        \*             THEN 1 + F[s-1] ELSE F[s-1]
        \*     IN F[_TEPosition - 1]
    ]

=============================================================================



Parsing and semantic processing can take forever if the trace below is long.
 In this case, it is advised to uncomment the module below to deserialize the
 trace from a generated binary file.

\*
\*---- MODULE DeviceChain_TETrace ----
\*EXTENDS IOUtils, DeviceChain, TLC
\*
\*trace == IODeserialize("DeviceChain_TTrace_1790255819.bin", TRUE)
\*
\*=============================================================================
\*

---- MODULE DeviceChain_TETrace ----
EXTENDS DeviceChain, TLC

trace == 
    <<
    ([phase |-> "request",trace |-> <<>>,at |-> 1,pin |-> <<>>,words |-> <<<<"i", 1>>>>,body |-> <<<<"h", 101>>>>,ttl |-> <<6>>,steps |-> 0]),
    ([phase |-> "reply",trace |-> <<>>,at |-> 0,pin |-> <<>>,words |-> <<<<"i", 1>>>>,body |-> <<<<"h", 101>>>>,ttl |-> <<6>>,steps |-> 1])
    >>
----


=============================================================================

---- CONFIG DeviceChain_TTrace_1790255819 ----
CONSTANTS
    N = 0
    TtlChoices = { 1 , 2 , 3 , 6 , 15 }
    Loop = FALSE
    MaxSteps = 100

INVARIANT
    _inv

CHECK_DEADLOCK
    \* CHECK_DEADLOCK off because of PROPERTY or INVARIANT above.
    FALSE

INIT
    _init

NEXT
    _next

CONSTANT
    _TETrace <- _trace

ALIAS
    _expression
=============================================================================
\* Generated on Thu Sep 24 13:17:00 UTC 2026