---- MODULE Device_TTrace_1790257578 ----
EXTENDS Sequences, TLCExt, Device, Toolbox, Naturals, TLC

_expression ==
    LET Device_TEExpression == INSTANCE Device_TEExpression
    IN Device_TEExpression!expression
----

_trace ==
    LET Device_TETrace == INSTANCE Device_TETrace
    IN Device_TETrace!trace
----

_inv ==
    ~(
        TLCGet("level") = Len(_TETrace)
        /\
        lup = ({1, 2})
        /\
        lwire = (<<<<>>, <<>>>>)
        /\
        rwire = ((3 :> <<>> @@ 4 :> <<>>))
        /\
        nextMsg = (103)
        /\
        used = ({1, 2, 3, 4})
        /\
        rup = ({})
        /\
        lastAct = ([a |-> "inject", p |-> 4, out |-> [rv |-> "delivered"], words |-> <<<<"h", 102>>>>])
        /\
        sent = (<<>>)
        /\
        ttl = (8)
        /\
        rready = (<<>>)
    )
----

_init ==
    /\ lastAct = _TETrace[1].lastAct
    /\ rwire = _TETrace[1].rwire
    /\ lwire = _TETrace[1].lwire
    /\ used = _TETrace[1].used
    /\ rready = _TETrace[1].rready
    /\ sent = _TETrace[1].sent
    /\ ttl = _TETrace[1].ttl
    /\ lup = _TETrace[1].lup
    /\ rup = _TETrace[1].rup
    /\ nextMsg = _TETrace[1].nextMsg
----

_next ==
    /\ \E i,j \in DOMAIN _TETrace:
        /\ \/ /\ j = i + 1
              /\ i = TLCGet("level")
        /\ lastAct  = _TETrace[i].lastAct
        /\ lastAct' = _TETrace[j].lastAct
        /\ rwire  = _TETrace[i].rwire
        /\ rwire' = _TETrace[j].rwire
        /\ lwire  = _TETrace[i].lwire
        /\ lwire' = _TETrace[j].lwire
        /\ used  = _TETrace[i].used
        /\ used' = _TETrace[j].used
        /\ rready  = _TETrace[i].rready
        /\ rready' = _TETrace[j].rready
        /\ sent  = _TETrace[i].sent
        /\ sent' = _TETrace[j].sent
        /\ ttl  = _TETrace[i].ttl
        /\ ttl' = _TETrace[j].ttl
        /\ lup  = _TETrace[i].lup
        /\ lup' = _TETrace[j].lup
        /\ rup  = _TETrace[i].rup
        /\ rup' = _TETrace[j].rup
        /\ nextMsg  = _TETrace[i].nextMsg
        /\ nextMsg' = _TETrace[j].nextMsg

\* Uncomment the ASSUME below to write the states of the error trace
\* to the given file in Json format. Note that you can pass any tuple
\* to `JsonSerialize`. For example, a sub-sequence of _TETrace.
    \* ASSUME
    \*     LET J == INSTANCE Json
    \*         IN J!JsonSerialize("Device_TTrace_1790257578.json", _TETrace)

=============================================================================

 Note that you can extract this module `Device_TEExpression`
  to a dedicated file to reuse `expression` (the module in the 
  dedicated `Device_TEExpression.tla` file takes precedence 
  over the module `Device_TEExpression` below).

---- MODULE Device_TEExpression ----
EXTENDS Sequences, TLCExt, Device, Toolbox, Naturals, TLC

expression == 
    [
        \* To hide variables of the `Device` spec from the error trace,
        \* remove the variables below.  The trace will be written in the order
        \* of the fields of this record.
        lastAct |-> lastAct
        ,rwire |-> rwire
        ,lwire |-> lwire
        ,used |-> used
        ,rready |-> rready
        ,sent |-> sent
        ,ttl |-> ttl
        ,lup |-> lup
        ,rup |-> rup
        ,nextMsg |-> nextMsg
        
        \* Put additional constant-, state-, and action-level expressions here:
        \* ,_stateNumber |-> _TEPosition
        \* ,_lastActUnchanged |-> lastAct = lastAct'
        
        \* Format the `lastAct` variable as Json value.
        \* ,_lastActJson |->
        \*     LET J == INSTANCE Json
        \*     IN J!ToJson(lastAct)
        
        \* Lastly, you may build expressions over arbitrary sets of states by
        \* leveraging the _TETrace operator.  For example, this is how to
        \* count the number of times a spec variable changed up to the current
        \* state in the trace.
        \* ,_lastActModCount |->
        \*     LET F[s \in DOMAIN _TETrace] ==
        \*         IF s = 1 THEN 0
        \*         ELSE IF _TETrace[s].lastAct # _TETrace[s-1].lastAct
        \*             THEN 1 + F[s-1] ELSE F[s-1]
        \*     IN F[_TEPosition - 1]
    ]

=============================================================================



Parsing and semantic processing can take forever if the trace below is long.
 In this case, it is advised to uncomment the module below to deserialize the
 trace from a generated binary file.

\*
\*---- MODULE Device_TETrace ----
\*EXTENDS IOUtils, Device, TLC
\*
\*trace == IODeserialize("Device_TTrace_1790257578.bin", TRUE)
\*
\*=============================================================================
\*

---- MODULE Device_TETrace ----
EXTENDS Device, TLC

trace == 
    <<
    ([lup |-> {},lwire |-> <<<<>>, <<>>>>,rwire |-> (3 :> <<>> @@ 4 :> <<>>),nextMsg |-> 101,used |-> {},rup |-> {},lastAct |-> [a |-> "init"],sent |-> <<>>,ttl |-> 8,rready |-> <<>>]),
    ([lup |-> {},lwire |-> <<<<>>, <<>>>>,rwire |-> (3 :> <<>> @@ 4 :> <<>>),nextMsg |-> 101,used |-> {3},rup |-> {3},lastAct |-> [a |-> "connect", p |-> 3, side |-> "R", out |-> [rv |-> "ok"]],sent |-> <<>>,ttl |-> 8,rready |-> <<3>>]),
    ([lup |-> {2},lwire |-> <<<<>>, <<>>>>,rwire |-> (3 :> <<>> @@ 4 :> <<>>),nextMsg |-> 101,used |-> {2, 3},rup |-> {3},lastAct |-> [a |-> "connect", p |-> 2, side |-> "L", out |-> [rv |-> "ok"]],sent |-> <<>>,ttl |-> 8,rready |-> <<3>>]),
    ([lup |-> {1, 2},lwire |-> <<<<>>, <<>>>>,rwire |-> (3 :> <<>> @@ 4 :> <<>>),nextMsg |-> 101,used |-> {1, 2, 3},rup |-> {3},lastAct |-> [a |-> "connect", p |-> 1, side |-> "L", out |-> [rv |-> "ok"]],sent |-> <<>>,ttl |-> 8,rready |-> <<3>>]),
    ([lup |-> {1, 2},lwire |-> <<<<>>, <<>>>>,rwire |-> (3 :> <<>> @@ 4 :> <<>>),nextMsg |-> 102,used |-> {1, 2, 3},rup |-> {},lastAct |-> [a |-> "inject", p |-> 3, out |-> [rv |-> "delivered"], words |-> <<<<"h", 101>>>>],sent |-> <<>>,ttl |-> 8,rready |-> <<>>]),
    ([lup |-> {1, 2},lwire |-> <<<<>>, <<>>>>,rwire |-> (3 :> <<>> @@ 4 :> <<>>),nextMsg |-> 102,used |-> {1, 2, 3, 4},rup |-> {4},lastAct |-> [a |-> "connect", p |-> 4, side |-> "R", out |-> [rv |-> "ok"]],sent |-> <<>>,ttl |-> 8,rready |-> <<4>>]),
    ([lup |-> {1, 2},lwire |-> <<<<>>, <<>>>>,rwire |-> (3 :> <<>> @@ 4 :> <<>>),nextMsg |-> 103,used |-> {1, 2, 3, 4},rup |-> {},lastAct |-> [a |-> "inject", p |-> 4, out |-> [rv |-> "delivered"], words |-> <<<<"h", 102>>>>],sent |-> <<>>,ttl |-> 8,rready |-> <<>>])
    >>
----


=============================================================================

---- CONFIG Device_TTrace_1790257578 ----
CONSTANTS
    LPipes = { 1 , 2 }
    RPipes = { 3 , 4 }
    MaxMsgs = 4
    Ttls = { 1 , 2 , 15 }
    ReqHops = { 0 , 1 , 2 , 14 , 15 }
    RepHops = { 0 , 1 , 15 }
    Fanout = FALSE

INVARIANT
    _inv

CHECK_DEADLOCK
    \* CHECK_DEADLOCK off because of PROPERTY or INVARIANT above.
    FALSE

INIT
    _init

NEXT
    _next

CONSTANT
    _TETrace <- _trace

ALIAS
    _expression
=============================================================================
\* Generated on Thu Sep 24 13:46:20 UTC 2026