SPECIFICATION Spec
CONSTANTS LPipes = {1, 2}
          RPipes = {3, 4}
          MaxMsgs = 14
          Ttls = {1, 2, 15}
          ReqHops = {0, 1, 2, 14, 15}
          RepHops = {0, 1, 15}
          Fanout = FALSE
INVARIANTS ForwardSound HeaderBounded WireSound
ACTION_CONSTRAINT ExportEdge
