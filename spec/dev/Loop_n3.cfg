SPECIFICATION Spec
CONSTANTS N = 3
          TtlChoices = {1, 2, 3, 6, 15}
          PinChoices = {1, 2}
          Loop = TRUE
          MaxSteps = 100
INVARIANTS Bounded ChainOK LoopDies
PROPERTY Terminates
CHECK_DEADLOCK FALSE
