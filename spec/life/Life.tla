---------------------------- MODULE Life ----------------------------
(* Life cycle of a socket with a listener, a dialer, contexts, pipes and pending operations (src/core/socket.c,
   pipe.c, listener.c, dialer.c), on a REP socket through the harness transport, in macro steps under the virtual
   clock.   C10 (close terminates, completes everything with a terminal result, invalidates handles) and
   C14 (pipe events ADD_PRE, ADD_POST, REM_POST in order and at most once; a pipe closed in ADD_PRE carries nothing;
   a dialer owns at most one pipe and dials again after loss or failure within the reconnect time; a listener keeps
   accepting). *)
EXTENDS Naturals, Sequences, FiniteSets, TLC, Json

CONSTANTS Pipes, MaxOps, MaxTicks, RMin, RMax      \* NNG_OPT_RECONNMINT, NNG_OPT_RECONNMAXT (ms)

VARIABLES
  sock,              \* "open" | "closed"
  lst, dst,          \* listener: "none" | "up" | "closed";  dialer: "none" | "idle" (created, not dialling) | "up" | "closed"
  lparked, dparked,  \* an accept / a connect is parked in the transport
  dwait,             \* the dialer's redial timer is running
  dbo,               \* ... and fires within this many ms (the back-off in force when it was armed)
  cur,               \* the dialer's current back-off: RMin after every connection, doubled (up to RMax) by every redial timer
  duser,             \* the operation of a pending nng_dialer_start_aio or blocking nng_dial (0: none)
  dblk,              \* ... it is a blocking nng_dial on another thread: the dialer has no handle yet, and is discarded if the dial fails
  dpipe,             \* the pipe the dialer owns (0: none)
  pst,               \* per pipe: "none" | "up" | "gone"      ("gone": closed, all its events delivered)
  via,               \* per pipe: "L" | "D" | "-"  (which endpoint created it)
  hist,              \* per pipe: the notifications delivered so far, in order
  reject,            \* the ADD_PRE callback closes the next pipe
  ctx1,              \* "none" | "open" | "closed"
  rops,              \* pending receives: op -> context (0: socket)
  ops, used, ticks, doneV, lastAct, ev
vars == <<sock, lst, dst, lparked, dparked, dwait, dbo, cur, duser, dblk, dpipe, pst, via, hist, reject, ctx1, rops, ops, used, ticks, doneV, lastAct, ev>>

NOps == Len(ops)
Init == /\ sock = "open" /\ lst = "up" /\ dst = "none" /\ lparked = TRUE /\ dparked = FALSE /\ dwait = FALSE /\ dbo = 0 /\ cur = RMin /\ duser = 0 /\ dblk = FALSE /\ dpipe = 0
        /\ pst = [p \in Pipes |-> "none"] /\ via = [p \in Pipes |-> "-"] /\ hist = [p \in Pipes |-> <<>>] /\ reject = FALSE
        /\ ctx1 = "none" /\ rops = <<>> /\ ops = <<>> /\ used = {} /\ ticks = 0 /\ doneV = <<>> /\ lastAct = [a |-> "init"] /\ ev = <<>>

S0 == [sock |-> sock, lst |-> lst, dst |-> dst, lparked |-> lparked, dparked |-> dparked, dwait |-> dwait, dbo |-> dbo, cur |-> cur, duser |-> duser, dblk |-> dblk, dpipe |-> dpipe,
       pst |-> pst, via |-> via, hist |-> hist, ctx1 |-> ctx1, rops |-> rops, ops |-> ops, done |-> {}, ev |-> <<>>]
SortDone(D) == LET RECURSIVE F(_) F(X) == IF X = {} THEN <<>> ELSE LET x == CHOOSE y \in X : \A z \in X : y.op <= z.op IN <<x>> \o F(X \ {x}) IN F(D)
Apply(S, a) ==
  /\ sock' = S.sock /\ lst' = S.lst /\ dst' = S.dst /\ lparked' = S.lparked /\ dparked' = S.dparked /\ dwait' = S.dwait /\ dpipe' = S.dpipe
  /\ dbo' = S.dbo /\ cur' = S.cur /\ duser' = S.duser /\ dblk' = S.dblk
  /\ pst' = S.pst /\ via' = S.via /\ hist' = S.hist /\ ctx1' = S.ctx1 /\ rops' = S.rops /\ ops' = S.ops
  /\ doneV' = SortDone(S.done) /\ ev' = S.ev /\ lastAct' = a
Note(S, p, e) == [S EXCEPT !.hist = [@ EXCEPT ![p] = Append(@, e)], !.ev = Append(@, <<p, e, Len(S.hist[p]) + 1>>)]
Min(a, b) == IF a < b THEN a ELSE b
\* dialer_timer_start_locked: the delay is random below the current back-off, which then doubles up to RMax
Arm(S) == IF S.dst = "up" THEN [S EXCEPT !.dwait = TRUE, !.dbo = S.cur, !.cur = Min(2 * S.cur, RMax)] ELSE S
\* a user operation completes
Done(S, k, rv) == [S EXCEPT !.ops = [@ EXCEPT ![k] = "done"], !.done = @ \cup {[op |-> k, rv |-> rv]}]
\* a pipe goes away: REM_POST iff it had ADD_POST; its dialer starts the redial timer
Drop(S, p) ==
  IF S.pst[p] # "up" THEN S
  ELSE LET A == Note([S EXCEPT !.pst = [@ EXCEPT ![p] = "gone"]], p, "rem")
       IN IF S.dpipe = p THEN Arm([A EXCEPT !.dpipe = 0]) ELSE A
RECURSIVE DropAll(_, _)
DropAll(S, ps) == IF ps = {} THEN S ELSE LET p == CHOOSE x \in ps : \A y \in ps : x <= y IN DropAll(Drop(S, p), ps \ {p})
\* every pending receive of the contexts in cs completes with NNG_ECLOSED
FailOps(S, cs) ==
  LET idx == {i \in 1..Len(S.rops) : S.rops[i].ctx \in cs}
      RECURSIVE F(_, _)
      F(T, I) == IF I = {} THEN T ELSE LET i == CHOOSE x \in I : TRUE IN
                   F([T EXCEPT !.ops = [@ EXCEPT ![S.rops[i].op] = "done"], !.done = @ \cup {[op |-> S.rops[i].op, rv |-> "eclosed"]}], I \ {i})
  IN [F(S, idx) EXCEPT !.rops = SelectSeq(S.rops, LAMBDA r : r.ctx \notin cs)]
\* a new pipe from endpoint e: ADD_PRE; closed there (reject) or ADD_POST
NewPipe(S, p, e) ==
  LET A0 == Note([S EXCEPT !.via = [@ EXCEPT ![p] = e]], p, "pre")
      A == IF e = "D" THEN [A0 EXCEPT !.cur = RMin] ELSE A0         \* dialer_start_pipe: connected, the back-off starts over
  IN IF reject THEN \* closed inside ADD_PRE: never announced with ADD_POST, retired with REM_POST
          LET B == [Note(A, p, "rem") EXCEPT !.pst = [@ EXCEPT ![p] = "gone"]] IN IF e = "D" THEN Arm(B) ELSE B
     ELSE LET B == Note([A EXCEPT !.pst = [@ EXCEPT ![p] = "up"]], p, "post") IN IF e = "D" THEN [B EXCEPT !.dpipe = p] ELSE B

\* ---------------------------------------------------------------- application
Recv(c) == /\ sock = "open" /\ NOps < MaxOps /\ (c = 1 => ctx1 = "open") /\ \A i \in 1..Len(rops) : rops[i].ctx # c
           /\ Apply([S0 EXCEPT !.ops = Append(@, "pend"), !.rops = Append(@, [op |-> NOps + 1, ctx |-> c])],
                    [a |-> "recv", mode |-> "aio", op |-> NOps + 1, ctx |-> c, out |-> [done |-> <<>>]])
           /\ UNCHANGED <<reject, used, ticks>>
CtxOpen == /\ sock = "open" /\ ctx1 = "none" /\ Apply([S0 EXCEPT !.ctx1 = "open"], [a |-> "ctx_open", ctx |-> 1, out |-> [rv |-> "ok"]])
           /\ UNCHANGED <<reject, used, ticks>>
CtxClose == /\ sock = "open" /\ ctx1 = "open" /\ Apply(FailOps([S0 EXCEPT !.ctx1 = "closed"], {1}), [a |-> "ctx_close", ctx |-> 1, out |-> [rv |-> "ok", done |-> <<>>]])
            /\ UNCHANGED <<reject, used, ticks>>
Dial == /\ sock = "open" /\ dst \in {"none", "idle"} /\ Apply([S0 EXCEPT !.dst = "up", !.dparked = TRUE], [a |-> "dial", out |-> [rv |-> "ok"]])
        /\ UNCHANGED <<reject, used, ticks>>
\* nng_dialer_start_aio with an operation that cannot start (zero timeout): it completes once, with NNG_ETIMEDOUT, and the dialer
\* is not dialling (it can be started again);  C02 for the dial operation, C14
DialAio0 == /\ sock = "open" /\ dst \in {"none", "idle"} /\ NOps < MaxOps
            /\ Apply(Done([S0 EXCEPT !.ops = Append(@, "pend"), !.dst = "idle"], NOps + 1, "etimedout"),
                     [a |-> "dial", mode |-> "aio0", op |-> NOps + 1, out |-> [rv |-> "ok"]])
            /\ UNCHANGED <<reject, used, ticks>>
\* ... with an operation that waits for the outcome of the first attempt
DialAio == /\ sock = "open" /\ dst \in {"none", "idle"} /\ NOps < MaxOps
           /\ Apply([S0 EXCEPT !.ops = Append(@, "pend"), !.dst = "up", !.dparked = TRUE, !.duser = NOps + 1],
                    [a |-> "dial", mode |-> "aio", op |-> NOps + 1, out |-> [rv |-> "ok"]])
           /\ UNCHANGED <<reject, used, ticks>>
\* a blocking nng_dial (no NNG_FLAG_NONBLOCK) issued by another application thread: it returns when the first attempt ends; if that
\* fails, or the socket is closed under it, the dialer is discarded (no handle was ever handed out) and the call fails
DialBlock == /\ sock = "open" /\ dst = "none" /\ NOps < MaxOps
             /\ Apply([S0 EXCEPT !.ops = Append(@, "pend"), !.dst = "up", !.dparked = TRUE, !.duser = NOps + 1, !.dblk = TRUE],
                      [a |-> "dial", mode |-> "block", op |-> NOps + 1, out |-> [rv |-> "ok"]])
             /\ UNCHANGED <<reject, used, ticks>>
SetReject(b) == /\ sock = "open" /\ reject # b /\ reject' = b /\ Apply(S0, [a |-> "reject", on |-> b, out |-> [rv |-> "ok"]])
                /\ UNCHANGED <<used, ticks>>
LClose == /\ sock = "open" /\ lst = "up"
          /\ Apply(DropAll([S0 EXCEPT !.lst = "closed", !.lparked = FALSE], {p \in Pipes : via[p] = "L"}), [a |-> "lclose", out |-> [rv |-> "ok"]])
          /\ UNCHANGED <<reject, used, ticks>>
UserEnd(S, rv) == IF S.duser = 0 THEN S ELSE Done([S EXCEPT !.duser = 0, !.dblk = FALSE], S.duser, rv)
DClose == /\ sock = "open" /\ dst \in {"up", "idle"} /\ ~dblk
          /\ Apply(DropAll(UserEnd([S0 EXCEPT !.dst = "closed", !.dparked = FALSE, !.dwait = FALSE], "eclosed"), {p \in Pipes : via[p] = "D"}),
                   [a |-> "dclose", out |-> [rv |-> "ok"]])
          /\ UNCHANGED <<reject, used, ticks>>
PipeClose(p) == /\ sock = "open" /\ pst[p] = "up" /\ Apply(Drop(S0, p), [a |-> "pipe_close", p |-> p]) /\ UNCHANGED <<reject, used, ticks>>
Close == /\ sock = "open"
         /\ Apply(FailOps(DropAll(UserEnd([S0 EXCEPT !.sock = "closed", !.lst = IF lst = "up" THEN "closed" ELSE @, !.dst = IF dblk THEN "none" ELSE IF dst \in {"up", "idle"} THEN "closed" ELSE @,
                                              !.lparked = FALSE, !.dparked = FALSE, !.dwait = FALSE, !.ctx1 = IF ctx1 = "open" THEN "closed" ELSE @], "eclosed"), Pipes), {0, 1}),
                  [a |-> "close", out |-> [rv |-> "ok"]])
         /\ UNCHANGED <<reject, used, ticks>>
\* after close every handle is refused: socket, context, listener, dialer, pipes
Probe == /\ sock = "closed" /\ lastAct.a # "probe"
         /\ Apply(S0, [a |-> "probe", out |-> [sock |-> "invalid", ctx |-> IF ctx1 = "none" THEN "none" ELSE "invalid",
                                               lst |-> "invalid", dial |-> IF dst = "none" THEN "none" ELSE "invalid", pipes |-> "invalid"]])
         /\ UNCHANGED <<reject, used, ticks>>

\* ---------------------------------------------------------------- environment
ConnectL(p) == /\ sock = "open" /\ lparked /\ p \notin used /\ used' = used \cup {p}
               /\ Apply(NewPipe(S0, p, "L"), [a |-> "connect", p |-> p, out |-> [rv |-> "ok"]]) /\ UNCHANGED <<reject, ticks>>
ConnectD(p) == /\ sock = "open" /\ dparked /\ p \notin used /\ used' = used \cup {p}
               /\ Apply(UserEnd(NewPipe([S0 EXCEPT !.dparked = FALSE], p, "D"), "ok"), [a |-> "connect", p |-> p, side |-> "D", out |-> [rv |-> "ok"]])
               /\ UNCHANGED <<reject, ticks>>
\* a failed attempt: in the background the dialer arms its redial timer; with a user operation waiting that operation fails and
\* the dialer stops (it can be started again)
DFail == /\ sock = "open" /\ dparked
         /\ Apply(IF duser = 0 THEN Arm([S0 EXCEPT !.dparked = FALSE])
                               ELSE UserEnd([S0 EXCEPT !.dparked = FALSE, !.dst = IF dblk THEN "none" ELSE "idle"], "econnrefused"), [a |-> "dfail", out |-> [rv |-> "ok"]])
         /\ UNCHANGED <<reject, used, ticks>>
PeerClose(p) == /\ sock = "open" /\ pst[p] = "up" /\ Apply(Drop(S0, p), [a |-> "peer_close", p |-> p]) /\ UNCHANGED <<reject, used, ticks>>
\* the back-off in force passes: a waiting dialer has dialled again (C14: the delay is below that bound, which never exceeds RMax)
Tick == /\ ticks < MaxTicks /\ ticks' = ticks + 1
        /\ Apply(IF dwait THEN [S0 EXCEPT !.dwait = FALSE, !.dparked = TRUE] ELSE S0, [a |-> "tick", d |-> IF dwait THEN dbo ELSE RMin, out |-> [done |-> <<>>]])
        /\ UNCHANGED <<reject, used>>

Next == Recv(0) \/ Recv(1) \/ CtxOpen \/ CtxClose \/ Dial \/ DialAio0 \/ DialAio \/ DialBlock \/ SetReject(TRUE) \/ SetReject(FALSE) \/ LClose \/ DClose \/ Close \/ Probe
        \/ DFail \/ Tick \/ \E p \in Pipes : ConnectL(p) \/ ConnectD(p) \/ PipeClose(p) \/ PeerClose(p)
Spec == Init /\ [][Next]_vars

\* ---------------------------------------------------------------- properties
Prefixes == {<<>>, <<"pre">>, <<"pre", "post">>, <<"pre", "post", "rem">>, <<"pre", "rem">>}
EventOrder == \A p \in Pipes : hist[p] \in Prefixes /\ (pst[p] = "up" <=> hist[p] = <<"pre", "post">>)
                              /\ (pst[p] = "gone" => hist[p] \in {<<"pre", "rem">>, <<"pre", "post", "rem">>})
\* C14: a dialer owns at most one pipe; while it is up and owns none it is dialling or waiting to
DialerSound == /\ Cardinality({p \in Pipes : via[p] = "D" /\ pst[p] = "up"}) <= 1
               /\ (dpipe # 0 => pst[dpipe] = "up" /\ via[dpipe] = "D")
               /\ (dst = "up" => (dpipe # 0 /\ ~dparked /\ ~dwait) \/ (dpipe = 0 /\ (dparked # dwait)))
               /\ (dst # "up" => ~dparked /\ ~dwait /\ dpipe = 0 /\ duser = 0)
               /\ (dblk => duser # 0 /\ dparked)
               /\ (dwait => dbo <= RMax /\ dbo >= RMin) /\ cur <= RMax
ListenerSound == (lst = "up" /\ sock = "open") => lparked
\* C10: after close nothing is pending, every pipe that was announced has been retired, every endpoint is down
ClosedIsFinal == sock = "closed" => /\ rops = <<>> /\ \A i \in 1..Len(ops) : ops[i] = "done"
                                    /\ \A p \in Pipes : pst[p] # "up" /\ ~lparked /\ ~dparked /\ ~dwait
CtxClosedIsFinal == ctx1 = "closed" => \A i \in 1..Len(rops) : rops[i].ctx # 1

SId == <<sock, lst, dst, lparked, dparked, dwait, dbo, cur, duser, dblk, dpipe, pst, via, hist, reject, ctx1, rops, ops, used, ticks>>
UpSet == {p \in Pipes : pst[p] = "up"}
WireObs == LET RECURSIVE F(_) F(S) == IF S = {} THEN <<>> ELSE LET p == CHOOSE x \in S : \A y \in S : x <= y IN <<p>> \o F(S \ {p}) IN F(UpSet)
Obs == [done |-> doneV, S_ev |-> ev, up |-> WireObs, lparked |-> lparked, dparked |-> dparked]
FinV == 0
ExportEdge == PrintT(<<"E", ToJson([s |-> SId, sa |-> lastAct, d |-> SId', act |-> lastAct', obs |-> Obs', fin |-> FinV'])>>)
View == SId
=====================================================================
