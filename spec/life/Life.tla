---------------------------- MODULE Life ----------------------------
(* Life cycle of a socket with a listener, a dialer, contexts, pipes and pending operations (src/core/socket.c,
   pipe.c, listener.c, dialer.c), on a REP socket through the harness transport, in macro steps under the virtual
   clock.   C10 (close terminates, completes everything with a terminal result, invalidates handles) and
   C14 (pipe events ADD_PRE, ADD_POST, REM_POST in order and at most once; a pipe closed in ADD_PRE carries nothing;
   a dialer owns at most one pipe and dials again after loss or failure within the reconnect time; a listener keeps
   accepting). *)
EXTENDS Naturals, Sequences, FiniteSets, TLC, Json

CONSTANTS Pipes, MaxOps, MaxTicks, RTime      \* RTime: NNG_OPT_RECONNMINT = NNG_OPT_RECONNMAXT (ms)

VARIABLES
  sock,              \* "open" | "closed"
  lst, dst,          \* listener / dialer: "none" | "up" | "closed"
  lparked, dparked,  \* an accept / a connect is parked in the transport
  dwait,             \* the dialer's redial timer is running
  dpipe,             \* the pipe the dialer owns (0: none)
  pst,               \* per pipe: "none" | "up" | "gone"      ("gone": closed, all its events delivered)
  via,               \* per pipe: "L" | "D" | "-"  (which endpoint created it)
  hist,              \* per pipe: the notifications delivered so far, in order
  reject,            \* the ADD_PRE callback closes the next pipe
  ctx1,              \* "none" | "open" | "closed"
  rops,              \* pending receives: op -> context (0: socket)
  ops, used, ticks, doneV, lastAct, ev
vars == <<sock, lst, dst, lparked, dparked, dwait, dpipe, pst, via, hist, reject, ctx1, rops, ops, used, ticks, doneV, lastAct, ev>>

NOps == Len(ops)
Init == /\ sock = "open" /\ lst = "up" /\ dst = "none" /\ lparked = TRUE /\ dparked = FALSE /\ dwait = FALSE /\ dpipe = 0
        /\ pst = [p \in Pipes |-> "none"] /\ via = [p \in Pipes |-> "-"] /\ hist = [p \in Pipes |-> <<>>] /\ reject = FALSE
        /\ ctx1 = "none" /\ rops = <<>> /\ ops = <<>> /\ used = {} /\ ticks = 0 /\ doneV = <<>> /\ lastAct = [a |-> "init"] /\ ev = <<>>

S0 == [sock |-> sock, lst |-> lst, dst |-> dst, lparked |-> lparked, dparked |-> dparked, dwait |-> dwait, dpipe |-> dpipe,
       pst |-> pst, via |-> via, hist |-> hist, ctx1 |-> ctx1, rops |-> rops, ops |-> ops, done |-> {}, ev |-> <<>>]
SortDone(D) == LET RECURSIVE F(_) F(X) == IF X = {} THEN <<>> ELSE LET x == CHOOSE y \in X : \A z \in X : y.op <= z.op IN <<x>> \o F(X \ {x}) IN F(D)
Apply(S, a) ==
  /\ sock' = S.sock /\ lst' = S.lst /\ dst' = S.dst /\ lparked' = S.lparked /\ dparked' = S.dparked /\ dwait' = S.dwait /\ dpipe' = S.dpipe
  /\ pst' = S.pst /\ via' = S.via /\ hist' = S.hist /\ ctx1' = S.ctx1 /\ rops' = S.rops /\ ops' = S.ops
  /\ doneV' = SortDone(S.done) /\ ev' = S.ev /\ lastAct' = a
Note(S, p, e) == [S EXCEPT !.hist = [@ EXCEPT ![p] = Append(@, e)], !.ev = Append(@, <<p, e, Len(S.hist[p]) + 1>>)]
\* a pipe goes away: REM_POST iff it had ADD_POST; its dialer starts the redial timer
Drop(S, p) ==
  IF S.pst[p] # "up" THEN S
  ELSE LET A == Note([S EXCEPT !.pst = [@ EXCEPT ![p] = "gone"]], p, "rem")
       IN IF S.dpipe = p THEN [A EXCEPT !.dpipe = 0, !.dwait = (S.dst = "up")] ELSE A
RECURSIVE DropAll(_, _)
DropAll(S, ps) == IF ps = {} THEN S ELSE LET p == CHOOSE x \in ps : \A y \in ps : x <= y IN DropAll(Drop(S, p), ps \ {p})
\* every pending receive of the contexts in cs completes with NNG_ECLOSED
FailOps(S, cs) ==
  LET idx == {i \in 1..Len(S.rops) : S.rops[i].ctx \in cs}
      RECURSIVE F(_, _)
      F(T, I) == IF I = {} THEN T ELSE LET i == CHOOSE x \in I : TRUE IN
                   F([T EXCEPT !.ops = [@ EXCEPT ![S.rops[i].op] = "done"], !.done = @ \cup {[op |-> S.rops[i].op, rv |-> "eclosed"]}], I \ {i})
  IN [F(S, idx) EXCEPT !.rops = SelectSeq(S.rops, LAMBDA r : r.ctx \notin cs)]
\* a new pipe from endpoint e: ADD_PRE; closed there (reject) or ADD_POST
NewPipe(S, p, e) ==
  LET A == Note([S EXCEPT !.via = [@ EXCEPT ![p] = e]], p, "pre")
  IN IF reject THEN \* closed inside ADD_PRE: never announced with ADD_POST, retired with REM_POST
          [Note(A, p, "rem") EXCEPT !.pst = [@ EXCEPT ![p] = "gone"], !.dwait = IF e = "D" /\ S.dst = "up" THEN TRUE ELSE @]
     ELSE LET B == Note([A EXCEPT !.pst = [@ EXCEPT ![p] = "up"]], p, "post") IN IF e = "D" THEN [B EXCEPT !.dpipe = p] ELSE B

\* ---------------------------------------------------------------- application
Recv(c) == /\ sock = "open" /\ NOps < MaxOps /\ (c = 1 => ctx1 = "open") /\ \A i \in 1..Len(rops) : rops[i].ctx # c
           /\ Apply([S0 EXCEPT !.ops = Append(@, "pend"), !.rops = Append(@, [op |-> NOps + 1, ctx |-> c])],
                    [a |-> "recv", mode |-> "aio", op |-> NOps + 1, ctx |-> c, out |-> [done |-> <<>>]])
           /\ UNCHANGED <<reject, used, ticks>>
CtxOpen == /\ sock = "open" /\ ctx1 = "none" /\ Apply([S0 EXCEPT !.ctx1 = "open"], [a |-> "ctx_open", ctx |-> 1, out |-> [rv |-> "ok"]])
           /\ UNCHANGED <<reject, used, ticks>>
CtxClose == /\ sock = "open" /\ ctx1 = "open" /\ Apply(FailOps([S0 EXCEPT !.ctx1 = "closed"], {1}), [a |-> "ctx_close", ctx |-> 1, out |-> [rv |-> "ok", done |-> <<>>]])
            /\ UNCHANGED <<reject, used, ticks>>
Dial == /\ sock = "open" /\ dst = "none" /\ Apply([S0 EXCEPT !.dst = "up", !.dparked = TRUE], [a |-> "dial", out |-> [rv |-> "ok"]])
        /\ UNCHANGED <<reject, used, ticks>>
SetReject(b) == /\ sock = "open" /\ reject # b /\ reject' = b /\ Apply(S0, [a |-> "reject", on |-> b, out |-> [rv |-> "ok"]])
                /\ UNCHANGED <<used, ticks>>
LClose == /\ sock = "open" /\ lst = "up"
          /\ Apply(DropAll([S0 EXCEPT !.lst = "closed", !.lparked = FALSE], {p \in Pipes : via[p] = "L"}), [a |-> "lclose", out |-> [rv |-> "ok"]])
          /\ UNCHANGED <<reject, used, ticks>>
DClose == /\ sock = "open" /\ dst = "up"
          /\ Apply(DropAll([S0 EXCEPT !.dst = "closed", !.dparked = FALSE, !.dwait = FALSE], {p \in Pipes : via[p] = "D"}), [a |-> "dclose", out |-> [rv |-> "ok"]])
          /\ UNCHANGED <<reject, used, ticks>>
PipeClose(p) == /\ sock = "open" /\ pst[p] = "up" /\ Apply(Drop(S0, p), [a |-> "pipe_close", p |-> p]) /\ UNCHANGED <<reject, used, ticks>>
Close == /\ sock = "open"
         /\ Apply(FailOps(DropAll([S0 EXCEPT !.sock = "closed", !.lst = IF lst = "up" THEN "closed" ELSE @, !.dst = IF dst = "up" THEN "closed" ELSE @,
                                              !.lparked = FALSE, !.dparked = FALSE, !.dwait = FALSE, !.ctx1 = IF ctx1 = "open" THEN "closed" ELSE @], Pipes), {0, 1}),
                  [a |-> "close", out |-> [rv |-> "ok"]])
         /\ UNCHANGED <<reject, used, ticks>>
\* after close every handle is refused: socket, context, listener, dialer, pipes
Probe == /\ sock = "closed" /\ lastAct.a # "probe"
         /\ Apply(S0, [a |-> "probe", out |-> [sock |-> "invalid", ctx |-> IF ctx1 = "none" THEN "none" ELSE "invalid",
                                               lst |-> "invalid", dial |-> IF dst = "none" THEN "none" ELSE "invalid", pipes |-> "invalid"]])
         /\ UNCHANGED <<reject, used, ticks>>

\* ---------------------------------------------------------------- environment
ConnectL(p) == /\ sock = "open" /\ lparked /\ p \notin used /\ used' = used \cup {p}
               /\ Apply(NewPipe(S0, p, "L"), [a |-> "connect", p |-> p, out |-> [rv |-> "ok"]]) /\ UNCHANGED <<reject, ticks>>
ConnectD(p) == /\ sock = "open" /\ dparked /\ p \notin used /\ used' = used \cup {p}
               /\ Apply(NewPipe([S0 EXCEPT !.dparked = FALSE], p, "D"), [a |-> "connect", p |-> p, side |-> "D", out |-> [rv |-> "ok"]])
               /\ UNCHANGED <<reject, ticks>>
DFail == /\ sock = "open" /\ dparked /\ Apply([S0 EXCEPT !.dparked = FALSE, !.dwait = TRUE], [a |-> "dfail", out |-> [rv |-> "ok"]])
         /\ UNCHANGED <<reject, used, ticks>>
PeerClose(p) == /\ sock = "open" /\ pst[p] = "up" /\ Apply(Drop(S0, p), [a |-> "peer_close", p |-> p]) /\ UNCHANGED <<reject, used, ticks>>
\* the reconnect time passes: a waiting dialer has dialled again
Tick == /\ ticks < MaxTicks /\ ticks' = ticks + 1
        /\ Apply(IF dwait THEN [S0 EXCEPT !.dwait = FALSE, !.dparked = TRUE] ELSE S0, [a |-> "tick", d |-> RTime, out |-> [done |-> <<>>]])
        /\ UNCHANGED <<reject, used>>

Next == Recv(0) \/ Recv(1) \/ CtxOpen \/ CtxClose \/ Dial \/ SetReject(TRUE) \/ SetReject(FALSE) \/ LClose \/ DClose \/ Close \/ Probe
        \/ DFail \/ Tick \/ \E p \in Pipes : ConnectL(p) \/ ConnectD(p) \/ PipeClose(p) \/ PeerClose(p)
Spec == Init /\ [][Next]_vars

\* ---------------------------------------------------------------- properties
Prefixes == {<<>>, <<"pre">>, <<"pre", "post">>, <<"pre", "post", "rem">>, <<"pre", "rem">>}
EventOrder == \A p \in Pipes : hist[p] \in Prefixes /\ (pst[p] = "up" <=> hist[p] = <<"pre", "post">>)
                              /\ (pst[p] = "gone" => hist[p] \in {<<"pre", "rem">>, <<"pre", "post", "rem">>})
\* C14: a dialer owns at most one pipe; while it is up and owns none it is dialling or waiting to
DialerSound == /\ Cardinality({p \in Pipes : via[p] = "D" /\ pst[p] = "up"}) <= 1
               /\ (dpipe # 0 => pst[dpipe] = "up" /\ via[dpipe] = "D")
               /\ (dst = "up" => (dpipe # 0 /\ ~dparked /\ ~dwait) \/ (dpipe = 0 /\ (dparked # dwait)))
ListenerSound == (lst = "up" /\ sock = "open") => lparked
\* C10: after close nothing is pending, every pipe that was announced has been retired, every endpoint is down
ClosedIsFinal == sock = "closed" => /\ rops = <<>> /\ \A i \in 1..Len(ops) : ops[i] = "done"
                                    /\ \A p \in Pipes : pst[p] # "up" /\ ~lparked /\ ~dparked /\ ~dwait
CtxClosedIsFinal == ctx1 = "closed" => \A i \in 1..Len(rops) : rops[i].ctx # 1

SId == <<sock, lst, dst, lparked, dparked, dwait, dpipe, pst, via, hist, reject, ctx1, rops, ops, used, ticks>>
UpSet == {p \in Pipes : pst[p] = "up"}
WireObs == LET RECURSIVE F(_) F(S) == IF S = {} THEN <<>> ELSE LET p == CHOOSE x \in S : \A y \in S : x <= y IN <<p>> \o F(S \ {p}) IN F(UpSet)
Obs == [done |-> doneV, S_ev |-> ev, up |-> WireObs, lparked |-> lparked, dparked |-> dparked]
FinV == 0
ExportEdge == PrintT(<<"E", ToJson([s |-> SId, sa |-> lastAct, d |-> SId', act |-> lastAct', obs |-> Obs', fin |-> FinV'])>>)
View == SId
=====================================================================
