---------------------------- MODULE LifeEv ----------------------------
(* Life cycle of one socket with its endpoints, pipes and contexts at the grain of the critical sections of
   src/core/socket.c, pipe.c, dialer.c, listener.c: one action per NNG_VERIF life-cycle trace point (H-LIFE).
   Every action is  guard /\ update ; the guards are what C10 and C14 demand of the implementation:

     - no step ever touches an object that has been destroyed (or was never created): every guard starts with "live";
     - pipe notifications: ADD_PRE < ADD_POST < REM_POST, each at most once, POST only for a started pipe, REM only
       while the pipe is being reaped, and a pipe that got ADD_POST is not removed before it got REM_POST;
     - a pipe is reaped only after it was closed, in the order reap, unregister, stop, remove, destroy;
     - a dialer owns at most one pipe, connects only while it owns none, and its redial delay bound is at most
       the larger configured reconnect time;
     - an endpoint is reaped only when it is closed, idle and all its pipes are removed;
     - socket shutdown completes only when every endpoint is closed, every pipe removed, every context destroyed;
       the socket is destroyed only after that and after every endpoint released it;
     - after the socket is closed no lookup of the socket or of its contexts succeeds, and lookups do not fail
       while the object is open.

   The module is used twice: life/Teardown.tla adds the threads that execute these steps (application closers,
   reaper, endpoint callbacks) and lets TLC explore every interleaving, including termination of close under
   fairness; trace/TraceLife.tla replays recorded executions of the real library through the same actions. *)
EXTENDS Naturals, FiniteSets, TLC

CONSTANTS Pipes, Eps, Ctxs        \* object numbers (within one socket)

VARIABLES s,     \* socket  [st : none|open|destroyed, closing, shut, closed : BOOLEAN]
          ep,    \* ep[e]   [st : none|open|closed|reaped|destroyed, k : "d"|"l"|"-", dpipe : 0 or pipe, busy : BOOLEAN]
          pp,    \* pp[p]   [st : none|live|destroyed, ep, closed, tries, ev : 0..3, started : no|ok|rej_cb|rej_proto, reap : 0..4,
                 \*          remoff : the reaper found no notification callback registered when REM_POST was due]
          cx     \* cx[c]   none|open|closed|destroyed
evars == <<s, ep, pp, cx>>

S0  == [st |-> "none", closing |-> FALSE, shut |-> FALSE, closed |-> FALSE]
E0  == [st |-> "none", k |-> "-", dpipe |-> 0, busy |-> FALSE]
P0  == [st |-> "none", ep |-> 0, closed |-> FALSE, tries |-> 0, ev |-> 0, started |-> "no", reap |-> 0, remoff |-> FALSE]
EvInit == s = S0 /\ ep = [e \in Eps |-> E0] /\ pp = [p \in Pipes |-> P0] /\ cx = [c \in Ctxs |-> "none"]

Max(a, b) == IF a > b THEN a ELSE b
LiveP(p) == p \in Pipes /\ pp[p].st = "live"
LiveE(e) == e \in Eps /\ ep[e].st \in {"open", "closed"}
PipesOf(e) == {p \in Pipes : pp[p].st = "live" /\ pp[p].ep = e /\ pp[p].reap < 4}
ECLOSED == 7
EBUSY == 4

\* ------------------------------------------------------------------ socket
SOpen == /\ s.st = "none" /\ s' = [S0 EXCEPT !.st = "open"] /\ UNCHANGED <<ep, pp, cx>>
\* nni_sock_add_dialer / nni_sock_add_listener (refused once the socket is closing)
SEpAdd(e, k) == /\ s.st = "open" /\ ~s.closing /\ e \in Eps /\ ep[e].st \in {"none", "destroyed"}
                /\ ep' = [ep EXCEPT ![e] = [E0 EXCEPT !.st = "open", !.k = k]] /\ UNCHANGED <<s, pp, cx>>
SClosing == /\ s.st = "open" /\ ~s.closing /\ s' = [s EXCEPT !.closing = TRUE] /\ UNCHANGED <<ep, pp, cx>>
\* sock_shutdown has waited for the pipes and the contexts
SShut == /\ s.st = "open" /\ s.closing /\ ~s.shut
         /\ \A e \in Eps : ep[e].st # "open"
         /\ \A p \in Pipes : pp[p].st = "live" => pp[p].reap = 4
         /\ \A c \in Ctxs : cx[c] \in {"none", "destroyed"}
         /\ s' = [s EXCEPT !.shut = TRUE] /\ UNCHANGED <<ep, pp, cx>>
SClosed == /\ s.st = "open" /\ s.closing /\ ~s.closed /\ s' = [s EXCEPT !.closed = TRUE] /\ UNCHANGED <<ep, pp, cx>>
SDestroy == /\ s.st = "open" /\ s.shut /\ s.closed
            /\ \A e \in Eps : ep[e].st \in {"none", "reaped", "destroyed"}
            /\ \A p \in Pipes : pp[p].st = "live" => pp[p].reap = 4
            /\ \A c \in Ctxs : cx[c] \in {"none", "destroyed"}
            /\ s' = [s EXCEPT !.st = "destroyed"] /\ UNCHANGED <<ep, pp, cx>>
\* nni_sock_find (logged when it fails or the socket is closing/closed)
SFind(rv) == /\ (rv = 0 => s.st = "open" /\ ~s.closed)
             /\ (rv = ECLOSED => s.st # "open" \/ s.closed)
             /\ rv \in {0, ECLOSED, EBUSY}
             /\ UNCHANGED evars

\* ------------------------------------------------------------------ contexts
COpen(c) == /\ s.st = "open" /\ ~s.closed /\ c \in Ctxs /\ cx[c] \in {"none", "destroyed"}
            /\ cx' = [cx EXCEPT ![c] = "open"] /\ UNCHANGED <<s, ep, pp>>
CClose(c, bysock) == /\ c \in Ctxs /\ (cx[c] = "open" \/ (bysock /\ cx[c] = "closed"))
                     /\ (bysock => s.closing)
                     /\ cx' = [cx EXCEPT ![c] = "closed"] /\ UNCHANGED <<s, ep, pp>>
CDestroy(c) == /\ c \in Ctxs /\ cx[c] = "closed" /\ cx' = [cx EXCEPT ![c] = "destroyed"] /\ UNCHANGED <<s, ep, pp>>
\* a failed nni_ctx_find: only for a context that is closed (or gone) or whose socket is closed
CFindFail(c) == /\ (c \in Ctxs => cx[c] # "open" \/ s.closed \/ s.st # "open") /\ UNCHANGED evars

\* ------------------------------------------------------------------ endpoints
ECreate(e) == LiveE(e) /\ ep[e].st = "open" /\ UNCHANGED evars
DConnect(e) == /\ LiveE(e) /\ ep[e].k = "d" /\ ~ep[e].busy /\ ep[e].dpipe = 0
               /\ ep' = [ep EXCEPT ![e].busy = TRUE] /\ UNCHANGED <<s, pp, cx>>
DConnectCb(e) == /\ LiveE(e) /\ ep[e].k = "d" /\ ep[e].busy
                 /\ ep' = [ep EXCEPT ![e].busy = FALSE] /\ UNCHANGED <<s, pp, cx>>
\* dialer_timer_start_locked: bo is the bound of the randomised delay
DTimer(e, bo, ini, max) == /\ LiveE(e) /\ ep[e].k = "d" /\ ep[e].dpipe = 0 /\ ~ep[e].busy
                           /\ bo <= Max(ini, max)
                           /\ UNCHANGED evars
DPipeSet(e, p) == /\ LiveE(e) /\ ep[e].k = "d" /\ ep[e].dpipe = 0 /\ LiveP(p) /\ pp[p].ep = e /\ pp[p].reap < 4
                  /\ pp[p].started = "no"
                  /\ ep' = [ep EXCEPT ![e].dpipe = p] /\ UNCHANGED <<s, pp, cx>>
LAccept(e) == /\ LiveE(e) /\ ep[e].k = "l" /\ ~ep[e].busy
              /\ ep' = [ep EXCEPT ![e].busy = TRUE] /\ UNCHANGED <<s, pp, cx>>
LAcceptCb(e) == /\ LiveE(e) /\ ep[e].k = "l" /\ ep[e].busy
                /\ ep' = [ep EXCEPT ![e].busy = FALSE] /\ UNCHANGED <<s, pp, cx>>
EClosed(e) == /\ e \in Eps /\ ep[e].st = "open" /\ ep' = [ep EXCEPT ![e].st = "closed"] /\ UNCHANGED <<s, pp, cx>>
EReap(e) == /\ e \in Eps /\ ep[e].st = "closed" /\ ~ep[e].busy /\ PipesOf(e) = {} /\ s.st = "open"
            /\ ep' = [ep EXCEPT ![e].st = "reaped"] /\ UNCHANGED <<s, pp, cx>>
EDestroy(e) == /\ e \in Eps /\ ep[e].st = "reaped" /\ ep' = [ep EXCEPT ![e].st = "destroyed"] /\ UNCHANGED <<s, pp, cx>>

\* ------------------------------------------------------------------ pipes
PAdd(p, e) == /\ LiveE(e) /\ s.st = "open" /\ ~s.shut /\ p \in Pipes /\ pp[p].st \in {"none", "destroyed"}
              /\ pp' = [pp EXCEPT ![p] = [P0 EXCEPT !.st = "live", !.ep = e]] /\ UNCHANGED <<s, ep, cx>>
PCloseTry(p) == /\ LiveP(p) /\ pp' = [pp EXCEPT ![p].tries = IF @ < 3 THEN @ + 1 ELSE @] /\ UNCHANGED <<s, ep, cx>>
PClose(p) == /\ LiveP(p) /\ ~pp[p].closed /\ pp[p].tries > 0
             /\ pp' = [pp EXCEPT ![p].closed = TRUE] /\ UNCHANGED <<s, ep, cx>>
PEv(p, n) == /\ LiveP(p) /\ n \in 1..3 /\ n > pp[p].ev /\ (pp[p].ev = 0 => n = 1)
             /\ (n = 1 => pp[p].started = "no")
             /\ (n = 2 => pp[p].started = "ok")
             /\ (n = 3 => pp[p].reap \in 1..3)
             /\ pp' = [pp EXCEPT ![p].ev = n] /\ UNCHANGED <<s, ep, cx>>
\* nni_pipe_run_cb with no callback registered on the socket: nothing is delivered or recorded
PEvOff(p, n) == /\ LiveP(p) /\ n \in 1..3 /\ (n = 3 => pp[p].reap \in 1..3)
                /\ pp' = (IF n = 3 THEN [pp EXCEPT ![p].remoff = TRUE] ELSE pp) /\ UNCHANGED <<s, ep, cx>>
\* (the reaper may already have removed a pipe that was closed early: the starting thread still holds its reference)
PStart(p, res) == /\ LiveP(p) /\ pp[p].started = "no"
                  /\ res \in {"ok", "rej_cb", "rej_proto"}
                  /\ (res = "rej_cb" => pp[p].closed \/ pp[p].tries > 0)
                  /\ pp' = [pp EXCEPT ![p].started = res] /\ UNCHANGED <<s, ep, cx>>
PReap(p) == /\ LiveP(p) /\ pp[p].closed /\ pp[p].reap = 0 /\ pp' = [pp EXCEPT ![p].reap = 1] /\ UNCHANGED <<s, ep, cx>>
PUnreg(p) == /\ LiveP(p) /\ pp[p].reap = 1 /\ pp' = [pp EXCEPT ![p].reap = 2] /\ UNCHANGED <<s, ep, cx>>
PStopped(p) == /\ LiveP(p) /\ pp[p].reap = 2 /\ pp' = [pp EXCEPT ![p].reap = 3] /\ UNCHANGED <<s, ep, cx>>
\* nni_pipe_remove: redial says whether this was the dialer's pipe (then the dialer arms its redial timer)
PRemove(p, redial) == /\ LiveP(p) /\ pp[p].reap = 3 /\ (pp[p].ev = 2 => pp[p].remoff) /\ s.st = "open"
                      /\ LET e == pp[p].ep IN
                         /\ e \in Eps /\ ep[e].st \in {"open", "closed"}
                         /\ redial = (ep[e].k = "d" /\ ep[e].dpipe = p)
                         /\ ep' = IF redial THEN [ep EXCEPT ![e].dpipe = 0] ELSE ep
                      /\ pp' = [pp EXCEPT ![p].reap = 4] /\ UNCHANGED <<s, cx>>
PDestroy(p) == /\ LiveP(p) /\ pp[p].reap = 4 /\ (pp[p].ev >= 1 => pp[p].started # "no")
               /\ pp' = [pp EXCEPT ![p].st = "destroyed"] /\ UNCHANGED <<s, ep, cx>>
\* nni_pipe_find of a closed pipe: it is still registered
PFindClosed(p) == LiveP(p) /\ pp[p].reap < 2 /\ UNCHANGED evars

\* ------------------------------------------------------------------ state invariants
DialerOnePipe == \A e \in Eps : ep[e].k = "d" /\ ep[e].st \in {"open", "closed"} =>
                    Cardinality({p \in PipesOf(e) : pp[p].started = "ok"}) <= 1
DPipeSound == \A e \in Eps : ep[e].dpipe # 0 => ep[e].dpipe \in PipesOf(e)
NothingOutlivesSocket == s.st = "destroyed" => \A p \in Pipes : pp[p].st = "live" => pp[p].reap = 4
EvInv == DialerOnePipe /\ DPipeSound /\ NothingOutlivesSocket
=====================================================================
