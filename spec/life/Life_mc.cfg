SPECIFICATION Spec
CONSTANTS Pipes = {1, 2, 3}
          MaxOps = 2
          MaxTicks = 3
          RTime = 10
INVARIANTS EventOrder DialerSound ListenerSound ClosedIsFinal CtxClosedIsFinal
VIEW View
