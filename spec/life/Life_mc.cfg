SPECIFICATION Spec
CONSTANTS Pipes = {1, 2, 3}
          MaxOps = 2
          MaxTicks = 3
          RMin = 10
          RMax = 25
INVARIANTS EventOrder DialerSound ListenerSound ClosedIsFinal CtxClosedIsFinal
VIEW View
