SPECIFICATION Spec
CONSTANTS Pipes = {1, 2, 3, 4}
          MaxOps = 3
          MaxTicks = 5
          RTime = 10
INVARIANTS EventOrder DialerSound ListenerSound ClosedIsFinal CtxClosedIsFinal
ACTION_CONSTRAINT ExportEdge
