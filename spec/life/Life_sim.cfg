SPECIFICATION Spec
CONSTANTS Pipes = {1, 2, 3, 4}
          MaxOps = 3
          MaxTicks = 5
          RMin = 10
          RMax = 25
INVARIANTS EventOrder DialerSound ListenerSound ClosedIsFinal CtxClosedIsFinal
ACTION_CONSTRAINT ExportEdge
