SPECIFICATION TSpec
CONSTANTS Pipes = {1, 2, 3, 4, 5, 6, 7, 8, 9, 10, 11, 12, 13, 14, 15, 16, 17, 18, 19, 20, 21, 22, 23, 24}
          Eps = {1, 2, 3, 4, 5, 6, 7, 8, 9, 10, 11, 12}
          Ctxs = {1, 2, 3, 4, 5, 6, 7, 8, 9, 10, 11, 12}
INVARIANTS EvInv
CONSTRAINT Progress
POSTCONDITION ReportProgress
CHECK_DEADLOCK FALSE
