---------------------------- MODULE TraceLife ----------------------------
(* Trace validation of the NNG_VERIF life-cycle trace points (H-LIFE) against life/LifeEv.tla, one socket at a time.
   tools/lifetrace.py splits a recorded execution by socket and renames objects to small numbers; every record is
        [e, a, b, n1, n2, n3]
   and is consumed by exactly one action of LifeEv: the record names the action and all its arguments, so the search is
   linear in the length of the trace.  A socket's records start with "new" (n1, n2, n3: highest pipe / end point / context
   number used) and end with "end" (n1 = 1: everything of that socket was destroyed; 0: the process ended first).
   Accepted iff every record is consumed (NotDone is then violated); the guards of LifeEv and its state invariants are
   evaluated at every step. *)
EXTENDS LifeEv, Sequences, Json, IOUtils

VARIABLES l
tvars == <<l, s, ep, pp, cx>>

T == ndJsonDeserialize(IOEnv.TRACE)
N == Len(T)
R == T[l]
Ev(e) == l <= N /\ R.e = e /\ l' = l + 1

TInit == l = 1 /\ EvInit

\* the next socket
New == /\ Ev("new") /\ s' = S0 /\ ep' = [e \in Eps |-> E0] /\ pp' = [p \in Pipes |-> P0] /\ cx' = [c \in Ctxs |-> "none"]
\* end of a socket's records: a socket whose close had begun must have been destroyed (close returned), and so must
\* every end point, pipe and context of a destroyed socket once the last of them is gone
End == /\ Ev("end")
       /\ (s.closing => s.st = "destroyed")
       /\ (R.n1 = 1 => /\ s.st = "destroyed"
                       /\ \A e \in Eps : ep[e].st \in {"none", "destroyed"}
                       /\ \A p \in Pipes : pp[p].st \in {"none", "destroyed"}
                       /\ \A c \in Ctxs : cx[c] \in {"none", "destroyed"})
       /\ UNCHANGED evars

RES(n) == IF n = 0 THEN "ok" ELSE IF n = 1 THEN "rej_cb" ELSE IF n = 2 THEN "rej_proto" ELSE "bad"

TNext ==
  \/ New \/ End
  \/ Ev("s_open") /\ SOpen
  \/ Ev("s_ep_add") /\ SEpAdd(R.a, IF R.n1 = 1 THEN "d" ELSE "l")
  \/ Ev("s_closing") /\ SClosing
  \/ Ev("s_shut") /\ SShut
  \/ Ev("s_closed") /\ SClosed
  \/ Ev("s_destroy") /\ SDestroy
  \/ Ev("s_find") /\ SFind(R.n1)
  \/ Ev("c_open") /\ COpen(R.a)
  \/ Ev("c_close") /\ CClose(R.a, R.n1 = 1)
  \/ Ev("c_destroy") /\ CDestroy(R.a)
  \/ Ev("c_find_fail") /\ CFindFail(R.a)
  \/ Ev("e_create") /\ ECreate(R.a)
  \/ Ev("d_connect") /\ DConnect(R.a)
  \/ Ev("d_connect_cb") /\ DConnectCb(R.a)
  \/ Ev("d_timer") /\ DTimer(R.a, R.n1, R.n2, R.n3)
  \/ Ev("d_pipe_set") /\ DPipeSet(R.a, R.b)
  \/ Ev("l_accept") /\ LAccept(R.a)
  \/ Ev("l_accept_cb") /\ LAcceptCb(R.a)
  \/ Ev("e_closed") /\ EClosed(R.a)
  \/ Ev("e_reap") /\ EReap(R.a)
  \/ Ev("e_destroy") /\ EDestroy(R.a)
  \/ Ev("p_add") /\ PAdd(R.a, R.b)
  \/ Ev("p_close_try") /\ PCloseTry(R.a)
  \/ Ev("p_close") /\ PClose(R.a)
  \/ Ev("p_ev") /\ PEv(R.a, R.n1)
  \/ Ev("p_ev_off") /\ PEvOff(R.a, R.n1)
  \/ Ev("p_start") /\ PStart(R.a, RES(R.n1))
  \/ Ev("p_reap") /\ PReap(R.a)
  \/ Ev("p_unreg") /\ PUnreg(R.a)
  \/ Ev("p_stopped") /\ PStopped(R.a)
  \/ Ev("p_remove") /\ PRemove(R.a, R.n1 = 1)
  \/ Ev("p_destroy") /\ PDestroy(R.a)
  \/ Ev("p_find_closed") /\ PFindClosed(R.a)

TSpec == TInit /\ [][TNext]_tvars

NotDone == l <= N
Progress == TLCSet(1, l)
ReportProgress == PrintT(<<"MAXL", TLCGet(1), N>>)
=====================================================================
