---------------------------- MODULE Bus ----------------------------
(* BUS socket, cooked and raw (src/sp/protocol/bus0/bus.c), macro steps through the harness transport.
   C09 (fan-out to every other peer once, never echoed to the origin, whole-message drops, per-peer
   order, send never blocks), C15, C18 (per-peer send queue, receive queue), C03 (clone per peer). *)
EXTENDS Naturals, Sequences, FiniteSets, TLC, Json

CONSTANTS Raw, Pipes, MaxMsgs, MaxOps, MaxCap,
          NbSend     \* TRUE: sends use the non-blocking form; FALSE: the aio form (completes at once; the callback is reported)

VARIABLES
  att, used,            \* attached peers in attach order
  wire, sq, qcap, sendbuf,
  rq, rcap, rwait,      \* receive queue (messages as [m, from]), capacity, blocked receivers
  readable,
  ops, nextMsg,
  sent, taken, dropped, arrived, got,     \* ghosts
  doneV, lastAct
vars == <<att, used, wire, sq, qcap, sendbuf, rq, rcap, rwait, readable, ops, nextMsg, sent, taken, dropped, arrived, got, doneV, lastAct>>
SeqSet(s) == {s[i] : i \in 1..Len(s)}
Remove(s, x) == SelectSeq(s, LAMBDA y : y # x)
NOps == Len(ops)

Init ==
  /\ att = <<>> /\ used = {} /\ wire = [p \in Pipes |-> <<>>] /\ sq = [p \in Pipes |-> <<>>] /\ qcap = [p \in Pipes |-> 16]
  /\ sendbuf = 16 /\ rq = <<>> /\ rcap = 16 /\ rwait = <<>> /\ readable = FALSE /\ ops = <<>> /\ nextMsg = 101
  /\ sent = [p \in Pipes |-> <<>>] /\ taken = [p \in Pipes |-> <<>>] /\ dropped = [p \in Pipes |-> {}]
  /\ arrived = <<>> /\ got = <<>> /\ doneV = <<>> /\ lastAct = [a |-> "init"]

\* what the application sees of a received message: raw mode exposes the origin pipe in the header
RecvRec(k, x) == IF Raw THEN [op |-> k, rv |-> "ok", m |-> x.m, hdr |-> <<x.from>>] ELSE [op |-> k, rv |-> "ok", m |-> x.m]

Connect(p) ==
  /\ p \notin used /\ used' = used \cup {p} /\ att' = Append(att, p) /\ qcap' = [qcap EXCEPT ![p] = sendbuf]
  /\ doneV' = <<>> /\ lastAct' = [a |-> "connect", p |-> p, out |-> [rv |-> "ok"]]
  /\ UNCHANGED <<wire, sq, sendbuf, rq, rcap, rwait, readable, ops, nextMsg, sent, taken, dropped, arrived, got>>
\* bus0_sock_send: a clone to every attached peer except (raw mode) the one named by the header; a peer whose
\* queue is full misses the whole message; the call always succeeds at once
Send(skip) ==
  /\ nextMsg <= 100 + MaxMsgs /\ (NbSend \/ NOps < MaxOps)
  /\ (skip # 0 => (Raw /\ skip \in SeqSet(att)))
  /\ LET m == nextMsg
         A == SeqSet(att) \ {skip}
     IN /\ wire' = [p \in Pipes |-> IF p \in A /\ wire[p] = <<>> THEN <<m>> ELSE wire[p]]
        /\ sq' = [p \in Pipes |-> IF p \in A /\ wire[p] # <<>> /\ Len(sq[p]) < qcap[p] THEN Append(sq[p], m) ELSE sq[p]]
        /\ dropped' = [p \in Pipes |-> IF p \in A /\ wire[p] # <<>> /\ Len(sq[p]) >= qcap[p] THEN dropped[p] \cup {m} ELSE dropped[p]]
        /\ sent' = [p \in Pipes |-> IF p \in A THEN Append(sent[p], m) ELSE sent[p]]
        /\ LET k == NOps + 1
               base == IF NbSend THEN [a |-> "send", mode |-> "nb", op |-> 0, m |-> m, out |-> [rv |-> "ok", done |-> <<>>]]
                                 ELSE [a |-> "send", mode |-> "aio", op |-> k, m |-> m, out |-> [done |-> <<>>]]
           IN /\ lastAct' = IF skip = 0 THEN base
                            ELSE IF NbSend THEN [a |-> "send", mode |-> "nb", op |-> 0, m |-> m, hdrp |-> <<skip>>, out |-> [rv |-> "ok", done |-> <<>>]]
                            ELSE [a |-> "send", mode |-> "aio", op |-> k, m |-> m, hdrp |-> <<skip>>, out |-> [done |-> <<>>]]
              /\ ops' = IF NbSend THEN ops ELSE Append(ops, "done")
              /\ doneV' = IF NbSend THEN <<>> ELSE <<[op |-> k, rv |-> "ok"]>>
  /\ nextMsg' = nextMsg + 1
  /\ UNCHANGED <<att, used, qcap, sendbuf, rq, rcap, rwait, readable, taken, arrived, got>>
Take(p) ==
  /\ p \in SeqSet(att) /\ wire[p] # <<>>
  /\ taken' = [taken EXCEPT ![p] = Append(@, Head(wire[p]))]
  /\ IF sq[p] # <<>> THEN wire' = [wire EXCEPT ![p] = <<Head(sq[p])>>] /\ sq' = [sq EXCEPT ![p] = Tail(@)]
                     ELSE wire' = [wire EXCEPT ![p] = <<>>] /\ UNCHANGED sq
  /\ doneV' = <<>> /\ lastAct' = [a |-> "take", p |-> p, out |-> [hdr |-> <<>>, m |-> Head(wire[p])]]
  /\ UNCHANGED <<att, used, qcap, sendbuf, rq, rcap, rwait, readable, ops, nextMsg, sent, dropped, arrived, got>>
\* a peer sends: to a waiting receiver, else queued, else dropped whole; never forwarded to other peers (no echo)
Arrive(p) ==
  /\ p \in SeqSet(att) /\ nextMsg <= 100 + MaxMsgs
  /\ LET x == [m |-> nextMsg, from |-> p] IN
     /\ arrived' = Append(arrived, nextMsg)
     /\ IF rwait # <<>> THEN
           /\ rwait' = Tail(rwait) /\ got' = Append(got, nextMsg)
           /\ ops' = [ops EXCEPT ![Head(rwait)] = "done"]
           /\ doneV' = <<RecvRec(Head(rwait), x)>>
           /\ UNCHANGED <<rq, readable>>
        ELSE IF Len(rq) < rcap THEN
           /\ rq' = Append(rq, x) /\ readable' = TRUE /\ doneV' = <<>> /\ UNCHANGED <<rwait, ops, got>>
        ELSE /\ doneV' = <<>> /\ UNCHANGED <<rq, readable, rwait, ops, got>>
  /\ lastAct' = [a |-> "inject", p |-> p, m |-> nextMsg, out |-> [rv |-> "delivered"]]
  /\ nextMsg' = nextMsg + 1
  /\ UNCHANGED <<att, used, wire, sq, qcap, sendbuf, rcap, sent, taken, dropped>>
RecvNb ==
  /\ IF rq = <<>> THEN
        /\ lastAct' = [a |-> "recv", mode |-> "nb", op |-> 0, out |-> [rv |-> "eagain", done |-> <<>>]]
        /\ UNCHANGED <<rq, readable, got>>
     ELSE
        /\ rq' = Tail(rq) /\ readable' = (Tail(rq) # <<>>) /\ got' = Append(got, Head(rq).m)
        /\ lastAct' = [a |-> "recv", mode |-> "nb", op |-> 0,
                       out |-> IF Raw THEN [rv |-> "ok", m |-> Head(rq).m, hdr |-> <<Head(rq).from>>, done |-> <<>>]
                                      ELSE [rv |-> "ok", m |-> Head(rq).m, done |-> <<>>]]
  /\ doneV' = <<>>
  /\ UNCHANGED <<att, used, wire, sq, qcap, sendbuf, rcap, rwait, ops, nextMsg, sent, taken, dropped, arrived>>
RecvAio ==
  /\ NOps < MaxOps /\ rwait = <<>>
  /\ LET k == NOps + 1 IN
     /\ lastAct' = [a |-> "recv", mode |-> "aio", op |-> k, out |-> [done |-> <<>>]]
     /\ IF rq = <<>> THEN
          /\ rwait' = Append(rwait, k) /\ ops' = Append(ops, "pend") /\ doneV' = <<>> /\ UNCHANGED <<rq, readable, got>>
        ELSE
          /\ rq' = Tail(rq) /\ readable' = (Tail(rq) # <<>>) /\ got' = Append(got, Head(rq).m)
          /\ ops' = Append(ops, "done") /\ doneV' = <<RecvRec(k, Head(rq))>> /\ UNCHANGED rwait
  /\ UNCHANGED <<att, used, wire, sq, qcap, sendbuf, rcap, nextMsg, sent, taken, dropped, arrived>>
Cancel(k) ==
  /\ k \in 1..NOps /\ ops[k] = "pend"
  /\ rwait' = Remove(rwait, k) /\ ops' = [ops EXCEPT ![k] = "done"]
  /\ doneV' = <<[op |-> k, rv |-> "ecanceled"]>> /\ lastAct' = [a |-> "cancel", op |-> k, out |-> [done |-> <<>>]]
  /\ UNCHANGED <<att, used, wire, sq, qcap, sendbuf, rq, rcap, readable, nextMsg, sent, taken, dropped, arrived, got>>
Gone(p) ==
  /\ p \in SeqSet(att) /\ att' = Remove(att, p)
  /\ dropped' = [dropped EXCEPT ![p] = @ \cup SeqSet(wire[p]) \cup SeqSet(sq[p])]
  /\ wire' = [wire EXCEPT ![p] = <<>>] /\ sq' = [sq EXCEPT ![p] = <<>>]
  /\ doneV' = <<>> /\ lastAct' = [a |-> "peer_close", p |-> p]
  /\ UNCHANGED <<used, qcap, sendbuf, rq, rcap, rwait, readable, ops, nextMsg, sent, taken, arrived, got>>
SetSendBuf(n) ==
  /\ n # sendbuf /\ n >= 1 /\ sendbuf' = n
  /\ qcap' = [p \in Pipes |-> IF p \in SeqSet(att) THEN n ELSE qcap[p]]
  /\ sq' = [p \in Pipes |-> IF p \in SeqSet(att) /\ Len(sq[p]) > n THEN SubSeq(sq[p], 1, n) ELSE sq[p]]
  /\ dropped' = [p \in Pipes |-> IF p \in SeqSet(att) /\ Len(sq[p]) > n THEN dropped[p] \cup {sq[p][i] : i \in (n + 1)..Len(sq[p])} ELSE dropped[p]]
  /\ doneV' = <<>> /\ lastAct' = [a |-> "setopt", name |-> "send-buffer", val |-> n, out |-> [rv |-> "ok"]]
  /\ UNCHANGED <<att, used, wire, rq, rcap, rwait, readable, ops, nextMsg, sent, taken, arrived, got>>
SetRecvBuf(n) ==
  /\ n # rcap /\ n >= 1 /\ rcap' = n
  /\ rq' = IF Len(rq) > n THEN SubSeq(rq, 1, n) ELSE rq
  /\ doneV' = <<>> /\ lastAct' = [a |-> "setopt", name |-> "recv-buffer", val |-> n, out |-> [rv |-> "ok"]]
  /\ UNCHANGED <<att, used, wire, sq, qcap, sendbuf, rwait, readable, ops, nextMsg, sent, taken, dropped, arrived, got>>

Next == \/ Send(0) \/ (\E p \in Pipes : Send(p) \/ Connect(p) \/ Take(p) \/ Arrive(p) \/ Gone(p))
        \/ RecvNb \/ RecvAio \/ (\E k \in 1..MaxOps : Cancel(k)) \/ (\E n \in 1..MaxCap : SetSendBuf(n) \/ SetRecvBuf(n))
Spec == Init /\ [][Next]_vars

IsSub(s, t) == \A i, j \in 1..Len(s) : i < j => (\E a, b \in 1..Len(t) : a < b /\ t[a] = s[i] /\ t[b] = s[j])
\* each peer is offered each message at most once, in order; and nothing that arrived is ever sent back out (no echo)
PerPeerOrder == \A p \in Pipes : IsSub(taken[p], sent[p]) /\ Cardinality(SeqSet(taken[p])) = Len(taken[p])
NoEcho == \A p \in Pipes : SeqSet(sent[p]) \cap SeqSet(arrived) = {}
Once == \A p \in Pipes : \A m \in SeqSet(sent[p]) :
           (IF m \in SeqSet(wire[p]) THEN 1 ELSE 0) + (IF m \in SeqSet(sq[p]) THEN 1 ELSE 0)
         + (IF m \in SeqSet(taken[p]) THEN 1 ELSE 0) + (IF m \in dropped[p] THEN 1 ELSE 0) = 1
GotOrder == IsSub(got, arrived) /\ Cardinality(SeqSet(got)) = Len(got)
Bounded == Len(rq) <= rcap /\ \A p \in Pipes : Len(sq[p]) <= qcap[p]
PollR == readable <=> (rq # <<>>)

SId == <<att, used, wire, sq, qcap, sendbuf, rq, rcap, rwait, readable, ops, nextMsg>>
WireObs == LET RECURSIVE F(_) F(S) == IF S = {} THEN <<>> ELSE LET p == CHOOSE x \in S : \A y \in S : x <= y IN <<<<p, Len(wire[p]), 1>>>> \o F(S \ {p}) IN F(SeqSet(att))
Obs == [done |-> doneV, S_pend |-> {}, wire |-> WireObs, pollw |-> TRUE, pollr |-> readable]
Fin == 0
ExportEdge == PrintT(<<"E", ToJson([s |-> SId, sa |-> lastAct, d |-> SId', act |-> lastAct', obs |-> Obs', fin |-> Fin'])>>)
View == SId
=====================================================================
