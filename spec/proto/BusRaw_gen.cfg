SPECIFICATION Spec
CONSTANTS Raw = TRUE
          Pipes = {1, 2}
          MaxMsgs = 3
          MaxOps = 4
          NbSend = FALSE
          MaxCap = 2
ACTION_CONSTRAINT ExportEdge
VIEW View
