SPECIFICATION Spec
CONSTANTS Raw = TRUE
          Pipes = {1, 2}
          MaxMsgs = 4
          MaxOps = 4
          NbSend = FALSE
          MaxCap = 2
INVARIANTS PerPeerOrder NoEcho Once GotOrder Bounded PollR
VIEW View
