SPECIFICATION Spec
CONSTANTS Raw = FALSE
          Pipes = {1, 2}
          MaxMsgs = 3
          MaxOps = 1
          MaxCap = 2
ACTION_CONSTRAINT ExportEdge
VIEW View
