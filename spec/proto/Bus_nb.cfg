SPECIFICATION Spec
CONSTANTS Raw = FALSE
          Pipes = {1}
          MaxMsgs = 2
          MaxOps = 4
          NbSend = TRUE
          MaxCap = 2
ACTION_CONSTRAINT ExportEdge
VIEW View
