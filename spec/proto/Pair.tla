---------------------------- MODULE Pair ----------------------------
(* PAIR version 1, cooked, non-polyamorous (src/sp/protocol/pair1/pair.c) stepped through the harness
   transport in macro steps: every action is an API call or an environment event followed by all
   internal callbacks it makes runnable (the driver runs the library to quiescence after each
   command), so every state is quiescent.        C08, C15, C18 (send/receive buffers), C03.

   State follows pair1_sock: the single attached pipe, wr_ready/rd_ready, wmq/rmq with their
   capacities, blocked senders/receivers, the two pollables; plus the harness transport (message
   parked in the pipe's send, messages the peer has written but the socket has not accepted yet). *)
EXTENDS Naturals, Sequences, FiniteSets, TLC, Json

CONSTANTS V,          \* protocol version: 1 = pair1 (hop header), 0 = pair0 (no header)
          Pipes, MaxCap, MaxMsgs, MaxOps,
          Hops       \* hop-count classes the raw peer puts on incoming messages: "h1", "h8", "h9", "h255" and the
                     \* malformed ones (> 0xff) "h256", "h300", "hTop" (0x80000000), "hMax" (0xffffffff); classes, because
                     \* TLC integers are 32-bit signed

VARIABLES
  peer,       \* attached pipe slot, 0 = none
  used,       \* slots that have connected (each connects once)
  wire,       \* message parked in the transport send: <<>> or <<m>>
  wmq, wcap, waq,
  rmq, rcap, raq,
  rds,        \* rd_ready: message still sitting in the pipe's receive aio (<<>> or <<m>>)
  inbox,      \* written by the peer, not yet accepted by the socket: sequence of [hop, m, short]
  pclosed,    \* the peer has gone away (noticed by the socket when a receive is outstanding)
  ttl,
  writable, readable,
  ops,        \* ops[k] = [kind, m, st]
  nextMsg,
  sentOk, onWire, lostOut,     \* ghosts, outbound: accepted by send, taken by the peer, dropped
  injected, got, lostIn, badIn, \* ghosts, inbound: well-formed messages written, delivered, dropped with the pipe/ttl, malformed
  doneV,      \* completions of asynchronous operations observed in the last step
  lastAct

vars == <<peer, used, wire, wmq, wcap, waq, rmq, rcap, raq, rds, inbox, pclosed, ttl, writable, readable, ops, nextMsg,
          sentOk, onWire, lostOut, injected, got, lostIn, badIn, doneV, lastAct>>

SeqSet(s) == {s[i] : i \in 1..Len(s)}
NOps == Len(ops)
HopNum(h) == CASE h = "h1" -> 1 [] h = "h8" -> 8 [] h = "h9" -> 9 [] h = "h255" -> 255 [] OTHER -> 1000
HopBad(h) == h \in {"h256", "h300", "hTop", "hMax"}    \* more than 0xff: malformed
WFull(q, c) == Len(q) >= c

Init ==
  /\ peer = 0 /\ used = {} /\ wire = <<>> /\ wmq = <<>> /\ wcap = 0 /\ waq = <<>> /\ rmq = <<>> /\ rcap = 0 /\ raq = <<>>
  /\ rds = <<>> /\ inbox = <<>> /\ pclosed = FALSE /\ ttl = 8 /\ writable = FALSE /\ readable = FALSE /\ ops = <<>> /\ nextMsg = 101
  /\ sentOk = <<>> /\ onWire = <<>> /\ lostOut = {} /\ injected = <<>> /\ got = <<>> /\ lostIn = {} /\ badIn = {}
  /\ doneV = <<>> /\ lastAct = [a |-> "init"]

WrReady(S) == S.peer # 0 /\ S.wire = <<>>
CanSend == (peer # 0 /\ wire = <<>>) \/ Len(wmq) < wcap
CanRecv == rmq # <<>> \/ rds # <<>>

S0 == [peer |-> peer, pclosed |-> pclosed, wire |-> wire, wmq |-> wmq, waq |-> waq, rmq |-> rmq, raq |-> raq, rds |-> rds, inbox |-> inbox,
       writable |-> writable, readable |-> readable, ops |-> ops, sentOk |-> sentOk, lostOut |-> lostOut,
       got |-> got, lostIn |-> lostIn, badIn |-> badIn, done |-> <<>>]
Complete(S, k, rv, m) == [S EXCEPT !.ops = [@ EXCEPT ![k] = [kind |-> @.kind, m |-> m, st |-> "done"]],
                                   !.done = Append(@, IF rv = "ok" /\ S.ops[k].kind = "recv" THEN [op |-> k, rv |-> rv, m |-> m]
                                                                                             ELSE [op |-> k, rv |-> rv])]

\* pair1_send_sched (pipe start, send completion)
SendSched(S) ==
  IF S.peer = 0 THEN S
  ELSE LET S1 == IF S.wmq # <<>> THEN
                    LET T == [S EXCEPT !.wire = <<Head(S.wmq)>>, !.wmq = Tail(S.wmq)] IN
                    IF T.waq # <<>> THEN
                       LET k == Head(T.waq) IN
                       Complete([T EXCEPT !.waq = Tail(@), !.wmq = Append(@, T.ops[k].m), !.sentOk = Append(@, T.ops[k].m)], k, "ok", T.ops[k].m)
                    ELSE T
                 ELSE IF S.waq # <<>> THEN
                    LET k == Head(S.waq) IN
                    Complete([S EXCEPT !.waq = Tail(@), !.wire = <<S.ops[k].m>>, !.sentOk = Append(@, S.ops[k].m)], k, "ok", S.ops[k].m)
                 ELSE S
       IN [S1 EXCEPT !.writable = IF ~WFull(S1.wmq, wcap) \/ S1.wire = <<>> THEN TRUE ELSE S1.writable]

\* pair1_pipe_close / pair1_pipe_stop for the attached pipe
Teardown(S) ==
  LET w1 == IF S.wire = <<>> /\ WFull(S.wmq, wcap) THEN FALSE ELSE S.writable   \* wr_ready was set and the buffer is full: cleared
  IN [S EXCEPT !.peer = 0, !.pclosed = FALSE, !.lostOut = @ \cup SeqSet(S.wire), !.wire = <<>>,
               !.lostIn = @ \cup SeqSet(S.rds) \cup {S.inbox[i].m : i \in {j \in 1..Len(S.inbox) : V = 0 \/ (~S.inbox[j].short /\ ~HopBad(S.inbox[j].hop))}},
               !.rds = <<>>, !.inbox = <<>>,
               !.writable = w1, !.readable = IF S.rmq = <<>> THEN FALSE ELSE S.readable]

\* the pipe's receive is armed and the transport has data: pair1_pipe_recv_cb, repeatedly
RECURSIVE Pump(_)
Pump(S) ==
  IF S.peer = 0 \/ S.rds # <<>> THEN S
  ELSE IF S.inbox = <<>> THEN (IF S.pclosed THEN Teardown(S) ELSE S)      \* the outstanding receive fails: NNG_ECONNSHUT
  ELSE LET x == Head(S.inbox)  T == [S EXCEPT !.inbox = Tail(@)] IN
       IF V = 1 /\ (x.short \/ HopBad(x.hop)) THEN Teardown([T EXCEPT !.badIn = @ \cup {x.m}])                   \* malformed: disconnect
       ELSE IF V = 1 /\ HopNum(x.hop) > ttl THEN Pump([T EXCEPT !.lostIn = @ \cup {x.m}])                            \* too many hops: drop, keep going
       ELSE IF T.raq # <<>> THEN Pump(Complete([T EXCEPT !.raq = Tail(@), !.got = Append(@, x.m)], Head(T.raq), "ok", x.m))
       ELSE IF ~WFull(T.rmq, rcap) THEN Pump([T EXCEPT !.rmq = Append(@, x.m), !.readable = TRUE])
       ELSE [T EXCEPT !.rds = <<x.m>>, !.readable = TRUE]

Apply(S, a) ==
  /\ peer' = S.peer /\ pclosed' = S.pclosed /\ wire' = S.wire /\ wmq' = S.wmq /\ waq' = S.waq /\ rmq' = S.rmq /\ raq' = S.raq /\ rds' = S.rds
  /\ inbox' = S.inbox /\ writable' = S.writable /\ readable' = S.readable /\ ops' = S.ops /\ sentOk' = S.sentOk
  /\ lostOut' = S.lostOut /\ got' = S.got /\ lostIn' = S.lostIn /\ badIn' = S.badIn
  /\ doneV' = S.done /\ lastAct' = a

\* ---------------------------------------------------------------- sending
SendCore(S, m) ==   \* pair1_sock_send after the header has been set; returns [S, r] with r \in {"sent", "queued", "full"}
  IF WrReady(S) THEN [S |-> [S EXCEPT !.wire = <<m>>, !.sentOk = Append(@, m),
                                     !.writable = IF WFull(S.wmq, wcap) THEN FALSE ELSE S.writable], r |-> "ok"]
  ELSE IF ~WFull(S.wmq, wcap) THEN [S |-> [S EXCEPT !.wmq = Append(@, m), !.sentOk = Append(@, m),
                                                    !.writable = IF Len(S.wmq) + 1 >= wcap THEN FALSE ELSE S.writable], r |-> "ok"]
  ELSE [S |-> S, r |-> "full"]
SendNb ==
  /\ nextMsg <= 100 + MaxMsgs
  /\ LET c == SendCore(S0, nextMsg) IN
     Apply(c.S, [a |-> "send", mode |-> "nb", op |-> 0, m |-> nextMsg,
                 out |-> [rv |-> IF c.r = "ok" THEN "ok" ELSE "eagain", done |-> <<>>]])
  /\ nextMsg' = nextMsg + 1
  /\ UNCHANGED <<used, wcap, rcap, ttl, onWire, injected>>
SendAio ==
  /\ nextMsg <= 100 + MaxMsgs /\ NOps < MaxOps
  /\ LET k == NOps + 1
         S1 == [S0 EXCEPT !.ops = Append(@, [kind |-> "send", m |-> nextMsg, st |-> "pend"])]
         c == SendCore(S1, nextMsg)
         S2 == IF c.r = "ok" THEN Complete(c.S, k, "ok", nextMsg) ELSE [S1 EXCEPT !.waq = Append(@, k)]
     IN Apply(S2, [a |-> "send", mode |-> "aio", op |-> k, m |-> nextMsg, out |-> [done |-> <<>>]])
  /\ nextMsg' = nextMsg + 1
  /\ UNCHANGED <<used, wcap, rcap, ttl, onWire, injected>>
\* the peer reads the message off the wire; pair1_pipe_send_cb -> pair1_send_sched
Take ==
  /\ peer # 0 /\ wire # <<>>
  /\ Apply(SendSched([S0 EXCEPT !.wire = <<>>]), [a |-> "take", p |-> peer, out |-> [hdr |-> IF V = 1 THEN <<1>> ELSE <<>>, m |-> Head(wire)]])
  /\ onWire' = Append(onWire, Head(wire))
  /\ UNCHANGED <<used, wcap, rcap, ttl, nextMsg, injected>>

\* ---------------------------------------------------------------- receiving
RecvCore(S) ==      \* pair1_sock_recv; returns [S, m] with m = 0 when nothing is available
  IF S.rmq # <<>> THEN
     LET m == Head(S.rmq)
         T == IF S.rds # <<>> THEN [S EXCEPT !.rmq = Append(Tail(@), Head(S.rds)), !.rds = <<>>] ELSE [S EXCEPT !.rmq = Tail(@)]
     IN [S |-> Pump([T EXCEPT !.readable = IF T.rmq = <<>> THEN FALSE ELSE T.readable, !.got = Append(@, m)]), m |-> m]
  ELSE IF S.rds # <<>> THEN
     [S |-> Pump([S EXCEPT !.rds = <<>>, !.readable = FALSE, !.got = Append(@, Head(S.rds))]), m |-> Head(S.rds)]
  ELSE [S |-> S, m |-> 0]
RecvNb ==
  /\ LET c == RecvCore(S0) IN
     Apply(c.S, [a |-> "recv", mode |-> "nb", op |-> 0,
                 out |-> IF c.m = 0 THEN [rv |-> "eagain", done |-> <<>>] ELSE [rv |-> "ok", m |-> c.m, done |-> <<>>]])
  /\ UNCHANGED <<used, wcap, rcap, ttl, nextMsg, onWire, injected>>
RecvAio ==
  /\ NOps < MaxOps
  /\ LET k == NOps + 1
         S1 == [S0 EXCEPT !.ops = Append(@, [kind |-> "recv", m |-> 0, st |-> "pend"])]
         c == RecvCore(S1)
         S2 == IF c.m # 0 THEN Complete(c.S, k, "ok", c.m) ELSE [S1 EXCEPT !.raq = Append(@, k)]
     IN Apply(S2, [a |-> "recv", mode |-> "aio", op |-> k, out |-> [done |-> <<>>]])
  /\ UNCHANGED <<used, wcap, rcap, ttl, nextMsg, onWire, injected>>
Cancel(k) ==
  /\ k \in 1..NOps /\ ops[k].st = "pend"
  /\ Apply(Complete([S0 EXCEPT !.waq = SelectSeq(@, LAMBDA x : x # k), !.raq = SelectSeq(@, LAMBDA x : x # k)], k, "ecanceled", ops[k].m),
           [a |-> "cancel", op |-> k, out |-> [done |-> <<>>]])
  /\ UNCHANGED <<used, wcap, rcap, ttl, nextMsg, onWire, injected>>

\* ---------------------------------------------------------------- options
SetSendBuf(n) ==
  /\ n # wcap
  /\ LET keep == IF Len(wmq) < n THEN Len(wmq) ELSE n
         q == SubSeq(wmq, 1, keep)
     IN Apply([S0 EXCEPT !.wmq = q, !.lostOut = @ \cup {wmq[i] : i \in (keep + 1)..Len(wmq)},
                         !.writable = IF keep < n THEN TRUE ELSE IF ~(peer # 0 /\ wire = <<>>) THEN FALSE ELSE writable],
              [a |-> "setopt", name |-> "send-buffer", val |-> n, out |-> [rv |-> "ok"]])
  /\ wcap' = n
  /\ UNCHANGED <<used, rcap, ttl, nextMsg, onWire, injected>>
SetRecvBuf(n) ==
  /\ n # rcap
  /\ LET keep == IF Len(rmq) < n THEN Len(rmq) ELSE n
         q == SubSeq(rmq, 1, keep)
     IN Apply([S0 EXCEPT !.rmq = q, !.lostIn = @ \cup {rmq[i] : i \in (keep + 1)..Len(rmq)},
                         !.readable = IF q # <<>> THEN TRUE ELSE IF rds = <<>> THEN FALSE ELSE readable],
              [a |-> "setopt", name |-> "recv-buffer", val |-> n, out |-> [rv |-> "ok"]])
  /\ rcap' = n
  /\ UNCHANGED <<used, wcap, ttl, nextMsg, onWire, injected>>
SetTtl(n) ==
  /\ n # ttl
  /\ Apply(S0, [a |-> "setopt", name |-> "ttl-max", val |-> n, out |-> [rv |-> "ok"]])
  /\ ttl' = n
  /\ UNCHANGED <<used, wcap, rcap, nextMsg, onWire, injected>>

\* ---------------------------------------------------------------- the environment
\* a peer connects: the first is attached (pair1_pipe_start: send_sched + receive), any further one is
\* refused with NNG_EBUSY while the first is alive (its pipe is closed again; the first is unaffected)
Connect(p) ==
  /\ p \notin used
  /\ used' = used \cup {p}
  /\ IF peer = 0 THEN Apply(SendSched([S0 EXCEPT !.peer = p]), [a |-> "connect", p |-> p, out |-> [rv |-> "ok"]])
                 ELSE Apply(S0, [a |-> "connect", p |-> p, out |-> [rv |-> "ok"]])
  /\ UNCHANGED <<wcap, rcap, ttl, nextMsg, onWire, injected>>
\* the raw peer writes a message with a hop header (or a message too short to have one)
Inject(h, short) ==
  /\ peer # 0 /\ ~pclosed /\ nextMsg <= 100 + MaxMsgs /\ Len(inbox) < 2
  /\ LET x == [hop |-> h, m |-> nextMsg, short |-> short]
         armed == rds = <<>>
     IN Apply(Pump([S0 EXCEPT !.inbox = Append(@, x)]),
              [a |-> "inject", p |-> peer, m |-> nextMsg, hdr |-> IF short \/ V = 0 THEN <<>> ELSE <<h>>, short |-> short,
               out |-> [rv |-> IF armed THEN "delivered" ELSE "queued"]])
  /\ nextMsg' = nextMsg + 1
  /\ injected' = IF V = 1 /\ (short \/ HopBad(h)) THEN injected ELSE Append(injected, nextMsg)
  /\ UNCHANGED <<used, wcap, rcap, ttl, onWire>>
PeerClose ==
  /\ peer # 0 /\ ~pclosed
  /\ Apply(Pump([S0 EXCEPT !.pclosed = TRUE]), [a |-> "peer_close", p |-> peer])
  /\ UNCHANGED <<used, wcap, rcap, ttl, nextMsg, onWire, injected>>

Next == \/ SendNb \/ SendAio \/ Take \/ RecvNb \/ RecvAio \/ PeerClose
        \/ (\E k \in 1..MaxOps : Cancel(k))
        \/ (\E n \in 0..MaxCap : SetSendBuf(n) \/ SetRecvBuf(n))
        \/ (V = 1 /\ \E n \in {1, 8} : SetTtl(n))
        \/ (\E p \in Pipes : Connect(p))
        \/ (\E h \in Hops : Inject(h, FALSE)) \/ (V = 1 /\ Inject("h1", TRUE))
Spec == Init /\ [][Next]_vars

\* ---------------------------------------------------------------- properties (C08, C15, C18)
\* outbound: FIFO, nothing lost except with its connection or by a buffer shrink; each message in one place
OutPlaces(m) == (IF m \in SeqSet(wmq) THEN 1 ELSE 0) + (IF m \in SeqSet(wire) THEN 1 ELSE 0)
              + (IF m \in SeqSet(onWire) THEN 1 ELSE 0) + (IF m \in lostOut THEN 1 ELSE 0)
OutOnce == \A m \in SeqSet(sentOk) : OutPlaces(m) = 1
IsSub(s, t) == \A i, j \in 1..Len(s) : i < j => (\E a, b \in 1..Len(t) : a < b /\ t[a] = s[i] /\ t[b] = s[j])
OutOrder == IsSub(onWire, sentOk)
\* blocked senders keep their message (back-pressure, never a silent discard)
BlockedKeep == \A k \in 1..NOps : (ops[k].kind = "send" /\ ops[k].st = "pend") => (ops[k].m \notin SeqSet(sentOk) /\ k \in SeqSet(waq))
\* inbound: delivered in order, once; malformed never delivered; each well-formed message in one place
InPlaces(m) == (IF m \in SeqSet(rmq) THEN 1 ELSE 0) + (IF m \in SeqSet(rds) THEN 1 ELSE 0) + (IF m \in SeqSet(got) THEN 1 ELSE 0)
             + (IF m \in lostIn THEN 1 ELSE 0) + Cardinality({i \in 1..Len(inbox) : inbox[i].m = m})
InOnce == \A m \in SeqSet(injected) : InPlaces(m) = 1
InOrder == IsSub(got, injected) /\ Cardinality(SeqSet(got)) = Len(got)
MalformedNeverDelivered == badIn \cap SeqSet(got) = {} /\ badIn \cap SeqSet(rmq) = {}
BufBounded == Len(wmq) <= wcap /\ Len(rmq) <= rcap /\ Len(wire) <= 1 /\ Len(rds) <= 1
\* (a sender that blocked before the buffer was enlarged stays blocked until the next send completion: not required otherwise by C08/C15)
NoLostWakeup == raq # <<>> => ~CanRecv
PollW == writable <=> CanSend
PollR == readable <=> CanRecv

\* ---------------------------------------------------------------- export
SId == <<peer, used, wire, wmq, wcap, waq, rmq, rcap, raq, rds, inbox, pclosed, ttl, writable, readable, ops, nextMsg>>
WireObs == IF peer = 0 THEN <<>> ELSE <<<<peer, Len(wire), IF rds = <<>> THEN 1 ELSE 0>>>>
Obs == [done |-> doneV, S_pend |-> {}, wire |-> WireObs, pollw |-> writable, pollr |-> readable]
Fin == 0
ExportEdge == PrintT(<<"E", ToJson([s |-> SId, sa |-> lastAct, d |-> SId', act |-> lastAct', obs |-> Obs', fin |-> Fin'])>>)
View == SId
=====================================================================
