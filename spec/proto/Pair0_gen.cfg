SPECIFICATION Spec
CONSTANTS V = 0
          Pipes = {1, 2}
          MaxCap = 1
          MaxMsgs = 3
          MaxOps = 1
          Hops = {"h1"}
ACTION_CONSTRAINT ExportEdge
VIEW View
