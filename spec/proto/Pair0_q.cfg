SPECIFICATION Spec
CONSTANTS V = 0
          Pipes = {1, 2}
          MaxCap = 2
          MaxMsgs = 4
          MaxOps = 1
          Hops = {"h1"}
INVARIANTS OutOnce OutOrder BlockedKeep InOnce InOrder MalformedNeverDelivered BufBounded NoLostWakeup PollW PollR
VIEW View
