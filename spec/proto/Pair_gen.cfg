SPECIFICATION Spec
CONSTANTS V = 1
          Pipes = {1, 2}
          MaxCap = 1
          MaxMsgs = 3
          MaxOps = 1
          Hops = {1, 9, 300}
ACTION_CONSTRAINT ExportEdge
VIEW View
