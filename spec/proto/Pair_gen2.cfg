SPECIFICATION Spec
CONSTANTS V = 1
          Pipes = {1, 2}
          MaxCap = 2
          MaxMsgs = 4
          MaxOps = 1
          Hops = {"h1", "h9", "h256", "hTop"}
ACTION_CONSTRAINT ExportEdge
VIEW View
