SPECIFICATION Spec
CONSTANTS V = 1
          Pipes = {1, 2}
          MaxCap = 2
          MaxMsgs = 5
          MaxOps = 2
          Hops = {1, 8, 9, 300}
INVARIANTS OutOnce OutOrder BlockedKeep InOnce InOrder MalformedNeverDelivered BufBounded NoLostWakeup PollW PollR
VIEW View
