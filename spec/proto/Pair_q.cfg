SPECIFICATION Spec
CONSTANTS V = 1
          Pipes = {1, 2}
          MaxCap = 2
          MaxMsgs = 4
          MaxOps = 1
          Hops = {"h1", "h8", "h9", "h255", "h256", "hTop", "hMax"}
INVARIANTS OutOnce OutOrder BlockedKeep InOnce InOrder MalformedNeverDelivered BufBounded NoLostWakeup PollW PollR
VIEW View
