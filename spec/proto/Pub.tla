---------------------------- MODULE Pub ----------------------------
(* PUB socket (src/sp/protocol/pubsub0/pub.c), macro steps through the harness transport.
   C05 (publisher side: never blocks, per-subscriber order, drop-oldest when a subscriber's queue is
   full), C15 (always writable), C18 (per-pipe send queue), C03 (clone per subscriber). *)
EXTENDS Naturals, Sequences, FiniteSets, TLC, Json

CONSTANTS Pipes, MaxMsgs, MaxCap

VARIABLES
  att,        \* attached subscriber pipes, in attach order
  used,
  wire,       \* wire[p]: message parked in the transport send (busy)
  sq,         \* sq[p]: per-pipe send queue
  qcap,       \* qcap[p]: capacity of p's queue (the socket's send buffer when p attached, or as resized since)
  sendbuf,
  nextMsg,
  sent, taken, dropped,   \* ghosts
  doneV, lastAct

vars == <<att, used, wire, sq, qcap, sendbuf, nextMsg, sent, taken, dropped, doneV, lastAct>>
SeqSet(s) == {s[i] : i \in 1..Len(s)}
Remove(s, x) == SelectSeq(s, LAMBDA y : y # x)

Init ==
  /\ att = <<>> /\ used = {} /\ wire = [p \in Pipes |-> <<>>] /\ sq = [p \in Pipes |-> <<>>] /\ qcap = [p \in Pipes |-> 16]
  /\ sendbuf = 16 /\ nextMsg = 101 /\ sent = [p \in Pipes |-> <<>>] /\ taken = [p \in Pipes |-> <<>>]
  /\ dropped = [p \in Pipes |-> {}] /\ doneV = <<>> /\ lastAct = [a |-> "init"]

Connect(p) ==
  /\ p \notin used /\ used' = used \cup {p} /\ att' = Append(att, p)
  /\ qcap' = [qcap EXCEPT ![p] = sendbuf]
  /\ doneV' = <<>> /\ lastAct' = [a |-> "connect", p |-> p, out |-> [rv |-> "ok"]]
  /\ UNCHANGED <<wire, sq, sendbuf, nextMsg, sent, taken, dropped>>
\* pub0_sock_send: a clone to every attached subscriber; never blocks, always succeeds
Send ==
  /\ nextMsg <= 100 + MaxMsgs
  /\ LET m == nextMsg
         A == SeqSet(att)
     IN /\ wire' = [p \in Pipes |-> IF p \in A /\ wire[p] = <<>> THEN <<m>> ELSE wire[p]]
        /\ sq' = [p \in Pipes |-> IF p \in A /\ wire[p] # <<>>
                                    THEN (IF Len(sq[p]) >= qcap[p] THEN Append(Tail(sq[p]), m) ELSE Append(sq[p], m))
                                    ELSE sq[p]]
        /\ dropped' = [p \in Pipes |-> IF p \in A /\ wire[p] # <<>> /\ Len(sq[p]) >= qcap[p] /\ sq[p] # <<>>
                                         THEN dropped[p] \cup {Head(sq[p])} ELSE dropped[p]]
        /\ sent' = [p \in Pipes |-> IF p \in A THEN Append(sent[p], m) ELSE sent[p]]
        /\ lastAct' = [a |-> "send", mode |-> "nb", op |-> 0, m |-> m, out |-> [rv |-> "ok", done |-> <<>>]]
  /\ nextMsg' = nextMsg + 1 /\ doneV' = <<>>
  /\ UNCHANGED <<att, used, qcap, sendbuf, taken>>
\* the subscriber reads; pub0_pipe_send_cb sends the next queued message
Take(p) ==
  /\ p \in SeqSet(att) /\ wire[p] # <<>>
  /\ taken' = [taken EXCEPT ![p] = Append(@, Head(wire[p]))]
  /\ IF sq[p] # <<>> THEN wire' = [wire EXCEPT ![p] = <<Head(sq[p])>>] /\ sq' = [sq EXCEPT ![p] = Tail(@)]
                     ELSE wire' = [wire EXCEPT ![p] = <<>>] /\ UNCHANGED sq
  /\ doneV' = <<>> /\ lastAct' = [a |-> "take", p |-> p, out |-> [hdr |-> <<>>, m |-> Head(wire[p])]]
  /\ UNCHANGED <<att, used, qcap, sendbuf, nextMsg, sent, dropped>>
\* the subscriber goes away, or (protocol violation) sends something: either way the pipe is closed
Gone(p, how) ==
  /\ p \in SeqSet(att)
  /\ att' = Remove(att, p)
  /\ dropped' = [dropped EXCEPT ![p] = @ \cup SeqSet(wire[p]) \cup SeqSet(sq[p])]
  /\ wire' = [wire EXCEPT ![p] = <<>>] /\ sq' = [sq EXCEPT ![p] = <<>>]
  /\ doneV' = <<>>
  /\ lastAct' = IF how = "close" THEN [a |-> "peer_close", p |-> p]
                                 ELSE [a |-> "inject", p |-> p, m |-> 999, out |-> [rv |-> "delivered"]]
  /\ UNCHANGED <<used, qcap, sendbuf, nextMsg, sent, taken>>
SetSendBuf(n) ==
  /\ n # sendbuf /\ n >= 1
  /\ sendbuf' = n
  /\ qcap' = [p \in Pipes |-> IF p \in SeqSet(att) THEN n ELSE qcap[p]]
  /\ sq' = [p \in Pipes |-> IF p \in SeqSet(att) /\ Len(sq[p]) > n THEN SubSeq(sq[p], 1, n) ELSE sq[p]]
  /\ dropped' = [p \in Pipes |-> IF p \in SeqSet(att) /\ Len(sq[p]) > n THEN dropped[p] \cup {sq[p][i] : i \in (n + 1)..Len(sq[p])} ELSE dropped[p]]
  /\ doneV' = <<>> /\ lastAct' = [a |-> "setopt", name |-> "send-buffer", val |-> n, out |-> [rv |-> "ok"]]
  /\ UNCHANGED <<att, used, wire, nextMsg, sent, taken>>

Next == Send \/ (\E p \in Pipes : Connect(p) \/ Take(p) \/ Gone(p, "close") \/ Gone(p, "data")) \/ (\E n \in 1..MaxCap : SetSendBuf(n))
Spec == Init /\ [][Next]_vars

\* what each subscriber has read is an ordered, duplicate-free subsequence of what was published while it was attached
IsSub(s, t) == \A i, j \in 1..Len(s) : i < j => (\E a, b \in 1..Len(t) : a < b /\ t[a] = s[i] /\ t[b] = s[j])
PerSubscriberOrder == \A p \in Pipes : IsSub(taken[p], sent[p]) /\ Cardinality(SeqSet(taken[p])) = Len(taken[p])
\* every message published to p is in exactly one place
Once == \A p \in Pipes : \A m \in SeqSet(sent[p]) :
           (IF m \in SeqSet(wire[p]) THEN 1 ELSE 0) + (IF m \in SeqSet(sq[p]) THEN 1 ELSE 0)
         + (IF m \in SeqSet(taken[p]) THEN 1 ELSE 0) + (IF m \in dropped[p] THEN 1 ELSE 0) = 1
Bounded == \A p \in Pipes : Len(sq[p]) <= qcap[p] /\ (sq[p] # <<>> => wire[p] # <<>>)

SId == <<att, used, wire, sq, qcap, sendbuf, nextMsg>>
WireObs == LET RECURSIVE F(_) F(S) == IF S = {} THEN <<>> ELSE LET p == CHOOSE x \in S : \A y \in S : x <= y IN <<<<p, Len(wire[p]), 1>>>> \o F(S \ {p}) IN F(SeqSet(att))
Obs == [done |-> doneV, S_pend |-> {}, wire |-> WireObs, pollw |-> TRUE]
Fin == 0
ExportEdge == PrintT(<<"E", ToJson([s |-> SId, sa |-> lastAct, d |-> SId', act |-> lastAct', obs |-> Obs', fin |-> Fin'])>>)
View == SId
=====================================================================
