SPECIFICATION Spec
CONSTANTS Pipes = {1, 2}
          MaxMsgs = 4
          MaxCap = 2
ACTION_CONSTRAINT ExportEdge
VIEW View
