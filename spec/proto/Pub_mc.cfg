SPECIFICATION Spec
CONSTANTS Pipes = {1, 2}
          MaxMsgs = 5
          MaxCap = 2
INVARIANTS PerSubscriberOrder Once Bounded
VIEW View
