---------------------------- MODULE Pull ----------------------------
(* PULL socket (src/sp/protocol/pipeline0/pull.c) stepped through the harness transport.
   C06 (pull half), C15 (readiness), C03 (held message freed with its pipe).
   Same conventions as Push.tla. *)
EXTENDS Naturals, Sequences, FiniteSets, TLC, Json

CONSTANTS Pipes, MaxMsgs, MaxOps

VARIABLES
  st,         \* "none" | "conn" | "up" | "gone"
  held,       \* held[p]: message received from p and not yet handed up (0 = none)
  pl,         \* pipes holding a message, in arrival order
  rq,         \* blocked receive operations (op ids)
  rcv,        \* a transport receive is parked on p
  inbox,      \* messages the peer has written that the transport has not delivered yet
  rdata,      \* payload of the pending recv_cb of p: 0 = none, -1 = error, else the message
  pclosed,    \* the peer of p has gone away
  pending, readable,
  ops,        \* ops[k] = [st, rv, m]
  nextMsg, sent, got, lost,   \* ghosts: per-pipe injected sequence, messages handed to the application, dropped with their pipe
  lastAct

vars == <<st, held, pl, rq, rcv, inbox, rdata, pclosed, pending, readable, ops, nextMsg, sent, got, lost, lastAct>>
SeqSet(s) == {s[i] : i \in 1..Len(s)}
Remove(s, x) == SelectSeq(s, LAMBDA y : y # x)
NOps == Len(ops)
Err == 9999   \* rdata value for a failed receive

Init ==
  /\ st = [p \in Pipes |-> "none"] /\ held = [p \in Pipes |-> 0] /\ pl = <<>> /\ rq = <<>>
  /\ rcv = [p \in Pipes |-> FALSE] /\ inbox = [p \in Pipes |-> <<>>] /\ rdata = [p \in Pipes |-> 0]
  /\ pclosed = [p \in Pipes |-> FALSE] /\ pending = {} /\ readable = FALSE /\ ops = <<>>
  /\ nextMsg = 101 /\ sent = [p \in Pipes |-> <<>>] /\ got = <<>> /\ lost = {}
  /\ lastAct = [a |-> "init"]

CanRecv == pl # <<>>

\* nni_pipe_recv on p through the harness transport: deliver from the inbox, fail if the peer is gone, else park
R0 == [rcv |-> rcv, inbox |-> inbox, rdata |-> rdata, pending |-> pending]
Arm(R, p) ==
  IF R.inbox[p] # <<>> THEN [R EXCEPT !.rdata = [@ EXCEPT ![p] = Head(R.inbox[p])], !.inbox = [@ EXCEPT ![p] = Tail(@)],
                                      !.pending = @ \cup {<<"recv_cb", p>>}]
  ELSE IF pclosed[p] THEN [R EXCEPT !.rdata = [@ EXCEPT ![p] = Err], !.pending = @ \cup {<<"recv_cb", p>>}]
  ELSE [R EXCEPT !.rcv = [@ EXCEPT ![p] = TRUE]]
ApplyR(R) == rcv' = R.rcv /\ inbox' = R.inbox /\ rdata' = R.rdata /\ pending' = R.pending

\* ---------------------------------------------------------------- the application
RecvNb ==
  /\ IF pl = <<>> THEN
        /\ lastAct' = [a |-> "recv", mode |-> "nb", op |-> 0, out |-> [rv |-> "eagain", done |-> <<>>]]
        /\ UNCHANGED <<held, pl, rcv, inbox, rdata, pending, readable, got>>
     ELSE LET p == Head(pl) IN
        /\ pl' = Tail(pl) /\ readable' = (Tail(pl) # <<>>)
        /\ held' = [held EXCEPT ![p] = 0]
        /\ got' = Append(got, held[p])
        /\ ApplyR(Arm(R0, p))
        /\ lastAct' = [a |-> "recv", mode |-> "nb", op |-> 0, out |-> [rv |-> "ok", m |-> held[p], done |-> <<>>]]
  /\ UNCHANGED <<st, rq, pclosed, ops, nextMsg, sent, lost>>
RecvAio ==
  /\ NOps < MaxOps
  /\ LET k == NOps + 1 IN
     /\ lastAct' = [a |-> "recv", mode |-> "aio", op |-> k, out |-> [done |-> <<>>]]
     /\ IF pl = <<>> THEN
          /\ rq' = Append(rq, k) /\ ops' = Append(ops, [st |-> "blocked", rv |-> "none", m |-> 0])
          /\ UNCHANGED <<held, pl, rcv, inbox, rdata, pending, readable, got>>
        ELSE LET p == Head(pl) IN
          /\ pl' = Tail(pl) /\ readable' = (Tail(pl) # <<>>)
          /\ held' = [held EXCEPT ![p] = 0]
          /\ got' = Append(got, held[p])
          /\ ops' = Append(ops, [st |-> "cbpend", rv |-> "ok", m |-> held[p]])
          /\ ApplyR([Arm(R0, p) EXCEPT !.pending = @ \cup {<<"cb", k>>}])
          /\ UNCHANGED rq
  /\ UNCHANGED <<st, pclosed, nextMsg, sent, lost>>
Cancel(k) ==
  /\ k \in 1..NOps /\ ops[k].st = "blocked"
  /\ rq' = Remove(rq, k)
  /\ ops' = [ops EXCEPT ![k] = [st |-> "cbpend", rv |-> "ecanceled", m |-> 0]]
  /\ pending' = pending \cup {<<"cb", k>>}
  /\ lastAct' = [a |-> "cancel", op |-> k, out |-> [done |-> <<>>]]
  /\ UNCHANGED <<st, held, pl, rcv, inbox, rdata, pclosed, readable, nextMsg, sent, got, lost>>
RunCb(k) ==
  /\ <<"cb", k>> \in pending
  /\ pending' = pending \ {<<"cb", k>>}
  /\ ops' = [ops EXCEPT ![k] = [st |-> "done", rv |-> @.rv, m |-> @.m]]
  /\ lastAct' = [a |-> "run", task |-> "cb", id |-> k,
                 out |-> [done |-> <<IF ops[k].rv = "ok" THEN [op |-> k, rv |-> "ok", m |-> ops[k].m]
                                                          ELSE [op |-> k, rv |-> ops[k].rv]>>]]
  /\ UNCHANGED <<st, held, pl, rq, rcv, inbox, rdata, pclosed, readable, nextMsg, sent, got, lost>>

\* ---------------------------------------------------------------- the environment
Connect(p) ==
  /\ st[p] = "none" /\ <<"accept_cb", 0>> \notin pending /\ \A q \in Pipes : st[q] # "conn"
  /\ st' = [st EXCEPT ![p] = "conn"]
  /\ pending' = pending \cup {<<"accept_cb", 0>>}
  /\ lastAct' = [a |-> "connect", p |-> p, out |-> [rv |-> "ok"]]
  /\ UNCHANGED <<held, pl, rq, rcv, inbox, rdata, pclosed, readable, ops, nextMsg, sent, got, lost>>
RunAccept ==
  /\ <<"accept_cb", 0>> \in pending
  /\ \E p \in Pipes :
       /\ st[p] = "conn"
       /\ st' = [st EXCEPT ![p] = "up"]
       /\ ApplyR(Arm([R0 EXCEPT !.pending = @ \ {<<"accept_cb", 0>>}], p))
  /\ lastAct' = [a |-> "run", task |-> "accept_cb", id |-> 0, out |-> [done |-> <<>>]]
  /\ UNCHANGED <<held, pl, rq, pclosed, readable, ops, nextMsg, sent, got, lost>>
\* the PUSH peer writes a message
Inject(p) ==
  /\ st[p] = "up" /\ ~pclosed[p] /\ nextMsg <= 100 + MaxMsgs /\ Len(inbox[p]) < 2
  /\ nextMsg' = nextMsg + 1
  /\ sent' = [sent EXCEPT ![p] = Append(@, nextMsg)]
  /\ IF rcv[p] THEN
        /\ rcv' = [rcv EXCEPT ![p] = FALSE] /\ rdata' = [rdata EXCEPT ![p] = nextMsg]
        /\ pending' = pending \cup {<<"recv_cb", p>>}
        /\ lastAct' = [a |-> "inject", p |-> p, m |-> nextMsg, out |-> [rv |-> "delivered"]]
        /\ UNCHANGED inbox
     ELSE
        /\ inbox' = [inbox EXCEPT ![p] = Append(@, nextMsg)]
        /\ lastAct' = [a |-> "inject", p |-> p, m |-> nextMsg, out |-> [rv |-> "queued"]]
        /\ UNCHANGED <<rcv, rdata, pending>>
  /\ UNCHANGED <<st, held, pl, rq, pclosed, readable, ops, got, lost>>
PeerClose(p) ==
  /\ st[p] = "up" /\ ~pclosed[p]
  /\ pclosed' = [pclosed EXCEPT ![p] = TRUE]
  /\ IF rcv[p] /\ inbox[p] = <<>> THEN
        /\ rcv' = [rcv EXCEPT ![p] = FALSE] /\ rdata' = [rdata EXCEPT ![p] = Err]
        /\ pending' = pending \cup {<<"recv_cb", p>>}
     ELSE UNCHANGED <<rcv, rdata, pending>>
  /\ lastAct' = [a |-> "peer_close", p |-> p]
  /\ UNCHANGED <<st, held, pl, rq, inbox, readable, ops, nextMsg, sent, got, lost>>
\* the application closes the connection (nng_pipe_close): pull0_pipe_close; a message still held for it is freed
PipeClose(p) ==
  /\ st[p] = "up"
  /\ st' = [st EXCEPT ![p] = "gone"]
  /\ pl' = Remove(pl, p) /\ readable' = (Remove(pl, p) # <<>>)
  \* a completed transport receive whose callback has not run yet: the reaper waits for that callback (pipe_stop), which finds
  \* the pipe closed and frees the message instead of holding it for the application
  /\ lost' = lost \cup (IF held[p] # 0 THEN {held[p]} ELSE {}) \cup SeqSet(inbox[p])
                   \cup (IF <<"recv_cb", p>> \in pending /\ rdata[p] \notin {0, Err} THEN {rdata[p]} ELSE {})
  /\ held' = [held EXCEPT ![p] = 0] /\ inbox' = [inbox EXCEPT ![p] = <<>>] /\ rcv' = [rcv EXCEPT ![p] = FALSE]
  /\ pending' = pending \ {<<"recv_cb", p>>} /\ rdata' = [rdata EXCEPT ![p] = 0]
  /\ lastAct' = [a |-> "pipe_close", p |-> p]
  /\ UNCHANGED <<rq, pclosed, ops, nextMsg, sent, got>>
\* pull0_recv_cb
RunRecvCb(p) ==
  /\ <<"recv_cb", p>> \in pending
  /\ LET m == rdata[p]  R1 == [R0 EXCEPT !.pending = @ \ {<<"recv_cb", p>>}, !.rdata = [@ EXCEPT ![p] = 0]] IN
     IF m = Err THEN
        \* error: nni_pipe_close; the reaper runs pull0_pipe_close / stop / fini (the held message is freed)
        /\ st' = [st EXCEPT ![p] = "gone"]
        /\ pl' = Remove(pl, p) /\ readable' = (Remove(pl, p) # <<>>)
        /\ lost' = lost \cup (IF held[p] # 0 THEN {held[p]} ELSE {}) \cup SeqSet(inbox[p])
        /\ held' = [held EXCEPT ![p] = 0]
        /\ ApplyR([R1 EXCEPT !.inbox = [@ EXCEPT ![p] = <<>>]])
        /\ lastAct' = [a |-> "run", task |-> "recv_cb", id |-> p, out |-> [done |-> <<>>]]
        /\ UNCHANGED <<rq, ops, got>>
     ELSE IF rq = <<>> THEN
        \* nobody is waiting: hold the message, no new transport receive until it is handed up
        /\ pl' = Append(pl, p) /\ readable' = TRUE
        /\ held' = [held EXCEPT ![p] = m]
        /\ ApplyR(R1)
        /\ lastAct' = [a |-> "run", task |-> "recv_cb", id |-> p, out |-> [done |-> <<>>]]
        /\ UNCHANGED <<st, rq, ops, got, lost>>
     ELSE LET k == Head(rq) IN
        \* hand it straight to the first waiter (synchronous completion) and receive again
        /\ rq' = Tail(rq)
        /\ ops' = [ops EXCEPT ![k] = [st |-> "done", rv |-> "ok", m |-> m]]
        /\ got' = Append(got, m)
        /\ ApplyR(Arm(R1, p))
        /\ lastAct' = [a |-> "run", task |-> "recv_cb", id |-> p, out |-> [done |-> <<[op |-> k, rv |-> "ok", m |-> m]>>]]
        /\ UNCHANGED <<st, held, pl, readable, lost>>
  /\ UNCHANGED <<pclosed, nextMsg, sent>>

Next == \/ RecvNb \/ RecvAio \/ (\E k \in 1..MaxOps : Cancel(k) \/ RunCb(k))
        \/ (\E p \in Pipes : Connect(p) \/ Inject(p) \/ PeerClose(p) \/ PipeClose(p) \/ RunRecvCb(p))
        \/ RunAccept
Spec == Init /\ [][Next]_vars

\* ---------------------------------------------------------------- properties
\* no duplicates; what the application got from one connection is a prefix-ordered subsequence of what was written on it
NoDup == Cardinality(SeqSet(got)) = Len(got)
Sub(s, t) == \A i, j \in 1..Len(s) : i < j => (\E a, b \in 1..Len(t) : a < b /\ t[a] = s[i] /\ t[b] = s[j])
PerPipeOrder == \A p \in Pipes : Sub(SelectSeq(got, LAMBDA m : m \in SeqSet(sent[p])), sent[p])
\* every written message is in exactly one place: still in the transport, in a pending callback, held, delivered, or lost with its pipe
Where(m, p) == (IF m \in SeqSet(inbox[p]) THEN 1 ELSE 0) + (IF rdata[p] = m THEN 1 ELSE 0) + (IF held[p] = m THEN 1 ELSE 0)
             + (IF m \in SeqSet(got) THEN 1 ELSE 0) + (IF m \in lost THEN 1 ELSE 0)
ExactlyOnePlace == \A p \in Pipes : \A m \in SeqSet(sent[p]) : Where(m, p) = 1
\* while connections stay up nothing is lost
NoLossWhileUp == \A m \in lost : \E p \in Pipes : m \in SeqSet(sent[p]) /\ st[p] = "gone"
\* at most one outstanding transport receive per pipe, re-armed only after the message was handed up
OneReceive == \A p \in Pipes : (rcv[p] \/ <<"recv_cb", p>> \in pending) => (held[p] = 0 /\ ~(rcv[p] /\ <<"recv_cb", p>> \in pending))
\* the list of pipes with data is exactly the pipes holding a message
ListSound == SeqSet(pl) = {p \in Pipes : held[p] # 0} /\ Cardinality(SeqSet(pl)) = Len(pl)
\* a receiver waits only while nothing is held
NoLostWakeup == rq # <<>> => pl = <<>>
\* C15
PollMirrors == (pending = {}) => (readable <=> CanRecv)

\* ---------------------------------------------------------------- export
SId == <<st, held, pl, rq, rcv, inbox, rdata, pclosed, pending, readable, ops, nextMsg>>
WireObs == LET RECURSIVE F(_)
               F(S) == IF S = {} THEN <<>>
                       ELSE LET p == CHOOSE x \in S : \A y \in S : x <= y IN
                            <<<<p, 0, IF rcv[p] THEN 1 ELSE 0>>>> \o F(S \ {p})
           IN F({p \in Pipes : st[p] \in {"conn", "up"}})
Obs == [S_pend |-> pending, wire |-> WireObs, pollr |-> readable]
Fin == 0
ExportEdge == PrintT(<<"E", ToJson([s |-> SId, sa |-> lastAct, d |-> SId', act |-> lastAct', obs |-> Obs', fin |-> Fin'])>>)
View == SId
=====================================================================
