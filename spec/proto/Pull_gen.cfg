SPECIFICATION Spec
CONSTANTS Pipes = {1, 2}
          MaxMsgs = 3
          MaxOps = 1
INVARIANTS ExactlyOnePlace PollMirrors
ACTION_CONSTRAINT ExportEdge
VIEW View
