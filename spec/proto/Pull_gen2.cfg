SPECIFICATION Spec
CONSTANTS Pipes = {1, 2}
          MaxMsgs = 4
          MaxOps = 2
INVARIANTS ExactlyOnePlace PollMirrors
ACTION_CONSTRAINT ExportEdge
VIEW View
