SPECIFICATION Spec
CONSTANTS Pipes = {1, 2}
          MaxMsgs = 4
          MaxOps = 2
INVARIANTS NoDup PerPipeOrder ExactlyOnePlace NoLossWhileUp OneReceive ListSound NoLostWakeup PollMirrors
VIEW View
