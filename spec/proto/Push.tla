---------------------------- MODULE Push ----------------------------
(* PUSH socket (src/sp/protocol/pipeline0/push.c) stepped through the harness transport.
   C06 (push half), C15 (readiness), C03 (ownership of queued / in-flight messages), C18 (send buffer).

   One action per critical section of push.c (push0_sock_send, push0_pipe_ready from pipe start and
   from push0_send_cb, push0_pipe_close, push0_set_send_buf_len, push0_cancel) plus the environment
   (connect, take = the peer reads the message off the wire, inject, peer_close) and the scheduler:
   internal callbacks are explicit pending tasks, released one at a time (the NNG_VERIF task gate),
   so TLC explores every interleaving of callbacks with API calls.  Vocabulary of lastAct/Obs: the
   commands and observations of harness/drv_proto.c. *)
EXTENDS Naturals, Sequences, FiniteSets, TLC, Json

CONSTANTS Pipes,        \* harness pipe slots (each connects at most once)
          MaxCap,       \* NNG_OPT_SENDBUF values 0..MaxCap
          MaxMsgs,      \* messages 101..100+MaxMsgs
          MaxOps,       \* asynchronous (aio) sends
          GuardClosed   \* TRUE: push0_pipe_ready ignores a closed pipe (repaired); FALSE: defect (stale ready entry)

VARIABLES
  st,         \* st[p] \in {"none", "conn", "up", "gone"}
  pl,         \* ready list
  wq, cap,    \* send buffer
  aq,         \* blocked aio senders (op ids)
  wire,       \* wire[p]: message parked in the transport send of p (<<>> or <<m>>)
  rcv,        \* rcv[p]: a transport receive is parked on p
  rkind,      \* rkind[p]: what the pending recv_cb of p carries: "none" | "data" | "err"
  pending,    \* gated tasks: {<<"accept_cb",0>>, <<"send_cb",p>>, <<"recv_cb",p>>, <<"cb",op>>}
  writable,   \* the send pollable (implementation state)
  ops,        \* ops[k] = [m, st, rv]: st \in {"blocked", "cbpend", "done"}
  stale,      \* GuardClosed = FALSE only: a destroyed pipe is still on the ready list
  nextMsg, accepted, taken, lost,    \* ghosts
  lastAct

vars == <<st, pl, wq, cap, aq, wire, rcv, rkind, pending, writable, ops, stale, nextMsg, accepted, taken, lost, lastAct>>

SeqSet(s) == {s[i] : i \in 1..Len(s)}
Remove(s, x) == SelectSeq(s, LAMBDA y : y # x)
Full == Len(wq) >= cap
NOps == Len(ops)

Init ==
  /\ st = [p \in Pipes |-> "none"] /\ pl = <<>> /\ wq = <<>> /\ cap = 0 /\ aq = <<>>
  /\ wire = [p \in Pipes |-> <<>>] /\ rcv = [p \in Pipes |-> FALSE] /\ rkind = [p \in Pipes |-> "none"]
  /\ pending = {} /\ writable = FALSE /\ ops = <<>> /\ stale = FALSE
  /\ nextMsg = 101 /\ accepted = <<>> /\ taken = [p \in Pipes |-> <<>>] /\ lost = {}
  /\ lastAct = [a |-> "init"]

\* property-level readiness, defined from the abstract state (never from raise/clear calls)
CanSend == pl # <<>> \/ ~Full

\* ---- push0_pipe_ready(p), as a function on the record of the fields it touches.
\* A waiter moved out of aq completes synchronously (nni_aio_finish_sync): its callback has run when
\* the step returns, so it is reported in out.done of that step.
R0 == [pl |-> pl, wq |-> wq, aq |-> aq, wire |-> wire, writable |-> writable, ops |-> ops, accepted |-> accepted, done |-> <<>>]
Ready(R, p) ==
  LET blocked == (Len(R.wq) >= cap) /\ R.pl = <<>>
      R1 == IF R.wq # <<>> THEN
               IF R.aq # <<>> THEN
                  LET k == Head(R.aq) IN
                  [R EXCEPT !.wire = [@ EXCEPT ![p] = <<Head(R.wq)>>],
                            !.wq = Append(Tail(R.wq), R.ops[k].m), !.aq = Tail(R.aq),
                            !.accepted = Append(@, R.ops[k].m),
                            !.ops = [@ EXCEPT ![k] = [m |-> @.m, st |-> "done", rv |-> "ok"]],
                            !.done = Append(@, [op |-> k, rv |-> "ok"])]
               ELSE [R EXCEPT !.wire = [@ EXCEPT ![p] = <<Head(R.wq)>>], !.wq = Tail(R.wq)]
            ELSE IF R.aq # <<>> THEN
                  LET k == Head(R.aq) IN
                  [R EXCEPT !.wire = [@ EXCEPT ![p] = <<R.ops[k].m>>], !.aq = Tail(R.aq),
                            !.accepted = Append(@, R.ops[k].m),
                            !.ops = [@ EXCEPT ![k] = [m |-> @.m, st |-> "done", rv |-> "ok"]],
                            !.done = Append(@, [op |-> k, rv |-> "ok"])]
            ELSE [R EXCEPT !.pl = Append(@, p)]
  IN [R1 EXCEPT !.writable = IF blocked /\ (Len(R1.wq) < cap \/ R1.pl # <<>>) THEN TRUE ELSE R.writable]
Apply(R) == /\ pl' = R.pl /\ wq' = R.wq /\ aq' = R.aq /\ wire' = R.wire /\ writable' = R.writable
            /\ ops' = R.ops /\ accepted' = R.accepted

\* ---------------------------------------------------------------- the application
\* nng_sendmsg(NNG_FLAG_NONBLOCK)
SendNb ==
  /\ nextMsg <= 100 + MaxMsgs
  /\ ~stale     \* (defect model only: the next send dereferences the destroyed pipe; the behaviour ends here)
  /\ LET m == nextMsg IN
     /\ nextMsg' = m + 1
     /\ IF pl # <<>> THEN
          LET p == Head(pl) IN
          /\ pl' = Tail(pl)
          /\ wire' = [wire EXCEPT ![p] = <<m>>]
          /\ writable' = IF Tail(pl) = <<>> /\ Full THEN FALSE ELSE writable
          /\ accepted' = Append(accepted, m)
          /\ lastAct' = [a |-> "send", mode |-> "nb", op |-> 0, m |-> m, out |-> [rv |-> "ok", done |-> <<>>]]
          /\ UNCHANGED wq
        ELSE IF ~Full THEN
          /\ wq' = Append(wq, m)
          /\ writable' = IF Len(wq) + 1 >= cap THEN FALSE ELSE writable
          /\ accepted' = Append(accepted, m)
          /\ lastAct' = [a |-> "send", mode |-> "nb", op |-> 0, m |-> m, out |-> [rv |-> "ok", done |-> <<>>]]
          /\ UNCHANGED <<pl, wire>>
        ELSE
          /\ lastAct' = [a |-> "send", mode |-> "nb", op |-> 0, m |-> m, out |-> [rv |-> "eagain", done |-> <<>>]]
          /\ UNCHANGED <<pl, wq, wire, writable, accepted>>
  /\ UNCHANGED <<st, cap, aq, rcv, rkind, pending, ops, stale, taken, lost>>
\* nng_socket_send(aio) with an infinite timeout
SendAio ==
  /\ nextMsg <= 100 + MaxMsgs /\ NOps < MaxOps /\ ~stale
  /\ LET m == nextMsg  k == NOps + 1 IN
     /\ nextMsg' = m + 1
     /\ lastAct' = [a |-> "send", mode |-> "aio", op |-> k, m |-> m, out |-> [done |-> <<>>]]
     /\ IF pl # <<>> THEN
          LET p == Head(pl) IN
          /\ pl' = Tail(pl) /\ wire' = [wire EXCEPT ![p] = <<m>>]
          /\ writable' = IF Tail(pl) = <<>> /\ Full THEN FALSE ELSE writable
          /\ accepted' = Append(accepted, m)
          /\ ops' = Append(ops, [m |-> m, st |-> "cbpend", rv |-> "ok"])
          /\ pending' = pending \cup {<<"cb", k>>}
          /\ UNCHANGED <<wq, aq>>
        ELSE IF ~Full THEN
          /\ wq' = Append(wq, m)
          /\ writable' = IF Len(wq) + 1 >= cap THEN FALSE ELSE writable
          /\ accepted' = Append(accepted, m)
          /\ ops' = Append(ops, [m |-> m, st |-> "cbpend", rv |-> "ok"])
          /\ pending' = pending \cup {<<"cb", k>>}
          /\ UNCHANGED <<pl, wire, aq>>
        ELSE
          /\ aq' = Append(aq, k)
          /\ ops' = Append(ops, [m |-> m, st |-> "blocked", rv |-> "none"])
          /\ UNCHANGED <<pl, wq, wire, writable, accepted, pending>>
  /\ UNCHANGED <<st, cap, rcv, rkind, stale, taken, lost>>
\* nng_aio_cancel on a blocked send: push0_cancel finishes it (asynchronously) with NNG_ECANCELED
Cancel(k) ==
  /\ k \in 1..NOps /\ ops[k].st = "blocked"
  /\ aq' = Remove(aq, k)
  /\ ops' = [ops EXCEPT ![k] = [m |-> @.m, st |-> "cbpend", rv |-> "ecanceled"]]
  /\ pending' = pending \cup {<<"cb", k>>}
  /\ lastAct' = [a |-> "cancel", op |-> k, out |-> [done |-> <<>>]]
  /\ UNCHANGED <<st, pl, wq, cap, wire, rcv, rkind, writable, stale, nextMsg, accepted, taken, lost>>
\* the user's completion callback runs
RunCb(k) ==
  /\ <<"cb", k>> \in pending
  /\ pending' = pending \ {<<"cb", k>>}
  /\ ops' = [ops EXCEPT ![k] = [m |-> @.m, st |-> "done", rv |-> @.rv]]
  /\ lastAct' = [a |-> "run", task |-> "cb", id |-> k, out |-> [done |-> <<[op |-> k, rv |-> ops[k].rv]>>]]
  /\ UNCHANGED <<st, pl, wq, cap, aq, wire, rcv, rkind, writable, stale, nextMsg, accepted, taken, lost>>
\* NNG_OPT_SENDBUF: nni_lmq_resize keeps the oldest min(len, n) messages
SetBuf(n) ==
  /\ n # cap
  /\ LET keep == IF Len(wq) < n THEN Len(wq) ELSE n IN
     /\ wq' = SubSeq(wq, 1, keep)
     /\ lost' = lost \cup {wq[i] : i \in (keep + 1)..Len(wq)}
     /\ writable' = IF keep < n THEN TRUE ELSE IF pl = <<>> THEN FALSE ELSE writable
  /\ cap' = n
  /\ lastAct' = [a |-> "setopt", name |-> "send-buffer", val |-> n, out |-> [rv |-> "ok"]]
  /\ UNCHANGED <<st, pl, aq, wire, rcv, rkind, pending, ops, stale, nextMsg, accepted, taken>>

\* ---------------------------------------------------------------- the environment (harness transport)
Connect(p) ==
  /\ st[p] = "none" /\ <<"accept_cb", 0>> \notin pending /\ \A q \in Pipes : st[q] # "conn"
  /\ st' = [st EXCEPT ![p] = "conn"]
  /\ pending' = pending \cup {<<"accept_cb", 0>>}
  /\ lastAct' = [a |-> "connect", p |-> p, out |-> [rv |-> "ok"]]
  /\ UNCHANGED <<pl, wq, cap, aq, wire, rcv, rkind, writable, ops, stale, nextMsg, accepted, taken, lost>>
\* listener_accept_cb: nni_pipe_start -> push0_pipe_start (park a receive, push0_pipe_ready) and accept again
RunAccept ==
  /\ <<"accept_cb", 0>> \in pending
  /\ \E p \in Pipes :
       /\ st[p] = "conn"
       /\ st' = [st EXCEPT ![p] = "up"]
       /\ rcv' = [rcv EXCEPT ![p] = TRUE]
       /\ LET R == Ready(R0, p) IN
          /\ Apply(R)
          /\ lastAct' = [a |-> "run", task |-> "accept_cb", id |-> 0, out |-> [done |-> R.done]]
  /\ pending' = pending \ {<<"accept_cb", 0>>}
  /\ UNCHANGED <<cap, rkind, stale, nextMsg, taken, lost>>
\* the peer reads the message: the transport send completes, push0_send_cb becomes runnable
Take(p) ==
  /\ st[p] = "up" /\ wire[p] # <<>>
  /\ taken' = [taken EXCEPT ![p] = Append(@, Head(wire[p]))]
  /\ wire' = [wire EXCEPT ![p] = <<>>]
  /\ pending' = pending \cup {<<"send_cb", p>>}
  /\ lastAct' = [a |-> "take", p |-> p, out |-> [hdr |-> <<>>, m |-> Head(wire[p])]]
  /\ UNCHANGED <<st, pl, wq, cap, aq, rcv, rkind, writable, ops, stale, nextMsg, accepted, lost>>
RunSendCb(p) ==
  /\ <<"send_cb", p>> \in pending /\ st[p] = "up"
  /\ pending' = pending \ {<<"send_cb", p>>}
  /\ LET R == Ready(R0, p) IN
     /\ Apply(R)
     /\ lastAct' = [a |-> "run", task |-> "send_cb", id |-> p, out |-> [done |-> R.done]]
  /\ UNCHANGED <<st, cap, rcv, rkind, stale, nextMsg, taken, lost>>
\* a (protocol-violating) PULL peer sends data: it is discarded
Inject(p) ==
  /\ st[p] = "up" /\ rcv[p]
  /\ rcv' = [rcv EXCEPT ![p] = FALSE] /\ rkind' = [rkind EXCEPT ![p] = "data"]
  /\ pending' = pending \cup {<<"recv_cb", p>>}
  /\ lastAct' = [a |-> "inject", p |-> p, m |-> 999, out |-> [rv |-> "delivered"]]
  /\ UNCHANGED <<st, pl, wq, cap, aq, wire, writable, ops, stale, nextMsg, accepted, taken, lost>>
\* the peer goes away: the parked receive fails
PeerClose(p) ==
  /\ st[p] = "up" /\ rcv[p]
  /\ rcv' = [rcv EXCEPT ![p] = FALSE] /\ rkind' = [rkind EXCEPT ![p] = "err"]
  /\ pending' = pending \cup {<<"recv_cb", p>>}
  /\ lastAct' = [a |-> "peer_close", p |-> p]
  /\ UNCHANGED <<st, pl, wq, cap, aq, wire, writable, ops, stale, nextMsg, accepted, taken, lost>>
\* push0_recv_cb: data -> discard and receive again; error -> nni_pipe_close, and the reaper runs the
\* whole teardown (push0_pipe_close, transport close, push0_pipe_stop which waits for -- here: runs --
\* the pipe's remaining callbacks, destruction)
RunRecvCb(p) ==
  /\ <<"recv_cb", p>> \in pending
  /\ IF rkind[p] = "data" THEN
        /\ rcv' = [rcv EXCEPT ![p] = TRUE] /\ rkind' = [rkind EXCEPT ![p] = "none"]
        /\ pending' = pending \ {<<"recv_cb", p>>}
        /\ lastAct' = [a |-> "run", task |-> "recv_cb", id |-> p, out |-> [done |-> <<>>]]
        /\ UNCHANGED <<st, pl, wq, aq, wire, writable, ops, stale, accepted, lost>>
     ELSE
        LET sendDone == <<"send_cb", p>> \in pending      \* a successful send completion is still waiting
            pl1 == Remove(pl, p)
            w1  == IF p \in SeqSet(pl) /\ pl1 = <<>> /\ Full THEN FALSE ELSE writable
        IN /\ st' = [st EXCEPT ![p] = "gone"]
           /\ rkind' = [rkind EXCEPT ![p] = "none"] /\ rcv' = rcv
           /\ pending' = pending \ {<<"recv_cb", p>>, <<"send_cb", p>>}
           /\ IF sendDone /\ ~GuardClosed
                THEN \* defect: push0_send_cb -> push0_pipe_ready on the closed pipe
                     LET R == Ready([R0 EXCEPT !.pl = pl1, !.writable = w1, !.wire = [wire EXCEPT ![p] = <<>>]], p) IN
                     /\ Apply([R EXCEPT !.wire = [R.wire EXCEPT ![p] = <<>>]])
                     /\ lost' = lost \cup SeqSet(wire[p]) \cup SeqSet(R.wire[p])
                     /\ stale' = (p \in SeqSet(R.pl))
                     /\ lastAct' = [a |-> "run", task |-> "recv_cb", id |-> p, out |-> [done |-> R.done]]
                ELSE /\ pl' = pl1 /\ writable' = w1 /\ wire' = [wire EXCEPT ![p] = <<>>]
                     /\ lost' = lost \cup SeqSet(wire[p])
                     /\ lastAct' = [a |-> "run", task |-> "recv_cb", id |-> p, out |-> [done |-> <<>>]]
                     /\ UNCHANGED <<wq, aq, ops, accepted, stale>>
  /\ UNCHANGED <<cap, nextMsg, taken>>
\* (in the data branch lost is unchanged: stated there)

Next == \/ SendNb \/ SendAio \/ (\E k \in 1..MaxOps : Cancel(k) \/ RunCb(k))
        \/ (\E n \in 0..MaxCap : SetBuf(n))
        \/ (\E p \in Pipes : Connect(p) \/ Take(p) \/ RunSendCb(p) \/ Inject(p) \/ PeerClose(p) \/ RunRecvCb(p))
        \/ RunAccept
Spec == Init /\ [][Next]_vars

\* ---------------------------------------------------------------- properties
\* C06: every accepted message is in exactly one place
Places(m) == (IF m \in SeqSet(wq) THEN 1 ELSE 0)
           + Cardinality({p \in Pipes : m \in SeqSet(wire[p])})
           + Cardinality({p \in Pipes : m \in SeqSet(taken[p])})
           + (IF m \in lost THEN 1 ELSE 0)
AtMostOnePlace == \A m \in SeqSet(accepted) : Places(m) = 1
NoDup == /\ \A p \in Pipes : Cardinality(SeqSet(taken[p])) = Len(taken[p])
         /\ Cardinality(SeqSet(wq)) = Len(wq)
\* nothing is lost except by a resize that no longer fits it or by the loss of the connection carrying it
Bounded == Len(wq) <= cap /\ \A p \in Pipes : Len(wire[p]) <= 1
\* messages carried by one connection arrive in send order
IsSubSeqOf(s, t) == \A i, j \in 1..Len(s) : i < j =>
                      (\E a, b \in 1..Len(t) : a < b /\ t[a] = s[i] /\ t[b] = s[j])
PerPipeOrder == \A p \in Pipes : IsSubSeqOf(taken[p], accepted)
\* a blocked sender's message is still the caller's: it is nowhere in the socket
BlockedNotAccepted == \A k \in 1..NOps : ops[k].st = "blocked" => ops[k].m \notin SeqSet(accepted)
\* the ready list only names live, idle pipes
ReadyListSound == ~stale /\ \A p \in SeqSet(pl) : st[p] = "up" /\ wire[p] = <<>>
\* C15: at quiescence the send descriptor mirrors readiness
Quiescent == pending = {}
PollMirrors == Quiescent => (writable <=> CanSend)

\* ---------------------------------------------------------------- export
SId == <<st, pl, wq, cap, aq, wire, rcv, rkind, pending, writable, ops, stale, nextMsg>>
WireObs == LET RECURSIVE F(_)
               F(S) == IF S = {} THEN <<>>
                       ELSE LET p == CHOOSE x \in S : \A y \in S : x <= y IN
                            <<<<p, Len(wire[p]), IF rcv[p] THEN 1 ELSE 0>>>> \o F(S \ {p})
           IN F({p \in Pipes : st[p] \in {"conn", "up"}})
Obs == [S_pend |-> pending, wire |-> WireObs, pollw |-> writable]
Fin == 0
ExportEdge == PrintT(<<"E", ToJson([s |-> SId, sa |-> lastAct, d |-> SId', act |-> lastAct', obs |-> Obs', fin |-> Fin'])>>)
View == SId
=====================================================================
