SPECIFICATION Spec
CONSTANTS Pipes = {1, 2}
          MaxCap = 2
          MaxMsgs = 3
          MaxOps = 1
          GuardClosed = FALSE
INVARIANTS AtMostOnePlace NoDup Bounded PerPipeOrder BlockedNotAccepted ReadyListSound PollMirrors
VIEW View
