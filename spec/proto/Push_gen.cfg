SPECIFICATION Spec
CONSTANTS Pipes = {1, 2}
          MaxCap = 1
          MaxMsgs = 3
          MaxOps = 1
          GuardClosed = TRUE
INVARIANTS AtMostOnePlace PollMirrors
ACTION_CONSTRAINT ExportEdge
VIEW View
