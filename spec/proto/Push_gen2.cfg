SPECIFICATION Spec
CONSTANTS Pipes = {1, 2}
          MaxCap = 2
          MaxMsgs = 4
          MaxOps = 2
          GuardClosed = TRUE
INVARIANTS AtMostOnePlace PollMirrors
ACTION_CONSTRAINT ExportEdge
VIEW View
