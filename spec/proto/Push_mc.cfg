SPECIFICATION Spec
CONSTANTS Pipes = {1, 2}
          MaxCap = 2
          MaxMsgs = 4
          MaxOps = 2
          GuardClosed = TRUE
INVARIANTS AtMostOnePlace NoDup Bounded PerPipeOrder BlockedNotAccepted ReadyListSound PollMirrors
VIEW View
