---------------------------- MODULE Rep ----------------------------
(* REP socket with contexts (src/sp/protocol/reqrep0/rep.c), macro steps through the harness transport.
   The RESPONDENT (src/sp/protocol/survey0/respond.c) is the same state machine (C07), except that it refuses every
   zero-timeout send (NbSendFails; known finding under C15).
   C04 (replier side: the reply goes to the connection and with the backtrace of the request most recently
   received by that context; send before receive and a second concurrent receive fail with NNG_ESTATE),
   C13 (backtrace capture, hop limit), C11 (malformed request headers), C15.

   The driver plays raw requesters: a request on the wire is  hop-word* id-word body ; words are written
   "h<n>" (high bit clear) and "i<n>" (high bit set). *)
EXTENDS Naturals, Sequences, FiniteSets, TLC, Json

CONSTANTS Pipes, MaxMsgs, MaxOps, HopCounts,
          NbSendFails,      \* TRUE (RESPONDENT as it is): a send with a zero timeout fails before the state machine is consulted
          ClearReadable     \* TRUE: losing the only pipe with a held request clears the receive pollable (repaired)

Ctxs == {0, 1}
VARIABLES
  up, used, open1,
  closed,      \* nng_socket_close has been called (terminal)
  pclosed,     \* requesters that went away; the socket notices when its receive on that connection is outstanding
  hold,        \* hold[p]: request received on p and not yet taken by a context: <<>> or <<[bt, m]>>
  recvp,       \* pipes holding a request, in arrival order
  inbox,       \* requests written by the peer, not yet read by the socket: [bt, m, short]
  wire,        \* reply parked in the transport send of p: <<>> or <<[bt, m]>>
  sendq,       \* sendq[p]: contexts waiting to reply on p: [ctx, op, m, bt]
  bt, bp,      \* per context: saved backtrace and pipe of the request being served
  rwait, rop,  \* contexts waiting for a request (in order), their operation
  ttl, readable, writable,
  ops, nextMsg, nreq,
  lastReq,     \* ghost: lastReq[c] = [p, bt] of the request most recently received by context c
  sentTo,      \* ghost: replies put on the wire: [p, bt, m, ctx, want]
  doneV, lastAct

vars == <<up, used, open1, closed, pclosed, hold, recvp, inbox, wire, sendq, bt, bp, rwait, rop, ttl, readable, writable, ops, nextMsg, nreq,
          lastReq, sentTo, doneV, lastAct>>
SeqSet(s) == {s[i] : i \in 1..Len(s)}
Remove(s, x) == SelectSeq(s, LAMBDA y : y # x)
NOps == Len(ops)
Live(c) == ~closed /\ (c = 0 \/ open1)
IdWord(n) == CASE n = 1 -> "i1" [] n = 2 -> "i2" [] n = 3 -> "i3" [] n = 4 -> "i4" [] n = 5 -> "i5" [] OTHER -> "i6"
HopWords(k) == IF k = 0 THEN <<>> ELSE IF k = 1 THEN <<"h7">> ELSE <<"h7", "h8">>

Init ==
  /\ up = {} /\ used = {} /\ open1 = FALSE /\ closed = FALSE /\ pclosed = {} /\ hold = [p \in Pipes |-> <<>>] /\ recvp = <<>> /\ inbox = [p \in Pipes |-> <<>>]
  /\ wire = [p \in Pipes |-> <<>>] /\ sendq = [p \in Pipes |-> <<>>] /\ bt = [c \in Ctxs |-> <<>>] /\ bp = [c \in Ctxs |-> 0]
  /\ rwait = <<>> /\ rop = [c \in Ctxs |-> 0] /\ ttl = 8 /\ readable = FALSE /\ writable = FALSE /\ ops = <<>> /\ nextMsg = 101
  /\ nreq = 0 /\ lastReq = [c \in Ctxs |-> [p |-> 0, bt |-> <<>>]] /\ sentTo = <<>> /\ doneV = <<>> /\ lastAct = [a |-> "init"]

S0 == [up |-> up, pclosed |-> pclosed, hold |-> hold, recvp |-> recvp, inbox |-> inbox, wire |-> wire, sendq |-> sendq, bt |-> bt, bp |-> bp, rwait |-> rwait,
       rop |-> rop, readable |-> readable, writable |-> writable, ops |-> ops, lastReq |-> lastReq, sentTo |-> sentTo, done |-> {}]
Fin(S, k, rv, m) == [S EXCEPT !.ops = [@ EXCEPT ![k] = "done"],
                              !.done = @ \cup {IF rv = "ok" /\ m # 0 THEN [op |-> k, rv |-> rv, m |-> m] ELSE [op |-> k, rv |-> rv]}]
SortDone(D) == LET RECURSIVE F(_) F(X) == IF X = {} THEN <<>> ELSE LET x == CHOOSE y \in X : \A z \in X : y.op <= z.op IN <<x>> \o F(X \ {x}) IN F(D)
Busy(S, p) == S.wire[p] # <<>>

\* rep0_pipe_close
Teardown(S, p) ==
  LET RECURSIVE Flush(_, _)
      Flush(T, q) == IF q = <<>> THEN T ELSE Flush(Fin(T, Head(q).op, "ok", 0), Tail(q))     \* waiting repliers "succeed" (reply discarded)
      A == Flush(S, S.sendq[p])
      rp == Remove(A.recvp, p)
  IN [A EXCEPT !.up = @ \ {p}, !.pclosed = @ \ {p}, !.recvp = rp, !.hold = [@ EXCEPT ![p] = <<>>], !.inbox = [@ EXCEPT ![p] = <<>>],
               !.wire = [@ EXCEPT ![p] = <<>>], !.sendq = [@ EXCEPT ![p] = <<>>],
               !.readable = IF ClearReadable /\ rp = <<>> THEN FALSE ELSE A.readable,
               !.writable = IF A.bp[0] = p THEN TRUE ELSE A.writable]
\* rep0_pipe_recv_cb while the pipe's receive is armed and the transport has data
RECURSIVE Pump(_, _)
Pump(S, p) ==
  IF p \notin S.up \/ S.hold[p] # <<>> THEN S
  ELSE IF S.inbox[p] = <<>> THEN (IF p \in S.pclosed THEN Teardown(S, p) ELSE S)      \* the outstanding receive fails
  ELSE LET x == Head(S.inbox[p])  T == [S EXCEPT !.inbox = [@ EXCEPT ![p] = Tail(@)]] IN
       IF x.short THEN (IF Len(x.bt) >= ttl THEN Pump(T, p) ELSE Teardown(T, p))   \* no id word: the peer is speaking garbage
       ELSE IF Len(x.bt) > ttl THEN Pump(T, p)                     \* too many hops: dropped, the connection stays
       ELSE IF T.rwait = <<>> THEN [T EXCEPT !.hold = [@ EXCEPT ![p] = <<x>>], !.recvp = Append(@, p), !.readable = TRUE]
       ELSE LET c == Head(T.rwait) IN
            Pump(Fin([T EXCEPT !.rwait = Tail(@), !.rop = [@ EXCEPT ![c] = 0], !.bt = [@ EXCEPT ![c] = x.bt], !.bp = [@ EXCEPT ![c] = p],
                               !.lastReq = [@ EXCEPT ![c] = [p |-> p, bt |-> x.bt]],
                               !.writable = IF c = 0 THEN ~Busy(T, p) ELSE @], T.rop[c], "ok", x.m), p)
Apply(S, a) ==
  /\ up' = S.up /\ pclosed' = S.pclosed /\ hold' = S.hold /\ recvp' = S.recvp /\ inbox' = S.inbox /\ wire' = S.wire /\ sendq' = S.sendq /\ bt' = S.bt /\ bp' = S.bp
  /\ rwait' = S.rwait /\ rop' = S.rop /\ readable' = S.readable /\ writable' = S.writable /\ ops' = S.ops /\ lastReq' = S.lastReq
  /\ sentTo' = S.sentTo /\ doneV' = SortDone(S.done) /\ lastAct' = a

\* ---------------------------------------------------------------- application
Recv(c, mode) ==
  /\ Live(c) /\ (mode = "aio" => NOps < MaxOps)
  /\ LET k == NOps + 1
         A == IF mode = "aio" THEN [S0 EXCEPT !.ops = Append(@, "pend")] ELSE S0
         act(o) == IF mode = "nb" THEN [a |-> "recv", mode |-> "nb", op |-> 0, ctx |-> c, out |-> o]
                                  ELSE [a |-> "recv", mode |-> "aio", op |-> k, ctx |-> c, out |-> [done |-> <<>>]]
     IN IF A.recvp # <<>> THEN
           LET p == Head(A.recvp)  x == Head(A.hold[p])
               B == [A EXCEPT !.recvp = Tail(@), !.hold = [@ EXCEPT ![p] = <<>>], !.readable = (Tail(A.recvp) # <<>>),
                              !.bt = [@ EXCEPT ![c] = x.bt], !.bp = [@ EXCEPT ![c] = p],
                              !.lastReq = [@ EXCEPT ![c] = [p |-> p, bt |-> x.bt]],
                              !.writable = IF c = 0 THEN ~Busy(A, p) ELSE @]
               C == Pump(B, p)
           IN IF mode = "nb" THEN Apply(C, act([rv |-> "ok", m |-> x.m, done |-> <<>>])) ELSE Apply(Fin(C, k, "ok", x.m), act(0))
        ELSE IF mode = "nb" THEN Apply(A, act([rv |-> "eagain", done |-> <<>>]))
        ELSE IF A.rop[c] # 0 THEN Apply(Fin(A, k, "estate", 0), act(0))            \* a second concurrent receive
        ELSE Apply([A EXCEPT !.rwait = Append(@, c), !.rop = [@ EXCEPT ![c] = k]], act(0))
  /\ UNCHANGED <<used, open1, closed, ttl, nextMsg, nreq>>
Send(c, mode) ==
  /\ Live(c) /\ nextMsg <= 100 + MaxMsgs /\ (mode = "aio" => NOps < MaxOps)
  /\ LET m == nextMsg  k == NOps + 1
         A0 == IF mode = "aio" THEN [S0 EXCEPT !.ops = Append(@, "pend")] ELSE S0
         b == A0.bt[c]  p == A0.bp[c]
         A == [A0 EXCEPT !.bt = [@ EXCEPT ![c] = <<>>], !.bp = [@ EXCEPT ![c] = 0], !.writable = IF c = 0 THEN FALSE ELSE @]
         act(o) == IF mode = "nb" THEN [a |-> "send", mode |-> "nb", op |-> 0, m |-> m, ctx |-> c, out |-> o]
                                  ELSE [a |-> "send", mode |-> "aio", op |-> k, m |-> m, ctx |-> c, out |-> [done |-> <<>>]]
         fin(S, rv) == IF mode = "nb" THEN Apply(S, act([rv |-> rv, done |-> <<>>])) ELSE Apply(Fin(S, k, rv, 0), act(0))
     IN IF NbSendFails /\ mode = "nb" THEN
           Apply([A0 EXCEPT !.writable = IF c = 0 THEN FALSE ELSE @], act([rv |-> "eagain", done |-> <<>>]))
        ELSE IF b = <<>> THEN fin(A, "estate")                                            \* no request to answer
        ELSE IF p \notin A.up THEN fin(A, "ok")                                      \* the requester is gone: accepted and discarded
        ELSE IF ~Busy(A, p) THEN
             fin([A EXCEPT !.wire = [@ EXCEPT ![p] = <<[bt |-> b, m |-> m]>>],
                           !.writable = IF A.bp[0] = p THEN FALSE ELSE @,      \* the socket's own reply would now have to wait
                           !.sentTo = Append(@, [p |-> p, bt |-> b, m |-> m, ctx |-> c, want |-> lastReq[c]])], "ok")
        ELSE IF mode = "nb" THEN fin(A, "eagain")
        ELSE Apply([A EXCEPT !.sendq = [@ EXCEPT ![p] = Append(@, [ctx |-> c, op |-> k, m |-> m, bt |-> b])]], act(0))
  /\ nextMsg' = nextMsg + 1
  /\ UNCHANGED <<used, open1, closed, ttl, nreq>>
Cancel(k) ==
  /\ ~closed /\ k \in 1..NOps /\ ops[k] = "pend"
  /\ LET A == [S0 EXCEPT !.rwait = SelectSeq(@, LAMBDA c : rop[c] # k), !.rop = [c \in Ctxs |-> IF rop[c] = k THEN 0 ELSE rop[c]],
                         !.sendq = [p \in Pipes |-> SelectSeq(sendq[p], LAMBDA e : e.op # k)]]
     IN Apply(Fin(A, k, "ecanceled", 0), [a |-> "cancel", op |-> k, out |-> [done |-> <<>>]])
  /\ UNCHANGED <<used, open1, closed, ttl, nextMsg, nreq>>
SetTtl(n) ==
  /\ ~closed /\ n # ttl /\ ttl' = n
  /\ Apply(S0, [a |-> "setopt", name |-> "ttl-max", val |-> n, out |-> [rv |-> "ok"]])
  /\ UNCHANGED <<used, open1, closed, nextMsg, nreq>>
CtxOpen ==
  /\ ~closed /\ ~open1 /\ open1' = TRUE
  /\ Apply(S0, [a |-> "ctx_open", ctx |-> 1, out |-> [rv |-> "ok"]])
  /\ UNCHANGED <<used, closed, ttl, nextMsg, nreq>>
\* nng_ctx_close (rep0_ctx_close): the pending receive AND the queued reply of the context complete with NNG_ECLOSED (C10)
CtxCloseOn(S) ==
  LET A == IF S.rop[1] # 0 THEN Fin([S EXCEPT !.rwait = Remove(@, 1), !.rop = [@ EXCEPT ![1] = 0]], S.rop[1], "eclosed", 0) ELSE S
      qs == {p \in Pipes : \E i \in 1..Len(A.sendq[p]) : A.sendq[p][i].ctx = 1}
      B == IF qs = {} THEN A
           ELSE LET p == CHOOSE x \in qs : TRUE
                    e == CHOOSE x \in SeqSet(A.sendq[p]) : x.ctx = 1
                IN Fin([A EXCEPT !.sendq = [@ EXCEPT ![p] = SelectSeq(@, LAMBDA x : x.ctx # 1)]], e.op, "eclosed", 0)
  IN [B EXCEPT !.bt = [@ EXCEPT ![1] = <<>>], !.bp = [@ EXCEPT ![1] = 0]]
CtxClose ==
  /\ ~closed /\ open1 /\ open1' = FALSE
  /\ Apply(CtxCloseOn(S0), [a |-> "ctx_close", ctx |-> 1, out |-> [rv |-> "ok", done |-> <<>>]])
  /\ UNCHANGED <<used, closed, ttl, nextMsg, nreq>>
\* nng_socket_close: connections are torn down (their queued replies "succeed", discarded), every pending receive completes
\* with NNG_ECLOSED.  The open context is swept concurrently with the reaper's tear-down of the connections: its queued reply
\* ends with either result.  Nothing stays pending (C10).
Close ==
  /\ ~closed /\ closed' = TRUE /\ open1' = FALSE
  /\ LET RECURSIVE TearAll(_, _)
         TearAll(S, ps) == IF ps = {} THEN S ELSE LET p == CHOOSE x \in ps : \A y \in ps : x <= y IN TearAll(Teardown(S, p), ps \ {p})
         c1q == {p \in Pipes : \E i \in 1..Len(sendq[p]) : sendq[p][i].ctx = 1}
         \* the context's queued reply: either order
         A0 == S0
         A == TearAll(A0, up)
         c1op == IF c1q = {} THEN 0 ELSE (CHOOSE x \in SeqSet(sendq[CHOOSE p \in c1q : TRUE]) : x.ctx = 1).op
         A1 == IF c1op = 0 THEN A ELSE [A EXCEPT !.done = (@ \ {[op |-> c1op, rv |-> "ok"]}) \cup {[op |-> c1op, rv |-> "ok|eclosed"]}]
         RECURSIVE FailR(_, _)
         FailR(S, cs) == IF cs = {} THEN S ELSE LET c == CHOOSE x \in cs : TRUE IN
                            FailR(IF S.rop[c] # 0 THEN Fin([S EXCEPT !.rop = [@ EXCEPT ![c] = 0]], S.rop[c], "eclosed", 0) ELSE S, cs \ {c})
         B == FailR(A1, Ctxs)
     IN Apply([B EXCEPT !.rwait = <<>>, !.bt = [c \in Ctxs |-> <<>>], !.bp = [c \in Ctxs |-> 0], !.readable = FALSE, !.writable = FALSE,
                        !.pclosed = {}],
              [a |-> "close", out |-> [rv |-> "ok"]])
  /\ UNCHANGED <<used, ttl, nextMsg, nreq>>

\* ---------------------------------------------------------------- requesters (environment)
Connect(p) ==
  /\ ~closed /\ p \notin used /\ used' = used \cup {p}
  /\ Apply([S0 EXCEPT !.up = @ \cup {p}], [a |-> "connect", p |-> p, out |-> [rv |-> "ok"]])
  /\ UNCHANGED <<open1, closed, ttl, nextMsg, nreq>>
Request(p, k, short) ==
  /\ ~closed /\ p \in up /\ p \notin pclosed /\ nextMsg <= 100 + MaxMsgs /\ nreq < 6 /\ Len(inbox[p]) < 2
  /\ LET words == IF short THEN HopWords(k) ELSE HopWords(k) \o <<IdWord(nreq + 1)>>
         x == [bt |-> words, m |-> nextMsg, short |-> short]
         armed == hold[p] = <<>>
     IN Apply(Pump([S0 EXCEPT !.inbox = [@ EXCEPT ![p] = Append(@, x)]], p),
              [a |-> "inject", p |-> p, m |-> nextMsg, hdrw |-> words, short |-> short,
               out |-> [rv |-> IF armed THEN "delivered" ELSE "queued"]])
  /\ nextMsg' = nextMsg + 1 /\ nreq' = nreq + 1
  /\ UNCHANGED <<used, open1, closed, ttl>>
Take(p) ==
  /\ p \in up /\ wire[p] # <<>>
  /\ LET x == Head(wire[p])
         A == [S0 EXCEPT !.wire = [@ EXCEPT ![p] = <<>>]]
         B == IF A.sendq[p] = <<>> THEN [A EXCEPT !.writable = IF A.bp[0] = p THEN TRUE ELSE @]
              ELSE LET e == Head(A.sendq[p]) IN
                   Fin([A EXCEPT !.sendq = [@ EXCEPT ![p] = Tail(@)], !.wire = [@ EXCEPT ![p] = <<[bt |-> e.bt, m |-> e.m]>>],
                                 !.sentTo = Append(@, [p |-> p, bt |-> e.bt, m |-> e.m, ctx |-> e.ctx, want |-> [p |-> p, bt |-> e.bt]])],
                       e.op, "ok", 0)
     IN Apply(B, [a |-> "take", p |-> p, out |-> [hdr |-> x.bt, m |-> x.m]])
  /\ UNCHANGED <<used, open1, closed, ttl, nextMsg, nreq>>
PeerClose(p) ==
  /\ p \in up /\ p \notin pclosed
  /\ Apply(Pump([S0 EXCEPT !.pclosed = @ \cup {p}], p), [a |-> "peer_close", p |-> p])
  /\ UNCHANGED <<used, open1, closed, ttl, nextMsg, nreq>>
\* the application (or the socket, after a failed send) closes the connection
PipeClose(p) ==
  /\ p \in up
  /\ Apply(Teardown(S0, p), [a |-> "pipe_close", p |-> p])
  /\ UNCHANGED <<used, open1, closed, ttl, nextMsg, nreq>>

Next == \/ (\E c \in Ctxs, md \in {"nb", "aio"} : Recv(c, md) \/ Send(c, md))
        \/ (\E k \in 1..MaxOps : Cancel(k)) \/ CtxOpen \/ CtxClose \/ Close \/ (\E n \in {1, 2, 8} : SetTtl(n))
        \/ (\E p \in Pipes : Connect(p) \/ Take(p) \/ PeerClose(p) \/ PipeClose(p) \/ \E k \in HopCounts : Request(p, k, FALSE) \/ Request(p, k, TRUE))
Spec == Init /\ [][Next]_vars

\* C04 replier side: every reply put on the wire went to the connection, and carried the backtrace, of the request most
\* recently received by the context that sent it
ReplyRouting == \A i \in 1..Len(sentTo) : sentTo[i].p = sentTo[i].want.p /\ sentTo[i].bt = sentTo[i].want.bt
\* a held request blocks further reads of that pipe only (one request per connection in flight to the application)
HoldSound == SeqSet(recvp) = {p \in Pipes : hold[p] # <<>>} /\ \A p \in SeqSet(recvp) : p \in up
NoLostWakeup == rwait # <<>> => recvp = <<>>
PollR == ~closed => (readable <=> (recvp # <<>>))
\* C10: after close nothing is pending
ClosedIsFinal == closed => (\A i \in 1..Len(ops) : ops[i] = "done") /\ rwait = <<>> /\ up = {} /\ \A p \in Pipes : sendq[p] = <<>>
\* the socket's own context can send (without blocking) iff it is serving a request whose connection is idle or gone
PollW == ~closed => (writable <=> (bt[0] # <<>> /\ (bp[0] \notin up \/ wire[bp[0]] = <<>>)))

SId == <<up, used, open1, closed, pclosed, hold, recvp, inbox, wire, sendq, bt, bp, rwait, rop, ttl, readable, writable, ops, nextMsg, nreq>>
WireObs == LET RECURSIVE F(_) F(S) == IF S = {} THEN <<>> ELSE LET p == CHOOSE x \in S : \A y \in S : x <= y IN
                  <<<<p, Len(wire[p]), IF hold[p] = <<>> THEN 1 ELSE 0>>>> \o F(S \ {p}) IN F(up)
Obs == [done |-> doneV, S_pend |-> {}, wire |-> WireObs, pollw |-> writable, pollr |-> readable]
FinV == 0
\* what matters for choosing behaviours to replay (which messages, which operation numbers do not): edge covers by class
AbsV == <<closed, open1, up, pclosed, [p \in Pipes |-> <<hold[p] # <<>>, Len(inbox[p]), wire[p] # <<>>, [i \in 1..Len(sendq[p]) |-> sendq[p][i].ctx]>>],
          [c \in Ctxs |-> <<Len(bt[c]), bp[c], rop[c] # 0>>], rwait, ttl, readable, writable>>
ExportEdge == PrintT(<<"E", ToJson([s |-> SId, sa |-> lastAct, d |-> SId', act |-> lastAct', obs |-> Obs', fin |-> FinV', sabs |-> AbsV, dabs |-> AbsV'])>>)
View == SId
=====================================================================
