---- MODULE Rep_TTrace_1790249210 ----
EXTENDS Sequences, TLCExt, Toolbox, Naturals, TLC, Rep

_expression ==
    LET Rep_TEExpression == INSTANCE Rep_TEExpression
    IN Rep_TEExpression!expression
----

_trace ==
    LET Rep_TETrace == INSTANCE Rep_TETrace
    IN Rep_TETrace!trace
----

_inv ==
    ~(
        TLCGet("level") = Len(_TETrace)
        /\
        readable = (FALSE)
        /\
        doneV = (<<>>)
        /\
        nreq = (3)
        /\
        used = ({1, 2})
        /\
        lastAct = ([a |-> "recv", op |-> 0, mode |-> "nb", ctx |-> 0, out |-> [done |-> <<>>, rv |-> "ok", m |-> 104]])
        /\
        ttl = (8)
        /\
        sendq = (<<<<>>, <<>>>>)
        /\
        bp = ((0 :> 1 @@ 1 :> 0))
        /\
        writable = (TRUE)
        /\
        hold = (<<<<>>, <<>>>>)
        /\
        wire = (<<<<[bt |-> <<"i1">>, m |-> 102]>>, <<>>>>)
        /\
        bt = ((0 :> <<"i3">> @@ 1 :> <<>>))
        /\
        rop = ((0 :> 0 @@ 1 :> 0))
        /\
        sentTo = (<<[bt |-> <<"i1">>, p |-> 1, m |-> 102, ctx |-> 0, want |-> [bt |-> <<"i1">>, p |-> 1]]>>)
        /\
        pclosed = ({})
        /\
        ops = (<<"done", "done">>)
        /\
        open1 = (FALSE)
        /\
        rwait = (<<>>)
        /\
        nextMsg = (105)
        /\
        lastReq = ((0 :> [bt |-> <<"i3">>, p |-> 1] @@ 1 :> [bt |-> <<>>, p |-> 0]))
        /\
        up = ({1, 2})
        /\
        inbox = (<<<<>>, <<>>>>)
        /\
        recvp = (<<>>)
    )
----

_init ==
    /\ readable = _TETrace[1].readable
    /\ lastAct = _TETrace[1].lastAct
    /\ sentTo = _TETrace[1].sentTo
    /\ wire = _TETrace[1].wire
    /\ bp = _TETrace[1].bp
    /\ bt = _TETrace[1].bt
    /\ rop = _TETrace[1].rop
    /\ writable = _TETrace[1].writable
    /\ pclosed = _TETrace[1].pclosed
    /\ open1 = _TETrace[1].open1
    /\ recvp = _TETrace[1].recvp
    /\ rwait = _TETrace[1].rwait
    /\ doneV = _TETrace[1].doneV
    /\ used = _TETrace[1].used
    /\ nreq = _TETrace[1].nreq
    /\ ttl = _TETrace[1].ttl
    /\ up = _TETrace[1].up
    /\ ops = _TETrace[1].ops
    /\ nextMsg = _TETrace[1].nextMsg
    /\ lastReq = _TETrace[1].lastReq
    /\ sendq = _TETrace[1].sendq
    /\ inbox = _TETrace[1].inbox
    /\ hold = _TETrace[1].hold
----

_next ==
    /\ \E i,j \in DOMAIN _TETrace:
        /\ \/ /\ j = i + 1
              /\ i = TLCGet("level")
        /\ readable  = _TETrace[i].readable
        /\ readable' = _TETrace[j].readable
        /\ lastAct  = _TETrace[i].lastAct
        /\ lastAct' = _TETrace[j].lastAct
        /\ sentTo  = _TETrace[i].sentTo
        /\ sentTo' = _TETrace[j].sentTo
        /\ wire  = _TETrace[i].wire
        /\ wire' = _TETrace[j].wire
        /\ bp  = _TETrace[i].bp
        /\ bp' = _TETrace[j].bp
        /\ bt  = _TETrace[i].bt
        /\ bt' = _TETrace[j].bt
        /\ rop  = _TETrace[i].rop
        /\ rop' = _TETrace[j].rop
        /\ writable  = _TETrace[i].writable
        /\ writable' = _TETrace[j].writable
        /\ pclosed  = _TETrace[i].pclosed
        /\ pclosed' = _TETrace[j].pclosed
        /\ open1  = _TETrace[i].open1
        /\ open1' = _TETrace[j].open1
        /\ recvp  = _TETrace[i].recvp
        /\ recvp' = _TETrace[j].recvp
        /\ rwait  = _TETrace[i].rwait
        /\ rwait' = _TETrace[j].rwait
        /\ doneV  = _TETrace[i].doneV
        /\ doneV' = _TETrace[j].doneV
        /\ used  = _TETrace[i].used
        /\ used' = _TETrace[j].used
        /\ nreq  = _TETrace[i].nreq
        /\ nreq' = _TETrace[j].nreq
        /\ ttl  = _TETrace[i].ttl
        /\ ttl' = _TETrace[j].ttl
        /\ up  = _TETrace[i].up
        /\ up' = _TETrace[j].up
        /\ ops  = _TETrace[i].ops
        /\ ops' = _TETrace[j].ops
        /\ nextMsg  = _TETrace[i].nextMsg
        /\ nextMsg' = _TETrace[j].nextMsg
        /\ lastReq  = _TETrace[i].lastReq
        /\ lastReq' = _TETrace[j].lastReq
        /\ sendq  = _TETrace[i].sendq
        /\ sendq' = _TETrace[j].sendq
        /\ inbox  = _TETrace[i].inbox
        /\ inbox' = _TETrace[j].inbox
        /\ hold  = _TETrace[i].hold
        /\ hold' = _TETrace[j].hold

\* Uncomment the ASSUME below to write the states of the error trace
\* to the given file in Json format. Note that you can pass any tuple
\* to `JsonSerialize`. For example, a sub-sequence of _TETrace.
    \* ASSUME
    \*     LET J == INSTANCE Json
    \*         IN J!JsonSerialize("Rep_TTrace_1790249210.json", _TETrace)

=============================================================================

 Note that you can extract this module `Rep_TEExpression`
  to a dedicated file to reuse `expression` (the module in the 
  dedicated `Rep_TEExpression.tla` file takes precedence 
  over the module `Rep_TEExpression` below).

---- MODULE Rep_TEExpression ----
EXTENDS Sequences, TLCExt, Toolbox, Naturals, TLC, Rep

expression == 
    [
        \* To hide variables of the `Rep` spec from the error trace,
        \* remove the variables below.  The trace will be written in the order
        \* of the fields of this record.
        readable |-> readable
        ,lastAct |-> lastAct
        ,sentTo |-> sentTo
        ,wire |-> wire
        ,bp |-> bp
        ,bt |-> bt
        ,rop |-> rop
        ,writable |-> writable
        ,pclosed |-> pclosed
        ,open1 |-> open1
        ,recvp |-> recvp
        ,rwait |-> rwait
        ,doneV |-> doneV
        ,used |-> used
        ,nreq |-> nreq
        ,ttl |-> ttl
        ,up |-> up
        ,ops |-> ops
        ,nextMsg |-> nextMsg
        ,lastReq |-> lastReq
        ,sendq |-> sendq
        ,inbox |-> inbox
        ,hold |-> hold
        
        \* Put additional constant-, state-, and action-level expressions here:
        \* ,_stateNumber |-> _TEPosition
        \* ,_readableUnchanged |-> readable = readable'
        
        \* Format the `readable` variable as Json value.
        \* ,_readableJson |->
        \*     LET J == INSTANCE Json
        \*     IN J!ToJson(readable)
        
        \* Lastly, you may build expressions over arbitrary sets of states by
        \* leveraging the _TETrace operator.  For example, this is how to
        \* count the number of times a spec variable changed up to the current
        \* state in the trace.
        \* ,_readableModCount |->
        \*     LET F[s \in DOMAIN _TETrace] ==
        \*         IF s = 1 THEN 0
        \*         ELSE IF _TETrace[s].readable # _TETrace[s-1].readable
        \*             THEN 1 + F[s-1] ELSE F[s-1]
        \*     IN F[_TEPosition - 1]
    ]

=============================================================================



Parsing and semantic processing can take forever if the trace below is long.
 In this case, it is advised to uncomment the module below to deserialize the
 trace from a generated binary file.

\*
\*---- MODULE Rep_TETrace ----
\*EXTENDS IOUtils, TLC, Rep
\*
\*trace == IODeserialize("Rep_TTrace_1790249210.bin", TRUE)
\*
\*=============================================================================
\*

---- MODULE Rep_TETrace ----
EXTENDS TLC, Rep

trace == 
    <<
    ([readable |-> FALSE,doneV |-> <<>>,nreq |-> 0,used |-> {},lastAct |-> [a |-> "init"],ttl |-> 8,sendq |-> <<<<>>, <<>>>>,bp |-> (0 :> 0 @@ 1 :> 0),writable |-> FALSE,hold |-> <<<<>>, <<>>>>,wire |-> <<<<>>, <<>>>>,bt |-> (0 :> <<>> @@ 1 :> <<>>),rop |-> (0 :> 0 @@ 1 :> 0),sentTo |-> <<>>,pclosed |-> {},ops |-> <<>>,open1 |-> FALSE,rwait |-> <<>>,nextMsg |-> 101,lastReq |-> (0 :> [bt |-> <<>>, p |-> 0] @@ 1 :> [bt |-> <<>>, p |-> 0]),up |-> {},inbox |-> <<<<>>, <<>>>>,recvp |-> <<>>]),
    ([readable |-> FALSE,doneV |-> <<>>,nreq |-> 0,used |-> {},lastAct |-> [a |-> "recv", op |-> 1, mode |-> "aio", ctx |-> 0, out |-> [done |-> <<>>]],ttl |-> 8,sendq |-> <<<<>>, <<>>>>,bp |-> (0 :> 0 @@ 1 :> 0),writable |-> FALSE,hold |-> <<<<>>, <<>>>>,wire |-> <<<<>>, <<>>>>,bt |-> (0 :> <<>> @@ 1 :> <<>>),rop |-> (0 :> 1 @@ 1 :> 0),sentTo |-> <<>>,pclosed |-> {},ops |-> <<"pend">>,open1 |-> FALSE,rwait |-> <<0>>,nextMsg |-> 101,lastReq |-> (0 :> [bt |-> <<>>, p |-> 0] @@ 1 :> [bt |-> <<>>, p |-> 0]),up |-> {},inbox |-> <<<<>>, <<>>>>,recvp |-> <<>>]),
    ([readable |-> FALSE,doneV |-> <<[rv |-> "estate", op |-> 2]>>,nreq |-> 0,used |-> {},lastAct |-> [a |-> "recv", op |-> 2, mode |-> "aio", ctx |-> 0, out |-> [done |-> <<>>]],ttl |-> 8,sendq |-> <<<<>>, <<>>>>,bp |-> (0 :> 0 @@ 1 :> 0),writable |-> FALSE,hold |-> <<<<>>, <<>>>>,wire |-> <<<<>>, <<>>>>,bt |-> (0 :> <<>> @@ 1 :> <<>>),rop |-> (0 :> 1 @@ 1 :> 0),sentTo |-> <<>>,pclosed |-> {},ops |-> <<"pend", "done">>,open1 |-> FALSE,rwait |-> <<0>>,nextMsg |-> 101,lastReq |-> (0 :> [bt |-> <<>>, p |-> 0] @@ 1 :> [bt |-> <<>>, p |-> 0]),up |-> {},inbox |-> <<<<>>, <<>>>>,recvp |-> <<>>]),
    ([readable |-> FALSE,doneV |-> <<>>,nreq |-> 0,used |-> {1},lastAct |-> [p |-> 1, a |-> "connect", out |-> [rv |-> "ok"]],ttl |-> 8,sendq |-> <<<<>>, <<>>>>,bp |-> (0 :> 0 @@ 1 :> 0),writable |-> FALSE,hold |-> <<<<>>, <<>>>>,wire |-> <<<<>>, <<>>>>,bt |-> (0 :> <<>> @@ 1 :> <<>>),rop |-> (0 :> 1 @@ 1 :> 0),sentTo |-> <<>>,pclosed |-> {},ops |-> <<"pend", "done">>,open1 |-> FALSE,rwait |-> <<0>>,nextMsg |-> 101,lastReq |-> (0 :> [bt |-> <<>>, p |-> 0] @@ 1 :> [bt |-> <<>>, p |-> 0]),up |-> {1},inbox |-> <<<<>>, <<>>>>,recvp |-> <<>>]),
    ([readable |-> FALSE,doneV |-> <<[rv |-> "ok", m |-> 101, op |-> 1]>>,nreq |-> 1,used |-> {1},lastAct |-> [p |-> 1, a |-> "inject", m |-> 101, short |-> FALSE, out |-> [rv |-> "delivered"], hdrw |-> <<"i1">>],ttl |-> 8,sendq |-> <<<<>>, <<>>>>,bp |-> (0 :> 1 @@ 1 :> 0),writable |-> TRUE,hold |-> <<<<>>, <<>>>>,wire |-> <<<<>>, <<>>>>,bt |-> (0 :> <<"i1">> @@ 1 :> <<>>),rop |-> (0 :> 0 @@ 1 :> 0),sentTo |-> <<>>,pclosed |-> {},ops |-> <<"done", "done">>,open1 |-> FALSE,rwait |-> <<>>,nextMsg |-> 102,lastReq |-> (0 :> [bt |-> <<"i1">>, p |-> 1] @@ 1 :> [bt |-> <<>>, p |-> 0]),up |-> {1},inbox |-> <<<<>>, <<>>>>,recvp |-> <<>>]),
    ([readable |-> FALSE,doneV |-> <<>>,nreq |-> 1,used |-> {1},lastAct |-> [a |-> "send", m |-> 102, op |-> 0, mode |-> "nb", ctx |-> 0, out |-> [done |-> <<>>, rv |-> "ok"]],ttl |-> 8,sendq |-> <<<<>>, <<>>>>,bp |-> (0 :> 0 @@ 1 :> 0),writable |-> FALSE,hold |-> <<<<>>, <<>>>>,wire |-> <<<<[bt |-> <<"i1">>, m |-> 102]>>, <<>>>>,bt |-> (0 :> <<>> @@ 1 :> <<>>),rop |-> (0 :> 0 @@ 1 :> 0),sentTo |-> <<[bt |-> <<"i1">>, p |-> 1, m |-> 102, ctx |-> 0, want |-> [bt |-> <<"i1">>, p |-> 1]]>>,pclosed |-> {},ops |-> <<"done", "done">>,open1 |-> FALSE,rwait |-> <<>>,nextMsg |-> 103,lastReq |-> (0 :> [bt |-> <<"i1">>, p |-> 1] @@ 1 :> [bt |-> <<>>, p |-> 0]),up |-> {1},inbox |-> <<<<>>, <<>>>>,recvp |-> <<>>]),
    ([readable |-> FALSE,doneV |-> <<>>,nreq |-> 1,used |-> {1, 2},lastAct |-> [p |-> 2, a |-> "connect", out |-> [rv |-> "ok"]],ttl |-> 8,sendq |-> <<<<>>, <<>>>>,bp |-> (0 :> 0 @@ 1 :> 0),writable |-> FALSE,hold |-> <<<<>>, <<>>>>,wire |-> <<<<[bt |-> <<"i1">>, m |-> 102]>>, <<>>>>,bt |-> (0 :> <<>> @@ 1 :> <<>>),rop |-> (0 :> 0 @@ 1 :> 0),sentTo |-> <<[bt |-> <<"i1">>, p |-> 1, m |-> 102, ctx |-> 0, want |-> [bt |-> <<"i1">>, p |-> 1]]>>,pclosed |-> {},ops |-> <<"done", "done">>,open1 |-> FALSE,rwait |-> <<>>,nextMsg |-> 103,lastReq |-> (0 :> [bt |-> <<"i1">>, p |-> 1] @@ 1 :> [bt |-> <<>>, p |-> 0]),up |-> {1, 2},inbox |-> <<<<>>, <<>>>>,recvp |-> <<>>]),
    ([readable |-> TRUE,doneV |-> <<>>,nreq |-> 2,used |-> {1, 2},lastAct |-> [p |-> 2, a |-> "inject", m |-> 103, short |-> FALSE, out |-> [rv |-> "delivered"], hdrw |-> <<"i2">>],ttl |-> 8,sendq |-> <<<<>>, <<>>>>,bp |-> (0 :> 0 @@ 1 :> 0),writable |-> FALSE,hold |-> <<<<>>, <<[bt |-> <<"i2">>, m |-> 103, short |-> FALSE]>>>>,wire |-> <<<<[bt |-> <<"i1">>, m |-> 102]>>, <<>>>>,bt |-> (0 :> <<>> @@ 1 :> <<>>),rop |-> (0 :> 0 @@ 1 :> 0),sentTo |-> <<[bt |-> <<"i1">>, p |-> 1, m |-> 102, ctx |-> 0, want |-> [bt |-> <<"i1">>, p |-> 1]]>>,pclosed |-> {},ops |-> <<"done", "done">>,open1 |-> FALSE,rwait |-> <<>>,nextMsg |-> 104,lastReq |-> (0 :> [bt |-> <<"i1">>, p |-> 1] @@ 1 :> [bt |-> <<>>, p |-> 0]),up |-> {1, 2},inbox |-> <<<<>>, <<>>>>,recvp |-> <<2>>]),
    ([readable |-> FALSE,doneV |-> <<>>,nreq |-> 2,used |-> {1, 2},lastAct |-> [a |-> "recv", op |-> 0, mode |-> "nb", ctx |-> 0, out |-> [done |-> <<>>, rv |-> "ok", m |-> 103]],ttl |-> 8,sendq |-> <<<<>>, <<>>>>,bp |-> (0 :> 2 @@ 1 :> 0),writable |-> TRUE,hold |-> <<<<>>, <<>>>>,wire |-> <<<<[bt |-> <<"i1">>, m |-> 102]>>, <<>>>>,bt |-> (0 :> <<"i2">> @@ 1 :> <<>>),rop |-> (0 :> 0 @@ 1 :> 0),sentTo |-> <<[bt |-> <<"i1">>, p |-> 1, m |-> 102, ctx |-> 0, want |-> [bt |-> <<"i1">>, p |-> 1]]>>,pclosed |-> {},ops |-> <<"done", "done">>,open1 |-> FALSE,rwait |-> <<>>,nextMsg |-> 104,lastReq |-> (0 :> [bt |-> <<"i2">>, p |-> 2] @@ 1 :> [bt |-> <<>>, p |-> 0]),up |-> {1, 2},inbox |-> <<<<>>, <<>>>>,recvp |-> <<>>]),
    ([readable |-> TRUE,doneV |-> <<>>,nreq |-> 3,used |-> {1, 2},lastAct |-> [p |-> 1, a |-> "inject", m |-> 104, short |-> FALSE, out |-> [rv |-> "delivered"], hdrw |-> <<"i3">>],ttl |-> 8,sendq |-> <<<<>>, <<>>>>,bp |-> (0 :> 2 @@ 1 :> 0),writable |-> TRUE,hold |-> <<<<[bt |-> <<"i3">>, m |-> 104, short |-> FALSE]>>, <<>>>>,wire |-> <<<<[bt |-> <<"i1">>, m |-> 102]>>, <<>>>>,bt |-> (0 :> <<"i2">> @@ 1 :> <<>>),rop |-> (0 :> 0 @@ 1 :> 0),sentTo |-> <<[bt |-> <<"i1">>, p |-> 1, m |-> 102, ctx |-> 0, want |-> [bt |-> <<"i1">>, p |-> 1]]>>,pclosed |-> {},ops |-> <<"done", "done">>,open1 |-> FALSE,rwait |-> <<>>,nextMsg |-> 105,lastReq |-> (0 :> [bt |-> <<"i2">>, p |-> 2] @@ 1 :> [bt |-> <<>>, p |-> 0]),up |-> {1, 2},inbox |-> <<<<>>, <<>>>>,recvp |-> <<1>>]),
    ([readable |-> FALSE,doneV |-> <<>>,nreq |-> 3,used |-> {1, 2},lastAct |-> [a |-> "recv", op |-> 0, mode |-> "nb", ctx |-> 0, out |-> [done |-> <<>>, rv |-> "ok", m |-> 104]],ttl |-> 8,sendq |-> <<<<>>, <<>>>>,bp |-> (0 :> 1 @@ 1 :> 0),writable |-> TRUE,hold |-> <<<<>>, <<>>>>,wire |-> <<<<[bt |-> <<"i1">>, m |-> 102]>>, <<>>>>,bt |-> (0 :> <<"i3">> @@ 1 :> <<>>),rop |-> (0 :> 0 @@ 1 :> 0),sentTo |-> <<[bt |-> <<"i1">>, p |-> 1, m |-> 102, ctx |-> 0, want |-> [bt |-> <<"i1">>, p |-> 1]]>>,pclosed |-> {},ops |-> <<"done", "done">>,open1 |-> FALSE,rwait |-> <<>>,nextMsg |-> 105,lastReq |-> (0 :> [bt |-> <<"i3">>, p |-> 1] @@ 1 :> [bt |-> <<>>, p |-> 0]),up |-> {1, 2},inbox |-> <<<<>>, <<>>>>,recvp |-> <<>>])
    >>
----


=============================================================================

---- CONFIG Rep_TTrace_1790249210 ----
CONSTANTS
    Pipes = { 1 , 2 }
    MaxMsgs = 4
    MaxOps = 2
    HopCounts = { 0 , 1 }
    ClearReadable = TRUE

INVARIANT
    _inv

CHECK_DEADLOCK
    \* CHECK_DEADLOCK off because of PROPERTY or INVARIANT above.
    FALSE

INIT
    _init

NEXT
    _next

CONSTANT
    _TETrace <- _trace

ALIAS
    _expression
=============================================================================
\* Generated on Thu Sep 24 11:26:57 UTC 2026