SPECIFICATION Spec
CONSTANTS
  Pipes = {1}
  MaxMsgs = 5
  MaxOps = 2
  HopCounts = {0}
  NbSendFails = FALSE
  ClearReadable = TRUE
ACTION_CONSTRAINT ExportEdge
VIEW View
