SPECIFICATION Spec
CONSTANTS
  Pipes = {1, 2}
  MaxMsgs = 4
  MaxOps = 2
  HopCounts = {0, 1}
  NbSendFails = FALSE
  ClearReadable = TRUE
INVARIANTS ReplyRouting HoldSound NoLostWakeup PollR PollW ClosedIsFinal
VIEW View
