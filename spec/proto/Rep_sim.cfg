SPECIFICATION Spec
CONSTANTS
  Pipes = {1, 2, 3}
  MaxMsgs = 10
  MaxOps = 4
  HopCounts = {0, 1, 2}
  NbSendFails = FALSE
  ClearReadable = TRUE
INVARIANTS ReplyRouting HoldSound NoLostWakeup PollR PollW ClosedIsFinal
ACTION_CONSTRAINT ExportEdge
