---------------------------- MODULE Req ----------------------------
(* REQ socket with contexts (src/sp/protocol/reqrep0/req.c), macro steps through the harness transport,
   virtual time.     C04 (requester side), C12 (retry / no hang), C15, C03 (retained request copy).

   The driver plays the repliers: it sees every (re)transmitted request on the wire with its id, and
   injects replies of every class: for the current request of a context, for a superseded one, with an
   unknown id, with the request bit cleared, too short.  Request ids are abstract here: a request is
   named by its body tag, the driver translates to the id it saw on the wire. *)
EXTENDS Naturals, Sequences, FiniteSets, TLC, Json

CONSTANTS Pipes, MaxMsgs, MaxOps, MaxNow, Ticks,
          Resend,        \* finite resend time used (ms); Inf = disabled
          Resend2,       \* a second finite resend time (contexts with different resend times share one retry queue)
          Tick,          \* NNG_OPT_REQ_RESENDTICK set by the prelude
          AllowRetune,   \* allow changing the resend time while a request is outstanding
          FreeByClone    \* TRUE: the retained copy is released iff it was cloned (repaired); FALSE: iff retry > 0 now (defect)

Ctxs == {0, 1}
Inf == 9999
VARIABLES
  up, used, ready,        \* attached pipes, pipes idle for sending (in order)
  wire,                   \* wire[p]: request parked in the transport send: <<>> or <<[tag, ctx]>>
  sendq,                  \* contexts waiting for a pipe
  open1,
  tag, sendOp, recvOp, rep, retry, retryAt, creset,
  retryq,                 \* contexts with a resend deadline, in the order of their last (re)transmission (req0_sock.retry_queue)
  plist,                  \* plist[p]: contexts whose request was last handed to pipe p, in that order (req0_pipe.contexts)
  held,                   \* the context holds a reference of its own to the request message (ownership, C03)
  xmit, dis,              \* ghosts: transmissions of the current request of c; resending was disabled when it was submitted
  known,                  \* ghost: request tags the repliers have seen on the wire (they can only answer those)
  now, timerOn, armedAt,
  writable, readable,
  ops, nextMsg, old,      \* old[c]: tag of the previous (superseded / cancelled / answered) request of c
  delivered,              \* ghost: replies handed to the application: [ctx, req, rep]
  bad,                    \* ghost: ownership rule broken (double release / leak of the retained copy)
  doneV, lastAct

vars == <<up, used, ready, wire, sendq, open1, tag, sendOp, recvOp, rep, retry, retryAt, creset, retryq, plist, held, xmit, dis, known,
          now, timerOn, armedAt, writable, readable, ops, nextMsg, old, delivered, bad, doneV, lastAct>>
SeqSet(s) == {s[i] : i \in 1..Len(s)}
Remove(s, x) == SelectSeq(s, LAMBDA y : y # x)
NOps == Len(ops)
Live(c) == c = 0 \/ open1

Init ==
  /\ up = {} /\ used = {} /\ ready = <<>> /\ wire = [p \in Pipes |-> <<>>] /\ sendq = <<>> /\ open1 = FALSE
  /\ tag = [c \in Ctxs |-> 0] /\ sendOp = [c \in Ctxs |-> 0] /\ recvOp = [c \in Ctxs |-> 0] /\ rep = [c \in Ctxs |-> 0]
  /\ retry = [c \in Ctxs |-> Resend] /\ retryAt = [c \in Ctxs |-> 0] /\ plist = [p \in Pipes |-> <<>>]
  /\ creset = [c \in Ctxs |-> FALSE] /\ retryq = <<>> /\ held = [c \in Ctxs |-> FALSE] /\ xmit = [c \in Ctxs |-> 0] /\ dis = [c \in Ctxs |-> FALSE] /\ known = {}
  /\ now = 100 /\ timerOn = FALSE /\ armedAt = 0 /\ writable = FALSE /\ readable = FALSE
  /\ ops = <<>> /\ nextMsg = 101 /\ old = [c \in Ctxs |-> 0] /\ delivered = <<>> /\ bad = FALSE
  /\ doneV = <<>> /\ lastAct = [a |-> "init"]

S0 == [ready |-> ready, wire |-> wire, sendq |-> sendq, tag |-> tag, sendOp |-> sendOp, recvOp |-> recvOp, rep |-> rep,
       retryAt |-> retryAt, plist |-> plist, creset |-> creset, retryq |-> retryq, held |-> held, xmit |-> xmit, dis |-> dis,
       timerOn |-> timerOn, armedAt |-> armedAt, writable |-> writable, readable |-> readable, ops |-> ops, old |-> old,
       delivered |-> delivered, bad |-> bad, done |-> {}]
Fin(S, k, rv, m) == [S EXCEPT !.ops = [@ EXCEPT ![k] = "done"],
                              !.done = @ \cup {IF rv = "ok" /\ m # 0 THEN [op |-> k, rv |-> rv, m |-> m] ELSE [op |-> k, rv |-> rv]}]
SortDone(D) == LET RECURSIVE F(_) F(X) == IF X = {} THEN <<>> ELSE LET x == CHOOSE y \in X : \A z \in X : y.op <= z.op IN <<x>> \o F(X \ {x}) IN F(D)

\* release of the retained request copy of c (reply accepted, reset): by the code's rule vs. the ownership rule
Release(S, c) ==
  IF S.tag[c] = 0 THEN S
  ELSE LET frees == IF FreeByClone THEN S.held[c] ELSE retry[c] # Inf
       IN [S EXCEPT !.bad = S.bad \/ (frees /\ ~S.held[c]) \/ (~frees /\ S.held[c]),     \* double release / leak
                    !.held = [@ EXCEPT ![c] = FALSE]]
\* req0_ctx_reset
Reset(S, c) ==
  LET R == Release(S, c) IN
  [R EXCEPT !.sendq = Remove(@, c), !.old = [@ EXCEPT ![c] = IF S.tag[c] # 0 THEN S.tag[c] ELSE @],
            !.tag = [@ EXCEPT ![c] = 0], !.rep = [@ EXCEPT ![c] = 0], !.plist = [q \in Pipes |-> Remove(R.plist[q], c)],
            !.creset = [@ EXCEPT ![c] = FALSE], !.retryq = Remove(@, c),
            !.readable = IF c = 0 /\ S.rep[0] # 0 THEN FALSE ELSE S.readable]
\* req0_run_send_queue
RECURSIVE RunQ(_)
RunQ(S) ==
  IF S.sendq = <<>> \/ S.ready = <<>> THEN S
  ELSE LET c == Head(S.sendq)  p == Head(S.ready)
           T == [S EXCEPT !.sendq = Tail(@), !.ready = Tail(@), !.wire = [@ EXCEPT ![p] = <<[tag |-> S.tag[c], ctx |-> c]>>],
                          !.plist = [q \in Pipes |-> IF q = p THEN Append(Remove(S.plist[q], c), c) ELSE Remove(S.plist[q], c)],
                          !.retryq = IF retry[c] # Inf THEN Append(Remove(@, c), c) ELSE @,
                          \* resending enabled: the pipe gets a clone and the context keeps its reference; disabled: the context's
                          \* reference goes to the pipe
                          !.held = [@ EXCEPT ![c] = (retry[c] # Inf)], !.xmit = [@ EXCEPT ![c] = @ + 1],
                          !.writable = IF Tail(S.ready) = <<>> THEN FALSE ELSE S.writable]
           U == IF S.sendOp[c] # 0 THEN Fin([T EXCEPT !.sendOp = [@ EXCEPT ![c] = 0]], S.sendOp[c], "ok", 0) ELSE T
       IN RunQ(U)

Apply(S, a) ==
  /\ ready' = S.ready /\ wire' = S.wire /\ sendq' = S.sendq /\ tag' = S.tag /\ sendOp' = S.sendOp /\ recvOp' = S.recvOp
  /\ rep' = S.rep /\ retryAt' = S.retryAt /\ plist' = S.plist /\ creset' = S.creset /\ retryq' = S.retryq
  /\ held' = S.held /\ xmit' = S.xmit /\ dis' = S.dis /\ timerOn' = S.timerOn /\ armedAt' = S.armedAt /\ writable' = S.writable /\ readable' = S.readable
  /\ ops' = S.ops /\ old' = S.old /\ delivered' = S.delivered /\ bad' = S.bad
  /\ doneV' = SortDone(S.done) /\ lastAct' = a

\* ---------------------------------------------------------------- application
\* req0_ctx_send: a new request supersedes whatever the context was doing
Send(c, mode) ==
  /\ Live(c) /\ nextMsg <= 100 + MaxMsgs /\ (mode = "aio" => NOps < MaxOps)
  /\ LET m == nextMsg
         k == NOps + 1
         A == IF mode = "aio" THEN [S0 EXCEPT !.ops = Append(@, "pend")] ELSE S0
         B == IF A.recvOp[c] # 0 THEN Fin([A EXCEPT !.recvOp = [@ EXCEPT ![c] = 0]], A.recvOp[c], "ecanceled", 0) ELSE A
         C == IF B.sendOp[c] # 0 THEN Fin([B EXCEPT !.sendOp = [@ EXCEPT ![c] = 0], !.tag = [@ EXCEPT ![c] = 0], !.held = [@ EXCEPT ![c] = FALSE],
                                                    !.old = [@ EXCEPT ![c] = B.tag[c]]], B.sendOp[c], "ecanceled", 0) ELSE B
         D == Reset(C, c)
     IN IF D.ready = <<>> /\ mode = "nb" THEN
           \* nothing can take it now and the caller will not wait: NNG_EAGAIN, the message stays with the caller
           Apply(D, [a |-> "send", mode |-> "nb", op |-> 0, m |-> m, ctx |-> c, out |-> [rv |-> "eagain", done |-> <<>>]])
        ELSE LET E == [D EXCEPT !.tag = [@ EXCEPT ![c] = m], !.held = [@ EXCEPT ![c] = TRUE], !.xmit = [@ EXCEPT ![c] = 0],
                                !.dis = [@ EXCEPT ![c] = (retry[c] = Inf)], !.sendOp = [@ EXCEPT ![c] = IF mode = "aio" THEN k ELSE 9000],
                                !.retryAt = [@ EXCEPT ![c] = IF retry[c] # Inf THEN now + retry[c] ELSE @],
                                !.retryq = IF retry[c] # Inf THEN Append(Remove(@, c), c) ELSE @,
                                !.timerOn = IF retry[c] # Inf THEN TRUE ELSE @,
                                !.armedAt = IF retry[c] # Inf /\ ~D.timerOn THEN now ELSE @,
                                !.sendq = Append(@, c)]
                 F == RunQ(E)
                 \* (the synchronous form uses a private aio: op 9000 stands for it and is not reported)
                 G == [F EXCEPT !.done = {d \in @ : d.op # 9000}, !.ops = F.ops]
             IN Apply(G, IF mode = "nb" THEN [a |-> "send", mode |-> "nb", op |-> 0, m |-> m, ctx |-> c, out |-> [rv |-> "ok", done |-> <<>>]]
                                        ELSE [a |-> "send", mode |-> "aio", op |-> k, m |-> m, ctx |-> c, out |-> [done |-> <<>>]])
  /\ nextMsg' = nextMsg + 1
  /\ UNCHANGED <<up, used, open1, retry, now, known>>
\* req0_ctx_recv
Recv(c, mode) ==
  /\ Live(c) /\ (mode = "aio" => NOps < MaxOps)
  /\ LET k == NOps + 1
         A == IF mode = "aio" THEN [S0 EXCEPT !.ops = Append(@, "pend")] ELSE S0
         act(o) == IF mode = "nb" THEN [a |-> "recv", mode |-> "nb", op |-> 0, ctx |-> c, out |-> o]
                                  ELSE [a |-> "recv", mode |-> "aio", op |-> k, ctx |-> c, out |-> [done |-> <<>>]]
     IN IF A.recvOp[c] # 0 \/ (A.tag[c] = 0 /\ A.rep[c] = 0) THEN
           LET rv == IF A.creset[c] THEN "econnreset" ELSE "estate"
               B == [A EXCEPT !.creset = [@ EXCEPT ![c] = FALSE]]
           IN IF mode = "nb" THEN Apply(B, act([rv |-> rv, done |-> <<>>])) ELSE Apply(Fin(B, k, rv, 0), act(0))
        ELSE IF A.rep[c] # 0 THEN
           LET B == [A EXCEPT !.rep = [@ EXCEPT ![c] = 0], !.readable = IF c = 0 THEN FALSE ELSE @,
                              !.delivered = Append(@, [ctx |-> c, rep |-> A.rep[c]])]
           IN IF mode = "nb" THEN Apply(B, act([rv |-> "ok", m |-> A.rep[c], done |-> <<>>])) ELSE Apply(Fin(B, k, "ok", A.rep[c]), act(0))
        ELSE IF mode = "nb" THEN Apply(A, act([rv |-> "eagain", done |-> <<>>]))
        ELSE Apply([A EXCEPT !.recvOp = [@ EXCEPT ![c] = k]], act(0))
  /\ UNCHANGED <<up, used, open1, retry, now, nextMsg, known>>
\* nng_aio_cancel on a pending send or receive: either aborts the whole exchange of that context
Cancel(k) ==
  /\ k \in 1..NOps /\ ops[k] = "pend"
  /\ \E c \in Ctxs :
       /\ sendOp[c] = k \/ recvOp[c] = k
       /\ LET A == IF sendOp[c] # 0 /\ sendOp[c] # 9000
                     THEN Fin([S0 EXCEPT !.sendOp = [@ EXCEPT ![c] = 0], !.old = [@ EXCEPT ![c] = tag[c]], !.tag = [@ EXCEPT ![c] = 0], !.held = [@ EXCEPT ![c] = FALSE],
                                         !.sendq = Remove(@, c)], sendOp[c], "ecanceled", 0)
                     ELSE S0
              \* the exchange of the context is aborted as a whole: a pending receive is completed too
              B == IF A.recvOp[c] # 0 THEN Fin(Reset([A EXCEPT !.recvOp = [@ EXCEPT ![c] = 0]], c), A.recvOp[c], "ecanceled", 0)
                   ELSE Reset(A, c)
          IN Apply(B, [a |-> "cancel", op |-> k, out |-> [done |-> <<>>]])
  /\ UNCHANGED <<up, used, open1, retry, now, nextMsg, known>>
SetResend(c, v) ==
  /\ Live(c) /\ v # retry[c] /\ (AllowRetune \/ tag[c] = 0)
  /\ retry' = [retry EXCEPT ![c] = v]
  /\ Apply(S0, [a |-> "ctxopt", ctx |-> c, name |-> "req:resend-time", type |-> "ms", val |-> IF v = Inf THEN 0 ELSE v, inf |-> (v = Inf),
                out |-> [rv |-> "ok"]])
  /\ UNCHANGED <<up, used, open1, now, nextMsg, known>>
CtxOpen ==
  /\ ~open1 /\ open1' = TRUE
  /\ retry' = [retry EXCEPT ![1] = retry[0]]
  /\ Apply(S0, [a |-> "ctx_open", ctx |-> 1, out |-> [rv |-> "ok"]])
  /\ UNCHANGED <<up, used, now, nextMsg, known>>

\* nng_ctx_close (req0_ctx_fini): every operation pending on the context completes with NNG_ECLOSED (a send still waiting
\* for a pipe gets its message back), the request is forgotten; the context can be opened afresh
CtxClose ==
  /\ open1 /\ open1' = FALSE
  /\ LET c == 1
         A == IF recvOp[c] # 0 THEN Fin([S0 EXCEPT !.recvOp = [@ EXCEPT ![c] = 0]], recvOp[c], "eclosed", 0) ELSE S0
         B == IF A.sendOp[c] # 0 /\ A.sendOp[c] # 9000
                THEN Fin([A EXCEPT !.sendOp = [@ EXCEPT ![c] = 0], !.old = [@ EXCEPT ![c] = A.tag[c]], !.tag = [@ EXCEPT ![c] = 0],
                                   !.held = [@ EXCEPT ![c] = FALSE], !.sendq = Remove(@, c)], A.sendOp[c], "eclosed", 0)
                ELSE A
     IN Apply([Reset(B, c) EXCEPT !.creset = [@ EXCEPT ![c] = FALSE]], [a |-> "ctx_close", ctx |-> 1, out |-> [rv |-> "ok", done |-> <<>>]])
  /\ UNCHANGED <<up, used, retry, now, nextMsg, known>>

\* ---------------------------------------------------------------- repliers (environment)
Connect(p) ==
  /\ p \notin used /\ used' = used \cup {p} /\ up' = up \cup {p}
  /\ Apply(RunQ([S0 EXCEPT !.ready = Append(@, p), !.writable = TRUE]), [a |-> "connect", p |-> p, out |-> [rv |-> "ok"]])
  /\ UNCHANGED <<open1, retry, now, nextMsg, known>>
\* the replier reads the request: req0_send_cb, the pipe is idle again
Take(p) ==
  /\ p \in up /\ wire[p] # <<>>
  /\ LET A == [S0 EXCEPT !.wire = [@ EXCEPT ![p] = <<>>], !.ready = Append(@, p),
                         !.writable = IF S0.sendq = <<>> THEN TRUE ELSE @]
     IN Apply(RunQ(A), [a |-> "take", p |-> p, out |-> [hdr |-> <<"id">>, m |-> Head(wire[p]).tag]])
  /\ known' = known \cup {Head(wire[p]).tag}
  /\ UNCHANGED <<up, used, open1, retry, now, nextMsg>>
\* a reply arrives on p.  kind: "cur" (answers the current request of ctx c), "old" (a superseded request of c),
\* "unknown" (an id never issued), "nobit" (the current id with the request bit cleared), "short" (no id at all)
Reply(p, kind, c) ==
  /\ p \in up /\ nextMsg <= 100 + MaxMsgs
  /\ (kind \in {"cur", "nobit"} => tag[c] # 0 /\ tag[c] \in known)
  /\ (kind = "old" => old[c] # 0 /\ old[c] # tag[c] /\ old[c] \in known)
  /\ (kind = "unknown" => c = 0)
  \* "unsent": the (predictable) id of a request of c that was allocated but never written: cancelled or superseded while
  \* it waited for a pipe
  /\ (kind = "unsent" => old[c] # 0 /\ old[c] # tag[c] /\ old[c] \notin known /\ known # {})
  /\ LET m == nextMsg
         accept == kind = "cur" /\ tag[c] # 0 /\ sendOp[c] = 0 /\ rep[c] = 0
         A == IF ~accept THEN S0
              ELSE LET R == Release(S0, c)
                       B == [R EXCEPT !.sendq = Remove(@, c), !.old = [@ EXCEPT ![c] = tag[c]], !.tag = [@ EXCEPT ![c] = 0]]
                   IN IF recvOp[c] # 0
                        THEN Fin([B EXCEPT !.recvOp = [@ EXCEPT ![c] = 0], !.delivered = Append(@, [ctx |-> c, rep |-> m])], recvOp[c], "ok", m)
                        ELSE [B EXCEPT !.rep = [@ EXCEPT ![c] = m], !.readable = IF c = 0 THEN TRUE ELSE @]
         act == [a |-> "inject", p |-> p, m |-> m, rkind |-> kind,
                 rtag |-> IF kind \in {"cur", "nobit"} THEN tag[c] ELSE IF kind \in {"old", "unsent"} THEN old[c] ELSE 0,
                 short |-> (kind = "short"), out |-> [rv |-> "delivered"]]
     IN Apply(A, act)
  /\ nextMsg' = nextMsg + 1
  /\ UNCHANGED <<up, used, open1, retry, now, known>>
\* the connection is lost (peer closes, or sends a malformed reply): req0_pipe_close
Lost(p, how) ==
  /\ p \in up /\ up' = up \ {p}
  /\ LET A == [S0 EXCEPT !.ready = Remove(@, p), !.wire = [@ EXCEPT ![p] = <<>>],
                         !.writable = IF Remove(S0.ready, p) = <<>> THEN FALSE ELSE @]
         RECURSIVE Each(_, _)
         Each(S, cs) ==
           IF cs = <<>> THEN S
           ELSE LET c == Head(cs)
                    T == [S EXCEPT !.plist = [@ EXCEPT ![p] = Remove(@, c)]]
                    U == IF retry[c] = Inf \/ (T.tag[c] # 0 /\ ~T.held[c]) THEN
                            (IF T.recvOp[c] # 0 THEN Reset(Fin([T EXCEPT !.recvOp = [@ EXCEPT ![c] = 0]], T.recvOp[c], "econnreset", 0), c)
                             ELSE [Reset(T, c) EXCEPT !.creset = [@ EXCEPT ![c] = TRUE]])
                         ELSE IF T.tag[c] # 0 THEN
                            RunQ([T EXCEPT !.retryAt = [@ EXCEPT ![c] = now + retry[c]],
                                           !.sendq = IF c \in SeqSet(T.sendq) THEN @ ELSE Append(@, c)])
                         ELSE T
                IN Each(U, Tail(cs))
     IN Apply(Each(A, plist[p]),
              IF how = "close" THEN [a |-> "peer_close", p |-> p]
              ELSE [a |-> "inject", p |-> p, m |-> 0, rkind |-> "short", rtag |-> 0, short |-> TRUE, out |-> [rv |-> "delivered"]])
  /\ UNCHANGED <<used, open1, retry, now, nextMsg, known>>
\* time passes; the resend timer (period Tick) re-queues every request whose resend time has elapsed
Advance(d) ==
  /\ now + d <= MaxNow /\ now' = now + d
  /\ LET t == now + d
         fire == timerOn /\ t > armedAt + Tick
         due == SelectSeq(retryq, LAMBDA c : tag[c] # 0 /\ held[c] /\ retryAt[c] <= t)
         RECURSIVE Q(_, _)
         Q(S, cs) == IF cs = <<>> THEN S ELSE
                       Q([S EXCEPT !.sendq = IF Head(cs) \in SeqSet(S.sendq) THEN @ ELSE Append(@, Head(cs))], Tail(cs))
         A == IF ~fire THEN S0
              ELSE LET B == Q(S0, due)
                       C == [B EXCEPT !.timerOn = (retryq # <<>>), !.armedAt = t]
                   IN IF due # <<>> THEN RunQ(C) ELSE C
     IN Apply(A, [a |-> "tick", d |-> d, out |-> [done |-> <<>>]])
  /\ UNCHANGED <<up, used, open1, retry, nextMsg, known>>

Next == \/ (\E c \in Ctxs, md \in {"nb", "aio"} : Send(c, md) \/ Recv(c, md))
        \/ (\E k \in 1..MaxOps : Cancel(k)) \/ CtxOpen \/ CtxClose
        \/ (\E c \in Ctxs, v \in {Resend, Resend2, Inf} : SetResend(c, v))
        \/ (\E p \in Pipes : Connect(p) \/ Take(p) \/ Lost(p, "close") \/ Lost(p, "short")
                             \/ \E c \in Ctxs, kd \in {"cur", "old", "unknown", "nobit", "unsent"} : Reply(p, kd, c))
        \/ (\E d \in Ticks : Advance(d))
Spec == Init /\ [][Next]_vars

\* ---------------------------------------------------------------- properties
\* C04: a context is handed a reply at most once per request, and only a reply that answered its outstanding request
\* (by construction of Reply: accept only kind "cur"); C03: the retained copy is released exactly when it was cloned
OwnershipOK == ~bad
\* C12 (safety part): with resending disabled a request is never queued for retransmission
NoResendWhenDisabled == \A c \in Ctxs : (dis[c] /\ ~AllowRetune) => xmit[c] <= 1
\* a context waits for a pipe only when there is none idle (no lost wake-up of the send queue)
QueueDrained == sendq # <<>> => ready = <<>>
\* C15
PollW == writable <=> (ready # <<>>)
PollR == readable <=> (rep[0] # 0)

\* ---------------------------------------------------------------- C12
\* An unanswered request is never orphaned: it is waiting for a pipe, or (resending enabled) it has a resend scheduled on a
\* running timer, or (resending disabled when it was written) the live pipe it was written to still remembers it, so that
\* losing that pipe fails the receive with NNG_ECONNRESET instead of waiting forever.
Outstanding(c) == tag[c] # 0 /\ rep[c] = 0
NoOrphan == \A c \in Ctxs : Outstanding(c) =>
              \/ c \in SeqSet(sendq)
              \/ held[c] /\ c \in SeqSet(retryq) /\ timerOn
              \/ ~held[c] /\ \E p \in up : c \in SeqSet(plist[p])
\* a request written with resending disabled is on the wire at most once (NoResendWhenDisabled above), and a request
\* waiting for a pipe is written as soon as one is idle (QueueDrained above)
\* the deadline of a scheduled resend is never further away than the resend time
ResendBounded == \A c \in Ctxs : (Outstanding(c) /\ held[c] /\ c \in SeqSet(retryq)) => retryAt[c] <= now + (IF Resend2 > Resend THEN Resend2 ELSE Resend)

\* Liveness within the bounds of the model: the last pipe, once connected, stays; repliers read what is written and answer
\* the requests they know; time passes.  Then a receive on a request with resending enabled completes, unless the model's
\* budget of time or messages is exhausted first.
LastPipe == CHOOSE p \in Pipes : \A q \in Pipes : q <= p
LiveNext == \/ (\E c \in Ctxs, md \in {"nb", "aio"} : Send(c, md) \/ Recv(c, md))
            \/ (\E k \in 1..MaxOps : Cancel(k)) \/ CtxOpen
            \/ (\E p \in Pipes : Connect(p) \/ Take(p) \/ (p # LastPipe /\ Lost(p, "close"))
                                 \/ \E c \in Ctxs : Reply(p, "cur", c))
            \/ (\E d \in Ticks : Advance(d))
\* the replier on the last pipe answers a request it has actually read
ReplyOwn(c) == /\ c \in SeqSet(plist[LastPipe]) /\ (IF wire[LastPipe] = <<>> THEN TRUE ELSE Head(wire[LastPipe]).ctx # c)
               /\ Reply(LastPipe, "cur", c)
LiveSpec == Init /\ [][LiveNext]_vars
            /\ WF_vars(Connect(LastPipe)) /\ WF_vars(Take(LastPipe)) /\ WF_vars(\E d \in Ticks : Advance(d))
            /\ \A c \in Ctxs : WF_vars(ReplyOwn(c))
MaxTick == CHOOSE d \in Ticks : \A e \in Ticks : e <= d
OutOfBudget == now + MaxTick > MaxNow \/ nextMsg > 100 + MaxMsgs
EventuallyAnswered == \A c \in Ctxs : (recvOp[c] # 0 /\ retry[c] # Inf) ~> (recvOp[c] = 0 \/ OutOfBudget)

SId == <<up, used, ready, wire, sendq, open1, tag, sendOp, recvOp, rep, retry, retryAt, plist, creset, retryq, held, known,
         now, timerOn, armedAt, writable, readable, ops, nextMsg, old, bad>>
WireObs == LET RECURSIVE F(_) F(S) == IF S = {} THEN <<>> ELSE LET p == CHOOSE x \in S : \A y \in S : x <= y IN <<<<p, Len(wire[p]), 1>>>> \o F(S \ {p}) IN F(up)
Obs == [done |-> doneV, S_pend |-> {}, wire |-> WireObs, pollw |-> writable, pollr |-> readable]
FinV == 0
ExportEdge == PrintT(<<"E", ToJson([s |-> SId, sa |-> lastAct, d |-> SId', act |-> lastAct', obs |-> Obs', fin |-> FinV'])>>)
View == SId
=====================================================================
