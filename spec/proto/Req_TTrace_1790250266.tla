---- MODULE Req_TTrace_1790250266 ----
EXTENDS Sequences, TLCExt, Toolbox, Naturals, TLC, Req

_expression ==
    LET Req_TEExpression == INSTANCE Req_TEExpression
    IN Req_TEExpression!expression
----

_trace ==
    LET Req_TETrace == INSTANCE Req_TETrace
    IN Req_TETrace!trace
----

_inv ==
    ~(
        TLCGet("level") = Len(_TETrace)
        /\
        retryAt = ((0 :> 130 @@ 1 :> 0))
        /\
        bad = (FALSE)
        /\
        held = ((0 :> TRUE @@ 1 :> FALSE))
        /\
        retryq = (<<0>>)
        /\
        sendOp = ((0 :> 0 @@ 1 :> 0))
        /\
        delivered = (<<>>)
        /\
        used = ({2})
        /\
        writable = (TRUE)
        /\
        dis = ((0 :> FALSE @@ 1 :> FALSE))
        /\
        plist = (<<<<>>, <<0>>>>)
        /\
        known = ({102})
        /\
        ready = (<<2>>)
        /\
        now = (100)
        /\
        xmit = ((0 :> 1 @@ 1 :> 0))
        /\
        nextMsg = (103)
        /\
        tag = ((0 :> 102 @@ 1 :> 0))
        /\
        up = ({2})
        /\
        rep = ((0 :> 0 @@ 1 :> 0))
        /\
        retry = ((0 :> 30 @@ 1 :> 30))
        /\
        readable = (FALSE)
        /\
        recvOp = ((0 :> 0 @@ 1 :> 0))
        /\
        doneV = (<<>>)
        /\
        old = ((0 :> 0 @@ 1 :> 0))
        /\
        creset = ((0 :> FALSE @@ 1 :> FALSE))
        /\
        timerOn = (TRUE)
        /\
        lastAct = ([p |-> 2, a |-> "take", out |-> [m |-> 102, hdr |-> <<"id">>]])
        /\
        sendq = (<<>>)
        /\
        wire = (<<<<>>, <<>>>>)
        /\
        ops = (<<"done">>)
        /\
        open1 = (FALSE)
        /\
        armedAt = (100)
    )
----

_init ==
    /\ bad = _TETrace[1].bad
    /\ readable = _TETrace[1].readable
    /\ ready = _TETrace[1].ready
    /\ retryq = _TETrace[1].retryq
    /\ lastAct = _TETrace[1].lastAct
    /\ armedAt = _TETrace[1].armedAt
    /\ timerOn = _TETrace[1].timerOn
    /\ wire = _TETrace[1].wire
    /\ tag = _TETrace[1].tag
    /\ delivered = _TETrace[1].delivered
    /\ plist = _TETrace[1].plist
    /\ xmit = _TETrace[1].xmit
    /\ now = _TETrace[1].now
    /\ writable = _TETrace[1].writable
    /\ recvOp = _TETrace[1].recvOp
    /\ open1 = _TETrace[1].open1
    /\ rep = _TETrace[1].rep
    /\ old = _TETrace[1].old
    /\ doneV = _TETrace[1].doneV
    /\ sendOp = _TETrace[1].sendOp
    /\ used = _TETrace[1].used
    /\ dis = _TETrace[1].dis
    /\ retryAt = _TETrace[1].retryAt
    /\ up = _TETrace[1].up
    /\ known = _TETrace[1].known
    /\ creset = _TETrace[1].creset
    /\ retry = _TETrace[1].retry
    /\ ops = _TETrace[1].ops
    /\ held = _TETrace[1].held
    /\ nextMsg = _TETrace[1].nextMsg
    /\ sendq = _TETrace[1].sendq
----

_next ==
    /\ \E i,j \in DOMAIN _TETrace:
        /\ \/ /\ j = i + 1
              /\ i = TLCGet("level")
        /\ bad  = _TETrace[i].bad
        /\ bad' = _TETrace[j].bad
        /\ readable  = _TETrace[i].readable
        /\ readable' = _TETrace[j].readable
        /\ ready  = _TETrace[i].ready
        /\ ready' = _TETrace[j].ready
        /\ retryq  = _TETrace[i].retryq
        /\ retryq' = _TETrace[j].retryq
        /\ lastAct  = _TETrace[i].lastAct
        /\ lastAct' = _TETrace[j].lastAct
        /\ armedAt  = _TETrace[i].armedAt
        /\ armedAt' = _TETrace[j].armedAt
        /\ timerOn  = _TETrace[i].timerOn
        /\ timerOn' = _TETrace[j].timerOn
        /\ wire  = _TETrace[i].wire
        /\ wire' = _TETrace[j].wire
        /\ tag  = _TETrace[i].tag
        /\ tag' = _TETrace[j].tag
        /\ delivered  = _TETrace[i].delivered
        /\ delivered' = _TETrace[j].delivered
        /\ plist  = _TETrace[i].plist
        /\ plist' = _TETrace[j].plist
        /\ xmit  = _TETrace[i].xmit
        /\ xmit' = _TETrace[j].xmit
        /\ now  = _TETrace[i].now
        /\ now' = _TETrace[j].now
        /\ writable  = _TETrace[i].writable
        /\ writable' = _TETrace[j].writable
        /\ recvOp  = _TETrace[i].recvOp
        /\ recvOp' = _TETrace[j].recvOp
        /\ open1  = _TETrace[i].open1
        /\ open1' = _TETrace[j].open1
        /\ rep  = _TETrace[i].rep
        /\ rep' = _TETrace[j].rep
        /\ old  = _TETrace[i].old
        /\ old' = _TETrace[j].old
        /\ doneV  = _TETrace[i].doneV
        /\ doneV' = _TETrace[j].doneV
        /\ sendOp  = _TETrace[i].sendOp
        /\ sendOp' = _TETrace[j].sendOp
        /\ used  = _TETrace[i].used
        /\ used' = _TETrace[j].used
        /\ dis  = _TETrace[i].dis
        /\ dis' = _TETrace[j].dis
        /\ retryAt  = _TETrace[i].retryAt
        /\ retryAt' = _TETrace[j].retryAt
        /\ up  = _TETrace[i].up
        /\ up' = _TETrace[j].up
        /\ known  = _TETrace[i].known
        /\ known' = _TETrace[j].known
        /\ creset  = _TETrace[i].creset
        /\ creset' = _TETrace[j].creset
        /\ retry  = _TETrace[i].retry
        /\ retry' = _TETrace[j].retry
        /\ ops  = _TETrace[i].ops
        /\ ops' = _TETrace[j].ops
        /\ held  = _TETrace[i].held
        /\ held' = _TETrace[j].held
        /\ nextMsg  = _TETrace[i].nextMsg
        /\ nextMsg' = _TETrace[j].nextMsg
        /\ sendq  = _TETrace[i].sendq
        /\ sendq' = _TETrace[j].sendq

\* Uncomment the ASSUME below to write the states of the error trace
\* to the given file in Json format. Note that you can pass any tuple
\* to `JsonSerialize`. For example, a sub-sequence of _TETrace.
    \* ASSUME
    \*     LET J == INSTANCE Json
    \*         IN J!JsonSerialize("Req_TTrace_1790250266.json", _TETrace)

=============================================================================

 Note that you can extract this module `Req_TEExpression`
  to a dedicated file to reuse `expression` (the module in the 
  dedicated `Req_TEExpression.tla` file takes precedence 
  over the module `Req_TEExpression` below).

---- MODULE Req_TEExpression ----
EXTENDS Sequences, TLCExt, Toolbox, Naturals, TLC, Req

expression == 
    [
        \* To hide variables of the `Req` spec from the error trace,
        \* remove the variables below.  The trace will be written in the order
        \* of the fields of this record.
        bad |-> bad
        ,readable |-> readable
        ,ready |-> ready
        ,retryq |-> retryq
        ,lastAct |-> lastAct
        ,armedAt |-> armedAt
        ,timerOn |-> timerOn
        ,wire |-> wire
        ,tag |-> tag
        ,delivered |-> delivered
        ,plist |-> plist
        ,xmit |-> xmit
        ,now |-> now
        ,writable |-> writable
        ,recvOp |-> recvOp
        ,open1 |-> open1
        ,rep |-> rep
        ,old |-> old
        ,doneV |-> doneV
        ,sendOp |-> sendOp
        ,used |-> used
        ,dis |-> dis
        ,retryAt |-> retryAt
        ,up |-> up
        ,known |-> known
        ,creset |-> creset
        ,retry |-> retry
        ,ops |-> ops
        ,held |-> held
        ,nextMsg |-> nextMsg
        ,sendq |-> sendq
        
        \* Put additional constant-, state-, and action-level expressions here:
        \* ,_stateNumber |-> _TEPosition
        \* ,_badUnchanged |-> bad = bad'
        
        \* Format the `bad` variable as Json value.
        \* ,_badJson |->
        \*     LET J == INSTANCE Json
        \*     IN J!ToJson(bad)
        
        \* Lastly, you may build expressions over arbitrary sets of states by
        \* leveraging the _TETrace operator.  For example, this is how to
        \* count the number of times a spec variable changed up to the current
        \* state in the trace.
        \* ,_badModCount |->
        \*     LET F[s \in DOMAIN _TETrace] ==
        \*         IF s = 1 THEN 0
        \*         ELSE IF _TETrace[s].bad # _TETrace[s-1].bad
        \*             THEN 1 + F[s-1] ELSE F[s-1]
        \*     IN F[_TEPosition - 1]
    ]

=============================================================================



Parsing and semantic processing can take forever if the trace below is long.
 In this case, it is advised to uncomment the module below to deserialize the
 trace from a generated binary file.

\*
\*---- MODULE Req_TETrace ----
\*EXTENDS IOUtils, TLC, Req
\*
\*trace == IODeserialize("Req_TTrace_1790250266.bin", TRUE)
\*
\*=============================================================================
\*

---- MODULE Req_TETrace ----
EXTENDS TLC, Req

trace == 
    <<
    ([retryAt |-> (0 :> 0 @@ 1 :> 0),bad |-> FALSE,held |-> (0 :> FALSE @@ 1 :> FALSE),retryq |-> <<>>,sendOp |-> (0 :> 0 @@ 1 :> 0),delivered |-> <<>>,used |-> {},writable |-> FALSE,dis |-> (0 :> FALSE @@ 1 :> FALSE),plist |-> <<<<>>, <<>>>>,known |-> {},ready |-> <<>>,now |-> 100,xmit |-> (0 :> 0 @@ 1 :> 0),nextMsg |-> 101,tag |-> (0 :> 0 @@ 1 :> 0),up |-> {},rep |-> (0 :> 0 @@ 1 :> 0),retry |-> (0 :> 30 @@ 1 :> 30),readable |-> FALSE,recvOp |-> (0 :> 0 @@ 1 :> 0),doneV |-> <<>>,old |-> (0 :> 0 @@ 1 :> 0),creset |-> (0 :> FALSE @@ 1 :> FALSE),timerOn |-> FALSE,lastAct |-> [a |-> "init"],sendq |-> <<>>,wire |-> <<<<>>, <<>>>>,ops |-> <<>>,open1 |-> FALSE,armedAt |-> 0]),
    ([retryAt |-> (0 :> 0 @@ 1 :> 0),bad |-> FALSE,held |-> (0 :> FALSE @@ 1 :> FALSE),retryq |-> <<>>,sendOp |-> (0 :> 0 @@ 1 :> 0),delivered |-> <<>>,used |-> {},writable |-> FALSE,dis |-> (0 :> FALSE @@ 1 :> FALSE),plist |-> <<<<>>, <<>>>>,known |-> {},ready |-> <<>>,now |-> 100,xmit |-> (0 :> 0 @@ 1 :> 0),nextMsg |-> 102,tag |-> (0 :> 0 @@ 1 :> 0),up |-> {},rep |-> (0 :> 0 @@ 1 :> 0),retry |-> (0 :> 30 @@ 1 :> 30),readable |-> FALSE,recvOp |-> (0 :> 0 @@ 1 :> 0),doneV |-> <<>>,old |-> (0 :> 0 @@ 1 :> 0),creset |-> (0 :> FALSE @@ 1 :> FALSE),timerOn |-> FALSE,lastAct |-> [a |-> "send", m |-> 101, op |-> 0, ctx |-> 0, mode |-> "nb", out |-> [done |-> <<>>, rv |-> "eagain"]],sendq |-> <<>>,wire |-> <<<<>>, <<>>>>,ops |-> <<>>,open1 |-> FALSE,armedAt |-> 0]),
    ([retryAt |-> (0 :> 130 @@ 1 :> 0),bad |-> FALSE,held |-> (0 :> TRUE @@ 1 :> FALSE),retryq |-> <<0>>,sendOp |-> (0 :> 1 @@ 1 :> 0),delivered |-> <<>>,used |-> {},writable |-> FALSE,dis |-> (0 :> FALSE @@ 1 :> FALSE),plist |-> <<<<>>, <<>>>>,known |-> {},ready |-> <<>>,now |-> 100,xmit |-> (0 :> 0 @@ 1 :> 0),nextMsg |-> 103,tag |-> (0 :> 102 @@ 1 :> 0),up |-> {},rep |-> (0 :> 0 @@ 1 :> 0),retry |-> (0 :> 30 @@ 1 :> 30),readable |-> FALSE,recvOp |-> (0 :> 0 @@ 1 :> 0),doneV |-> <<>>,old |-> (0 :> 0 @@ 1 :> 0),creset |-> (0 :> FALSE @@ 1 :> FALSE),timerOn |-> TRUE,lastAct |-> [a |-> "send", m |-> 102, op |-> 1, ctx |-> 0, mode |-> "aio", out |-> [done |-> <<>>]],sendq |-> <<0>>,wire |-> <<<<>>, <<>>>>,ops |-> <<"pend">>,open1 |-> FALSE,armedAt |-> 100]),
    ([retryAt |-> (0 :> 130 @@ 1 :> 0),bad |-> FALSE,held |-> (0 :> TRUE @@ 1 :> FALSE),retryq |-> <<0>>,sendOp |-> (0 :> 0 @@ 1 :> 0),delivered |-> <<>>,used |-> {2},writable |-> FALSE,dis |-> (0 :> FALSE @@ 1 :> FALSE),plist |-> <<<<>>, <<0>>>>,known |-> {},ready |-> <<>>,now |-> 100,xmit |-> (0 :> 1 @@ 1 :> 0),nextMsg |-> 103,tag |-> (0 :> 102 @@ 1 :> 0),up |-> {2},rep |-> (0 :> 0 @@ 1 :> 0),retry |-> (0 :> 30 @@ 1 :> 30),readable |-> FALSE,recvOp |-> (0 :> 0 @@ 1 :> 0),doneV |-> <<[rv |-> "ok", op |-> 1]>>,old |-> (0 :> 0 @@ 1 :> 0),creset |-> (0 :> FALSE @@ 1 :> FALSE),timerOn |-> TRUE,lastAct |-> [p |-> 2, a |-> "connect", out |-> [rv |-> "ok"]],sendq |-> <<>>,wire |-> <<<<>>, <<[tag |-> 102, ctx |-> 0]>>>>,ops |-> <<"done">>,open1 |-> FALSE,armedAt |-> 100]),
    ([retryAt |-> (0 :> 130 @@ 1 :> 0),bad |-> FALSE,held |-> (0 :> TRUE @@ 1 :> FALSE),retryq |-> <<0>>,sendOp |-> (0 :> 0 @@ 1 :> 0),delivered |-> <<>>,used |-> {2},writable |-> TRUE,dis |-> (0 :> FALSE @@ 1 :> FALSE),plist |-> <<<<>>, <<0>>>>,known |-> {102},ready |-> <<2>>,now |-> 100,xmit |-> (0 :> 1 @@ 1 :> 0),nextMsg |-> 103,tag |-> (0 :> 102 @@ 1 :> 0),up |-> {2},rep |-> (0 :> 0 @@ 1 :> 0),retry |-> (0 :> 30 @@ 1 :> 30),readable |-> FALSE,recvOp |-> (0 :> 0 @@ 1 :> 0),doneV |-> <<>>,old |-> (0 :> 0 @@ 1 :> 0),creset |-> (0 :> FALSE @@ 1 :> FALSE),timerOn |-> TRUE,lastAct |-> [p |-> 2, a |-> "take", out |-> [m |-> 102, hdr |-> <<"id">>]],sendq |-> <<>>,wire |-> <<<<>>, <<>>>>,ops |-> <<"done">>,open1 |-> FALSE,armedAt |-> 100])
    >>
----


=============================================================================

---- CONFIG Req_TTrace_1790250266 ----
CONSTANTS
    Pipes = { 1 , 2 }
    MaxMsgs = 2
    MaxOps = 1
    MaxNow = 120
    Ticks = { 11 , 35 }
    Resend = 30
    Tick = 10
    AllowRetune = FALSE
    FreeByClone = TRUE

INVARIANT
    _inv

CHECK_DEADLOCK
    \* CHECK_DEADLOCK off because of PROPERTY or INVARIANT above.
    FALSE

INIT
    _init

NEXT
    _next

CONSTANT
    _TETrace <- _trace

ALIAS
    _expression
=============================================================================
\* Generated on Thu Sep 24 11:44:28 UTC 2026