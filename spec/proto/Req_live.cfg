SPECIFICATION LiveSpec
CONSTANTS Pipes = {1, 2}
          MaxMsgs = 2
          MaxOps = 1
          MaxNow = 220
          Ticks = {20}
          Resend = 30
          Resend2 = 30
          Tick = 10
          AllowRetune = FALSE
          FreeByClone = TRUE
PROPERTY EventuallyAnswered
