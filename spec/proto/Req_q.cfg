SPECIFICATION Spec
CONSTANTS Pipes = {1, 2}
          MaxMsgs = 2
          MaxOps = 1
          MaxNow = 150
          Ticks = {11, 35}
          Resend = 30
          Resend2 = 30
          Tick = 10
          AllowRetune = FALSE
          FreeByClone = TRUE
INVARIANTS OwnershipOK NoResendWhenDisabled QueueDrained PollW PollR
VIEW View
