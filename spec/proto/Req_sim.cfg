SPECIFICATION Spec
CONSTANTS Pipes = {1, 2}
          MaxMsgs = 8
          MaxOps = 4
          MaxNow = 400
          Ticks = {5, 11, 35}
          Resend = 30
          Resend2 = 80
          Tick = 10
          AllowRetune = FALSE
          FreeByClone = TRUE
INVARIANTS OwnershipOK QueueDrained PollW PollR
ACTION_CONSTRAINT ExportEdge
