SPECIFICATION Spec
CONSTANTS
  Pipes = {1, 2}
  MaxMsgs = 4
  MaxOps = 2
  HopCounts = {0, 1}
  NbSendFails = TRUE
  ClearReadable = TRUE
INVARIANTS ReplyRouting HoldSound NoLostWakeup PollR
VIEW View
