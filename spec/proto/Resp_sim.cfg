SPECIFICATION Spec
CONSTANTS
  Pipes = {1, 2, 3}
  MaxMsgs = 10
  MaxOps = 4
  HopCounts = {0, 1, 2}
  NbSendFails = TRUE
  ClearReadable = TRUE
INVARIANTS ReplyRouting HoldSound NoLostWakeup PollR
ACTION_CONSTRAINT ExportEdge
