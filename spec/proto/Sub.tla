---------------------------- MODULE Sub ----------------------------
(* SUB socket with contexts (src/sp/protocol/pubsub0/sub.c), macro steps through the harness transport.
   C05 (subscriber side), C15 (receive readiness), C18 (receive buffer), C03.

   A message body is <<c1, c2, n>>: two topic characters and a sequence number (on the wire: 4 bytes,
   c1 c2 then n as a 16-bit number); a topic is a string over the same characters of length 0..2, or
   LONG (5 bytes: longer than any body, can never match).  Match is the property's definition:
   "one of the current subscriptions is a prefix of the body". *)
EXTENDS Naturals, Sequences, FiniteSets, TLC, Json

CONSTANTS Pipes, Chars, Topics, MaxMsgs, MaxOps, MaxCap,
          ClearOnPurge     \* TRUE: unsubscribe clears the pollable when it empties the socket's queue (repaired)

TopicsFull == {<<>>, <<"a">>, <<"b">>, <<"a", "b">>, <<"a", "a">>, <<"LONG">>}
TopicsSmall == {<<>>, <<"a">>, <<"a", "b">>, <<"LONG">>}
TopicsTiny == {<<>>, <<"a", "b">>, <<"LONG">>}
Ctxs == {0, 1}             \* 0 = the socket's own context, 1 = an explicitly opened context
VARIABLES
  up,         \* connected publisher pipes
  used,
  open1,      \* context 1 is open
  topics, q, cap, prefnew, rq,     \* per context
  readable,
  ops,        \* ops[k] = [ctx, st, m]
  nextSeq,
  arrived, got,    \* ghosts: arrived[c] = messages that matched c at arrival (in order), got[c] = handed to the application
  doneV, lastAct

vars == <<up, used, open1, topics, q, cap, prefnew, rq, readable, ops, nextSeq, arrived, got, doneV, lastAct>>
SeqSet(s) == {s[i] : i \in 1..Len(s)}
NOps == Len(ops)
Code(c) == IF c = "a" THEN 97 ELSE 98
Tag(b) == (Code(b[1]) * 256 + Code(b[2])) * 65536 + b[3]
IsPrefix(t, b) == Len(t) <= 2 /\ \A i \in 1..Len(t) : t[i] = b[i]
Match(ts, b) == \E t \in ts : t # <<"LONG">> /\ IsPrefix(t, b)
Live(c) == c = 0 \/ open1

Init ==
  /\ up = {} /\ used = {} /\ open1 = FALSE
  /\ topics = [c \in Ctxs |-> {}] /\ q = [c \in Ctxs |-> <<>>] /\ cap = [c \in Ctxs |-> 128] /\ prefnew = [c \in Ctxs |-> TRUE]
  /\ rq = [c \in Ctxs |-> <<>>] /\ readable = FALSE /\ ops = <<>> /\ nextSeq = 1
  /\ arrived = [c \in Ctxs |-> <<>>] /\ got = [c \in Ctxs |-> <<>>] /\ doneV = <<>> /\ lastAct = [a |-> "init"]

Done(o, k, rv, m) == [o EXCEPT ![k] = [ctx |-> @.ctx, st |-> "done", m |-> m]]
DoneRec(k, rv, m) == IF rv = "ok" THEN [op |-> k, rv |-> rv, m |-> m] ELSE [op |-> k, rv |-> rv]
\* completions sorted by operation number (the driver reports them that way)
SortDone(S0) == LET RECURSIVE F(_) F(S) == IF S = {} THEN <<>> ELSE LET x == CHOOSE y \in S : \A z \in S : y.op <= z.op IN <<x>> \o F(S \ {x}) IN F(S0)

\* ---------------------------------------------------------------- publisher side (environment)
Connect(p) ==
  /\ p \notin used /\ used' = used \cup {p} /\ up' = up \cup {p}
  /\ doneV' = <<>> /\ lastAct' = [a |-> "connect", p |-> p, out |-> [rv |-> "ok"]]
  /\ UNCHANGED <<open1, topics, q, cap, prefnew, rq, readable, ops, nextSeq, arrived, got>>
PeerClose(p) ==
  /\ p \in up /\ up' = up \ {p}
  /\ doneV' = <<>> /\ lastAct' = [a |-> "peer_close", p |-> p]
  /\ UNCHANGED <<used, open1, topics, q, cap, prefnew, rq, readable, ops, nextSeq, arrived, got>>
\* a published message arrives on pipe p: sub0_recv_cb
Arrive(p, c1, c2) ==
  /\ p \in up /\ nextSeq <= MaxMsgs
  /\ LET b == <<c1, c2, nextSeq>>
         m == Tag(b)
         \* per context, independently
         takes(c) == Live(c) /\ Match(topics[c], b) /\ ~(Len(q[c]) >= cap[c] /\ ~prefnew[c])
         toWaiter(c) == takes(c) /\ rq[c] # <<>>
         q1 == [c \in Ctxs |-> IF ~takes(c) \/ toWaiter(c) THEN q[c]
                               ELSE IF Len(q[c]) >= cap[c] THEN Append(Tail(q[c]), m)      \* full, prefer new: drop the oldest
                               ELSE Append(q[c], m)]
         dn == SortDone({DoneRec(Head(rq[c]), "ok", m) : c \in {x \in Ctxs : toWaiter(x)}})
     IN /\ q' = q1
        /\ rq' = [c \in Ctxs |-> IF toWaiter(c) THEN Tail(rq[c]) ELSE rq[c]]
        /\ ops' = [k \in 1..NOps |-> IF \E c \in Ctxs : toWaiter(c) /\ Head(rq[c]) = k THEN [ctx |-> ops[k].ctx, st |-> "done", m |-> m] ELSE ops[k]]
        /\ readable' = IF takes(0) /\ ~toWaiter(0) THEN TRUE ELSE readable
        /\ arrived' = [c \in Ctxs |-> IF takes(c) THEN Append(arrived[c], m) ELSE arrived[c]]
        /\ got' = [c \in Ctxs |-> IF toWaiter(c) THEN Append(got[c], m) ELSE got[c]]
        /\ doneV' = dn
        /\ lastAct' = [a |-> "inject", p |-> p, m |-> m, out |-> [rv |-> "delivered"]]
  /\ nextSeq' = nextSeq + 1
  /\ UNCHANGED <<up, used, open1, topics, cap, prefnew>>

\* ---------------------------------------------------------------- application
RecvNb(c) ==
  /\ Live(c)
  /\ IF q[c] = <<>> THEN
        /\ lastAct' = [a |-> "recv", mode |-> "nb", op |-> 0, ctx |-> c, out |-> [rv |-> "eagain", done |-> <<>>]]
        /\ UNCHANGED <<q, readable, got>>
     ELSE
        /\ q' = [q EXCEPT ![c] = Tail(@)]
        /\ readable' = IF c = 0 /\ Tail(q[c]) = <<>> THEN FALSE ELSE readable
        /\ got' = [got EXCEPT ![c] = Append(@, Head(q[c]))]
        /\ lastAct' = [a |-> "recv", mode |-> "nb", op |-> 0, ctx |-> c, out |-> [rv |-> "ok", m |-> Head(q[c]), done |-> <<>>]]
  /\ doneV' = <<>>
  /\ UNCHANGED <<up, used, open1, topics, cap, prefnew, rq, ops, nextSeq, arrived>>
RecvAio(c) ==
  /\ Live(c) /\ NOps < MaxOps
  /\ LET k == NOps + 1 IN
     /\ lastAct' = [a |-> "recv", mode |-> "aio", op |-> k, ctx |-> c, out |-> [done |-> <<>>]]
     /\ IF q[c] = <<>> THEN
          /\ rq' = [rq EXCEPT ![c] = Append(@, k)] /\ ops' = Append(ops, [ctx |-> c, st |-> "pend", m |-> 0])
          /\ doneV' = <<>> /\ UNCHANGED <<q, readable, got>>
        ELSE
          /\ q' = [q EXCEPT ![c] = Tail(@)]
          /\ readable' = IF c = 0 /\ Tail(q[c]) = <<>> THEN FALSE ELSE readable
          /\ got' = [got EXCEPT ![c] = Append(@, Head(q[c]))]
          /\ ops' = Append(ops, [ctx |-> c, st |-> "done", m |-> Head(q[c])])
          /\ doneV' = <<DoneRec(k, "ok", Head(q[c]))>> /\ UNCHANGED rq
  /\ UNCHANGED <<up, used, open1, topics, cap, prefnew, nextSeq, arrived>>
Cancel(k) ==
  /\ k \in 1..NOps /\ ops[k].st = "pend"
  /\ rq' = [c \in Ctxs |-> SelectSeq(rq[c], LAMBDA x : x # k)]
  /\ ops' = [ops EXCEPT ![k] = [ctx |-> @.ctx, st |-> "done", m |-> 0]]
  /\ doneV' = <<DoneRec(k, "ecanceled", 0)>>
  /\ lastAct' = [a |-> "cancel", op |-> k, out |-> [done |-> <<>>]]
  /\ UNCHANGED <<up, used, open1, topics, q, cap, prefnew, readable, nextSeq, arrived, got>>
Subscribe(c, t) ==
  /\ Live(c)
  /\ topics' = [topics EXCEPT ![c] = @ \cup {t}]
  /\ doneV' = <<>> /\ lastAct' = [a |-> "sub", ctx |-> c, topic |-> t, out |-> [rv |-> "ok"]]
  /\ UNCHANGED <<up, used, open1, q, cap, prefnew, rq, readable, ops, nextSeq, arrived, got>>
\* unsubscribe also removes the queued messages that no longer match (requeue filter)
Unsubscribe(c, t) ==
  /\ Live(c)
  /\ IF t \notin topics[c] THEN
        /\ lastAct' = [a |-> "unsub", ctx |-> c, topic |-> t, out |-> [rv |-> "enoent"]]
        /\ UNCHANGED <<topics, q, readable, arrived>>
     ELSE LET ts == topics[c] \ {t}
          IN /\ topics' = [topics EXCEPT ![c] = ts]
             /\ q' = [q EXCEPT ![c] = SelectSeq(@, LAMBDA m : \E c1 \in Chars, c2 \in Chars, n \in 1..MaxMsgs :
                                                          m = Tag(<<c1, c2, n>>) /\ Match(ts, <<c1, c2, n>>))]
             /\ readable' = IF ClearOnPurge /\ c = 0 /\ q'[0] = <<>> THEN FALSE ELSE readable
             /\ UNCHANGED arrived
             /\ lastAct' = [a |-> "unsub", ctx |-> c, topic |-> t, out |-> [rv |-> "ok"]]
  /\ doneV' = <<>>
  /\ UNCHANGED <<up, used, open1, cap, prefnew, rq, ops, nextSeq, got>>
SetRecvBuf(c, n) ==
  /\ Live(c) /\ n # cap[c] /\ n >= 1
  /\ cap' = [cap EXCEPT ![c] = n]
  /\ LET keep == IF Len(q[c]) < n THEN Len(q[c]) ELSE n IN
     /\ q' = [q EXCEPT ![c] = SubSeq(@, 1, keep)]
  /\ doneV' = <<>> /\ lastAct' = [a |-> "ctxopt", ctx |-> c, name |-> "recv-buffer", type |-> "int", val |-> n, out |-> [rv |-> "ok"]]
  /\ UNCHANGED <<up, used, open1, topics, prefnew, rq, readable, ops, nextSeq, arrived, got>>
SetPrefNew(c, b) ==
  /\ Live(c) /\ b # prefnew[c]
  /\ prefnew' = [prefnew EXCEPT ![c] = b]
  /\ doneV' = <<>> /\ lastAct' = [a |-> "ctxopt", ctx |-> c, name |-> "sub:prefnew", type |-> "bool", val |-> IF b THEN 1 ELSE 0, out |-> [rv |-> "ok"]]
  /\ UNCHANGED <<up, used, open1, topics, q, cap, rq, readable, ops, nextSeq, arrived, got>>
\* a new context starts with the socket's current buffer length and drop policy, and no subscriptions
CtxOpen ==
  /\ ~open1 /\ open1' = TRUE
  /\ cap' = [cap EXCEPT ![1] = cap[0]] /\ prefnew' = [prefnew EXCEPT ![1] = prefnew[0]]
  /\ topics' = [topics EXCEPT ![1] = {}] /\ q' = [q EXCEPT ![1] = <<>>]
  /\ arrived' = [arrived EXCEPT ![1] = <<>>] /\ got' = [got EXCEPT ![1] = <<>>]
  /\ doneV' = <<>> /\ lastAct' = [a |-> "ctx_open", ctx |-> 1, out |-> [rv |-> "ok"]]
  /\ UNCHANGED <<up, used, rq, readable, ops, nextSeq>>

Next == \/ (\E p \in Pipes : Connect(p) \/ PeerClose(p) \/ \E c1 \in Chars, c2 \in Chars : Arrive(p, c1, c2))
        \/ (\E c \in Ctxs : RecvNb(c) \/ RecvAio(c) \/ (\E t \in Topics : Subscribe(c, t) \/ Unsubscribe(c, t))
                            \/ (\E n \in 1..MaxCap : SetRecvBuf(c, n)) \/ (\E b \in BOOLEAN : SetPrefNew(c, b)))
        \/ (\E k \in 1..MaxOps : Cancel(k)) \/ CtxOpen
Spec == Init /\ [][Next]_vars

\* ---------------------------------------------------------------- properties (C05 subscriber side)
\* what a context got is a subsequence, without duplicates, of what matched it on arrival: nothing altered, reordered or invented
IsSub(s, t) == \A i, j \in 1..Len(s) : i < j => (\E a, b \in 1..Len(t) : a < b /\ t[a] = s[i] /\ t[b] = s[j])
GotOrdered == \A c \in Ctxs : IsSub(got[c], arrived[c]) /\ Cardinality(SeqSet(got[c])) = Len(got[c]) /\ SeqSet(got[c]) \subseteq SeqSet(arrived[c])
\* queued messages all match the context's current subscriptions (unsubscribe purges), and are bounded
QueueMatches == \A c \in Ctxs : \A i \in 1..Len(q[c]) :
                   \E c1 \in Chars, c2 \in Chars, n \in 1..MaxMsgs : q[c][i] = Tag(<<c1, c2, n>>) /\ Match(topics[c], <<c1, c2, n>>)
Bounded == \A c \in Ctxs : Len(q[c]) <= cap[c]
NoLostWakeup == \A c \in Ctxs : rq[c] # <<>> => q[c] = <<>>
\* C15: the receive descriptor mirrors the socket's own queue
PollR == readable <=> (q[0] # <<>>)

\* ---------------------------------------------------------------- export
SId == <<up, used, open1, topics, q, cap, prefnew, rq, readable, ops, nextSeq>>
WireObs == LET RECURSIVE F(_) F(S) == IF S = {} THEN <<>> ELSE LET p == CHOOSE x \in S : \A y \in S : x <= y IN <<<<p, 0, 1>>>> \o F(S \ {p}) IN F(up)
Obs == [done |-> doneV, S_pend |-> {}, wire |-> WireObs, pollr |-> readable]
Fin == 0
ExportEdge == PrintT(<<"E", ToJson([s |-> SId, sa |-> lastAct, d |-> SId', act |-> lastAct', obs |-> Obs', fin |-> Fin'])>>)
View == SId
=====================================================================
