SPECIFICATION Spec
CONSTANTS Pipes = {1}
          Chars = {"a", "b"}
          Topics <- TopicsSmall
          MaxMsgs = 2
          MaxOps = 1
          MaxCap = 2
          ClearOnPurge = TRUE
INVARIANTS GotOrdered QueueMatches Bounded NoLostWakeup PollR
VIEW View
