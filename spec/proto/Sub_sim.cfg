SPECIFICATION Spec
CONSTANTS Pipes = {1, 2}
          Chars = {"a", "b"}
          Topics <- TopicsFull
          MaxMsgs = 8
          MaxOps = 3
          MaxCap = 3
          ClearOnPurge = TRUE
INVARIANTS GotOrdered QueueMatches Bounded NoLostWakeup PollR
ACTION_CONSTRAINT ExportEdge
