---------------------------- MODULE Survey ----------------------------
(* SURVEYOR socket with contexts (src/sp/protocol/survey0/survey.c), macro steps through the harness transport,
   virtual time.   C07 (surveyor side), C15, C03.

   The driver plays the respondents: it sees every survey on the wire with its id and injects responses of every
   class: for the current survey of a context, for a superseded one, with an unknown id, with the survey bit cleared,
   too short.  Survey ids are abstract: a survey is named by its body tag; the driver translates. *)
EXTENDS Naturals, Sequences, FiniteSets, TLC, Json

CONSTANTS Pipes, MaxMsgs, MaxOps, MaxNow, Ticks, STimes,
          SendCap,         \* per-pipe queue of surveys waiting for the transport (8)
          RecvCap,         \* per-context queue of responses (128)
          Focus,           \* "all", or "sendq": only sends, connections and the wire (simulation that fills the per-pipe queues)
          FlushOnNew       \* TRUE: a new survey discards the queued responses of the old one (the code); FALSE: mutant for the invariant

Ctxs == {0, 1}
VARIABLES
  up, used, porder,       \* attached pipes; porder: in the order they were attached (surv0_sock.pipes)
  wire, sq,               \* per pipe: survey parked in the transport send (<<>> or <<tag>>), surveys queued behind it
  open1,
  sid, expire, stime,     \* per context: tag of the live survey (0: none), its deadline, NNG_OPT_SURVEYOR_SURVEYTIME
  rq,                     \* per context: queued responses
  rwait,                  \* per context: pending receives in order: [op, dl]
  old,                    \* per context: tag of the previous survey
  now, readable,
  known,                  \* ghost: survey tags the respondents have seen
  answers,                \* ghost: response m -> [ctx, tag] it answers (only for well-formed responses to a known survey)
  delivered,              \* ghost: [ctx, m, sid, now, exp] at the moment a response is handed to the application
  ops, nextMsg, doneV, lastAct

vars == <<up, used, porder, wire, sq, open1, sid, expire, stime, rq, rwait, old, now, readable, known, answers, delivered, ops, nextMsg, doneV, lastAct>>
SeqSet(s) == {s[i] : i \in 1..Len(s)}
Remove(s, x) == SelectSeq(s, LAMBDA y : y # x)
NOps == Len(ops)
Live(c) == c = 0 \/ open1
Inf == 9999

Init ==
  /\ up = {} /\ used = {} /\ porder = <<>> /\ wire = [p \in Pipes |-> <<>>] /\ sq = [p \in Pipes |-> <<>>] /\ open1 = FALSE
  /\ sid = [c \in Ctxs |-> 0] /\ expire = [c \in Ctxs |-> 0] /\ stime = [c \in Ctxs |-> 1000] /\ rq = [c \in Ctxs |-> <<>>]
  /\ rwait = [c \in Ctxs |-> <<>>] /\ old = [c \in Ctxs |-> 0] /\ now = 100 /\ readable = FALSE /\ known = {} /\ answers = <<>>
  /\ delivered = <<>> /\ ops = <<>> /\ nextMsg = 101 /\ doneV = <<>> /\ lastAct = [a |-> "init"]

S0 == [wire |-> wire, sq |-> sq, sid |-> sid, expire |-> expire, rq |-> rq, rwait |-> rwait, old |-> old, readable |-> readable,
       delivered |-> delivered, ops |-> ops, porder |-> porder, done |-> {}]
Fin(S, k, rv, m) == [S EXCEPT !.ops = [@ EXCEPT ![k] = "done"],
                              !.done = @ \cup {IF rv = "ok" /\ m # 0 THEN [op |-> k, rv |-> rv, m |-> m] ELSE [op |-> k, rv |-> rv]}]
SortDone(D) == LET RECURSIVE F(_) F(X) == IF X = {} THEN <<>> ELSE LET x == CHOOSE y \in X : \A z \in X : y.op <= z.op IN <<x>> \o F(X \ {x}) IN F(D)
Apply(S, a) ==
  /\ wire' = S.wire /\ sq' = S.sq /\ sid' = S.sid /\ expire' = S.expire /\ rq' = S.rq /\ rwait' = S.rwait /\ old' = S.old
  /\ readable' = S.readable /\ delivered' = S.delivered /\ ops' = S.ops /\ porder' = S.porder
  /\ doneV' = SortDone(S.done) /\ lastAct' = a
Deliver(S, c, m) == [S EXCEPT !.delivered = Append(@, [ctx |-> c, m |-> m, sid |-> S.sid[c], now |-> now, exp |-> S.expire[c]])]

\* surv0_ctx_abort
Abort(S, c, rv) ==
  LET RECURSIVE Each(_, _)
      Each(T, q) == IF q = <<>> THEN T ELSE Each(Fin(T, Head(q).op, rv, 0), Tail(q))
      A == Each(S, S.rwait[c])
  IN [A EXCEPT !.rwait = [@ EXCEPT ![c] = <<>>], !.rq = [@ EXCEPT ![c] = IF FlushOnNew THEN <<>> ELSE @],
               !.old = [@ EXCEPT ![c] = IF S.sid[c] # 0 THEN S.sid[c] ELSE @], !.sid = [@ EXCEPT ![c] = 0],
               !.readable = IF c = 0 THEN FALSE ELSE @]

\* ---------------------------------------------------------------- application
\* surv0_ctx_send: a new survey ends the old one; it is offered to every attached respondent and never blocks
Send(c, mode) ==
  /\ Live(c) /\ nextMsg <= 100 + MaxMsgs /\ (mode = "aio" => NOps < MaxOps)
  /\ LET m == nextMsg  k == NOps + 1
         A == IF mode = "aio" THEN [S0 EXCEPT !.ops = Append(@, "pend")] ELSE S0
         B == Abort(A, c, "ecanceled")
         RECURSIVE Fan(_, _)
         Fan(T, ps) == IF ps = <<>> THEN T ELSE
                         LET p == Head(ps) IN
                         Fan(IF T.wire[p] = <<>> THEN [T EXCEPT !.wire = [@ EXCEPT ![p] = <<m>>]]
                             ELSE IF Len(T.sq[p]) < SendCap THEN [T EXCEPT !.sq = [@ EXCEPT ![p] = Append(@, m)]]
                             ELSE T, Tail(ps))
         C == Fan([B EXCEPT !.sid = [@ EXCEPT ![c] = m], !.expire = [@ EXCEPT ![c] = now + stime[c]]], B.porder)
     IN IF mode = "nb" THEN Apply(C, [a |-> "send", mode |-> "nb", op |-> 0, m |-> m, ctx |-> c, out |-> [rv |-> "ok", done |-> <<>>]])
        ELSE Apply(Fin(C, k, "ok", 0), [a |-> "send", mode |-> "aio", op |-> k, m |-> m, ctx |-> c, out |-> [done |-> <<>>]])
  /\ nextMsg' = nextMsg + 1
  /\ UNCHANGED <<up, used, open1, stime, now, known, answers>>
\* surv0_ctx_recv.  tmo: the timeout of the operation ("nb": none, Inf, or milliseconds); never later than the survey's deadline
Recv(c, mode, tmo) ==
  /\ Live(c) /\ (mode # "nb" => NOps < MaxOps) /\ (mode = "nb" <=> tmo = 0)
  /\ LET k == NOps + 1
         A == IF mode # "nb" THEN [S0 EXCEPT !.ops = Append(@, "pend")] ELSE S0
         md == IF mode = "nb" THEN "nb" ELSE IF tmo = Inf THEN "aio" ELSE "t15"
         act(o) == IF mode = "nb" THEN [a |-> "recv", mode |-> "nb", op |-> 0, ctx |-> c, out |-> o]
                                  ELSE [a |-> "recv", mode |-> md, op |-> k, ctx |-> c, out |-> [done |-> <<>>]]
     IN IF A.sid[c] = 0 \/ now >= A.expire[c] THEN
           (IF mode = "nb" THEN Apply(A, act([rv |-> "estate", done |-> <<>>])) ELSE Apply(Fin(A, k, "estate", 0), act(0)))
        ELSE IF A.rq[c] # <<>> THEN
           LET m == Head(A.rq[c])
               B == Deliver([A EXCEPT !.rq = [@ EXCEPT ![c] = Tail(@)], !.readable = IF c = 0 THEN Tail(A.rq[c]) # <<>> ELSE @], c, m)
           IN IF mode = "nb" THEN Apply(B, act([rv |-> "ok", m |-> m, done |-> <<>>])) ELSE Apply(Fin(B, k, "ok", m), act(0))
        ELSE IF mode = "nb" THEN Apply(A, act([rv |-> "eagain", done |-> <<>>]))
        ELSE LET dl == IF tmo = Inf \/ now + tmo > A.expire[c] THEN A.expire[c] ELSE now + tmo
             IN Apply([A EXCEPT !.rwait = [@ EXCEPT ![c] = Append(@, [op |-> k, dl |-> dl])]], act(0))
  /\ UNCHANGED <<up, used, open1, stime, now, nextMsg, known, answers>>
\* nng_aio_cancel of a pending receive: the survey of that context ends with it (surv0_ctx_cancel)
Cancel(k) ==
  /\ k \in 1..NOps /\ ops[k] = "pend"
  /\ \E c \in Ctxs :
       /\ \E i \in 1..Len(rwait[c]) : rwait[c][i].op = k
       /\ LET A == [S0 EXCEPT !.rwait = [@ EXCEPT ![c] = SelectSeq(@, LAMBDA e : e.op # k)],
                              !.old = [@ EXCEPT ![c] = IF sid[c] # 0 THEN sid[c] ELSE @], !.sid = [@ EXCEPT ![c] = 0]]
          IN Apply(Fin(A, k, "ecanceled", 0), [a |-> "cancel", op |-> k, out |-> [done |-> <<>>]])
  /\ UNCHANGED <<up, used, open1, stime, now, nextMsg, known, answers>>
SetSTime(c, v) ==
  /\ Live(c) /\ v # stime[c] /\ stime' = [stime EXCEPT ![c] = v]
  /\ Apply(S0, [a |-> "ctxopt", ctx |-> c, name |-> "surveyor:survey-time", type |-> "ms", val |-> v, out |-> [rv |-> "ok"]])
  /\ UNCHANGED <<up, used, open1, now, nextMsg, known, answers>>
CtxOpen ==
  /\ ~open1 /\ open1' = TRUE /\ stime' = [stime EXCEPT ![1] = stime[0]]
  /\ Apply(S0, [a |-> "ctx_open", ctx |-> 1, out |-> [rv |-> "ok"]])
  /\ UNCHANGED <<up, used, now, nextMsg, known, answers>>

\* ---------------------------------------------------------------- respondents (environment)
Connect(p) ==
  /\ p \notin used /\ used' = used \cup {p} /\ up' = up \cup {p}
  /\ Apply([S0 EXCEPT !.porder = Append(@, p)], [a |-> "connect", p |-> p, out |-> [rv |-> "ok"]])
  /\ UNCHANGED <<open1, stime, now, nextMsg, known, answers>>
\* the respondent reads a survey: surv0_pipe_send_cb
Take(p) ==
  /\ p \in up /\ wire[p] # <<>>
  /\ LET A == IF sq[p] = <<>> THEN [S0 EXCEPT !.wire = [@ EXCEPT ![p] = <<>>]]
              ELSE [S0 EXCEPT !.wire = [@ EXCEPT ![p] = <<Head(sq[p])>>], !.sq = [@ EXCEPT ![p] = Tail(@)]]
     IN Apply(A, [a |-> "take", p |-> p, out |-> [hdr |-> <<"id">>, m |-> Head(wire[p])]])
  /\ known' = known \cup {Head(wire[p])}
  /\ UNCHANGED <<up, used, open1, stime, now, nextMsg, answers>>
\* a response arrives on p.  kind: "cur" (id of the live survey of c), "old" (of its previous survey), "unknown", "nobit"
Reply(p, kind, c) ==
  /\ p \in up /\ nextMsg <= 100 + MaxMsgs
  /\ (kind \in {"cur", "nobit"} => sid[c] # 0 /\ sid[c] \in known)
  /\ (kind = "old" => old[c] # 0 /\ old[c] # sid[c] /\ old[c] \in known)
  /\ (kind = "unknown" => c = 0)
  \* "unsent": the (predictable) id of a request of c that was allocated but never written: cancelled or superseded while
  \* it waited for a pipe
  /\ (kind = "unsent" => old[c] # 0 /\ old[c] # sid[c] /\ old[c] \notin known /\ known # {})
  /\ LET m == nextMsg
         A == IF kind # "cur" \/ Len(rq[c]) >= RecvCap THEN S0
              ELSE IF rwait[c] # <<>> THEN
                   Fin(Deliver([S0 EXCEPT !.rwait = [@ EXCEPT ![c] = Tail(@)]], c, m), Head(rwait[c]).op, "ok", m)
              ELSE [S0 EXCEPT !.rq = [@ EXCEPT ![c] = Append(@, m)], !.readable = IF c = 0 THEN TRUE ELSE @]
     IN Apply(A, [a |-> "inject", p |-> p, m |-> m, rkind |-> kind,
                  rtag |-> IF kind \in {"cur", "nobit"} THEN sid[c] ELSE IF kind \in {"old", "unsent"} THEN old[c] ELSE 0,
                  short |-> FALSE, out |-> [rv |-> "delivered"]])
  /\ answers' = Append(answers, [m |-> nextMsg, ctx |-> c, tag |-> IF kind = "cur" THEN sid[c] ELSE IF kind \in {"old", "unsent"} THEN old[c] ELSE 0])
  /\ nextMsg' = nextMsg + 1
  /\ UNCHANGED <<up, used, open1, stime, now, known>>
\* the respondent goes away, or sends a message without an id (the socket disconnects it): surv0_pipe_close
Lost(p, how) ==
  /\ p \in up /\ up' = up \ {p}
  /\ Apply([S0 EXCEPT !.wire = [@ EXCEPT ![p] = <<>>], !.sq = [@ EXCEPT ![p] = <<>>], !.porder = Remove(@, p)],
           IF how = "close" THEN [a |-> "peer_close", p |-> p]
           ELSE [a |-> "inject", p |-> p, m |-> 0, rkind |-> "short", rtag |-> 0, short |-> TRUE, out |-> [rv |-> "delivered"]])
  /\ UNCHANGED <<used, open1, stime, now, nextMsg, known, answers>>
\* time passes: receives whose deadline is reached fail with NNG_ETIMEDOUT, and the survey of that context ends
Advance(d) ==
  /\ now + d <= MaxNow /\ now' = now + d
  /\ LET t == now + d
         RECURSIVE EachC(_, _)
         EachC(S, cs) ==
           IF cs = {} THEN S ELSE
           LET c == CHOOSE x \in cs : TRUE
               due == SelectSeq(S.rwait[c], LAMBDA e : e.dl < t)     \* (the expire thread fires strictly after the deadline)
               RECURSIVE F(_, _)
               F(T, q) == IF q = <<>> THEN T ELSE F(Fin(T, Head(q).op, "etimedout", 0), Tail(q))
               A == IF due = <<>> THEN S
                    ELSE [F(S, due) EXCEPT !.rwait = [@ EXCEPT ![c] = SelectSeq(@, LAMBDA e : e.dl >= t)],
                                           !.old = [@ EXCEPT ![c] = IF S.sid[c] # 0 THEN S.sid[c] ELSE @], !.sid = [@ EXCEPT ![c] = 0]]
           IN EachC(A, cs \ {c})
     IN Apply(EachC(S0, Ctxs), [a |-> "tick", d |-> d, out |-> [done |-> <<>>]])
  /\ UNCHANGED <<up, used, open1, stime, nextMsg, known, answers>>

\* Focus = "sendq": surveys piling up behind a respondent that does not read: the per-pipe queue fills (SendCap) and further
\* surveys are dropped for it
All == Focus = "all"
Next == \/ (\E c \in Ctxs : Send(c, "nb") \/ Send(c, "aio"))
        \/ (All /\ \E c \in Ctxs : Recv(c, "nb", 0) \/ Recv(c, "aio", Inf) \/ Recv(c, "aio", 15))
        \/ (All /\ \E k \in 1..MaxOps : Cancel(k)) \/ CtxOpen
        \/ (All /\ \E c \in Ctxs, v \in STimes : SetSTime(c, v))
        \/ (\E p \in Pipes : Connect(p) \/ ((All \/ p = 1) /\ Take(p)) \/ ((All \/ nextMsg > 118) /\ Lost(p, "close")) \/ (All /\ Lost(p, "short"))
                             \/ (All /\ \E c \in Ctxs, kd \in {"cur", "old", "unknown", "nobit", "unsent"} : Reply(p, kd, c)))
        \/ (All /\ \E d \in Ticks : Advance(d))
Spec == Init /\ [][Next]_vars

\* ---------------------------------------------------------------- properties
AnswerOf(m) == LET i == CHOOSE j \in 1..Len(answers) : answers[j].m = m IN answers[i]
\* C07: every response handed to the application answers the survey that context had live at that moment (its own, most
\* recent survey), and is handed over before that survey's deadline
OnlyCurrentBeforeDeadline ==
  \A i \in 1..Len(delivered) : LET d == delivered[i] IN
     /\ d.sid # 0 /\ AnswerOf(d.m).tag = d.sid /\ AnswerOf(d.m).ctx = d.ctx /\ d.now <= d.exp
\* a pending receive never outlives the survey's deadline, and is gone once its deadline is reached
RecvBounded == \A c \in Ctxs : \A i \in 1..Len(rwait[c]) : rwait[c][i].dl >= now /\ (sid[c] # 0 => rwait[c][i].dl <= expire[c])
NoLostWakeup == \A c \in Ctxs : rwait[c] # <<>> => rq[c] = <<>>
QueueSound == \A c \in Ctxs : (sid[c] = 0 /\ FlushOnNew) => TRUE
PollR == readable <=> (rq[0] # <<>>)
WireSound == \A p \in Pipes : (sq[p] # <<>> => wire[p] # <<>>) /\ (p \notin up => wire[p] = <<>> /\ sq[p] = <<>>)

SId == <<up, used, porder, wire, sq, open1, sid, expire, stime, rq, rwait, old, now, readable, known, ops, nextMsg>>
WireObs == LET RECURSIVE F(_) F(S) == IF S = {} THEN <<>> ELSE LET p == CHOOSE x \in S : \A y \in S : x <= y IN
                  <<<<p, Len(wire[p]), 1>>>> \o F(S \ {p}) IN F(up)
Obs == [done |-> doneV, S_pend |-> {}, wire |-> WireObs, pollw |-> TRUE, pollr |-> readable]
FinV == 0
ExportEdge == PrintT(<<"E", ToJson([s |-> SId, sa |-> lastAct, d |-> SId', act |-> lastAct', obs |-> Obs', fin |-> FinV'])>>)
View == SId
=====================================================================
