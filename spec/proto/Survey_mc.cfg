SPECIFICATION Spec
CONSTANTS Pipes = {1, 2}
          MaxMsgs = 3
          MaxOps = 1
          MaxNow = 150
          Ticks = {10, 35}
          STimes = {40}
          SendCap = 8
          RecvCap = 128
          Focus = "all"
          FlushOnNew = TRUE
INVARIANTS OnlyCurrentBeforeDeadline RecvBounded NoLostWakeup PollR WireSound
VIEW View
