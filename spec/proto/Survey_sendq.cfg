SPECIFICATION Spec
CONSTANTS Pipes = {1, 2, 3}
          MaxMsgs = 26
          MaxOps = 26
          MaxNow = 400
          Ticks = {5, 10, 35}
          STimes = {40, 100}
          SendCap = 8
          RecvCap = 128
          Focus = "sendq"
          FlushOnNew = TRUE
INVARIANTS OnlyCurrentBeforeDeadline RecvBounded NoLostWakeup PollR WireSound
ACTION_CONSTRAINT ExportEdge
