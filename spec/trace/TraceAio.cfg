SPECIFICATION Spec
INVARIANTS AtMostOneOwed
CONSTRAINT Progress
POSTCONDITION ReportProgress
CHECK_DEADLOCK FALSE
