---------------------------- MODULE TraceAio ----------------------------
(* Trace validation of the NNG_VERIF aio trace points (H-AIO) against the aio state machine, one aio
   at a time.  tools/aiotrace.py splits a recorded trace by aio (lifetimes delimited by "init"),
   attaches the callback begin/end records of the aio's task, normalises every record to
        [e, a1, a2, a3, stop, abort, expg, sleep, xok, cfn, onx, res]
   and concatenates the lifetimes ("new" starts the next one).  Every record carries the aio's scalar
   state AFTER the step, so each step is checked in full: the logged post-state must be exactly what the
   critical section of aio.c produces from the state before, and C02's properties are evaluated at
   every step:
     - a completion (finish / failed start / sleep expiry) happens only for an outstanding operation:
       no second completion after nni_aio_start returned false, none after finish;
     - every callback begin is owed by exactly one completion (the task is never queued twice);
     - a timeout is taken only strictly after the deadline;
     - nni_aio_stop returns, and nni_aio_fini completes, only when no callback is owed or running and no
       operation is outstanding; stop/fini wait for an expiry in progress.
   Accepted iff all records are consumed (the invariant NotDone is then violated). *)
EXTENDS Naturals, Sequences, TLC, Json, IOUtils

VARIABLES l,          \* next record
          f,          \* [stop, abort, expg, sleep, xok, cfn, onx] as 0/1 and res
          active,     \* an operation is outstanding (started ok / sleeping, not yet completed)
          dead,       \* nni_aio_start returned false and that completion's callback has not finished yet
          owed,       \* completions whose callback has not begun
          incb,       \* callbacks running
          hascb       \* the aio has a completion callback (else completions run inline, unlogged)
vars == <<l, f, active, dead, owed, incb, hascb>>

T == ndJsonDeserialize(IOEnv.TRACE)
N == Len(T)

F0 == [stop |-> 0, abort |-> 0, expg |-> 0, sleep |-> 0, xok |-> 0, cfn |-> 0, onx |-> 0, res |-> 0]
Logged(r) == [stop |-> r.stop, abort |-> r.abort, expg |-> r.expg, sleep |-> r.sleep, xok |-> r.xok,
              cfn |-> r.cfn, onx |-> r.onx, res |-> r.res]
\* Code that runs without eq_mtx between operations changes some fields unlogged: nni_aio_reset (result, abort,
\* expire_ok, sleep := 0) and the prelude of nni_sleep_aio (sleep := 1, expire_ok := 0/1).  Any later record may
\* therefore see the state before it, or that state after such an unlogged change.
Reset(x) == [x EXCEPT !.abort = 0, !.res = 0, !.sleep = 0, !.xok = 0]
HavocSet(x) == {x, Reset(x), [Reset(x) EXCEPT !.sleep = 1, !.xok = 1], [Reset(x) EXCEPT !.sleep = 1, !.xok = 0]}
ESTOPPED == 999   \* tools/aiotrace.py maps NNG_ESTOPPED to 999, NNG_ETIMEDOUT to 5
ETIMEDOUT == 5

Init == l = 1 /\ f = F0 /\ active = FALSE /\ dead = FALSE /\ owed = 0 /\ incb = 0 /\ hascb = 1

Owe(n) == IF hascb = 1 THEN owed + n ELSE owed
R == T[l]
Ev(e) == l <= N /\ R.e = e /\ l' = l + 1
Same == UNCHANGED <<f, active, dead, owed, incb, hascb>>

\* "new": the records of the next aio follow.  The previous one must be at rest if it was finalised.
New == /\ Ev("new")
       /\ f' = F0 /\ active' = FALSE /\ dead' = FALSE /\ owed' = 0 /\ incb' = 0 /\ hascb' = R.a1

\* nni_aio_start.  a1: 0 ok, 1 stopped, 2 aborted, 3 timedout.  Fields that unlogged, unlocked code
\* (nni_aio_reset, nni_sleep_aio, set_timeout) may have changed before are taken from the record.
Start ==
  /\ Ev("start")
  /\ ~active                                   \* never two operations at once
  /\ (R.a1 = 0 => f.cfn = 0)                    \* (asserted by the code for the ok path)
  /\ CASE R.a1 = 0 -> /\ f.stop = 0 /\ R.stop = 0 /\ R.abort = 0 /\ R.res = 0
                      /\ R.expg = f.expg
                      /\ (R.onx = 1 => R.cfn = 1)              \* expiry only with a cancel function
                      /\ active' = TRUE /\ dead' = FALSE /\ owed' = owed
       [] R.a1 = 1 -> /\ R.stop = 1 /\ R.res = ESTOPPED /\ R.sleep = 0 /\ R.xok = 0 /\ R.cfn = f.cfn /\ R.onx = f.onx
                      /\ active' = FALSE /\ dead' = (hascb = 1) /\ owed' = Owe(1)
       [] R.a1 = 2 -> /\ R.abort = 0 /\ R.stop = 0 /\ R.res # 0 /\ R.sleep = 0 /\ R.xok = 0 /\ R.cfn = f.cfn /\ R.onx = f.onx
                      /\ active' = FALSE /\ dead' = (hascb = 1) /\ owed' = Owe(1)
       [] R.a1 = 3 -> /\ R.stop = 0 /\ R.abort = 0 /\ R.res \in {ETIMEDOUT, 0} /\ R.sleep = 0 /\ R.xok = 0
                      /\ R.cfn = f.cfn /\ R.onx = f.onx
                      /\ active' = FALSE /\ dead' = (hascb = 1) /\ owed' = Owe(1)
  /\ f' = Logged(R)
  /\ UNCHANGED <<incb, hascb>>

\* nni_aio_finish_impl.  a1 = rv, a2 = skip callback, a3 = sync
Finish == \E g \in HavocSet(f) :
  /\ Ev("finish")
  /\ ~dead                                     \* the provider must not touch an aio after start returned false
  /\ R.cfn = 0 /\ R.onx = 0 /\ R.sleep = 0 /\ R.res = R.a1
  /\ R.stop = g.stop /\ R.abort = g.abort /\ R.expg = g.expg /\ R.xok = g.xok
  /\ f' = Logged(R)
  /\ active' = FALSE
  /\ owed' = IF R.a2 = 1 THEN owed ELSE Owe(1)
  /\ UNCHANGED <<dead, incb, hascb>>

\* nni_aio_abort.  a1 = rv, a2 = cancel function taken
Abort == \E g \in HavocSet(f) :
  /\ Ev("abort")
  /\ R.a2 = g.cfn                               \* the cancel function is taken iff one was installed
  /\ R.cfn = 0 /\ R.onx = 0
  /\ R.abort = (IF R.a2 = 1 THEN g.abort ELSE 1)
  /\ R.res = g.res                              \* a late abort does not disturb the result
  /\ R.stop = g.stop /\ R.expg = g.expg /\ R.sleep = g.sleep /\ R.xok = g.xok
  /\ f' = Logged(R)
  /\ UNCHANGED <<active, dead, owed, incb, hascb>>

\* nni_aio_stop / nni_aio_fini critical section (both wait for an expiry in progress first); nni_aio_close does not wait
StopLike(e, waits) == \E g \in HavocSet(f) :
  /\ Ev(e)
  /\ R.a1 = g.cfn
  /\ R.stop = 1 /\ R.cfn = 0 /\ R.onx = 0
  /\ (waits => R.expg = 0)
  /\ R.abort = g.abort /\ R.sleep = g.sleep /\ R.xok = g.xok /\ R.res = g.res
  /\ f' = Logged(R)
  /\ UNCHANGED <<active, dead, owed, incb, hascb>>
\* return of nni_aio_stop (after nni_aio_wait): nothing outstanding, owed or running
\* (incb may be 1 when stop is called from inside the aio's own callback chain: not done by nng)
\* (these three records are written after the waiting function returned, outside any lock: another thread
\*  may already have started the next operation, so they carry no obligation; the obligation sits on
\*  "wait_done", written under task_mtx at the instant the wait loop sees the task idle)
StopRet == Ev("stop_ret") /\ Same
FiniRet == Ev("fini_ret") /\ Same
WaitRet == Ev("wait_ret") /\ Same
StopWait == Ev("stop_wait") /\ Same
\* nni_task_wait / nni_task_fini saw task_busy = 0: nothing outstanding, owed or running
WaitDone == /\ Ev("wait_done") /\ ~active /\ owed = 0 /\ incb = 0 /\ Same

\* expire loop: take (a1 = now - a_expire, a2 = 1 when the queue is being stopped at nng_fini)
XTake == \E g \in HavocSet(f) :
         /\ Ev("xtake")
         /\ g.onx = 1 /\ g.expg = 0
         /\ (R.a2 = 0 => R.a1 > 0)              \* a timeout never fires before the deadline
         /\ R.onx = 0 /\ R.expg = 1
         /\ R.stop = g.stop /\ R.abort = g.abort /\ R.sleep = g.sleep /\ R.xok = g.xok /\ R.cfn = g.cfn /\ R.res = g.res
         /\ f' = Logged(R)
         /\ UNCHANGED <<active, dead, owed, incb, hascb>>
\* expire loop: fire (a1 = rv, a2 = cancel fn taken, a3 = was sleeping); logged before the sleep completion is applied
XFire == \E g \in HavocSet(f) :
         /\ Ev("xfire")
         /\ g.expg = 1
         /\ R.cfn = 0 /\ R.expg = 1 /\ R.onx = g.onx
         /\ R.a1 \in {0, ETIMEDOUT, ESTOPPED}
         /\ (R.a1 = 0 => g.xok = 1)             \* success by expiry only for a sleep that was allowed to expire
         /\ f' = IF R.a3 = 1 THEN [Logged(R) EXCEPT !.res = R.a1, !.sleep = 0] ELSE Logged(R)
         /\ active' = IF R.a3 = 1 THEN FALSE ELSE active
         /\ owed' = IF R.a3 = 1 THEN Owe(1) ELSE owed
         /\ UNCHANGED <<dead, incb, hascb>>
XDone == \E g \in HavocSet(f) :
         /\ Ev("xdone")
         /\ g.expg = 1 /\ R.expg = 0
         /\ f' = [g EXCEPT !.expg = 0, !.cfn = R.cfn, !.onx = R.onx, !.res = R.res, !.sleep = R.sleep, !.stop = R.stop,
                           !.abort = R.abort, !.xok = R.xok]
         /\ UNCHANGED <<active, dead, owed, incb, hascb>>

\* the task: callback begins (must be owed by a completion; at most one owed), ends
CbIn == /\ Ev("cb_in") /\ owed = 1 /\ owed' = 0 /\ incb' = incb + 1
        /\ UNCHANGED <<f, active, dead, hascb>>
CbOut == /\ Ev("cb_out") /\ incb >= 1 /\ incb' = incb - 1
         /\ dead' = FALSE
         /\ UNCHANGED <<f, active, owed, hascb>>

Next == \/ New \/ Start \/ Finish \/ Abort
        \/ StopLike("stop", TRUE) \/ StopLike("fini", TRUE) \/ StopLike("close", FALSE)
        \/ StopRet \/ FiniRet \/ WaitRet \/ StopWait \/ WaitDone
        \/ XTake \/ XFire \/ XDone \/ CbIn \/ CbOut
Spec == Init /\ [][Next]_vars

AtMostOneOwed == owed <= 1
NotDone == l <= N          \* violated exactly when the whole trace has been accepted
\* where the longest accepted prefix ends is reported through TLCSet/TLCGet register 1 (-workers 1)
Progress == TLCSet(1, l)
ReportProgress == PrintT(<<"MAXL", TLCGet(1), N>>)
=====================================================================
