---- MODULE TraceAio_TTrace_1790237703 ----
EXTENDS Sequences, TLCExt, TraceAio, Toolbox, Naturals, TLC

_expression ==
    LET TraceAio_TEExpression == INSTANCE TraceAio_TEExpression
    IN TraceAio_TEExpression!expression
----

_trace ==
    LET TraceAio_TETrace == INSTANCE TraceAio_TETrace
    IN TraceAio_TETrace!trace
----

_inv ==
    ~(
        TLCGet("level") = Len(_TETrace)
        /\
        owed = (0)
        /\
        incb = (0)
        /\
        f = ([stop |-> 0, abort |-> 0, expg |-> 1, sleep |-> 0, xok |-> 0, cfn |-> 1, onx |-> 0, res |-> 0])
        /\
        active = (TRUE)
        /\
        dead = (FALSE)
        /\
        l = (175)
        /\
        hascb = (0)
    )
----

_init ==
    /\ active = _TETrace[1].active
    /\ hascb = _TETrace[1].hascb
    /\ f = _TETrace[1].f
    /\ l = _TETrace[1].l
    /\ incb = _TETrace[1].incb
    /\ dead = _TETrace[1].dead
    /\ owed = _TETrace[1].owed
----

_next ==
    /\ \E i,j \in DOMAIN _TETrace:
        /\ \/ /\ j = i + 1
              /\ i = TLCGet("level")
        /\ active  = _TETrace[i].active
        /\ active' = _TETrace[j].active
        /\ hascb  = _TETrace[i].hascb
        /\ hascb' = _TETrace[j].hascb
        /\ f  = _TETrace[i].f
        /\ f' = _TETrace[j].f
        /\ l  = _TETrace[i].l
        /\ l' = _TETrace[j].l
        /\ incb  = _TETrace[i].incb
        /\ incb' = _TETrace[j].incb
        /\ dead  = _TETrace[i].dead
        /\ dead' = _TETrace[j].dead
        /\ owed  = _TETrace[i].owed
        /\ owed' = _TETrace[j].owed

\* Uncomment the ASSUME below to write the states of the error trace
\* to the given file in Json format. Note that you can pass any tuple
\* to `JsonSerialize`. For example, a sub-sequence of _TETrace.
    \* ASSUME
    \*     LET J == INSTANCE Json
    \*         IN J!JsonSerialize("TraceAio_TTrace_1790237703.json", _TETrace)

=============================================================================

 Note that you can extract this module `TraceAio_TEExpression`
  to a dedicated file to reuse `expression` (the module in the 
  dedicated `TraceAio_TEExpression.tla` file takes precedence 
  over the module `TraceAio_TEExpression` below).

---- MODULE TraceAio_TEExpression ----
EXTENDS Sequences, TLCExt, TraceAio, Toolbox, Naturals, TLC

expression == 
    [
        \* To hide variables of the `TraceAio` spec from the error trace,
        \* remove the variables below.  The trace will be written in the order
        \* of the fields of this record.
        active |-> active
        ,hascb |-> hascb
        ,f |-> f
        ,l |-> l
        ,incb |-> incb
        ,dead |-> dead
        ,owed |-> owed
        
        \* Put additional constant-, state-, and action-level expressions here:
        \* ,_stateNumber |-> _TEPosition
        \* ,_activeUnchanged |-> active = active'
        
        \* Format the `active` variable as Json value.
        \* ,_activeJson |->
        \*     LET J == INSTANCE Json
        \*     IN J!ToJson(active)
        
        \* Lastly, you may build expressions over arbitrary sets of states by
        \* leveraging the _TETrace operator.  For example, this is how to
        \* count the number of times a spec variable changed up to the current
        \* state in the trace.
        \* ,_activeModCount |->
        \*     LET F[s \in DOMAIN _TETrace] ==
        \*         IF s = 1 THEN 0
        \*         ELSE IF _TETrace[s].active # _TETrace[s-1].active
        \*             THEN 1 + F[s-1] ELSE F[s-1]
        \*     IN F[_TEPosition - 1]
    ]

=============================================================================



Parsing and semantic processing can take forever if the trace below is long.
 In this case, it is advised to uncomment the module below to deserialize the
 trace from a generated binary file.

\*
\*---- MODULE TraceAio_TETrace ----
\*EXTENDS IOUtils, TraceAio, TLC
\*
\*trace == IODeserialize("TraceAio_TTrace_1790237703.bin", TRUE)
\*
\*=============================================================================
\*

---- MODULE TraceAio_TETrace ----
EXTENDS TraceAio, TLC

trace == 
    <<
    ([owed |-> 0,incb |-> 0,f |-> [stop |-> 0, abort |-> 0, expg |-> 0, sleep |-> 0, xok |-> 0, cfn |-> 0, onx |-> 0, res |-> 0],active |-> FALSE,dead |-> FALSE,l |-> 1,hascb |-> 1]),
    ([owed |-> 0,incb |-> 0,f |-> [stop |-> 0, abort |-> 0, expg |-> 0, sleep |-> 0, xok |-> 0, cfn |-> 0, onx |-> 0, res |-> 0],active |-> FALSE,dead |-> FALSE,l |-> 2,hascb |-> 1]),
    ([owed |-> 0,incb |-> 0,f |-> [stop |-> 1, abort |-> 0, expg |-> 0, sleep |-> 0, xok |-> 0, cfn |-> 0, onx |-> 0, res |-> 0],active |-> FALSE,dead |-> FALSE,l |-> 3,hascb |-> 1]),
    ([owed |-> 0,incb |-> 0,f |-> [stop |-> 1, abort |-> 0, expg |-> 0, sleep |-> 0, xok |-> 0, cfn |-> 0, onx |-> 0, res |-> 0],active |-> FALSE,dead |-> FALSE,l |-> 4,hascb |-> 1]),
    ([owed |-> 0,incb |-> 0,f |-> [stop |-> 1, abort |-> 0, expg |-> 0, sleep |-> 0, xok |-> 0, cfn |-> 0, onx |-> 0, res |-> 0],active |-> FALSE,dead |-> FALSE,l |-> 5,hascb |-> 1]),
    ([owed |-> 0,incb |-> 0,f |-> [stop |-> 1, abort |-> 0, expg |-> 0, sleep |-> 0, xok |-> 0, cfn |-> 0, onx |-> 0, res |-> 0],active |-> FALSE,dead |-> FALSE,l |-> 6,hascb |-> 1]),
    ([owed |-> 0,incb |-> 0,f |-> [stop |-> 1, abort |-> 0, expg |-> 0, sleep |-> 0, xok |-> 0, cfn |-> 0, onx |-> 0, res |-> 0],active |-> FALSE,dead |-> FALSE,l |-> 7,hascb |-> 1]),
    ([owed |-> 0,incb |-> 0,f |-> [stop |-> 1, abort |-> 0, expg |-> 0, sleep |-> 0, xok |-> 0, cfn |-> 0, onx |-> 0, res |-> 0],active |-> FALSE,dead |-> FALSE,l |-> 8,hascb |-> 1]),
    ([owed |-> 0,incb |-> 0,f |-> [stop |-> 1, abort |-> 0, expg |-> 0, sleep |-> 0, xok |-> 0, cfn |-> 0, onx |-> 0, res |-> 0],active |-> FALSE,dead |-> FALSE,l |-> 9,hascb |-> 1]),
    ([owed |-> 0,incb |-> 0,f |-> [stop |-> 1, abort |-> 0, expg |-> 0, sleep |-> 0, xok |-> 0, cfn |-> 0, onx |-> 0, res |-> 0],active |-> FALSE,dead |-> FALSE,l |-> 10,hascb |-> 1]),
    ([owed |-> 0,incb |-> 0,f |-> [stop |-> 0, abort |-> 0, expg |-> 0, sleep |-> 0, xok |-> 0, cfn |-> 0, onx |-> 0, res |-> 0],active |-> FALSE,dead |-> FALSE,l |-> 11,hascb |-> 1]),
    ([owed |-> 0,incb |-> 0,f |-> [stop |-> 1, abort |-> 0, expg |-> 0, sleep |-> 0, xok |-> 0, cfn |-> 0, onx |-> 0, res |-> 0],active |-> FALSE,dead |-> FALSE,l |-> 12,hascb |-> 1]),
    ([owed |-> 0,incb |-> 0,f |-> [stop |-> 1, abort |-> 0, expg |-> 0, sleep |-> 0, xok |-> 0, cfn |-> 0, onx |-> 0, res |-> 0],active |-> FALSE,dead |-> FALSE,l |-> 13,hascb |-> 1]),
    ([owed |-> 0,incb |-> 0,f |-> [stop |-> 1, abort |-> 0, expg |-> 0, sleep |-> 0, xok |-> 0, cfn |-> 0, onx |-> 0, res |-> 0],active |-> FALSE,dead |-> FALSE,l |-> 14,hascb |-> 1]),
    ([owed |-> 0,incb |-> 0,f |-> [stop |-> 1, abort |-> 0, expg |-> 0, sleep |-> 0, xok |-> 0, cfn |-> 0, onx |-> 0, res |-> 0],active |-> FALSE,dead |-> FALSE,l |-> 15,hascb |-> 1]),
    ([owed |-> 0,incb |-> 0,f |-> [stop |-> 1, abort |-> 0, expg |-> 0, sleep |-> 0, xok |-> 0, cfn |-> 0, onx |-> 0, res |-> 0],active |-> FALSE,dead |-> FALSE,l |-> 16,hascb |-> 1]),
    ([owed |-> 0,incb |-> 0,f |-> [stop |-> 1, abort |-> 0, expg |-> 0, sleep |-> 0, xok |-> 0, cfn |-> 0, onx |-> 0, res |-> 0],active |-> FALSE,dead |-> FALSE,l |-> 17,hascb |-> 1]),
    ([owed |-> 0,incb |-> 0,f |-> [stop |-> 1, abort |-> 0, expg |-> 0, sleep |-> 0, xok |-> 0, cfn |-> 0, onx |-> 0, res |-> 0],active |-> FALSE,dead |-> FALSE,l |-> 18,hascb |-> 1]),
    ([owed |-> 0,incb |-> 0,f |-> [stop |-> 1, abort |-> 0, expg |-> 0, sleep |-> 0, xok |-> 0, cfn |-> 0, onx |-> 0, res |-> 0],active |-> FALSE,dead |-> FALSE,l |-> 19,hascb |-> 1]),
    ([owed |-> 0,incb |-> 0,f |-> [stop |-> 0, abort |-> 0, expg |-> 0, sleep |-> 0, xok |-> 0, cfn |-> 0, onx |-> 0, res |-> 0],active |-> FALSE,dead |-> FALSE,l |-> 20,hascb |-> 1]),
    ([owed |-> 0,incb |-> 0,f |-> [stop |-> 1, abort |-> 0, expg |-> 0, sleep |-> 0, xok |-> 0, cfn |-> 0, onx |-> 0, res |-> 0],active |-> FALSE,dead |-> FALSE,l |-> 21,hascb |-> 1]),
    ([owed |-> 0,incb |-> 0,f |-> [stop |-> 1, abort |-> 0, expg |-> 0, sleep |-> 0, xok |-> 0, cfn |-> 0, onx |-> 0, res |-> 0],active |-> FALSE,dead |-> FALSE,l |-> 22,hascb |-> 1]),
    ([owed |-> 0,incb |-> 0,f |-> [stop |-> 1, abort |-> 0, expg |-> 0, sleep |-> 0, xok |-> 0, cfn |-> 0, onx |-> 0, res |-> 0],active |-> FALSE,dead |-> FALSE,l |-> 23,hascb |-> 1]),
    ([owed |-> 0,incb |-> 0,f |-> [stop |-> 1, abort |-> 0, expg |-> 0, sleep |-> 0, xok |-> 0, cfn |-> 0, onx |-> 0, res |-> 0],active |-> FALSE,dead |-> FALSE,l |-> 24,hascb |-> 1]),
    ([owed |-> 0,incb |-> 0,f |-> [stop |-> 1, abort |-> 0, expg |-> 0, sleep |-> 0, xok |-> 0, cfn |-> 0, onx |-> 0, res |-> 0],active |-> FALSE,dead |-> FALSE,l |-> 25,hascb |-> 1]),
    ([owed |-> 0,incb |-> 0,f |-> [stop |-> 1, abort |-> 0, expg |-> 0, sleep |-> 0, xok |-> 0, cfn |-> 0, onx |-> 0, res |-> 0],active |-> FALSE,dead |-> FALSE,l |-> 26,hascb |-> 1]),
    ([owed |-> 0,incb |-> 0,f |-> [stop |-> 1, abort |-> 0, expg |-> 0, sleep |-> 0, xok |-> 0, cfn |-> 0, onx |-> 0, res |-> 0],active |-> FALSE,dead |-> FALSE,l |-> 27,hascb |-> 1]),
    ([owed |-> 0,incb |-> 0,f |-> [stop |-> 1, abort |-> 0, expg |-> 0, sleep |-> 0, xok |-> 0, cfn |-> 0, onx |-> 0, res |-> 0],active |-> FALSE,dead |-> FALSE,l |-> 28,hascb |-> 1]),
    ([owed |-> 0,incb |-> 0,f |-> [stop |-> 0, abort |-> 0, expg |-> 0, sleep |-> 0, xok |-> 0, cfn |-> 0, onx |-> 0, res |-> 0],active |-> FALSE,dead |-> FALSE,l |-> 29,hascb |-> 1]),
    ([owed |-> 0,incb |-> 0,f |-> [stop |-> 1, abort |-> 0, expg |-> 0, sleep |-> 0, xok |-> 0, cfn |-> 0, onx |-> 0, res |-> 0],active |-> FALSE,dead |-> FALSE,l |-> 30,hascb |-> 1]),
    ([owed |-> 0,incb |-> 0,f |-> [stop |-> 1, abort |-> 0, expg |-> 0, sleep |-> 0, xok |-> 0, cfn |-> 0, onx |-> 0, res |-> 0],active |-> FALSE,dead |-> FALSE,l |-> 31,hascb |-> 1]),
    ([owed |-> 0,incb |-> 0,f |-> [stop |-> 1, abort |-> 0, expg |-> 0, sleep |-> 0, xok |-> 0, cfn |-> 0, onx |-> 0, res |-> 0],active |-> FALSE,dead |-> FALSE,l |-> 32,hascb |-> 1]),
    ([owed |-> 0,incb |-> 0,f |-> [stop |-> 1, abort |-> 0, expg |-> 0, sleep |-> 0, xok |-> 0, cfn |-> 0, onx |-> 0, res |-> 0],active |-> FALSE,dead |-> FALSE,l |-> 33,hascb |-> 1]),
    ([owed |-> 0,incb |-> 0,f |-> [stop |-> 1, abort |-> 0, expg |-> 0, sleep |-> 0, xok |-> 0, cfn |-> 0, onx |-> 0, res |-> 0],active |-> FALSE,dead |-> FALSE,l |-> 34,hascb |-> 1]),
    ([owed |-> 0,incb |-> 0,f |-> [stop |-> 1, abort |-> 0, expg |-> 0, sleep |-> 0, xok |-> 0, cfn |-> 0, onx |-> 0, res |-> 0],active |-> FALSE,dead |-> FALSE,l |-> 35,hascb |-> 1]),
    ([owed |-> 0,incb |-> 0,f |-> [stop |-> 1, abort |-> 0, expg |-> 0, sleep |-> 0, xok |-> 0, cfn |-> 0, onx |-> 0, res |-> 0],active |-> FALSE,dead |-> FALSE,l |-> 36,hascb |-> 1]),
    ([owed |-> 0,incb |-> 0,f |-> [stop |-> 1, abort |-> 0, expg |-> 0, sleep |-> 0, xok |-> 0, cfn |-> 0, onx |-> 0, res |-> 0],active |-> FALSE,dead |-> FALSE,l |-> 37,hascb |-> 1]),
    ([owed |-> 0,incb |-> 0,f |-> [stop |-> 0, abort |-> 0, expg |-> 0, sleep |-> 0, xok |-> 0, cfn |-> 0, onx |-> 0, res |-> 0],active |-> FALSE,dead |-> FALSE,l |-> 38,hascb |-> 0]),
    ([owed |-> 0,incb |-> 0,f |-> [stop |-> 0, abort |-> 0, expg |-> 0, sleep |-> 0, xok |-> 0, cfn |-> 0, onx |-> 0, res |-> 11],active |-> FALSE,dead |-> FALSE,l |-> 39,hascb |-> 0]),
    ([owed |-> 0,incb |-> 0,f |-> [stop |-> 1, abort |-> 0, expg |-> 0, sleep |-> 0, xok |-> 0, cfn |-> 0, onx |-> 0, res |-> 11],active |-> FALSE,dead |-> FALSE,l |-> 40,hascb |-> 0]),
    ([owed |-> 0,incb |-> 0,f |-> [stop |-> 1, abort |-> 0, expg |-> 0, sleep |-> 0, xok |-> 0, cfn |-> 0, onx |-> 0, res |-> 11],active |-> FALSE,dead |-> FALSE,l |-> 41,hascb |-> 0]),
    ([owed |-> 0,incb |-> 0,f |-> [stop |-> 1, abort |-> 0, expg |-> 0, sleep |-> 0, xok |-> 0, cfn |-> 0, onx |-> 0, res |-> 11],active |-> FALSE,dead |-> FALSE,l |-> 42,hascb |-> 0]),
    ([owed |-> 0,incb |-> 0,f |-> [stop |-> 0, abort |-> 0, expg |-> 0, sleep |-> 0, xok |-> 0, cfn |-> 0, onx |-> 0, res |-> 0],active |-> FALSE,dead |-> FALSE,l |-> 43,hascb |-> 1]),
    ([owed |-> 0,incb |-> 0,f |-> [stop |-> 1, abort |-> 0, expg |-> 0, sleep |-> 0, xok |-> 0, cfn |-> 0, onx |-> 0, res |-> 0],active |-> FALSE,dead |-> FALSE,l |-> 44,hascb |-> 1]),
    ([owed |-> 0,incb |-> 0,f |-> [stop |-> 1, abort |-> 0, expg |-> 0, sleep |-> 0, xok |-> 0, cfn |-> 0, onx |-> 0, res |-> 0],active |-> FALSE,dead |-> FALSE,l |-> 45,hascb |-> 1]),
    ([owed |-> 0,incb |-> 0,f |-> [stop |-> 1, abort |-> 0, expg |-> 0, sleep |-> 0, xok |-> 0, cfn |-> 0, onx |-> 0, res |-> 0],active |-> FALSE,dead |-> FALSE,l |-> 46,hascb |-> 1]),
    ([owed |-> 0,incb |-> 0,f |-> [stop |-> 1, abort |-> 0, expg |-> 0, sleep |-> 0, xok |-> 0, cfn |-> 0, onx |-> 0, res |-> 0],active |-> FALSE,dead |-> FALSE,l |-> 47,hascb |-> 1]),
    ([owed |-> 0,incb |-> 0,f |-> [stop |-> 1, abort |-> 0, expg |-> 0, sleep |-> 0, xok |-> 0, cfn |-> 0, onx |-> 0, res |-> 0],active |-> FALSE,dead |-> FALSE,l |-> 48,hascb |-> 1]),
    ([owed |-> 0,incb |-> 0,f |-> [stop |-> 1, abort |-> 0, expg |-> 0, sleep |-> 0, xok |-> 0, cfn |-> 0, onx |-> 0, res |-> 0],active |-> FALSE,dead |-> FALSE,l |-> 49,hascb |-> 1]),
    ([owed |-> 0,incb |-> 0,f |-> [stop |-> 1, abort |-> 0, expg |-> 0, sleep |-> 0, xok |-> 0, cfn |-> 0, onx |-> 0, res |-> 0],active |-> FALSE,dead |-> FALSE,l |-> 50,hascb |-> 1]),
    ([owed |-> 0,incb |-> 0,f |-> [stop |-> 1, abort |-> 0, expg |-> 0, sleep |-> 0, xok |-> 0, cfn |-> 0, onx |-> 0, res |-> 0],active |-> FALSE,dead |-> FALSE,l |-> 51,hascb |-> 1]),
    ([owed |-> 0,incb |-> 0,f |-> [stop |-> 0, abort |-> 0, expg |-> 0, sleep |-> 0, xok |-> 0, cfn |-> 0, onx |-> 0, res |-> 0],active |-> FALSE,dead |-> FALSE,l |-> 52,hascb |-> 0]),
    ([owed |-> 0,incb |-> 0,f |-> [stop |-> 0, abort |-> 0, expg |-> 0, sleep |-> 0, xok |-> 0, cfn |-> 0, onx |-> 0, res |-> 0],active |-> TRUE,dead |-> FALSE,l |-> 53,hascb |-> 0]),
    ([owed |-> 0,incb |-> 0,f |-> [stop |-> 0, abort |-> 0, expg |-> 0, sleep |-> 0, xok |-> 0, cfn |-> 0, onx |-> 0, res |-> 0],active |-> FALSE,dead |-> FALSE,l |-> 54,hascb |-> 0]),
    ([owed |-> 0,incb |-> 0,f |-> [stop |-> 0, abort |-> 0, expg |-> 0, sleep |-> 0, xok |-> 0, cfn |-> 0, onx |-> 0, res |-> 0],active |-> FALSE,dead |-> FALSE,l |-> 55,hascb |-> 0]),
    ([owed |-> 0,incb |-> 0,f |-> [stop |-> 0, abort |-> 0, expg |-> 0, sleep |-> 0, xok |-> 0, cfn |-> 0, onx |-> 0, res |-> 0],active |-> FALSE,dead |-> FALSE,l |-> 56,hascb |-> 0]),
    ([owed |-> 0,incb |-> 0,f |-> [stop |-> 1, abort |-> 0, expg |-> 0, sleep |-> 0, xok |-> 0, cfn |-> 0, onx |-> 0, res |-> 0],active |-> FALSE,dead |-> FALSE,l |-> 57,hascb |-> 0]),
    ([owed |-> 0,incb |-> 0,f |-> [stop |-> 1, abort |-> 0, expg |-> 0, sleep |-> 0, xok |-> 0, cfn |-> 0, onx |-> 0, res |-> 0],active |-> FALSE,dead |-> FALSE,l |-> 58,hascb |-> 0]),
    ([owed |-> 0,incb |-> 0,f |-> [stop |-> 1, abort |-> 0, expg |-> 0, sleep |-> 0, xok |-> 0, cfn |-> 0, onx |-> 0, res |-> 0],active |-> FALSE,dead |-> FALSE,l |-> 59,hascb |-> 0]),
    ([owed |-> 0,incb |-> 0,f |-> [stop |-> 0, abort |-> 0, expg |-> 0, sleep |-> 0, xok |-> 0, cfn |-> 0, onx |-> 0, res |-> 0],active |-> FALSE,dead |-> FALSE,l |-> 60,hascb |-> 0]),
    ([owed |-> 0,incb |-> 0,f |-> [stop |-> 0, abort |-> 0, expg |-> 0, sleep |-> 0, xok |-> 0, cfn |-> 0, onx |-> 0, res |-> 0],active |-> FALSE,dead |-> FALSE,l |-> 61,hascb |-> 0]),
    ([owed |-> 0,incb |-> 0,f |-> [stop |-> 1, abort |-> 0, expg |-> 0, sleep |-> 0, xok |-> 0, cfn |-> 0, onx |-> 0, res |-> 0],active |-> FALSE,dead |-> FALSE,l |-> 62,hascb |-> 0]),
    ([owed |-> 0,incb |-> 0,f |-> [stop |-> 1, abort |-> 0, expg |-> 0, sleep |-> 0, xok |-> 0, cfn |-> 0, onx |-> 0, res |-> 0],active |-> FALSE,dead |-> FALSE,l |-> 63,hascb |-> 0]),
    ([owed |-> 0,incb |-> 0,f |-> [stop |-> 1, abort |-> 0, expg |-> 0, sleep |-> 0, xok |-> 0, cfn |-> 0, onx |-> 0, res |-> 0],active |-> FALSE,dead |-> FALSE,l |-> 64,hascb |-> 0]),
    ([owed |-> 0,incb |-> 0,f |-> [stop |-> 0, abort |-> 0, expg |-> 0, sleep |-> 0, xok |-> 0, cfn |-> 0, onx |-> 0, res |-> 0],active |-> FALSE,dead |-> FALSE,l |-> 65,hascb |-> 0]),
    ([owed |-> 0,incb |-> 0,f |-> [stop |-> 0, abort |-> 0, expg |-> 0, sleep |-> 0, xok |-> 0, cfn |-> 1, onx |-> 0, res |-> 0],active |-> TRUE,dead |-> FALSE,l |-> 66,hascb |-> 0]),
    ([owed |-> 0,incb |-> 0,f |-> [stop |-> 0, abort |-> 0, expg |-> 0, sleep |-> 0, xok |-> 0, cfn |-> 0, onx |-> 0, res |-> 0],active |-> FALSE,dead |-> FALSE,l |-> 67,hascb |-> 0]),
    ([owed |-> 0,incb |-> 0,f |-> [stop |-> 0, abort |-> 0, expg |-> 0, sleep |-> 0, xok |-> 0, cfn |-> 0, onx |-> 0, res |-> 0],active |-> FALSE,dead |-> FALSE,l |-> 68,hascb |-> 0]),
    ([owed |-> 0,incb |-> 0,f |-> [stop |-> 0, abort |-> 0, expg |-> 0, sleep |-> 0, xok |-> 0, cfn |-> 0, onx |-> 0, res |-> 0],active |-> FALSE,dead |-> FALSE,l |-> 69,hascb |-> 0]),
    ([owed |-> 0,incb |-> 0,f |-> [stop |-> 1, abort |-> 0, expg |-> 0, sleep |-> 0, xok |-> 0, cfn |-> 0, onx |-> 0, res |-> 0],active |-> FALSE,dead |-> FALSE,l |-> 70,hascb |-> 0]),
    ([owed |-> 0,incb |-> 0,f |-> [stop |-> 1, abort |-> 0, expg |-> 0, sleep |-> 0, xok |-> 0, cfn |-> 0, onx |-> 0, res |-> 0],active |-> FALSE,dead |-> FALSE,l |-> 71,hascb |-> 0]),
    ([owed |-> 0,incb |-> 0,f |-> [stop |-> 1, abort |-> 0, expg |-> 0, sleep |-> 0, xok |-> 0, cfn |-> 0, onx |-> 0, res |-> 0],active |-> FALSE,dead |-> FALSE,l |-> 72,hascb |-> 0]),
    ([owed |-> 0,incb |-> 0,f |-> [stop |-> 0, abort |-> 0, expg |-> 0, sleep |-> 0, xok |-> 0, cfn |-> 0, onx |-> 0, res |-> 0],active |-> FALSE,dead |-> FALSE,l |-> 73,hascb |-> 0]),
    ([owed |-> 0,incb |-> 0,f |-> [stop |-> 0, abort |-> 0, expg |-> 0, sleep |-> 0, xok |-> 0, cfn |-> 1, onx |-> 1, res |-> 0],active |-> TRUE,dead |-> FALSE,l |-> 74,hascb |-> 0]),
    ([owed |-> 0,incb |-> 0,f |-> [stop |-> 0, abort |-> 0, expg |-> 0, sleep |-> 0, xok |-> 0, cfn |-> 0, onx |-> 0, res |-> 0],active |-> FALSE,dead |-> FALSE,l |-> 75,hascb |-> 0]),
    ([owed |-> 0,incb |-> 0,f |-> [stop |-> 0, abort |-> 0, expg |-> 0, sleep |-> 0, xok |-> 0, cfn |-> 0, onx |-> 0, res |-> 0],active |-> FALSE,dead |-> FALSE,l |-> 76,hascb |-> 0]),
    ([owed |-> 0,incb |-> 0,f |-> [stop |-> 0, abort |-> 0, expg |-> 0, sleep |-> 0, xok |-> 0, cfn |-> 0, onx |-> 0, res |-> 0],active |-> FALSE,dead |-> FALSE,l |-> 77,hascb |-> 0]),
    ([owed |-> 0,incb |-> 0,f |-> [stop |-> 1, abort |-> 0, expg |-> 0, sleep |-> 0, xok |-> 0, cfn |-> 0, onx |-> 0, res |-> 0],active |-> FALSE,dead |-> FALSE,l |-> 78,hascb |-> 0]),
    ([owed |-> 0,incb |-> 0,f |-> [stop |-> 1, abort |-> 0, expg |-> 0, sleep |-> 0, xok |-> 0, cfn |-> 0, onx |-> 0, res |-> 0],active |-> FALSE,dead |-> FALSE,l |-> 79,hascb |-> 0]),
    ([owed |-> 0,incb |-> 0,f |-> [stop |-> 1, abort |-> 0, expg |-> 0, sleep |-> 0, xok |-> 0, cfn |-> 0, onx |-> 0, res |-> 0],active |-> FALSE,dead |-> FALSE,l |-> 80,hascb |-> 0]),
    ([owed |-> 0,incb |-> 0,f |-> [stop |-> 0, abort |-> 0, expg |-> 0, sleep |-> 0, xok |-> 0, cfn |-> 0, onx |-> 0, res |-> 0],active |-> FALSE,dead |-> FALSE,l |-> 81,hascb |-> 1]),
    ([owed |-> 0,incb |-> 0,f |-> [stop |-> 0, abort |-> 0, expg |-> 0, sleep |-> 0, xok |-> 0, cfn |-> 1, onx |-> 0, res |-> 0],active |-> TRUE,dead |-> FALSE,l |-> 82,hascb |-> 1]),
    ([owed |-> 1,incb |-> 0,f |-> [stop |-> 0, abort |-> 0, expg |-> 0, sleep |-> 0, xok |-> 0, cfn |-> 0, onx |-> 0, res |-> 0],active |-> FALSE,dead |-> FALSE,l |-> 83,hascb |-> 1]),
    ([owed |-> 0,incb |-> 1,f |-> [stop |-> 0, abort |-> 0, expg |-> 0, sleep |-> 0, xok |-> 0, cfn |-> 0, onx |-> 0, res |-> 0],active |-> FALSE,dead |-> FALSE,l |-> 84,hascb |-> 1]),
    ([owed |-> 0,incb |-> 0,f |-> [stop |-> 0, abort |-> 0, expg |-> 0, sleep |-> 0, xok |-> 0, cfn |-> 0, onx |-> 0, res |-> 0],active |-> FALSE,dead |-> FALSE,l |-> 85,hascb |-> 1]),
    ([owed |-> 0,incb |-> 0,f |-> [stop |-> 1, abort |-> 0, expg |-> 0, sleep |-> 0, xok |-> 0, cfn |-> 0, onx |-> 0, res |-> 0],active |-> FALSE,dead |-> FALSE,l |-> 86,hascb |-> 1]),
    ([owed |-> 0,incb |-> 0,f |-> [stop |-> 1, abort |-> 0, expg |-> 0, sleep |-> 0, xok |-> 0, cfn |-> 0, onx |-> 0, res |-> 0],active |-> FALSE,dead |-> FALSE,l |-> 87,hascb |-> 1]),
    ([owed |-> 0,incb |-> 0,f |-> [stop |-> 1, abort |-> 0, expg |-> 0, sleep |-> 0, xok |-> 0, cfn |-> 0, onx |-> 0, res |-> 0],active |-> FALSE,dead |-> FALSE,l |-> 88,hascb |-> 1]),
    ([owed |-> 0,incb |-> 0,f |-> [stop |-> 1, abort |-> 0, expg |-> 0, sleep |-> 0, xok |-> 0, cfn |-> 0, onx |-> 0, res |-> 0],active |-> FALSE,dead |-> FALSE,l |-> 89,hascb |-> 1]),
    ([owed |-> 0,incb |-> 0,f |-> [stop |-> 1, abort |-> 0, expg |-> 0, sleep |-> 0, xok |-> 0, cfn |-> 0, onx |-> 0, res |-> 0],active |-> FALSE,dead |-> FALSE,l |-> 90,hascb |-> 1]),
    ([owed |-> 0,incb |-> 0,f |-> [stop |-> 1, abort |-> 0, expg |-> 0, sleep |-> 0, xok |-> 0, cfn |-> 0, onx |-> 0, res |-> 0],active |-> FALSE,dead |-> FALSE,l |-> 91,hascb |-> 1]),
    ([owed |-> 0,incb |-> 0,f |-> [stop |-> 1, abort |-> 0, expg |-> 0, sleep |-> 0, xok |-> 0, cfn |-> 0, onx |-> 0, res |-> 0],active |-> FALSE,dead |-> FALSE,l |-> 92,hascb |-> 1]),
    ([owed |-> 0,incb |-> 0,f |-> [stop |-> 1, abort |-> 0, expg |-> 0, sleep |-> 0, xok |-> 0, cfn |-> 0, onx |-> 0, res |-> 0],active |-> FALSE,dead |-> FALSE,l |-> 93,hascb |-> 1]),
    ([owed |-> 0,incb |-> 0,f |-> [stop |-> 1, abort |-> 0, expg |-> 0, sleep |-> 0, xok |-> 0, cfn |-> 0, onx |-> 0, res |-> 0],active |-> FALSE,dead |-> FALSE,l |-> 94,hascb |-> 1]),
    ([owed |-> 0,incb |-> 0,f |-> [stop |-> 0, abort |-> 0, expg |-> 0, sleep |-> 0, xok |-> 0, cfn |-> 0, onx |-> 0, res |-> 0],active |-> FALSE,dead |-> FALSE,l |-> 95,hascb |-> 1]),
    ([owed |-> 0,incb |-> 0,f |-> [stop |-> 0, abort |-> 0, expg |-> 0, sleep |-> 0, xok |-> 0, cfn |-> 1, onx |-> 0, res |-> 0],active |-> TRUE,dead |-> FALSE,l |-> 96,hascb |-> 1]),
    ([owed |-> 1,incb |-> 0,f |-> [stop |-> 0, abort |-> 0, expg |-> 0, sleep |-> 0, xok |-> 0, cfn |-> 0, onx |-> 0, res |-> 0],active |-> FALSE,dead |-> FALSE,l |-> 97,hascb |-> 1]),
    ([owed |-> 0,incb |-> 1,f |-> [stop |-> 0, abort |-> 0, expg |-> 0, sleep |-> 0, xok |-> 0, cfn |-> 0, onx |-> 0, res |-> 0],active |-> FALSE,dead |-> FALSE,l |-> 98,hascb |-> 1]),
    ([owed |-> 0,incb |-> 0,f |-> [stop |-> 0, abort |-> 0, expg |-> 0, sleep |-> 0, xok |-> 0, cfn |-> 0, onx |-> 0, res |-> 0],active |-> FALSE,dead |-> FALSE,l |-> 99,hascb |-> 1]),
    ([owed |-> 0,incb |-> 0,f |-> [stop |-> 1, abort |-> 0, expg |-> 0, sleep |-> 0, xok |-> 0, cfn |-> 0, onx |-> 0, res |-> 0],active |-> FALSE,dead |-> FALSE,l |-> 100,hascb |-> 1]),
    ([owed |-> 0,incb |-> 0,f |-> [stop |-> 1, abort |-> 0, expg |-> 0, sleep |-> 0, xok |-> 0, cfn |-> 0, onx |-> 0, res |-> 0],active |-> FALSE,dead |-> FALSE,l |-> 101,hascb |-> 1]),
    ([owed |-> 0,incb |-> 0,f |-> [stop |-> 1, abort |-> 0, expg |-> 0, sleep |-> 0, xok |-> 0, cfn |-> 0, onx |-> 0, res |-> 0],active |-> FALSE,dead |-> FALSE,l |-> 102,hascb |-> 1]),
    ([owed |-> 0,incb |-> 0,f |-> [stop |-> 1, abort |-> 0, expg |-> 0, sleep |-> 0, xok |-> 0, cfn |-> 0, onx |-> 0, res |-> 0],active |-> FALSE,dead |-> FALSE,l |-> 103,hascb |-> 1]),
    ([owed |-> 0,incb |-> 0,f |-> [stop |-> 1, abort |-> 0, expg |-> 0, sleep |-> 0, xok |-> 0, cfn |-> 0, onx |-> 0, res |-> 0],active |-> FALSE,dead |-> FALSE,l |-> 104,hascb |-> 1]),
    ([owed |-> 0,incb |-> 0,f |-> [stop |-> 1, abort |-> 0, expg |-> 0, sleep |-> 0, xok |-> 0, cfn |-> 0, onx |-> 0, res |-> 0],active |-> FALSE,dead |-> FALSE,l |-> 105,hascb |-> 1]),
    ([owed |-> 0,incb |-> 0,f |-> [stop |-> 1, abort |-> 0, expg |-> 0, sleep |-> 0, xok |-> 0, cfn |-> 0, onx |-> 0, res |-> 0],active |-> FALSE,dead |-> FALSE,l |-> 106,hascb |-> 1]),
    ([owed |-> 0,incb |-> 0,f |-> [stop |-> 1, abort |-> 0, expg |-> 0, sleep |-> 0, xok |-> 0, cfn |-> 0, onx |-> 0, res |-> 0],active |-> FALSE,dead |-> FALSE,l |-> 107,hascb |-> 1]),
    ([owed |-> 0,incb |-> 0,f |-> [stop |-> 1, abort |-> 0, expg |-> 0, sleep |-> 0, xok |-> 0, cfn |-> 0, onx |-> 0, res |-> 0],active |-> FALSE,dead |-> FALSE,l |-> 108,hascb |-> 1]),
    ([owed |-> 0,incb |-> 0,f |-> [stop |-> 0, abort |-> 0, expg |-> 0, sleep |-> 0, xok |-> 0, cfn |-> 0, onx |-> 0, res |-> 0],active |-> FALSE,dead |-> FALSE,l |-> 109,hascb |-> 1]),
    ([owed |-> 0,incb |-> 0,f |-> [stop |-> 0, abort |-> 0, expg |-> 0, sleep |-> 0, xok |-> 0, cfn |-> 1, onx |-> 0, res |-> 0],active |-> TRUE,dead |-> FALSE,l |-> 110,hascb |-> 1]),
    ([owed |-> 1,incb |-> 0,f |-> [stop |-> 0, abort |-> 0, expg |-> 0, sleep |-> 0, xok |-> 0, cfn |-> 0, onx |-> 0, res |-> 0],active |-> FALSE,dead |-> FALSE,l |-> 111,hascb |-> 1]),
    ([owed |-> 0,incb |-> 1,f |-> [stop |-> 0, abort |-> 0, expg |-> 0, sleep |-> 0, xok |-> 0, cfn |-> 0, onx |-> 0, res |-> 0],active |-> FALSE,dead |-> FALSE,l |-> 112,hascb |-> 1]),
    ([owed |-> 0,incb |-> 0,f |-> [stop |-> 0, abort |-> 0, expg |-> 0, sleep |-> 0, xok |-> 0, cfn |-> 0, onx |-> 0, res |-> 0],active |-> FALSE,dead |-> FALSE,l |-> 113,hascb |-> 1]),
    ([owed |-> 0,incb |-> 0,f |-> [stop |-> 0, abort |-> 0, expg |-> 0, sleep |-> 0, xok |-> 0, cfn |-> 1, onx |-> 0, res |-> 0],active |-> TRUE,dead |-> FALSE,l |-> 114,hascb |-> 1]),
    ([owed |-> 0,incb |-> 0,f |-> [stop |-> 1, abort |-> 0, expg |-> 0, sleep |-> 0, xok |-> 0, cfn |-> 0, onx |-> 0, res |-> 0],active |-> TRUE,dead |-> FALSE,l |-> 115,hascb |-> 1]),
    ([owed |-> 1,incb |-> 0,f |-> [stop |-> 1, abort |-> 0, expg |-> 0, sleep |-> 0, xok |-> 0, cfn |-> 0, onx |-> 0, res |-> 999],active |-> FALSE,dead |-> FALSE,l |-> 116,hascb |-> 1]),
    ([owed |-> 1,incb |-> 0,f |-> [stop |-> 1, abort |-> 0, expg |-> 0, sleep |-> 0, xok |-> 0, cfn |-> 0, onx |-> 0, res |-> 999],active |-> FALSE,dead |-> FALSE,l |-> 117,hascb |-> 1]),
    ([owed |-> 1,incb |-> 0,f |-> [stop |-> 1, abort |-> 0, expg |-> 0, sleep |-> 0, xok |-> 0, cfn |-> 0, onx |-> 0, res |-> 999],active |-> FALSE,dead |-> FALSE,l |-> 118,hascb |-> 1]),
    ([owed |-> 0,incb |-> 1,f |-> [stop |-> 1, abort |-> 0, expg |-> 0, sleep |-> 0, xok |-> 0, cfn |-> 0, onx |-> 0, res |-> 999],active |-> FALSE,dead |-> FALSE,l |-> 119,hascb |-> 1]),
    ([owed |-> 0,incb |-> 0,f |-> [stop |-> 1, abort |-> 0, expg |-> 0, sleep |-> 0, xok |-> 0, cfn |-> 0, onx |-> 0, res |-> 999],active |-> FALSE,dead |-> FALSE,l |-> 120,hascb |-> 1]),
    ([owed |-> 0,incb |-> 0,f |-> [stop |-> 1, abort |-> 0, expg |-> 0, sleep |-> 0, xok |-> 0, cfn |-> 0, onx |-> 0, res |-> 999],active |-> FALSE,dead |-> FALSE,l |-> 121,hascb |-> 1]),
    ([owed |-> 0,incb |-> 0,f |-> [stop |-> 1, abort |-> 0, expg |-> 0, sleep |-> 0, xok |-> 0, cfn |-> 0, onx |-> 0, res |-> 999],active |-> FALSE,dead |-> FALSE,l |-> 122,hascb |-> 1]),
    ([owed |-> 0,incb |-> 0,f |-> [stop |-> 1, abort |-> 0, expg |-> 0, sleep |-> 0, xok |-> 0, cfn |-> 0, onx |-> 0, res |-> 999],active |-> FALSE,dead |-> FALSE,l |-> 123,hascb |-> 1]),
    ([owed |-> 0,incb |-> 0,f |-> [stop |-> 1, abort |-> 0, expg |-> 0, sleep |-> 0, xok |-> 0, cfn |-> 0, onx |-> 0, res |-> 999],active |-> FALSE,dead |-> FALSE,l |-> 124,hascb |-> 1]),
    ([owed |-> 0,incb |-> 0,f |-> [stop |-> 1, abort |-> 0, expg |-> 0, sleep |-> 0, xok |-> 0, cfn |-> 0, onx |-> 0, res |-> 999],active |-> FALSE,dead |-> FALSE,l |-> 125,hascb |-> 1]),
    ([owed |-> 0,incb |-> 0,f |-> [stop |-> 1, abort |-> 0, expg |-> 0, sleep |-> 0, xok |-> 0, cfn |-> 0, onx |-> 0, res |-> 999],active |-> FALSE,dead |-> FALSE,l |-> 126,hascb |-> 1]),
    ([owed |-> 0,incb |-> 0,f |-> [stop |-> 0, abort |-> 0, expg |-> 0, sleep |-> 0, xok |-> 0, cfn |-> 0, onx |-> 0, res |-> 0],active |-> FALSE,dead |-> FALSE,l |-> 127,hascb |-> 1]),
    ([owed |-> 0,incb |-> 0,f |-> [stop |-> 0, abort |-> 0, expg |-> 0, sleep |-> 0, xok |-> 0, cfn |-> 1, onx |-> 0, res |-> 0],active |-> TRUE,dead |-> FALSE,l |-> 128,hascb |-> 1]),
    ([owed |-> 1,incb |-> 0,f |-> [stop |-> 0, abort |-> 0, expg |-> 0, sleep |-> 0, xok |-> 0, cfn |-> 0, onx |-> 0, res |-> 0],active |-> FALSE,dead |-> FALSE,l |-> 129,hascb |-> 1]),
    ([owed |-> 0,incb |-> 1,f |-> [stop |-> 0, abort |-> 0, expg |-> 0, sleep |-> 0, xok |-> 0, cfn |-> 0, onx |-> 0, res |-> 0],active |-> FALSE,dead |-> FALSE,l |-> 130,hascb |-> 1]),
    ([owed |-> 0,incb |-> 0,f |-> [stop |-> 0, abort |-> 0, expg |-> 0, sleep |-> 0, xok |-> 0, cfn |-> 0, onx |-> 0, res |-> 0],active |-> FALSE,dead |-> FALSE,l |-> 131,hascb |-> 1]),
    ([owed |-> 0,incb |-> 0,f |-> [stop |-> 1, abort |-> 0, expg |-> 0, sleep |-> 0, xok |-> 0, cfn |-> 0, onx |-> 0, res |-> 0],active |-> FALSE,dead |-> FALSE,l |-> 132,hascb |-> 1]),
    ([owed |-> 0,incb |-> 0,f |-> [stop |-> 1, abort |-> 0, expg |-> 0, sleep |-> 0, xok |-> 0, cfn |-> 0, onx |-> 0, res |-> 0],active |-> FALSE,dead |-> FALSE,l |-> 133,hascb |-> 1]),
    ([owed |-> 0,incb |-> 0,f |-> [stop |-> 1, abort |-> 0, expg |-> 0, sleep |-> 0, xok |-> 0, cfn |-> 0, onx |-> 0, res |-> 0],active |-> FALSE,dead |-> FALSE,l |-> 134,hascb |-> 1]),
    ([owed |-> 0,incb |-> 0,f |-> [stop |-> 1, abort |-> 0, expg |-> 0, sleep |-> 0, xok |-> 0, cfn |-> 0, onx |-> 0, res |-> 0],active |-> FALSE,dead |-> FALSE,l |-> 135,hascb |-> 1]),
    ([owed |-> 0,incb |-> 0,f |-> [stop |-> 1, abort |-> 0, expg |-> 0, sleep |-> 0, xok |-> 0, cfn |-> 0, onx |-> 0, res |-> 0],active |-> FALSE,dead |-> FALSE,l |-> 136,hascb |-> 1]),
    ([owed |-> 0,incb |-> 0,f |-> [stop |-> 1, abort |-> 0, expg |-> 0, sleep |-> 0, xok |-> 0, cfn |-> 0, onx |-> 0, res |-> 0],active |-> FALSE,dead |-> FALSE,l |-> 137,hascb |-> 1]),
    ([owed |-> 0,incb |-> 0,f |-> [stop |-> 1, abort |-> 0, expg |-> 0, sleep |-> 0, xok |-> 0, cfn |-> 0, onx |-> 0, res |-> 0],active |-> FALSE,dead |-> FALSE,l |-> 138,hascb |-> 1]),
    ([owed |-> 0,incb |-> 0,f |-> [stop |-> 1, abort |-> 0, expg |-> 0, sleep |-> 0, xok |-> 0, cfn |-> 0, onx |-> 0, res |-> 0],active |-> FALSE,dead |-> FALSE,l |-> 139,hascb |-> 1]),
    ([owed |-> 0,incb |-> 0,f |-> [stop |-> 1, abort |-> 0, expg |-> 0, sleep |-> 0, xok |-> 0, cfn |-> 0, onx |-> 0, res |-> 0],active |-> FALSE,dead |-> FALSE,l |-> 140,hascb |-> 1]),
    ([owed |-> 0,incb |-> 0,f |-> [stop |-> 0, abort |-> 0, expg |-> 0, sleep |-> 0, xok |-> 0, cfn |-> 0, onx |-> 0, res |-> 0],active |-> FALSE,dead |-> FALSE,l |-> 141,hascb |-> 1]),
    ([owed |-> 0,incb |-> 0,f |-> [stop |-> 0, abort |-> 0, expg |-> 0, sleep |-> 0, xok |-> 0, cfn |-> 1, onx |-> 0, res |-> 0],active |-> TRUE,dead |-> FALSE,l |-> 142,hascb |-> 1]),
    ([owed |-> 1,incb |-> 0,f |-> [stop |-> 0, abort |-> 0, expg |-> 0, sleep |-> 0, xok |-> 0, cfn |-> 0, onx |-> 0, res |-> 0],active |-> FALSE,dead |-> FALSE,l |-> 143,hascb |-> 1]),
    ([owed |-> 0,incb |-> 1,f |-> [stop |-> 0, abort |-> 0, expg |-> 0, sleep |-> 0, xok |-> 0, cfn |-> 0, onx |-> 0, res |-> 0],active |-> FALSE,dead |-> FALSE,l |-> 144,hascb |-> 1]),
    ([owed |-> 0,incb |-> 0,f |-> [stop |-> 0, abort |-> 0, expg |-> 0, sleep |-> 0, xok |-> 0, cfn |-> 0, onx |-> 0, res |-> 0],active |-> FALSE,dead |-> FALSE,l |-> 145,hascb |-> 1]),
    ([owed |-> 0,incb |-> 0,f |-> [stop |-> 0, abort |-> 0, expg |-> 0, sleep |-> 0, xok |-> 0, cfn |-> 1, onx |-> 0, res |-> 0],active |-> TRUE,dead |-> FALSE,l |-> 146,hascb |-> 1]),
    ([owed |-> 1,incb |-> 0,f |-> [stop |-> 0, abort |-> 0, expg |-> 0, sleep |-> 0, xok |-> 0, cfn |-> 0, onx |-> 0, res |-> 7],active |-> FALSE,dead |-> FALSE,l |-> 147,hascb |-> 1]),
    ([owed |-> 0,incb |-> 1,f |-> [stop |-> 0, abort |-> 0, expg |-> 0, sleep |-> 0, xok |-> 0, cfn |-> 0, onx |-> 0, res |-> 7],active |-> FALSE,dead |-> FALSE,l |-> 148,hascb |-> 1]),
    ([owed |-> 0,incb |-> 0,f |-> [stop |-> 0, abort |-> 0, expg |-> 0, sleep |-> 0, xok |-> 0, cfn |-> 0, onx |-> 0, res |-> 7],active |-> FALSE,dead |-> FALSE,l |-> 149,hascb |-> 1]),
    ([owed |-> 0,incb |-> 0,f |-> [stop |-> 1, abort |-> 0, expg |-> 0, sleep |-> 0, xok |-> 0, cfn |-> 0, onx |-> 0, res |-> 7],active |-> FALSE,dead |-> FALSE,l |-> 150,hascb |-> 1]),
    ([owed |-> 0,incb |-> 0,f |-> [stop |-> 1, abort |-> 0, expg |-> 0, sleep |-> 0, xok |-> 0, cfn |-> 0, onx |-> 0, res |-> 7],active |-> FALSE,dead |-> FALSE,l |-> 151,hascb |-> 1]),
    ([owed |-> 0,incb |-> 0,f |-> [stop |-> 1, abort |-> 0, expg |-> 0, sleep |-> 0, xok |-> 0, cfn |-> 0, onx |-> 0, res |-> 7],active |-> FALSE,dead |-> FALSE,l |-> 152,hascb |-> 1]),
    ([owed |-> 0,incb |-> 0,f |-> [stop |-> 1, abort |-> 0, expg |-> 0, sleep |-> 0, xok |-> 0, cfn |-> 0, onx |-> 0, res |-> 7],active |-> FALSE,dead |-> FALSE,l |-> 153,hascb |-> 1]),
    ([owed |-> 0,incb |-> 0,f |-> [stop |-> 1, abort |-> 0, expg |-> 0, sleep |-> 0, xok |-> 0, cfn |-> 0, onx |-> 0, res |-> 7],active |-> FALSE,dead |-> FALSE,l |-> 154,hascb |-> 1]),
    ([owed |-> 0,incb |-> 0,f |-> [stop |-> 1, abort |-> 0, expg |-> 0, sleep |-> 0, xok |-> 0, cfn |-> 0, onx |-> 0, res |-> 7],active |-> FALSE,dead |-> FALSE,l |-> 155,hascb |-> 1]),
    ([owed |-> 0,incb |-> 0,f |-> [stop |-> 1, abort |-> 0, expg |-> 0, sleep |-> 0, xok |-> 0, cfn |-> 0, onx |-> 0, res |-> 7],active |-> FALSE,dead |-> FALSE,l |-> 156,hascb |-> 1]),
    ([owed |-> 0,incb |-> 0,f |-> [stop |-> 1, abort |-> 0, expg |-> 0, sleep |-> 0, xok |-> 0, cfn |-> 0, onx |-> 0, res |-> 7],active |-> FALSE,dead |-> FALSE,l |-> 157,hascb |-> 1]),
    ([owed |-> 0,incb |-> 0,f |-> [stop |-> 1, abort |-> 0, expg |-> 0, sleep |-> 0, xok |-> 0, cfn |-> 0, onx |-> 0, res |-> 7],active |-> FALSE,dead |-> FALSE,l |-> 158,hascb |-> 1]),
    ([owed |-> 0,incb |-> 0,f |-> [stop |-> 0, abort |-> 0, expg |-> 0, sleep |-> 0, xok |-> 0, cfn |-> 0, onx |-> 0, res |-> 0],active |-> FALSE,dead |-> FALSE,l |-> 159,hascb |-> 1]),
    ([owed |-> 0,incb |-> 0,f |-> [stop |-> 0, abort |-> 0, expg |-> 0, sleep |-> 0, xok |-> 0, cfn |-> 1, onx |-> 0, res |-> 0],active |-> TRUE,dead |-> FALSE,l |-> 160,hascb |-> 1]),
    ([owed |-> 1,incb |-> 0,f |-> [stop |-> 0, abort |-> 0, expg |-> 0, sleep |-> 0, xok |-> 0, cfn |-> 0, onx |-> 0, res |-> 0],active |-> FALSE,dead |-> FALSE,l |-> 161,hascb |-> 1]),
    ([owed |-> 0,incb |-> 1,f |-> [stop |-> 0, abort |-> 0, expg |-> 0, sleep |-> 0, xok |-> 0, cfn |-> 0, onx |-> 0, res |-> 0],active |-> FALSE,dead |-> FALSE,l |-> 162,hascb |-> 1]),
    ([owed |-> 0,incb |-> 0,f |-> [stop |-> 0, abort |-> 0, expg |-> 0, sleep |-> 0, xok |-> 0, cfn |-> 0, onx |-> 0, res |-> 0],active |-> FALSE,dead |-> FALSE,l |-> 163,hascb |-> 1]),
    ([owed |-> 0,incb |-> 0,f |-> [stop |-> 1, abort |-> 0, expg |-> 0, sleep |-> 0, xok |-> 0, cfn |-> 0, onx |-> 0, res |-> 0],active |-> FALSE,dead |-> FALSE,l |-> 164,hascb |-> 1]),
    ([owed |-> 0,incb |-> 0,f |-> [stop |-> 1, abort |-> 0, expg |-> 0, sleep |-> 0, xok |-> 0, cfn |-> 0, onx |-> 0, res |-> 0],active |-> FALSE,dead |-> FALSE,l |-> 165,hascb |-> 1]),
    ([owed |-> 0,incb |-> 0,f |-> [stop |-> 1, abort |-> 0, expg |-> 0, sleep |-> 0, xok |-> 0, cfn |-> 0, onx |-> 0, res |-> 0],active |-> FALSE,dead |-> FALSE,l |-> 166,hascb |-> 1]),
    ([owed |-> 0,incb |-> 0,f |-> [stop |-> 1, abort |-> 0, expg |-> 0, sleep |-> 0, xok |-> 0, cfn |-> 0, onx |-> 0, res |-> 0],active |-> FALSE,dead |-> FALSE,l |-> 167,hascb |-> 1]),
    ([owed |-> 0,incb |-> 0,f |-> [stop |-> 1, abort |-> 0, expg |-> 0, sleep |-> 0, xok |-> 0, cfn |-> 0, onx |-> 0, res |-> 0],active |-> FALSE,dead |-> FALSE,l |-> 168,hascb |-> 1]),
    ([owed |-> 0,incb |-> 0,f |-> [stop |-> 1, abort |-> 0, expg |-> 0, sleep |-> 0, xok |-> 0, cfn |-> 0, onx |-> 0, res |-> 0],active |-> FALSE,dead |-> FALSE,l |-> 169,hascb |-> 1]),
    ([owed |-> 0,incb |-> 0,f |-> [stop |-> 1, abort |-> 0, expg |-> 0, sleep |-> 0, xok |-> 0, cfn |-> 0, onx |-> 0, res |-> 0],active |-> FALSE,dead |-> FALSE,l |-> 170,hascb |-> 1]),
    ([owed |-> 0,incb |-> 0,f |-> [stop |-> 1, abort |-> 0, expg |-> 0, sleep |-> 0, xok |-> 0, cfn |-> 0, onx |-> 0, res |-> 0],active |-> FALSE,dead |-> FALSE,l |-> 171,hascb |-> 1]),
    ([owed |-> 0,incb |-> 0,f |-> [stop |-> 1, abort |-> 0, expg |-> 0, sleep |-> 0, xok |-> 0, cfn |-> 0, onx |-> 0, res |-> 0],active |-> FALSE,dead |-> FALSE,l |-> 172,hascb |-> 1]),
    ([owed |-> 0,incb |-> 0,f |-> [stop |-> 0, abort |-> 0, expg |-> 0, sleep |-> 0, xok |-> 0, cfn |-> 0, onx |-> 0, res |-> 0],active |-> FALSE,dead |-> FALSE,l |-> 173,hascb |-> 0]),
    ([owed |-> 0,incb |-> 0,f |-> [stop |-> 0, abort |-> 0, expg |-> 0, sleep |-> 0, xok |-> 0, cfn |-> 1, onx |-> 1, res |-> 0],active |-> TRUE,dead |-> FALSE,l |-> 174,hascb |-> 0]),
    ([owed |-> 0,incb |-> 0,f |-> [stop |-> 0, abort |-> 0, expg |-> 1, sleep |-> 0, xok |-> 0, cfn |-> 1, onx |-> 0, res |-> 0],active |-> TRUE,dead |-> FALSE,l |-> 175,hascb |-> 0])
    >>
----


=============================================================================

---- CONFIG TraceAio_TTrace_1790237703 ----

INVARIANT
    _inv

CHECK_DEADLOCK
    \* CHECK_DEADLOCK off because of PROPERTY or INVARIANT above.
    FALSE

INIT
    _init

NEXT
    _next

CONSTANT
    _TETrace <- _trace

ALIAS
    _expression
=============================================================================
\* Generated on Thu Sep 24 08:15:06 UTC 2026