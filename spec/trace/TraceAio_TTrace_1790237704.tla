---- MODULE TraceAio_TTrace_1790237704 ----
EXTENDS Sequences, TLCExt, TraceAio, Toolbox, Naturals, TLC

_expression ==
    LET TraceAio_TEExpression == INSTANCE TraceAio_TEExpression
    IN TraceAio_TEExpression!expression
----

_trace ==
    LET TraceAio_TETrace == INSTANCE TraceAio_TETrace
    IN TraceAio_TETrace!trace
----

_inv ==
    ~(
        TLCGet("level") = Len(_TETrace)
        /\
        owed = ()
        /\
        incb = ()
        /\
        f = ([stop |-> 0, abort |-> 0, expg |-> 1, sleep |-> 0, xok |-> 0, cfn |-> 0, onx |-> 0, res |-> 0])
        /\
        active = ()
        /\
        dead = ()
        /\
        l = (610)
        /\
        hascb = ()
    )
----

_init ==
    /\ active = _TETrace[1].active
    /\ hascb = _TETrace[1].hascb
    /\ f = _TETrace[1].f
    /\ l = _TETrace[1].l
    /\ incb = _TETrace[1].incb
    /\ dead = _TETrace[1].dead
    /\ owed = _TETrace[1].owed
----

_next ==
    /\ \E i,j \in DOMAIN _TETrace:
        /\ \/ /\ j = i + 1
              /\ i = TLCGet("level")
        /\ active  = _TETrace[i].active
        /\ active' = _TETrace[j].active
        /\ hascb  = _TETrace[i].hascb
        /\ hascb' = _TETrace[j].hascb
        /\ f  = _TETrace[i].f
        /\ f' = _TETrace[j].f
        /\ l  = _TETrace[i].l
        /\ l' = _TETrace[j].l
        /\ incb  = _TETrace[i].incb
        /\ incb' = _TETrace[j].incb
        /\ dead  = _TETrace[i].dead
        /\ dead' = _TETrace[j].dead
        /\ owed  = _TETrace[i].owed
        /\ owed' = _TETrace[j].owed

\* Uncomment the ASSUME below to write the states of the error trace
\* to the given file in Json format. Note that you can pass any tuple
\* to `JsonSerialize`. For example, a sub-sequence of _TETrace.
    \* ASSUME
    \*     LET J == INSTANCE Json
    \*         IN J!JsonSerialize("TraceAio_TTrace_1790237704.json", _TETrace)

=============================================================================

 Note that you can extract this module `TraceAio_TEExpression`
  to a dedicated file to reuse `expression` (the module in the 
  dedicated `TraceAio_TEExpression.tla` file takes precedence 
  over the module `TraceAio_TEExpression` below).

---- MODULE TraceAio_TEExpression ----
EXTENDS Sequences, TLCExt, TraceAio, Toolbox, Naturals, TLC

expression == 
    [
        \* To hide variables of the `TraceAio` spec from the error trace,
        \* remove the variables below.  The trace will be written in the order
        \* of the fields of this record.
        active |-> active
        ,hascb |-> hascb
        ,f |-> f
        ,l |-> l
        ,incb |-> incb
        ,dead |-> dead
        ,owed |-> owed
        
        \* Put additional constant-, state-, and action-level expressions here:
        \* ,_stateNumber |-> _TEPosition
        \* ,_activeUnchanged |-> active = active'
        
        \* Format the `active` variable as Json value.
        \* ,_activeJson |->
        \*     LET J == INSTANCE Json
        \*     IN J!ToJson(active)
        
        \* Lastly, you may build expressions over arbitrary sets of states by
        \* leveraging the _TETrace operator.  For example, this is how to
        \* count the number of times a spec variable changed up to the current
        \* state in the trace.
        \* ,_activeModCount |->
        \*     LET F[s \in DOMAIN _TETrace] ==
        \*         IF s = 1 THEN 0
        \*         ELSE IF _TETrace[s].active # _TETrace[s-1].active
        \*             THEN 1 + F[s-1] ELSE F[s-1]
        \*     IN F[_TEPosition - 1]
    ]

=============================================================================



Parsing and semantic processing can take forever if the trace below is long.
 In this case, it is advised to uncomment the module below to deserialize the
 trace from a generated binary file.

\*
\*---- MODULE TraceAio_TETrace ----
\*EXTENDS IOUtils, TraceAio, TLC
\*
\*trace == IODeserialize("TraceAio_TTrace_1790237704.bin", TRUE)
\*
\*=============================================================================
\*

---- MODULE TraceAio_TETrace ----
EXTENDS TraceAio, TLC

trace == 
    <<
    ([owed |-> 0,incb |-> 0,f |-> [stop |-> 0, abort |-> 0, expg |-> 0, sleep |-> 0, xok |-> 0, cfn |-> 0, onx |-> 0, res |-> 0],active |-> FALSE,dead |-> FALSE,l |-> 1,hascb |-> 1]),
    ([owed |-> 0,incb |-> 0,f |-> [stop |-> 0, abort |-> 0, expg |-> 0, sleep |-> 0, xok |-> 0, cfn |-> 0, onx |-> 0, res |-> 0],active |-> FALSE,dead |-> FALSE,l |-> 2,hascb |-> 0]),
    ([owed |-> 0,incb |-> 0,f |-> [stop |-> 0, abort |-> 0, expg |-> 0, sleep |-> 0, xok |-> 0, cfn |-> 0, onx |-> 0, res |-> 9],active |-> FALSE,dead |-> FALSE,l |-> 3,hascb |-> 0]),
    ([owed |-> 0,incb |-> 0,f |-> [stop |-> 1, abort |-> 0, expg |-> 0, sleep |-> 0, xok |-> 0, cfn |-> 0, onx |-> 0, res |-> 9],active |-> FALSE,dead |-> FALSE,l |-> 4,hascb |-> 0]),
    ([owed |-> 0,incb |-> 0,f |-> [stop |-> 1, abort |-> 0, expg |-> 0, sleep |-> 0, xok |-> 0, cfn |-> 0, onx |-> 0, res |-> 9],active |-> FALSE,dead |-> FALSE,l |-> 5,hascb |-> 0]),
    ([owed |-> 0,incb |-> 0,f |-> [stop |-> 1, abort |-> 0, expg |-> 0, sleep |-> 0, xok |-> 0, cfn |-> 0, onx |-> 0, res |-> 9],active |-> FALSE,dead |-> FALSE,l |-> 6,hascb |-> 0]),
    ([owed |-> 0,incb |-> 0,f |-> [stop |-> 0, abort |-> 0, expg |-> 0, sleep |-> 0, xok |-> 0, cfn |-> 0, onx |-> 0, res |-> 0],active |-> FALSE,dead |-> FALSE,l |-> 7,hascb |-> 0]),
    ([owed |-> 0,incb |-> 0,f |-> [stop |-> 0, abort |-> 0, expg |-> 0, sleep |-> 0, xok |-> 0, cfn |-> 0, onx |-> 0, res |-> 0],active |-> TRUE,dead |-> FALSE,l |-> 8,hascb |-> 0]),
    ([owed |-> 0,incb |-> 0,f |-> [stop |-> 0, abort |-> 0, expg |-> 0, sleep |-> 0, xok |-> 0, cfn |-> 0, onx |-> 0, res |-> 0],active |-> FALSE,dead |-> FALSE,l |-> 9,hascb |-> 0]),
    ([owed |-> 0,incb |-> 0,f |-> [stop |-> 0, abort |-> 0, expg |-> 0, sleep |-> 0, xok |-> 0, cfn |-> 0, onx |-> 0, res |-> 0],active |-> FALSE,dead |-> FALSE,l |-> 10,hascb |-> 0]),
    ([owed |-> 0,incb |-> 0,f |-> [stop |-> 0, abort |-> 0, expg |-> 0, sleep |-> 0, xok |-> 0, cfn |-> 0, onx |-> 0, res |-> 0],active |-> FALSE,dead |-> FALSE,l |-> 11,hascb |-> 0]),
    ([owed |-> 0,incb |-> 0,f |-> [stop |-> 1, abort |-> 0, expg |-> 0, sleep |-> 0, xok |-> 0, cfn |-> 0, onx |-> 0, res |-> 0],active |-> FALSE,dead |-> FALSE,l |-> 12,hascb |-> 0]),
    ([owed |-> 0,incb |-> 0,f |-> [stop |-> 1, abort |-> 0, expg |-> 0, sleep |-> 0, xok |-> 0, cfn |-> 0, onx |-> 0, res |-> 0],active |-> FALSE,dead |-> FALSE,l |-> 13,hascb |-> 0]),
    ([owed |-> 0,incb |-> 0,f |-> [stop |-> 1, abort |-> 0, expg |-> 0, sleep |-> 0, xok |-> 0, cfn |-> 0, onx |-> 0, res |-> 0],active |-> FALSE,dead |-> FALSE,l |-> 14,hascb |-> 0]),
    ([owed |-> 0,incb |-> 0,f |-> [stop |-> 0, abort |-> 0, expg |-> 0, sleep |-> 0, xok |-> 0, cfn |-> 0, onx |-> 0, res |-> 0],active |-> FALSE,dead |-> FALSE,l |-> 15,hascb |-> 0]),
    ([owed |-> 0,incb |-> 0,f |-> [stop |-> 0, abort |-> 0, expg |-> 0, sleep |-> 0, xok |-> 0, cfn |-> 0, onx |-> 0, res |-> 0],active |-> FALSE,dead |-> FALSE,l |-> 16,hascb |-> 0]),
    ([owed |-> 0,incb |-> 0,f |-> [stop |-> 1, abort |-> 0, expg |-> 0, sleep |-> 0, xok |-> 0, cfn |-> 0, onx |-> 0, res |-> 0],active |-> FALSE,dead |-> FALSE,l |-> 17,hascb |-> 0]),
    ([owed |-> 0,incb |-> 0,f |-> [stop |-> 1, abort |-> 0, expg |-> 0, sleep |-> 0, xok |-> 0, cfn |-> 0, onx |-> 0, res |-> 0],active |-> FALSE,dead |-> FALSE,l |-> 18,hascb |-> 0]),
    ([owed |-> 0,incb |-> 0,f |-> [stop |-> 1, abort |-> 0, expg |-> 0, sleep |-> 0, xok |-> 0, cfn |-> 0, onx |-> 0, res |-> 0],active |-> FALSE,dead |-> FALSE,l |-> 19,hascb |-> 0]),
    ([owed |-> 0,incb |-> 0,f |-> [stop |-> 0, abort |-> 0, expg |-> 0, sleep |-> 0, xok |-> 0, cfn |-> 0, onx |-> 0, res |-> 0],active |-> FALSE,dead |-> FALSE,l |-> 20,hascb |-> 0]),
    ([owed |-> 0,incb |-> 0,f |-> [stop |-> 0, abort |-> 0, expg |-> 0, sleep |-> 0, xok |-> 0, cfn |-> 1, onx |-> 1, res |-> 0],active |-> TRUE,dead |-> FALSE,l |-> 21,hascb |-> 0]),
    ([owed |-> 0,incb |-> 0,f |-> [stop |-> 0, abort |-> 0, expg |-> 0, sleep |-> 0, xok |-> 0, cfn |-> 0, onx |-> 0, res |-> 0],active |-> FALSE,dead |-> FALSE,l |-> 22,hascb |-> 0]),
    ([owed |-> 0,incb |-> 0,f |-> [stop |-> 0, abort |-> 0, expg |-> 0, sleep |-> 0, xok |-> 0, cfn |-> 0, onx |-> 0, res |-> 0],active |-> FALSE,dead |-> FALSE,l |-> 23,hascb |-> 0]),
    ([owed |-> 0,incb |-> 0,f |-> [stop |-> 0, abort |-> 0, expg |-> 0, sleep |-> 0, xok |-> 0, cfn |-> 0, onx |-> 0, res |-> 0],active |-> FALSE,dead |-> FALSE,l |-> 24,hascb |-> 0]),
    ([owed |-> 0,incb |-> 0,f |-> [stop |-> 1, abort |-> 0, expg |-> 0, sleep |-> 0, xok |-> 0, cfn |-> 0, onx |-> 0, res |-> 0],active |-> FALSE,dead |-> FALSE,l |-> 25,hascb |-> 0]),
    ([owed |-> 0,incb |-> 0,f |-> [stop |-> 1, abort |-> 0, expg |-> 0, sleep |-> 0, xok |-> 0, cfn |-> 0, onx |-> 0, res |-> 0],active |-> FALSE,dead |-> FALSE,l |-> 26,hascb |-> 0]),
    ([owed |-> 0,incb |-> 0,f |-> [stop |-> 1, abort |-> 0, expg |-> 0, sleep |-> 0, xok |-> 0, cfn |-> 0, onx |-> 0, res |-> 0],active |-> FALSE,dead |-> FALSE,l |-> 27,hascb |-> 0]),
    ([owed |-> 0,incb |-> 0,f |-> [stop |-> 0, abort |-> 0, expg |-> 0, sleep |-> 0, xok |-> 0, cfn |-> 0, onx |-> 0, res |-> 0],active |-> FALSE,dead |-> FALSE,l |-> 28,hascb |-> 0]),
    ([owed |-> 0,incb |-> 0,f |-> [stop |-> 0, abort |-> 0, expg |-> 0, sleep |-> 0, xok |-> 0, cfn |-> 0, onx |-> 0, res |-> 0],active |-> FALSE,dead |-> FALSE,l |-> 29,hascb |-> 0]),
    ([owed |-> 0,incb |-> 0,f |-> [stop |-> 1, abort |-> 0, expg |-> 0, sleep |-> 0, xok |-> 0, cfn |-> 0, onx |-> 0, res |-> 0],active |-> FALSE,dead |-> FALSE,l |-> 30,hascb |-> 0]),
    ([owed |-> 0,incb |-> 0,f |-> [stop |-> 1, abort |-> 0, expg |-> 0, sleep |-> 0, xok |-> 0, cfn |-> 0, onx |-> 0, res |-> 0],active |-> FALSE,dead |-> FALSE,l |-> 31,hascb |-> 0]),
    ([owed |-> 0,incb |-> 0,f |-> [stop |-> 1, abort |-> 0, expg |-> 0, sleep |-> 0, xok |-> 0, cfn |-> 0, onx |-> 0, res |-> 0],active |-> FALSE,dead |-> FALSE,l |-> 32,hascb |-> 0]),
    ([owed |-> 0,incb |-> 0,f |-> [stop |-> 0, abort |-> 0, expg |-> 0, sleep |-> 0, xok |-> 0, cfn |-> 0, onx |-> 0, res |-> 0],active |-> FALSE,dead |-> FALSE,l |-> 33,hascb |-> 1]),
    ([owed |-> 0,incb |-> 0,f |-> [stop |-> 0, abort |-> 0, expg |-> 0, sleep |-> 0, xok |-> 0, cfn |-> 1, onx |-> 0, res |-> 0],active |-> TRUE,dead |-> FALSE,l |-> 34,hascb |-> 1]),
    ([owed |-> 1,incb |-> 0,f |-> [stop |-> 0, abort |-> 0, expg |-> 0, sleep |-> 0, xok |-> 0, cfn |-> 0, onx |-> 0, res |-> 0],active |-> FALSE,dead |-> FALSE,l |-> 35,hascb |-> 1]),
    ([owed |-> 0,incb |-> 1,f |-> [stop |-> 0, abort |-> 0, expg |-> 0, sleep |-> 0, xok |-> 0, cfn |-> 0, onx |-> 0, res |-> 0],active |-> FALSE,dead |-> FALSE,l |-> 36,hascb |-> 1]),
    ([owed |-> 0,incb |-> 0,f |-> [stop |-> 0, abort |-> 0, expg |-> 0, sleep |-> 0, xok |-> 0, cfn |-> 0, onx |-> 0, res |-> 0],active |-> FALSE,dead |-> FALSE,l |-> 37,hascb |-> 1]),
    ([owed |-> 0,incb |-> 0,f |-> [stop |-> 0, abort |-> 0, expg |-> 0, sleep |-> 0, xok |-> 0, cfn |-> 1, onx |-> 0, res |-> 0],active |-> TRUE,dead |-> FALSE,l |-> 38,hascb |-> 1]),
    ([owed |-> 1,incb |-> 0,f |-> [stop |-> 0, abort |-> 0, expg |-> 0, sleep |-> 0, xok |-> 0, cfn |-> 0, onx |-> 0, res |-> 0],active |-> FALSE,dead |-> FALSE,l |-> 39,hascb |-> 1]),
    ([owed |-> 0,incb |-> 1,f |-> [stop |-> 0, abort |-> 0, expg |-> 0, sleep |-> 0, xok |-> 0, cfn |-> 0, onx |-> 0, res |-> 0],active |-> FALSE,dead |-> FALSE,l |-> 40,hascb |-> 1]),
    ([owed |-> 0,incb |-> 0,f |-> [stop |-> 0, abort |-> 0, expg |-> 0, sleep |-> 0, xok |-> 0, cfn |-> 0, onx |-> 0, res |-> 0],active |-> FALSE,dead |-> FALSE,l |-> 41,hascb |-> 1]),
    ([owed |-> 0,incb |-> 0,f |-> [stop |-> 1, abort |-> 0, expg |-> 0, sleep |-> 0, xok |-> 0, cfn |-> 0, onx |-> 0, res |-> 0],active |-> FALSE,dead |-> FALSE,l |-> 42,hascb |-> 1]),
    ([owed |-> 0,incb |-> 0,f |-> [stop |-> 1, abort |-> 0, expg |-> 0, sleep |-> 0, xok |-> 0, cfn |-> 0, onx |-> 0, res |-> 0],active |-> FALSE,dead |-> FALSE,l |-> 43,hascb |-> 1]),
    ([owed |-> 0,incb |-> 0,f |-> [stop |-> 1, abort |-> 0, expg |-> 0, sleep |-> 0, xok |-> 0, cfn |-> 0, onx |-> 0, res |-> 0],active |-> FALSE,dead |-> FALSE,l |-> 44,hascb |-> 1]),
    ([owed |-> 0,incb |-> 0,f |-> [stop |-> 1, abort |-> 0, expg |-> 0, sleep |-> 0, xok |-> 0, cfn |-> 0, onx |-> 0, res |-> 0],active |-> FALSE,dead |-> FALSE,l |-> 45,hascb |-> 1]),
    ([owed |-> 0,incb |-> 0,f |-> [stop |-> 1, abort |-> 0, expg |-> 0, sleep |-> 0, xok |-> 0, cfn |-> 0, onx |-> 0, res |-> 0],active |-> FALSE,dead |-> FALSE,l |-> 46,hascb |-> 1]),
    ([owed |-> 0,incb |-> 0,f |-> [stop |-> 1, abort |-> 0, expg |-> 0, sleep |-> 0, xok |-> 0, cfn |-> 0, onx |-> 0, res |-> 0],active |-> FALSE,dead |-> FALSE,l |-> 47,hascb |-> 1]),
    ([owed |-> 0,incb |-> 0,f |-> [stop |-> 1, abort |-> 0, expg |-> 0, sleep |-> 0, xok |-> 0, cfn |-> 0, onx |-> 0, res |-> 0],active |-> FALSE,dead |-> FALSE,l |-> 48,hascb |-> 1]),
    ([owed |-> 0,incb |-> 0,f |-> [stop |-> 1, abort |-> 0, expg |-> 0, sleep |-> 0, xok |-> 0, cfn |-> 0, onx |-> 0, res |-> 0],active |-> FALSE,dead |-> FALSE,l |-> 49,hascb |-> 1]),
    ([owed |-> 0,incb |-> 0,f |-> [stop |-> 1, abort |-> 0, expg |-> 0, sleep |-> 0, xok |-> 0, cfn |-> 0, onx |-> 0, res |-> 0],active |-> FALSE,dead |-> FALSE,l |-> 50,hascb |-> 1]),
    ([owed |-> 0,incb |-> 0,f |-> [stop |-> 0, abort |-> 0, expg |-> 0, sleep |-> 0, xok |-> 0, cfn |-> 0, onx |-> 0, res |-> 0],active |-> FALSE,dead |-> FALSE,l |-> 51,hascb |-> 1]),
    ([owed |-> 0,incb |-> 0,f |-> [stop |-> 0, abort |-> 0, expg |-> 0, sleep |-> 0, xok |-> 0, cfn |-> 1, onx |-> 0, res |-> 0],active |-> TRUE,dead |-> FALSE,l |-> 52,hascb |-> 1]),
    ([owed |-> 1,incb |-> 0,f |-> [stop |-> 0, abort |-> 0, expg |-> 0, sleep |-> 0, xok |-> 0, cfn |-> 0, onx |-> 0, res |-> 0],active |-> FALSE,dead |-> FALSE,l |-> 53,hascb |-> 1]),
    ([owed |-> 0,incb |-> 1,f |-> [stop |-> 0, abort |-> 0, expg |-> 0, sleep |-> 0, xok |-> 0, cfn |-> 0, onx |-> 0, res |-> 0],active |-> FALSE,dead |-> FALSE,l |-> 54,hascb |-> 1]),
    ([owed |-> 0,incb |-> 1,f |-> [stop |-> 0, abort |-> 0, expg |-> 0, sleep |-> 0, xok |-> 0, cfn |-> 1, onx |-> 0, res |-> 0],active |-> TRUE,dead |-> FALSE,l |-> 55,hascb |-> 1]),
    ([owed |-> 0,incb |-> 0,f |-> [stop |-> 0, abort |-> 0, expg |-> 0, sleep |-> 0, xok |-> 0, cfn |-> 1, onx |-> 0, res |-> 0],active |-> TRUE,dead |-> FALSE,l |-> 56,hascb |-> 1]),
    ([owed |-> 1,incb |-> 0,f |-> [stop |-> 0, abort |-> 0, expg |-> 0, sleep |-> 0, xok |-> 0, cfn |-> 0, onx |-> 0, res |-> 7],active |-> FALSE,dead |-> FALSE,l |-> 57,hascb |-> 1]),
    ([owed |-> 1,incb |-> 0,f |-> [stop |-> 1, abort |-> 0, expg |-> 0, sleep |-> 0, xok |-> 0, cfn |-> 0, onx |-> 0, res |-> 7],active |-> FALSE,dead |-> FALSE,l |-> 58,hascb |-> 1]),
    ([owed |-> 1,incb |-> 0,f |-> [stop |-> 1, abort |-> 0, expg |-> 0, sleep |-> 0, xok |-> 0, cfn |-> 0, onx |-> 0, res |-> 7],active |-> FALSE,dead |-> FALSE,l |-> 59,hascb |-> 1]),
    ([owed |-> 0,incb |-> 1,f |-> [stop |-> 1, abort |-> 0, expg |-> 0, sleep |-> 0, xok |-> 0, cfn |-> 0, onx |-> 0, res |-> 7],active |-> FALSE,dead |-> FALSE,l |-> 60,hascb |-> 1]),
    ([owed |-> 0,incb |-> 0,f |-> [stop |-> 1, abort |-> 0, expg |-> 0, sleep |-> 0, xok |-> 0, cfn |-> 0, onx |-> 0, res |-> 7],active |-> FALSE,dead |-> FALSE,l |-> 61,hascb |-> 1]),
    ([owed |-> 0,incb |-> 0,f |-> [stop |-> 1, abort |-> 0, expg |-> 0, sleep |-> 0, xok |-> 0, cfn |-> 0, onx |-> 0, res |-> 7],active |-> FALSE,dead |-> FALSE,l |-> 62,hascb |-> 1]),
    ([owed |-> 0,incb |-> 0,f |-> [stop |-> 1, abort |-> 0, expg |-> 0, sleep |-> 0, xok |-> 0, cfn |-> 0, onx |-> 0, res |-> 7],active |-> FALSE,dead |-> FALSE,l |-> 63,hascb |-> 1]),
    ([owed |-> 0,incb |-> 0,f |-> [stop |-> 1, abort |-> 0, expg |-> 0, sleep |-> 0, xok |-> 0, cfn |-> 0, onx |-> 0, res |-> 7],active |-> FALSE,dead |-> FALSE,l |-> 64,hascb |-> 1]),
    ([owed |-> 0,incb |-> 0,f |-> [stop |-> 1, abort |-> 0, expg |-> 0, sleep |-> 0, xok |-> 0, cfn |-> 0, onx |-> 0, res |-> 7],active |-> FALSE,dead |-> FALSE,l |-> 65,hascb |-> 1]),
    ([owed |-> 0,incb |-> 0,f |-> [stop |-> 1, abort |-> 0, expg |-> 0, sleep |-> 0, xok |-> 0, cfn |-> 0, onx |-> 0, res |-> 7],active |-> FALSE,dead |-> FALSE,l |-> 66,hascb |-> 1]),
    ([owed |-> 0,incb |-> 0,f |-> [stop |-> 1, abort |-> 0, expg |-> 0, sleep |-> 0, xok |-> 0, cfn |-> 0, onx |-> 0, res |-> 7],active |-> FALSE,dead |-> FALSE,l |-> 67,hascb |-> 1]),
    ([owed |-> 0,incb |-> 0,f |-> [stop |-> 0, abort |-> 0, expg |-> 0, sleep |-> 0, xok |-> 0, cfn |-> 0, onx |-> 0, res |-> 0],active |-> FALSE,dead |-> FALSE,l |-> 68,hascb |-> 1]),
    ([owed |-> 0,incb |-> 0,f |-> [stop |-> 1, abort |-> 0, expg |-> 0, sleep |-> 0, xok |-> 0, cfn |-> 0, onx |-> 0, res |-> 0],active |-> FALSE,dead |-> FALSE,l |-> 69,hascb |-> 1]),
    ([owed |-> 0,incb |-> 0,f |-> [stop |-> 1, abort |-> 0, expg |-> 0, sleep |-> 0, xok |-> 0, cfn |-> 0, onx |-> 0, res |-> 0],active |-> FALSE,dead |-> FALSE,l |-> 70,hascb |-> 1]),
    ([owed |-> 0,incb |-> 0,f |-> [stop |-> 1, abort |-> 0, expg |-> 0, sleep |-> 0, xok |-> 0, cfn |-> 0, onx |-> 0, res |-> 0],active |-> FALSE,dead |-> FALSE,l |-> 71,hascb |-> 1]),
    ([owed |-> 0,incb |-> 0,f |-> [stop |-> 1, abort |-> 0, expg |-> 0, sleep |-> 0, xok |-> 0, cfn |-> 0, onx |-> 0, res |-> 0],active |-> FALSE,dead |-> FALSE,l |-> 72,hascb |-> 1]),
    ([owed |-> 0,incb |-> 0,f |-> [stop |-> 1, abort |-> 0, expg |-> 0, sleep |-> 0, xok |-> 0, cfn |-> 0, onx |-> 0, res |-> 0],active |-> FALSE,dead |-> FALSE,l |-> 73,hascb |-> 1]),
    ([owed |-> 0,incb |-> 0,f |-> [stop |-> 1, abort |-> 0, expg |-> 0, sleep |-> 0, xok |-> 0, cfn |-> 0, onx |-> 0, res |-> 0],active |-> FALSE,dead |-> FALSE,l |-> 74,hascb |-> 1]),
    ([owed |-> 0,incb |-> 0,f |-> [stop |-> 1, abort |-> 0, expg |-> 0, sleep |-> 0, xok |-> 0, cfn |-> 0, onx |-> 0, res |-> 0],active |-> FALSE,dead |-> FALSE,l |-> 75,hascb |-> 1]),
    ([owed |-> 0,incb |-> 0,f |-> [stop |-> 1, abort |-> 0, expg |-> 0, sleep |-> 0, xok |-> 0, cfn |-> 0, onx |-> 0, res |-> 0],active |-> FALSE,dead |-> FALSE,l |-> 76,hascb |-> 1]),
    ([owed |-> 0,incb |-> 0,f |-> [stop |-> 0, abort |-> 0, expg |-> 0, sleep |-> 0, xok |-> 0, cfn |-> 0, onx |-> 0, res |-> 0],active |-> FALSE,dead |-> FALSE,l |-> 77,hascb |-> 1]),
    ([owed |-> 0,incb |-> 0,f |-> [stop |-> 0, abort |-> 0, expg |-> 0, sleep |-> 0, xok |-> 0, cfn |-> 1, onx |-> 0, res |-> 0],active |-> TRUE,dead |-> FALSE,l |-> 78,hascb |-> 1]),
    ([owed |-> 1,incb |-> 0,f |-> [stop |-> 0, abort |-> 0, expg |-> 0, sleep |-> 0, xok |-> 0, cfn |-> 0, onx |-> 0, res |-> 7],active |-> FALSE,dead |-> FALSE,l |-> 79,hascb |-> 1]),
    ([owed |-> 0,incb |-> 1,f |-> [stop |-> 0, abort |-> 0, expg |-> 0, sleep |-> 0, xok |-> 0, cfn |-> 0, onx |-> 0, res |-> 7],active |-> FALSE,dead |-> FALSE,l |-> 80,hascb |-> 1]),
    ([owed |-> 0,incb |-> 0,f |-> [stop |-> 0, abort |-> 0, expg |-> 0, sleep |-> 0, xok |-> 0, cfn |-> 0, onx |-> 0, res |-> 7],active |-> FALSE,dead |-> FALSE,l |-> 81,hascb |-> 1]),
    ([owed |-> 0,incb |-> 0,f |-> [stop |-> 1, abort |-> 0, expg |-> 0, sleep |-> 0, xok |-> 0, cfn |-> 0, onx |-> 0, res |-> 7],active |-> FALSE,dead |-> FALSE,l |-> 82,hascb |-> 1]),
    ([owed |-> 0,incb |-> 0,f |-> [stop |-> 1, abort |-> 0, expg |-> 0, sleep |-> 0, xok |-> 0, cfn |-> 0, onx |-> 0, res |-> 7],active |-> FALSE,dead |-> FALSE,l |-> 83,hascb |-> 1]),
    ([owed |-> 0,incb |-> 0,f |-> [stop |-> 1, abort |-> 0, expg |-> 0, sleep |-> 0, xok |-> 0, cfn |-> 0, onx |-> 0, res |-> 7],active |-> FALSE,dead |-> FALSE,l |-> 84,hascb |-> 1]),
    ([owed |-> 0,incb |-> 0,f |-> [stop |-> 1, abort |-> 0, expg |-> 0, sleep |-> 0, xok |-> 0, cfn |-> 0, onx |-> 0, res |-> 7],active |-> FALSE,dead |-> FALSE,l |-> 85,hascb |-> 1]),
    ([owed |-> 0,incb |-> 0,f |-> [stop |-> 1, abort |-> 0, expg |-> 0, sleep |-> 0, xok |-> 0, cfn |-> 0, onx |-> 0, res |-> 7],active |-> FALSE,dead |-> FALSE,l |-> 86,hascb |-> 1]),
    ([owed |-> 0,incb |-> 0,f |-> [stop |-> 1, abort |-> 0, expg |-> 0, sleep |-> 0, xok |-> 0, cfn |-> 0, onx |-> 0, res |-> 7],active |-> FALSE,dead |-> FALSE,l |-> 87,hascb |-> 1]),
    ([owed |-> 0,incb |-> 0,f |-> [stop |-> 1, abort |-> 0, expg |-> 0, sleep |-> 0, xok |-> 0, cfn |-> 0, onx |-> 0, res |-> 7],active |-> FALSE,dead |-> FALSE,l |-> 88,hascb |-> 1]),
    ([owed |-> 0,incb |-> 0,f |-> [stop |-> 1, abort |-> 0, expg |-> 0, sleep |-> 0, xok |-> 0, cfn |-> 0, onx |-> 0, res |-> 7],active |-> FALSE,dead |-> FALSE,l |-> 89,hascb |-> 1]),
    ([owed |-> 0,incb |-> 0,f |-> [stop |-> 1, abort |-> 0, expg |-> 0, sleep |-> 0, xok |-> 0, cfn |-> 0, onx |-> 0, res |-> 7],active |-> FALSE,dead |-> FALSE,l |-> 90,hascb |-> 1]),
    ([owed |-> 0,incb |-> 0,f |-> [stop |-> 0, abort |-> 0, expg |-> 0, sleep |-> 0, xok |-> 0, cfn |-> 0, onx |-> 0, res |-> 0],active |-> FALSE,dead |-> FALSE,l |-> 91,hascb |-> 1]),
    ([owed |-> 0,incb |-> 0,f |-> [stop |-> 0, abort |-> 0, expg |-> 0, sleep |-> 0, xok |-> 0, cfn |-> 1, onx |-> 0, res |-> 0],active |-> TRUE,dead |-> FALSE,l |-> 92,hascb |-> 1]),
    ([owed |-> 1,incb |-> 0,f |-> [stop |-> 0, abort |-> 0, expg |-> 0, sleep |-> 0, xok |-> 0, cfn |-> 0, onx |-> 0, res |-> 0],active |-> FALSE,dead |-> FALSE,l |-> 93,hascb |-> 1]),
    ([owed |-> 0,incb |-> 1,f |-> [stop |-> 0, abort |-> 0, expg |-> 0, sleep |-> 0, xok |-> 0, cfn |-> 0, onx |-> 0, res |-> 0],active |-> FALSE,dead |-> FALSE,l |-> 94,hascb |-> 1]),
    ([owed |-> 0,incb |-> 1,f |-> [stop |-> 0, abort |-> 0, expg |-> 0, sleep |-> 0, xok |-> 0, cfn |-> 1, onx |-> 0, res |-> 0],active |-> TRUE,dead |-> FALSE,l |-> 95,hascb |-> 1]),
    ([owed |-> 0,incb |-> 0,f |-> [stop |-> 0, abort |-> 0, expg |-> 0, sleep |-> 0, xok |-> 0, cfn |-> 1, onx |-> 0, res |-> 0],active |-> TRUE,dead |-> FALSE,l |-> 96,hascb |-> 1]),
    ([owed |-> 1,incb |-> 0,f |-> [stop |-> 0, abort |-> 0, expg |-> 0, sleep |-> 0, xok |-> 0, cfn |-> 0, onx |-> 0, res |-> 0],active |-> FALSE,dead |-> FALSE,l |-> 97,hascb |-> 1]),
    ([owed |-> 0,incb |-> 1,f |-> [stop |-> 0, abort |-> 0, expg |-> 0, sleep |-> 0, xok |-> 0, cfn |-> 0, onx |-> 0, res |-> 0],active |-> FALSE,dead |-> FALSE,l |-> 98,hascb |-> 1]),
    ([owed |-> 0,incb |-> 0,f |-> [stop |-> 0, abort |-> 0, expg |-> 0, sleep |-> 0, xok |-> 0, cfn |-> 0, onx |-> 0, res |-> 0],active |-> FALSE,dead |-> FALSE,l |-> 99,hascb |-> 1]),
    ([owed |-> 0,incb |-> 0,f |-> [stop |-> 1, abort |-> 0, expg |-> 0, sleep |-> 0, xok |-> 0, cfn |-> 0, onx |-> 0, res |-> 0],active |-> FALSE,dead |-> FALSE,l |-> 100,hascb |-> 1]),
    ([owed |-> 0,incb |-> 0,f |-> [stop |-> 1, abort |-> 0, expg |-> 0, sleep |-> 0, xok |-> 0, cfn |-> 0, onx |-> 0, res |-> 0],active |-> FALSE,dead |-> FALSE,l |-> 101,hascb |-> 1]),
    ([owed |-> 0,incb |-> 0,f |-> [stop |-> 1, abort |-> 0, expg |-> 0, sleep |-> 0, xok |-> 0, cfn |-> 0, onx |-> 0, res |-> 0],active |-> FALSE,dead |-> FALSE,l |-> 102,hascb |-> 1]),
    ([owed |-> 0,incb |-> 0,f |-> [stop |-> 1, abort |-> 0, expg |-> 0, sleep |-> 0, xok |-> 0, cfn |-> 0, onx |-> 0, res |-> 0],active |-> FALSE,dead |-> FALSE,l |-> 103,hascb |-> 1]),
    ([owed |-> 0,incb |-> 0,f |-> [stop |-> 1, abort |-> 0, expg |-> 0, sleep |-> 0, xok |-> 0, cfn |-> 0, onx |-> 0, res |-> 0],active |-> FALSE,dead |-> FALSE,l |-> 104,hascb |-> 1]),
    ([owed |-> 0,incb |-> 0,f |-> [stop |-> 1, abort |-> 0, expg |-> 0, sleep |-> 0, xok |-> 0, cfn |-> 0, onx |-> 0, res |-> 0],active |-> FALSE,dead |-> FALSE,l |-> 105,hascb |-> 1]),
    ([owed |-> 0,incb |-> 0,f |-> [stop |-> 1, abort |-> 0, expg |-> 0, sleep |-> 0, xok |-> 0, cfn |-> 0, onx |-> 0, res |-> 0],active |-> FALSE,dead |-> FALSE,l |-> 106,hascb |-> 1]),
    ([owed |-> 0,incb |-> 0,f |-> [stop |-> 1, abort |-> 0, expg |-> 0, sleep |-> 0, xok |-> 0, cfn |-> 0, onx |-> 0, res |-> 0],active |-> FALSE,dead |-> FALSE,l |-> 107,hascb |-> 1]),
    ([owed |-> 0,incb |-> 0,f |-> [stop |-> 1, abort |-> 0, expg |-> 0, sleep |-> 0, xok |-> 0, cfn |-> 0, onx |-> 0, res |-> 0],active |-> FALSE,dead |-> FALSE,l |-> 108,hascb |-> 1]),
    ([owed |-> 0,incb |-> 0,f |-> [stop |-> 0, abort |-> 0, expg |-> 0, sleep |-> 0, xok |-> 0, cfn |-> 0, onx |-> 0, res |-> 0],active |-> FALSE,dead |-> FALSE,l |-> 109,hascb |-> 1]),
    ([owed |-> 0,incb |-> 0,f |-> [stop |-> 0, abort |-> 0, expg |-> 0, sleep |-> 0, xok |-> 0, cfn |-> 1, onx |-> 0, res |-> 0],active |-> TRUE,dead |-> FALSE,l |-> 110,hascb |-> 1]),
    ([owed |-> 1,incb |-> 0,f |-> [stop |-> 0, abort |-> 0, expg |-> 0, sleep |-> 0, xok |-> 0, cfn |-> 0, onx |-> 0, res |-> 0],active |-> FALSE,dead |-> FALSE,l |-> 111,hascb |-> 1]),
    ([owed |-> 0,incb |-> 1,f |-> [stop |-> 0, abort |-> 0, expg |-> 0, sleep |-> 0, xok |-> 0, cfn |-> 0, onx |-> 0, res |-> 0],active |-> FALSE,dead |-> FALSE,l |-> 112,hascb |-> 1]),
    ([owed |-> 0,incb |-> 0,f |-> [stop |-> 0, abort |-> 0, expg |-> 0, sleep |-> 0, xok |-> 0, cfn |-> 0, onx |-> 0, res |-> 0],active |-> FALSE,dead |-> FALSE,l |-> 113,hascb |-> 1]),
    ([owed |-> 0,incb |-> 0,f |-> [stop |-> 1, abort |-> 0, expg |-> 0, sleep |-> 0, xok |-> 0, cfn |-> 0, onx |-> 0, res |-> 0],active |-> FALSE,dead |-> FALSE,l |-> 114,hascb |-> 1]),
    ([owed |-> 0,incb |-> 0,f |-> [stop |-> 1, abort |-> 0, expg |-> 0, sleep |-> 0, xok |-> 0, cfn |-> 0, onx |-> 0, res |-> 0],active |-> FALSE,dead |-> FALSE,l |-> 115,hascb |-> 1]),
    ([owed |-> 0,incb |-> 0,f |-> [stop |-> 1, abort |-> 0, expg |-> 0, sleep |-> 0, xok |-> 0, cfn |-> 0, onx |-> 0, res |-> 0],active |-> FALSE,dead |-> FALSE,l |-> 116,hascb |-> 1]),
    ([owed |-> 0,incb |-> 0,f |-> [stop |-> 1, abort |-> 0, expg |-> 0, sleep |-> 0, xok |-> 0, cfn |-> 0, onx |-> 0, res |-> 0],active |-> FALSE,dead |-> FALSE,l |-> 117,hascb |-> 1]),
    ([owed |-> 0,incb |-> 0,f |-> [stop |-> 1, abort |-> 0, expg |-> 0, sleep |-> 0, xok |-> 0, cfn |-> 0, onx |-> 0, res |-> 0],active |-> FALSE,dead |-> FALSE,l |-> 118,hascb |-> 1]),
    ([owed |-> 0,incb |-> 0,f |-> [stop |-> 1, abort |-> 0, expg |-> 0, sleep |-> 0, xok |-> 0, cfn |-> 0, onx |-> 0, res |-> 0],active |-> FALSE,dead |-> FALSE,l |-> 119,hascb |-> 1]),
    ([owed |-> 0,incb |-> 0,f |-> [stop |-> 1, abort |-> 0, expg |-> 0, sleep |-> 0, xok |-> 0, cfn |-> 0, onx |-> 0, res |-> 0],active |-> FALSE,dead |-> FALSE,l |-> 120,hascb |-> 1]),
    ([owed |-> 0,incb |-> 0,f |-> [stop |-> 1, abort |-> 0, expg |-> 0, sleep |-> 0, xok |-> 0, cfn |-> 0, onx |-> 0, res |-> 0],active |-> FALSE,dead |-> FALSE,l |-> 121,hascb |-> 1]),
    ([owed |-> 0,incb |-> 0,f |-> [stop |-> 0, abort |-> 0, expg |-> 0, sleep |-> 0, xok |-> 0, cfn |-> 0, onx |-> 0, res |-> 0],active |-> FALSE,dead |-> FALSE,l |-> 122,hascb |-> 1]),
    ([owed |-> 0,incb |-> 0,f |-> [stop |-> 1, abort |-> 0, expg |-> 0, sleep |-> 0, xok |-> 0, cfn |-> 0, onx |-> 0, res |-> 0],active |-> FALSE,dead |-> FALSE,l |-> 123,hascb |-> 1]),
    ([owed |-> 0,incb |-> 0,f |-> [stop |-> 1, abort |-> 0, expg |-> 0, sleep |-> 0, xok |-> 0, cfn |-> 0, onx |-> 0, res |-> 0],active |-> FALSE,dead |-> FALSE,l |-> 124,hascb |-> 1]),
    ([owed |-> 0,incb |-> 0,f |-> [stop |-> 1, abort |-> 0, expg |-> 0, sleep |-> 0, xok |-> 0, cfn |-> 0, onx |-> 0, res |-> 0],active |-> FALSE,dead |-> FALSE,l |-> 125,hascb |-> 1]),
    ([owed |-> 0,incb |-> 0,f |-> [stop |-> 1, abort |-> 0, expg |-> 0, sleep |-> 0, xok |-> 0, cfn |-> 0, onx |-> 0, res |-> 0],active |-> FALSE,dead |-> FALSE,l |-> 126,hascb |-> 1]),
    ([owed |-> 0,incb |-> 0,f |-> [stop |-> 1, abort |-> 0, expg |-> 0, sleep |-> 0, xok |-> 0, cfn |-> 0, onx |-> 0, res |-> 0],active |-> FALSE,dead |-> FALSE,l |-> 127,hascb |-> 1]),
    ([owed |-> 1,incb |-> 0,f |-> [stop |-> 1, abort |-> 0, expg |-> 0, sleep |-> 0, xok |-> 0, cfn |-> 0, onx |-> 0, res |-> 999],active |-> FALSE,dead |-> TRUE,l |-> 128,hascb |-> 1]),
    ([owed |-> 1,incb |-> 0,f |-> [stop |-> 1, abort |-> 0, expg |-> 0, sleep |-> 0, xok |-> 0, cfn |-> 0, onx |-> 0, res |-> 999],active |-> FALSE,dead |-> TRUE,l |-> 129,hascb |-> 1]),
    ([owed |-> 0,incb |-> 1,f |-> [stop |-> 1, abort |-> 0, expg |-> 0, sleep |-> 0, xok |-> 0, cfn |-> 0, onx |-> 0, res |-> 999],active |-> FALSE,dead |-> TRUE,l |-> 130,hascb |-> 1]),
    ([owed |-> 0,incb |-> 0,f |-> [stop |-> 1, abort |-> 0, expg |-> 0, sleep |-> 0, xok |-> 0, cfn |-> 0, onx |-> 0, res |-> 999],active |-> FALSE,dead |-> FALSE,l |-> 131,hascb |-> 1]),
    ([owed |-> 0,incb |-> 0,f |-> [stop |-> 1, abort |-> 0, expg |-> 0, sleep |-> 0, xok |-> 0, cfn |-> 0, onx |-> 0, res |-> 999],active |-> FALSE,dead |-> FALSE,l |-> 132,hascb |-> 1]),
    ([owed |-> 0,incb |-> 0,f |-> [stop |-> 1, abort |-> 0, expg |-> 0, sleep |-> 0, xok |-> 0, cfn |-> 0, onx |-> 0, res |-> 999],active |-> FALSE,dead |-> FALSE,l |-> 133,hascb |-> 1]),
    ([owed |-> 0,incb |-> 0,f |-> [stop |-> 0, abort |-> 0, expg |-> 0, sleep |-> 0, xok |-> 0, cfn |-> 0, onx |-> 0, res |-> 0],active |-> FALSE,dead |-> FALSE,l |-> 134,hascb |-> 0]),
    ([owed |-> 0,incb |-> 0,f |-> [stop |-> 0, abort |-> 0, expg |-> 0, sleep |-> 0, xok |-> 0, cfn |-> 0, onx |-> 0, res |-> 0],active |-> FALSE,dead |-> FALSE,l |-> 135,hascb |-> 0]),
    ([owed |-> 0,incb |-> 0,f |-> [stop |-> 1, abort |-> 0, expg |-> 0, sleep |-> 0, xok |-> 0, cfn |-> 0, onx |-> 0, res |-> 0],active |-> FALSE,dead |-> FALSE,l |-> 136,hascb |-> 0]),
    ([owed |-> 0,incb |-> 0,f |-> [stop |-> 1, abort |-> 0, expg |-> 0, sleep |-> 0, xok |-> 0, cfn |-> 0, onx |-> 0, res |-> 0],active |-> FALSE,dead |-> FALSE,l |-> 137,hascb |-> 0]),
    ([owed |-> 0,incb |-> 0,f |-> [stop |-> 1, abort |-> 0, expg |-> 0, sleep |-> 0, xok |-> 0, cfn |-> 0, onx |-> 0, res |-> 0],active |-> FALSE,dead |-> FALSE,l |-> 138,hascb |-> 0]),
    ([owed |-> 0,incb |-> 0,f |-> [stop |-> 0, abort |-> 0, expg |-> 0, sleep |-> 0, xok |-> 0, cfn |-> 0, onx |-> 0, res |-> 0],active |-> FALSE,dead |-> FALSE,l |-> 139,hascb |-> 0]),
    ([owed |-> 0,incb |-> 0,f |-> [stop |-> 0, abort |-> 0, expg |-> 0, sleep |-> 0, xok |-> 0, cfn |-> 0, onx |-> 0, res |-> 0],active |-> FALSE,dead |-> FALSE,l |-> 140,hascb |-> 0]),
    ([owed |-> 0,incb |-> 0,f |-> [stop |-> 1, abort |-> 0, expg |-> 0, sleep |-> 0, xok |-> 0, cfn |-> 0, onx |-> 0, res |-> 0],active |-> FALSE,dead |-> FALSE,l |-> 141,hascb |-> 0]),
    ([owed |-> 0,incb |-> 0,f |-> [stop |-> 1, abort |-> 0, expg |-> 0, sleep |-> 0, xok |-> 0, cfn |-> 0, onx |-> 0, res |-> 0],active |-> FALSE,dead |-> FALSE,l |-> 142,hascb |-> 0]),
    ([owed |-> 0,incb |-> 0,f |-> [stop |-> 1, abort |-> 0, expg |-> 0, sleep |-> 0, xok |-> 0, cfn |-> 0, onx |-> 0, res |-> 0],active |-> FALSE,dead |-> FALSE,l |-> 143,hascb |-> 0]),
    ([owed |-> 0,incb |-> 0,f |-> [stop |-> 0, abort |-> 0, expg |-> 0, sleep |-> 0, xok |-> 0, cfn |-> 0, onx |-> 0, res |-> 0],active |-> FALSE,dead |-> FALSE,l |-> 144,hascb |-> 0]),
    ([owed |-> 0,incb |-> 0,f |-> [stop |-> 0, abort |-> 0, expg |-> 0, sleep |-> 0, xok |-> 0, cfn |-> 0, onx |-> 0, res |-> 0],active |-> TRUE,dead |-> FALSE,l |-> 145,hascb |-> 0]),
    ([owed |-> 0,incb |-> 0,f |-> [stop |-> 0, abort |-> 0, expg |-> 0, sleep |-> 0, xok |-> 0, cfn |-> 0, onx |-> 0, res |-> 0],active |-> FALSE,dead |-> FALSE,l |-> 146,hascb |-> 0]),
    ([owed |-> 0,incb |-> 0,f |-> [stop |-> 0, abort |-> 0, expg |-> 0, sleep |-> 0, xok |-> 0, cfn |-> 0, onx |-> 0, res |-> 0],active |-> FALSE,dead |-> FALSE,l |-> 147,hascb |-> 0]),
    ([owed |-> 0,incb |-> 0,f |-> [stop |-> 0, abort |-> 0, expg |-> 0, sleep |-> 0, xok |-> 0, cfn |-> 0, onx |-> 0, res |-> 0],active |-> FALSE,dead |-> FALSE,l |-> 148,hascb |-> 0]),
    ([owed |-> 0,incb |-> 0,f |-> [stop |-> 1, abort |-> 0, expg |-> 0, sleep |-> 0, xok |-> 0, cfn |-> 0, onx |-> 0, res |-> 0],active |-> FALSE,dead |-> FALSE,l |-> 149,hascb |-> 0]),
    ([owed |-> 0,incb |-> 0,f |-> [stop |-> 1, abort |-> 0, expg |-> 0, sleep |-> 0, xok |-> 0, cfn |-> 0, onx |-> 0, res |-> 0],active |-> FALSE,dead |-> FALSE,l |-> 150,hascb |-> 0]),
    ([owed |-> 0,incb |-> 0,f |-> [stop |-> 1, abort |-> 0, expg |-> 0, sleep |-> 0, xok |-> 0, cfn |-> 0, onx |-> 0, res |-> 0],active |-> FALSE,dead |-> FALSE,l |-> 151,hascb |-> 0]),
    ([owed |-> 0,incb |-> 0,f |-> [stop |-> 0, abort |-> 0, expg |-> 0, sleep |-> 0, xok |-> 0, cfn |-> 0, onx |-> 0, res |-> 0],active |-> FALSE,dead |-> FALSE,l |-> 152,hascb |-> 0]),
    ([owed |-> 0,incb |-> 0,f |-> [stop |-> 0, abort |-> 0, expg |-> 0, sleep |-> 0, xok |-> 0, cfn |-> 0, onx |-> 0, res |-> 0],active |-> FALSE,dead |-> FALSE,l |-> 153,hascb |-> 0]),
    ([owed |-> 0,incb |-> 0,f |-> [stop |-> 1, abort |-> 0, expg |-> 0, sleep |-> 0, xok |-> 0, cfn |-> 0, onx |-> 0, res |-> 0],active |-> FALSE,dead |-> FALSE,l |-> 154,hascb |-> 0]),
    ([owed |-> 0,incb |-> 0,f |-> [stop |-> 1, abort |-> 0, expg |-> 0, sleep |-> 0, xok |-> 0, cfn |-> 0, onx |-> 0, res |-> 0],active |-> FALSE,dead |-> FALSE,l |-> 155,hascb |-> 0]),
    ([owed |-> 0,incb |-> 0,f |-> [stop |-> 1, abort |-> 0, expg |-> 0, sleep |-> 0, xok |-> 0, cfn |-> 0, onx |-> 0, res |-> 0],active |-> FALSE,dead |-> FALSE,l |-> 156,hascb |-> 0]),
    ([owed |-> 0,incb |-> 0,f |-> [stop |-> 0, abort |-> 0, expg |-> 0, sleep |-> 0, xok |-> 0, cfn |-> 0, onx |-> 0, res |-> 0],active |-> FALSE,dead |-> FALSE,l |-> 157,hascb |-> 0]),
    ([owed |-> 0,incb |-> 0,f |-> [stop |-> 0, abort |-> 0, expg |-> 0, sleep |-> 0, xok |-> 0, cfn |-> 0, onx |-> 0, res |-> 0],active |-> FALSE,dead |-> FALSE,l |-> 158,hascb |-> 0]),
    ([owed |-> 0,incb |-> 0,f |-> [stop |-> 1, abort |-> 0, expg |-> 0, sleep |-> 0, xok |-> 0, cfn |-> 0, onx |-> 0, res |-> 0],active |-> FALSE,dead |-> FALSE,l |-> 159,hascb |-> 0]),
    ([owed |-> 0,incb |-> 0,f |-> [stop |-> 1, abort |-> 0, expg |-> 0, sleep |-> 0, xok |-> 0, cfn |-> 0, onx |-> 0, res |-> 0],active |-> FALSE,dead |-> FALSE,l |-> 160,hascb |-> 0]),
    ([owed |-> 0,incb |-> 0,f |-> [stop |-> 1, abort |-> 0, expg |-> 0, sleep |-> 0, xok |-> 0, cfn |-> 0, onx |-> 0, res |-> 0],active |-> FALSE,dead |-> FALSE,l |-> 161,hascb |-> 0]),
    ([owed |-> 0,incb |-> 0,f |-> [stop |-> 0, abort |-> 0, expg |-> 0, sleep |-> 0, xok |-> 0, cfn |-> 0, onx |-> 0, res |-> 0],active |-> FALSE,dead |-> FALSE,l |-> 162,hascb |-> 0]),
    ([owed |-> 0,incb |-> 0,f |-> [stop |-> 0, abort |-> 0, expg |-> 0, sleep |-> 0, xok |-> 0, cfn |-> 0, onx |-> 0, res |-> 0],active |-> FALSE,dead |-> FALSE,l |-> 163,hascb |-> 0]),
    ([owed |-> 0,incb |-> 0,f |-> [stop |-> 1, abort |-> 0, expg |-> 0, sleep |-> 0, xok |-> 0, cfn |-> 0, onx |-> 0, res |-> 0],active |-> FALSE,dead |-> FALSE,l |-> 164,hascb |-> 0]),
    ([owed |-> 0,incb |-> 0,f |-> [stop |-> 1, abort |-> 0, expg |-> 0, sleep |-> 0, xok |-> 0, cfn |-> 0, onx |-> 0, res |-> 0],active |-> FALSE,dead |-> FALSE,l |-> 165,hascb |-> 0]),
    ([owed |-> 0,incb |-> 0,f |-> [stop |-> 1, abort |-> 0, expg |-> 0, sleep |-> 0, xok |-> 0, cfn |-> 0, onx |-> 0, res |-> 0],active |-> FALSE,dead |-> FALSE,l |-> 166,hascb |-> 0]),
    ([owed |-> 0,incb |-> 0,f |-> [stop |-> 0, abort |-> 0, expg |-> 0, sleep |-> 0, xok |-> 0, cfn |-> 0, onx |-> 0, res |-> 0],active |-> FALSE,dead |-> FALSE,l |-> 167,hascb |-> 0]),
    ([owed |-> 0,incb |-> 0,f |-> [stop |-> 0, abort |-> 0, expg |-> 0, sleep |-> 0, xok |-> 0, cfn |-> 0, onx |-> 0, res |-> 0],active |-> FALSE,dead |-> FALSE,l |-> 168,hascb |-> 0]),
    ([owed |-> 0,incb |-> 0,f |-> [stop |-> 1, abort |-> 0, expg |-> 0, sleep |-> 0, xok |-> 0, cfn |-> 0, onx |-> 0, res |-> 0],active |-> FALSE,dead |-> FALSE,l |-> 169,hascb |-> 0]),
    ([owed |-> 0,incb |-> 0,f |-> [stop |-> 1, abort |-> 0, expg |-> 0, sleep |-> 0, xok |-> 0, cfn |-> 0, onx |-> 0, res |-> 0],active |-> FALSE,dead |-> FALSE,l |-> 170,hascb |-> 0]),
    ([owed |-> 0,incb |-> 0,f |-> [stop |-> 1, abort |-> 0, expg |-> 0, sleep |-> 0, xok |-> 0, cfn |-> 0, onx |-> 0, res |-> 0],active |-> FALSE,dead |-> FALSE,l |-> 171,hascb |-> 0]),
    ([owed |-> 0,incb |-> 0,f |-> [stop |-> 0, abort |-> 0, expg |-> 0, sleep |-> 0, xok |-> 0, cfn |-> 0, onx |-> 0, res |-> 0],active |-> FALSE,dead |-> FALSE,l |-> 172,hascb |-> 0]),
    ([owed |-> 0,incb |-> 0,f |-> [stop |-> 0, abort |-> 0, expg |-> 0, sleep |-> 0, xok |-> 0, cfn |-> 1, onx |-> 1, res |-> 0],active |-> TRUE,dead |-> FALSE,l |-> 173,hascb |-> 0]),
    ([owed |-> 0,incb |-> 0,f |-> [stop |-> 0, abort |-> 0, expg |-> 0, sleep |-> 0, xok |-> 0, cfn |-> 0, onx |-> 0, res |-> 0],active |-> FALSE,dead |-> FALSE,l |-> 174,hascb |-> 0]),
    ([owed |-> 0,incb |-> 0,f |-> [stop |-> 0, abort |-> 0, expg |-> 0, sleep |-> 0, xok |-> 0, cfn |-> 0, onx |-> 0, res |-> 0],active |-> FALSE,dead |-> FALSE,l |-> 175,hascb |-> 0]),
    ([owed |-> 0,incb |-> 0,f |-> [stop |-> 0, abort |-> 0, expg |-> 0, sleep |-> 0, xok |-> 0, cfn |-> 0, onx |-> 0, res |-> 0],active |-> FALSE,dead |-> FALSE,l |-> 176,hascb |-> 0]),
    ([owed |-> 0,incb |-> 0,f |-> [stop |-> 1, abort |-> 0, expg |-> 0, sleep |-> 0, xok |-> 0, cfn |-> 0, onx |-> 0, res |-> 0],active |-> FALSE,dead |-> FALSE,l |-> 177,hascb |-> 0]),
    ([owed |-> 0,incb |-> 0,f |-> [stop |-> 1, abort |-> 0, expg |-> 0, sleep |-> 0, xok |-> 0, cfn |-> 0, onx |-> 0, res |-> 0],active |-> FALSE,dead |-> FALSE,l |-> 178,hascb |-> 0]),
    ([owed |-> 0,incb |-> 0,f |-> [stop |-> 1, abort |-> 0, expg |-> 0, sleep |-> 0, xok |-> 0, cfn |-> 0, onx |-> 0, res |-> 0],active |-> FALSE,dead |-> FALSE,l |-> 179,hascb |-> 0]),
    ([owed |-> 0,incb |-> 0,f |-> [stop |-> 0, abort |-> 0, expg |-> 0, sleep |-> 0, xok |-> 0, cfn |-> 0, onx |-> 0, res |-> 0],active |-> FALSE,dead |-> FALSE,l |-> 180,hascb |-> 0]),
    ([owed |-> 0,incb |-> 0,f |-> [stop |-> 0, abort |-> 0, expg |-> 0, sleep |-> 0, xok |-> 0, cfn |-> 0, onx |-> 0, res |-> 0],active |-> FALSE,dead |-> FALSE,l |-> 181,hascb |-> 0]),
    ([owed |-> 0,incb |-> 0,f |-> [stop |-> 1, abort |-> 0, expg |-> 0, sleep |-> 0, xok |-> 0, cfn |-> 0, onx |-> 0, res |-> 0],active |-> FALSE,dead |-> FALSE,l |-> 182,hascb |-> 0]),
    ([owed |-> 0,incb |-> 0,f |-> [stop |-> 1, abort |-> 0, expg |-> 0, sleep |-> 0, xok |-> 0, cfn |-> 0, onx |-> 0, res |-> 0],active |-> FALSE,dead |-> FALSE,l |-> 183,hascb |-> 0]),
    ([owed |-> 0,incb |-> 0,f |-> [stop |-> 1, abort |-> 0, expg |-> 0, sleep |-> 0, xok |-> 0, cfn |-> 0, onx |-> 0, res |-> 0],active |-> FALSE,dead |-> FALSE,l |-> 184,hascb |-> 0]),
    ([owed |-> 0,incb |-> 0,f |-> [stop |-> 0, abort |-> 0, expg |-> 0, sleep |-> 0, xok |-> 0, cfn |-> 0, onx |-> 0, res |-> 0],active |-> FALSE,dead |-> FALSE,l |-> 185,hascb |-> 1]),
    ([owed |-> 0,incb |-> 0,f |-> [stop |-> 0, abort |-> 0, expg |-> 0, sleep |-> 0, xok |-> 0, cfn |-> 1, onx |-> 0, res |-> 0],active |-> TRUE,dead |-> FALSE,l |-> 186,hascb |-> 1]),
    ([owed |-> 1,incb |-> 0,f |-> [stop |-> 0, abort |-> 0, expg |-> 0, sleep |-> 0, xok |-> 0, cfn |-> 0, onx |-> 0, res |-> 0],active |-> FALSE,dead |-> FALSE,l |-> 187,hascb |-> 1]),
    ([owed |-> 0,incb |-> 1,f |-> [stop |-> 0, abort |-> 0, expg |-> 0, sleep |-> 0, xok |-> 0, cfn |-> 0, onx |-> 0, res |-> 0],active |-> FALSE,dead |-> FALSE,l |-> 188,hascb |-> 1]),
    ([owed |-> 0,incb |-> 0,f |-> [stop |-> 0, abort |-> 0, expg |-> 0, sleep |-> 0, xok |-> 0, cfn |-> 0, onx |-> 0, res |-> 0],active |-> FALSE,dead |-> FALSE,l |-> 189,hascb |-> 1]),
    ([owed |-> 0,incb |-> 0,f |-> [stop |-> 0, abort |-> 0, expg |-> 0, sleep |-> 0, xok |-> 0, cfn |-> 1, onx |-> 0, res |-> 0],active |-> TRUE,dead |-> FALSE,l |-> 190,hascb |-> 1]),
    ([owed |-> 1,incb |-> 0,f |-> [stop |-> 0, abort |-> 0, expg |-> 0, sleep |-> 0, xok |-> 0, cfn |-> 0, onx |-> 0, res |-> 0],active |-> FALSE,dead |-> FALSE,l |-> 191,hascb |-> 1]),
    ([owed |-> 0,incb |-> 1,f |-> [stop |-> 0, abort |-> 0, expg |-> 0, sleep |-> 0, xok |-> 0, cfn |-> 0, onx |-> 0, res |-> 0],active |-> FALSE,dead |-> FALSE,l |-> 192,hascb |-> 1]),
    ([owed |-> 0,incb |-> 0,f |-> [stop |-> 0, abort |-> 0, expg |-> 0, sleep |-> 0, xok |-> 0, cfn |-> 0, onx |-> 0, res |-> 0],active |-> FALSE,dead |-> FALSE,l |-> 193,hascb |-> 1]),
    ([owed |-> 0,incb |-> 0,f |-> [stop |-> 0, abort |-> 0, expg |-> 0, sleep |-> 0, xok |-> 0, cfn |-> 1, onx |-> 0, res |-> 0],active |-> TRUE,dead |-> FALSE,l |-> 194,hascb |-> 1]),
    ([owed |-> 1,incb |-> 0,f |-> [stop |-> 0, abort |-> 0, expg |-> 0, sleep |-> 0, xok |-> 0, cfn |-> 0, onx |-> 0, res |-> 0],active |-> FALSE,dead |-> FALSE,l |-> 195,hascb |-> 1]),
    ([owed |-> 0,incb |-> 1,f |-> [stop |-> 0, abort |-> 0, expg |-> 0, sleep |-> 0, xok |-> 0, cfn |-> 0, onx |-> 0, res |-> 0],active |-> FALSE,dead |-> FALSE,l |-> 196,hascb |-> 1]),
    ([owed |-> 0,incb |-> 1,f |-> [stop |-> 0, abort |-> 0, expg |-> 0, sleep |-> 0, xok |-> 0, cfn |-> 1, onx |-> 0, res |-> 0],active |-> TRUE,dead |-> FALSE,l |-> 197,hascb |-> 1]),
    ([owed |-> 1,incb |-> 1,f |-> [stop |-> 0, abort |-> 0, expg |-> 0, sleep |-> 0, xok |-> 0, cfn |-> 0, onx |-> 0, res |-> 0],active |-> FALSE,dead |-> FALSE,l |-> 198,hascb |-> 1]),
    ([owed |-> 1,incb |-> 0,f |-> [stop |-> 0, abort |-> 0, expg |-> 0, sleep |-> 0, xok |-> 0, cfn |-> 0, onx |-> 0, res |-> 0],active |-> FALSE,dead |-> FALSE,l |-> 199,hascb |-> 1]),
    ([owed |-> 0,incb |-> 1,f |-> [stop |-> 0, abort |-> 0, expg |-> 0, sleep |-> 0, xok |-> 0, cfn |-> 0, onx |-> 0, res |-> 0],active |-> FALSE,dead |-> FALSE,l |-> 200,hascb |-> 1]),
    ([owed |-> 0,incb |-> 0,f |-> [stop |-> 0, abort |-> 0, expg |-> 0, sleep |-> 0, xok |-> 0, cfn |-> 0, onx |-> 0, res |-> 0],active |-> FALSE,dead |-> FALSE,l |-> 201,hascb |-> 1]),
    ([owed |-> 0,incb |-> 0,f |-> [stop |-> 0, abort |-> 0, expg |-> 0, sleep |-> 0, xok |-> 0, cfn |-> 1, onx |-> 0, res |-> 0],active |-> TRUE,dead |-> FALSE,l |-> 202,hascb |-> 1]),
    ([owed |-> 0,incb |-> 0,f |-> [stop |-> 1, abort |-> 0, expg |-> 0, sleep |-> 0, xok |-> 0, cfn |-> 0, onx |-> 0, res |-> 0],active |-> TRUE,dead |-> FALSE,l |-> 203,hascb |-> 1]),
    ([owed |-> 1,incb |-> 0,f |-> [stop |-> 1, abort |-> 0, expg |-> 0, sleep |-> 0, xok |-> 0, cfn |-> 0, onx |-> 0, res |-> 999],active |-> FALSE,dead |-> FALSE,l |-> 204,hascb |-> 1]),
    ([owed |-> 1,incb |-> 0,f |-> [stop |-> 1, abort |-> 0, expg |-> 0, sleep |-> 0, xok |-> 0, cfn |-> 0, onx |-> 0, res |-> 999],active |-> FALSE,dead |-> FALSE,l |-> 205,hascb |-> 1]),
    ([owed |-> 0,incb |-> 1,f |-> [stop |-> 1, abort |-> 0, expg |-> 0, sleep |-> 0, xok |-> 0, cfn |-> 0, onx |-> 0, res |-> 999],active |-> FALSE,dead |-> FALSE,l |-> 206,hascb |-> 1]),
    ([owed |-> 0,incb |-> 0,f |-> [stop |-> 1, abort |-> 0, expg |-> 0, sleep |-> 0, xok |-> 0, cfn |-> 0, onx |-> 0, res |-> 999],active |-> FALSE,dead |-> FALSE,l |-> 207,hascb |-> 1]),
    ([owed |-> 0,incb |-> 0,f |-> [stop |-> 1, abort |-> 0, expg |-> 0, sleep |-> 0, xok |-> 0, cfn |-> 0, onx |-> 0, res |-> 999],active |-> FALSE,dead |-> FALSE,l |-> 208,hascb |-> 1]),
    ([owed |-> 0,incb |-> 0,f |-> [stop |-> 1, abort |-> 0, expg |-> 0, sleep |-> 0, xok |-> 0, cfn |-> 0, onx |-> 0, res |-> 999],active |-> FALSE,dead |-> FALSE,l |-> 209,hascb |-> 1]),
    ([owed |-> 0,incb |-> 0,f |-> [stop |-> 1, abort |-> 0, expg |-> 0, sleep |-> 0, xok |-> 0, cfn |-> 0, onx |-> 0, res |-> 999],active |-> FALSE,dead |-> FALSE,l |-> 210,hascb |-> 1]),
    ([owed |-> 0,incb |-> 0,f |-> [stop |-> 1, abort |-> 0, expg |-> 0, sleep |-> 0, xok |-> 0, cfn |-> 0, onx |-> 0, res |-> 999],active |-> FALSE,dead |-> FALSE,l |-> 211,hascb |-> 1]),
    ([owed |-> 0,incb |-> 0,f |-> [stop |-> 1, abort |-> 0, expg |-> 0, sleep |-> 0, xok |-> 0, cfn |-> 0, onx |-> 0, res |-> 999],active |-> FALSE,dead |-> FALSE,l |-> 212,hascb |-> 1]),
    ([owed |-> 0,incb |-> 0,f |-> [stop |-> 1, abort |-> 0, expg |-> 0, sleep |-> 0, xok |-> 0, cfn |-> 0, onx |-> 0, res |-> 999],active |-> FALSE,dead |-> FALSE,l |-> 213,hascb |-> 1]),
    ([owed |-> 0,incb |-> 0,f |-> [stop |-> 1, abort |-> 0, expg |-> 0, sleep |-> 0, xok |-> 0, cfn |-> 0, onx |-> 0, res |-> 999],active |-> FALSE,dead |-> FALSE,l |-> 214,hascb |-> 1]),
    ([owed |-> 0,incb |-> 0,f |-> [stop |-> 0, abort |-> 0, expg |-> 0, sleep |-> 0, xok |-> 0, cfn |-> 0, onx |-> 0, res |-> 0],active |-> FALSE,dead |-> FALSE,l |-> 215,hascb |-> 1]),
    ([owed |-> 0,incb |-> 0,f |-> [stop |-> 0, abort |-> 0, expg |-> 0, sleep |-> 0, xok |-> 0, cfn |-> 1, onx |-> 0, res |-> 0],active |-> TRUE,dead |-> FALSE,l |-> 216,hascb |-> 1]),
    ([owed |-> 1,incb |-> 0,f |-> [stop |-> 0, abort |-> 0, expg |-> 0, sleep |-> 0, xok |-> 0, cfn |-> 0, onx |-> 0, res |-> 0],active |-> FALSE,dead |-> FALSE,l |-> 217,hascb |-> 1]),
    ([owed |-> 0,incb |-> 1,f |-> [stop |-> 0, abort |-> 0, expg |-> 0, sleep |-> 0, xok |-> 0, cfn |-> 0, onx |-> 0, res |-> 0],active |-> FALSE,dead |-> FALSE,l |-> 218,hascb |-> 1]),
    ([owed |-> 0,incb |-> 1,f |-> [stop |-> 0, abort |-> 0, expg |-> 0, sleep |-> 0, xok |-> 0, cfn |-> 1, onx |-> 0, res |-> 0],active |-> TRUE,dead |-> FALSE,l |-> 219,hascb |-> 1]),
    ([owed |-> 0,incb |-> 0,f |-> [stop |-> 0, abort |-> 0, expg |-> 0, sleep |-> 0, xok |-> 0, cfn |-> 1, onx |-> 0, res |-> 0],active |-> TRUE,dead |-> FALSE,l |-> 220,hascb |-> 1]),
    ([owed |-> 1,incb |-> 0,f |-> [stop |-> 0, abort |-> 0, expg |-> 0, sleep |-> 0, xok |-> 0, cfn |-> 0, onx |-> 0, res |-> 7],active |-> FALSE,dead |-> FALSE,l |-> 221,hascb |-> 1]),
    ([owed |-> 1,incb |-> 0,f |-> [stop |-> 1, abort |-> 0, expg |-> 0, sleep |-> 0, xok |-> 0, cfn |-> 0, onx |-> 0, res |-> 7],active |-> FALSE,dead |-> FALSE,l |-> 222,hascb |-> 1]),
    ([owed |-> 1,incb |-> 0,f |-> [stop |-> 1, abort |-> 0, expg |-> 0, sleep |-> 0, xok |-> 0, cfn |-> 0, onx |-> 0, res |-> 7],active |-> FALSE,dead |-> FALSE,l |-> 223,hascb |-> 1]),
    ([owed |-> 0,incb |-> 1,f |-> [stop |-> 1, abort |-> 0, expg |-> 0, sleep |-> 0, xok |-> 0, cfn |-> 0, onx |-> 0, res |-> 7],active |-> FALSE,dead |-> FALSE,l |-> 224,hascb |-> 1]),
    ([owed |-> 0,incb |-> 0,f |-> [stop |-> 1, abort |-> 0, expg |-> 0, sleep |-> 0, xok |-> 0, cfn |-> 0, onx |-> 0, res |-> 7],active |-> FALSE,dead |-> FALSE,l |-> 225,hascb |-> 1]),
    ([owed |-> 0,incb |-> 0,f |-> [stop |-> 1, abort |-> 0, expg |-> 0, sleep |-> 0, xok |-> 0, cfn |-> 0, onx |-> 0, res |-> 7],active |-> FALSE,dead |-> FALSE,l |-> 226,hascb |-> 1]),
    ([owed |-> 0,incb |-> 0,f |-> [stop |-> 1, abort |-> 0, expg |-> 0, sleep |-> 0, xok |-> 0, cfn |-> 0, onx |-> 0, res |-> 7],active |-> FALSE,dead |-> FALSE,l |-> 227,hascb |-> 1]),
    ([owed |-> 0,incb |-> 0,f |-> [stop |-> 1, abort |-> 0, expg |-> 0, sleep |-> 0, xok |-> 0, cfn |-> 0, onx |-> 0, res |-> 7],active |-> FALSE,dead |-> FALSE,l |-> 228,hascb |-> 1]),
    ([owed |-> 0,incb |-> 0,f |-> [stop |-> 1, abort |-> 0, expg |-> 0, sleep |-> 0, xok |-> 0, cfn |-> 0, onx |-> 0, res |-> 7],active |-> FALSE,dead |-> FALSE,l |-> 229,hascb |-> 1]),
    ([owed |-> 0,incb |-> 0,f |-> [stop |-> 1, abort |-> 0, expg |-> 0, sleep |-> 0, xok |-> 0, cfn |-> 0, onx |-> 0, res |-> 7],active |-> FALSE,dead |-> FALSE,l |-> 230,hascb |-> 1]),
    ([owed |-> 0,incb |-> 0,f |-> [stop |-> 1, abort |-> 0, expg |-> 0, sleep |-> 0, xok |-> 0, cfn |-> 0, onx |-> 0, res |-> 7],active |-> FALSE,dead |-> FALSE,l |-> 231,hascb |-> 1]),
    ([owed |-> 0,incb |-> 0,f |-> [stop |-> 0, abort |-> 0, expg |-> 0, sleep |-> 0, xok |-> 0, cfn |-> 0, onx |-> 0, res |-> 0],active |-> FALSE,dead |-> FALSE,l |-> 232,hascb |-> 1]),
    ([owed |-> 0,incb |-> 0,f |-> [stop |-> 1, abort |-> 0, expg |-> 0, sleep |-> 0, xok |-> 0, cfn |-> 0, onx |-> 0, res |-> 0],active |-> FALSE,dead |-> FALSE,l |-> 233,hascb |-> 1]),
    ([owed |-> 0,incb |-> 0,f |-> [stop |-> 1, abort |-> 0, expg |-> 0, sleep |-> 0, xok |-> 0, cfn |-> 0, onx |-> 0, res |-> 0],active |-> FALSE,dead |-> FALSE,l |-> 234,hascb |-> 1]),
    ([owed |-> 0,incb |-> 0,f |-> [stop |-> 1, abort |-> 0, expg |-> 0, sleep |-> 0, xok |-> 0, cfn |-> 0, onx |-> 0, res |-> 0],active |-> FALSE,dead |-> FALSE,l |-> 235,hascb |-> 1]),
    ([owed |-> 0,incb |-> 0,f |-> [stop |-> 1, abort |-> 0, expg |-> 0, sleep |-> 0, xok |-> 0, cfn |-> 0, onx |-> 0, res |-> 0],active |-> FALSE,dead |-> FALSE,l |-> 236,hascb |-> 1]),
    ([owed |-> 0,incb |-> 0,f |-> [stop |-> 1, abort |-> 0, expg |-> 0, sleep |-> 0, xok |-> 0, cfn |-> 0, onx |-> 0, res |-> 0],active |-> FALSE,dead |-> FALSE,l |-> 237,hascb |-> 1]),
    ([owed |-> 0,incb |-> 0,f |-> [stop |-> 1, abort |-> 0, expg |-> 0, sleep |-> 0, xok |-> 0, cfn |-> 0, onx |-> 0, res |-> 0],active |-> FALSE,dead |-> FALSE,l |-> 238,hascb |-> 1]),
    ([owed |-> 0,incb |-> 0,f |-> [stop |-> 1, abort |-> 0, expg |-> 0, sleep |-> 0, xok |-> 0, cfn |-> 0, onx |-> 0, res |-> 0],active |-> FALSE,dead |-> FALSE,l |-> 239,hascb |-> 1]),
    ([owed |-> 0,incb |-> 0,f |-> [stop |-> 1, abort |-> 0, expg |-> 0, sleep |-> 0, xok |-> 0, cfn |-> 0, onx |-> 0, res |-> 0],active |-> FALSE,dead |-> FALSE,l |-> 240,hascb |-> 1]),
    ([owed |-> 0,incb |-> 0,f |-> [stop |-> 0, abort |-> 0, expg |-> 0, sleep |-> 0, xok |-> 0, cfn |-> 0, onx |-> 0, res |-> 0],active |-> FALSE,dead |-> FALSE,l |-> 241,hascb |-> 1]),
    ([owed |-> 0,incb |-> 0,f |-> [stop |-> 0, abort |-> 0, expg |-> 0, sleep |-> 0, xok |-> 0, cfn |-> 1, onx |-> 0, res |-> 0],active |-> TRUE,dead |-> FALSE,l |-> 242,hascb |-> 1]),
    ([owed |-> 1,incb |-> 0,f |-> [stop |-> 0, abort |-> 0, expg |-> 0, sleep |-> 0, xok |-> 0, cfn |-> 0, onx |-> 0, res |-> 7],active |-> FALSE,dead |-> FALSE,l |-> 243,hascb |-> 1]),
    ([owed |-> 0,incb |-> 1,f |-> [stop |-> 0, abort |-> 0, expg |-> 0, sleep |-> 0, xok |-> 0, cfn |-> 0, onx |-> 0, res |-> 7],active |-> FALSE,dead |-> FALSE,l |-> 244,hascb |-> 1]),
    ([owed |-> 0,incb |-> 0,f |-> [stop |-> 0, abort |-> 0, expg |-> 0, sleep |-> 0, xok |-> 0, cfn |-> 0, onx |-> 0, res |-> 7],active |-> FALSE,dead |-> FALSE,l |-> 245,hascb |-> 1]),
    ([owed |-> 0,incb |-> 0,f |-> [stop |-> 1, abort |-> 0, expg |-> 0, sleep |-> 0, xok |-> 0, cfn |-> 0, onx |-> 0, res |-> 7],active |-> FALSE,dead |-> FALSE,l |-> 246,hascb |-> 1]),
    ([owed |-> 0,incb |-> 0,f |-> [stop |-> 1, abort |-> 0, expg |-> 0, sleep |-> 0, xok |-> 0, cfn |-> 0, onx |-> 0, res |-> 7],active |-> FALSE,dead |-> FALSE,l |-> 247,hascb |-> 1]),
    ([owed |-> 0,incb |-> 0,f |-> [stop |-> 1, abort |-> 0, expg |-> 0, sleep |-> 0, xok |-> 0, cfn |-> 0, onx |-> 0, res |-> 7],active |-> FALSE,dead |-> FALSE,l |-> 248,hascb |-> 1]),
    ([owed |-> 0,incb |-> 0,f |-> [stop |-> 1, abort |-> 0, expg |-> 0, sleep |-> 0, xok |-> 0, cfn |-> 0, onx |-> 0, res |-> 7],active |-> FALSE,dead |-> FALSE,l |-> 249,hascb |-> 1]),
    ([owed |-> 0,incb |-> 0,f |-> [stop |-> 1, abort |-> 0, expg |-> 0, sleep |-> 0, xok |-> 0, cfn |-> 0, onx |-> 0, res |-> 7],active |-> FALSE,dead |-> FALSE,l |-> 250,hascb |-> 1]),
    ([owed |-> 0,incb |-> 0,f |-> [stop |-> 1, abort |-> 0, expg |-> 0, sleep |-> 0, xok |-> 0, cfn |-> 0, onx |-> 0, res |-> 7],active |-> FALSE,dead |-> FALSE,l |-> 251,hascb |-> 1]),
    ([owed |-> 0,incb |-> 0,f |-> [stop |-> 1, abort |-> 0, expg |-> 0, sleep |-> 0, xok |-> 0, cfn |-> 0, onx |-> 0, res |-> 7],active |-> FALSE,dead |-> FALSE,l |-> 252,hascb |-> 1]),
    ([owed |-> 0,incb |-> 0,f |-> [stop |-> 1, abort |-> 0, expg |-> 0, sleep |-> 0, xok |-> 0, cfn |-> 0, onx |-> 0, res |-> 7],active |-> FALSE,dead |-> FALSE,l |-> 253,hascb |-> 1]),
    ([owed |-> 0,incb |-> 0,f |-> [stop |-> 1, abort |-> 0, expg |-> 0, sleep |-> 0, xok |-> 0, cfn |-> 0, onx |-> 0, res |-> 7],active |-> FALSE,dead |-> FALSE,l |-> 254,hascb |-> 1]),
    ([owed |-> 0,incb |-> 0,f |-> [stop |-> 0, abort |-> 0, expg |-> 0, sleep |-> 0, xok |-> 0, cfn |-> 0, onx |-> 0, res |-> 0],active |-> FALSE,dead |-> FALSE,l |-> 255,hascb |-> 1]),
    ([owed |-> 0,incb |-> 0,f |-> [stop |-> 0, abort |-> 0, expg |-> 0, sleep |-> 0, xok |-> 0, cfn |-> 1, onx |-> 0, res |-> 0],active |-> TRUE,dead |-> FALSE,l |-> 256,hascb |-> 1]),
    ([owed |-> 1,incb |-> 0,f |-> [stop |-> 0, abort |-> 0, expg |-> 0, sleep |-> 0, xok |-> 0, cfn |-> 0, onx |-> 0, res |-> 0],active |-> FALSE,dead |-> FALSE,l |-> 257,hascb |-> 1]),
    ([owed |-> 0,incb |-> 1,f |-> [stop |-> 0, abort |-> 0, expg |-> 0, sleep |-> 0, xok |-> 0, cfn |-> 0, onx |-> 0, res |-> 0],active |-> FALSE,dead |-> FALSE,l |-> 258,hascb |-> 1]),
    ([owed |-> 0,incb |-> 1,f |-> [stop |-> 0, abort |-> 0, expg |-> 0, sleep |-> 0, xok |-> 0, cfn |-> 1, onx |-> 0, res |-> 0],active |-> TRUE,dead |-> FALSE,l |-> 259,hascb |-> 1]),
    ([owed |-> 0,incb |-> 0,f |-> [stop |-> 0, abort |-> 0, expg |-> 0, sleep |-> 0, xok |-> 0, cfn |-> 1, onx |-> 0, res |-> 0],active |-> TRUE,dead |-> FALSE,l |-> 260,hascb |-> 1]),
    ([owed |-> 1,incb |-> 0,f |-> [stop |-> 0, abort |-> 0, expg |-> 0, sleep |-> 0, xok |-> 0, cfn |-> 0, onx |-> 0, res |-> 0],active |-> FALSE,dead |-> FALSE,l |-> 261,hascb |-> 1]),
    ([owed |-> 0,incb |-> 1,f |-> [stop |-> 0, abort |-> 0, expg |-> 0, sleep |-> 0, xok |-> 0, cfn |-> 0, onx |-> 0, res |-> 0],active |-> FALSE,dead |-> FALSE,l |-> 262,hascb |-> 1]),
    ([owed |-> 0,incb |-> 1,f |-> [stop |-> 0, abort |-> 0, expg |-> 0, sleep |-> 0, xok |-> 0, cfn |-> 1, onx |-> 0, res |-> 0],active |-> TRUE,dead |-> FALSE,l |-> 263,hascb |-> 1]),
    ([owed |-> 0,incb |-> 0,f |-> [stop |-> 0, abort |-> 0, expg |-> 0, sleep |-> 0, xok |-> 0, cfn |-> 1, onx |-> 0, res |-> 0],active |-> TRUE,dead |-> FALSE,l |-> 264,hascb |-> 1]),
    ([owed |-> 1,incb |-> 0,f |-> [stop |-> 0, abort |-> 0, expg |-> 0, sleep |-> 0, xok |-> 0, cfn |-> 0, onx |-> 0, res |-> 0],active |-> FALSE,dead |-> FALSE,l |-> 265,hascb |-> 1]),
    ([owed |-> 0,incb |-> 1,f |-> [stop |-> 0, abort |-> 0, expg |-> 0, sleep |-> 0, xok |-> 0, cfn |-> 0, onx |-> 0, res |-> 0],active |-> FALSE,dead |-> FALSE,l |-> 266,hascb |-> 1]),
    ([owed |-> 0,incb |-> 1,f |-> [stop |-> 0, abort |-> 0, expg |-> 0, sleep |-> 0, xok |-> 0, cfn |-> 1, onx |-> 0, res |-> 0],active |-> TRUE,dead |-> FALSE,l |-> 267,hascb |-> 1]),
    ([owed |-> 0,incb |-> 0,f |-> [stop |-> 0, abort |-> 0, expg |-> 0, sleep |-> 0, xok |-> 0, cfn |-> 1, onx |-> 0, res |-> 0],active |-> TRUE,dead |-> FALSE,l |-> 268,hascb |-> 1]),
    ([owed |-> 1,incb |-> 0,f |-> [stop |-> 0, abort |-> 0, expg |-> 0, sleep |-> 0, xok |-> 0, cfn |-> 0, onx |-> 0, res |-> 0],active |-> FALSE,dead |-> FALSE,l |-> 269,hascb |-> 1]),
    ([owed |-> 0,incb |-> 1,f |-> [stop |-> 0, abort |-> 0, expg |-> 0, sleep |-> 0, xok |-> 0, cfn |-> 0, onx |-> 0, res |-> 0],active |-> FALSE,dead |-> FALSE,l |-> 270,hascb |-> 1]),
    ([owed |-> 0,incb |-> 0,f |-> [stop |-> 0, abort |-> 0, expg |-> 0, sleep |-> 0, xok |-> 0, cfn |-> 0, onx |-> 0, res |-> 0],active |-> FALSE,dead |-> FALSE,l |-> 271,hascb |-> 1]),
    ([owed |-> 0,incb |-> 0,f |-> [stop |-> 1, abort |-> 0, expg |-> 0, sleep |-> 0, xok |-> 0, cfn |-> 0, onx |-> 0, res |-> 0],active |-> FALSE,dead |-> FALSE,l |-> 272,hascb |-> 1]),
    ([owed |-> 0,incb |-> 0,f |-> [stop |-> 1, abort |-> 0, expg |-> 0, sleep |-> 0, xok |-> 0, cfn |-> 0, onx |-> 0, res |-> 0],active |-> FALSE,dead |-> FALSE,l |-> 273,hascb |-> 1]),
    ([owed |-> 0,incb |-> 0,f |-> [stop |-> 1, abort |-> 0, expg |-> 0, sleep |-> 0, xok |-> 0, cfn |-> 0, onx |-> 0, res |-> 0],active |-> FALSE,dead |-> FALSE,l |-> 274,hascb |-> 1]),
    ([owed |-> 0,incb |-> 0,f |-> [stop |-> 1, abort |-> 0, expg |-> 0, sleep |-> 0, xok |-> 0, cfn |-> 0, onx |-> 0, res |-> 0],active |-> FALSE,dead |-> FALSE,l |-> 275,hascb |-> 1]),
    ([owed |-> 0,incb |-> 0,f |-> [stop |-> 1, abort |-> 0, expg |-> 0, sleep |-> 0, xok |-> 0, cfn |-> 0, onx |-> 0, res |-> 0],active |-> FALSE,dead |-> FALSE,l |-> 276,hascb |-> 1]),
    ([owed |-> 0,incb |-> 0,f |-> [stop |-> 1, abort |-> 0, expg |-> 0, sleep |-> 0, xok |-> 0, cfn |-> 0, onx |-> 0, res |-> 0],active |-> FALSE,dead |-> FALSE,l |-> 277,hascb |-> 1]),
    ([owed |-> 0,incb |-> 0,f |-> [stop |-> 1, abort |-> 0, expg |-> 0, sleep |-> 0, xok |-> 0, cfn |-> 0, onx |-> 0, res |-> 0],active |-> FALSE,dead |-> FALSE,l |-> 278,hascb |-> 1]),
    ([owed |-> 0,incb |-> 0,f |-> [stop |-> 1, abort |-> 0, expg |-> 0, sleep |-> 0, xok |-> 0, cfn |-> 0, onx |-> 0, res |-> 0],active |-> FALSE,dead |-> FALSE,l |-> 279,hascb |-> 1]),
    ([owed |-> 0,incb |-> 0,f |-> [stop |-> 1, abort |-> 0, expg |-> 0, sleep |-> 0, xok |-> 0, cfn |-> 0, onx |-> 0, res |-> 0],active |-> FALSE,dead |-> FALSE,l |-> 280,hascb |-> 1]),
    ([owed |-> 0,incb |-> 0,f |-> [stop |-> 0, abort |-> 0, expg |-> 0, sleep |-> 0, xok |-> 0, cfn |-> 0, onx |-> 0, res |-> 0],active |-> FALSE,dead |-> FALSE,l |-> 281,hascb |-> 1]),
    ([owed |-> 0,incb |-> 0,f |-> [stop |-> 0, abort |-> 0, expg |-> 0, sleep |-> 0, xok |-> 0, cfn |-> 1, onx |-> 0, res |-> 0],active |-> TRUE,dead |-> FALSE,l |-> 282,hascb |-> 1]),
    ([owed |-> 1,incb |-> 0,f |-> [stop |-> 0, abort |-> 0, expg |-> 0, sleep |-> 0, xok |-> 0, cfn |-> 0, onx |-> 0, res |-> 0],active |-> FALSE,dead |-> FALSE,l |-> 283,hascb |-> 1]),
    ([owed |-> 0,incb |-> 1,f |-> [stop |-> 0, abort |-> 0, expg |-> 0, sleep |-> 0, xok |-> 0, cfn |-> 0, onx |-> 0, res |-> 0],active |-> FALSE,dead |-> FALSE,l |-> 284,hascb |-> 1]),
    ([owed |-> 0,incb |-> 0,f |-> [stop |-> 0, abort |-> 0, expg |-> 0, sleep |-> 0, xok |-> 0, cfn |-> 0, onx |-> 0, res |-> 0],active |-> FALSE,dead |-> FALSE,l |-> 285,hascb |-> 1]),
    ([owed |-> 0,incb |-> 0,f |-> [stop |-> 1, abort |-> 0, expg |-> 0, sleep |-> 0, xok |-> 0, cfn |-> 0, onx |-> 0, res |-> 0],active |-> FALSE,dead |-> FALSE,l |-> 286,hascb |-> 1]),
    ([owed |-> 0,incb |-> 0,f |-> [stop |-> 1, abort |-> 0, expg |-> 0, sleep |-> 0, xok |-> 0, cfn |-> 0, onx |-> 0, res |-> 0],active |-> FALSE,dead |-> FALSE,l |-> 287,hascb |-> 1]),
    ([owed |-> 0,incb |-> 0,f |-> [stop |-> 1, abort |-> 0, expg |-> 0, sleep |-> 0, xok |-> 0, cfn |-> 0, onx |-> 0, res |-> 0],active |-> FALSE,dead |-> FALSE,l |-> 288,hascb |-> 1]),
    ([owed |-> 0,incb |-> 0,f |-> [stop |-> 1, abort |-> 0, expg |-> 0, sleep |-> 0, xok |-> 0, cfn |-> 0, onx |-> 0, res |-> 0],active |-> FALSE,dead |-> FALSE,l |-> 289,hascb |-> 1]),
    ([owed |-> 0,incb |-> 0,f |-> [stop |-> 1, abort |-> 0, expg |-> 0, sleep |-> 0, xok |-> 0, cfn |-> 0, onx |-> 0, res |-> 0],active |-> FALSE,dead |-> FALSE,l |-> 290,hascb |-> 1]),
    ([owed |-> 0,incb |-> 0,f |-> [stop |-> 1, abort |-> 0, expg |-> 0, sleep |-> 0, xok |-> 0, cfn |-> 0, onx |-> 0, res |-> 0],active |-> FALSE,dead |-> FALSE,l |-> 291,hascb |-> 1]),
    ([owed |-> 0,incb |-> 0,f |-> [stop |-> 1, abort |-> 0, expg |-> 0, sleep |-> 0, xok |-> 0, cfn |-> 0, onx |-> 0, res |-> 0],active |-> FALSE,dead |-> FALSE,l |-> 292,hascb |-> 1]),
    ([owed |-> 0,incb |-> 0,f |-> [stop |-> 1, abort |-> 0, expg |-> 0, sleep |-> 0, xok |-> 0, cfn |-> 0, onx |-> 0, res |-> 0],active |-> FALSE,dead |-> FALSE,l |-> 293,hascb |-> 1]),
    ([owed |-> 0,incb |-> 0,f |-> [stop |-> 0, abort |-> 0, expg |-> 0, sleep |-> 0, xok |-> 0, cfn |-> 0, onx |-> 0, res |-> 0],active |-> FALSE,dead |-> FALSE,l |-> 294,hascb |-> 1]),
    ([owed |-> 0,incb |-> 0,f |-> [stop |-> 0, abort |-> 0, expg |-> 0, sleep |-> 1, xok |-> 1, cfn |-> 1, onx |-> 1, res |-> 0],active |-> TRUE,dead |-> FALSE,l |-> 295,hascb |-> 1]),
    ([owed |-> 0,incb |-> 0,f |-> [stop |-> 1, abort |-> 0, expg |-> 0, sleep |-> 1, xok |-> 1, cfn |-> 0, onx |-> 0, res |-> 0],active |-> TRUE,dead |-> FALSE,l |-> 296,hascb |-> 1]),
    ([owed |-> 1,incb |-> 0,f |-> [stop |-> 1, abort |-> 0, expg |-> 0, sleep |-> 0, xok |-> 1, cfn |-> 0, onx |-> 0, res |-> 999],active |-> FALSE,dead |-> FALSE,l |-> 297,hascb |-> 1]),
    ([owed |-> 1,incb |-> 0,f |-> [stop |-> 1, abort |-> 0, expg |-> 0, sleep |-> 0, xok |-> 1, cfn |-> 0, onx |-> 0, res |-> 999],active |-> FALSE,dead |-> FALSE,l |-> 298,hascb |-> 1]),
    ([owed |-> 0,incb |-> 1,f |-> [stop |-> 1, abort |-> 0, expg |-> 0, sleep |-> 0, xok |-> 1, cfn |-> 0, onx |-> 0, res |-> 999],active |-> FALSE,dead |-> FALSE,l |-> 299,hascb |-> 1]),
    ([owed |-> 0,incb |-> 0,f |-> [stop |-> 1, abort |-> 0, expg |-> 0, sleep |-> 0, xok |-> 1, cfn |-> 0, onx |-> 0, res |-> 999],active |-> FALSE,dead |-> FALSE,l |-> 300,hascb |-> 1]),
    ([owed |-> 0,incb |-> 0,f |-> [stop |-> 1, abort |-> 0, expg |-> 0, sleep |-> 0, xok |-> 1, cfn |-> 0, onx |-> 0, res |-> 999],active |-> FALSE,dead |-> FALSE,l |-> 301,hascb |-> 1]),
    ([owed |-> 0,incb |-> 0,f |-> [stop |-> 1, abort |-> 0, expg |-> 0, sleep |-> 0, xok |-> 1, cfn |-> 0, onx |-> 0, res |-> 999],active |-> FALSE,dead |-> FALSE,l |-> 302,hascb |-> 1]),
    ([owed |-> 0,incb |-> 0,f |-> [stop |-> 1, abort |-> 0, expg |-> 0, sleep |-> 0, xok |-> 1, cfn |-> 0, onx |-> 0, res |-> 999],active |-> FALSE,dead |-> FALSE,l |-> 303,hascb |-> 1]),
    ([owed |-> 0,incb |-> 0,f |-> [stop |-> 1, abort |-> 0, expg |-> 0, sleep |-> 0, xok |-> 1, cfn |-> 0, onx |-> 0, res |-> 999],active |-> FALSE,dead |-> FALSE,l |-> 304,hascb |-> 1]),
    ([owed |-> 0,incb |-> 0,f |-> [stop |-> 1, abort |-> 0, expg |-> 0, sleep |-> 0, xok |-> 1, cfn |-> 0, onx |-> 0, res |-> 999],active |-> FALSE,dead |-> FALSE,l |-> 305,hascb |-> 1]),
    ([owed |-> 0,incb |-> 0,f |-> [stop |-> 1, abort |-> 0, expg |-> 0, sleep |-> 0, xok |-> 1, cfn |-> 0, onx |-> 0, res |-> 999],active |-> FALSE,dead |-> FALSE,l |-> 306,hascb |-> 1]),
    ([owed |-> 0,incb |-> 0,f |-> [stop |-> 0, abort |-> 0, expg |-> 0, sleep |-> 0, xok |-> 0, cfn |-> 0, onx |-> 0, res |-> 0],active |-> FALSE,dead |-> FALSE,l |-> 307,hascb |-> 0]),
    ([owed |-> 0,incb |-> 0,f |-> [stop |-> 0, abort |-> 0, expg |-> 0, sleep |-> 0, xok |-> 0, cfn |-> 0, onx |-> 0, res |-> 0],active |-> FALSE,dead |-> FALSE,l |-> 308,hascb |-> 0]),
    ([owed |-> 0,incb |-> 0,f |-> [stop |-> 1, abort |-> 0, expg |-> 0, sleep |-> 0, xok |-> 0, cfn |-> 0, onx |-> 0, res |-> 0],active |-> FALSE,dead |-> FALSE,l |-> 309,hascb |-> 0]),
    ([owed |-> 0,incb |-> 0,f |-> [stop |-> 1, abort |-> 0, expg |-> 0, sleep |-> 0, xok |-> 0, cfn |-> 0, onx |-> 0, res |-> 0],active |-> FALSE,dead |-> FALSE,l |-> 310,hascb |-> 0]),
    ([owed |-> 0,incb |-> 0,f |-> [stop |-> 1, abort |-> 0, expg |-> 0, sleep |-> 0, xok |-> 0, cfn |-> 0, onx |-> 0, res |-> 0],active |-> FALSE,dead |-> FALSE,l |-> 311,hascb |-> 0]),
    ([owed |-> 0,incb |-> 0,f |-> [stop |-> 0, abort |-> 0, expg |-> 0, sleep |-> 0, xok |-> 0, cfn |-> 0, onx |-> 0, res |-> 0],active |-> FALSE,dead |-> FALSE,l |-> 312,hascb |-> 0]),
    ([owed |-> 0,incb |-> 0,f |-> [stop |-> 0, abort |-> 0, expg |-> 0, sleep |-> 0, xok |-> 0, cfn |-> 0, onx |-> 0, res |-> 0],active |-> FALSE,dead |-> FALSE,l |-> 313,hascb |-> 0]),
    ([owed |-> 0,incb |-> 0,f |-> [stop |-> 1, abort |-> 0, expg |-> 0, sleep |-> 0, xok |-> 0, cfn |-> 0, onx |-> 0, res |-> 0],active |-> FALSE,dead |-> FALSE,l |-> 314,hascb |-> 0]),
    ([owed |-> 0,incb |-> 0,f |-> [stop |-> 1, abort |-> 0, expg |-> 0, sleep |-> 0, xok |-> 0, cfn |-> 0, onx |-> 0, res |-> 0],active |-> FALSE,dead |-> FALSE,l |-> 315,hascb |-> 0]),
    ([owed |-> 0,incb |-> 0,f |-> [stop |-> 1, abort |-> 0, expg |-> 0, sleep |-> 0, xok |-> 0, cfn |-> 0, onx |-> 0, res |-> 0],active |-> FALSE,dead |-> FALSE,l |-> 316,hascb |-> 0]),
    ([owed |-> 0,incb |-> 0,f |-> [stop |-> 0, abort |-> 0, expg |-> 0, sleep |-> 0, xok |-> 0, cfn |-> 0, onx |-> 0, res |-> 0],active |-> FALSE,dead |-> FALSE,l |-> 317,hascb |-> 0]),
    ([owed |-> 0,incb |-> 0,f |-> [stop |-> 0, abort |-> 0, expg |-> 0, sleep |-> 0, xok |-> 0, cfn |-> 0, onx |-> 0, res |-> 0],active |-> TRUE,dead |-> FALSE,l |-> 318,hascb |-> 0]),
    ([owed |-> 0,incb |-> 0,f |-> [stop |-> 0, abort |-> 0, expg |-> 0, sleep |-> 0, xok |-> 0, cfn |-> 0, onx |-> 0, res |-> 0],active |-> FALSE,dead |-> FALSE,l |-> 319,hascb |-> 0]),
    ([owed |-> 0,incb |-> 0,f |-> [stop |-> 0, abort |-> 0, expg |-> 0, sleep |-> 0, xok |-> 0, cfn |-> 0, onx |-> 0, res |-> 0],active |-> FALSE,dead |-> FALSE,l |-> 320,hascb |-> 0]),
    ([owed |-> 0,incb |-> 0,f |-> [stop |-> 0, abort |-> 0, expg |-> 0, sleep |-> 0, xok |-> 0, cfn |-> 0, onx |-> 0, res |-> 0],active |-> FALSE,dead |-> FALSE,l |-> 321,hascb |-> 0]),
    ([owed |-> 0,incb |-> 0,f |-> [stop |-> 1, abort |-> 0, expg |-> 0, sleep |-> 0, xok |-> 0, cfn |-> 0, onx |-> 0, res |-> 0],active |-> FALSE,dead |-> FALSE,l |-> 322,hascb |-> 0]),
    ([owed |-> 0,incb |-> 0,f |-> [stop |-> 1, abort |-> 0, expg |-> 0, sleep |-> 0, xok |-> 0, cfn |-> 0, onx |-> 0, res |-> 0],active |-> FALSE,dead |-> FALSE,l |-> 323,hascb |-> 0]),
    ([owed |-> 0,incb |-> 0,f |-> [stop |-> 1, abort |-> 0, expg |-> 0, sleep |-> 0, xok |-> 0, cfn |-> 0, onx |-> 0, res |-> 0],active |-> FALSE,dead |-> FALSE,l |-> 324,hascb |-> 0]),
    ([owed |-> 0,incb |-> 0,f |-> [stop |-> 0, abort |-> 0, expg |-> 0, sleep |-> 0, xok |-> 0, cfn |-> 0, onx |-> 0, res |-> 0],active |-> FALSE,dead |-> FALSE,l |-> 325,hascb |-> 0]),
    ([owed |-> 0,incb |-> 0,f |-> [stop |-> 0, abort |-> 0, expg |-> 0, sleep |-> 0, xok |-> 0, cfn |-> 0, onx |-> 0, res |-> 0],active |-> FALSE,dead |-> FALSE,l |-> 326,hascb |-> 0]),
    ([owed |-> 0,incb |-> 0,f |-> [stop |-> 1, abort |-> 0, expg |-> 0, sleep |-> 0, xok |-> 0, cfn |-> 0, onx |-> 0, res |-> 0],active |-> FALSE,dead |-> FALSE,l |-> 327,hascb |-> 0]),
    ([owed |-> 0,incb |-> 0,f |-> [stop |-> 1, abort |-> 0, expg |-> 0, sleep |-> 0, xok |-> 0, cfn |-> 0, onx |-> 0, res |-> 0],active |-> FALSE,dead |-> FALSE,l |-> 328,hascb |-> 0]),
    ([owed |-> 0,incb |-> 0,f |-> [stop |-> 1, abort |-> 0, expg |-> 0, sleep |-> 0, xok |-> 0, cfn |-> 0, onx |-> 0, res |-> 0],active |-> FALSE,dead |-> FALSE,l |-> 329,hascb |-> 0]),
    ([owed |-> 0,incb |-> 0,f |-> [stop |-> 0, abort |-> 0, expg |-> 0, sleep |-> 0, xok |-> 0, cfn |-> 0, onx |-> 0, res |-> 0],active |-> FALSE,dead |-> FALSE,l |-> 330,hascb |-> 0]),
    ([owed |-> 0,incb |-> 0,f |-> [stop |-> 0, abort |-> 0, expg |-> 0, sleep |-> 0, xok |-> 0, cfn |-> 0, onx |-> 0, res |-> 0],active |-> FALSE,dead |-> FALSE,l |-> 331,hascb |-> 0]),
    ([owed |-> 0,incb |-> 0,f |-> [stop |-> 1, abort |-> 0, expg |-> 0, sleep |-> 0, xok |-> 0, cfn |-> 0, onx |-> 0, res |-> 0],active |-> FALSE,dead |-> FALSE,l |-> 332,hascb |-> 0]),
    ([owed |-> 0,incb |-> 0,f |-> [stop |-> 1, abort |-> 0, expg |-> 0, sleep |-> 0, xok |-> 0, cfn |-> 0, onx |-> 0, res |-> 0],active |-> FALSE,dead |-> FALSE,l |-> 333,hascb |-> 0]),
    ([owed |-> 0,incb |-> 0,f |-> [stop |-> 1, abort |-> 0, expg |-> 0, sleep |-> 0, xok |-> 0, cfn |-> 0, onx |-> 0, res |-> 0],active |-> FALSE,dead |-> FALSE,l |-> 334,hascb |-> 0]),
    ([owed |-> 0,incb |-> 0,f |-> [stop |-> 0, abort |-> 0, expg |-> 0, sleep |-> 0, xok |-> 0, cfn |-> 0, onx |-> 0, res |-> 0],active |-> FALSE,dead |-> FALSE,l |-> 335,hascb |-> 0]),
    ([owed |-> 0,incb |-> 0,f |-> [stop |-> 0, abort |-> 0, expg |-> 0, sleep |-> 0, xok |-> 0, cfn |-> 1, onx |-> 1, res |-> 0],active |-> TRUE,dead |-> FALSE,l |-> 336,hascb |-> 0]),
    ([owed |-> 0,incb |-> 0,f |-> [stop |-> 0, abort |-> 0, expg |-> 0, sleep |-> 0, xok |-> 0, cfn |-> 0, onx |-> 0, res |-> 0],active |-> FALSE,dead |-> FALSE,l |-> 337,hascb |-> 0]),
    ([owed |-> 0,incb |-> 0,f |-> [stop |-> 0, abort |-> 0, expg |-> 0, sleep |-> 0, xok |-> 0, cfn |-> 0, onx |-> 0, res |-> 0],active |-> FALSE,dead |-> FALSE,l |-> 338,hascb |-> 0]),
    ([owed |-> 0,incb |-> 0,f |-> [stop |-> 0, abort |-> 0, expg |-> 0, sleep |-> 0, xok |-> 0, cfn |-> 0, onx |-> 0, res |-> 0],active |-> FALSE,dead |-> FALSE,l |-> 339,hascb |-> 0]),
    ([owed |-> 0,incb |-> 0,f |-> [stop |-> 1, abort |-> 0, expg |-> 0, sleep |-> 0, xok |-> 0, cfn |-> 0, onx |-> 0, res |-> 0],active |-> FALSE,dead |-> FALSE,l |-> 340,hascb |-> 0]),
    ([owed |-> 0,incb |-> 0,f |-> [stop |-> 1, abort |-> 0, expg |-> 0, sleep |-> 0, xok |-> 0, cfn |-> 0, onx |-> 0, res |-> 0],active |-> FALSE,dead |-> FALSE,l |-> 341,hascb |-> 0]),
    ([owed |-> 0,incb |-> 0,f |-> [stop |-> 1, abort |-> 0, expg |-> 0, sleep |-> 0, xok |-> 0, cfn |-> 0, onx |-> 0, res |-> 0],active |-> FALSE,dead |-> FALSE,l |-> 342,hascb |-> 0]),
    ([owed |-> 0,incb |-> 0,f |-> [stop |-> 0, abort |-> 0, expg |-> 0, sleep |-> 0, xok |-> 0, cfn |-> 0, onx |-> 0, res |-> 0],active |-> FALSE,dead |-> FALSE,l |-> 343,hascb |-> 1]),
    ([owed |-> 0,incb |-> 0,f |-> [stop |-> 0, abort |-> 0, expg |-> 0, sleep |-> 0, xok |-> 0, cfn |-> 1, onx |-> 0, res |-> 0],active |-> TRUE,dead |-> FALSE,l |-> 344,hascb |-> 1]),
    ([owed |-> 1,incb |-> 0,f |-> [stop |-> 0, abort |-> 0, expg |-> 0, sleep |-> 0, xok |-> 0, cfn |-> 0, onx |-> 0, res |-> 0],active |-> FALSE,dead |-> FALSE,l |-> 345,hascb |-> 1]),
    ([owed |-> 0,incb |-> 1,f |-> [stop |-> 0, abort |-> 0, expg |-> 0, sleep |-> 0, xok |-> 0, cfn |-> 0, onx |-> 0, res |-> 0],active |-> FALSE,dead |-> FALSE,l |-> 346,hascb |-> 1]),
    ([owed |-> 0,incb |-> 0,f |-> [stop |-> 0, abort |-> 0, expg |-> 0, sleep |-> 0, xok |-> 0, cfn |-> 0, onx |-> 0, res |-> 0],active |-> FALSE,dead |-> FALSE,l |-> 347,hascb |-> 1]),
    ([owed |-> 0,incb |-> 0,f |-> [stop |-> 0, abort |-> 0, expg |-> 0, sleep |-> 0, xok |-> 0, cfn |-> 1, onx |-> 0, res |-> 0],active |-> TRUE,dead |-> FALSE,l |-> 348,hascb |-> 1]),
    ([owed |-> 1,incb |-> 0,f |-> [stop |-> 0, abort |-> 0, expg |-> 0, sleep |-> 0, xok |-> 0, cfn |-> 0, onx |-> 0, res |-> 0],active |-> FALSE,dead |-> FALSE,l |-> 349,hascb |-> 1]),
    ([owed |-> 0,incb |-> 1,f |-> [stop |-> 0, abort |-> 0, expg |-> 0, sleep |-> 0, xok |-> 0, cfn |-> 0, onx |-> 0, res |-> 0],active |-> FALSE,dead |-> FALSE,l |-> 350,hascb |-> 1]),
    ([owed |-> 0,incb |-> 1,f |-> [stop |-> 0, abort |-> 0, expg |-> 0, sleep |-> 0, xok |-> 0, cfn |-> 1, onx |-> 0, res |-> 0],active |-> TRUE,dead |-> FALSE,l |-> 351,hascb |-> 1]),
    ([owed |-> 0,incb |-> 0,f |-> [stop |-> 0, abort |-> 0, expg |-> 0, sleep |-> 0, xok |-> 0, cfn |-> 1, onx |-> 0, res |-> 0],active |-> TRUE,dead |-> FALSE,l |-> 352,hascb |-> 1]),
    ([owed |-> 0,incb |-> 0,f |-> [stop |-> 1, abort |-> 0, expg |-> 0, sleep |-> 0, xok |-> 0, cfn |-> 0, onx |-> 0, res |-> 0],active |-> TRUE,dead |-> FALSE,l |-> 353,hascb |-> 1]),
    ([owed |-> 1,incb |-> 0,f |-> [stop |-> 1, abort |-> 0, expg |-> 0, sleep |-> 0, xok |-> 0, cfn |-> 0, onx |-> 0, res |-> 999],active |-> FALSE,dead |-> FALSE,l |-> 354,hascb |-> 1]),
    ([owed |-> 1,incb |-> 0,f |-> [stop |-> 1, abort |-> 0, expg |-> 0, sleep |-> 0, xok |-> 0, cfn |-> 0, onx |-> 0, res |-> 999],active |-> FALSE,dead |-> FALSE,l |-> 355,hascb |-> 1]),
    ([owed |-> 1,incb |-> 0,f |-> [stop |-> 1, abort |-> 0, expg |-> 0, sleep |-> 0, xok |-> 0, cfn |-> 0, onx |-> 0, res |-> 999],active |-> FALSE,dead |-> FALSE,l |-> 356,hascb |-> 1]),
    ([owed |-> 0,incb |-> 1,f |-> [stop |-> 1, abort |-> 0, expg |-> 0, sleep |-> 0, xok |-> 0, cfn |-> 0, onx |-> 0, res |-> 999],active |-> FALSE,dead |-> FALSE,l |-> 357,hascb |-> 1]),
    ([owed |-> 0,incb |-> 0,f |-> [stop |-> 1, abort |-> 0, expg |-> 0, sleep |-> 0, xok |-> 0, cfn |-> 0, onx |-> 0, res |-> 999],active |-> FALSE,dead |-> FALSE,l |-> 358,hascb |-> 1]),
    ([owed |-> 0,incb |-> 0,f |-> [stop |-> 1, abort |-> 0, expg |-> 0, sleep |-> 0, xok |-> 0, cfn |-> 0, onx |-> 0, res |-> 999],active |-> FALSE,dead |-> FALSE,l |-> 359,hascb |-> 1]),
    ([owed |-> 0,incb |-> 0,f |-> [stop |-> 1, abort |-> 0, expg |-> 0, sleep |-> 0, xok |-> 0, cfn |-> 0, onx |-> 0, res |-> 999],active |-> FALSE,dead |-> FALSE,l |-> 360,hascb |-> 1]),
    ([owed |-> 0,incb |-> 0,f |-> [stop |-> 1, abort |-> 0, expg |-> 0, sleep |-> 0, xok |-> 0, cfn |-> 0, onx |-> 0, res |-> 999],active |-> FALSE,dead |-> FALSE,l |-> 361,hascb |-> 1]),
    ([owed |-> 0,incb |-> 0,f |-> [stop |-> 1, abort |-> 0, expg |-> 0, sleep |-> 0, xok |-> 0, cfn |-> 0, onx |-> 0, res |-> 999],active |-> FALSE,dead |-> FALSE,l |-> 362,hascb |-> 1]),
    ([owed |-> 0,incb |-> 0,f |-> [stop |-> 1, abort |-> 0, expg |-> 0, sleep |-> 0, xok |-> 0, cfn |-> 0, onx |-> 0, res |-> 999],active |-> FALSE,dead |-> FALSE,l |-> 363,hascb |-> 1]),
    ([owed |-> 0,incb |-> 0,f |-> [stop |-> 1, abort |-> 0, expg |-> 0, sleep |-> 0, xok |-> 0, cfn |-> 0, onx |-> 0, res |-> 999],active |-> FALSE,dead |-> FALSE,l |-> 364,hascb |-> 1]),
    ([owed |-> 0,incb |-> 0,f |-> [stop |-> 0, abort |-> 0, expg |-> 0, sleep |-> 0, xok |-> 0, cfn |-> 0, onx |-> 0, res |-> 0],active |-> FALSE,dead |-> FALSE,l |-> 365,hascb |-> 1]),
    ([owed |-> 0,incb |-> 0,f |-> [stop |-> 0, abort |-> 0, expg |-> 0, sleep |-> 0, xok |-> 0, cfn |-> 1, onx |-> 0, res |-> 0],active |-> TRUE,dead |-> FALSE,l |-> 366,hascb |-> 1]),
    ([owed |-> 1,incb |-> 0,f |-> [stop |-> 0, abort |-> 0, expg |-> 0, sleep |-> 0, xok |-> 0, cfn |-> 0, onx |-> 0, res |-> 0],active |-> FALSE,dead |-> FALSE,l |-> 367,hascb |-> 1]),
    ([owed |-> 0,incb |-> 1,f |-> [stop |-> 0, abort |-> 0, expg |-> 0, sleep |-> 0, xok |-> 0, cfn |-> 0, onx |-> 0, res |-> 0],active |-> FALSE,dead |-> FALSE,l |-> 368,hascb |-> 1]),
    ([owed |-> 0,incb |-> 1,f |-> [stop |-> 0, abort |-> 0, expg |-> 0, sleep |-> 0, xok |-> 0, cfn |-> 1, onx |-> 0, res |-> 0],active |-> TRUE,dead |-> FALSE,l |-> 369,hascb |-> 1]),
    ([owed |-> 0,incb |-> 0,f |-> [stop |-> 0, abort |-> 0, expg |-> 0, sleep |-> 0, xok |-> 0, cfn |-> 1, onx |-> 0, res |-> 0],active |-> TRUE,dead |-> FALSE,l |-> 370,hascb |-> 1]),
    ([owed |-> 1,incb |-> 0,f |-> [stop |-> 0, abort |-> 0, expg |-> 0, sleep |-> 0, xok |-> 0, cfn |-> 0, onx |-> 0, res |-> 7],active |-> FALSE,dead |-> FALSE,l |-> 371,hascb |-> 1]),
    ([owed |-> 1,incb |-> 0,f |-> [stop |-> 1, abort |-> 0, expg |-> 0, sleep |-> 0, xok |-> 0, cfn |-> 0, onx |-> 0, res |-> 7],active |-> FALSE,dead |-> FALSE,l |-> 372,hascb |-> 1]),
    ([owed |-> 1,incb |-> 0,f |-> [stop |-> 1, abort |-> 0, expg |-> 0, sleep |-> 0, xok |-> 0, cfn |-> 0, onx |-> 0, res |-> 7],active |-> FALSE,dead |-> FALSE,l |-> 373,hascb |-> 1]),
    ([owed |-> 0,incb |-> 1,f |-> [stop |-> 1, abort |-> 0, expg |-> 0, sleep |-> 0, xok |-> 0, cfn |-> 0, onx |-> 0, res |-> 7],active |-> FALSE,dead |-> FALSE,l |-> 374,hascb |-> 1]),
    ([owed |-> 0,incb |-> 0,f |-> [stop |-> 1, abort |-> 0, expg |-> 0, sleep |-> 0, xok |-> 0, cfn |-> 0, onx |-> 0, res |-> 7],active |-> FALSE,dead |-> FALSE,l |-> 375,hascb |-> 1]),
    ([owed |-> 0,incb |-> 0,f |-> [stop |-> 1, abort |-> 0, expg |-> 0, sleep |-> 0, xok |-> 0, cfn |-> 0, onx |-> 0, res |-> 7],active |-> FALSE,dead |-> FALSE,l |-> 376,hascb |-> 1]),
    ([owed |-> 0,incb |-> 0,f |-> [stop |-> 1, abort |-> 0, expg |-> 0, sleep |-> 0, xok |-> 0, cfn |-> 0, onx |-> 0, res |-> 7],active |-> FALSE,dead |-> FALSE,l |-> 377,hascb |-> 1]),
    ([owed |-> 0,incb |-> 0,f |-> [stop |-> 1, abort |-> 0, expg |-> 0, sleep |-> 0, xok |-> 0, cfn |-> 0, onx |-> 0, res |-> 7],active |-> FALSE,dead |-> FALSE,l |-> 378,hascb |-> 1]),
    ([owed |-> 0,incb |-> 0,f |-> [stop |-> 1, abort |-> 0, expg |-> 0, sleep |-> 0, xok |-> 0, cfn |-> 0, onx |-> 0, res |-> 7],active |-> FALSE,dead |-> FALSE,l |-> 379,hascb |-> 1]),
    ([owed |-> 0,incb |-> 0,f |-> [stop |-> 1, abort |-> 0, expg |-> 0, sleep |-> 0, xok |-> 0, cfn |-> 0, onx |-> 0, res |-> 7],active |-> FALSE,dead |-> FALSE,l |-> 380,hascb |-> 1]),
    ([owed |-> 0,incb |-> 0,f |-> [stop |-> 1, abort |-> 0, expg |-> 0, sleep |-> 0, xok |-> 0, cfn |-> 0, onx |-> 0, res |-> 7],active |-> FALSE,dead |-> FALSE,l |-> 381,hascb |-> 1]),
    ([owed |-> 0,incb |-> 0,f |-> [stop |-> 0, abort |-> 0, expg |-> 0, sleep |-> 0, xok |-> 0, cfn |-> 0, onx |-> 0, res |-> 0],active |-> FALSE,dead |-> FALSE,l |-> 382,hascb |-> 1]),
    ([owed |-> 0,incb |-> 0,f |-> [stop |-> 1, abort |-> 0, expg |-> 0, sleep |-> 0, xok |-> 0, cfn |-> 0, onx |-> 0, res |-> 0],active |-> FALSE,dead |-> FALSE,l |-> 383,hascb |-> 1]),
    ([owed |-> 0,incb |-> 0,f |-> [stop |-> 1, abort |-> 0, expg |-> 0, sleep |-> 0, xok |-> 0, cfn |-> 0, onx |-> 0, res |-> 0],active |-> FALSE,dead |-> FALSE,l |-> 384,hascb |-> 1]),
    ([owed |-> 0,incb |-> 0,f |-> [stop |-> 1, abort |-> 0, expg |-> 0, sleep |-> 0, xok |-> 0, cfn |-> 0, onx |-> 0, res |-> 0],active |-> FALSE,dead |-> FALSE,l |-> 385,hascb |-> 1]),
    ([owed |-> 0,incb |-> 0,f |-> [stop |-> 1, abort |-> 0, expg |-> 0, sleep |-> 0, xok |-> 0, cfn |-> 0, onx |-> 0, res |-> 0],active |-> FALSE,dead |-> FALSE,l |-> 386,hascb |-> 1]),
    ([owed |-> 0,incb |-> 0,f |-> [stop |-> 1, abort |-> 0, expg |-> 0, sleep |-> 0, xok |-> 0, cfn |-> 0, onx |-> 0, res |-> 0],active |-> FALSE,dead |-> FALSE,l |-> 387,hascb |-> 1]),
    ([owed |-> 0,incb |-> 0,f |-> [stop |-> 1, abort |-> 0, expg |-> 0, sleep |-> 0, xok |-> 0, cfn |-> 0, onx |-> 0, res |-> 0],active |-> FALSE,dead |-> FALSE,l |-> 388,hascb |-> 1]),
    ([owed |-> 0,incb |-> 0,f |-> [stop |-> 1, abort |-> 0, expg |-> 0, sleep |-> 0, xok |-> 0, cfn |-> 0, onx |-> 0, res |-> 0],active |-> FALSE,dead |-> FALSE,l |-> 389,hascb |-> 1]),
    ([owed |-> 0,incb |-> 0,f |-> [stop |-> 1, abort |-> 0, expg |-> 0, sleep |-> 0, xok |-> 0, cfn |-> 0, onx |-> 0, res |-> 0],active |-> FALSE,dead |-> FALSE,l |-> 390,hascb |-> 1]),
    ([owed |-> 0,incb |-> 0,f |-> [stop |-> 0, abort |-> 0, expg |-> 0, sleep |-> 0, xok |-> 0, cfn |-> 0, onx |-> 0, res |-> 0],active |-> FALSE,dead |-> FALSE,l |-> 391,hascb |-> 1]),
    ([owed |-> 0,incb |-> 0,f |-> [stop |-> 0, abort |-> 0, expg |-> 0, sleep |-> 0, xok |-> 0, cfn |-> 1, onx |-> 0, res |-> 0],active |-> TRUE,dead |-> FALSE,l |-> 392,hascb |-> 1]),
    ([owed |-> 1,incb |-> 0,f |-> [stop |-> 0, abort |-> 0, expg |-> 0, sleep |-> 0, xok |-> 0, cfn |-> 0, onx |-> 0, res |-> 7],active |-> FALSE,dead |-> FALSE,l |-> 393,hascb |-> 1]),
    ([owed |-> 0,incb |-> 1,f |-> [stop |-> 0, abort |-> 0, expg |-> 0, sleep |-> 0, xok |-> 0, cfn |-> 0, onx |-> 0, res |-> 7],active |-> FALSE,dead |-> FALSE,l |-> 394,hascb |-> 1]),
    ([owed |-> 0,incb |-> 0,f |-> [stop |-> 0, abort |-> 0, expg |-> 0, sleep |-> 0, xok |-> 0, cfn |-> 0, onx |-> 0, res |-> 7],active |-> FALSE,dead |-> FALSE,l |-> 395,hascb |-> 1]),
    ([owed |-> 0,incb |-> 0,f |-> [stop |-> 1, abort |-> 0, expg |-> 0, sleep |-> 0, xok |-> 0, cfn |-> 0, onx |-> 0, res |-> 7],active |-> FALSE,dead |-> FALSE,l |-> 396,hascb |-> 1]),
    ([owed |-> 0,incb |-> 0,f |-> [stop |-> 1, abort |-> 0, expg |-> 0, sleep |-> 0, xok |-> 0, cfn |-> 0, onx |-> 0, res |-> 7],active |-> FALSE,dead |-> FALSE,l |-> 397,hascb |-> 1]),
    ([owed |-> 0,incb |-> 0,f |-> [stop |-> 1, abort |-> 0, expg |-> 0, sleep |-> 0, xok |-> 0, cfn |-> 0, onx |-> 0, res |-> 7],active |-> FALSE,dead |-> FALSE,l |-> 398,hascb |-> 1]),
    ([owed |-> 0,incb |-> 0,f |-> [stop |-> 1, abort |-> 0, expg |-> 0, sleep |-> 0, xok |-> 0, cfn |-> 0, onx |-> 0, res |-> 7],active |-> FALSE,dead |-> FALSE,l |-> 399,hascb |-> 1]),
    ([owed |-> 0,incb |-> 0,f |-> [stop |-> 1, abort |-> 0, expg |-> 0, sleep |-> 0, xok |-> 0, cfn |-> 0, onx |-> 0, res |-> 7],active |-> FALSE,dead |-> FALSE,l |-> 400,hascb |-> 1]),
    ([owed |-> 0,incb |-> 0,f |-> [stop |-> 1, abort |-> 0, expg |-> 0, sleep |-> 0, xok |-> 0, cfn |-> 0, onx |-> 0, res |-> 7],active |-> FALSE,dead |-> FALSE,l |-> 401,hascb |-> 1]),
    ([owed |-> 0,incb |-> 0,f |-> [stop |-> 1, abort |-> 0, expg |-> 0, sleep |-> 0, xok |-> 0, cfn |-> 0, onx |-> 0, res |-> 7],active |-> FALSE,dead |-> FALSE,l |-> 402,hascb |-> 1]),
    ([owed |-> 0,incb |-> 0,f |-> [stop |-> 1, abort |-> 0, expg |-> 0, sleep |-> 0, xok |-> 0, cfn |-> 0, onx |-> 0, res |-> 7],active |-> FALSE,dead |-> FALSE,l |-> 403,hascb |-> 1]),
    ([owed |-> 0,incb |-> 0,f |-> [stop |-> 1, abort |-> 0, expg |-> 0, sleep |-> 0, xok |-> 0, cfn |-> 0, onx |-> 0, res |-> 7],active |-> FALSE,dead |-> FALSE,l |-> 404,hascb |-> 1]),
    ([owed |-> 0,incb |-> 0,f |-> [stop |-> 0, abort |-> 0, expg |-> 0, sleep |-> 0, xok |-> 0, cfn |-> 0, onx |-> 0, res |-> 0],active |-> FALSE,dead |-> FALSE,l |-> 405,hascb |-> 1]),
    ([owed |-> 0,incb |-> 0,f |-> [stop |-> 0, abort |-> 0, expg |-> 0, sleep |-> 0, xok |-> 0, cfn |-> 1, onx |-> 0, res |-> 0],active |-> TRUE,dead |-> FALSE,l |-> 406,hascb |-> 1]),
    ([owed |-> 1,incb |-> 0,f |-> [stop |-> 0, abort |-> 0, expg |-> 0, sleep |-> 0, xok |-> 0, cfn |-> 0, onx |-> 0, res |-> 0],active |-> FALSE,dead |-> FALSE,l |-> 407,hascb |-> 1]),
    ([owed |-> 0,incb |-> 1,f |-> [stop |-> 0, abort |-> 0, expg |-> 0, sleep |-> 0, xok |-> 0, cfn |-> 0, onx |-> 0, res |-> 0],active |-> FALSE,dead |-> FALSE,l |-> 408,hascb |-> 1]),
    ([owed |-> 0,incb |-> 0,f |-> [stop |-> 0, abort |-> 0, expg |-> 0, sleep |-> 0, xok |-> 0, cfn |-> 0, onx |-> 0, res |-> 0],active |-> FALSE,dead |-> FALSE,l |-> 409,hascb |-> 1]),
    ([owed |-> 0,incb |-> 0,f |-> [stop |-> 0, abort |-> 0, expg |-> 0, sleep |-> 0, xok |-> 0, cfn |-> 1, onx |-> 0, res |-> 0],active |-> TRUE,dead |-> FALSE,l |-> 410,hascb |-> 1]),
    ([owed |-> 1,incb |-> 0,f |-> [stop |-> 0, abort |-> 0, expg |-> 0, sleep |-> 0, xok |-> 0, cfn |-> 0, onx |-> 0, res |-> 0],active |-> FALSE,dead |-> FALSE,l |-> 411,hascb |-> 1]),
    ([owed |-> 0,incb |-> 1,f |-> [stop |-> 0, abort |-> 0, expg |-> 0, sleep |-> 0, xok |-> 0, cfn |-> 0, onx |-> 0, res |-> 0],active |-> FALSE,dead |-> FALSE,l |-> 412,hascb |-> 1]),
    ([owed |-> 0,incb |-> 0,f |-> [stop |-> 0, abort |-> 0, expg |-> 0, sleep |-> 0, xok |-> 0, cfn |-> 0, onx |-> 0, res |-> 0],active |-> FALSE,dead |-> FALSE,l |-> 413,hascb |-> 1]),
    ([owed |-> 0,incb |-> 0,f |-> [stop |-> 1, abort |-> 0, expg |-> 0, sleep |-> 0, xok |-> 0, cfn |-> 0, onx |-> 0, res |-> 0],active |-> FALSE,dead |-> FALSE,l |-> 414,hascb |-> 1]),
    ([owed |-> 0,incb |-> 0,f |-> [stop |-> 1, abort |-> 0, expg |-> 0, sleep |-> 0, xok |-> 0, cfn |-> 0, onx |-> 0, res |-> 0],active |-> FALSE,dead |-> FALSE,l |-> 415,hascb |-> 1]),
    ([owed |-> 0,incb |-> 0,f |-> [stop |-> 1, abort |-> 0, expg |-> 0, sleep |-> 0, xok |-> 0, cfn |-> 0, onx |-> 0, res |-> 0],active |-> FALSE,dead |-> FALSE,l |-> 416,hascb |-> 1]),
    ([owed |-> 0,incb |-> 0,f |-> [stop |-> 1, abort |-> 0, expg |-> 0, sleep |-> 0, xok |-> 0, cfn |-> 0, onx |-> 0, res |-> 0],active |-> FALSE,dead |-> FALSE,l |-> 417,hascb |-> 1]),
    ([owed |-> 0,incb |-> 0,f |-> [stop |-> 1, abort |-> 0, expg |-> 0, sleep |-> 0, xok |-> 0, cfn |-> 0, onx |-> 0, res |-> 0],active |-> FALSE,dead |-> FALSE,l |-> 418,hascb |-> 1]),
    ([owed |-> 0,incb |-> 0,f |-> [stop |-> 1, abort |-> 0, expg |-> 0, sleep |-> 0, xok |-> 0, cfn |-> 0, onx |-> 0, res |-> 0],active |-> FALSE,dead |-> FALSE,l |-> 419,hascb |-> 1]),
    ([owed |-> 0,incb |-> 0,f |-> [stop |-> 1, abort |-> 0, expg |-> 0, sleep |-> 0, xok |-> 0, cfn |-> 0, onx |-> 0, res |-> 0],active |-> FALSE,dead |-> FALSE,l |-> 420,hascb |-> 1]),
    ([owed |-> 0,incb |-> 0,f |-> [stop |-> 1, abort |-> 0, expg |-> 0, sleep |-> 0, xok |-> 0, cfn |-> 0, onx |-> 0, res |-> 0],active |-> FALSE,dead |-> FALSE,l |-> 421,hascb |-> 1]),
    ([owed |-> 0,incb |-> 0,f |-> [stop |-> 1, abort |-> 0, expg |-> 0, sleep |-> 0, xok |-> 0, cfn |-> 0, onx |-> 0, res |-> 0],active |-> FALSE,dead |-> FALSE,l |-> 422,hascb |-> 1]),
    ([owed |-> 0,incb |-> 0,f |-> [stop |-> 0, abort |-> 0, expg |-> 0, sleep |-> 0, xok |-> 0, cfn |-> 0, onx |-> 0, res |-> 0],active |-> FALSE,dead |-> FALSE,l |-> 423,hascb |-> 0]),
    ([owed |-> 0,incb |-> 0,f |-> [stop |-> 0, abort |-> 0, expg |-> 0, sleep |-> 0, xok |-> 0, cfn |-> 0, onx |-> 0, res |-> 0],active |-> FALSE,dead |-> FALSE,l |-> 424,hascb |-> 0]),
    ([owed |-> 0,incb |-> 0,f |-> [stop |-> 1, abort |-> 0, expg |-> 0, sleep |-> 0, xok |-> 0, cfn |-> 0, onx |-> 0, res |-> 0],active |-> FALSE,dead |-> FALSE,l |-> 425,hascb |-> 0]),
    ([owed |-> 0,incb |-> 0,f |-> [stop |-> 1, abort |-> 0, expg |-> 0, sleep |-> 0, xok |-> 0, cfn |-> 0, onx |-> 0, res |-> 0],active |-> FALSE,dead |-> FALSE,l |-> 426,hascb |-> 0]),
    ([owed |-> 0,incb |-> 0,f |-> [stop |-> 1, abort |-> 0, expg |-> 0, sleep |-> 0, xok |-> 0, cfn |-> 0, onx |-> 0, res |-> 0],active |-> FALSE,dead |-> FALSE,l |-> 427,hascb |-> 0]),
    ([owed |-> 0,incb |-> 0,f |-> [stop |-> 0, abort |-> 0, expg |-> 0, sleep |-> 0, xok |-> 0, cfn |-> 0, onx |-> 0, res |-> 0],active |-> FALSE,dead |-> FALSE,l |-> 428,hascb |-> 0]),
    ([owed |-> 0,incb |-> 0,f |-> [stop |-> 0, abort |-> 0, expg |-> 0, sleep |-> 0, xok |-> 0, cfn |-> 0, onx |-> 0, res |-> 0],active |-> TRUE,dead |-> FALSE,l |-> 429,hascb |-> 0]),
    ([owed |-> 0,incb |-> 0,f |-> [stop |-> 0, abort |-> 0, expg |-> 0, sleep |-> 0, xok |-> 0, cfn |-> 0, onx |-> 0, res |-> 0],active |-> FALSE,dead |-> FALSE,l |-> 430,hascb |-> 0]),
    ([owed |-> 0,incb |-> 0,f |-> [stop |-> 0, abort |-> 0, expg |-> 0, sleep |-> 0, xok |-> 0, cfn |-> 0, onx |-> 0, res |-> 0],active |-> FALSE,dead |-> FALSE,l |-> 431,hascb |-> 0]),
    ([owed |-> 0,incb |-> 0,f |-> [stop |-> 0, abort |-> 0, expg |-> 0, sleep |-> 0, xok |-> 0, cfn |-> 0, onx |-> 0, res |-> 0],active |-> FALSE,dead |-> FALSE,l |-> 432,hascb |-> 0]),
    ([owed |-> 0,incb |-> 0,f |-> [stop |-> 1, abort |-> 0, expg |-> 0, sleep |-> 0, xok |-> 0, cfn |-> 0, onx |-> 0, res |-> 0],active |-> FALSE,dead |-> FALSE,l |-> 433,hascb |-> 0]),
    ([owed |-> 0,incb |-> 0,f |-> [stop |-> 1, abort |-> 0, expg |-> 0, sleep |-> 0, xok |-> 0, cfn |-> 0, onx |-> 0, res |-> 0],active |-> FALSE,dead |-> FALSE,l |-> 434,hascb |-> 0]),
    ([owed |-> 0,incb |-> 0,f |-> [stop |-> 1, abort |-> 0, expg |-> 0, sleep |-> 0, xok |-> 0, cfn |-> 0, onx |-> 0, res |-> 0],active |-> FALSE,dead |-> FALSE,l |-> 435,hascb |-> 0]),
    ([owed |-> 0,incb |-> 0,f |-> [stop |-> 0, abort |-> 0, expg |-> 0, sleep |-> 0, xok |-> 0, cfn |-> 0, onx |-> 0, res |-> 0],active |-> FALSE,dead |-> FALSE,l |-> 436,hascb |-> 0]),
    ([owed |-> 0,incb |-> 0,f |-> [stop |-> 0, abort |-> 0, expg |-> 0, sleep |-> 0, xok |-> 0, cfn |-> 0, onx |-> 0, res |-> 0],active |-> FALSE,dead |-> FALSE,l |-> 437,hascb |-> 0]),
    ([owed |-> 0,incb |-> 0,f |-> [stop |-> 1, abort |-> 0, expg |-> 0, sleep |-> 0, xok |-> 0, cfn |-> 0, onx |-> 0, res |-> 0],active |-> FALSE,dead |-> FALSE,l |-> 438,hascb |-> 0]),
    ([owed |-> 0,incb |-> 0,f |-> [stop |-> 1, abort |-> 0, expg |-> 0, sleep |-> 0, xok |-> 0, cfn |-> 0, onx |-> 0, res |-> 0],active |-> FALSE,dead |-> FALSE,l |-> 439,hascb |-> 0]),
    ([owed |-> 0,incb |-> 0,f |-> [stop |-> 1, abort |-> 0, expg |-> 0, sleep |-> 0, xok |-> 0, cfn |-> 0, onx |-> 0, res |-> 0],active |-> FALSE,dead |-> FALSE,l |-> 440,hascb |-> 0]),
    ([owed |-> 0,incb |-> 0,f |-> [stop |-> 0, abort |-> 0, expg |-> 0, sleep |-> 0, xok |-> 0, cfn |-> 0, onx |-> 0, res |-> 0],active |-> FALSE,dead |-> FALSE,l |-> 441,hascb |-> 0]),
    ([owed |-> 0,incb |-> 0,f |-> [stop |-> 0, abort |-> 0, expg |-> 0, sleep |-> 0, xok |-> 0, cfn |-> 1, onx |-> 0, res |-> 0],active |-> TRUE,dead |-> FALSE,l |-> 442,hascb |-> 0]),
    ([owed |-> 0,incb |-> 0,f |-> [stop |-> 0, abort |-> 0, expg |-> 0, sleep |-> 0, xok |-> 0, cfn |-> 0, onx |-> 0, res |-> 0],active |-> FALSE,dead |-> FALSE,l |-> 443,hascb |-> 0]),
    ([owed |-> 0,incb |-> 0,f |-> [stop |-> 0, abort |-> 0, expg |-> 0, sleep |-> 0, xok |-> 0, cfn |-> 0, onx |-> 0, res |-> 0],active |-> FALSE,dead |-> FALSE,l |-> 444,hascb |-> 0]),
    ([owed |-> 0,incb |-> 0,f |-> [stop |-> 0, abort |-> 0, expg |-> 0, sleep |-> 0, xok |-> 0, cfn |-> 0, onx |-> 0, res |-> 0],active |-> FALSE,dead |-> FALSE,l |-> 445,hascb |-> 0]),
    ([owed |-> 0,incb |-> 0,f |-> [stop |-> 1, abort |-> 0, expg |-> 0, sleep |-> 0, xok |-> 0, cfn |-> 0, onx |-> 0, res |-> 0],active |-> FALSE,dead |-> FALSE,l |-> 446,hascb |-> 0]),
    ([owed |-> 0,incb |-> 0,f |-> [stop |-> 1, abort |-> 0, expg |-> 0, sleep |-> 0, xok |-> 0, cfn |-> 0, onx |-> 0, res |-> 0],active |-> FALSE,dead |-> FALSE,l |-> 447,hascb |-> 0]),
    ([owed |-> 0,incb |-> 0,f |-> [stop |-> 1, abort |-> 0, expg |-> 0, sleep |-> 0, xok |-> 0, cfn |-> 0, onx |-> 0, res |-> 0],active |-> FALSE,dead |-> FALSE,l |-> 448,hascb |-> 0]),
    ([owed |-> 0,incb |-> 0,f |-> [stop |-> 0, abort |-> 0, expg |-> 0, sleep |-> 0, xok |-> 0, cfn |-> 0, onx |-> 0, res |-> 0],active |-> FALSE,dead |-> FALSE,l |-> 449,hascb |-> 1]),
    ([owed |-> 0,incb |-> 0,f |-> [stop |-> 0, abort |-> 0, expg |-> 0, sleep |-> 0, xok |-> 0, cfn |-> 1, onx |-> 0, res |-> 0],active |-> TRUE,dead |-> FALSE,l |-> 450,hascb |-> 1]),
    ([owed |-> 1,incb |-> 0,f |-> [stop |-> 0, abort |-> 0, expg |-> 0, sleep |-> 0, xok |-> 0, cfn |-> 0, onx |-> 0, res |-> 0],active |-> FALSE,dead |-> FALSE,l |-> 451,hascb |-> 1]),
    ([owed |-> 0,incb |-> 1,f |-> [stop |-> 0, abort |-> 0, expg |-> 0, sleep |-> 0, xok |-> 0, cfn |-> 0, onx |-> 0, res |-> 0],active |-> FALSE,dead |-> FALSE,l |-> 452,hascb |-> 1]),
    ([owed |-> 0,incb |-> 1,f |-> [stop |-> 0, abort |-> 0, expg |-> 0, sleep |-> 0, xok |-> 0, cfn |-> 1, onx |-> 0, res |-> 0],active |-> TRUE,dead |-> FALSE,l |-> 453,hascb |-> 1]),
    ([owed |-> 0,incb |-> 0,f |-> [stop |-> 0, abort |-> 0, expg |-> 0, sleep |-> 0, xok |-> 0, cfn |-> 1, onx |-> 0, res |-> 0],active |-> TRUE,dead |-> FALSE,l |-> 454,hascb |-> 1]),
    ([owed |-> 0,incb |-> 0,f |-> [stop |-> 1, abort |-> 0, expg |-> 0, sleep |-> 0, xok |-> 0, cfn |-> 0, onx |-> 0, res |-> 0],active |-> TRUE,dead |-> FALSE,l |-> 455,hascb |-> 1]),
    ([owed |-> 1,incb |-> 0,f |-> [stop |-> 1, abort |-> 0, expg |-> 0, sleep |-> 0, xok |-> 0, cfn |-> 0, onx |-> 0, res |-> 999],active |-> FALSE,dead |-> FALSE,l |-> 456,hascb |-> 1]),
    ([owed |-> 1,incb |-> 0,f |-> [stop |-> 1, abort |-> 0, expg |-> 0, sleep |-> 0, xok |-> 0, cfn |-> 0, onx |-> 0, res |-> 999],active |-> FALSE,dead |-> FALSE,l |-> 457,hascb |-> 1]),
    ([owed |-> 0,incb |-> 1,f |-> [stop |-> 1, abort |-> 0, expg |-> 0, sleep |-> 0, xok |-> 0, cfn |-> 0, onx |-> 0, res |-> 999],active |-> FALSE,dead |-> FALSE,l |-> 458,hascb |-> 1]),
    ([owed |-> 0,incb |-> 0,f |-> [stop |-> 1, abort |-> 0, expg |-> 0, sleep |-> 0, xok |-> 0, cfn |-> 0, onx |-> 0, res |-> 999],active |-> FALSE,dead |-> FALSE,l |-> 459,hascb |-> 1]),
    ([owed |-> 0,incb |-> 0,f |-> [stop |-> 1, abort |-> 0, expg |-> 0, sleep |-> 0, xok |-> 0, cfn |-> 0, onx |-> 0, res |-> 999],active |-> FALSE,dead |-> FALSE,l |-> 460,hascb |-> 1]),
    ([owed |-> 0,incb |-> 0,f |-> [stop |-> 1, abort |-> 0, expg |-> 0, sleep |-> 0, xok |-> 0, cfn |-> 0, onx |-> 0, res |-> 999],active |-> FALSE,dead |-> FALSE,l |-> 461,hascb |-> 1]),
    ([owed |-> 0,incb |-> 0,f |-> [stop |-> 1, abort |-> 0, expg |-> 0, sleep |-> 0, xok |-> 0, cfn |-> 0, onx |-> 0, res |-> 999],active |-> FALSE,dead |-> FALSE,l |-> 462,hascb |-> 1]),
    ([owed |-> 0,incb |-> 0,f |-> [stop |-> 1, abort |-> 0, expg |-> 0, sleep |-> 0, xok |-> 0, cfn |-> 0, onx |-> 0, res |-> 999],active |-> FALSE,dead |-> FALSE,l |-> 463,hascb |-> 1]),
    ([owed |-> 0,incb |-> 0,f |-> [stop |-> 1, abort |-> 0, expg |-> 0, sleep |-> 0, xok |-> 0, cfn |-> 0, onx |-> 0, res |-> 999],active |-> FALSE,dead |-> FALSE,l |-> 464,hascb |-> 1]),
    ([owed |-> 0,incb |-> 0,f |-> [stop |-> 1, abort |-> 0, expg |-> 0, sleep |-> 0, xok |-> 0, cfn |-> 0, onx |-> 0, res |-> 999],active |-> FALSE,dead |-> FALSE,l |-> 465,hascb |-> 1]),
    ([owed |-> 0,incb |-> 0,f |-> [stop |-> 1, abort |-> 0, expg |-> 0, sleep |-> 0, xok |-> 0, cfn |-> 0, onx |-> 0, res |-> 999],active |-> FALSE,dead |-> FALSE,l |-> 466,hascb |-> 1]),
    ([owed |-> 0,incb |-> 0,f |-> [stop |-> 0, abort |-> 0, expg |-> 0, sleep |-> 0, xok |-> 0, cfn |-> 0, onx |-> 0, res |-> 0],active |-> FALSE,dead |-> FALSE,l |-> 467,hascb |-> 1]),
    ([owed |-> 0,incb |-> 0,f |-> [stop |-> 0, abort |-> 0, expg |-> 0, sleep |-> 0, xok |-> 0, cfn |-> 1, onx |-> 0, res |-> 0],active |-> TRUE,dead |-> FALSE,l |-> 468,hascb |-> 1]),
    ([owed |-> 1,incb |-> 0,f |-> [stop |-> 0, abort |-> 0, expg |-> 0, sleep |-> 0, xok |-> 0, cfn |-> 0, onx |-> 0, res |-> 0],active |-> FALSE,dead |-> FALSE,l |-> 469,hascb |-> 1]),
    ([owed |-> 0,incb |-> 1,f |-> [stop |-> 0, abort |-> 0, expg |-> 0, sleep |-> 0, xok |-> 0, cfn |-> 0, onx |-> 0, res |-> 0],active |-> FALSE,dead |-> FALSE,l |-> 470,hascb |-> 1]),
    ([owed |-> 0,incb |-> 0,f |-> [stop |-> 0, abort |-> 0, expg |-> 0, sleep |-> 0, xok |-> 0, cfn |-> 0, onx |-> 0, res |-> 0],active |-> FALSE,dead |-> FALSE,l |-> 471,hascb |-> 1]),
    ([owed |-> 0,incb |-> 0,f |-> [stop |-> 1, abort |-> 0, expg |-> 0, sleep |-> 0, xok |-> 0, cfn |-> 0, onx |-> 0, res |-> 0],active |-> FALSE,dead |-> FALSE,l |-> 472,hascb |-> 1]),
    ([owed |-> 0,incb |-> 0,f |-> [stop |-> 1, abort |-> 0, expg |-> 0, sleep |-> 0, xok |-> 0, cfn |-> 0, onx |-> 0, res |-> 0],active |-> FALSE,dead |-> FALSE,l |-> 473,hascb |-> 1]),
    ([owed |-> 0,incb |-> 0,f |-> [stop |-> 1, abort |-> 0, expg |-> 0, sleep |-> 0, xok |-> 0, cfn |-> 0, onx |-> 0, res |-> 0],active |-> FALSE,dead |-> FALSE,l |-> 474,hascb |-> 1]),
    ([owed |-> 0,incb |-> 0,f |-> [stop |-> 1, abort |-> 0, expg |-> 0, sleep |-> 0, xok |-> 0, cfn |-> 0, onx |-> 0, res |-> 0],active |-> FALSE,dead |-> FALSE,l |-> 475,hascb |-> 1]),
    ([owed |-> 0,incb |-> 0,f |-> [stop |-> 1, abort |-> 0, expg |-> 0, sleep |-> 0, xok |-> 0, cfn |-> 0, onx |-> 0, res |-> 0],active |-> FALSE,dead |-> FALSE,l |-> 476,hascb |-> 1]),
    ([owed |-> 0,incb |-> 0,f |-> [stop |-> 1, abort |-> 0, expg |-> 0, sleep |-> 0, xok |-> 0, cfn |-> 0, onx |-> 0, res |-> 0],active |-> FALSE,dead |-> FALSE,l |-> 477,hascb |-> 1]),
    ([owed |-> 0,incb |-> 0,f |-> [stop |-> 1, abort |-> 0, expg |-> 0, sleep |-> 0, xok |-> 0, cfn |-> 0, onx |-> 0, res |-> 0],active |-> FALSE,dead |-> FALSE,l |-> 478,hascb |-> 1]),
    ([owed |-> 0,incb |-> 0,f |-> [stop |-> 1, abort |-> 0, expg |-> 0, sleep |-> 0, xok |-> 0, cfn |-> 0, onx |-> 0, res |-> 0],active |-> FALSE,dead |-> FALSE,l |-> 479,hascb |-> 1]),
    ([owed |-> 0,incb |-> 0,f |-> [stop |-> 0, abort |-> 0, expg |-> 0, sleep |-> 0, xok |-> 0, cfn |-> 0, onx |-> 0, res |-> 0],active |-> FALSE,dead |-> FALSE,l |-> 480,hascb |-> 1]),
    ([owed |-> 0,incb |-> 0,f |-> [stop |-> 1, abort |-> 0, expg |-> 0, sleep |-> 0, xok |-> 0, cfn |-> 0, onx |-> 0, res |-> 0],active |-> FALSE,dead |-> FALSE,l |-> 481,hascb |-> 1]),
    ([owed |-> 0,incb |-> 0,f |-> [stop |-> 1, abort |-> 0, expg |-> 0, sleep |-> 0, xok |-> 0, cfn |-> 0, onx |-> 0, res |-> 0],active |-> FALSE,dead |-> FALSE,l |-> 482,hascb |-> 1]),
    ([owed |-> 0,incb |-> 0,f |-> [stop |-> 1, abort |-> 0, expg |-> 0, sleep |-> 0, xok |-> 0, cfn |-> 0, onx |-> 0, res |-> 0],active |-> FALSE,dead |-> FALSE,l |-> 483,hascb |-> 1]),
    ([owed |-> 0,incb |-> 0,f |-> [stop |-> 1, abort |-> 0, expg |-> 0, sleep |-> 0, xok |-> 0, cfn |-> 0, onx |-> 0, res |-> 0],active |-> FALSE,dead |-> FALSE,l |-> 484,hascb |-> 1]),
    ([owed |-> 0,incb |-> 0,f |-> [stop |-> 1, abort |-> 0, expg |-> 0, sleep |-> 0, xok |-> 0, cfn |-> 0, onx |-> 0, res |-> 0],active |-> FALSE,dead |-> FALSE,l |-> 485,hascb |-> 1]),
    ([owed |-> 1,incb |-> 0,f |-> [stop |-> 1, abort |-> 0, expg |-> 0, sleep |-> 0, xok |-> 0, cfn |-> 0, onx |-> 0, res |-> 999],active |-> FALSE,dead |-> TRUE,l |-> 486,hascb |-> 1]),
    ([owed |-> 0,incb |-> 1,f |-> [stop |-> 1, abort |-> 0, expg |-> 0, sleep |-> 0, xok |-> 0, cfn |-> 0, onx |-> 0, res |-> 999],active |-> FALSE,dead |-> TRUE,l |-> 487,hascb |-> 1]),
    ([owed |-> 0,incb |-> 1,f |-> [stop |-> 1, abort |-> 0, expg |-> 0, sleep |-> 0, xok |-> 0, cfn |-> 0, onx |-> 0, res |-> 999],active |-> FALSE,dead |-> TRUE,l |-> 488,hascb |-> 1]),
    ([owed |-> 0,incb |-> 0,f |-> [stop |-> 1, abort |-> 0, expg |-> 0, sleep |-> 0, xok |-> 0, cfn |-> 0, onx |-> 0, res |-> 999],active |-> FALSE,dead |-> FALSE,l |-> 489,hascb |-> 1]),
    ([owed |-> 0,incb |-> 0,f |-> [stop |-> 1, abort |-> 0, expg |-> 0, sleep |-> 0, xok |-> 0, cfn |-> 0, onx |-> 0, res |-> 999],active |-> FALSE,dead |-> FALSE,l |-> 490,hascb |-> 1]),
    ([owed |-> 0,incb |-> 0,f |-> [stop |-> 1, abort |-> 0, expg |-> 0, sleep |-> 0, xok |-> 0, cfn |-> 0, onx |-> 0, res |-> 999],active |-> FALSE,dead |-> FALSE,l |-> 491,hascb |-> 1]),
    ([owed |-> 0,incb |-> 0,f |-> [stop |-> 0, abort |-> 0, expg |-> 0, sleep |-> 0, xok |-> 0, cfn |-> 0, onx |-> 0, res |-> 0],active |-> FALSE,dead |-> FALSE,l |-> 492,hascb |-> 1]),
    ([owed |-> 0,incb |-> 0,f |-> [stop |-> 0, abort |-> 0, expg |-> 0, sleep |-> 0, xok |-> 0, cfn |-> 1, onx |-> 0, res |-> 0],active |-> TRUE,dead |-> FALSE,l |-> 493,hascb |-> 1]),
    ([owed |-> 1,incb |-> 0,f |-> [stop |-> 0, abort |-> 0, expg |-> 0, sleep |-> 0, xok |-> 0, cfn |-> 0, onx |-> 0, res |-> 7],active |-> FALSE,dead |-> FALSE,l |-> 494,hascb |-> 1]),
    ([owed |-> 0,incb |-> 1,f |-> [stop |-> 0, abort |-> 0, expg |-> 0, sleep |-> 0, xok |-> 0, cfn |-> 0, onx |-> 0, res |-> 7],active |-> FALSE,dead |-> FALSE,l |-> 495,hascb |-> 1]),
    ([owed |-> 0,incb |-> 0,f |-> [stop |-> 0, abort |-> 0, expg |-> 0, sleep |-> 0, xok |-> 0, cfn |-> 0, onx |-> 0, res |-> 7],active |-> FALSE,dead |-> FALSE,l |-> 496,hascb |-> 1]),
    ([owed |-> 0,incb |-> 0,f |-> [stop |-> 1, abort |-> 0, expg |-> 0, sleep |-> 0, xok |-> 0, cfn |-> 0, onx |-> 0, res |-> 7],active |-> FALSE,dead |-> FALSE,l |-> 497,hascb |-> 1]),
    ([owed |-> 0,incb |-> 0,f |-> [stop |-> 1, abort |-> 0, expg |-> 0, sleep |-> 0, xok |-> 0, cfn |-> 0, onx |-> 0, res |-> 7],active |-> FALSE,dead |-> FALSE,l |-> 498,hascb |-> 1]),
    ([owed |-> 0,incb |-> 0,f |-> [stop |-> 1, abort |-> 0, expg |-> 0, sleep |-> 0, xok |-> 0, cfn |-> 0, onx |-> 0, res |-> 7],active |-> FALSE,dead |-> FALSE,l |-> 499,hascb |-> 1]),
    ([owed |-> 0,incb |-> 0,f |-> [stop |-> 1, abort |-> 0, expg |-> 0, sleep |-> 0, xok |-> 0, cfn |-> 0, onx |-> 0, res |-> 7],active |-> FALSE,dead |-> FALSE,l |-> 500,hascb |-> 1]),
    ([owed |-> 0,incb |-> 0,f |-> [stop |-> 1, abort |-> 0, expg |-> 0, sleep |-> 0, xok |-> 0, cfn |-> 0, onx |-> 0, res |-> 7],active |-> FALSE,dead |-> FALSE,l |-> 501,hascb |-> 1]),
    ([owed |-> 0,incb |-> 0,f |-> [stop |-> 1, abort |-> 0, expg |-> 0, sleep |-> 0, xok |-> 0, cfn |-> 0, onx |-> 0, res |-> 7],active |-> FALSE,dead |-> FALSE,l |-> 502,hascb |-> 1]),
    ([owed |-> 0,incb |-> 0,f |-> [stop |-> 1, abort |-> 0, expg |-> 0, sleep |-> 0, xok |-> 0, cfn |-> 0, onx |-> 0, res |-> 7],active |-> FALSE,dead |-> FALSE,l |-> 503,hascb |-> 1]),
    ([owed |-> 0,incb |-> 0,f |-> [stop |-> 1, abort |-> 0, expg |-> 0, sleep |-> 0, xok |-> 0, cfn |-> 0, onx |-> 0, res |-> 7],active |-> FALSE,dead |-> FALSE,l |-> 504,hascb |-> 1]),
    ([owed |-> 0,incb |-> 0,f |-> [stop |-> 1, abort |-> 0, expg |-> 0, sleep |-> 0, xok |-> 0, cfn |-> 0, onx |-> 0, res |-> 7],active |-> FALSE,dead |-> FALSE,l |-> 505,hascb |-> 1]),
    ([owed |-> 0,incb |-> 0,f |-> [stop |-> 0, abort |-> 0, expg |-> 0, sleep |-> 0, xok |-> 0, cfn |-> 0, onx |-> 0, res |-> 0],active |-> FALSE,dead |-> FALSE,l |-> 506,hascb |-> 1]),
    ([owed |-> 0,incb |-> 0,f |-> [stop |-> 0, abort |-> 0, expg |-> 0, sleep |-> 0, xok |-> 0, cfn |-> 1, onx |-> 0, res |-> 0],active |-> TRUE,dead |-> FALSE,l |-> 507,hascb |-> 1]),
    ([owed |-> 1,incb |-> 0,f |-> [stop |-> 0, abort |-> 0, expg |-> 0, sleep |-> 0, xok |-> 0, cfn |-> 0, onx |-> 0, res |-> 0],active |-> FALSE,dead |-> FALSE,l |-> 508,hascb |-> 1]),
    ([owed |-> 0,incb |-> 1,f |-> [stop |-> 0, abort |-> 0, expg |-> 0, sleep |-> 0, xok |-> 0, cfn |-> 0, onx |-> 0, res |-> 0],active |-> FALSE,dead |-> FALSE,l |-> 509,hascb |-> 1]),
    ([owed |-> 0,incb |-> 0,f |-> [stop |-> 0, abort |-> 0, expg |-> 0, sleep |-> 0, xok |-> 0, cfn |-> 0, onx |-> 0, res |-> 0],active |-> FALSE,dead |-> FALSE,l |-> 510,hascb |-> 1]),
    ([owed |-> 0,incb |-> 0,f |-> [stop |-> 1, abort |-> 0, expg |-> 0, sleep |-> 0, xok |-> 0, cfn |-> 0, onx |-> 0, res |-> 0],active |-> FALSE,dead |-> FALSE,l |-> 511,hascb |-> 1]),
    ([owed |-> 0,incb |-> 0,f |-> [stop |-> 1, abort |-> 0, expg |-> 0, sleep |-> 0, xok |-> 0, cfn |-> 0, onx |-> 0, res |-> 0],active |-> FALSE,dead |-> FALSE,l |-> 512,hascb |-> 1]),
    ([owed |-> 0,incb |-> 0,f |-> [stop |-> 1, abort |-> 0, expg |-> 0, sleep |-> 0, xok |-> 0, cfn |-> 0, onx |-> 0, res |-> 0],active |-> FALSE,dead |-> FALSE,l |-> 513,hascb |-> 1]),
    ([owed |-> 0,incb |-> 0,f |-> [stop |-> 1, abort |-> 0, expg |-> 0, sleep |-> 0, xok |-> 0, cfn |-> 0, onx |-> 0, res |-> 0],active |-> FALSE,dead |-> FALSE,l |-> 514,hascb |-> 1]),
    ([owed |-> 0,incb |-> 0,f |-> [stop |-> 1, abort |-> 0, expg |-> 0, sleep |-> 0, xok |-> 0, cfn |-> 0, onx |-> 0, res |-> 0],active |-> FALSE,dead |-> FALSE,l |-> 515,hascb |-> 1]),
    ([owed |-> 0,incb |-> 0,f |-> [stop |-> 1, abort |-> 0, expg |-> 0, sleep |-> 0, xok |-> 0, cfn |-> 0, onx |-> 0, res |-> 0],active |-> FALSE,dead |-> FALSE,l |-> 516,hascb |-> 1]),
    ([owed |-> 0,incb |-> 0,f |-> [stop |-> 1, abort |-> 0, expg |-> 0, sleep |-> 0, xok |-> 0, cfn |-> 0, onx |-> 0, res |-> 0],active |-> FALSE,dead |-> FALSE,l |-> 517,hascb |-> 1]),
    ([owed |-> 0,incb |-> 0,f |-> [stop |-> 1, abort |-> 0, expg |-> 0, sleep |-> 0, xok |-> 0, cfn |-> 0, onx |-> 0, res |-> 0],active |-> FALSE,dead |-> FALSE,l |-> 518,hascb |-> 1]),
    ([owed |-> 0,incb |-> 0,f |-> [stop |-> 1, abort |-> 0, expg |-> 0, sleep |-> 0, xok |-> 0, cfn |-> 0, onx |-> 0, res |-> 0],active |-> FALSE,dead |-> FALSE,l |-> 519,hascb |-> 1]),
    ([owed |-> 0,incb |-> 0,f |-> [stop |-> 0, abort |-> 0, expg |-> 0, sleep |-> 0, xok |-> 0, cfn |-> 0, onx |-> 0, res |-> 0],active |-> FALSE,dead |-> FALSE,l |-> 520,hascb |-> 1]),
    ([owed |-> 0,incb |-> 0,f |-> [stop |-> 0, abort |-> 0, expg |-> 0, sleep |-> 0, xok |-> 0, cfn |-> 1, onx |-> 0, res |-> 0],active |-> TRUE,dead |-> FALSE,l |-> 521,hascb |-> 1]),
    ([owed |-> 1,incb |-> 0,f |-> [stop |-> 0, abort |-> 0, expg |-> 0, sleep |-> 0, xok |-> 0, cfn |-> 0, onx |-> 0, res |-> 0],active |-> FALSE,dead |-> FALSE,l |-> 522,hascb |-> 1]),
    ([owed |-> 0,incb |-> 1,f |-> [stop |-> 0, abort |-> 0, expg |-> 0, sleep |-> 0, xok |-> 0, cfn |-> 0, onx |-> 0, res |-> 0],active |-> FALSE,dead |-> FALSE,l |-> 523,hascb |-> 1]),
    ([owed |-> 0,incb |-> 1,f |-> [stop |-> 0, abort |-> 0, expg |-> 0, sleep |-> 0, xok |-> 0, cfn |-> 1, onx |-> 0, res |-> 0],active |-> TRUE,dead |-> FALSE,l |-> 524,hascb |-> 1]),
    ([owed |-> 0,incb |-> 0,f |-> [stop |-> 0, abort |-> 0, expg |-> 0, sleep |-> 0, xok |-> 0, cfn |-> 1, onx |-> 0, res |-> 0],active |-> TRUE,dead |-> FALSE,l |-> 525,hascb |-> 1]),
    ([owed |-> 1,incb |-> 0,f |-> [stop |-> 0, abort |-> 0, expg |-> 0, sleep |-> 0, xok |-> 0, cfn |-> 0, onx |-> 0, res |-> 7],active |-> FALSE,dead |-> FALSE,l |-> 526,hascb |-> 1]),
    ([owed |-> 1,incb |-> 0,f |-> [stop |-> 1, abort |-> 0, expg |-> 0, sleep |-> 0, xok |-> 0, cfn |-> 0, onx |-> 0, res |-> 7],active |-> FALSE,dead |-> FALSE,l |-> 527,hascb |-> 1]),
    ([owed |-> 1,incb |-> 0,f |-> [stop |-> 1, abort |-> 0, expg |-> 0, sleep |-> 0, xok |-> 0, cfn |-> 0, onx |-> 0, res |-> 7],active |-> FALSE,dead |-> FALSE,l |-> 528,hascb |-> 1]),
    ([owed |-> 0,incb |-> 1,f |-> [stop |-> 1, abort |-> 0, expg |-> 0, sleep |-> 0, xok |-> 0, cfn |-> 0, onx |-> 0, res |-> 7],active |-> FALSE,dead |-> FALSE,l |-> 529,hascb |-> 1]),
    ([owed |-> 0,incb |-> 0,f |-> [stop |-> 1, abort |-> 0, expg |-> 0, sleep |-> 0, xok |-> 0, cfn |-> 0, onx |-> 0, res |-> 7],active |-> FALSE,dead |-> FALSE,l |-> 530,hascb |-> 1]),
    ([owed |-> 0,incb |-> 0,f |-> [stop |-> 1, abort |-> 0, expg |-> 0, sleep |-> 0, xok |-> 0, cfn |-> 0, onx |-> 0, res |-> 7],active |-> FALSE,dead |-> FALSE,l |-> 531,hascb |-> 1]),
    ([owed |-> 0,incb |-> 0,f |-> [stop |-> 1, abort |-> 0, expg |-> 0, sleep |-> 0, xok |-> 0, cfn |-> 0, onx |-> 0, res |-> 7],active |-> FALSE,dead |-> FALSE,l |-> 532,hascb |-> 1]),
    ([owed |-> 0,incb |-> 0,f |-> [stop |-> 1, abort |-> 0, expg |-> 0, sleep |-> 0, xok |-> 0, cfn |-> 0, onx |-> 0, res |-> 7],active |-> FALSE,dead |-> FALSE,l |-> 533,hascb |-> 1]),
    ([owed |-> 0,incb |-> 0,f |-> [stop |-> 1, abort |-> 0, expg |-> 0, sleep |-> 0, xok |-> 0, cfn |-> 0, onx |-> 0, res |-> 7],active |-> FALSE,dead |-> FALSE,l |-> 534,hascb |-> 1]),
    ([owed |-> 0,incb |-> 0,f |-> [stop |-> 1, abort |-> 0, expg |-> 0, sleep |-> 0, xok |-> 0, cfn |-> 0, onx |-> 0, res |-> 7],active |-> FALSE,dead |-> FALSE,l |-> 535,hascb |-> 1]),
    ([owed |-> 0,incb |-> 0,f |-> [stop |-> 1, abort |-> 0, expg |-> 0, sleep |-> 0, xok |-> 0, cfn |-> 0, onx |-> 0, res |-> 7],active |-> FALSE,dead |-> FALSE,l |-> 536,hascb |-> 1]),
    ([owed |-> 0,incb |-> 0,f |-> [stop |-> 0, abort |-> 0, expg |-> 0, sleep |-> 0, xok |-> 0, cfn |-> 0, onx |-> 0, res |-> 0],active |-> FALSE,dead |-> FALSE,l |-> 537,hascb |-> 1]),
    ([owed |-> 0,incb |-> 0,f |-> [stop |-> 1, abort |-> 0, expg |-> 0, sleep |-> 0, xok |-> 0, cfn |-> 0, onx |-> 0, res |-> 0],active |-> FALSE,dead |-> FALSE,l |-> 538,hascb |-> 1]),
    ([owed |-> 0,incb |-> 0,f |-> [stop |-> 1, abort |-> 0, expg |-> 0, sleep |-> 0, xok |-> 0, cfn |-> 0, onx |-> 0, res |-> 0],active |-> FALSE,dead |-> FALSE,l |-> 539,hascb |-> 1]),
    ([owed |-> 0,incb |-> 0,f |-> [stop |-> 1, abort |-> 0, expg |-> 0, sleep |-> 0, xok |-> 0, cfn |-> 0, onx |-> 0, res |-> 0],active |-> FALSE,dead |-> FALSE,l |-> 540,hascb |-> 1]),
    ([owed |-> 0,incb |-> 0,f |-> [stop |-> 1, abort |-> 0, expg |-> 0, sleep |-> 0, xok |-> 0, cfn |-> 0, onx |-> 0, res |-> 0],active |-> FALSE,dead |-> FALSE,l |-> 541,hascb |-> 1]),
    ([owed |-> 0,incb |-> 0,f |-> [stop |-> 1, abort |-> 0, expg |-> 0, sleep |-> 0, xok |-> 0, cfn |-> 0, onx |-> 0, res |-> 0],active |-> FALSE,dead |-> FALSE,l |-> 542,hascb |-> 1]),
    ([owed |-> 0,incb |-> 0,f |-> [stop |-> 1, abort |-> 0, expg |-> 0, sleep |-> 0, xok |-> 0, cfn |-> 0, onx |-> 0, res |-> 0],active |-> FALSE,dead |-> FALSE,l |-> 543,hascb |-> 1]),
    ([owed |-> 0,incb |-> 0,f |-> [stop |-> 1, abort |-> 0, expg |-> 0, sleep |-> 0, xok |-> 0, cfn |-> 0, onx |-> 0, res |-> 0],active |-> FALSE,dead |-> FALSE,l |-> 544,hascb |-> 1]),
    ([owed |-> 0,incb |-> 0,f |-> [stop |-> 1, abort |-> 0, expg |-> 0, sleep |-> 0, xok |-> 0, cfn |-> 0, onx |-> 0, res |-> 0],active |-> FALSE,dead |-> FALSE,l |-> 545,hascb |-> 1]),
    ([owed |-> 0,incb |-> 0,f |-> [stop |-> 0, abort |-> 0, expg |-> 0, sleep |-> 0, xok |-> 0, cfn |-> 0, onx |-> 0, res |-> 0],active |-> FALSE,dead |-> FALSE,l |-> 546,hascb |-> 1]),
    ([owed |-> 0,incb |-> 0,f |-> [stop |-> 0, abort |-> 0, expg |-> 0, sleep |-> 0, xok |-> 0, cfn |-> 1, onx |-> 0, res |-> 0],active |-> TRUE,dead |-> FALSE,l |-> 547,hascb |-> 1]),
    ([owed |-> 1,incb |-> 0,f |-> [stop |-> 0, abort |-> 0, expg |-> 0, sleep |-> 0, xok |-> 0, cfn |-> 0, onx |-> 0, res |-> 0],active |-> FALSE,dead |-> FALSE,l |-> 548,hascb |-> 1]),
    ([owed |-> 0,incb |-> 1,f |-> [stop |-> 0, abort |-> 0, expg |-> 0, sleep |-> 0, xok |-> 0, cfn |-> 0, onx |-> 0, res |-> 0],active |-> FALSE,dead |-> FALSE,l |-> 549,hascb |-> 1]),
    ([owed |-> 0,incb |-> 0,f |-> [stop |-> 0, abort |-> 0, expg |-> 0, sleep |-> 0, xok |-> 0, cfn |-> 0, onx |-> 0, res |-> 0],active |-> FALSE,dead |-> FALSE,l |-> 550,hascb |-> 1]),
    ([owed |-> 1,incb |-> 0,f |-> [stop |-> 0, abort |-> 0, expg |-> 0, sleep |-> 0, xok |-> 0, cfn |-> 0, onx |-> 0, res |-> 6],active |-> FALSE,dead |-> FALSE,l |-> 551,hascb |-> 1]),
    ([owed |-> 0,incb |-> 1,f |-> [stop |-> 0, abort |-> 0, expg |-> 0, sleep |-> 0, xok |-> 0, cfn |-> 0, onx |-> 0, res |-> 6],active |-> FALSE,dead |-> FALSE,l |-> 552,hascb |-> 1]),
    ([owed |-> 0,incb |-> 0,f |-> [stop |-> 0, abort |-> 0, expg |-> 0, sleep |-> 0, xok |-> 0, cfn |-> 0, onx |-> 0, res |-> 6],active |-> FALSE,dead |-> FALSE,l |-> 553,hascb |-> 1]),
    ([owed |-> 1,incb |-> 0,f |-> [stop |-> 0, abort |-> 0, expg |-> 0, sleep |-> 0, xok |-> 0, cfn |-> 0, onx |-> 0, res |-> 6],active |-> FALSE,dead |-> FALSE,l |-> 554,hascb |-> 1]),
    ([owed |-> 0,incb |-> 1,f |-> [stop |-> 0, abort |-> 0, expg |-> 0, sleep |-> 0, xok |-> 0, cfn |-> 0, onx |-> 0, res |-> 6],active |-> FALSE,dead |-> FALSE,l |-> 555,hascb |-> 1]),
    ([owed |-> 0,incb |-> 0,f |-> [stop |-> 0, abort |-> 0, expg |-> 0, sleep |-> 0, xok |-> 0, cfn |-> 0, onx |-> 0, res |-> 6],active |-> FALSE,dead |-> FALSE,l |-> 556,hascb |-> 1]),
    ([owed |-> 1,incb |-> 0,f |-> [stop |-> 0, abort |-> 0, expg |-> 0, sleep |-> 0, xok |-> 0, cfn |-> 0, onx |-> 0, res |-> 6],active |-> FALSE,dead |-> FALSE,l |-> 557,hascb |-> 1]),
    ([owed |-> 0,incb |-> 1,f |-> [stop |-> 0, abort |-> 0, expg |-> 0, sleep |-> 0, xok |-> 0, cfn |-> 0, onx |-> 0, res |-> 6],active |-> FALSE,dead |-> FALSE,l |-> 558,hascb |-> 1]),
    ([owed |-> 0,incb |-> 0,f |-> [stop |-> 0, abort |-> 0, expg |-> 0, sleep |-> 0, xok |-> 0, cfn |-> 0, onx |-> 0, res |-> 6],active |-> FALSE,dead |-> FALSE,l |-> 559,hascb |-> 1]),
    ([owed |-> 1,incb |-> 0,f |-> [stop |-> 0, abort |-> 0, expg |-> 0, sleep |-> 0, xok |-> 0, cfn |-> 0, onx |-> 0, res |-> 6],active |-> FALSE,dead |-> FALSE,l |-> 560,hascb |-> 1]),
    ([owed |-> 0,incb |-> 1,f |-> [stop |-> 0, abort |-> 0, expg |-> 0, sleep |-> 0, xok |-> 0, cfn |-> 0, onx |-> 0, res |-> 6],active |-> FALSE,dead |-> FALSE,l |-> 561,hascb |-> 1]),
    ([owed |-> 0,incb |-> 0,f |-> [stop |-> 0, abort |-> 0, expg |-> 0, sleep |-> 0, xok |-> 0, cfn |-> 0, onx |-> 0, res |-> 6],active |-> FALSE,dead |-> FALSE,l |-> 562,hascb |-> 1]),
    ([owed |-> 1,incb |-> 0,f |-> [stop |-> 0, abort |-> 0, expg |-> 0, sleep |-> 0, xok |-> 0, cfn |-> 0, onx |-> 0, res |-> 6],active |-> FALSE,dead |-> FALSE,l |-> 563,hascb |-> 1]),
    ([owed |-> 0,incb |-> 1,f |-> [stop |-> 0, abort |-> 0, expg |-> 0, sleep |-> 0, xok |-> 0, cfn |-> 0, onx |-> 0, res |-> 6],active |-> FALSE,dead |-> FALSE,l |-> 564,hascb |-> 1]),
    ([owed |-> 0,incb |-> 0,f |-> [stop |-> 0, abort |-> 0, expg |-> 0, sleep |-> 0, xok |-> 0, cfn |-> 0, onx |-> 0, res |-> 6],active |-> FALSE,dead |-> FALSE,l |-> 565,hascb |-> 1]),
    ([owed |-> 1,incb |-> 0,f |-> [stop |-> 0, abort |-> 0, expg |-> 0, sleep |-> 0, xok |-> 0, cfn |-> 0, onx |-> 0, res |-> 6],active |-> FALSE,dead |-> FALSE,l |-> 566,hascb |-> 1]),
    ([owed |-> 0,incb |-> 1,f |-> [stop |-> 0, abort |-> 0, expg |-> 0, sleep |-> 0, xok |-> 0, cfn |-> 0, onx |-> 0, res |-> 6],active |-> FALSE,dead |-> FALSE,l |-> 567,hascb |-> 1]),
    ([owed |-> 0,incb |-> 0,f |-> [stop |-> 0, abort |-> 0, expg |-> 0, sleep |-> 0, xok |-> 0, cfn |-> 0, onx |-> 0, res |-> 6],active |-> FALSE,dead |-> FALSE,l |-> 568,hascb |-> 1]),
    ([owed |-> 1,incb |-> 0,f |-> [stop |-> 0, abort |-> 0, expg |-> 0, sleep |-> 0, xok |-> 0, cfn |-> 0, onx |-> 0, res |-> 6],active |-> FALSE,dead |-> FALSE,l |-> 569,hascb |-> 1]),
    ([owed |-> 0,incb |-> 1,f |-> [stop |-> 0, abort |-> 0, expg |-> 0, sleep |-> 0, xok |-> 0, cfn |-> 0, onx |-> 0, res |-> 6],active |-> FALSE,dead |-> FALSE,l |-> 570,hascb |-> 1]),
    ([owed |-> 0,incb |-> 0,f |-> [stop |-> 0, abort |-> 0, expg |-> 0, sleep |-> 0, xok |-> 0, cfn |-> 0, onx |-> 0, res |-> 6],active |-> FALSE,dead |-> FALSE,l |-> 571,hascb |-> 1]),
    ([owed |-> 1,incb |-> 0,f |-> [stop |-> 0, abort |-> 0, expg |-> 0, sleep |-> 0, xok |-> 0, cfn |-> 0, onx |-> 0, res |-> 6],active |-> FALSE,dead |-> FALSE,l |-> 572,hascb |-> 1]),
    ([owed |-> 0,incb |-> 1,f |-> [stop |-> 0, abort |-> 0, expg |-> 0, sleep |-> 0, xok |-> 0, cfn |-> 0, onx |-> 0, res |-> 6],active |-> FALSE,dead |-> FALSE,l |-> 573,hascb |-> 1]),
    ([owed |-> 0,incb |-> 0,f |-> [stop |-> 0, abort |-> 0, expg |-> 0, sleep |-> 0, xok |-> 0, cfn |-> 0, onx |-> 0, res |-> 6],active |-> FALSE,dead |-> FALSE,l |-> 574,hascb |-> 1]),
    ([owed |-> 1,incb |-> 0,f |-> [stop |-> 0, abort |-> 0, expg |-> 0, sleep |-> 0, xok |-> 0, cfn |-> 0, onx |-> 0, res |-> 6],active |-> FALSE,dead |-> FALSE,l |-> 575,hascb |-> 1]),
    ([owed |-> 0,incb |-> 1,f |-> [stop |-> 0, abort |-> 0, expg |-> 0, sleep |-> 0, xok |-> 0, cfn |-> 0, onx |-> 0, res |-> 6],active |-> FALSE,dead |-> FALSE,l |-> 576,hascb |-> 1]),
    ([owed |-> 0,incb |-> 0,f |-> [stop |-> 0, abort |-> 0, expg |-> 0, sleep |-> 0, xok |-> 0, cfn |-> 0, onx |-> 0, res |-> 6],active |-> FALSE,dead |-> FALSE,l |-> 577,hascb |-> 1]),
    ([owed |-> 1,incb |-> 0,f |-> [stop |-> 0, abort |-> 0, expg |-> 0, sleep |-> 0, xok |-> 0, cfn |-> 0, onx |-> 0, res |-> 6],active |-> FALSE,dead |-> FALSE,l |-> 578,hascb |-> 1]),
    ([owed |-> 0,incb |-> 1,f |-> [stop |-> 0, abort |-> 0, expg |-> 0, sleep |-> 0, xok |-> 0, cfn |-> 0, onx |-> 0, res |-> 6],active |-> FALSE,dead |-> FALSE,l |-> 579,hascb |-> 1]),
    ([owed |-> 0,incb |-> 0,f |-> [stop |-> 0, abort |-> 0, expg |-> 0, sleep |-> 0, xok |-> 0, cfn |-> 0, onx |-> 0, res |-> 6],active |-> FALSE,dead |-> FALSE,l |-> 580,hascb |-> 1]),
    ([owed |-> 1,incb |-> 0,f |-> [stop |-> 0, abort |-> 0, expg |-> 0, sleep |-> 0, xok |-> 0, cfn |-> 0, onx |-> 0, res |-> 6],active |-> FALSE,dead |-> FALSE,l |-> 581,hascb |-> 1]),
    ([owed |-> 0,incb |-> 1,f |-> [stop |-> 0, abort |-> 0, expg |-> 0, sleep |-> 0, xok |-> 0, cfn |-> 0, onx |-> 0, res |-> 6],active |-> FALSE,dead |-> FALSE,l |-> 582,hascb |-> 1]),
    ([owed |-> 0,incb |-> 0,f |-> [stop |-> 0, abort |-> 0, expg |-> 0, sleep |-> 0, xok |-> 0, cfn |-> 0, onx |-> 0, res |-> 6],active |-> FALSE,dead |-> FALSE,l |-> 583,hascb |-> 1]),
    ([owed |-> 1,incb |-> 0,f |-> [stop |-> 0, abort |-> 0, expg |-> 0, sleep |-> 0, xok |-> 0, cfn |-> 0, onx |-> 0, res |-> 6],active |-> FALSE,dead |-> FALSE,l |-> 584,hascb |-> 1]),
    ([owed |-> 0,incb |-> 1,f |-> [stop |-> 0, abort |-> 0, expg |-> 0, sleep |-> 0, xok |-> 0, cfn |-> 0, onx |-> 0, res |-> 6],active |-> FALSE,dead |-> FALSE,l |-> 585,hascb |-> 1]),
    ([owed |-> 0,incb |-> 0,f |-> [stop |-> 0, abort |-> 0, expg |-> 0, sleep |-> 0, xok |-> 0, cfn |-> 0, onx |-> 0, res |-> 6],active |-> FALSE,dead |-> FALSE,l |-> 586,hascb |-> 1]),
    ([owed |-> 1,incb |-> 0,f |-> [stop |-> 0, abort |-> 0, expg |-> 0, sleep |-> 0, xok |-> 0, cfn |-> 0, onx |-> 0, res |-> 6],active |-> FALSE,dead |-> FALSE,l |-> 587,hascb |-> 1]),
    ([owed |-> 0,incb |-> 1,f |-> [stop |-> 0, abort |-> 0, expg |-> 0, sleep |-> 0, xok |-> 0, cfn |-> 0, onx |-> 0, res |-> 6],active |-> FALSE,dead |-> FALSE,l |-> 588,hascb |-> 1]),
    ([owed |-> 0,incb |-> 0,f |-> [stop |-> 0, abort |-> 0, expg |-> 0, sleep |-> 0, xok |-> 0, cfn |-> 0, onx |-> 0, res |-> 6],active |-> FALSE,dead |-> FALSE,l |-> 589,hascb |-> 1]),
    ([owed |-> 1,incb |-> 0,f |-> [stop |-> 0, abort |-> 0, expg |-> 0, sleep |-> 0, xok |-> 0, cfn |-> 0, onx |-> 0, res |-> 6],active |-> FALSE,dead |-> FALSE,l |-> 590,hascb |-> 1]),
    ([owed |-> 0,incb |-> 1,f |-> [stop |-> 0, abort |-> 0, expg |-> 0, sleep |-> 0, xok |-> 0, cfn |-> 0, onx |-> 0, res |-> 6],active |-> FALSE,dead |-> FALSE,l |-> 591,hascb |-> 1]),
    ([owed |-> 0,incb |-> 0,f |-> [stop |-> 0, abort |-> 0, expg |-> 0, sleep |-> 0, xok |-> 0, cfn |-> 0, onx |-> 0, res |-> 6],active |-> FALSE,dead |-> FALSE,l |-> 592,hascb |-> 1]),
    ([owed |-> 1,incb |-> 0,f |-> [stop |-> 0, abort |-> 0, expg |-> 0, sleep |-> 0, xok |-> 0, cfn |-> 0, onx |-> 0, res |-> 6],active |-> FALSE,dead |-> FALSE,l |-> 593,hascb |-> 1]),
    ([owed |-> 0,incb |-> 1,f |-> [stop |-> 0, abort |-> 0, expg |-> 0, sleep |-> 0, xok |-> 0, cfn |-> 0, onx |-> 0, res |-> 6],active |-> FALSE,dead |-> FALSE,l |-> 594,hascb |-> 1]),
    ([owed |-> 0,incb |-> 0,f |-> [stop |-> 0, abort |-> 0, expg |-> 0, sleep |-> 0, xok |-> 0, cfn |-> 0, onx |-> 0, res |-> 6],active |-> FALSE,dead |-> FALSE,l |-> 595,hascb |-> 1]),
    ([owed |-> 1,incb |-> 0,f |-> [stop |-> 0, abort |-> 0, expg |-> 0, sleep |-> 0, xok |-> 0, cfn |-> 0, onx |-> 0, res |-> 6],active |-> FALSE,dead |-> FALSE,l |-> 596,hascb |-> 1]),
    ([owed |-> 0,incb |-> 1,f |-> [stop |-> 0, abort |-> 0, expg |-> 0, sleep |-> 0, xok |-> 0, cfn |-> 0, onx |-> 0, res |-> 6],active |-> FALSE,dead |-> FALSE,l |-> 597,hascb |-> 1]),
    ([owed |-> 0,incb |-> 0,f |-> [stop |-> 0, abort |-> 0, expg |-> 0, sleep |-> 0, xok |-> 0, cfn |-> 0, onx |-> 0, res |-> 6],active |-> FALSE,dead |-> FALSE,l |-> 598,hascb |-> 1]),
    ([owed |-> 0,incb |-> 0,f |-> [stop |-> 1, abort |-> 0, expg |-> 0, sleep |-> 0, xok |-> 0, cfn |-> 0, onx |-> 0, res |-> 6],active |-> FALSE,dead |-> FALSE,l |-> 599,hascb |-> 1]),
    ([owed |-> 0,incb |-> 0,f |-> [stop |-> 1, abort |-> 0, expg |-> 0, sleep |-> 0, xok |-> 0, cfn |-> 0, onx |-> 0, res |-> 6],active |-> FALSE,dead |-> FALSE,l |-> 600,hascb |-> 1]),
    ([owed |-> 0,incb |-> 0,f |-> [stop |-> 1, abort |-> 0, expg |-> 0, sleep |-> 0, xok |-> 0, cfn |-> 0, onx |-> 0, res |-> 6],active |-> FALSE,dead |-> FALSE,l |-> 601,hascb |-> 1]),
    ([owed |-> 0,incb |-> 0,f |-> [stop |-> 1, abort |-> 0, expg |-> 0, sleep |-> 0, xok |-> 0, cfn |-> 0, onx |-> 0, res |-> 6],active |-> FALSE,dead |-> FALSE,l |-> 602,hascb |-> 1]),
    ([owed |-> 0,incb |-> 0,f |-> [stop |-> 1, abort |-> 0, expg |-> 0, sleep |-> 0, xok |-> 0, cfn |-> 0, onx |-> 0, res |-> 6],active |-> FALSE,dead |-> FALSE,l |-> 603,hascb |-> 1]),
    ([owed |-> 0,incb |-> 0,f |-> [stop |-> 1, abort |-> 0, expg |-> 0, sleep |-> 0, xok |-> 0, cfn |-> 0, onx |-> 0, res |-> 6],active |-> FALSE,dead |-> FALSE,l |-> 604,hascb |-> 1]),
    ([owed |-> 0,incb |-> 0,f |-> [stop |-> 1, abort |-> 0, expg |-> 0, sleep |-> 0, xok |-> 0, cfn |-> 0, onx |-> 0, res |-> 6],active |-> FALSE,dead |-> FALSE,l |-> 605,hascb |-> 1]),
    ([owed |-> 0,incb |-> 0,f |-> [stop |-> 1, abort |-> 0, expg |-> 0, sleep |-> 0, xok |-> 0, cfn |-> 0, onx |-> 0, res |-> 6],active |-> FALSE,dead |-> FALSE,l |-> 606,hascb |-> 1]),
    ([owed |-> 0,incb |-> 0,f |-> [stop |-> 0, abort |-> 0, expg |-> 0, sleep |-> 0, xok |-> 0, cfn |-> 0, onx |-> 0, res |-> 0],active |-> FALSE,dead |-> FALSE,l |-> 607,hascb |-> 1]),
    ([owed |-> 0,incb |-> 0,f |-> [stop |-> 0, abort |-> 0, expg |-> 0, sleep |-> 1, xok |-> 1, cfn |-> 1, onx |-> 1, res |-> 0],active |-> TRUE,dead |-> FALSE,l |-> 608,hascb |-> 1]),
    ([owed |-> 0,incb |-> 0,f |-> [stop |-> 0, abort |-> 0, expg |-> 1, sleep |-> 1, xok |-> 1, cfn |-> 1, onx |-> 0, res |-> 0],active |-> TRUE,dead |-> FALSE,l |-> 609,hascb |-> 1]),
    ([owed |-> ,incb |-> ,f |-> [stop |-> 0, abort |-> 0, expg |-> 1, sleep |-> 0, xok |-> 0, cfn |-> 0, onx |-> 0, res |-> 0],active |-> ,dead |-> ,l |-> 610,hascb |-> ])
    >>
----


=============================================================================

---- CONFIG TraceAio_TTrace_1790237704 ----

INVARIANT
    _inv

CHECK_DEADLOCK
    \* CHECK_DEADLOCK off because of PROPERTY or INVARIANT above.
    FALSE

INIT
    _init

NEXT
    _next

CONSTANT
    _TETrace <- _trace

ALIAS
    _expression
=============================================================================
\* Generated on Thu Sep 24 08:15:06 UTC 2026