---------------------------- MODULE Framing ----------------------------
(* SP over a byte stream (tcp: 8-byte big-endian length + payload; ipc: type byte 1 + the same), seen from the receiving
   socket: src/sp/transport/tcp/tcp.c, src/sp/transport/ipc/ipc.c (negotiation, receive state machine, NNG_OPT_RECVMAXSZ),
   src/platform/posix/posix_tcpconn.c / posix_ipcconn.c (partial reads and writes).      C01, C11.

   The peer is the driver: a plain socket that writes items.  An item is a handshake (good or bad), a frame of some
   size class, or a malformed/truncated piece followed by a disconnect.  How the byte stream is cut into reads and
   writes is not part of this specification at all: the implementation is run with its I/O clamped to 1, 2, 3, 7 bytes
   per system call and unclamped (NNG_VERIF hook), and must behave identically - that is the statement of C01.

   Two formulations are kept and compared by TLC: the step-wise receiver (variables) and the definitional meaning of a
   whole stream (operator Meaning): a receiver that has consumed a stream has delivered exactly Meaning(stream). *)
EXTENDS Integers, Sequences, FiniteSets, TLC, Json

CONSTANTS Conns, Sizes, RecvMax, MaxItems, Transports,
          Dir          \* "in": the socket under test is a PULL socket and the peer writes frames; "out": it is a PUSH socket and sends

Fatal == {"hs_bad_magic", "hs_bad_proto", "hs_short_close", "oversize", "huge_len", "bad_type", "trunc_hdr_close", "trunc_body_close", "close"}
VARIABLES phase,       \* per connection: "none" | "hs" | "open" | "closed"
          tr,          \* per connection: transport
          stream,      \* per connection: the items written so far
          delivered,   \* messages handed to the application, in order: [c, n]   (n: size class of the payload)
          nitems, lastAct
vars == <<phase, tr, stream, delivered, nitems, lastAct>>

Init == /\ phase = [c \in Conns |-> "none"] /\ tr = [c \in Conns |-> "-"] /\ stream = [c \in Conns |-> <<>>]
        /\ delivered = <<>> /\ nitems = 0 /\ lastAct = [a |-> "init"]

TooBig(n) == RecvMax > 0 /\ n > RecvMax
\* what one more item does to a connection: <<next phase, delivered size or -1>>
Step(ph, t, it) ==
  IF ph = "hs" THEN (IF it.k = "hs_ok" THEN <<"open", -1>> ELSE <<"closed", -1>>)
  ELSE IF ph = "open" THEN
     (IF it.k = "frame" THEN (IF TooBig(it.n) THEN <<"closed", -1>> ELSE <<"open", it.n>>)
      ELSE <<"closed", -1>>)                    \* anything else after the handshake is fatal (incl. a second handshake: it parses as a huge length)
  ELSE <<ph, -1>>
RECURSIVE Meaning(_, _, _)
Meaning(ph, t, s) == IF s = <<>> THEN <<>> ELSE
                       LET r == Step(ph, t, Head(s)) IN (IF r[2] >= 0 THEN <<r[2]>> ELSE <<>>) \o Meaning(r[1], t, Tail(s))

Connect(c, t) ==
  /\ phase[c] = "none" /\ phase' = [phase EXCEPT ![c] = "hs"] /\ tr' = [tr EXCEPT ![c] = t]
  /\ lastAct' = [a |-> "conn", c |-> c, t |-> t, out |-> [rv |-> "ok"]]
  /\ UNCHANGED <<stream, delivered, nitems>>
\* the peer writes one item
Write(c, it) ==
  /\ phase[c] \in {"hs", "open"} /\ nitems < MaxItems /\ nitems' = nitems + 1
  /\ (it.k = "bad_type" => tr[c] = "ipc")
  /\ (Dir = "out" => it.k \in {"hs_ok", "hs_bad_magic", "hs_bad_proto", "hs_short_close", "close"})
  /\ (it.k \in {"hs_ok", "hs_bad_magic", "hs_bad_proto", "hs_short_close"} => phase[c] = "hs")
  /\ (it.k \in {"frame", "oversize", "huge_len", "bad_type", "trunc_hdr_close", "trunc_body_close"} => phase[c] = "open")
  /\ LET r == Step(phase[c], tr[c], it) IN
       /\ phase' = [phase EXCEPT ![c] = r[1]]
       /\ delivered' = IF r[2] >= 0 THEN Append(delivered, [c |-> c, n |-> r[2]]) ELSE delivered
       /\ lastAct' = [a |-> "wr", c |-> c, k |-> it.k, n |-> (IF it.k = "frame" THEN it.n ELSE 0), ser |-> nitems + 1,
                      hn |-> (IF r[2] >= 0 THEN 1 ELSE 0), hc |-> (r[1] = "closed"),       \* (hints: how long the driver waits)
                      out |-> [got |-> IF r[2] >= 0 THEN <<r[2]>> ELSE <<>>, closed |-> (r[1] = "closed")]]
  /\ stream' = [stream EXCEPT ![c] = Append(@, it)]
  /\ UNCHANGED tr
\* (Dir = "out") the socket sends a message of size class n; with exactly one connection open it must arrive there as one frame
Send(c, n) ==
  /\ Dir = "out" /\ phase[c] = "open" /\ nitems < MaxItems /\ nitems' = nitems + 1
  \* no other connection ever completed its handshake: the socket may still believe in a connection whose loss it has not
  \* noticed yet, and a message written to it is lost with it (which C01 allows: completely or not at all)
  /\ \A d \in Conns \ {c} : \A i \in 1..Len(stream[d]) : stream[d][i].k # "hs_ok"
  /\ lastAct' = [a |-> "send", c |-> c, n |-> n, ser |-> nitems + 1, out |-> [rv |-> "ok", frame |-> n, ok |-> TRUE]]
  /\ UNCHANGED <<phase, tr, stream, delivered>>
Items == {[k |-> x] : x \in {"hs_ok", "hs_bad_magic", "hs_bad_proto", "hs_short_close", "huge_len", "bad_type",
                                 "trunc_hdr_close", "trunc_body_close", "close"}}
         \cup {[k |-> "frame", n |-> n] : n \in Sizes}
Next == \E c \in Conns : (\E t \in Transports : Connect(c, t)) \/ (\E it \in Items : Write(c, it)) \/ (\E n \in Sizes : Send(c, n))
Spec == Init /\ [][Next]_vars

\* C01/C11: per connection, exactly the complete well-formed frames within the limit, before the first fatal item, in
\* order, once each; nothing a connection does changes what the others deliver
PerConn(c) == LET RECURSIVE F(_) F(s) == IF s = <<>> THEN <<>> ELSE (IF Head(s).c = c THEN <<Head(s).n>> ELSE <<>>) \o F(Tail(s)) IN F(delivered)
Faithful == \A c \in Conns : phase[c] # "none" => PerConn(c) = Meaning("hs", tr[c], stream[c])
OnlyOffenderDropped == \A c \in Conns : phase[c] = "closed" =>
                          \E i \in 1..Len(stream[c]) : stream[c][i].k # "hs_ok" /\ (stream[c][i].k = "frame" => TooBig(stream[c][i].n))

SId == <<phase, tr, stream, nitems>>
Obs == [S_open |-> {c \in Conns : phase[c] \in {"hs", "open"}}]
FinV == 0
ExportEdge == PrintT(<<"E", ToJson([s |-> SId, sa |-> lastAct, d |-> SId', act |-> lastAct', obs |-> Obs', fin |-> FinV'])>>)
View == SId
=====================================================================
