SPECIFICATION Spec
CONSTANTS Conns = {1, 2, 3}
          Sizes = {0, 1, 5}
          RecvMax = 0
          MaxItems = 9
          Transports = {"tcp", "ipc", "sfd"}
          Dir = "in"
INVARIANTS Faithful OnlyOffenderDropped
ACTION_CONSTRAINT ExportEdge
