SPECIFICATION Spec
CONSTANTS Conns = {1, 2, 3}
          Sizes = {0, 1, 3}
          RecvMax = 4
          MaxItems = 9
          Transports = {"tcp", "ipc", "sfd"}
          Dir = "out"
INVARIANTS Faithful OnlyOffenderDropped
ACTION_CONSTRAINT ExportEdge
