---- MODULE Framing_TTrace_1790260106 ----
EXTENDS Sequences, TLCExt, Toolbox, Naturals, TLC, Framing

_expression ==
    LET Framing_TEExpression == INSTANCE Framing_TEExpression
    IN Framing_TEExpression!expression
----

_trace ==
    LET Framing_TETrace == INSTANCE Framing_TETrace
    IN Framing_TETrace!trace
----

_inv ==
    ~(
        TLCGet("level") = Len(_TETrace)
        /\
        phase = (<<"closed", "closed">>)
        /\
        nitems = (2)
        /\
        stream = (<<<<[k |-> "hs_bad_magic"]>>, <<[k |-> "hs_bad_magic"]>>>>)
        /\
        delivered = (<<>>)
        /\
        lastAct = ([c |-> 2, a |-> "wr", out |-> [got |-> <<>>, closed |-> TRUE], item |-> [k |-> "hs_bad_magic"]])
        /\
        tr = (<<"ipc", "ipc">>)
    )
----

_init ==
    /\ phase = _TETrace[1].phase
    /\ lastAct = _TETrace[1].lastAct
    /\ delivered = _TETrace[1].delivered
    /\ nitems = _TETrace[1].nitems
    /\ tr = _TETrace[1].tr
    /\ stream = _TETrace[1].stream
----

_next ==
    /\ \E i,j \in DOMAIN _TETrace:
        /\ \/ /\ j = i + 1
              /\ i = TLCGet("level")
        /\ phase  = _TETrace[i].phase
        /\ phase' = _TETrace[j].phase
        /\ lastAct  = _TETrace[i].lastAct
        /\ lastAct' = _TETrace[j].lastAct
        /\ delivered  = _TETrace[i].delivered
        /\ delivered' = _TETrace[j].delivered
        /\ nitems  = _TETrace[i].nitems
        /\ nitems' = _TETrace[j].nitems
        /\ tr  = _TETrace[i].tr
        /\ tr' = _TETrace[j].tr
        /\ stream  = _TETrace[i].stream
        /\ stream' = _TETrace[j].stream

\* Uncomment the ASSUME below to write the states of the error trace
\* to the given file in Json format. Note that you can pass any tuple
\* to `JsonSerialize`. For example, a sub-sequence of _TETrace.
    \* ASSUME
    \*     LET J == INSTANCE Json
    \*         IN J!JsonSerialize("Framing_TTrace_1790260106.json", _TETrace)

=============================================================================

 Note that you can extract this module `Framing_TEExpression`
  to a dedicated file to reuse `expression` (the module in the 
  dedicated `Framing_TEExpression.tla` file takes precedence 
  over the module `Framing_TEExpression` below).

---- MODULE Framing_TEExpression ----
EXTENDS Sequences, TLCExt, Toolbox, Naturals, TLC, Framing

expression == 
    [
        \* To hide variables of the `Framing` spec from the error trace,
        \* remove the variables below.  The trace will be written in the order
        \* of the fields of this record.
        phase |-> phase
        ,lastAct |-> lastAct
        ,delivered |-> delivered
        ,nitems |-> nitems
        ,tr |-> tr
        ,stream |-> stream
        
        \* Put additional constant-, state-, and action-level expressions here:
        \* ,_stateNumber |-> _TEPosition
        \* ,_phaseUnchanged |-> phase = phase'
        
        \* Format the `phase` variable as Json value.
        \* ,_phaseJson |->
        \*     LET J == INSTANCE Json
        \*     IN J!ToJson(phase)
        
        \* Lastly, you may build expressions over arbitrary sets of states by
        \* leveraging the _TETrace operator.  For example, this is how to
        \* count the number of times a spec variable changed up to the current
        \* state in the trace.
        \* ,_phaseModCount |->
        \*     LET F[s \in DOMAIN _TETrace] ==
        \*         IF s = 1 THEN 0
        \*         ELSE IF _TETrace[s].phase # _TETrace[s-1].phase
        \*             THEN 1 + F[s-1] ELSE F[s-1]
        \*     IN F[_TEPosition - 1]
    ]

=============================================================================



Parsing and semantic processing can take forever if the trace below is long.
 In this case, it is advised to uncomment the module below to deserialize the
 trace from a generated binary file.

\*
\*---- MODULE Framing_TETrace ----
\*EXTENDS IOUtils, TLC, Framing
\*
\*trace == IODeserialize("Framing_TTrace_1790260106.bin", TRUE)
\*
\*=============================================================================
\*

---- MODULE Framing_TETrace ----
EXTENDS TLC, Framing

trace == 
    <<
    ([phase |-> <<"none", "none">>,nitems |-> 0,stream |-> <<<<>>, <<>>>>,delivered |-> <<>>,lastAct |-> [a |-> "init"],tr |-> <<"-", "-">>]),
    ([phase |-> <<"none", "hs">>,nitems |-> 0,stream |-> <<<<>>, <<>>>>,delivered |-> <<>>,lastAct |-> [c |-> 2, a |-> "conn", t |-> "ipc", out |-> [rv |-> "ok"]],tr |-> <<"-", "ipc">>]),
    ([phase |-> <<"hs", "hs">>,nitems |-> 0,stream |-> <<<<>>, <<>>>>,delivered |-> <<>>,lastAct |-> [c |-> 1, a |-> "conn", t |-> "ipc", out |-> [rv |-> "ok"]],tr |-> <<"ipc", "ipc">>]),
    ([phase |-> <<"closed", "hs">>,nitems |-> 1,stream |-> <<<<[k |-> "hs_bad_magic"]>>, <<>>>>,delivered |-> <<>>,lastAct |-> [c |-> 1, a |-> "wr", out |-> [got |-> <<>>, closed |-> TRUE], item |-> [k |-> "hs_bad_magic"]],tr |-> <<"ipc", "ipc">>]),
    ([phase |-> <<"closed", "closed">>,nitems |-> 2,stream |-> <<<<[k |-> "hs_bad_magic"]>>, <<[k |-> "hs_bad_magic"]>>>>,delivered |-> <<>>,lastAct |-> [c |-> 2, a |-> "wr", out |-> [got |-> <<>>, closed |-> TRUE], item |-> [k |-> "hs_bad_magic"]],tr |-> <<"ipc", "ipc">>])
    >>
----


=============================================================================

---- CONFIG Framing_TTrace_1790260106 ----
CONSTANTS
    Conns = { 1 , 2 }
    Sizes = { 0 , 1 , 5 }
    RecvMax = 4
    MaxItems = 5
    Transports = { "tcp" , "ipc" }

INVARIANT
    _inv

CHECK_DEADLOCK
    \* CHECK_DEADLOCK off because of PROPERTY or INVARIANT above.
    FALSE

INIT
    _init

NEXT
    _next

CONSTANT
    _TETrace <- _trace

ALIAS
    _expression
=============================================================================
\* Generated on Thu Sep 24 14:28:27 UTC 2026