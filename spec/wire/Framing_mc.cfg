SPECIFICATION Spec
CONSTANTS Conns = {1, 2}
          Sizes = {0, 1, 5}
          RecvMax = 4
          MaxItems = 5
          Transports = {"tcp", "ipc", "sfd"}
          Dir = "in"
INVARIANTS Faithful OnlyOffenderDropped
VIEW View
