---------------------------- MODULE Inproc ----------------------------
(* The inproc transport (src/sp/transport/inproc/inproc.c) between two sockets of one process, specified at the
   transport interface: the application of this specification is a *protocol* (harness/drv_tran.c: vproto) that submits
   pipe sends and pipe receives on the two ends of every connection, cancels them, and closes pipe ends, end points and
   sockets.  Socket A listens, socket B dials (one dialer at a time; it redials by itself after its pipe is gone).

   C01: every message whose send completed is delivered to the other end completely, once, in order, with the header
        bytes in front of the body (nni_msg_pull_up), whatever the message shape, and the receiver's copy is its own;
   C02: every pipe operation completes exactly once (match, cancel, close of either end);
   C03: a failed send keeps its message; C10: closing a pipe end, an end point or a socket completes every operation
        pending on both ends; C14: pipe events in order, the dialer owns at most one pipe and redials, the listener keeps
        accepting; rendezvous rules: ECONNREFUSED without a listener, EADDRINUSE for a second one.

   Grain: one action = one call, then the library runs to quiescence (task gate, virtual clock).  inproc matches a
   writer and a reader inside the submitting call (inproc_queue_run), so no callback interleaving is lost by that. *)
EXTENDS Naturals, Sequences, FiniteSets, TLC, Json

CONSTANTS MaxConn, MaxOps, MaxMsgs, Shapes, HdrWords, WithReject, Fails, MinOps, Tmos

VARIABLES
  lst,      \* listener of A: "none" | "open" | "closed"
  dl,       \* dialer of B:   "none" | "up" (owns a pipe) | "wait" (redial timer) | "closed"
  nconn,    \* connections made so far
  endst,    \* endst[k][s]: "none" | "up" | "gone"      (s = 1: A's end, 2: B's end)
  qclosed,  \* qclosed[k]: inproc_pipe_close ran on one end: both queues of the pair are closed
  rd, wr,   \* rd[k][s]: receives parked at end s (op ids); wr[k][s]: sends parked at end s
  ops,      \* ops[i] = [kind, k, s, st, rv, msg]
  sok,      \* sok[k][s]: messages whose send from end s completed ok      (ghost)
  got,      \* got[k][s]: messages received at end s                          (ghost)
  dropped,  \* messages lost in the hand-off because the receiver's copy could not be allocated (C20: the documented loss)   (ghost)
  evs,      \* evs[k][s]: the pipe events delivered for that end, in order
  sopen,    \* sopen[s]: socket open
  rej,      \* rej[s]: the next ADD_PRE callback of socket s closes the pipe
  nextMsg,
  lastAct

vars == <<lst, dl, nconn, endst, qclosed, rd, wr, ops, sok, got, dropped, evs, sopen, rej, nextMsg, lastAct>>

Conns == 1..MaxConn
Sides == {1, 2}
Other(s) == 3 - s
NOps == Len(ops)
SeqSet(q) == {q[i] : i \in 1..Len(q)}
BodyLen(sh) == IF sh = "e" THEN 0 ELSE IF sh = "t" THEN 4 ELSE 3000
MsgLen(m) == 4 * m.h + BodyLen(m.sh)
\* what the receiver reads: total length, header words in front, then the tag (if the body has one)
Words(m) == [i \in 1..(m.h + (IF m.sh = "e" THEN 0 ELSE 1)) |->
               IF i <= m.h THEN [k |-> "h", i |-> i, m |-> m.m] ELSE [k |-> "t", i |-> 0, m |-> m.m]]

Init ==
  /\ lst = "none" /\ dl = "none" /\ nconn = 0
  /\ endst = [k \in Conns |-> [s \in Sides |-> "none"]]
  /\ qclosed = [k \in Conns |-> FALSE]
  /\ rd = [k \in Conns |-> [s \in Sides |-> <<>>]] /\ wr = [k \in Conns |-> [s \in Sides |-> <<>>]]
  /\ ops = <<>>
  /\ sok = [k \in Conns |-> [s \in Sides |-> <<>>]] /\ got = [k \in Conns |-> [s \in Sides |-> <<>>]]
  /\ evs = [k \in Conns |-> [s \in Sides |-> <<>>]] /\ dropped = {}
  /\ sopen = [s \in Sides |-> TRUE] /\ rej = [s \in Sides |-> FALSE]
  /\ nextMsg = 1
  /\ lastAct = [a |-> "init"]

\* ---------------------------------------------------------------- completions
DoneRec(i, o) == IF o.kind = "send"
                   THEN (IF o.rv = "ok" THEN [op |-> i, rv |-> "ok", n |-> MsgLen(o.msg)] ELSE [op |-> i, rv |-> o.rv, kept |-> TRUE])
                   ELSE (IF o.rv = "ok" THEN [op |-> i, rv |-> "ok", hl |-> 0, len |-> MsgLen(o.msg), w |-> Words(o.msg), pat |-> TRUE]
                                        ELSE [op |-> i, rv |-> o.rv])
\* the operations that completed in this step, by op id
DoneList(old, new) ==
  LET RECURSIVE F(_)
      F(i) == IF i > Len(new) THEN <<>>
              ELSE IF new[i].st = "done" /\ (i > Len(old) \/ old[i].st # "done") THEN <<DoneRec(i, new[i])>> \o F(i + 1)
              ELSE F(i + 1)
  IN F(1)
\* fail every operation parked on connection k (both ends) with rv
FailAll(o, K, rv) == [i \in 1..Len(o) |-> IF o[i].st = "pend" /\ o[i].k \in K THEN [o[i] EXCEPT !.st = "done", !.rv = rv] ELSE o[i]]
EmptyQ(q, K) == [k \in Conns |-> IF k \in K THEN [s \in Sides |-> <<>>] ELSE q[k]]

\* pipe events delivered for a new connection: pre, post on both ends (3 = rem delivered too)
Up(k) == {s \in Sides : endst[k][s] = "up"}

\* ---------------------------------------------------------------- end points
Listen ==
  /\ sopen[1] /\ lst = "none"
  /\ lst' = "open"
  /\ lastAct' = [a |-> "listen", out |-> [rv |-> "ok", done |-> <<>>]]
  /\ UNCHANGED <<dl, nconn, endst, qclosed, rd, wr, ops, sok, got, dropped, evs, sopen, rej, nextMsg>>
\* a second listener on the same address
Listen2 ==
  /\ sopen[1] /\ lst = "open"
  /\ lastAct' = [a |-> "listen2", out |-> [rv |-> "eaddrinuse", done |-> <<>>]]
  /\ UNCHANGED <<lst, dl, nconn, endst, qclosed, rd, wr, ops, sok, got, dropped, evs, sopen, rej, nextMsg>>

\* a connection is made: both pipe ends are created; ADD_PRE of a socket may close its end at once (reject), in which case
\* neither end ever carries a message: the rejecting end never starts, the other end starts and finds its queues closed
\* (it stays up until its owner closes it)
Connect(mode) ==
  LET k == nconn + 1
      ra == rej[1]  rb == rej[2] IN
  /\ nconn' = k
  /\ rej' = [s \in Sides |-> FALSE]
  /\ endst' = [endst EXCEPT ![k] = [s \in Sides |-> IF rej[s] THEN "gone" ELSE "up"]]
  /\ qclosed' = [qclosed EXCEPT ![k] = ra \/ rb]
  /\ evs' = [evs EXCEPT ![k] = [s \in Sides |-> IF rej[s] THEN <<"pre", "rem">> ELSE <<"pre", "post">>]]
  \* the dialer whose pipe was rejected by its own socket waits and dials again; a dialer whose pipe is up owns it
  /\ dl' = IF rb THEN "wait" ELSE "up"
  /\ TRUE

Dial(mode) ==
  /\ sopen[2] /\ dl \in {"none", "closed"}
  /\ IF lst = "open" /\ nconn < MaxConn THEN
        /\ Connect(mode) /\ UNCHANGED <<lst, rd, wr, ops, sok, got, dropped, sopen, nextMsg>>
        /\ lastAct' = [a |-> "dial", mode |-> mode, out |-> [rv |-> IF mode = "sync" /\ rej[2] THEN "econnaborted|ok|eclosed" ELSE "ok", done |-> <<>>]]
     ELSE IF lst # "open" THEN
        \* nobody listens: a synchronous dial fails (and the dialer is discarded), a background dial keeps trying
        /\ dl' = IF mode = "sync" THEN dl ELSE "wait"
        /\ lastAct' = [a |-> "dial", mode |-> mode, out |-> [rv |-> IF mode = "sync" THEN "econnrefused" ELSE "ok", done |-> <<>>]]
        /\ UNCHANGED <<nconn, endst, qclosed, evs, rej, lst, rd, wr, ops, sok, got, dropped, sopen, nextMsg>>
     ELSE FALSE
\* time passes (more than the largest reconnect interval): a waiting dialer dials again
\* An operation submitted with a timeout (30 ms) that is still parked when the clock has advanced completes with NNG_ETIMEDOUT
\* (C02: not before its duration - nothing times out without a tick - and only if it had not completed); a failed send keeps its message.
Timed(o) == {i \in 1..Len(o) : o[i].st = "pend" /\ o[i].tmo > 0}
Expire(o) == [i \in 1..Len(o) |-> IF i \in Timed(o) THEN [o[i] EXCEPT !.st = "done", !.rv = "etimedout"] ELSE o[i]]
Unpark(q) == [k \in Conns |-> [s \in Sides |-> SelectSeq(q[k][s], LAMBDA x : x \notin Timed(ops))]]
Tick ==
  /\ dl = "wait" \/ Timed(ops) # {}
  /\ IF dl = "wait" /\ lst = "open" /\ sopen[2] THEN nconn < MaxConn /\ Connect("nb") /\ UNCHANGED <<sok, got, dropped, sopen, nextMsg, lst>>
     ELSE UNCHANGED <<dl, nconn, endst, qclosed, evs, rej, lst, sok, got, dropped, sopen, nextMsg>>
  /\ ops' = Expire(ops) /\ rd' = Unpark(rd) /\ wr' = Unpark(wr)
  /\ lastAct' = [a |-> "tick", d |-> 50, out |-> [done |-> DoneList(ops, ops')]]

\* ---------------------------------------------------------------- pipe operations (inproc_pipe_send / inproc_pipe_recv / inproc_queue_run)
\* the message record also says whether the driver keeps a second reference (then the receiver's copy has to be allocated)
\* fail > 0: the fail-th allocation made by the library during this call fails.  Only the hand-off of a shared message
\* allocates (nni_msg_pull_up duplicates it): then the message is lost - the send has already succeeded, the receive keeps
\* waiting - which is the loss C20 allows; nothing else changes.
FailRec(fail, fired) == IF fail > 0 THEN [failed |-> fired] ELSE <<>>
Send(k, s, sh, h, shared, fail, tmo) ==
  /\ NOps < MaxOps /\ nextMsg <= MaxMsgs /\ endst[k][s] = "up"
  /\ LET i == NOps + 1
         m == [m |-> nextMsg, sh |-> sh, h |-> h, shared |-> shared]
         o == [kind |-> "send", k |-> k, s |-> s, st |-> "pend", rv |-> "none", msg |-> m, tmo |-> tmo]
         lost == fail > 0 /\ shared /\ ~qclosed[k] /\ rd[k][Other(s)] # <<>> IN
     /\ nextMsg' = nextMsg + 1
     /\ IF qclosed[k] THEN
           /\ ops' = Append(ops, [o EXCEPT !.st = "done", !.rv = "eclosed"])
           /\ UNCHANGED <<rd, wr, sok, got, dropped>>
        ELSE IF rd[k][Other(s)] # <<>> THEN
           IF lost THEN
              /\ ops' = Append(ops, [o EXCEPT !.st = "done", !.rv = "ok"])
              /\ sok' = [sok EXCEPT ![k][s] = Append(@, m)]
              /\ dropped' = dropped \cup {m.m}
              /\ UNCHANGED <<rd, wr, got>>
           ELSE
           \* a reader waits at the other end: both complete, the writer first
           LET r == Head(rd[k][Other(s)]) IN
           /\ ops' = Append([ops EXCEPT ![r] = [@ EXCEPT !.st = "done", !.rv = "ok", !.msg = m]], [o EXCEPT !.st = "done", !.rv = "ok"])
           /\ rd' = [rd EXCEPT ![k][Other(s)] = Tail(@)]
           /\ sok' = [sok EXCEPT ![k][s] = Append(@, m)]
           /\ got' = [got EXCEPT ![k][Other(s)] = Append(@, m)]
           /\ UNCHANGED <<wr, dropped>>
        ELSE
           /\ ops' = Append(ops, o)
           /\ wr' = [wr EXCEPT ![k][s] = Append(@, i)]
           /\ UNCHANGED <<rd, sok, got, dropped>>
     /\ lastAct' = [a |-> "send", op |-> i, k |-> k, s |-> s - 1, m |-> m.m, h |-> h, sh |-> sh, shared |-> shared, fail |-> fail, tmo |-> tmo,
                    out |-> [done |-> DoneList(ops, ops')] @@ FailRec(fail, lost)]
  /\ UNCHANGED <<lst, dl, nconn, endst, qclosed, evs, sopen, rej>>

Recv(k, s, fail, tmo) ==
  /\ NOps < MaxOps /\ endst[k][s] = "up"
  /\ LET i == NOps + 1
         o == [kind |-> "recv", k |-> k, s |-> s, st |-> "pend", rv |-> "none", msg |-> [m |-> 0, sh |-> "e", h |-> 0, shared |-> FALSE], tmo |-> tmo]
         W == wr[k][Other(s)]
         lost == fail > 0 /\ ~qclosed[k] /\ W # <<>> /\ ops[Head(W)].msg.shared
         \* the writers consumed by this call: the first one if its message is lost, and then the next one (which is delivered)
         W1 == IF lost THEN Tail(W) ELSE W
         o1 == IF lost THEN [ops EXCEPT ![Head(W)] = [@ EXCEPT !.st = "done", !.rv = "ok"]] ELSE ops IN
     /\ IF qclosed[k] THEN
           /\ ops' = Append(ops, [o EXCEPT !.st = "done", !.rv = "eclosed"])
           /\ UNCHANGED <<rd, wr, sok, got, dropped>>
        ELSE
           /\ dropped' = IF lost THEN dropped \cup {ops[Head(W)].msg.m} ELSE dropped
           /\ IF W1 # <<>> THEN
                 LET w == Head(W1)  m == ops[w].msg IN
                 /\ ops' = Append([o1 EXCEPT ![w] = [@ EXCEPT !.st = "done", !.rv = "ok"]], [o EXCEPT !.st = "done", !.rv = "ok", !.msg = m])
                 /\ wr' = [wr EXCEPT ![k][Other(s)] = Tail(W1)]
                 /\ sok' = [sok EXCEPT ![k][Other(s)] = (IF lost THEN Append(@, ops[Head(W)].msg) ELSE @) \o <<m>>]
                 /\ got' = [got EXCEPT ![k][s] = Append(@, m)]
                 /\ UNCHANGED rd
              ELSE
                 /\ ops' = Append(o1, o)
                 /\ rd' = [rd EXCEPT ![k][s] = Append(@, i)]
                 /\ wr' = [wr EXCEPT ![k][Other(s)] = W1]
                 /\ sok' = [sok EXCEPT ![k][Other(s)] = IF lost THEN Append(@, ops[Head(W)].msg) ELSE @]
                 /\ UNCHANGED got
     /\ lastAct' = [a |-> "recv", op |-> i, k |-> k, s |-> s - 1, fail |-> fail, tmo |-> tmo, out |-> [done |-> DoneList(ops, ops')] @@ FailRec(fail, lost)]
  /\ UNCHANGED <<lst, dl, nconn, endst, qclosed, evs, sopen, rej, nextMsg>>

\* nng_aio_cancel of a parked operation (inproc_queue_cancel); of a completed one: nothing happens
Cancel(i) ==
  /\ i \in 1..NOps /\ (ops[i].st = "pend" \/ i = NOps)
  /\ IF ops[i].st = "pend" THEN
        /\ ops' = [ops EXCEPT ![i] = [@ EXCEPT !.st = "done", !.rv = "ecanceled"]]
        /\ rd' = [rd EXCEPT ![ops[i].k][ops[i].s] = SelectSeq(@, LAMBDA x : x # i)]
        /\ wr' = [wr EXCEPT ![ops[i].k][ops[i].s] = SelectSeq(@, LAMBDA x : x # i)]
     ELSE UNCHANGED <<ops, rd, wr>>
  /\ lastAct' = [a |-> "cancel", op |-> i, out |-> [done |-> DoneList(ops, ops')]]
  /\ UNCHANGED <<lst, dl, nconn, endst, qclosed, sok, got, dropped, evs, sopen, rej, nextMsg>>

\* ---------------------------------------------------------------- closing
\* the ends in E (a set of <<k, s>>) are closed by their owner: both queues of each pair close, every operation parked on either
\* end completes with ECLOSED, the closed ends get their REM_POST (if they got ADD_POST) and are destroyed
CloseEnds(E) ==
  LET K == {e[1] : e \in E} IN
  /\ endst' = [k \in Conns |-> [s \in Sides |-> IF <<k, s>> \in E THEN "gone" ELSE endst[k][s]]]
  /\ qclosed' = [k \in Conns |-> qclosed[k] \/ k \in K]
  /\ ops' = FailAll(ops, K, "eclosed")
  /\ rd' = EmptyQ(rd, K) /\ wr' = EmptyQ(wr, K)
  /\ evs' = [k \in Conns |-> [s \in Sides |-> IF <<k, s>> \in E THEN Append(evs[k][s], "rem") ELSE evs[k][s]]]
DialerAfter(E) == IF dl = "up" /\ \E k \in Conns : <<k, 2>> \in E THEN "wait" ELSE dl

PipeClose(k, s) ==
  /\ endst[k][s] = "up"
  /\ CloseEnds({<<k, s>>})
  /\ dl' = IF s = 2 THEN DialerAfter({<<k, s>>}) ELSE dl
  /\ lastAct' = [a |-> "pclose", k |-> k, s |-> s - 1, out |-> [rv |-> "ok", done |-> DoneList(ops, ops')]]
  /\ UNCHANGED <<lst, nconn, sok, got, dropped, sopen, rej, nextMsg>>
\* closing the listener closes the pipes it accepted
LClose ==
  /\ lst = "open" /\ NOps >= MinOps
  /\ lst' = "closed"
  /\ CloseEnds({<<k, 1>> : k \in {c \in Conns : endst[c][1] = "up"}})
  /\ lastAct' = [a |-> "lclose", out |-> [rv |-> "ok", done |-> DoneList(ops, ops')]]
  /\ UNCHANGED <<dl, nconn, sok, got, dropped, sopen, rej, nextMsg>>
DClose ==
  /\ dl \in {"up", "wait"} /\ NOps >= MinOps
  /\ dl' = "closed"
  /\ CloseEnds({<<k, 2>> : k \in {c \in Conns : endst[c][2] = "up"}})
  /\ lastAct' = [a |-> "dclose", out |-> [rv |-> "ok", done |-> DoneList(ops, ops')]]
  /\ UNCHANGED <<lst, nconn, sok, got, dropped, sopen, rej, nextMsg>>
SockClose(s) ==
  /\ sopen[s] /\ NOps >= MinOps
  /\ sopen' = [sopen EXCEPT ![s] = FALSE]
  /\ CloseEnds({<<k, s>> : k \in {c \in Conns : endst[c][s] = "up"}})
  /\ lst' = IF s = 1 /\ lst = "open" THEN "closed" ELSE lst
  /\ dl' = IF s = 2 /\ dl \in {"up", "wait"} THEN "closed" ELSE dl
  /\ lastAct' = [a |-> "sclose", s |-> s - 1, out |-> [rv |-> "ok", done |-> DoneList(ops, ops')]]
  /\ UNCHANGED <<nconn, sok, got, dropped, rej, nextMsg>>
\* the application arranges for the next ADD_PRE callback of socket s to close the pipe
Reject(s) ==
  /\ WithReject /\ ~rej[s] /\ sopen[s] /\ nconn < MaxConn
  /\ rej' = [rej EXCEPT ![s] = TRUE]
  /\ lastAct' = [a |-> "reject", s |-> s - 1, out |-> [done |-> <<>>]]
  /\ UNCHANGED <<lst, dl, nconn, endst, qclosed, rd, wr, ops, sok, got, dropped, evs, sopen, nextMsg>>

Next == \/ Listen \/ Listen2 \/ Tick \/ LClose \/ DClose
        \/ (\E mode \in {"sync", "nb"} : Dial(mode))
        \/ (\E k \in Conns, s \in Sides : PipeClose(k, s) \/ (\E f \in Fails, t \in Tmos : Recv(k, s, f, t))
              \/ (\E sh \in Shapes, h \in HdrWords, shared \in BOOLEAN, f \in Fails, t \in Tmos : Send(k, s, sh, h, shared, f, t)))
        \/ (\E i \in 1..MaxOps : Cancel(i))
        \/ (\E s \in Sides : SockClose(s) \/ Reject(s))
Spec == Init /\ [][Next]_vars

\* ---------------------------------------------------------------- properties
\* C01: what an end received is exactly what the other end's completed sends carried, in order (complete, once, unaltered: the
\* message records are compared whole)
Integrity == \A k \in Conns, s \in Sides : got[k][s] = SelectSeq(sok[k][Other(s)], LAMBDA m : m.m \notin dropped)
\* C02: a completed operation stays completed with its result (action property), and parked operations are exactly the queue entries
ParkedAreQueued == \A i \in 1..NOps : (ops[i].st = "pend") <=> (i \in SeqSet(IF ops[i].kind = "send" THEN wr[ops[i].k][ops[i].s] ELSE rd[ops[i].k][ops[i].s]))
CompleteOnce == [][\A i \in 1..NOps : ops[i].st = "done" => ops'[i] = ops[i]]_vars
\* rendezvous: a writer and a reader never wait on the same queue
NoMissedMatch == \A k \in Conns, s \in Sides : ~(wr[k][s] # <<>> /\ rd[k][Other(s)] # <<>>)
\* C10: nothing stays parked on a closed pair
NoOrphan == \A i \in 1..NOps : ops[i].st = "pend" => ~qclosed[ops[i].k] /\ endst[ops[i].k][ops[i].s] = "up"
\* C14: the dialer owns at most one pipe; events in order (0..3 counts pre, post, rem in that order by construction of the counter)
OnePipe == Cardinality({k \in Conns : endst[k][2] = "up"}) <= 1
DialerState == (dl = "up") <=> (\E k \in Conns : endst[k][2] = "up")
RemAfterPost == \A k \in Conns, s \in Sides :
                  /\ evs[k][s] \in {<<>>, <<"pre">>, <<"pre", "post">>, <<"pre", "post", "rem">>, <<"pre", "rem">>}
                  /\ (endst[k][s] = "gone" => evs[k][s] \in {<<"pre", "post", "rem">>, <<"pre", "rem">>}) /\ (endst[k][s] = "up" => evs[k][s] = <<"pre", "post">>)
\* a pipe closed in ADD_PRE never carries a message
RejectedCarriesNothing == \A k \in Conns : (\E s \in Sides : evs[k][s] = <<"pre", "rem">>) => \A s \in Sides : got[k][s] = <<>> /\ sok[k][s] = <<>>

\* ---------------------------------------------------------------- export
SId == <<lst, dl, nconn, endst, qclosed, rd, wr, ops, sopen, rej, nextMsg>>
\* C20: only the message named in `dropped` is lost, and only shared ones can be
OnlyNamedLoss == \A k \in Conns, s \in Sides : \A j \in 1..Len(sok[k][s]) : sok[k][s][j].m \in dropped => sok[k][s][j].shared
UpObs == LET RECURSIVE F(_, _)
             F(k, s) == IF k > MaxConn THEN <<>>
                        ELSE (IF endst[k][s] = "up" THEN <<<<k, s - 1>>>> ELSE <<>>) \o (IF s = 1 THEN F(k, 2) ELSE F(k + 1, 1))
         IN F(1, 1)
\* the pipe events delivered in this step: [side, conn, name, n-th event of that pipe]
EvObs == LET RECURSIVE F(_, _)
             F(k, s) == IF k > MaxConn THEN <<>>
                        ELSE [n \in 1..(Len(evs'[k][s]) - Len(evs[k][s])) |-> <<s - 1, k, evs'[k][s][Len(evs[k][s]) + n], Len(evs[k][s]) + n>>]
                             \o (IF s = 1 THEN F(k, 2) ELSE F(k + 1, 1))
         IN F(1, 1)
PendObs == LET RECURSIVE F(_)
               F(i) == IF i > Len(ops) THEN <<>> ELSE (IF ops[i].st = "pend" THEN <<i>> ELSE <<>>) \o F(i + 1)
           IN F(1)
Obs == [up |-> UpObs, pend |-> PendObs, shared_ok |-> TRUE, tasks |-> 0]
Fin == 0
ExportEdge == PrintT(<<"E", ToJson([s |-> SId, sa |-> lastAct, d |-> SId', act |-> lastAct', obs |-> Obs' @@ [S_ev |-> EvObs], fin |-> Fin'])>>)
View == SId
=====================================================================
