SPECIFICATION Spec
CONSTANTS MaxConn = 3
          MaxOps = 8
          MaxMsgs = 6
          Shapes = {"t", "e", "b"}
          HdrWords = {0, 1, 2}
          WithReject = TRUE
          MinOps = 5
          Tmos = {0, 30}
          Fails = {0}
INVARIANTS Integrity ParkedAreQueued NoMissedMatch NoOrphan OnePipe DialerState RemAfterPost
ACTION_CONSTRAINT ExportEdge
VIEW View
