SPECIFICATION Spec
CONSTANTS MaxConn = 2
          MaxOps = 2
          MaxMsgs = 2
          Shapes = {"t"}
          HdrWords = {0, 2}
          WithReject = FALSE
          MinOps = 0
          Tmos = {0}
          Fails = {0}
INVARIANTS Integrity NoOrphan
ACTION_CONSTRAINT ExportEdge
VIEW View
