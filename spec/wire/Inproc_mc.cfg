SPECIFICATION Spec
CONSTANTS MaxConn = 2
          MaxOps = 3
          MaxMsgs = 2
          Shapes = {"t", "e"}
          HdrWords = {0, 1}
          WithReject = FALSE
          MinOps = 0
          Tmos = {0}
          Fails = {0}
INVARIANTS Integrity ParkedAreQueued NoMissedMatch NoOrphan OnePipe DialerState RemAfterPost RejectedCarriesNothing
PROPERTY CompleteOnce
VIEW View
