---------------------------- MODULE Udp ----------------------------
(* SP over UDP seen from a listening socket (src/sp/transport/udp/udp.c): datagrams are
   ver(1) opcode(1) type(2) param0(2) param1(2) [payload]; a peer is its source address.   C11 (and C01 for udp).

   The driver owns one datagram socket per peer and sends connection requests, data, disconnects and garbage; it
   sees every datagram the socket sends back (CACK, DISC with its reason). *)
EXTENDS Integers, Sequences, FiniteSets, TLC, Json

CONSTANTS Peers, Sizes, RecvMax, MaxItems,    \* RecvMax: NNG_OPT_RECVMAXSZ in units (> 0)
          Scale                               \* bytes per unit (the acknowledgement carries the limit in bytes)

VARIABLES pipe,        \* per peer: "none" | "open" | "gone"   (the socket's pipe for that address)
          discSeen,    \* per peer: the socket has sent it a DISC
          delivered, nitems, lastAct
vars == <<pipe, discSeen, delivered, nitems, lastAct>>
Init == /\ pipe = [p \in Peers |-> "none"] /\ discSeen = [p \in Peers |-> FALSE] /\ delivered = <<>> /\ nitems = 0
        /\ lastAct = [a |-> "init"]

CACK == 2  DISC == 3
\* item -> <<next pipe state, delivered size or -1, replies>>
Step(st, it) ==
  CASE it.k = "creq_ok" ->
         (IF st = "gone" THEN <<"gone", -1, <<>>>>                   \* (not modelled further: a peer that was disconnected stays away)
          ELSE <<"open", -1, <<<<CACK, RecvMax * Scale>>>>>>)                \* new pipe, or a refresh of the existing one: acknowledged
    [] it.k = "creq_ref0" ->                                         \* refresh time 0: negotiation error
         (IF st = "open" THEN <<"gone", -1, <<<<DISC, 5>>>>>> ELSE IF st = "none" THEN <<"none", -1, <<<<DISC, 5>>>>>> ELSE <<st, -1, <<>>>>)
    [] it.k = "creq_badtype" ->                                      \* a peer of the wrong protocol
         (IF st = "none" THEN <<"gone", -1, <<<<CACK, RecvMax * Scale>>, <<DISC, 0>>>>>>     \* acknowledged by the transport, refused by the socket
          ELSE IF st = "open" THEN <<"gone", -1, <<<<DISC, 1>>>>>> ELSE <<st, -1, <<>>>>)
    [] it.k = "data" ->
         (IF st # "open" THEN <<st, -1, <<>>>>                       \* no connection: ignored
          ELSE IF it.n > RecvMax THEN <<"gone", -1, <<<<DISC, 4>>>>>>
          ELSE <<"open", it.n, <<>>>>)
    [] it.k = "data_trunc" -> (IF st = "open" THEN <<"gone", -1, <<<<DISC, 4>>>>>> ELSE <<st, -1, <<>>>>)    \* claims more than it carries
    [] it.k \in {"badver", "short"} -> <<st, -1, <<>>>>              \* not SP/UDP at all: ignored
    [] it.k = "badop" -> <<st, -1, <<<<DISC, 7>>>>>>                 \* unknown opcode: told so, the connection (if any) is untouched
    [] it.k = "disc" -> <<(IF st = "open" THEN "gone" ELSE st), -1, <<>>>>
Items == {[k |-> x, n |-> 0] : x \in {"creq_ok", "creq_ref0", "creq_badtype", "badver", "short", "badop", "disc"}}
         \cup {[k |-> "data", n |-> n] : n \in Sizes} \cup {[k |-> "data_trunc", n |-> n] : n \in Sizes \ {0}}
Write(p, it) ==
  /\ nitems < MaxItems /\ nitems' = nitems + 1
  /\ (it.k = "data_trunc" => it.n <= RecvMax)
  \* a peer that was disconnected does not ask again (whether the socket still remembers the dead connection or already
  \* treats the address as new depends on its reaper)
  /\ (it.k \in {"creq_ok", "creq_ref0", "creq_badtype"} => pipe[p] # "gone")
  /\ LET r == Step(pipe[p], it)
         sawDisc == \E i \in 1..Len(r[3]) : r[3][i][1] = DISC
     IN /\ pipe' = [pipe EXCEPT ![p] = r[1]]
        /\ discSeen' = [discSeen EXCEPT ![p] = @ \/ sawDisc]
        /\ delivered' = IF r[2] >= 0 THEN Append(delivered, [c |-> p, n |-> r[2]]) ELSE delivered
        /\ lastAct' = [a |-> "wr", c |-> p, k |-> it.k, n |-> it.n, ser |-> nitems + 1, hn |-> (IF r[2] >= 0 THEN 1 ELSE 0), hc |-> Len(r[3]),
                       out |-> [got |-> IF r[2] >= 0 THEN <<r[2]>> ELSE <<>>, replies |-> r[3], closed |-> (discSeen[p] \/ sawDisc)]]
Next == \E p \in Peers : \E it \in Items : Write(p, it)
Spec == Init /\ [][Next]_vars

\* C11 for udp: only data of an established connection, within the limit and not lying about its length, is delivered
NoOversize == \A i \in 1..Len(delivered) : delivered[i].n <= RecvMax
SId == <<pipe, discSeen, nitems>>
Obs == [S_open |-> {p \in Peers : ~discSeen[p]}]
FinV == 0
ExportEdge == PrintT(<<"E", ToJson([s |-> SId, sa |-> lastAct, d |-> SId', act |-> lastAct', obs |-> Obs', fin |-> FinV'])>>)
View == SId
=====================================================================
