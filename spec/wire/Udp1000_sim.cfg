SPECIFICATION Spec
CONSTANTS Peers = {1, 2, 3}
          Sizes = {0, 1, 3, 5}
          RecvMax = 4
          Scale = 1000
          MaxItems = 12
INVARIANTS NoOversize
ACTION_CONSTRAINT ExportEdge
