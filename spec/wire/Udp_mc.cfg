SPECIFICATION Spec
CONSTANTS Peers = {1, 2}
          Sizes = {0, 1, 3, 5}
          RecvMax = 4
          Scale = 1
          MaxItems = 6
INVARIANTS NoOversize
VIEW View
