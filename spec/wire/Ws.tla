---------------------------- MODULE Ws ----------------------------
(* The WebSocket transport seen from a listening socket: HTTP/1.1 upgrade handling (src/supplemental/http/http_server.c,
   websocket.c ws_handler) and the WebSocket frame receiver / sender (src/supplemental/websocket/websocket.c ws_read_cb,
   ws_read_frame_cb, ws_frame_prep_tx), under SP's message mode (src/sp/transport/ws).     C16 (and C01/C11 for ws).

   The peer is the driver: a plain TCP socket writing requests and frames.  As in Framing.tla, how the byte stream is cut
   into reads is not part of the specification: every behaviour is replayed with the library's I/O clamped to 1, 3, ...
   bytes per system call and unclamped.  Sizes are in bytes: data frames carry units * Scale bytes. *)
EXTENDS Integers, Sequences, FiniteSets, TLC, Json

CONSTANTS Conns, MaxItems, Scale,
          RecvMax,      \* NNG_OPT_RECVMAXSZ in units (largest reassembled message)
          MaxFrame,     \* NNG_OPT_WS_RECVMAXFRAME in units (largest single frame)
          FragSize,     \* NNG_OPT_WS_SENDMAXFRAME in units (0: never fragment)
          Units,        \* payload sizes of data frames, in units
          Dir,          \* "in": PULL socket, the peer writes frames; "out": PUSH socket, the socket sends
          Role          \* "server": the socket listens, the driver is the WebSocket client; "client": the socket dials, the driver is
                        \* the WebSocket server (it accepts the TCP connection, answers the upgrade request, must not mask)

VARIABLES phase,        \* per connection: "none" | "http" | "ws" | "closed"
          inmsg, acc,   \* per connection: a fragmented message is being received; its bytes so far
          delivered,    \* ghost: [c, units] of every message handed to the application
          pad,          \* client role: the upgrade request is padded (by a user header) so that the emitted header block is exactly the size of
                        \* the connection's fixed emit buffer minus one / that size / plus one: "base" (no padding) | "m1" | "eq" | "p1"
          seen,         \* ... an unpadded request has been measured
          nitems, lastAct
vars == <<phase, inmsg, acc, delivered, pad, seen, nitems, lastAct>>

Init == /\ phase = [c \in Conns |-> "none"] /\ inmsg = [c \in Conns |-> FALSE] /\ acc = [c \in Conns |-> 0]
        /\ delivered = <<>> /\ pad = "base" /\ seen = FALSE /\ nitems = 0 /\ lastAct = [a |-> "init"]

Connect(c) == /\ Role = "server" /\ phase[c] = "none" /\ phase' = [phase EXCEPT ![c] = "http"]
              /\ lastAct' = [a |-> "conn", c |-> c, out |-> [rv |-> "ok"]] /\ UNCHANGED <<inmsg, acc, delivered, pad, seen, nitems>>
\* client role: the dialer (re)connects whenever it has no connection; the driver accepts and reads the upgrade request, which
\* must be well-formed (request line, Host, Upgrade, Connection, 24-character key, version 13, sub-protocol, CRLF line ends)
Accept(c) == /\ Role = "client" /\ phase[c] = "none" /\ \A d \in Conns : phase[d] \in {"none", "closed"}
             /\ phase' = [phase EXCEPT ![c] = "http"]
             /\ seen' = TRUE
             /\ lastAct' = [a |-> "accept", c |-> c, out |-> [rv |-> "ok", wf |-> TRUE, blk |-> pad]] /\ UNCHANGED <<inmsg, acc, delivered, pad, nitems>>
\* the application adds a request header (NNG_OPT_WS_HEADER) of a length that puts the next request at the emit buffer's boundary
Pad(cls) == /\ seen /\ pad # cls /\ nitems < MaxItems /\ (Role = "client" => \A d \in Conns : phase[d] \in {"none", "closed"})
            /\ pad' = cls /\ nitems' = nitems + 1
            /\ lastAct' = [a |-> "pad", cls |-> cls, out |-> [rv |-> "ok"]] /\ UNCHANGED <<phase, inmsg, acc, delivered, seen>>
\* the driver's answer to the upgrade request: anything but a correct 101 makes the client drop the connection
RespKinds == {"ok", "bad_accept", "no_accept", "no_upgrade", "no_connection", "upgrade_case", "wrong_proto", "no_proto",
              "status200", "status400", "status404", "garbage", "short_close"}
Resp(c, k) ==
  /\ Role = "client" /\ phase[c] = "http" /\ nitems < MaxItems /\ nitems' = nitems + 1
  /\ phase' = [phase EXCEPT ![c] = IF k = "ok" THEN "ws" ELSE "closed"]
  /\ lastAct' = [a |-> "resp", c |-> c, k |-> k, hc |-> (k # "ok"), out |-> [closed |-> (k # "ok")]]
  /\ UNCHANGED <<inmsg, acc, delivered, pad, seen>>

\* ---------------------------------------------------------------- HTTP upgrade
\* kind -> <<status, connection closed afterwards>>.  Error responses keep the connection (HTTP/1.1 persistence) unless the
\* server cannot trust the framing of the request any more.
HttpResult(k) ==
  CASE k = "ok" -> <<101, FALSE>>
    [] k = "http10" -> <<101, FALSE>>       \* (ws_handler means to refuse anything but HTTP/1.1 with 505, but the server resets the
                                            \*  version before calling it; the upgrade of an HTTP/1.0 request is accepted - observation)
    [] k \in {"no_host", "no_upgrade", "wrong_proto", "no_proto", "bad_key", "bad_wsver"} -> <<400, FALSE>>
    [] k = "many_headers" -> <<101, FALSE>>  \* more header bytes than the server's 8160-byte read buffer, every line short: a good request
    [] k = "long_header" -> <<431, FALSE>>   \* one header line that can never fit the read buffer: refused, the rest of it discarded
    [] k = "long_uri" -> <<414, FALSE>>      \* ... the request line
    [] k = "wrong_path" -> <<404, FALSE>>
    [] k = "post" -> <<405, FALSE>>
    [] k = "bad_version" -> <<505, FALSE>>
    [] k = "chunked" -> <<501, TRUE>>
    [] k = "garbage" -> <<0, TRUE>>           \* not HTTP at all: no response, connection dropped
    [] k = "short_close" -> <<0, TRUE>>       \* the peer went away inside the request
HttpKinds == {"ok", "many_headers", "long_header", "long_uri", "http10", "no_host", "no_upgrade", "wrong_proto", "no_proto", "bad_key", "bad_wsver", "wrong_path", "post",
              "bad_version", "chunked", "garbage", "short_close"}
Http(c, k) ==
  /\ Role = "server" /\ phase[c] = "http" /\ nitems < MaxItems /\ nitems' = nitems + 1
  /\ LET r == HttpResult(k) IN
       /\ phase' = [phase EXCEPT ![c] = IF r[2] THEN "closed" ELSE IF r[1] = 101 THEN "ws" ELSE "http"]
       \* blk: the size class of the emitted 101 header block (the listener's response headers may pad it to the emit buffer's boundary)
       /\ lastAct' = [a |-> "http", c |-> c, k |-> k, hc |-> r[2], out |-> [status |-> r[1], wf |-> TRUE, closed |-> r[2], blk |-> IF r[1] = 101 /\ k = "ok" THEN pad ELSE "na"]]
       /\ seen' = (seen \/ (r[1] = 101 /\ k = "ok" /\ pad = "base"))
  /\ UNCHANGED <<inmsg, acc, delivered, pad>>

\* ---------------------------------------------------------------- WebSocket frames from the client
OpCont == 0  OpText == 1  OpBin == 2  OpClose == 8  OpPing == 9  OpPong == 10
NonMinimal(enc, bytes) == (enc = 1 /\ bytes < 126) \/ (enc = 2 /\ bytes < 65536)
\* <<verdict, close code>>: "deliver" | "more" | "pong" | "ignore" | "bye" (close handshake) | "fail"
Verdict(c, f, bytes) ==
  IF NonMinimal(f.enc, bytes) THEN <<"fail", 1002>>
  ELSE IF MaxFrame > 0 /\ bytes > MaxFrame * Scale THEN <<"fail", 1009>>
  ELSE IF RecvMax > 0 /\ acc[c] + bytes > RecvMax * Scale THEN <<"fail", 1009>>
  ELSE IF f.masked # (Role = "server") THEN <<"fail", 1002>>   \* a client must mask, a server must not
  ELSE IF f.rsv # 0 THEN <<"fail", 1002>>
  ELSE IF f.op = OpCont THEN (IF ~inmsg[c] THEN <<"fail", 1002>> ELSE IF f.fin THEN <<"deliver", 0>> ELSE <<"more", 0>>)
  ELSE IF f.op = OpText THEN <<"fail", 1003>>                  \* SP messages are binary
  ELSE IF f.op = OpBin THEN (IF inmsg[c] THEN <<"fail", 1002>> ELSE IF f.fin THEN <<"deliver", 0>> ELSE <<"more", 0>>)
  ELSE IF f.op = OpPing THEN (IF bytes > 125 THEN <<"fail", 1002>> ELSE <<"pong", 0>>)
  ELSE IF f.op = OpPong THEN (IF bytes > 125 THEN <<"fail", 1002>> ELSE <<"ignore", 0>>)
  ELSE IF f.op = OpClose THEN <<"bye", 1000>>
  ELSE <<"fail", 1002>>                                        \* reserved opcode
Frame(c, f) ==
  /\ phase[c] = "ws" /\ Dir = "in" /\ nitems < MaxItems /\ nitems' = nitems + 1
  /\ LET bytes == IF f.op >= 8 THEN f.n ELSE f.n * Scale
         v == Verdict(c, f, bytes)
         total == (acc[c] + bytes) \div Scale
     IN /\ phase' = [phase EXCEPT ![c] = IF v[1] \in {"fail", "bye"} THEN "closed" ELSE "ws"]
        /\ inmsg' = [inmsg EXCEPT ![c] = (v[1] = "more") \/ (inmsg[c] /\ v[1] \in {"pong", "ignore"})]
        /\ acc' = [acc EXCEPT ![c] = IF v[1] = "more" THEN acc[c] + bytes ELSE IF v[1] \in {"pong", "ignore"} THEN acc[c] ELSE 0]
        /\ delivered' = IF v[1] = "deliver" THEN Append(delivered, [c |-> c, n |-> total]) ELSE delivered
        /\ lastAct' = [a |-> "ws", c |-> c, fin |-> f.fin, op |-> f.op, masked |-> f.masked, rsv |-> f.rsv, enc |-> f.enc, n |-> f.n,
                       ser |-> nitems + 1, newmsg |-> ~inmsg[c],
                       hn |-> (IF v[1] = "deliver" THEN 1 ELSE 0), hr |-> (IF v[1] \in {"pong", "fail", "bye"} THEN 1 ELSE 0),
                       hc |-> (v[1] \in {"fail", "bye"}),
                       out |-> [got |-> IF v[1] = "deliver" THEN <<total>> ELSE <<>>,
                                replies |-> IF v[1] = "pong" THEN <<<<OpPong, TRUE>>>> ELSE IF v[1] \in {"fail", "bye"} THEN <<<<OpClose, v[2]>>>> ELSE <<>>,
                                wf |-> TRUE, closed |-> (v[1] \in {"fail", "bye"})]]
        /\ UNCHANGED <<pad, seen>>
M == (Role = "server")      \* the mask bit of a well-formed frame from the peer
DataFrames == [fin : BOOLEAN, op : {OpCont, OpBin}, masked : {M}, rsv : {0}, enc : {0}, n : Units]
OddFrames == [fin : {TRUE}, op : {OpBin}, masked : {~M}, rsv : {0}, enc : {0}, n : {1}]                     \* wrong mask bit
             \cup [fin : {TRUE}, op : {OpBin}, masked : {M}, rsv : {1, 4}, enc : {0}, n : {1}]            \* reserved bits
             \cup [fin : {TRUE}, op : {OpBin}, masked : {M}, rsv : {0}, enc : {1, 2}, n : {0, 1}]         \* length encodings
             \cup [fin : {TRUE}, op : {OpText, 3, 11}, masked : {M}, rsv : {0}, enc : {0}, n : {1}]       \* text, reserved opcodes
             \cup [fin : BOOLEAN, op : {OpPing, OpPong}, masked : {M}, rsv : {0}, enc : {0}, n : {0, 2, 125, 126}]
             \cup [fin : {TRUE}, op : {OpClose}, masked : {M}, rsv : {0}, enc : {0}, n : {0, 2}]

\* ---------------------------------------------------------------- the socket sends (Dir = "out")
Send(c, n) ==
  /\ Dir = "out" /\ phase[c] = "ws" /\ nitems < MaxItems /\ nitems' = nitems + 1
  \* server role: the only connection that ever completed the upgrade (a lost one may not have been noticed yet);
  \* client role: the dialer has one connection at a time and tears the old one down itself
  /\ \A d \in Conns \ {c} : IF Role = "server" THEN phase[d] \in {"none", "http"} ELSE phase[d] # "ws"
  /\ LET bytes == n * Scale  fs == FragSize * Scale
         nfrag == IF fs = 0 \/ bytes <= fs THEN 1 ELSE (bytes + fs - 1) \div fs
     IN lastAct' = [a |-> "send", c |-> c, n |-> n, ser |-> nitems + 1, out |-> [rv |-> "ok", units |-> n, ok |-> TRUE, nfrag |-> nfrag]]
  /\ UNCHANGED <<phase, inmsg, acc, delivered, pad, seen>>

Next == (\E cls \in {"m1", "eq", "p1"} : Pad(cls)) \/ \E c \in Conns : Connect(c) \/ Accept(c) \/ (\E k \in HttpKinds : Http(c, k)) \/ (\E k \in RespKinds : Resp(c, k))
                         \/ (\E f \in DataFrames \cup OddFrames : Frame(c, f))
                         \/ (\E n \in Units : Send(c, n))
Spec == Init /\ [][Next]_vars

\* ---------------------------------------------------------------- properties (C16)
\* nothing above the configured maxima is ever delivered, and nothing while its connection is not in the WebSocket phase
Bounded == \A i \in 1..Len(delivered) : RecvMax > 0 => delivered[i].n <= RecvMax
NoGhostMessage == \A c \in Conns : (~inmsg[c] => acc[c] = 0) /\ (phase[c] # "ws" => ~inmsg[c])
AccBounded == \A c \in Conns : RecvMax > 0 => acc[c] <= RecvMax * Scale

SId == <<phase, inmsg, acc, pad, seen, nitems>>
Obs == [S_open |-> {c \in Conns : phase[c] \in {"http", "ws"}}]
FinV == 0
ExportEdge == PrintT(<<"E", ToJson([s |-> SId, sa |-> lastAct, d |-> SId', act |-> lastAct', obs |-> Obs', fin |-> FinV'])>>)
View == SId
=====================================================================
