SPECIFICATION Spec
CONSTANTS Conns = {1, 2, 3}
          MaxItems = 12
          Scale = 1000
          RecvMax = 6
          MaxFrame = 4
          FragSize = 2
          Units = {0, 1, 3, 5}
          Role = "server"
          Dir = "in"
INVARIANTS Bounded NoGhostMessage AccBounded
ACTION_CONSTRAINT ExportEdge
