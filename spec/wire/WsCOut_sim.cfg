SPECIFICATION Spec
CONSTANTS Conns = {1, 2, 3}
          MaxItems = 12
          Scale = 1
          RecvMax = 6
          MaxFrame = 4
          FragSize = 2
          Units = {0, 1, 3, 5}
          Role = "client"
          Dir = "out"
INVARIANTS Bounded NoGhostMessage AccBounded
ACTION_CONSTRAINT ExportEdge
