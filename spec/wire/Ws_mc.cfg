SPECIFICATION Spec
CONSTANTS Conns = {1, 2}
          MaxItems = 5
          Scale = 1
          RecvMax = 6
          MaxFrame = 4
          FragSize = 2
          Units = {0, 1, 3, 5}
          Role = "server"
          Dir = "in"
INVARIANTS Bounded NoGhostMessage AccBounded
VIEW View
