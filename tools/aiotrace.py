"""Normalises NNG_VERIF traces for spec/trace/TraceAio.tla: one lifetime of one aio after the other."""
import json, sys

FIELDS = ("stop", "abort", "expg", "sleep", "xok", "cfn", "onx", "res")
OUT = {"ok": 0, "stopped": 1, "aborted": 2, "timedout": 3}


def normalise(lines, max_events=None, skip_incomplete=True):
    """lines: iterable of raw ndjson trace lines (in q order).  Returns (records, stats)."""
    life = {}      # aio ptr -> list of records (current lifetime)
    task_of = {}   # task ptr -> aio ptr
    done = []      # finished lifetimes
    hascb = {}
    nraw = 0
    for ln in lines:
        ln = ln.strip()
        if not ln or ln[0] != "{":
            continue
        try:
            r = json.loads(ln)
        except ValueError:
            continue   # torn last line of a killed process
        nraw += 1
        o, e, p = r.get("o"), r.get("e"), r.get("p")
        if o == "aio":
            if e == "init":
                if p in life and life[p]:
                    done.append((hascb.get(p, 1), life[p]))
                life[p] = []
                hascb[p] = r.get("hascb", 1)
                task_of[r.get("task")] = p
                continue
            if p not in life:
                continue    # tracing started in the middle of this aio's life
            rec = dict(e=e, a1=0, a2=0, a3=0)
            for k in FIELDS:
                rec[k] = int(r.get(k, 0))
            if e == "start":
                rec["a1"] = OUT[r["out"]]
            elif e == "finish":
                rec["a1"], rec["a2"], rec["a3"] = r["rv"], r["skip"], r["sync"]
            elif e == "abort":
                rec["a1"], rec["a2"] = r["rv"], r["took"]
            elif e in ("stop", "fini", "close"):
                rec["a1"] = r["took"]
            elif e == "xtake":
                rec["a1"] = max(-1, min(int(r["late"]), 1000000))
                rec["a2"] = 1 if r.get("qstop") else 0
            elif e == "xfire":
                rec["a1"], rec["a2"], rec["a3"] = r["rv"], r["took"], r["slept"]
                if r["rv"] == 999:
                    # the queue is being stopped (nng_fini): the preceding take was not a timeout
                    for prev in reversed(life[p]):
                        if prev["e"] == "xtake":
                            prev["a2"] = 1
                            break
            life[p].append(rec)
            if e == "fini_ret":
                done.append((hascb.get(p, 1), life[p]))
                del life[p]
        elif o == "task":
            a = task_of.get(p)
            if a is None or a not in life:
                continue
            rec = dict(e=e, a1=0, a2=0, a3=0)
            for k in FIELDS:
                rec[k] = 0
            life[a].append(rec)
    for p, recs in life.items():
        if recs:
            done.append((hascb.get(p, 1), recs))
    out = []
    n = 0
    for hc, recs in done:
        out.append(dict(e="new", a1=hc, a2=0, a3=0, **{k: 0 for k in FIELDS}))
        out.extend(recs)
        n += 1
        if max_events and len(out) >= max_events:
            break
    return out, dict(raw_events=nraw, lifetimes=n, records=len(out))


def main():
    recs, st = normalise(open(sys.argv[1]))
    with open(sys.argv[2], "w") as f:
        for r in recs:
            f.write(json.dumps(r) + "\n")
    print(st)


if __name__ == "__main__":
    main()
