#!/bin/sh
# The repository's own test suite with the NNG_VERIF guard OFF (plain build of /repo's working tree).
set -e
B=/verif/.work/build-baseline
mkdir -p "$B"
cmake -G Ninja -S /repo -B "$B" -DNNG_TESTS=ON >/dev/null
cmake --build "$B" -j16 >/dev/null
ctest --test-dir "$B" -j8 --timeout 900 --output-junit "$B/junit.xml"
