"""Aggregate checks (C03, C15): the protocol and data-structure replays of the other checks, run at a fraction of their
budget, reporting only the divergences that concern the aggregate property."""
import importlib
from vlib import *


class Only:
    """Verdict proxy: forwards everything, but keeps a violation only if its signature/text concerns this property."""

    def __init__(self, v, pred, scale):
        object.__setattr__(self, "_v", v)
        object.__setattr__(self, "_pred", pred)
        object.__setattr__(self, "scale", scale)
        object.__setattr__(self, "other", 0)

    def __getattr__(self, k):
        return getattr(self._v, k)

    def __setattr__(self, k, val):
        if k in ("scale", "other"):
            object.__setattr__(self, k, val)
        else:
            setattr(self._v, k, val)

    def violation(self, sig, text, obj=None):
        if self._pred(sig, text):
            return self._v.violation(sig, text, obj)
        object.__setattr__(self, "other", self.other + 1)
        if self.other <= 5:
            log("(left to its own property's check: %s)" % sig)


def run_members(v, members, tier, rng, pred, scale):
    px = Only(v, pred, scale)
    rule = []
    for name in members:
        mod = importlib.import_module("checks." + name)
        log("---- %s (as part of %s)" % (name, v.prop))
        mod.run(px, tier, rng)
        rule.append(name.upper())
    v.cov["members"] = rule
    v.cov["divergences_outside_this_property"] = px.other
    if px.other:
        log("%d divergences that do not concern %s were left to the checks of the properties they concern" % (px.other, v.prop))
    return px
