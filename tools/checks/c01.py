"""C01: whole-message integrity on every transport, under any segmentation.
Spec: wire/Framing.tla.  Every behaviour is replayed with the library's reads and writes clamped to 1, 2, 3 and 7 bytes per
system call and unclamped, with payload scales 1 and 1000 (messages of 0, 1, 3, 5 bytes and 0, 1000, 3000, 5000 bytes), in
both directions (PULL socket receiving, PUSH socket sending), over tcp and ipc; every delivered payload is compared byte by
byte with its pattern, as is every frame the socket writes.  This check keeps the divergences in what was delivered."""
from checks.wirelib import run_wire


def concerns(sig, text):
    what = sig.rsplit(":", 1)[-1]
    return "got" in what or "frame" in what or "ok" in what or ":asan" in sig or ":ubsan" in sig or "alloc:balance" in sig or "rv" in what


def run(v, tier, rng):
    clamps = [(1, 1), (1, 2), (1, 3), (1, 7), (1, 0), (1000, 1), (1000, 7), (1000, 0)]
    run_wire(v, tier, concerns, [("Framing_sim.cfg", "pull", 4, clamps, 250), ("FramingOut_sim.cfg", "push", 4, clamps, 120)])
