"""C01: whole-message integrity on every transport, under any segmentation.
Spec: wire/Framing.tla.  Every behaviour is replayed with the library's reads and writes clamped to 1, 2, 3 and 7 bytes per
system call and unclamped, with payload scales 1 and 1000 (messages of 0, 1, 3, 5 bytes and 0, 1000, 3000, 5000 bytes), in
both directions (PULL socket receiving, PUSH socket sending), over tcp, ipc and socket://, (wire/Ws.tla) over ws:// in both roles, and
(wire/Inproc.tla) over inproc between two sockets whose protocol is the driver itself; every delivered payload is compared byte by
byte with its pattern, as is every frame the socket writes.  This check keeps the divergences in what was delivered."""
from checks.wirelib import run_wire


def concerns(sig, text):
    what = sig.rsplit(":", 1)[-1]
    return "got" in what or "frame" in what or "ok" in what or ":asan" in sig or ":ubsan" in sig or "alloc:balance" in sig or "rv" in what


def concerns_ws(sig, text):
    what = sig.rsplit(":", 1)[-1]
    return ".ws." in sig or ".send" in sig or "got" in what or "watchdog" in sig or ":asan" in sig or ":ubsan" in sig or "alloc:balance" in sig


def run(v, tier, rng):
    clamps = [(1, 1), (1, 2), (1, 3), (1, 7), (1, 0), (1000, 1), (1000, 7), (1000, 0)]
    run_wire(v, tier, concerns, [("Framing_sim.cfg", "pull", 4, clamps, 250), ("FramingOut_sim.cfg", "push", 4, clamps, 120)])
    # the websocket transport (specification wire/Ws.tla, shared with C16): data frames, fragments and sends in both roles
    from checks.c16 import run_ws
    from checks.agg import Only
    px = Only(v, concerns_ws, 1.0)
    n = run_ws(px, tier, [("Ws_sim.cfg", "pull", 1, [3], 150), ("WsC_sim.cfg", "pulld", 1, [1, 0], 120), ("WsOut_sim.cfg", "push", 1, [1], 60),
                          ("WsC1000_sim.cfg", "pulld", 1000, [3], 60)], mc=False)
    v.cov["distinct_nontrivial"] = v.cov.get("distinct_nontrivial", 0) + n
    v.cov["divergences_outside_this_property"] = v.cov.get("divergences_outside_this_property", 0) + px.other
    # the inproc transport (specification wire/Inproc.tla): the driver is the protocol on both sockets; header pull-up, message shapes,
    # exclusive copy of a shared message, order, exactly-once hand-off
    from checks.inproc import run_inproc
    v.cov["distinct_nontrivial"] += run_inproc(v, tier, plans=("gen", "sim"))
