"""C02: every asynchronous operation completes exactly once.
Spec: core/Aio.tla.  Bindings:
  1. gated replay (harness/drv_aio.c): every edge of the TLC graph is replayed on the real aio framework with the
     NNG_VERIF task gate (callbacks run when the behaviour says so), the virtual clock and a harness provider whose
     cancel function honours or declines as the behaviour says;
  2. (see c02 trace validation) H-AIO traces of the repository's tests validated against trace/TraceAio.tla."""
import os, shutil
from vlib import *
from replay import replay_walks

DRV = ["drv_aio.c", "dee.c", "acct.c"]


def aio_cmd(a, obs=None):
    k = a["a"]
    b = lambda x: "1" if x else "0"
    if k == "set_timeout":
        return "set_timeout %d" % a["t"]
    if k == "submit":
        return "submit %s" % b(a["reset"])
    if k == "sleep":
        return "sleep %d" % a["ms"]
    if k == "finish":
        return "finish %s" % a["rv"]
    if k == "abort":
        return "abort %s %s" % (a["rv"], b(a["honor"]))
    if k == "tick":
        return "tick %d %s" % (a["d"], b(a["honor"]))
    if k == "run_cb":
        return "run_cb %s" % b(a["resub"])
    if k == "stop":
        return "stop %s" % b(a["honor"])
    return k


def sig_aio(acts, idx, step, allowed):
    a = acts[idx] if idx < len(acts) else {"a": "end"}
    what = "?"
    if step and allowed:
        exp = allowed[0]
        if step[1] != exp["out"]:
            what = "result"
            if a["a"] == "run_cb" and step[1] and exp["out"]:
                what = "result:%s-for-%s" % (step[1].get("result"), exp["out"].get("result"))
        else:
            o, e = step[2] or {}, exp["obs"]
            what = ",".join(k for k in sorted(e) if o.get(k) != e.get(k))
    prev = acts[idx - 1]["a"] if idx > 0 else "init"
    return "aio.%s-after-%s:%s" % (a["a"], prev, what)


def run(v, tier, rng):
    exe = build_driver("drv_aio", DRV)
    thorough = tier == "thorough"
    r = tlc("core/Aio.tla", "Aio_mc.cfg", workers=8, timeout=1500)
    tlc_require_ok(r, "Aio model check")
    v.add_tlc("core/Aio.tla:Aio_mc.cfg", r)
    g = tlc_edges("core/Aio.tla", "Aio_gen2.cfg" if thorough else "Aio_gen.cfg", timeout=1500)
    v.cov["states"] += g["distinct"]
    v.cov["transitions"] += len(g["edges"])
    walks, total, covered = cover_walks(g, rng, maxlen=25)
    extra = random_walks(g, rng, 3000 if thorough else 400, 40)
    n = replay_walks(v, g, walks + extra, exe, "aio", aio_cmd, lambda ia: "init", "core/Aio.tla:gen", sig_of=sig_aio,
                     check_fin=False, chunk=100)
    log("aio: %d/%d edges covered by %d walks (+%d random), %d validated" % (covered, total, len(walks), len(extra), n))
    v.cov["edge_cover"] = dict(edges=total, covered=covered, walks=len(walks), random_walks=len(extra), validated=n)
    v.cov["distinct_nontrivial"] = total
    v.cov["rule"] = ("every transition of the Aio.tla graph (submit/sleep/finish/abort/tick/run_cb/stop/free with honour/decline and "
                     "resubmission choices, <= 2-3 operations) replayed on the real aio framework under the task gate and virtual clock")
    v.assumptions += ["one action of the harness = one critical section (or a cancel-function call chain) of aio.c; thread "
                      "interleavings inside a critical section are excluded by eq_mtx",
                      "stop-is-still-blocked is observed in the sound direction only"]


# ---------------------------------------------------------------------------------------------
# code -> spec: H-AIO traces of the repository's own tests, validated by TLC against trace/TraceAio.tla

QUICK_TESTS = ["src/core/aio_test", "src/core/sock_test", "src/sp/pipe_test", "src/sp/protocol/reqrep0/req_test",
               "src/sp/protocol/pipeline0/push_test", "src/core/reconnect_test", "src/sp/protocol/survey0/survey_test"]
THOROUGH_TESTS = QUICK_TESTS + [
    "src/sp/device_test", "src/sp/nonblock_test", "src/sp/protocol/bus0/bus_test", "src/sp/protocol/pair1/pair1_test",
    "src/sp/protocol/pair0/pair0_test", "src/sp/protocol/pubsub0/sub_test", "src/sp/protocol/pubsub0/pub_test",
    "src/sp/protocol/reqrep0/rep_test", "src/sp/protocol/reqrep0/xrep_test", "src/sp/protocol/reqrep0/xreq_test",
    "src/sp/protocol/survey0/respond_test", "src/sp/protocol/pipeline0/pull_test", "src/sp/transport/inproc/inproc_test",
    "src/sp/transport/ipc/ipc_test", "src/sp/transport/tcp/tcp_test", "src/sp/transport/ws/ws_test",
    "src/sp/transport/socket/sockfd_test", "src/supplemental/http/http_server_test", "src/supplemental/websocket/websocket_test",
    "src/platform/tcp_stream_test", "src/platform/ipc_stream_test", "src/sp/reconnect_stress_test"]


def validate_trace(v, normfile, tag, timeout=1200):
    """Runs TLC on a normalised trace; returns (accepted, maxl, n)."""
    import re
    r = tlc("trace/TraceAio.tla", "TraceAio.cfg", workers=1, timeout=timeout, env={"TRACE": normfile}, deadlock=True, xmx="6g")
    m = re.search(r'<<"MAXL", (\d+), (\d+)>>', r["out"])
    if r["status"] == "violation":
        # an invariant of the trace spec failed (AtMostOneOwed)
        m2 = re.search(r"/\\ l = (\d+)", r["out"])
        return False, int(m2.group(1)) - 1 if m2 else 0, -1, r
    if not m:
        raise Broken("trace validation %s: no progress report\n%s" % (tag, r["out"][-2000:]))
    maxl, n = int(m.group(1)), int(m.group(2))
    return maxl == n + 1, maxl, n, r


def trace_part(v, tier, rng):
    import json, subprocess
    from concurrent.futures import ThreadPoolExecutor
    from aiotrace import normalise
    thorough = tier == "thorough"
    tests = THOROUGH_TESTS if thorough else QUICK_TESTS
    bdir = build_repo_tests("plain", [os.path.basename(t) for t in tests])
    tdir = os.path.join(WORK, "traces-C02")
    shutil.rmtree(tdir, ignore_errors=True)
    os.makedirs(tdir)

    def run_test(t):
        tf = os.path.join(tdir, os.path.basename(t) + ".ndjson")
        env = dict(os.environ, NNG_VERIF_TRACE=tf)
        try:
            p = subprocess.run([os.path.join(bdir, t)], env=env, timeout=600, stdout=subprocess.PIPE, stderr=subprocess.STDOUT,
                               cwd=tdir)
            rc = p.returncode
        except subprocess.TimeoutExpired:
            rc = 124
        return t, tf, rc
    with ThreadPoolExecutor(max_workers=8) as ex:
        runs = list(ex.map(run_test, tests))
    jobs = []
    total_life = 0
    total_rec = 0
    for t, tf, rc in runs:
        if not os.path.exists(tf):
            raise Broken("test %s produced no trace (rc=%s)" % (t, rc))
        recs, st = normalise(open(tf, errors="replace"))
        total_life += st["lifetimes"]
        total_rec += st["records"]
        # chunks of whole lifetimes, <= 150k records each
        chunk, chunks = [], []
        for r in recs:
            if r["e"] == "new" and len(chunk) > 150000:
                chunks.append(chunk)
                chunk = []
            chunk.append(r)
        if chunk:
            chunks.append(chunk)
        for ci, ch in enumerate(chunks):
            nf = os.path.join(tdir, "%s.%d.norm.ndjson" % (os.path.basename(t), ci))
            with open(nf, "w") as f:
                for r in ch:
                    f.write(json.dumps(r) + "\n")
            jobs.append((t, nf, ch))
        os.unlink(tf)
    with ThreadPoolExecutor(max_workers=8) as ex:
        results = list(ex.map(lambda j: validate_trace(v, j[1], j[0]), jobs))
    accepted = 0
    for (t, nf, ch), (ok, maxl, n, r) in zip(jobs, results):
        v.cov["states"] += r.get("distinct", 0)
        v.cov["transitions"] += r.get("generated", 0)
        if ok:
            accepted += sum(1 for x in ch if x["e"] == "new")
            os.unlink(nf)
            continue
        # rejected at record maxl (1-based): report the lifetime it belongs to
        i = max(0, min(maxl - 1, len(ch) - 1))
        s = i
        while s > 0 and ch[s]["e"] != "new":
            s -= 1
        bad = ch[i]
        prev = ch[i - 1] if i > s else {"e": "new"}
        OUT = {0: "ok", 1: "stopped", 2: "aborted", 3: "timedout"}
        pe = prev["e"] + ("(%s)" % OUT.get(prev["a1"]) if prev["e"] == "start" else "")
        sig = "aio.trace:%s-after-%s" % (bad["e"], pe)
        accepted += sum(1 for x in ch[:s] if x["e"] == "new")
        v.violation(sig, "%s: aio trace rejected at record %d: %s after %s (lifetime: %s)" % (
            os.path.basename(t), maxl, json.dumps(bad), pe, " ".join(x["e"] for x in ch[s:i + 1])[-400:]),
            dict(spec="trace/TraceAio.tla", test=t, normalised_trace=nf, rejected_record=maxl, lifetime=ch[s:i + 2]))
    # binding self-test: a corrupted record and a removed record must both be rejected
    st = {}
    base = None
    for (t, nf, ch), (ok, maxl, n, r) in zip(jobs, results):
        if ok and 50 < len(ch) < 20000 and any(x["e"] == "finish" for x in ch):
            base = ch
            break
    if base is not None:
        k = next(i for i, x in enumerate(base) if x["e"] == "finish")
        for name, mut in (("corrupt_field", [dict(x, cfn=1) if i == k else x for i, x in enumerate(base)]),
                          ("drop_record", [x for i, x in enumerate(base) if i != k])):
            nf = os.path.join(tdir, "selftest-%s.ndjson" % name)
            with open(nf, "w") as f:
                for r_ in mut:
                    f.write(json.dumps(r_) + "\n")
            ok2, maxl2, n2, _ = validate_trace(v, nf, "selftest")
            st[name] = dict(rejected=not ok2, at_record=maxl2, mutated_record=k + 1)
            os.unlink(nf)
        if not all(x["rejected"] for x in st.values()):
            raise Broken("trace judge accepted a corrupted trace: %s" % st)
    v.cov["trace_binding_selftest"] = st
    v.cov["traces_validated_against_impl"] += accepted
    v.cov["trace_validation"] = dict(tests=[os.path.basename(t) for t in tests], aio_lifetimes=total_life, records=total_rec,
                                     lifetimes_accepted=accepted)
    v.cov["evaluations"] += total_rec
    log("aio traces: %d tests, %d aio lifetimes, %d records, %d lifetimes accepted" % (len(tests), total_life, total_rec, accepted))
    v.sample(dict(trace_validation="H-AIO records of %s" % os.path.basename(tests[0]), first_records=jobs[0][2][:6] if jobs else []))


def xq_cmd(a, obs=None):
    k = a["a"]
    if k == "xq_add":
        return "xq_add %d %d" % (a["id"], a["ms"])
    if k == "xq_cancel":
        return "xq_cancel %d" % a["id"]
    return "xq_tick %d" % a["d"]


def expireq_part(v, tier, rng):
    """several timed operations on one expire queue: batches, wake-up time (spec core/ExpireQ.tla)"""
    thorough = tier == "thorough"
    exe = build_driver("drv_xq", ["drv_xq.c", "dee.c", "acct.c"])
    r = tlc("core/ExpireQ.tla", "ExpireQ_mc.cfg" if thorough else "ExpireQ_q.cfg", workers=12, timeout=1500)
    tlc_require_ok(r, "ExpireQ")
    v.add_tlc("core/ExpireQ.tla:mc", r)
    g = tlc_edges("core/ExpireQ.tla", "ExpireQ_gen2.cfg" if thorough else "ExpireQ_gen.cfg", timeout=3000)
    v.cov["states"] += g["distinct"]
    v.cov["transitions"] += len(g["edges"])
    walks, total, covered = cover_walks(g, rng, maxlen=14, limit=None if thorough else 1200)
    n = replay_walks(v, g, walks, exe, "xq", xq_cmd, lambda ia: "init", "core/ExpireQ.tla:gen",
                     sig_of=lambda acts, idx, step, allowed: "expireq.%s:%s" % (acts[idx]["a"] if idx < len(acts) else "end",
                                                                               "fired-set" if step else "?"),
                     check_fin=False, chunk=40)
    log("expireq: %d/%d edges covered by %d walks, %d validated" % (covered, total, len(walks), n))
    v.cov["edge_cover_expireq"] = dict(edges=total, covered=covered, walks=len(walks), validated=n)


_run_replay = run


def run(v, tier, rng):
    _run_replay(v, tier, rng)
    expireq_part(v, tier, rng)
    trace_part(v, tier, rng)
    # the device operation: cancelled in every state of its forwarding paths it completes exactly once (dev/DevLife.tla)
    from checks.c13 import devlife_part
    devlife_part(v, tier, rng)
    # transport operations (pipe send / receive of the inproc transport) matched, cancelled and closed: one completion each
    from checks.inproc import run_inproc
    run_inproc(v, tier, pred=lambda sig, text: any(k in sig.rsplit(":", 1)[-1] for k in ("done", "pend")) or ":panic" in sig or ":asan" in sig or "exit-" in sig,
               mc=False, plans=("sim",), scale=0.7)
