"""C03: message ownership, memory safety and no leaks for any API usage.
All replays run under ASan+UBSan with the accounting allocator (every block returned, with the size it was allocated with,
after each walk's teardown) and with message-ownership reporting (a failed send keeps the message, a successful one does
not).  This check runs the replays of the data-structure and protocol checks and keeps exactly the divergences that are
memory-safety, ownership or allocator-balance findings; the ownership ghost of the REQ retained copy (Req.tla OwnershipOK)
and option changes between the halves of an exchange (Req_sim2, resize in Msgq/Lmq/Pair/Sub) are part of those replays."""
from vlib import *
from checks.agg import run_members

MEMBERS = ["c18", "c17", "c06", "c08", "c05", "c09", "c04", "c07", "c11"]


def concerns(sig, text):
    for k in (":asan", ":ubsan", ":acct", "alloc:balance", "msglost", "msgkept", ":exit-", "leak", "badfree", "mism"):
        if k in sig:
            return True
    return "msglost" in text or "msgkept" in text


def run(v, tier, rng):
    thorough = tier == "thorough"
    run_members(v, MEMBERS, tier, rng, concerns, 1.0 if thorough else 0.25)
    v.cov["distinct_nontrivial"] = sum(x.get("walks", 0) for x in v.cov.get("edge_cover", {}).values())
    v.cov["rule"] = ("walks replayed under ASan+UBSan and the accounting allocator (balance and size match checked at the end of each "
                     "walk, after the socket is closed); distinct = replayed walks")
    v.assumptions += ["nng_fini is called once per driver process, the per-walk balance is taken after closing the walk's socket",
                      "real transports, dialers/listeners and devices are outside these replays (harness transport)"]
