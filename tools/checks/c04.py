"""C04: REQ/REP: replies reach only the matching outstanding request.
Specs: proto/Req.tla, proto/Rep.tla (macro-step, virtual time).  Binding: TLC -simulate behaviours replayed through drv_proto;
the driver is the peer: it sees request ids on the wire and injects replies of every class."""
import os, random
from vlib import *
from protolib import *

REQ_SETUP = ("setopt req:resend-tick ms 10", "setopt req:resend-time ms 30")


REP_SETUP = ("symw 1",)


def rep_part(v, thorough, mc=True):
    if mc:
        r = tlc("proto/Rep.tla", "Rep_mc.cfg", workers=12, timeout=2400)
        tlc_require_ok(r, "Rep")
        v.add_tlc("proto/Rep.tla:mc", r)
    replay_sim(v, "rep", False, "proto/Rep.tla", "Rep_sim.cfg", 20000 if thorough else 1500, 35, auto=True, setup=REP_SETUP)
    # every class of transition of the complete one-connection graph (incl. cancel, context close and socket close with a
    # queued reply and a pending receive)
    replay_proto(v, "rep", False, "proto/Rep.tla", "Rep_gen.cfg", random.Random(v.seed), nrandom=0, auto=True, setup=REP_SETUP,
                 by_class=True, timeout=3000)


def run(v, tier, rng):
    thorough = tier == "thorough"
    if os.environ.get("VERIF_PART") == "rep":        # development aid
        return rep_part(v, thorough)
    r = tlc("proto/Req.tla", "Req_mc.cfg" if thorough else "Req_q.cfg", workers=12, timeout=2400)
    tlc_require_ok(r, "Req")
    v.add_tlc("proto/Req.tla:mc", r)
    replay_sim(v, "req", False, "proto/Req.tla", "Req_sim.cfg", 20000 if thorough else 2500, 35, auto=True, setup=REQ_SETUP)
    # the resend time changed while a request is outstanding (ownership of the retained request copy, C03)
    replay_sim(v, "req", False, "proto/Req.tla", "Req_sim2.cfg", 10000 if thorough else 1500, 35, auto=True, setup=REQ_SETUP)
    rep_part(v, thorough)
    v.cov["distinct_nontrivial"] = sum(x["walks"] for x in v.cov["edge_cover"].values())
    v.cov["rule"] = "TLC -simulate behaviours (depth 35) of Req/Rep replayed in run-to-quiescence steps; distinct = distinct behaviours"
