"""C05: PUB/SUB: delivery iff a current subscription prefixes the body.
Specs: proto/Sub.tla, proto/Pub.tla (macro-step).  Binding: TLC -simulate behaviours replayed through drv_proto."""
from vlib import *
from protolib import *


def run(v, tier, rng):
    thorough = tier == "thorough"
    r = tlc("proto/Sub.tla", "Sub_mc2.cfg" if thorough else "Sub_mc.cfg", workers=12, timeout=2400)
    tlc_require_ok(r, "Sub")
    v.add_tlc("proto/Sub.tla:mc", r)
    replay_sim(v, "sub", False, "proto/Sub.tla", "Sub_sim.cfg", 20000 if thorough else 2500, 30, auto=True)
    r = tlc("proto/Pub.tla", "Pub_mc.cfg", workers=8, timeout=1500)
    tlc_require_ok(r, "Pub")
    v.add_tlc("proto/Pub.tla:Pub_mc.cfg", r)
    replay_proto(v, "pub", False, "proto/Pub.tla", "Pub_gen.cfg", rng, nrandom=300, auto=True, limit=None if thorough else 5000)
    v.cov["distinct_nontrivial"] = sum(x["walks"] for x in v.cov["edge_cover"].values())
    v.cov["rule"] = "TLC -simulate behaviours (depth 30) of Sub/Pub replayed in run-to-quiescence steps; distinct = distinct behaviours"
