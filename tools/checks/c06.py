"""C06: PUSH/PULL: each message to at most one puller, none lost while connected.
Specs: proto/Push.tla, proto/Pull.tla.  Binding: gated edge-cover replay through harness/drv_proto.c + vtran."""
from vlib import *
from protolib import *


def run(v, tier, rng):
    thorough = tier == "thorough"
    for spec, mc in (("proto/Push.tla", "Push_mc.cfg"), ("proto/Pull.tla", "Pull_mc.cfg")):
        r = tlc(spec, mc, workers=8, timeout=1500)
        tlc_require_ok(r, spec)
        v.add_tlc(spec + ":" + mc, r)
    replay_proto(v, "push", False, "proto/Push.tla", "Push_gen2.cfg" if thorough else "Push_gen.cfg", rng,
                 nrandom=2000 if thorough else 300, limit=None if thorough else 6000)
    replay_proto(v, "pull", False, "proto/Pull.tla", "Pull_gen2.cfg" if thorough else "Pull_gen.cfg", rng,
                 nrandom=2000 if thorough else 300)
    v.cov["distinct_nontrivial"] = sum(x["edges"] for x in v.cov["edge_cover"].values())
    v.cov["rule"] = "every transition of the Push/Pull graphs replayed under the task gate through the harness transport"
