"""C07: SURVEY: only responses to the current survey, only before its deadline.
Specs: proto/Survey.tla (surveyor: contexts, survey ids by tag, deadline under virtual time, per-context response queue) and
proto/Rep.tla (the respondent is the same state machine as the replier: respond.c mirrors rep.c).  Binding: TLC -simulate
behaviours replayed through drv_proto; the driver is the respondents / the surveyor."""
import os
from vlib import *
from protolib import *

RESP_SETUP = ("symw 1",)


def resp_part(v, thorough):
    # the respondent as it is: every zero-timeout send is refused (NbSendFails), modelled so that the rest of each
    # behaviour stays comparable
    r = tlc("proto/Rep.tla", "Resp_mc.cfg", workers=12, timeout=2400)
    tlc_require_ok(r, "Rep (respondent)")
    v.add_tlc("proto/Rep.tla:Resp_mc", r)
    replay_sim(v, "respondent", False, "proto/Rep.tla", "Resp_sim.cfg", 12000 if thorough else 2000, 35, auto=True, setup=RESP_SETUP)
    if v.prop == "C15":
        # C15 only: compare with the respondent that accepts a non-blocking send whenever it can send (known finding)
        base = sig_proto("respondent")

        def sig_nb(acts, idx, step, allowed):
            a = acts[idx] if idx < len(acts) else {}
            if (a.get("a") == "send" and a.get("mode") == "nb" and step and allowed and (step[1] or {}).get("rv") == "eagain"
                    and allowed[0]["out"].get("rv") in ("ok", "estate")):
                return "respondent.send.nb:eagain-when-can-send"
            return base(acts, idx, step, allowed)
        replay_sim(v, "respondent", False, "proto/Rep.tla", "Resp_nb.cfg", 300, 25, auto=True, setup=RESP_SETUP, sig_override=sig_nb)


def surv_part(v, thorough):
    r = tlc("proto/Survey.tla", "Survey_mc.cfg" if thorough else "Survey_q.cfg", workers=12, timeout=2400)
    tlc_require_ok(r, "Survey")
    v.add_tlc("proto/Survey.tla:mc", r)
    replay_sim(v, "surveyor", False, "proto/Survey.tla", "Survey_sim.cfg", 20000 if thorough else 2500, 35, auto=True)
    # surveys piling up behind respondents that do not read (per-pipe queue of 8 full: dropped for that respondent, nothing leaks)
    replay_sim(v, "surveyor", False, "proto/Survey.tla", "Survey_sendq.cfg", 2000 if thorough else 300, 45, auto=True)


def run(v, tier, rng):
    thorough = tier == "thorough"
    part = os.environ.get("VERIF_PART")        # development aid
    if part != "resp":
        surv_part(v, thorough)
    if part != "surv":
        resp_part(v, thorough)
    v.cov["distinct_nontrivial"] = sum(x["walks"] for x in v.cov["edge_cover"].values())
    v.cov["rule"] = "TLC -simulate behaviours (depth 35) replayed in run-to-quiescence steps under virtual time; distinct = distinct behaviours"
