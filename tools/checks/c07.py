"""C07: SURVEY: only responses to the current survey, only before its deadline.
Specs: proto/Survey.tla (surveyor: contexts, survey ids by tag, deadline under virtual time, per-context response queue) and
proto/Rep.tla (the respondent is the same state machine as the replier: respond.c mirrors rep.c).  Binding: TLC -simulate
behaviours replayed through drv_proto; the driver is the respondents / the surveyor."""
import os
from vlib import *
from protolib import *

RESP_SETUP = ("symw 1",)


def resp_part(v, thorough):
    r = tlc("proto/Rep.tla", "Rep_mc.cfg", workers=12, timeout=2400)
    tlc_require_ok(r, "Rep (respondent)")
    v.add_tlc("proto/Rep.tla:mc", r)
    replay_sim(v, "respondent", False, "proto/Rep.tla", "Rep_sim.cfg", 12000 if thorough else 2000, 35, auto=True, setup=RESP_SETUP)


def surv_part(v, thorough):
    r = tlc("proto/Survey.tla", "Survey_mc.cfg" if thorough else "Survey_q.cfg", workers=12, timeout=2400)
    tlc_require_ok(r, "Survey")
    v.add_tlc("proto/Survey.tla:mc", r)
    replay_sim(v, "surveyor", False, "proto/Survey.tla", "Survey_sim.cfg", 20000 if thorough else 2500, 35, auto=True)


def run(v, tier, rng):
    thorough = tier == "thorough"
    part = os.environ.get("VERIF_PART")        # development aid
    if part != "resp":
        surv_part(v, thorough)
    if part != "surv":
        resp_part(v, thorough)
    v.cov["distinct_nontrivial"] = sum(x["walks"] for x in v.cov["edge_cover"].values())
    v.cov["rule"] = "TLC -simulate behaviours (depth 35) replayed in run-to-quiescence steps under virtual time; distinct = distinct behaviours"
