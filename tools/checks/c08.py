"""C08: PAIR: one peer at a time, ordered lossless exchange, hop limit.
Spec: proto/Pair.tla (macro-step).  Binding: edge-cover replay through drv_proto in run-to-quiescence mode."""
from vlib import *
from protolib import *


def run(v, tier, rng):
    thorough = tier == "thorough"
    r = tlc("proto/Pair.tla", "Pair_mc.cfg" if thorough else "Pair_q.cfg", workers=8, timeout=1500)
    tlc_require_ok(r, "Pair")
    v.add_tlc("proto/Pair.tla:Pair_mc.cfg", r)
    r = tlc("proto/Pair.tla", "Pair0_q.cfg", workers=8, timeout=1500)
    tlc_require_ok(r, "Pair v0")
    v.add_tlc("proto/Pair.tla:Pair0_q.cfg", r)
    replay_proto(v, "pair0", False, "proto/Pair.tla", "Pair0_gen.cfg", rng, nrandom=300, auto=True, limit=None if thorough else 3000)
    replay_proto(v, "pair1", False, "proto/Pair.tla", "Pair_gen2.cfg" if thorough else "Pair_gen.cfg", rng,
                 nrandom=2000 if thorough else 300, auto=True, limit=None if thorough else 6000)
    v.cov["distinct_nontrivial"] = sum(x["edges"] for x in v.cov["edge_cover"].values())
    v.cov["rule"] = "every transition of the Pair graph replayed (run-to-quiescence steps) through the harness transport"
