"""C09: BUS: fan-out to every other peer once, never echoed to the origin.
Spec: proto/Bus.tla (cooked and raw, macro-step).  Binding: edge-cover replay through drv_proto."""
from vlib import *
from protolib import *


def run(v, tier, rng):
    thorough = tier == "thorough"
    for raw, n in ((False, "Bus"), (True, "BusRaw")):
        r = tlc("proto/Bus.tla", n + "_mc.cfg", workers=8, timeout=1500)
        tlc_require_ok(r, n)
        v.add_tlc("proto/Bus.tla:" + n + "_mc.cfg", r)
        replay_proto(v, "bus", raw, "proto/Bus.tla", n + "_gen.cfg", rng, nrandom=300, auto=True, limit=None if thorough else 5000)
    # the non-blocking form of send (known finding: always NNG_EAGAIN on BUS): probed separately so that the
    # graphs above are replayed completely
    base = sig_proto("bus")

    def sig_nb(acts, idx, step, allowed):
        a = acts[idx] if idx < len(acts) else {}
        if (a.get("a") == "send" and a.get("mode") == "nb" and step and allowed and (step[1] or {}).get("rv") == "eagain"
                and allowed[0]["out"].get("rv") == "ok" and not (step[1] or {}).get("msglost")):
            return "bus.send.nb:eagain-when-can-send"
        return base(acts, idx, step, allowed)
    replay_proto(v, "bus", False, "proto/Bus.tla", "Bus_nb.cfg", rng, nrandom=50, auto=True, limit=300, sig_override=sig_nb)
    v.cov["distinct_nontrivial"] = sum(x["edges"] for x in v.cov["edge_cover"].values())
    v.cov["rule"] = "every transition of the Bus graphs (cooked, raw) replayed in run-to-quiescence steps through the harness transport"
