"""C09: BUS: fan-out to every other peer once, never echoed to the origin.
Spec: proto/Bus.tla (cooked and raw, macro-step).  Binding: edge-cover replay through drv_proto."""
from vlib import *
from protolib import *


def run(v, tier, rng):
    thorough = tier == "thorough"
    for raw, n in ((False, "Bus"), (True, "BusRaw")):
        r = tlc("proto/Bus.tla", n + "_mc.cfg", workers=8, timeout=1500)
        tlc_require_ok(r, n)
        v.add_tlc("proto/Bus.tla:" + n + "_mc.cfg", r)
        replay_proto(v, "bus", raw, "proto/Bus.tla", n + "_gen.cfg", rng, nrandom=300, auto=True, limit=None if thorough else 5000)
    v.cov["distinct_nontrivial"] = sum(x["edges"] for x in v.cov["edge_cover"].values())
    v.cov["rule"] = "every transition of the Bus graphs (cooked, raw) replayed in run-to-quiescence steps through the harness transport"
