"""C10: close always terminates, completes everything, invalidates handles.
Spec: life/Life.tla (invariants ClosedIsFinal, CtxClosedIsFinal: after close nothing is pending, every announced pipe is retired,
no endpoint is left parked; closing a context completes its operations).  Binding: simulation replay on a REP socket with a
listener, a dialer, a context, pending receives and pipes; socket/context/listener/dialer/pipe close in every reachable
state; after socket close every derived handle is probed and must be refused (NNG_ECLOSED / NNG_ENOENT).  A close that does
not return is a watchdog abort of the driver."""
from checks.life import run_life


C14_EVENTS = ("p_ev", "p_ev_off", "d_timer", "d_pipe_set", "d_connect", "d_connect_cb", "l_accept", "l_accept_cb")


def concerns(sig, text):
    if sig.startswith("life.trace:"):
        # recorded life cycles: everything about close / reap / destroy / lookups / shutdown order (C14 keeps notifications and dialling)
        return sig[len("life.trace:"):].split("-after-")[0] not in C14_EVENTS
    what = sig.rsplit(":", 1)[-1]
    return ("done" in what or "watchdog" in sig or ":exit-" in sig or ":asan" in sig or ":ubsan" in sig or ":panic" in sig
            or ".probe" in sig or (("close" in sig.split("-after-")[0]) and what.startswith("out")))


def concerns_close(sig, text):
    """divergences of the protocol replays that concern closing: at a close / ctx_close step, or a crash / hang anywhere"""
    return (".close" in sig or ".ctx_close" in sig or "watchdog" in sig or ":exit-" in sig or ":asan" in sig or ":ubsan" in sig
            or ":panic" in sig)


def concerns_tran(sig, text):
    what = sig.rsplit(":", 1)[-1]
    return ("done" in what or "pend" in what or "rv" in what or "watchdog" in sig or ":exit-" in sig or ":asan" in sig or ":ubsan" in sig or ":panic" in sig)


def run(v, tier, rng):
    run_life(v, tier, concerns)
    # closing a context / the socket with a queued reply and a pending receive, in every class of state of Rep.tla
    from checks.agg import Only
    from checks import c04
    px = Only(v, concerns_close, 1.0)
    c04.rep_part(px, tier == "thorough", mc=False)
    # closing pipe ends, end points and sockets of the real inproc transport with operations parked on both ends (wire/Inproc.tla)
    from checks.inproc import run_inproc
    run_inproc(v, tier, pred=concerns_tran, mc=False, plans=("sim", "reject"), scale=0.7)
    v.cov["divergences_outside_this_property"] = v.cov.get("divergences_outside_this_property", 0) + px.other
