"""C10: close always terminates, completes everything, invalidates handles.
Spec: life/Life.tla (invariants ClosedIsFinal, CtxClosedIsFinal: after close nothing is pending, every announced pipe is retired,
no endpoint is left parked; closing a context completes its operations).  Binding: simulation replay on a REP socket with a
listener, a dialer, a context, pending receives and pipes; socket/context/listener/dialer/pipe close in every reachable
state; after socket close every derived handle is probed and must be refused (NNG_ECLOSED / NNG_ENOENT).  A close that does
not return is a watchdog abort of the driver."""
from checks.life import run_life


def concerns(sig, text):
    what = sig.rsplit(":", 1)[-1]
    return ("done" in what or "watchdog" in sig or ":exit-" in sig or ":asan" in sig or ":ubsan" in sig or ":panic" in sig
            or ".probe" in sig or (("close" in sig.split("-after-")[0]) and what.startswith("out")))


def run(v, tier, rng):
    run_life(v, tier, concerns)
