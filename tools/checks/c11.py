"""C11: hostile or broken peers cannot crash, wedge or bypass size limits.
Spec: wire/Framing.tla (bad magic, wrong protocol id, short handshake + disconnect, frames above NNG_OPT_RECVMAXSZ, absurd
lengths, bad ipc type byte, truncated header/body + disconnect, plain disconnect, on one of several connections): only the
offending connection is dropped, nothing malformed or oversize is delivered, the listener and the other connections keep
working (later items on other and on fresh connections are delivered).  Replayed with RECVMAXSZ = 4 size units and 0
(unlimited), clamps 1 and none, under ASan/UBSan; a wedged library is a watchdog timeout.  This check keeps the divergences
in connection state (closed / open) and crashes, hangs and leaks."""
from checks.wirelib import run_wire, run_udp


def concerns(sig, text):
    what = sig.rsplit(":", 1)[-1]
    return ("closed" in what or "obs" in what or "got" in what or "watchdog" in sig or ":exit-" in sig or ":asan" in sig or ":ubsan" in sig
            or ":panic" in sig or "alloc:balance" in sig)


def concerns_proto(sig, text):
    return (".inject" in sig or "watchdog" in sig or ":exit-" in sig or ":asan" in sig or ":ubsan" in sig or ":panic" in sig
            or "alloc:balance" in sig)


def run(v, tier, rng):
    run_wire(v, tier, concerns, [("Framing_sim.cfg", "pull", 4, [(1, 1), (1, 0), (1000, 3)], 300),
                                 ("Framing0_sim.cfg", "pull", 0, [(1, 1), (1, 0)], 200)])
    n = run_udp(v, tier, lambda sig, text: True)
    # hostile protocol headers (missing or malformed request/survey ids, backtraces beyond the hop limit or the header capacity,
    # PAIR1 hop words): the peers of the protocol specifications inject every such class; this check keeps crashes, hangs, leaks
    # and wrong outcomes of the injections themselves
    from checks.agg import Only
    from checks import c04, c08, c13
    import random
    px = Only(v, concerns_proto, 0.3 if tier != "thorough" else 1.0)
    keep = (v.cov.get("distinct_nontrivial", 0), v.cov.get("rule", ""))
    c04.rep_part(px, tier == "thorough", mc=False)
    c08.run(px, tier, random.Random(v.seed))
    c13.run(px, tier, random.Random(v.seed))
    v.cov["distinct_nontrivial"], v.cov["rule"] = keep
    v.cov["rule"] += "; plus the replays of Rep.tla, Pair.tla and Device.tla (hostile protocol headers injected by the peer)"
    v.cov["divergences_outside_this_property"] = v.cov.get("divergences_outside_this_property", 0) + px.other
    v.cov["distinct_nontrivial"] += n
    v.cov["rule"] += "; plus behaviours of Udp.tla (connection requests good / refresh 0 / wrong protocol, data within and above the limit and lying about its length, wrong version, short, unknown opcode, disconnect, from 3 peers) x scales 1, 1000"
