"""C11: hostile or broken peers cannot crash, wedge or bypass size limits.
Spec: wire/Framing.tla (bad magic, wrong protocol id, short handshake + disconnect, frames above NNG_OPT_RECVMAXSZ, absurd
lengths, bad ipc type byte, truncated header/body + disconnect, plain disconnect, on one of several connections): only the
offending connection is dropped, nothing malformed or oversize is delivered, the listener and the other connections keep
working (later items on other and on fresh connections are delivered).  Replayed with RECVMAXSZ = 4 size units and 0
(unlimited), clamps 1 and none, under ASan/UBSan; a wedged library is a watchdog timeout.  This check keeps the divergences
in connection state (closed / open) and crashes, hangs and leaks."""
from checks.wirelib import run_wire, run_udp


def concerns(sig, text):
    what = sig.rsplit(":", 1)[-1]
    return ("closed" in what or "obs" in what or "got" in what or "watchdog" in sig or ":exit-" in sig or ":asan" in sig or ":ubsan" in sig
            or ":panic" in sig or "alloc:balance" in sig)


def run(v, tier, rng):
    run_wire(v, tier, concerns, [("Framing_sim.cfg", "pull", 4, [(1, 1), (1, 0), (1000, 3)], 300),
                                 ("Framing0_sim.cfg", "pull", 0, [(1, 1), (1, 0)], 200)])
    n = run_udp(v, tier, lambda sig, text: True)
    v.cov["distinct_nontrivial"] += n
    v.cov["rule"] += "; plus behaviours of Udp.tla (connection requests good / refresh 0 / wrong protocol, data within and above the limit and lying about its length, wrong version, short, unknown opcode, disconnect, from 3 peers) x scales 1, 1000"
