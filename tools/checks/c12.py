"""C12: REQ keeps retrying until answered; no hang when retry is disabled.
Spec: proto/Req.tla (shared with C04).  Safety core of the liveness claim as invariants (NoOrphan: an unanswered request is
queued for a pipe, or has a resend scheduled on a running timer, or - resending disabled - is remembered by the live pipe it
was written to; ResendBounded; NoResendWhenDisabled; QueueDrained), the liveness claim itself under weak fairness of the
last replier and of time (LiveSpec / EventuallyAnswered), and binding by replaying TLC -simulate behaviours with connection
loss, replier silence and virtual-time ticks through drv_proto: every (re)transmission is observed on the harness wire."""
from vlib import *
from protolib import *
from checks.c04 import REQ_SETUP


def run(v, tier, rng):
    thorough = tier == "thorough"
    r = tlc("proto/Req.tla", "Req_c12.cfg" if thorough else "Req_c12q.cfg", workers=12, timeout=2400)
    tlc_require_ok(r, "Req safety (C12)")
    v.add_tlc("proto/Req.tla:c12", r)
    r = tlc("proto/Req.tla", "Req_live.cfg", workers=12, timeout=2400)
    tlc_require_ok(r, "Req liveness (C12)")
    v.add_tlc("proto/Req.tla:live", r)
    v.seed += 7          # behaviours different from the ones C04 replays
    replay_sim(v, "req", False, "proto/Req.tla", "Req_sim.cfg", 12000 if thorough else 2500, 40, auto=True, setup=REQ_SETUP)
    v.cov["distinct_nontrivial"] = sum(x["walks"] for x in v.cov["edge_cover"].values())
    v.cov["rule"] = ("invariants on the complete bounded graph; EventuallyAnswered under WF of the last replier and of time; "
                     "TLC -simulate behaviours (depth 40) replayed in run-to-quiescence steps; distinct = distinct behaviours")
    v.assumptions += ["liveness is checked on the model within a budget of virtual time and messages; the implementation is bound "
                      "to the model by step-wise conformance of finite behaviours, not by an unbounded run",
                      "redial by the dialer after pipe loss is the harness transport's connect action, not core/dialer.c"]
