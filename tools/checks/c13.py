"""C13: devices route replies back correctly and hop limits kill loops.
Specs: dev/Backtrace.tla (what one raw hop does to the words of a message: push the pipe id, move words up to the id and at
most ttl of them, pop the first word to choose the outgoing pipe), dev/Device.tla (one nng_device between raw sockets with
the harness transport on both sides: every backtrace shape from raw peers, ttl 1..15, header capacity), and
dev/DeviceChain.tla (chains of 0..17 devices and rings composed from the same per-hop operators: replies return to exactly
the original requester iff every hop is within its ttl; rings die out; nothing disconnects a well-formed message).
Binding: TLC -simulate behaviours of Device.tla replayed on a real nng_device between xrep/xreq and xrespondent/xsurveyor
raw sockets; the cooked ends (rep.c / respond.c backtrace capture and hop limit) are bound by C04 / C07 (Rep.tla)."""
import glob, os
from vlib import *
from protolib import *


def run(v, tier, rng):
    thorough = tier == "thorough"
    for cfg in ("Device_mc.cfg", "DeviceS_mc.cfg"):
        r = tlc("dev/Device.tla", cfg, workers=8, timeout=1500)
        tlc_require_ok(r, "Device " + cfg)
        v.add_tlc("dev/Device.tla:" + cfg, r)
    for cfg in sorted(glob.glob(os.path.join(SPEC, "dev", "Chain_n*.cfg")) + glob.glob(os.path.join(SPEC, "dev", "Loop_n*.cfg"))):
        r = tlc("dev/DeviceChain.tla", os.path.basename(cfg), workers=4, timeout=1500)
        tlc_require_ok(r, "DeviceChain " + os.path.basename(cfg))
        v.add_tlc("dev/DeviceChain.tla:" + os.path.basename(cfg), r)
    for kind, cfg in (("reqrep", "Device_sim.cfg"), ("survey", "DeviceS_sim.cfg")):
        replay_sim(v, "device", kind, "dev/Device.tla", cfg, 8000 if thorough else 1500, 30, auto=True)
    devlife_part(v, tier, rng)
    v.cov["distinct_nontrivial"] = sum(x["walks"] for x in v.cov["edge_cover"].values())
    v.cov["rule"] = ("chains of 0..4 devices x 5 ttl values per hop x 2 pipes, chains of 13..17 devices at ttl 14/15, rings of 1..3 devices "
                     "(model); behaviours of depth 30 with request backtraces of 0,1,2,14,15 hops with/without id and replies naming a live "
                     "pipe / a dead pipe / no pipe with 0,1,15 further hops, ttl 1,2,15 replayed on a real device; distinct = behaviours")
    v.assumptions += ["chains and rings are composed in the model from the per-hop operators; the implementation is bound hop by hop",
                      "at most one message per direction is in flight in the device replay"]


def devlife_part(v, tier, rng, pred=None):
    """dev/DevLife.tla: the device operation itself (start, forward, a path blocked in send, cancel in every state) on a one-way
    (raw PULL -> raw PUSH) and a two-way (raw PAIR0) device.  Shared with C02."""
    from checks.agg import Only
    px = Only(v, pred, 1.0) if pred else v
    for kind, mc, gen in (("pipeline", "DevLife_mc.cfg", "DevLife_gen.cfg"), ("pair", "DevLife2_mc.cfg", "DevLife2_gen.cfg")):
        r = tlc("dev/DevLife.tla", mc, workers=4, timeout=900)
        tlc_require_ok(r, "DevLife " + mc)
        v.add_tlc("dev/DevLife.tla:" + mc, r)
        replay_proto(px, "device", kind, "dev/DevLife.tla", gen, rng, maxlen=24, nrandom=100, auto=True)
    if pred:
        v.cov["divergences_outside_this_property"] = v.cov.get("divergences_outside_this_property", 0) + px.other
