"""C14: pipe events are ordered; dialers redial, listeners keep accepting.
Spec: life/Life.tla (invariants EventOrder: per pipe ADD_PRE, [ADD_POST,] REM_POST, each at most once, REM_POST for every pipe
announced, no ADD_POST after a close in ADD_PRE; DialerSound: at most one pipe per dialer, and a dialer without a pipe is
dialling or waiting for its reconnect time; ListenerSound: a started listener always has an accept outstanding).
Binding: simulation replay on a REP socket; the driver records every notification (with its per-pipe sequence number),
closes pipes inside ADD_PRE on request, fails and completes dials, loses peers, and advances the virtual clock by the
reconnect time, after which the dialer must be dialling again."""
from checks.life import run_life


from checks.c10 import C14_EVENTS


def concerns(sig, text):
    if sig.startswith("life.trace:"):
        ev = sig[len("life.trace:"):].split("-after-")[0]
        return ev in C14_EVENTS or (ev == "p_remove" and "p_ev" in text)
    what = sig.rsplit(":", 1)[-1]
    return any(k in what for k in ("S_ev", "up", "lparked", "dparked")) or "watchdog" in sig


def concerns_tran(sig, text):
    what = sig.rsplit(":", 1)[-1]
    return "S_ev" in what or "up" in what or "watchdog" in sig or ".dial" in sig or ".tick" in sig


def run(v, tier, rng):
    run_life(v, tier, concerns)
    # pipe events, redial and accept on the real inproc transport, incl. pipes closed in ADD_PRE on either side (wire/Inproc.tla)
    from checks.inproc import run_inproc
    run_inproc(v, tier, pred=concerns_tran, mc=False, plans=("reject", "sim"), scale=0.7)
    # "a listener keeps accepting whatever happens to individual pipes" on the real tcp / ipc / socket:// transports: behaviours of
    # wire/Framing.tla in which peers hang up during or right after the handshake, send garbage or oversize frames, and a later
    # well-behaved connection must still be accepted and served (what is kept: a connection wrongly refused, closed or not served)
    from checks.wirelib import run_wire
    run_wire(v, tier, lambda sig, text: any(k in sig.rsplit(":", 1)[-1] for k in ("closed", "got", "ok")) or "watchdog" in sig,
             [("Framing_sim.cfg", "pull", 4, [(1, 0), (1, 3)], 150)])
