"""C15: non-blocking calls never block; poll descriptors mirror readiness.
Every protocol specification carries the readiness rule of its socket (invariants PollW / PollR: the descriptor is raised
iff the corresponding non-blocking operation would succeed) and gives the result of every non-blocking call; the driver
reads the real descriptors with poll(2) at every quiescent point and issues the NNG_FLAG_NONBLOCK calls.  This check runs
the replays of all protocol checks (push/pull, pair0/1, pub/sub, bus, req/rep, surveyor/respondent) and keeps exactly the
divergences in pollw/pollr or in the result of a non-blocking call (incl. a call that blocks)."""
from vlib import *
from checks.agg import run_members

MEMBERS = ["c06", "c08", "c05", "c09", "c04", "c07"]


def concerns(sig, text):
    what = sig.rsplit(":", 1)[-1] if ":" in sig else sig
    if "poll" in sig or "blocked" in sig or "eagain" in sig:
        return True
    if ".nb-" in sig and ("out" in what):
        return True
    if sig.startswith("mq.nb_"):
        return True
    return False


def run(v, tier, rng):
    thorough = tier == "thorough"
    px = run_members(v, MEMBERS, tier, rng, concerns, 1.0 if thorough else 0.25)
    # raw sockets (xreq, xrep, xsub, xsurveyor, xrespondent, polyamorous pair) hand out the pollables of their message queues:
    # Msgq.tla defines readable / writable as "a non-blocking get / put issued now would succeed"
    from checks import c18
    log("---- msgq part of c18 (as part of C15)")
    c18.run_parts(px, tier, rng, ("mq",))
    v.cov["distinct_nontrivial"] = sum(x.get("walks", 0) for x in v.cov.get("edge_cover", {}).values())
    v.cov["rule"] = ("quiescent points of replayed behaviours at which poll(2) on both descriptors and the results of non-blocking "
                     "calls were compared with the specification; distinct = replayed walks")
    v.assumptions += ["raw sockets (xreq/xrep/xsub/xsurvey/xrespond/pair1-poly) are covered at their message queues (data/Msgq.tla: poll "
                      "descriptors of nni_msgq and zero-timeout put/get), not through an open raw socket", "readiness is compared at quiescent points of macro steps"]
