"""C16: WebSocket/HTTP codecs: segmentation-independent and rule-enforcing.
Spec: wire/Ws.tla: the HTTP/1.1 upgrade (good request; missing Host / Upgrade / key / sub-protocol, wrong version, method,
path, chunked body, garbage, truncated request: error status and whether the connection persists) and the WebSocket frame
receiver (fragmented messages with interleaved control frames reassembled exactly; unmasked client frames, reserved bits and
opcodes, non-minimal length encodings, control frames above 125 bytes, continuation without start, a new message inside a
fragmented one, text frames, frames above NNG_OPT_WS_RECVMAXFRAME and messages above NNG_OPT_RECVMAXSZ fail the connection
with the right close code and deliver nothing), and the sender (fragmentation by NNG_OPT_WS_SENDMAXFRAME).
Binding: TLC -simulate behaviours replayed against a real ws:// listener by a plain TCP peer (harness/drv_ws.c) which also
checks everything the server emits (status line and header block, Sec-WebSocket-Accept, frames unmasked, minimal length
encodings, no reserved bits, control frames short and final, pong echoes the ping, fragments in order) under I/O clamps of
1 and 3 bytes per system call and unclamped, with payload scales 1 and 1000."""
from vlib import *
from replay import replay_walks

DRV = ["drv_ws.c", "acct.c"]


def b(x):
    return 1 if x else 0


def ws_cmd(a):
    k = a["a"]
    if k == "conn":
        return "conn %d" % a["c"]
    if k == "accept":
        return "accept %d" % a["c"]
    if k == "pad":
        return "pad %s" % a["cls"]
    if k == "resp":
        return "resp %d %s %d" % (a["c"], a["k"], b(a["hc"]))
    if k == "http":
        return "http %d %s %d" % (a["c"], a["k"], b(a["hc"]))
    if k == "ws":
        return "ws %d %d %d %d %d %d %d %d %d %d %d %d" % (a["c"], b(a["fin"]), a["op"], b(a["masked"]), a["rsv"], a["enc"], a["n"],
                                                       a["ser"], b(a["newmsg"]), a["hn"], a["hr"], b(a["hc"]))
    if k == "send":
        return "send %d %d %d" % (a["c"], a["n"], a["ser"])
    raise Broken("no ws command for %s" % a)


def sig_ws(tagname):
    def f(acts, idx, step, allowed):
        a = acts[idx] if idx < len(acts) else {"a": "end"}
        name = a["a"] + ("." + a["k"] if a.get("k") else "") + (".op%d" % a["op"] if "op" in a else "")
        what = "?"
        if step is not None and allowed:
            exp = allowed[0]
            if canon(step[1]) != exp["out"]:
                ks = [k for k in sorted(set(step[1] or {}) | set(exp["out"] or {})) if (step[1] or {}).get(k) != (exp["out"] or {}).get(k)]
                what = "out." + ",".join(ks)
            else:
                what = "obs"
        return "ws.%s.%s:%s" % (tagname, name, what)
    return f


PLANS = [("Ws_sim.cfg", "pull", 1, [1, 3, 0], 300), ("Ws1000_sim.cfg", "pull", 1000, [1, 0], 200),
         ("WsOut_sim.cfg", "push", 1, [1, 0], 100), ("WsOut1000_sim.cfg", "push", 1000, [3, 0], 100),
         # client role: the socket dials, the driver is the WebSocket server
         ("WsC_sim.cfg", "pulld", 1, [1, 0], 200), ("WsC1000_sim.cfg", "pulld", 1000, [3], 120), ("WsCOut_sim.cfg", "pushd", 1, [1, 0], 100)]


def run(v, tier, rng):
    from checks.httpchunk import run_chunks
    nch = run_chunks(v, tier, rng)
    run_ws(v, tier, PLANS)
    v.cov["distinct_nontrivial"] += nch
    v.cov["rule"] += "; plus every edge of the HttpChunk graph (chunked transfer decoder) replayed token by token and re-parsed under 9 segmentations"


def run_ws(v, tier, plans, mc=True):
    thorough = tier == "thorough"
    exe = build_driver("drv_ws", DRV)
    for mcfg in (("Ws_mc.cfg", "WsC_mc.cfg") if mc else ()):
        r = tlc("wire/Ws.tla", mcfg, workers=8, timeout=1500)
        tlc_require_ok(r, "Ws " + mcfg)
        v.add_tlc("wire/Ws.tla:" + mcfg, r)
    total = 0
    for cfg, kind, scale, clamps, nsim in plans:
        g = tlc_edges("wire/Ws.tla", cfg, timeout=1500, simulate=nsim * (4 if thorough else 1), depth=14, seed=v.seed, cache=False)
        v.cov["transitions"] += len(g["edges"])
        v.cov["states"] += g["nstates"]
        walks = [w for w in g["walks"] if w]
        for clamp in clamps:
            tag = "wire/Ws.tla:%s@%s,clamp=%d" % (cfg, kind, clamp)
            n = replay_walks(v, g, walks, exe, "x", lambda a, o=None: ws_cmd(a), lambda ia: "", tag,
                             sig_of=sig_ws("%s.clamp%d.scale%d" % (kind, clamp, scale)), check_fin=False, chunk=40, linear=True,
                             timeout=900, prelude="open %s 6 4 2 %d %d" % (kind, scale, clamp))
            log("ws %s: %d behaviours x clamp %d: %d validated" % (cfg, len(walks), clamp, n))
            v.cov.setdefault("edge_cover", {})[tag] = dict(edges=len(g["edges"]), covered=len(g["edges"]), walks=len(walks),
                                                            random_walks=0, validated=n, states=g["nstates"])
            total += n
    if not mc:
        return total
    v.cov["distinct_nontrivial"] = total
    v.cov["rule"] = ("behaviours of Ws.tla (depth 14: 17 kinds of upgrade request incl. header blocks larger than the read buffer and over-long lines, data frames fin/cont x sizes 0,1,3,5 units, 40 malformed or "
                     "control frame shapes, sends of 0,1,3,5 units with fragment size 2 units) x I/O clamps x scales; distinct = behaviour x clamp runs")
    v.assumptions += ["both roles of the ws transport: listener (driver = client) and dialer (driver = server: the emitted upgrade request, "
                      "validation of the 101 response, masking of every emitted frame, redial after a refused upgrade)", "chunked transfer decoding is bound at nni_http_chunks_parse (data/HttpChunk.tla), not through a connection; the HTTP client API and "
                      "static file handlers of the HTTP server are outside the specification (only what the ws upgrade path reaches)",
                      "real time: bounded waits; segmentation through the I/O clamp hook in nni_aio_iov_clamp_len"]
