"""C18: socket buffers are bounded FIFOs; identifiers unique and in range.
Specs: data/Lmq.tla, data/Msgq.tla, data/IdMap.tla.   Binding: replay of the complete edge cover of the
TLC graphs on nni_lmq_*, nni_msgq_* and nng_id_* (harness/drv_data.c, ASan+UBSan, accounting allocator)."""
from vlib import *
from replay import replay_walks
from vlib import matches, canon

DRV = ["drv_data.c", "acct.c"]


def lmq_cmd(a):
    return {"put": "put %d" % a.get("m", 0), "get": "get", "flush": "flush",
            "resize": "resize %d" % a.get("c", 0)}[a["a"]]


def mq_cmd(a):
    k = a["a"]
    if k in ("aio_put", "tryput", "nb_put"):
        return "%s %d" % (k, a["m"])
    if k == "cancel":
        return "cancel %d" % a["i"]
    if k == "resize":
        return "resize %d" % a["c"]
    return k


def id_cmd(a):
    k = a["a"]
    if k == "set":
        return "set %d %d" % (a["k"], a["v"])
    if k in ("get", "remove"):
        return "%s %d" % (k, a["k"])
    return "alloc %d" % a["v"]


def ids_cmd(a):
    k = a["a"]
    if k == "open":
        return "open %s" % a["kind"]
    if k == "close":
        return "close %s %d" % (a["kind"], a["i"])
    return "cycle"


def sig_lmq(acts, idx, step, allowed):
    a = acts[idx]["a"] if idx < len(acts) else "fin"
    hist = "-".join(sorted(set(x["a"] for x in acts[:idx])))
    return "lmq.%s:after-%s" % (a, hist or "init")


def sig_mq(acts, idx, step, allowed):
    """action, the action before it, and what differs: the completions (out) or a poll descriptor / counter (obs.<field>)"""
    a = acts[idx]["a"] if idx < len(acts) else "fin"
    prev = acts[idx - 1]["a"] if idx > 0 else "init"
    what = "?"
    if step is not None and step[0] == "fin":
        what = "fin"
    elif step is not None and allowed:
        if not any(matches(canon(step[1]), e["out"]) for e in allowed):
            what = "out"
        else:
            o = canon(step[2] or {})
            ks = set()
            for e in allowed:
                if matches(canon(step[1]), e["out"]):
                    ks |= {k for k in set(o) | set(e["obs"]) if not matches(o.get(k), e["obs"].get(k))}
            what = "obs." + ",".join(sorted(ks))
    return "mq.%s-after-%s:%s" % (a, prev, what)


def run(v, tier, rng):
    run_parts(v, tier, rng, ("lmq", "mq", "mq3", "id", "ids"))


def run_parts(v, tier, rng, parts):
    exe = build_driver("drv_data", DRV)
    thorough = tier == "thorough"
    # ---- 1. model checking of the three specs (implementation-shaped layer refines the abstract one)
    for spec, cfg, w in (("data/Lmq.tla", "Lmq_mc.cfg", 4), ("data/IdMap.tla", "IdMap_mc.cfg" if thorough else "IdMap_q.cfg", 8),
                         ("data/Msgq.tla", "Msgq_mc.cfg" if thorough else "Msgq_q.cfg", 8)):
        if not any(p_ in spec.lower() for p_ in ("lmq" if "lmq" in parts else "-", "idmap" if "id" in parts else "-", "msgq" if "mq" in parts else "-")):
            continue
        r = tlc(spec, cfg, workers=w, timeout=1500, want_cov=False)
        tlc_require_ok(r, spec + "/" + cfg)
        v.add_tlc(spec + ":" + cfg, r)
    # ---- 2. spec -> code: edge cover replay
    plan = [("lmq", "data/Lmq.tla", "Lmq_gen.cfg", lmq_cmd, lambda ia: "init %d" % ia["cap"], 40, sig_lmq),
            ("mq", "data/Msgq.tla", "Msgq_gen2.cfg" if thorough else "Msgq_gen.cfg", mq_cmd, lambda ia: "init %d" % ia["cap"], 30, sig_mq),
            # capacity 3 with ring wrap-around and growth: complete in the thorough tier, a seeded third of it in the quick tier
            ("mq3", "data/Msgq.tla", "Msgq_gen3.cfg", mq_cmd, lambda ia: "init %d" % ia["cap"], 30, sig_mq),
            ("id", "data/IdMap.tla", "IdMap_gen.cfg" if not thorough else "IdMap_gen2.cfg", id_cmd,
             lambda ia: "init %d %d" % (ia["lo"], ia["hi"]), 60, None),
            # identifiers of sockets, contexts, dialers and listeners over nng_fini / nng_init cycles (data/Ids.tla)
            ("ids", "data/Ids.tla", "Ids_gen.cfg", ids_cmd, lambda ia: "init", 40,
             lambda acts, idx, step, allowed: "ids.%s:%s" % (acts[idx]["a"] if idx < len(acts) else "fin",
                                                             ",".join(k for k in sorted((step[1] or {}) if step else {}) if allowed and (step[1] or {}).get(k) != (allowed[0]["out"] or {}).get(k)) or "obs"))]
    for obj, spec, cfg, to_cmd, init_cmd, maxlen, sigf in plan:
        if obj not in parts:
            continue
        g = tlc_edges(spec, cfg, timeout=1500)
        v.cov["states"] += g["distinct"]
        v.cov["transitions"] += len(g["edges"])
        if obj == "ids":
            r = tlc(spec, "Ids_mc.cfg", workers=8, timeout=900)
            tlc_require_ok(r, "Ids")
            v.add_tlc("data/Ids.tla:Ids_mc.cfg", r)
            r = tlc(spec, "Ids_defect.cfg", workers=4, timeout=900)
            if r["status"] != "violation":
                raise Broken("Ids_defect.cfg (cursor reset by nng_fini) does not violate FreshInv: the invariant is vacuous")
        walks, total, covered = cover_walks(g, rng, maxlen=maxlen, limit=(8000 if (obj == "mq3" and not thorough) else 1500 if (obj == "ids" and not thorough) else None))
        extra = random_walks(g, rng, 2000 if thorough else 300, maxlen * 2)
        n = replay_walks(v, g, walks + extra, exe, "mq" if obj == "mq3" else obj, to_cmd, init_cmd, spec + ":" + cfg, sig_of=sigf,
                         check_fin=(obj not in ("id", "ids")))
        v.cov.setdefault("edge_cover", {})[obj] = dict(edges=total, covered=covered, walks=len(walks),
                                                      random_walks=len(extra), validated=n, states=g["nstates"])
        log("%s: %d/%d edges covered by %d walks (+%d random), %d validated" % (obj, covered, total, len(walks), len(extra), n))
    v.cov["distinct_nontrivial"] = sum(x["edges"] for x in v.cov["edge_cover"].values())
    v.cov["rule"] = ("every transition of the TLC state graphs of Lmq/Msgq/IdMap (gen configs) replayed on the real "
                     "functions at least once (edge cover) plus seeded random walks; distinct = distinct (state, action, state) edges")
    v.cov["exhaustive_edge_cover"] = all(x["edges"] == x["covered"] for k, x in v.cov["edge_cover"].items() if k not in ("mq3", "ids") or thorough)
    v.assumptions += ["the hand transcription of lmq.c/msgqueue.c/idhash.c into the implementation layer of the specs "
                      "is only used to choose behaviours; verdicts come from the abstract layer (FIFO / finite map)",
                      "ids of sockets/pipes/requests are covered through nni_id_map, which issues all of them"]
