"""C19: URL parsing: strict acceptance, canonical and idempotent output.
Spec: data/Url.tla (functional spec over token sequences; TLC enumerates every input of the bounded grammar and
exports the expected verdict).  Binding: harness/drv_url.c runs nng_url_parse / accessors / sprintf->parse / clone
on the concrete string (ASan+UBSan) and every field is compared with the specification's expectation."""
import json, os
from concurrent.futures import ThreadPoolExecutor
from vlib import *
from replay import run_driver, observer_sig

LONG = "L" * 130


def gen_inputs(v, cfg, timeout=1200):
    r = tlc("data/Url.tla", cfg, workers=1, timeout=timeout)
    tlc_require_ok(r, "Url " + cfg)
    v.add_tlc("data/Url.tla:" + cfg, r)
    ins = []
    for line in r["out"].splitlines():
        if line.startswith('<<"U", "'):
            ins.append(json.loads(json.loads(line[len('<<"U", '):-2])))
    return ins


def raw_of(src):
    pad = "P" * src.get("_pad", 0)
    path = "".join(LONG if a == "LONG" else pad if a == "PAD" else a for a in src["path"])
    return src["scheme"] + src["sep"] + src["auth"] + path + src["query"] + src["frag"]


def hx(s):
    return s.encode("latin-1").hex() if isinstance(s, str) else bytes(s).hex()


def expand(bs, npad=0):
    out = bytearray()
    for b in bs:
        out += LONG.encode() if b == 1 else (b"P" * npad) if b == 2 else bytes([b])
    return out.hex()


def classify(src):
    """signature component naming the specific input class"""
    parts = []
    if src["sep"] != "://":
        parts.append("sep=" + (src["sep"] or "none"))
    parts.append("scheme=" + (src["scheme"] or "empty"))
    if src["auth"] not in ("example.com", ""):
        parts.append("auth=" + src["auth"])
    if src["path"]:
        parts.append("path=" + "".join(src["path"]))
    if src["query"]:
        parts.append("q=" + src["query"])
    return ",".join(parts)[:120]


def judge(inp, obs):
    """returns None or (kind, text)"""
    src, exp = inp["src"], inp["exp"]
    acc = exp["accept"]
    if obs.get("leak", 0) != 0 or obs.get("mism", 0) != 0:
        return "leak", "allocator imbalance %s" % obs
    if acc == "no":
        if obs["rv"] == 0:
            return "accepts-invalid", "accepted (path=%s host=%s scheme=%s) but the specification rejects it" % (
                obs.get("path"), obs.get("host"), obs.get("scheme"))
        return None
    if obs["rv"] != 0:
        if acc == "yes":
            return "rejects-valid", "rejected with rv=%d but the specification accepts it" % obs["rv"]
        return None
    # accepted: compare components
    if obs["scheme"] != exp["scheme"]:
        return "scheme", "scheme %s, expected %s" % (obs["scheme"], exp["scheme"])
    if exp.get("opaque"):
        want = hx(raw_of(src)[len(src["scheme"]) + 3:])
        if obs["path"] != want:
            return "opaque-path", "path %s, expected the text after :// (%s)" % (obs["path"], want)
    else:
        if obs["host"] != hx(exp["host"]):
            return "host", "host %s, expected %s" % (obs["host"], hx(exp["host"]))
        if obs["port"] != exp["port"]:
            return "port", "port %s, expected %s" % (obs["port"], exp["port"])
        if (obs["user"] or "") != hx(exp["user"]):
            return "userinfo", "userinfo %s, expected %s" % (obs["user"], hx(exp["user"]))
        allowed = [expand(p, src.get("_pad", 0)) for p in exp["paths"]]
        if obs["path"] not in allowed:
            return "path", "path %s, allowed canonical forms %s" % (obs["path"], allowed)
        if (obs["query"] if exp["hasq"] else (obs["query"] or None)) != (hx(exp["query"]) if exp["hasq"] else None):
            return "query", "query %s, expected %s" % (obs["query"], exp["query"] if exp["hasq"] else None)
        if (obs["frag"] if exp["hasf"] else (obs["frag"] or None)) != (hx(exp["frag"]) if exp["hasf"] else None):
            return "fragment", "fragment %s, expected %s" % (obs["frag"], exp["frag"] if exp["hasf"] else None)
    rt = obs.get("rt", {})
    if rt.get("rv") != 0 or not rt.get("same"):
        return "roundtrip", "sprintf then parse: %s" % rt
    cl = obs.get("clone", {})
    if cl.get("rv") != 0 or not cl.get("same") or not cl.get("indep"):
        return "clone", "clone: %s" % cl
    return None


def run_inputs(v, exe, ins, tag):
    rdir = os.path.join(WORK, "replay-C19")
    os.makedirs(rdir, exist_ok=True)
    chunk = max(200, len(ins) // 48 + 1)
    todo = [list(range(i, min(i + chunk, len(ins)))) for i in range(0, len(ins), chunk)]
    ok = 0
    serial = 0
    crashes = 0
    while todo:
        batch, todo = todo, []
        jobs = []
        for idxs in batch:
            serial += 1
            f = os.path.join(rdir, "%s-%d.in" % (tag, serial))
            with open(f, "w") as fh:
                for i in idxs:
                    fh.write(hx(raw_of(ins[i]["src"])) + "\n")
            jobs.append(f)
        with ThreadPoolExecutor(max_workers=16) as ex:
            results = list(ex.map(lambda f: run_driver(exe, f, 300), jobs))
        for idxs, f, (rc, lines, err) in zip(batch, jobs, results):
            got = {}
            begun = -1
            for ln in lines:
                if ln.startswith("R "):
                    _, n, js = ln.split(" ", 2)
                    got[int(n)] = json.loads(js)
                elif ln.startswith("B "):
                    begun = int(ln.split()[1])
            for k, i in enumerate(idxs):
                if k not in got:
                    break
                bad = judge(ins[i], got[k])
                if bad:
                    kind, text = bad
                    v.violation("url.%s:%s" % (kind, classify(ins[i]["src"])),
                                "%r: %s" % (raw_of(ins[i]["src"])[:200], text),
                                dict(spec="data/Url.tla:" + tag, driver="drv_url", input=raw_of(ins[i]["src"]),
                                     tokens=ins[i]["src"], expected=ins[i]["exp"], observed=got[k]))
                else:
                    ok += 1
                    if ok <= 3:
                        v.sample(dict(input=raw_of(ins[i]["src"]), expected=ins[i]["exp"], observed=got[k]))
            if not (rc == 0 and lines and lines[-1] == "Z"):
                crashes += 1
                k = begun if begun >= 0 else 0
                i = idxs[min(k, len(idxs) - 1)]
                osig = observer_sig(err) or ("watchdog" if rc == 124 else "exit-%d" % rc)
                v.violation("url.crash:%s:%s" % (osig, classify(ins[i]["src"])),
                            "%r: driver aborted: %s" % (raw_of(ins[i]["src"])[:200], osig),
                            dict(spec="data/Url.tla:" + tag, driver="drv_url", input=raw_of(ins[i]["src"]),
                                 tokens=ins[i]["src"], observer=osig, stderr=err[-3000:]))
                rest = idxs[k + 1:]
                if rest and crashes < 60:
                    todo.append(rest)
    return ok


def run(v, tier, rng):
    exe = build_driver("drv_url", ["drv_url.c", "acct.c"])
    cfgs = ["Url_a.cfg", "Url_b.cfg", "Url_d.cfg"] + (["Url_c.cfg"] if tier == "thorough" else [])
    total = 0
    okc = 0
    for cfg in cfgs:
        ins = gen_inputs(v, cfg)
        if cfg == "Url_d.cfg":
            # boundary of the 128-byte inline buffer: size the single PAD atom so that the text after the
            # scheme ("://" to the end) is exactly 126..130 bytes long
            out = []
            for x in ins:
                if x["src"]["path"].count("PAD") != 1:
                    continue
                base = len(raw_of(dict(x["src"], _pad=0))) - len(x["src"]["scheme"])
                for target in (126, 127, 128, 129, 130):
                    if target - base >= 1:
                        out.append(dict(src=dict(x["src"], _pad=target - base), exp=x["exp"]))
            ins = out
        total += len(ins)
        n = run_inputs(v, exe, ins, cfg)
        okc += n
        log("url %s: %d inputs, %d conform" % (cfg, len(ins), n))
    v.cov["traces_validated_against_impl"] = okc
    v.cov["evaluations"] = total
    v.cov["distinct_nontrivial"] = total
    v.cov["exhaustive"] = True
    v.cov["rule"] = ("every input of the bounded token grammar of Url.tla (scheme x separator x authority x query x fragment "
                     "with short paths; and every path of <= 2 (thorough: 3) atoms over 32 atom classes incl. all RFC 3629 "
                     "boundary classes, dot segments, escapes, a 130-byte segment); distinct = distinct token sequences")
    v.assumptions += ["byte strings outside the token grammar are not explored (no coverage-guided fuzzing in this technique)",
                      "ports given as service names or with sign/space prefixes get no verdict"]
