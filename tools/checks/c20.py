"""C20: a failed allocation yields a clean error, never a crash, hang or leak.
Model: the data-structure specifications (Lmq, IdMap, Msg) give every allocating operation a second outcome: it returns
NNG_ENOMEM and the abstract state is unchanged (so the same call, repeated, behaves exactly as the specification says, and
so does everything after it).  Binding: walks of the TLC graphs are first replayed normally, recording how many allocations
each step performs; then, for every step that allocates and every k up to that number, the walk is replayed with the k-th
allocation of that step failing (accounting allocator), followed by the same call again and the rest of the walk.
Accepted: ENOMEM with all observables unchanged and the retry and the rest of the walk conforming; or the normal result
(the operation did not need the block).  Everything runs under ASan+UBSan; the allocator balance is checked at the end."""
import json, os
from concurrent.futures import ThreadPoolExecutor
from vlib import *
from replay import run_driver, observer_sig
from checks.c18 import lmq_cmd, id_cmd, ids_cmd
from checks.c17 import msg_cmd

DRV = ["drv_data.c", "acct.c"]
# steps whose allocation is the driver's own (it builds the message it then hands to the library)
DRIVER_ALLOCATES = {("lmq", "put"), ("ids", "cycle")}
# after a failed id allocation the id cursor may have advanced (an id is skipped: ids stay unique and in range, which is all
# the properties ask for), so the ids handed out afterwards are not compared with the walk
CURSOR_MAY_ADVANCE = {("id", "alloc")}
PLAN = [("lmq", "data/Lmq.tla", "Lmq_gen.cfg", lmq_cmd, lambda ia: "init %d" % ia["cap"], 40),
        ("id", "data/IdMap.tla", "IdMap_gen.cfg", id_cmd, lambda ia: "init %d %d" % (ia["lo"], ia["hi"]), 60),
        ("msg", "data/Msg.tla", "Msg_gen.cfg", msg_cmd, lambda ia: "init %d %d" % (ia["sz"], ia["t"]), 4),
        # opening sockets, contexts, dialers and listeners (data/Ids.tla): ENOMEM, nothing created, the same call again succeeds
        ("ids", "data/Ids.tla", "Ids_gen.cfg", ids_cmd, lambda ia: "init", 12)]


def write_blocks(path, blocks):
    with open(path, "w") as f:
        for bid, lines in blocks:
            f.write("W %d\n" % bid)
            for ln in lines:
                f.write(ln + "\n")
            f.write("E\n")


def run_files(exe, files):
    with ThreadPoolExecutor(max_workers=16) as ex:
        return list(ex.map(lambda fn: run_driver(exe, fn, 600), files))


def parse(lines):
    res, ends = {}, {}
    for ln in lines:
        if ln.startswith("R "):
            _, wid, st, js = ln.split(" ", 3)
            res.setdefault(int(wid), []).append(json.loads(js))
        elif ln.startswith("X "):
            _, wid, js = ln.split(" ", 2)
            ends[int(wid)] = json.loads(js)
    return res, ends


def run(v, tier, rng):
    exe = build_driver("drv_data", DRV)
    thorough = tier == "thorough"
    rdir = os.path.join(WORK, "replay-C20")
    os.makedirs(rdir, exist_ok=True)
    tot_inj = tot_enomem = tot_normal = tot_skipped = 0
    per_obj = {}
    for obj, spec, cfg, to_cmd, init_cmd, maxlen in PLAN:
        if os.environ.get("VERIF_PART") and os.environ["VERIF_PART"] != obj:
            continue          # development aid
        g = tlc_edges(spec, cfg, timeout=1500)
        edges = g["edges"]
        v.cov["states"] += g["distinct"]
        v.cov["transitions"] += len(edges)
        walks, total, covered = cover_walks(g, rng, maxlen=maxlen, limit=(None if thorough else 1500) if obj != "ids" else (600 if thorough else 150))
        cmds = []
        for w in walks:
            s0 = edges[w[0]][0]
            cmds.append(["%s %s" % (obj, init_cmd(g["init_acts"][str(s0)]))] + ["%s %s" % (obj, to_cmd(act_in(edges[ei][2]))) for ei in w])
        # pass 1: normal replay, allocation count of every step
        files = []
        for c0 in range(0, len(walks), 400):
            fn = os.path.join(rdir, "%s-count-%d.cmd" % (obj, c0))
            write_blocks(fn, [(i, cmds[i]) for i in range(c0, min(c0 + 400, len(walks)))])
            files.append(fn)
        na = {}
        for fn, (rc, lines, err) in zip(files, run_files(exe, files)):
            if rc != 0 or not lines or lines[-1] != "Z":
                raise Broken("C20 counting pass of %s failed (rc=%s): %s" % (obj, rc, (observer_sig(err) or err[-300:])))
            res, ends = parse(lines)
            for wid, rs in res.items():
                na[wid] = [r.get("na", 0) for r in rs]
        # pass 2: one block per (walk, step, k)
        blocks = []
        seen_kind = {}
        for wid, w in enumerate(walks):
            for i in range(len(w)):
                n = na.get(wid, [0] * len(w))[i] if i < len(na.get(wid, [])) else 0
                if n == 0 or (obj, edges[w[i]][2].get("a")) in DRIVER_ALLOCATES:
                    continue
                kind = (edges[w[i]][0], json.dumps(act_in(edges[w[i]][2]), sort_keys=True))
                for k in range(1, min(n, 12 if obj == "ids" else 4) + 1):
                    if not thorough and seen_kind.get((kind, k), 0) >= 1:
                        continue          # quick: each (state, action, k) once
                    seen_kind[(kind, k)] = seen_kind.get((kind, k), 0) + 1
                    c = cmds[wid]
                    blocks.append((wid, i, k, c[:i + 1] + [c[i + 1] + " F%d" % k, c[i + 1]] + c[i + 2:]))
        files = []
        index = {}
        for c0 in range(0, len(blocks), 300):
            fn = os.path.join(rdir, "%s-fail-%d.cmd" % (obj, c0))
            part = blocks[c0:c0 + 300]
            write_blocks(fn, [(c0 + j, b[3]) for j, b in enumerate(part)])
            for j, b in enumerate(part):
                index[c0 + j] = b
            files.append(fn)
        n_enomem = n_normal = n_skipped = 0
        for fn, (rc, lines, err) in zip(files, run_files(exe, files)):
            res, ends = parse(lines)
            if rc != 0 or not lines or lines[-1] != "Z":
                # the driver died: the block being executed is the one after the last completed one
                done = sorted(ends)
                first = int(os.path.basename(fn).split("-")[-1].split(".")[0])
                bad = (done[-1] + 1) if done else first
                wid, i, k, _ = index.get(bad, (0, 0, 0, None))
                a = act_in(edges[walks[wid][i]][2]) if bad in index else {}
                osig = observer_sig(err) or ("watchdog" if rc == 124 else "exit-%d" % rc)
                v.violation("oom.%s.%s:%s" % (obj, a.get("a"), osig),
                            "%s %s with allocation %d of the call failing: driver aborted: %s" % (obj, json.dumps(a, sort_keys=True), k, osig),
                            dict(spec=spec + ":" + cfg, driver="drv_data", cmdfile=fn, block=bad, observer=osig, stderr=err[-3000:]))
            for bid, rs in res.items():
                if bid not in ends or bid not in index:
                    continue
                wid, i, k, _ = index[bid]
                w = walks[wid]
                a = act_in(edges[w[i]][2])

                def match(r, e):
                    return canon(r.get("out")) == e[2].get("out") and canon(r.get("obs")) == e[3]
                if any(not match(rs[j], edges[w[j]]) for j in range(i)) or len(rs) < i + 2:
                    n_skipped += 1
                    continue
                fr = rs[i]
                if not fr.get("ff"):
                    n_skipped += 1
                    continue
                prev_obs = rs[i - 1].get("obs") if i > 0 else None
                bad = None
                if (fr.get("out") or {}).get("rv") == "enomem":
                    if prev_obs is not None and canon(fr.get("obs")) != canon(prev_obs):
                        bad = ("state-changed", "returned ENOMEM but the observable state changed: %s -> %s" % (
                            json.dumps(prev_obs, sort_keys=True)[:300], json.dumps(fr.get("obs"), sort_keys=True)[:300]))
                    elif (obj, a.get("a")) in CURSOR_MAY_ADVANCE:
                        n_enomem += 1
                    else:
                        rest = rs[i + 1:]
                        for j, r in enumerate(rest):
                            if i + j >= len(w):
                                break
                            if not match(r, edges[w[i + j]]):
                                bad = ("after-enomem", "after ENOMEM, step %d (%s) did %s, specification expects %s" % (
                                    i + j, json.dumps(act_in(edges[w[i + j]][2]), sort_keys=True),
                                    json.dumps(dict(out=r.get("out"), obs=r.get("obs")), sort_keys=True)[:300],
                                    json.dumps(dict(out=edges[w[i + j]][2].get("out"), obs=edges[w[i + j]][3]), sort_keys=True)[:300]))
                                break
                        n_enomem += 1
                elif match(fr, edges[w[i]]):
                    n_normal += 1           # the operation did not need that block
                else:
                    bad = ("unclean", "allocation %d failed: result %s is neither ENOMEM nor the specified result %s" % (
                        k, json.dumps(dict(out=fr.get("out"), obs=fr.get("obs")), sort_keys=True)[:300],
                        json.dumps(dict(out=edges[w[i]][2].get("out"), obs=edges[w[i]][3]), sort_keys=True)[:300]))
                end = ends[bid]
                if bad is None and (end.get("leak") or end.get("mism") or end.get("badfree")):
                    bad = ("balance", "allocator imbalance at the end of the walk: %s" % json.dumps(end))
                if bad:
                    v.violation("oom.%s.%s:%s" % (obj, a.get("a"), bad[0]),
                                "%s %s with allocation %d of the call failing: %s" % (obj, json.dumps(a, sort_keys=True), k, bad[1]),
                                dict(spec=spec + ":" + cfg, driver="drv_data", cmdfile=fn, block=bid, walk=[act_in(edges[e][2]) for e in w],
                                     fail_step=i, k=k, observed=rs))
                elif tot_inj + n_enomem + n_normal <= 3:
                    v.sample(dict(object=obj, action=a, k=k, result=fr.get("out"), retried=rs[i + 1].get("out") if len(rs) > i + 1 else None))
        if obj == "lmq":
            # nni_lmq_init cannot fail: when its array cannot be allocated the queue falls back to the two built-in slots, so a
            # queue initialised with capacity 3 or 4 under a failing allocation must behave exactly as a queue of capacity 2
            s2 = [s0 for s0 in g["inits"] if g["init_acts"][str(s0)].get("cap") == 2]
            w2 = [wid for wid, w in enumerate(walks) if s2 and edges[w[0]][0] == s2[0]][:80 if not thorough else 400]
            iblocks = [(wid, C) for wid in w2 for C in (3, 4)]
            fn = os.path.join(rdir, "lmq-initfail.cmd")
            write_blocks(fn, [(j, ["lmq init %d F1" % C] + cmds[wid][1:]) for j, (wid, C) in enumerate(iblocks)])
            (rc, lines, err), = run_files(exe, [fn])
            res, ends = parse(lines)
            if rc != 0 or not lines or lines[-1] != "Z":
                osig = observer_sig(err) or ("watchdog" if rc == 124 else "exit-%d" % rc)
                v.violation("oom.lmq.init:%s" % osig, "lmq init with its allocation failing, then a walk of the capacity-2 graph: driver aborted: %s" % osig,
                            dict(spec=spec + ":" + cfg, driver="drv_data", cmdfile=fn, observer=osig, stderr=err[-3000:]))
            n_init = 0
            for j, (wid, C) in enumerate(iblocks):
                if j not in ends:
                    continue
                w = walks[wid]
                rs = res.get(j, [])
                badi = next((i2 for i2 in range(len(w)) if i2 >= len(rs) or canon(rs[i2].get("out")) != edges[w[i2]][2].get("out")
                             or canon(rs[i2].get("obs")) != edges[w[i2]][3]), None)
                end = ends[j]
                if badi is not None:
                    v.violation("oom.lmq.init:after-fallback", "lmq init %d with its allocation failing must give a queue of capacity 2; step %d (%s) did %s, a capacity-2 queue does %s" % (
                                C, badi, json.dumps(act_in(edges[w[badi]][2]), sort_keys=True), json.dumps(rs[badi] if badi < len(rs) else None, sort_keys=True)[:300],
                                json.dumps(dict(out=edges[w[badi]][2].get("out"), obs=edges[w[badi]][3]), sort_keys=True)[:300]),
                                dict(spec=spec + ":" + cfg, driver="drv_data", cmdfile=fn, block=j, walk=[act_in(edges[e][2]) for e in w], cap=C))
                elif end.get("leak") or end.get("mism") or end.get("badfree"):
                    v.violation("oom.lmq.init:balance", "allocator imbalance after a walk on a queue whose init allocation failed: %s" % json.dumps(end),
                                dict(spec=spec + ":" + cfg, driver="drv_data", cmdfile=fn, block=j))
                else:
                    n_init += 1
            log("oom lmq init: %d walks of the capacity-2 graph on queues whose init allocation failed, %d conform" % (len(iblocks), n_init))
            n_enomem += n_init
            blocks = blocks + iblocks
        per_obj[obj] = dict(walks=len(walks), injections=len(blocks), enomem_clean=n_enomem, not_needed=n_normal, unjudged=n_skipped)
        log("oom %s: %d injections: %d clean ENOMEM (state unchanged, retry and rest conform), %d block not needed, %d unjudged" % (
            obj, len(blocks), n_enomem, n_normal, n_skipped))
        tot_inj += len(blocks)
        tot_enomem += n_enomem
        tot_normal += n_normal
        tot_skipped += n_skipped
    if tot_enomem == 0:
        raise Broken("no injected failure was reported as ENOMEM: injection is not working")
    api = api_part(v, thorough, rdir) if not os.environ.get("VERIF_PART") else {}
    # the inproc hand-off: the receiver's copy of a shared message cannot be allocated (spec wire/Inproc.tla: the named loss)
    from checks.inproc import run_inproc
    n_inproc = run_inproc(v, tier, mc=False, plans=("fail",))
    v.cov["oom"] = per_obj
    v.cov["oom_api"] = api
    v.cov["traces_validated_against_impl"] = tot_enomem + tot_normal + n_inproc
    v.cov["evaluations"] = tot_inj + sum(x["injections"] for x in api.values()) + n_inproc
    v.cov["distinct_nontrivial"] = v.cov["evaluations"]
    v.cov["rule"] = ("(state, action, k): every allocating step of the edge-cover walks of Lmq/IdMap/Msg with its k-th allocation failing, "
                     "k up to the number of allocations of that step (max 4); quick tier: each (state, action, k) once")
    v.assumptions += ["conformance under failure (ENOMEM + unchanged state) is judged for lmq, id map and nng_msg; for API programs over "
                      "sockets and the tcp/ipc transports (incl. background threads) a failing allocation is judged by survival only: no "
                      "crash, no hang, every block returned after close (see DESIGN.md, C20)",
                      "one failing allocation at a time"]


def api_part(v, thorough, rdir):
    """API programs over real sockets and transports (behaviours of wire/Framing.tla: open, listen on tcp and ipc, peers
    connecting, handshakes, frames, sends, disconnects, close) with the k-th allocation failing, for every k (quick: a
    sample), in whatever thread it happens.  What the program observes after the failure is not compared (a message or a
    connection may be lost); the run must not crash, hang or leak."""
    from checks.wirelib import wire_cmd
    from checks.c16 import ws_cmd
    exes = {"wire": build_driver("drv_wire", ["drv_wire.c", "acct.c"]), "ws": build_driver("drv_ws", ["drv_ws.c", "acct.c"])}
    res = {}
    for fam, spec, cmdf, opener, plan in (
            ("wire", "wire/Framing.tla", wire_cmd, "open %s 4 1 0",
             (("Framing_sim.cfg", "pull", 24 if thorough else 12), ("FramingOut_sim.cfg", "push", 10 if thorough else 5))),
            ("ws", "wire/Ws.tla", ws_cmd, "open %s 6 4 2 1 0",
             (("Ws_sim.cfg", "pull", 20 if thorough else 8), ("WsOut_sim.cfg", "push", 8 if thorough else 4)))):
        res[fam] = api_family(v, thorough, rdir, fam, exes[fam], spec, cmdf, opener, plan)
    return res


def api_family(v, thorough, rdir, fam, exe, spec, cmdf, opener, plan):
    progs = []
    for cfg, kind, nwalk in plan:
        g = tlc_edges(spec, cfg, timeout=1500, simulate=150, depth=12, seed=v.seed, cache=False)
        walks = sorted([w for w in g["walks"] if len(w) >= 6], key=len, reverse=True)[:nwalk]
        for w in walks:
            progs.append((kind, [cmdf(act_in(g["edges"][e][2])) for e in w]))

    def block(bid, kind, cmds, k):
        return (bid, ["failat %d" % k, opener % kind] + cmds)
    # pass 1: allocation count of every program
    fn = os.path.join(rdir, "api-%s-count.cmd" % fam)
    write_blocks(fn, [block(i, kind, cmds, 0) for i, (kind, cmds) in enumerate(progs)])
    rc, lines, err = run_driver(exe, fn, 900)
    if rc != 0 or not lines or lines[-1] != "Z":
        raise Broken("C20 api counting pass failed (rc=%s): %s" % (rc, observer_sig(err) or err[-300:]))
    counts = {}
    for ln in lines:
        if ln.startswith("A "):
            _, wid, js = ln.split(" ", 2)
            counts[int(wid)] = json.loads(js)["allocs"]
    blocks = []
    for i, (kind, cmds) in enumerate(progs):
        n = counts.get(i, 0)
        ks = list(range(1, n + 1))
        if not thorough and len(ks) > 90:
            stepk = len(ks) / 90.0
            ks = sorted(set(ks[int(j * stepk)] for j in range(90)))
        for k in ks:
            blocks.append((i, k))
    files, index = [], {}
    for c0 in range(0, len(blocks), 30):
        fn = os.path.join(rdir, "api-%s-fail-%d.cmd" % (fam, c0))
        part = blocks[c0:c0 + 30]
        write_blocks(fn, [block(c0 + j, progs[i][0], progs[i][1], k) for j, (i, k) in enumerate(part)])
        for j, b in enumerate(part):
            index[c0 + j] = b
        files.append(fn)
    fired = clean = 0
    for fn, (rc, lines, err) in zip(files, run_files(exe, files)):
        ends, infos, begun = {}, {}, -1
        for ln in lines:
            if ln.startswith("X "):
                _, wid, js = ln.split(" ", 2)
                ends[int(wid)] = json.loads(js)
            elif ln.startswith("A "):
                _, wid, js = ln.split(" ", 2)
                infos[int(wid)] = json.loads(js)
            elif ln.startswith("B "):
                begun = int(ln.split()[1])
        for bid, end in ends.items():
            i, k = index[bid]
            fired += 1 if infos.get(bid, {}).get("fired") else 0
            if end.get("leak") or end.get("mism") or end.get("badfree"):
                v.violation("oom.api.%s.%s:balance" % (fam, progs[i][0]), ("program %d (%s socket, " + fam + " transports) with allocation %d failing: allocator imbalance after close: %s") % (
                            i, progs[i][0], k, json.dumps(end)),
                            dict(spec=spec, driver="drv_" + fam, cmdfile=fn, block=bid, program=progs[i][1], k=k))
            else:
                clean += 1
        if rc != 0 or not lines or lines[-1] != "Z" or any(ln.startswith("L ") for ln in lines):
            i, k = index.get(begun, (0, 0))
            osig = observer_sig(err) or ("watchdog" if rc == 124 else ("leak-after-fini" if rc == 0 else "exit-%d" % rc))
            v.violation("oom.api.%s.%s:%s" % (fam, progs[i][0], osig), ("program %d (%s socket, " + fam + " transports) with allocation %d failing: %s") % (
                        i, progs[i][0], k, osig),
                        dict(spec=spec, driver="drv_" + fam, cmdfile=fn, block=begun, program=progs[i][1], k=k, observer=osig,
                             stderr=err[-3000:]))
    log("oom api %s: %d programs, %d injections (%d fired), %d clean" % (fam, len(progs), len(blocks), fired, clean))
    if blocks and fired == 0:
        raise Broken("no injected failure fired in the API programs")
    return dict(programs=len(progs), injections=len(blocks), fired=fired, clean=clean, allocations=counts)
