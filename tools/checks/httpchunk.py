"""HTTP chunked transfer decoding (part of C16): spec data/HttpChunk.tla (character-wise machine = bulk parser under every cut,
checked by TLC on the history of every behaviour); every edge of the exported graph is replayed on nni_http_chunks_parse
(harness/drv_data.c: result, bytes consumed, chunk sizes, collected data after every token), and at the end of each walk the
same byte stream is parsed again in one piece, in pieces of 1,2,3,5,7 bytes and with random cuts."""
from vlib import *
from replay import replay_walks

DRV = ["drv_data.c", "acct.c"]


def sig_chunk(acts, idx, step, allowed):
    a = acts[idx] if idx < len(acts) else {"a": "fin"}
    if step is not None and step[0] == "fin":
        return "chunk.fin:%s" % str(step[1]).split(":")[0].rstrip("0123456789-")
    prev = acts[idx - 1].get("c", "init") if idx > 0 else "init"
    what = "?"
    if step is not None and allowed:
        what = "out" if canon(step[1]) != allowed[0]["out"] else "obs"
    return "chunk.feed.%s-after-%s:%s" % (a.get("c"), prev, what)


def run_chunks(v, tier, rng):
    thorough = tier == "thorough"
    exe = build_driver("drv_data", DRV)
    r = tlc("data/HttpChunk.tla", "HttpChunk_mc.cfg" if thorough else "HttpChunk_q.cfg", workers=8, timeout=2400)
    tlc_require_ok(r, "HttpChunk")
    v.add_tlc("data/HttpChunk.tla:mc", r)
    g = tlc_edges("data/HttpChunk.tla", "HttpChunk_gen.cfg", timeout=1500)
    v.cov["states"] += g["distinct"]
    v.cov["transitions"] += len(g["edges"])
    walks, total, covered = cover_walks(g, rng, maxlen=60)
    walks += random_walks(g, rng, 3000 if thorough else 400, 80)
    n = replay_walks(v, g, walks, exe, "chunk", lambda a: "feed %s" % a["c"], lambda ia: "init %d" % ia["maxsz"],
                     "data/HttpChunk.tla:HttpChunk_gen.cfg", sig_of=sig_chunk, check_fin=True)
    log("http chunks: %d/%d edges covered by %d walks, %d validated" % (covered, total, len(walks), n))
    v.cov.setdefault("edge_cover", {})["data/HttpChunk.tla:HttpChunk_gen.cfg"] = dict(edges=total, covered=covered, walks=len(walks),
                                                                                      random_walks=0, validated=n, states=g["nstates"])
    return n
