"""spec wire/Inproc.tla replayed on the real inproc transport between two sockets of one process whose protocol is the
driver itself (harness/drv_tran.c: vproto): pipe sends and receives, cancels, closes of pipe ends / end points / sockets,
redials.  Shared by C01 (integrity, header pull-up, exclusive copy), C02 (exactly one completion), C10/C14 (close, events,
redial) and C20 (allocation failures in the hand-off)."""
from vlib import *
from replay import replay_walks
from checks.agg import Only

DRV = ["drv_tran.c", "dee.c", "acct.c"]


def tran_cmd(a, o=None):
    k = a["a"]
    if k in ("listen", "listen2", "lclose", "dclose"):
        return k
    if k == "dial":
        return "dial %s" % a["mode"]
    if k == "tick":
        return "tick %d" % a["d"]
    if k in ("send", "recv") and a.get("fail"):
        return "failat %d\n" % a["fail"] + tran_cmd(dict(a, fail=0))
    if k == "send":
        return "send %d %d %d %d %d %s %d %d" % (a["op"], a["k"], a["s"], a["m"], a["h"], a["sh"], 1 if a["shared"] else 0, a.get("tmo", 0))
    if k == "recv":
        return "recv %d %d %d %d" % (a["op"], a["k"], a["s"], a.get("tmo", 0))
    if k == "cancel":
        return "cancel %d" % a["op"]
    if k == "pclose":
        return "pclose %d %d" % (a["k"], a["s"])
    if k == "sclose":
        return "sclose %d" % a["s"]
    if k == "reject":
        return "reject %d" % a["s"]
    raise Broken("no command for %s" % a)


def sig_tran(tagname):
    def f(acts, idx, step, allowed):
        a = acts[idx] if idx < len(acts) else {"a": "end"}
        what = "?"
        if step is not None and allowed:
            exp = allowed[0]
            if not matches(canon(step[1]), exp["out"]):
                ks = [k for k in sorted(set(step[1] or {}) | set(exp["out"] or {})) if not matches(canon(step[1] or {}).get(k), (exp["out"] or {}).get(k))]
                what = "out." + ",".join(ks)
            else:
                o, e = canon(step[2] or {}), exp["obs"]
                what = "obs." + ",".join(k for k in sorted(set(o) | set(e)) if not matches(o.get(k), e.get(k)))
        prev = acts[idx - 1]["a"] if idx > 0 else "init"
        return "%s.%s-after-%s:%s" % (tagname, a["a"], prev, what)
    return f


def run_inproc(v, tier, pred=None, mc=True, scale=1.0, plans=("gen", "sim")):
    thorough = tier == "thorough"
    exe = build_driver("drv_tran", DRV)
    px = Only(v, pred, 1.0) if pred else v
    if mc:
        r = tlc("wire/Inproc.tla", "Inproc_mc.cfg", workers=8, timeout=1500)
        tlc_require_ok(r, "Inproc")
        v.add_tlc("wire/Inproc.tla:Inproc_mc.cfg", r)
    total = 0
    if "gen" in plans:
      # every transition of the small graph ...
      g = tlc_edges("wire/Inproc.tla", "Inproc_gen.cfg", timeout=1500)
      v.cov["states"] += g["distinct"]
      v.cov["transitions"] += len(g["edges"])
      import random
      rng = random.Random(v.seed)
      walks, tot, covered = cover_walks(g, rng, maxlen=24, limit=None if thorough else 2500)
      n = replay_walks(px, g, walks, exe, "x", tran_cmd, lambda ia: "", "wire/Inproc.tla:Inproc_gen.cfg", sig_of=sig_tran("inproc"),
                       check_fin=False, chunk=120, prelude="open inproc://w")
      log("inproc: %d/%d edges covered by %d walks, %d validated" % (covered, tot, len(walks), n))
      v.cov.setdefault("edge_cover", {})["wire/Inproc.tla:Inproc_gen.cfg"] = dict(edges=tot, covered=covered, walks=len(walks), random_walks=0,
                                                                                   validated=n, states=g["nstates"])
      total += n
    # ... and random behaviours of the large one; "fail": the same with the k-th allocation of a pipe send / receive failing
    for plan, cfg in (("sim", "Inproc_sim.cfg"), ("fail", "InprocF_sim.cfg"), ("reject", "InprocR_sim.cfg")):
        if plan not in plans:
            continue
        nsim = int((1500 if thorough else 300) * scale)
        g = tlc_edges("wire/Inproc.tla", cfg, timeout=1500, simulate=nsim, depth=30, seed=v.seed, cache=False)
        v.cov["transitions"] += len(g["edges"])
        v.cov["states"] += g["nstates"]
        walks = [w for w in g["walks"] if w]
        n = replay_walks(px, g, walks, exe, "x", tran_cmd, lambda ia: "", "wire/Inproc.tla:" + cfg, sig_of=sig_tran("inproc"),
                         check_fin=False, chunk=60, linear=True, prelude="open inproc://w")
        nf = sum(1 for w in walks for e in w if (g["edges"][e][2].get("out") or {}).get("failed"))
        log("inproc %s: %d simulated behaviours (%d lost hand-offs), %d validated" % (cfg, len(walks), nf, n))
        v.cov.setdefault("edge_cover", {})["wire/Inproc.tla:" + cfg] = dict(edges=len(g["edges"]), covered=len(g["edges"]), walks=len(walks),
                                                                           random_walks=0, validated=n, states=g["nstates"], failed_allocations_that_fired=nf)
        total += n
    if pred:
        v.cov["divergences_outside_this_property"] = v.cov.get("divergences_outside_this_property", 0) + px.other
    return total


LEVEL = "model_checking"


def run(v, tier, rng):
    n = run_inproc(v, tier, plans=("gen", "sim", "fail", "reject"))
    v.cov["distinct_nontrivial"] = n
