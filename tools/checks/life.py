"""Shared by C10 and C14: spec life/Life.tla replayed on a REP socket with a listener and a dialer on the harness transport."""
from vlib import *
from protolib import *
from checks.agg import Only
from checks.lifetr import life_trace_part, judge_driver_traces
import os, shutil

LIFE_SETUP = ("life 1",)


def run_life(v, tier, pred):
    thorough = tier == "thorough"
    r = tlc("life/Life.tla", "Life_mc.cfg", workers=8, timeout=1500)
    tlc_require_ok(r, "Life")
    v.add_tlc("life/Life.tla:mc", r)
    px = Only(v, pred, 1.0)
    ddir = os.path.join(WORK, "traces-life-drv-" + v.prop)
    shutil.rmtree(ddir, ignore_errors=True)
    os.makedirs(ddir)
    replay_sim(px, "rep", False, "life/Life.tla", "Life_sim.cfg", 12000 if thorough else 2500, 30, auto=True, setup=LIFE_SETUP,
               drv_env={"DRV_LIFE_TRACE_DIR": ddir})
    # ... and what the library did in those replays, record by record, against life/LifeEv.tla
    judge_driver_traces(px, ddir)
    shutil.rmtree(ddir, ignore_errors=True)
    # code -> spec: life-cycle records of the repository's tests against life/TraceLife.tla (life/LifeEv.tla)
    life_trace_part(px, tier)
    v.cov["divergences_outside_this_property"] = px.other
    v.cov["distinct_nontrivial"] = sum(x["walks"] for x in v.cov["edge_cover"].values())
    v.cov["rule"] = ("TLC -simulate behaviours (depth 30) of Life.tla replayed in run-to-quiescence steps under the virtual clock; distinct = "
                     "behaviours; plus the sockets of the repository's tests whose recorded life cycle TLC accepted (life_trace_validation)")
    v.assumptions += ["one protocol (REP) and the harness transport stand for all protocols x transports: close, endpoint and pipe-event "
                      "handling live in src/core and are shared", "close is issued from the driver thread while every library thread runs free; "
                      "interleavings of close with a second thread issuing operations are not enumerated"]
