"""code -> spec for C10/C14: H-LIFE records of the repository's own tests (every protocol and transport they use, real
threads), validated by TLC against life/TraceLife.tla (actions and guards of life/LifeEv.tla)."""
import json, os, re, shutil, subprocess
from concurrent.futures import ThreadPoolExecutor
from vlib import *
import lifetrace

QUICK_TESTS = ["src/core/sock_test", "src/sp/pipe_test", "src/core/reconnect_test", "src/sp/transport/tcp/tcp_test",
               "src/sp/transport/ipc/ipc_test", "src/sp/transport/inproc/inproc_test", "src/sp/protocol/reqrep0/req_test",
               "src/sp/protocol/reqrep0/rep_test", "src/sp/protocol/pair1/pair1_test", "src/sp/protocol/pubsub0/sub_test",
               "src/sp/protocol/bus0/bus_test", "src/sp/device_test", "src/sp/protocol/survey0/survey_test",
               "src/sp/protocol/pipeline0/push_test"]
THOROUGH_TESTS = QUICK_TESTS + [
    "src/sp/nonblock_test", "src/sp/protocol/pair1/pair1_poly_test", "src/sp/protocol/pair0/pair0_test",
    "src/sp/protocol/pubsub0/pub_test", "src/sp/protocol/pubsub0/xsub_test", "src/sp/protocol/reqrep0/xrep_test",
    "src/sp/protocol/reqrep0/xreq_test", "src/sp/protocol/survey0/respond_test", "src/sp/protocol/survey0/xrespond_test",
    "src/sp/protocol/survey0/xsurvey_test", "src/sp/protocol/pipeline0/pull_test", "src/sp/transport/ws/ws_test",
    "src/sp/transport/socket/sockfd_test", "src/sp/transport/udp/udp_tran_test", "src/sp/reconnect_stress_test",
    "src/sp/protocol/reqrep0/reqstress_test", "src/sp/multistress_test"]


def write_cfg(path, np, ne, nc):
    with open(path, "w") as f:
        f.write("SPECIFICATION TSpec\nCONSTANTS Pipes = {%s}\n          Eps = {%s}\n          Ctxs = {%s}\n" % (
            ", ".join(map(str, range(1, np + 1))), ", ".join(map(str, range(1, ne + 1))), ", ".join(map(str, range(1, nc + 1)))))
        f.write("INVARIANTS EvInv\nCONSTRAINT Progress\nPOSTCONDITION ReportProgress\nCHECK_DEADLOCK FALSE\n")


def validate(normfile, cfg, timeout=1500):
    r = tlc("life/TraceLife.tla", cfg, workers=1, timeout=timeout, env={"TRACE": normfile}, deadlock=True, xmx="6g")
    m = re.search(r'<<"MAXL", (\d+), (\d+)>>', r["out"])
    if r["status"] == "violation":
        m2 = re.search(r"/\\ l = (\d+)", r["out"])
        inv = re.search(r"Invariant (\w+) is violated", r["out"])
        return False, int(m2.group(1)) - 1 if m2 else 0, inv.group(1) if inv else "invariant", r
    if not m:
        raise Broken("life trace validation: no progress report\n%s" % r["out"][-3000:])
    maxl, n = int(m.group(1)), int(m.group(2))
    return maxl == n + 1, maxl, None, r


def flatten(parts):
    """records as write_norm writes them, with the socket each belongs to"""
    out = []
    for pi, pt in enumerate(parts):
        out.append((pi, dict(e="new")))
        out += [(pi, r) for r in pt.recs]
    return out


def judge_parts(v, parts, tdir, name, label):
    """Validates the sockets in parts (chunks of <= 60k records); returns the number of sockets accepted."""
    accepted = 0
    chunks, cur, n = [], [], 0
    for pt in parts:
        if cur and n + len(pt.recs) > 60000:
            chunks.append(cur)
            cur, n = [], 0
        cur.append(pt)
        n += len(pt.recs) + 1
    if cur:
        chunks.append(cur)
    for ci, ch in enumerate(chunks):
        nf = os.path.join(tdir, "%s.%d.norm.ndjson" % (name, ci))
        lifetrace.write_norm(ch, nf)
        cfg = os.path.join(tdir, "%s.%d.cfg" % (name, ci))
        write_cfg(cfg, max(1, max(p.maxn["p"] for p in ch)), max(1, max(p.maxn["e"] for p in ch)), max(1, max(p.maxn["c"] for p in ch)))
        ok, maxl, inv, r = validate(nf, cfg)
        v.cov["states"] += r.get("distinct", 0)
        v.cov["transitions"] += r.get("generated", 0)
        if ok:
            accepted += len(ch)
            os.unlink(nf)
            os.unlink(cfg)
            continue
        flat = flatten(ch)
        i = max(0, min(maxl - 1, len(flat) - 1))
        pi, bad = flat[i]
        accepted += pi
        # the previous record about the same object
        prev = {"e": "new"}
        kind = bad["e"].split("_")[0]
        for j in range(i - 1, -1, -1):
            if flat[j][0] != pi:
                break
            pr = flat[j][1]
            if pr["e"].split("_")[0] == kind and pr.get("a") == bad.get("a"):
                prev = pr
                break
        sig = "life.trace:%s-after-%s%s" % (bad["e"], prev["e"], (":" + inv) if inv else "")
        hist = [x[1] for x in flat[max(0, i - 40):i + 1] if x[0] == pi]
        v.violation(sig, "%s: life-cycle trace rejected at record %d: %s after %s (socket's last records: %s)" % (
            label, maxl, json.dumps(bad), prev["e"], " ".join("%s(%s)" % (x["e"], x.get("a", "")) for x in hist)[-600:]),
            dict(spec="life/TraceLife.tla", source=label, normalised_trace=nf, cfg=cfg, rejected_record=maxl, history=hist))
    return accepted


def selftest(v, parts, tdir):
    """The judge must reject a trace with one record dropped and one with two records swapped."""
    base = None
    for pt in parts:
        es = [r["e"] for r in pt.recs]
        if "p_stopped" in es and "p_close" in es and len(es) < 400:
            base = pt
            break
    if base is None:
        return {}
    st = {}
    k = [r["e"] for r in base.recs].index("p_stopped")
    kc = [r["e"] for r in base.recs].index("p_close")
    muts = {"drop_p_close": base.recs[:kc] + base.recs[kc + 1:],
            "swap_stopped_remove": base.recs[:k] + [base.recs[k + 1], base.recs[k]] + base.recs[k + 2:]}
    for name, recs in muts.items():
        m = lifetrace.Part(("selftest", name))
        m.recs, m.maxn = recs, base.maxn
        nf = os.path.join(tdir, "selftest-%s.ndjson" % name)
        lifetrace.write_norm([m], nf)
        cfg = os.path.join(tdir, "selftest-%s.cfg" % name)
        write_cfg(cfg, max(1, m.maxn["p"]), max(1, m.maxn["e"]), max(1, m.maxn["c"]))
        ok, maxl, inv, r = validate(nf, cfg)
        st[name] = dict(rejected=not ok, at_record=maxl)
        os.unlink(nf)
        os.unlink(cfg)
    if not all(x["rejected"] for x in st.values()):
        raise Broken("life trace judge accepted a corrupted trace: %s" % st)
    return st


def judge_driver_traces(v, ddir):
    """Life-cycle records written by the replay driver itself (DRV_LIFE_TRACE_DIR): the behaviours TLC generated from
    life/Life.tla, as the library executed them, must also be behaviours of life/LifeEv.tla."""
    tdir = os.path.join(WORK, "traces-life-" + v.prop)
    os.makedirs(tdir, exist_ok=True)
    files = sorted(f for f in os.listdir(ddir) if f.endswith(".ndjson"))
    tot = dict(sockets=0, records=0, accepted=0)
    jobs = []
    for f in files:
        parts, st = lifetrace.normalise(open(os.path.join(ddir, f), errors="replace"))
        tot["sockets"] += st["sockets"]
        tot["records"] += st["records"]
        jobs.append((f, parts))
    with ThreadPoolExecutor(max_workers=8) as ex:
        acc = list(ex.map(lambda j: judge_parts(v, j[1], tdir, "replay-" + j[0], "replay driver (" + j[0] + ")"), jobs))
    tot["accepted"] = sum(acc)
    v.cov["traces_validated_against_impl"] += tot["accepted"]
    v.cov["life_trace_validation_of_replays"] = tot
    log("life traces of the replay driver: %d sockets (%d accepted), %d records" % (tot["sockets"], tot["accepted"], tot["records"]))


def life_trace_part(v, tier):
    thorough = tier == "thorough"
    tests = THOROUGH_TESTS if thorough else QUICK_TESTS
    bdir = build_repo_tests("plain", [os.path.basename(t) for t in tests])
    tdir = os.path.join(WORK, "traces-life-" + v.prop)
    shutil.rmtree(tdir, ignore_errors=True)
    os.makedirs(tdir)

    def run_test(t):
        tf = os.path.join(tdir, os.path.basename(t) + ".ndjson")
        wd = os.path.join(tdir, "wd-" + os.path.basename(t))
        os.makedirs(wd, exist_ok=True)
        env = dict(os.environ, NNG_VERIF_TRACE=tf, NNG_VERIF_TRACE_SKIP="aio,task")
        try:
            p = subprocess.run([os.path.join(bdir, t)], env=env, timeout=900, stdout=subprocess.PIPE, stderr=subprocess.STDOUT, cwd=wd)
            rc = p.returncode
        except subprocess.TimeoutExpired:
            rc = 124
        shutil.rmtree(wd, ignore_errors=True)
        return t, tf, rc
    with ThreadPoolExecutor(max_workers=6) as ex:
        runs = list(ex.map(run_test, tests))
    tot = dict(records=0, sockets=0, pipes=0, processes=0, dropped=0, unknown=0)
    jobs = []
    for t, tf, rc in runs:
        if not os.path.exists(tf):
            raise Broken("test %s produced no trace (rc=%s)" % (t, rc))
        parts, st = lifetrace.normalise(open(tf, errors="replace"))
        for k in tot:
            tot[k] += st[k]
        jobs.append((t, parts, rc))
        os.unlink(tf)
    with ThreadPoolExecutor(max_workers=6) as ex:
        acc = list(ex.map(lambda j: judge_parts(v, j[1], tdir, os.path.basename(j[0]), os.path.basename(j[0]) + (" (exit %s)" % j[2] if j[2] else "")), jobs))
    accepted = sum(acc)
    allparts = [p for j in jobs for p in j[1]]
    v.cov["life_trace_binding_selftest"] = selftest(v, allparts, tdir)
    v.cov["traces_validated_against_impl"] += accepted
    v.cov["evaluations"] += tot["records"]
    v.cov["life_trace_validation"] = dict(tests=[os.path.basename(t) for t in tests], sockets=tot["sockets"], sockets_accepted=accepted,
                                          pipes=tot["pipes"], records=tot["records"], processes=tot["processes"],
                                          records_not_attributable=tot["dropped"], records_about_unknown_objects=tot["unknown"])
    log("life traces: %d tests, %d sockets (%d accepted), %d pipes, %d records" % (len(tests), tot["sockets"], accepted, tot["pipes"], tot["records"]))
    for pt in allparts:
        if any(r["e"] == "p_ev" for r in pt.recs) and len(pt.recs) < 60:
            v.sample(dict(life_trace_of_one_socket=[[r["e"], r["a"], r["b"], r["n1"]] for r in pt.recs]))
            break
    v.assumptions += ["life-cycle records are written inside the critical section that made the change (s_mx, sock_lk, pipes_lk, the "
                      "notification mutex); p_closed is lock-free, so a close is logged as an attempt before the swap and as a success after it"]
