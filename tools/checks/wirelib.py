"""Shared by C01 and C11: spec wire/Framing.tla replayed against real tcp and ipc listeners; the driver (harness/drv_wire.c)
is the remote peer on a plain socket.  Every behaviour is replayed under several I/O clamps (NNG_VERIF hook: no read or
write system call moves more than N bytes), N = 1 makes every byte boundary a segment boundary."""
from vlib import *
from replay import replay_walks
from checks.agg import Only

DRV = ["drv_wire.c", "acct.c"]


def wire_cmd(a):
    k = a["a"]
    if k == "conn":
        return "conn %d %s" % (a["c"], a["t"])
    if k == "wr":
        return "wr %d %s %d %d %d %d" % (a["c"], a["k"], a["n"], a["ser"], a["hn"], a["hc"] if type(a["hc"]) is int else (1 if a["hc"] else 0))
    if k == "send":
        return "send %d %d %d" % (a["c"], a["n"], a["ser"])
    raise Broken("no wire command for %s" % a)


def sig_wire(tagname):
    def f(acts, idx, step, allowed):
        a = acts[idx] if idx < len(acts) else {"a": "end"}
        name = a["a"] + ("." + a["k"] if a.get("k") else "")
        what = "?"
        if step is not None and allowed:
            exp = allowed[0]
            if canon(step[1]) != exp["out"]:
                ks = [k for k in sorted(set(step[1] or {}) | set(exp["out"] or {})) if (step[1] or {}).get(k) != (exp["out"] or {}).get(k)]
                what = "out." + ",".join(ks)
            else:
                what = "obs"
        return "wire.%s.%s:%s" % (tagname, name, what)
    return f


def run_udp(v, tier, pred):
    """SP/UDP: spec wire/Udp.tla replayed against a real udp listener; the driver owns one datagram socket per peer."""
    thorough = tier == "thorough"
    exe = build_driver("drv_wire", DRV)
    px = Only(v, pred, 1.0)
    r = tlc("wire/Udp.tla", "Udp_mc.cfg", workers=4, timeout=1500)
    tlc_require_ok(r, "Udp")
    v.add_tlc("wire/Udp.tla:mc", r)
    total = 0
    for scale, cfg in ((1, "Udp_sim.cfg"), (1000, "Udp1000_sim.cfg")):
        g = tlc_edges("wire/Udp.tla", cfg, timeout=1500, simulate=1200 if thorough else 300, depth=12, seed=v.seed, cache=False)
        v.cov["transitions"] += len(g["edges"])
        v.cov["states"] += g["nstates"]
        walks = [w for w in g["walks"] if w]
        tag = "wire/Udp.tla:%s@pull,scale=%d" % (cfg, scale)
        n = replay_walks(px, g, walks, exe, "x", lambda a, o=None: wire_cmd(a), lambda ia: "", tag, sig_of=sig_wire("udp.scale%d" % scale),
                         check_fin=False, chunk=60, linear=True, timeout=900,
                         prelude="open pull 4 %d 0\n!conn 1 udp\n!conn 2 udp\n!conn 3 udp" % scale)
        log("udp: %d behaviours x scale %d: %d validated" % (len(walks), scale, n))
        v.cov.setdefault("edge_cover", {})[tag] = dict(edges=len(g["edges"]), covered=len(g["edges"]), walks=len(walks),
                                                        random_walks=0, validated=n, states=g["nstates"])
        total += n
    v.cov["divergences_outside_this_property"] = v.cov.get("divergences_outside_this_property", 0) + px.other
    return total


def run_wire(v, tier, pred, plans):
    """plans: list of (spec cfg for simulation, socket kind, recvmax class, [(scale, clamp), ...], behaviours)"""
    thorough = tier == "thorough"
    exe = build_driver("drv_wire", DRV)
    px = Only(v, pred, 1.0)
    for mc in ("Framing_mc.cfg", "Framing0_mc.cfg"):
        r = tlc("wire/Framing.tla", mc, workers=8, timeout=1500)
        tlc_require_ok(r, "Framing " + mc)
        v.add_tlc("wire/Framing.tla:" + mc, r)
    total = 0
    for cfg, kind, rmax, variants, nsim in plans:
        g = tlc_edges("wire/Framing.tla", cfg, timeout=1500, simulate=nsim * (4 if thorough else 1), depth=12, seed=v.seed, cache=False)
        v.cov["transitions"] += len(g["edges"])
        v.cov["states"] += g["nstates"]
        walks = [w for w in g["walks"] if w]
        for scale, clamp in variants:
            tag = "wire/Framing.tla:%s@%s,scale=%d,clamp=%d" % (cfg, kind, scale, clamp)
            n = replay_walks(px, g, walks, exe, "x", lambda a, o=None: wire_cmd(a), lambda ia: "", tag,
                             sig_of=sig_wire("%s.clamp%d.scale%d" % (kind, clamp, scale)), check_fin=False, chunk=60, linear=True,
                             timeout=900, prelude="open %s %d %d %d" % (kind, rmax, scale, clamp))
            log("wire %s: %d behaviours x (scale %d, clamp %d): %d validated" % (cfg, len(walks), scale, clamp, n))
            v.cov.setdefault("edge_cover", {})[tag] = dict(edges=len(g["edges"]), covered=len(g["edges"]), walks=len(walks),
                                                            random_walks=0, validated=n, states=g["nstates"])
            total += n
    v.cov["divergences_outside_this_property"] = v.cov.get("divergences_outside_this_property", 0) + px.other
    v.cov["distinct_nontrivial"] = v.cov.get("distinct_nontrivial", 0) + total
    v.cov["rule"] = v.cov.get("rule", "") + (" ; " if v.cov.get("rule") else "") + ("behaviours of Framing.tla (depth 12: handshakes good/bad/short, frames of size classes 0,1,3,5 x scale, oversize, huge "
                     "length, bad ipc type, truncation + disconnect, on up to 3 connections over tcp and ipc) x I/O clamps; distinct = "
                     "behaviour x (scale, clamp) runs")
    v.assumptions += ["tcp, ipc and socket:// in this replay (websocket is driven through wire/Ws.tla, inproc through wire/Inproc.tla, udp through wire/Udp.tla); PUSH/PULL stand for all protocols: framing and "
                      "negotiation live in the transports; raw-mode headers are not sent", "the I/O clamp hook sits in nni_aio_iov_clamp_len (posix_tcpconn.c, posix_ipcconn.c) "
                      "and in posix_sockfd.c, for reads and writes",
                      "real time: the driver waits (bounded) for what the specification expects and 25 ms more for what it does not"]
