#!/usr/bin/env python3
"""Writes /verif/MANIFEST.json from the table below (single source of truth for what is claimed)."""
import json, os, subprocess

ROOT = os.path.dirname(os.path.dirname(os.path.abspath(__file__)))

CHECKS = {
    "C01": dict(
        text="TLA+ spec wire/Framing.tla: SP over tcp and ipc byte streams seen from the receiving socket (handshake, length-prefixed frames, "
             "NNG_OPT_RECVMAXSZ, fatal items) with two formulations compared by TLC (step-wise receiver = meaning of the whole stream) and "
             "isolation between connections.  TLC -simulate behaviours are replayed against real tcp, ipc and socket:// listeners by a plain-socket "
             "peer, each under I/O clamps of 1, 2, 3, 7 bytes per read/write system call and unclamped (NNG_VERIF hook in "
             "nni_aio_iov_clamp_len, used by posix_tcpconn.c and posix_ipcconn.c for reads and writes) and payload scales 1 and 1000, in "
             "both directions (PULL receiving, PUSH sending); every delivered payload and every frame the socket writes is compared byte "
             "by byte; clamp 1 makes every byte boundary a segment boundary.  wire/Ws.tla: the same over ws:// in both roles.  wire/Inproc.tla: the inproc "
             "transport between two sockets of one process specified at the transport interface (rendezvous of parked writers and readers, header "
             "pull-up in front of the body, exclusive copy of a shared message, cancel, close of either end, redial); the driver is the protocol "
             "on both sockets (harness/drv_tran.c), every transition of the small graph and TLC -simulate behaviours of the large one are replayed "
             "under the task gate: every completed send is received once, whole, in order, with message shapes empty / 4 bytes / 3000 bytes and 0-2 "
             "header words.",
        note="Trusted: TLC, harness/drv_wire.c, drv_ws.c, drv_tran.c, the clamp hook, ASan/UBSan, accounting allocator. tcp, ipc, socket://, ws:// and inproc; "
             "udp is driven by C11; raw-mode protocol headers travel over inproc only (vproto messages with header words); real time (bounded waits) on the stream transports.",
        technique="TLA+ model checking (TLC) + simulation / edge-cover replay against real transports (short-I/O clamp on streams, task gate on inproc)",
        ref="DESIGN.md section 4, C01"),
    "C11": dict(
        text="wire/Framing.tla: bad magic, wrong protocol id, short handshake + disconnect, frames above NNG_OPT_RECVMAXSZ, absurd lengths, bad "
             "ipc type byte, truncated header/body + disconnect, plain disconnect, on one of up to three connections over tcp, ipc and socket://: "
             "only the offending connection is dropped, nothing malformed or oversize is delivered, the listener and the other "
             "connections keep working.  Behaviours replayed by a plain-socket peer with RECVMAXSZ = 4 units and unlimited, clamps 1/3/none, "
             "under ASan/UBSan; a wedged library is a watchdog timeout; the allocator balance is taken after every behaviour.  "
             "wire/Udp.tla: SP over UDP seen from a listener (connection requests good / refresh 0 / wrong protocol, data within and above "
             "the limit and lying about its length, wrong version, short datagrams, unknown opcode, disconnect, from three peers): what is "
             "delivered and every datagram sent back (CACK with the limit, DISC with its reason) must be as specified.",
        note="Trusted: as C01. Grammar-based streams of the item vocabulary, not coverage-guided mutation; websocket/HTTP sessions are driven by C16; protocol-header garbage is covered at the protocol level by C04/C07/C08/C13 (short and "
             "over-long backtraces, bad hop words) through the harness transport.",
        technique="TLA+ model checking (TLC) + simulation replay of hostile streams against real transports",
        ref="DESIGN.md section 4, C11"),
    "C02": dict(
        text="TLA+ spec core/Aio.tla of one nng_aio (fields of struct nng_aio/nni_task; consumer, provider with honouring/declining "
             "cancel function, expire thread under a virtual clock, task thread, stop/free) model checked for exactly-once, "
             "result faithfulness, no early timeout, stop/free soundness; every transition of the graph is replayed on the real "
             "aio framework under the NNG_VERIF task gate (callbacks run when the behaviour says so) and virtual clock; and the "
             "H-AIO trace records (state after every critical section) of the repository's own tests are validated by TLC "
             "against trace/TraceAio.tla, with a corrupted-trace self-test on every run.  Transport operations (pipe sends / receives of "
             "the inproc transport, wire/Inproc.tla) matched, cancelled and closed on either end must each complete exactly once.",
        note="Trusted: TLC, harness/drv_aio.c + dee.c, the add-only NNG_VERIF hooks, ASan/UBSan. One aio at a time; interleavings "
             "inside a critical section are excluded by eq_mtx; internal aios are covered as far as the traced tests reach them.",
        technique="TLA+ model checking (TLC) + gated edge-cover replay + TLC trace validation of hook traces",
        ref="DESIGN.md section 4, C02"),
    "C04": dict(
        text="TLA+ specs proto/Req.tla (contexts, request ids by tag, send queue, per-pipe context lists, retry queue and tick timer "
             "under virtual time, retained-copy ownership ghost) and proto/Rep.tla (contexts, per-pipe held request and send queue, "
             "backtrace/pipe capture, hop limit, peer and pipe loss) in macro steps, model checked for: a reply is delivered only for the "
             "current outstanding request and once; stale/unknown/no-bit/short replies change nothing else; the reply goes to the "
             "pipe and with the backtrace of the context's most recent request; ESTATE rules; readiness.  TLC -simulate behaviours "
             "(depth 35) are replayed on the real sockets; the driver is the peer (it sees ids on the wire, injects every reply class).",
        note="Trusted: TLC, harness, hooks, ASan/UBSan. 2 contexts, 2-3 pipes; macro-step grain; raw mode (xreq/xrep) is covered by C13.",
        technique="TLA+ model checking (TLC) + simulation replay through a harness transport with virtual time",
        ref="DESIGN.md section 4, C04"),
    "C10": dict(
        text="TLA+ spec life/Life.tla: a socket with a listener, a dialer, a context, pipes and pending receives in macro steps under the "
             "virtual clock; invariants ClosedIsFinal (after socket close nothing is pending, every announced pipe is retired, no "
             "accept/connect/redial is left) and CtxClosedIsFinal; TLC -simulate behaviours replayed on a REP socket over the harness "
             "transport: socket/context/listener/dialer/pipe close in every reachable state, pending operations must complete with "
             "NNG_ECLOSED in the same step, and after socket close every derived handle (socket, context, listener, dialer, pipes) is "
             "probed and must be refused.  Close calls run on a helper thread with a watchdog: a close that does not return aborts the driver.  "
             "wire/Inproc.tla: pipe ends, listener, dialer and sockets of the real inproc transport closed with operations parked on both ends.",
        note="Trusted: TLC, harness, hooks, ASan/UBSan. One protocol (REP) and the harness transport stand for all protocols x transports "
             "(close, endpoints and pipe events live in src/core); close racing with operations issued by a second application thread "
             "is not enumerated; devices are not part of this spec.",
        technique="TLA+ model checking (TLC) + simulation replay through a harness transport",
        ref="DESIGN.md section 4, C10"),
    "C14": dict(
        text="TLA+ spec life/Life.tla: invariants EventOrder (per pipe ADD_PRE, optional ADD_POST, REM_POST, each at most once; REM_POST for "
             "every announced pipe; a pipe closed inside ADD_PRE is never announced), DialerSound (at most one pipe per dialer; a dialer "
             "without a pipe is dialling or waiting for its reconnect time), ListenerSound (a started listener always has an accept "
             "outstanding); behaviours replayed on the real socket: the driver records every notification with its per-pipe sequence "
             "number, closes pipes inside ADD_PRE, fails/completes dials, loses peers, and advances the virtual clock by the reconnect "
             "time after which the dialer must have dialled again.  wire/Inproc.tla: the same on the real inproc transport between two sockets "
             "(events of both ends of every connection, pipes closed in ADD_PRE by either socket, redial after the dialer's pipe is gone, the "
             "listener accepting again).  wire/Framing.tla behaviours (peers hanging up during or right after the handshake, garbage, oversize frames) "
             "replayed against real tcp / ipc / socket:// listeners: a later well-behaved connection must still be accepted and served.",
        note="Trusted: as C10. Reconnect min = max = 10 ms (the randomised delay is below it; back-off growth is not modelled); one dialer and "
             "one listener per socket; harness transport only.",
        technique="TLA+ model checking (TLC) + simulation replay through a harness transport with virtual time",
        ref="DESIGN.md section 4, C14"),
    "C20": dict(
        category="model_checking",
        text="(1) The data-structure specifications (Lmq, IdMap, Msg) give every allocating operation a second outcome: NNG_ENOMEM with the "
             "abstract state unchanged.  Walks of the TLC graphs are replayed while counting the allocations of every step; then every "
             "allocating step is replayed with its k-th allocation failing, followed by the same call again and the rest of the walk.  "
             "Accepted: ENOMEM with all observables unchanged and the retry and the remainder conforming, or the specified result.  "
             "(2) API programs over sockets and the real tcp, ipc and ws transports (behaviours of wire/Framing.tla and wire/Ws.tla: open, "
             "listen, peers connecting, handshakes, upgrades, frames, sends, disconnects, close) are run with every allocation of the "
             "program failing in turn, in whatever thread it happens; the verdict there is survival: no crash (ASan/UBSan/panic), no hang, "
             "every block returned after close.  (3) wire/Inproc.tla gives the inproc hand-off its failure outcome (the receiver's copy of a shared "
             "message cannot be allocated: the send has succeeded, that one message is lost, the receive keeps waiting and gets the next one); "
             "TLC -simulate behaviours with the 1st / 2nd allocation of a pipe send or receive failing are replayed and judged step by step.",
        note="Trusted: TLC, harness (drv_data, drv_wire, drv_ws, drv_tran, acct.c), ASan/UBSan. Conformance under failure only for lmq/id map/nng_msg; "
             "for sockets/transports what the program observes after the failure is not compared.  Harness-transport programs, URL "
             "parsing, statistics snapshots and the HTTP client are not injected.",
        technique="TLA+ specification with failure outcomes + fault-injection replay of TLC behaviours on the implementation",
        ref="DESIGN.md section 4, C20 and section 9"),
    "C12": dict(
        category="model_checking",
        text="proto/Req.tla: invariants NoOrphan (an unanswered request is queued for a pipe, or has a resend scheduled on a running "
             "timer, or - resending disabled - is remembered by the live pipe it was written to), ResendBounded, NoResendWhenDisabled, "
             "QueueDrained on the complete bounded graph; the liveness claim EventuallyAnswered checked by TLC under weak fairness of "
             "the last replier and of time (violated without the fairness of time: not vacuous); TLC -simulate behaviours with pipe "
             "loss, silent repliers and virtual-time ticks replayed on the real socket, every (re)transmission observed on the wire.",
        note="Trusted: TLC, harness, NNG_VERIF virtual clock, ASan/UBSan. Liveness is a model result within a budget of virtual time; "
             "redial is the harness connect action, not core/dialer.c.",
        technique="TLA+ model checking incl. liveness under fairness (TLC) + simulation replay with virtual time",
        ref="DESIGN.md section 4, C12"),
    "C05": dict(
        text="TLA+ specs proto/Sub.tla (contexts, topic sets, prefix match, per-context queues with drop-oldest/drop-new, requeue "
             "filter on unsubscribe, receive pollable) and proto/Pub.tla (clone per subscriber, per-pipe queue, drop-oldest, never "
             "blocks) in macro steps, model checked for delivery-iff-match, independence of contexts, order/no duplication, bounds "
             "and readiness; TLC -simulate behaviours (Sub) and the complete edge cover (Pub) replayed on the real sockets.",
        note="Trusted: TLC, harness, hooks, ASan/UBSan. Topics/bodies over a 2-letter alphabet with lengths 0..2 and one over-long topic; "
             "macro-step grain; xsub (raw) not modelled.",
        technique="TLA+ model checking (TLC) + simulation/edge-cover replay through a harness transport",
        ref="DESIGN.md section 4, C05"),
    "C06": dict(
        text="TLA+ specs proto/Push.tla and proto/Pull.tla: one action per critical section of push.c/pull.c, environment actions of the "
             "harness transport (connect, take, inject, peer loss) and explicit pending callbacks (task gate), model checked for "
             "exactly-one-place, no duplication, per-connection order, back-pressure (EAGAIN / blocked sender keeps its message), one "
             "outstanding receive per pull pipe, readiness mirrors; every transition is replayed on the real socket through the "
             "harness transport with callbacks released one at a time."
             "  A pipe closed by the application while a completed transport receive still waits for its callback is part of the PULL graph (the reaper waits for the callback, which must free the message).",
        note="Trusted: TLC, harness (drv_proto.c, vtran.c, dee.c), NNG_VERIF hooks, ASan/UBSan. 2 pipes, buffer 0..2, <= 4 messages; the "
             "transport is the harness transport (real transports are covered by C01).",
        technique="TLA+ model checking (TLC) + gated edge-cover replay through a harness transport",
        ref="DESIGN.md section 4, C06"),
    "C07": dict(
        text="TLA+ specs proto/Survey.tla (surveyor contexts: survey id by tag, absolute deadline under virtual time, per-context response "
             "queue and pending receives with their own deadlines, per-pipe survey queue; respondents as environment injecting current/"
             "old/unknown/no-bit/short responses) and proto/Rep.tla replayed on the RESPONDENT (respond.c is the same state machine as "
             "rep.c), model checked for: a delivered response answers the live survey of that context and is handed over no later "
             "than its deadline, pending receives never outlive the deadline and fail with ETIMEDOUT, ESTATE rules, response routing by "
             "backtrace, readiness; TLC -simulate behaviours replayed on the real sockets under the virtual clock."
             "  A second simulation focus (Survey_sendq.cfg: only sends, connections and the wire) fills the per-pipe survey queues: surveys beyond the queue are dropped for that respondent and nothing leaks.",
        note="Trusted: TLC, harness, NNG_VERIF virtual clock, ASan/UBSan. 2 contexts, 2-3 pipes, macro-step grain (a response racing the "
             "expire thread inside one step is not enumerated); queue capacities 8/128 are not reached within the bounds.",
        technique="TLA+ model checking (TLC) + simulation replay through a harness transport with virtual time",
        ref="DESIGN.md section 4, C07"),
    "C08": dict(
        text="TLA+ spec proto/Pair.tla (pair0 and pair1 cooked; the state of pair*_sock plus the harness transport) in macro steps "
             "(API call or peer event, then run to quiescence), model checked for one peer at a time, FIFO/lossless both ways while "
             "the connection is up, back-pressure, hop+1 on the wire, hop>ttl dropped without disconnect, malformed header "
             "disconnects and is never delivered, buffer bounds and resize, readiness mirrors; every transition replayed on the "
             "real sockets through the harness transport.",
        note="Trusted: TLC, harness, hooks, ASan/UBSan. Macro-step grain: callback interleavings inside a step are not enumerated for "
             "PAIR (they are for PUSH/PULL and the aio framework). Raw and polyamorous modes are not modelled.",
        technique="TLA+ model checking (TLC) + edge-cover replay (run-to-quiescence steps) through a harness transport",
        ref="DESIGN.md section 4, C08"),
    "C09": dict(
        text="TLA+ spec proto/Bus.tla (cooked and raw): per-peer busy flag and send queue, receive queue and waiters, in macro "
             "steps; model checked for at-most-once offer per peer in order, no echo of received messages, skipping the origin pipe "
             "named by a raw header, whole-message drops on full queues, send always succeeding, readiness; every transition "
             "replayed on the real socket through the harness transport (driver = the mesh).",
        note="Trusted: TLC, harness, hooks, ASan/UBSan. 2 peers, queue depths 1..2 after resizing; macro-step grain.",
        technique="TLA+ model checking (TLC) + edge-cover replay (run-to-quiescence steps) through a harness transport",
        ref="DESIGN.md section 4, C09"),
    "C13": dict(
        text="TLA+ specs dev/Backtrace.tla (pure per-hop operators: push the receiving pipe id, move words up to the id and at most ttl of "
             "them, pop the first word to choose the outgoing pipe; header capacity 16 words), dev/Device.tla (one nng_device between raw "
             "sockets, REQ/REP and SURVEY flavours, raw peers on both sides sending every backtrace shape) and dev/DeviceChain.tla "
             "(chains of 0..4 devices with 5 ttl values per hop and of 13..17 devices at ttl 14/15, rings of 1..3 devices: a reply returns "
             "to exactly the original requester with the unchanged payload iff every hop is within its ttl, nothing disconnects a "
             "well-formed message, rings die out within 15 hops, the header never exceeds its capacity; termination under fairness). "
             "TLC -simulate behaviours of Device.tla are replayed on a real nng_device between xrep/xreq and xrespondent/xsurveyor."
             "  dev/DevLife.tla: the device operation itself on a one-way (raw PULL -> raw PUSH) and a two-way (raw PAIR0) device: start, forward with the body unchanged, a path blocked in its send, cancel in every state (the operation completes once, the sockets are closed, what was in flight is freed); complete edge cover replayed.",
        note="Trusted: TLC, harness, hooks, ASan/UBSan. Chains and rings are composed in the model from the per-hop operators the single "
             "real device is bound to; the cooked ends (rep.c/respond.c) are bound by C04/C07; pair1 and bus devices are covered by C08/C09 "
             "hop/origin rules, not by a device replay.",
        technique="TLA+ model checking (TLC) of per-hop operators, chains and rings + simulation replay on a real device",
        ref="DESIGN.md section 4, C13"),
    "C15": dict(
        text="Every protocol specification (Push, Pull, Pair, Sub, Pub, Bus, Req, Rep, Survey and Rep on the respondent) carries the "
             "readiness rule of its socket as invariants PollW/PollR (descriptor raised iff the corresponding non-blocking call would "
             "succeed) and the result of every NNG_FLAG_NONBLOCK call; the driver reads both real descriptors with poll(2) at every "
             "quiescent point and issues the non-blocking calls (a call that blocks is reported as such).  This check replays all "
             "protocol behaviours and keeps exactly the divergences in pollw/pollr or in a non-blocking result.",
        note="Trusted: as for the member checks. Raw sockets using the generic msgq pollables are covered by C18's Msgq spec only. Two open "
             "known findings (BUS and RESPONDENT refuse every non-blocking send) are pinned by the repository's own tests.",
        technique="TLA+ model checking (TLC) + replay of all protocol behaviours with poll(2) observation",
        ref="DESIGN.md section 4, C15"),
    "C03": dict(
        text="All replays (data structures and protocols) run under ASan+UBSan with the accounting allocator: after each walk the socket "
             "is closed and every block must have been returned with the size it was allocated with; completions report whether a "
             "failed send kept its message and a successful one gave it up; Req.tla carries the ownership ghost of the retained request "
             "copy (OwnershipOK) incl. option changes between the halves of an exchange; Msgq/Lmq/Pair/Sub resize with queued messages. "
             "This check replays all of them and keeps exactly the memory-safety, ownership and allocator-balance findings.",
        note="Trusted: ASan/UBSan, harness/acct.c, TLC, harness. Real transports, dialers/listeners and nng_fini per walk are outside these "
             "replays (harness transport; one nng_fini per driver process).",
        technique="TLA+ model checking (TLC) + replay of all behaviours under sanitizers and an accounting allocator",
        ref="DESIGN.md section 4, C03"),
    "C16": dict(
        text="TLA+ spec wire/Ws.tla: the HTTP/1.1 upgrade as the ws listener handles it (14 request shapes: status and whether the connection "
             "persists) and the WebSocket frame receiver and sender in SP's message mode (reassembly with interleaved control frames; "
             "mask, reserved bits, opcodes, minimal length encodings, control-frame size, continuation rules, text frames, "
             "NNG_OPT_WS_RECVMAXFRAME and NNG_OPT_RECVMAXSZ with their close codes, in the order the code checks them; fragmentation by "
             "NNG_OPT_WS_SENDMAXFRAME).  TLC -simulate behaviours are replayed against a real ws:// listener by a plain TCP peer which also "
             "checks everything the server emits (status line, header block, Sec-WebSocket-Accept, frames unmasked / minimally encoded / no "
             "reserved bits, pong echoes the ping, fragments in order) under I/O clamps of 1 and 3 bytes per system call and unclamped, "
             "with payload scales 1 and 1000."
             "  Client role: the upgrade request is padded (NNG_OPT_WS_HEADER) so that the emitted header block is exactly the size of the connection's fixed emit buffer minus one, that size, and plus one; the peer checks length, line ends and the absence of NUL bytes.",
        note="Trusted: TLC, harness/drv_ws.c, the clamp hook, ASan/UBSan, accounting allocator. Both roles of the ws transport (listener with "
             "the driver as client; dialer with the driver as server: emitted request, 13 shapes of upgrade response, masking of emitted "
             "frames, refusal of masked server frames).  The general HTTP client API, chunked transfer decoding and file handlers are "
             "outside the specification.",
        technique="TLA+ model checking (TLC) + simulation replay against a real ws:// listener under a short-I/O clamp",
        ref="DESIGN.md section 4, C16"),
    "C17": dict(
        text="TLA+ spec data/Msg.tla: nng_msg as two run-length encoded byte strings plus a transcription of the nni_chunk "
             "geometry and buffer content; TLC checks refinement, in-bounds copies, capacity >= length, header <= 64 for all "
             "op sequences of depth 2-3 over boundary sizes; every edge of the depth-2 graph and thousands of TLC -simulate "
             "behaviours of depth 12 are replayed on the public nng_msg_* API comparing rv, lengths, every byte and capacity.",
        note="Trusted: TLC, harness/drv_data.c, ASan/UBSan, accounting allocator. Sizes come from boundary classes, not all sizes.",
        technique="TLA+ model checking (TLC) + edge-cover and simulation replay on the implementation",
        ref="DESIGN.md section 4, C17"),
    "C18": dict(
        text="TLA+ specs of nni_lmq, nni_msgq and nni_id_map with an abstract layer (bounded FIFO / finite map / id cursor) and an "
             "implementation-shaped layer (ring indices, probe chains, skip counters) are model checked exhaustively for small "
             "capacities (refinement, index range, resize keeps survivors in order, alloc uniqueness/range/cursor); every transition "
             "of the TLC state graph is then replayed on the real functions and each observed step must be a step of the specification."
             "  data/Ids.tla: identifiers of sockets, contexts, dialers and listeners over complete nng_fini / nng_init cycles (never issued twice, unique among live objects, a closed handle is refused whatever was opened meanwhile); a defect configuration (cursor reset by nng_fini) must violate the invariant on every run; the allocator balance of these walks is taken after nng_fini.",
        note="Trusted: TLC, harness/drv_data.c, ASan/UBSan, the accounting allocator. Bounded: capacities <= 2..5, <= 7 messages, key "
             "sets of 3..6 keys; ids of sockets/pipes/requests are covered through the id map that issues them.",
        technique="TLA+ model checking (TLC) + edge-cover replay of the state graph on the implementation",
        ref="DESIGN.md section 4, C18"),
    "C19": dict(
        text="TLA+ functional spec data/Url.tla over token sequences (scheme, separator, authority, path atoms incl. every RFC 3629 "
             "boundary class, query, fragment): TLC enumerates every input of the bounded grammar, checks idempotence of the "
             "canonical form on the spec, and exports the expected verdict and components; each input is run through nng_url_parse, "
             "all accessors, sprintf->parse and clone, and compared.",
        note="Trusted: TLC, harness/drv_url.c, ASan/UBSan. Inputs are the bounded token grammar, not all byte strings.",
        technique="TLA+ specification enumerated by TLC + per-input conformance of the implementation",
        ref="DESIGN.md section 4, C19"),
}

NOT_YET = {}


def main():
    props = [json.loads(l)["id"] for l in open(os.path.join(ROOT, "properties.jsonl"))]
    checks = []
    for pid in props:
        if pid not in CHECKS:
            continue
        c = CHECKS[pid]
        checks.append({
            "property_id": pid,
            "quick_cmd": "tools/vcheck %s --tier quick" % pid,
            "thorough_cmd": "tools/vcheck %s --tier thorough" % pid,
            "evidence_file": "evidence/%s.json" % pid,
            "replay_cmd_template": "tools/vcheck %s --replay {path}" % pid,
            "engine": "tlc+conformance",
            "level_claimed": {"category": c.get("category", "model_checking"), "text": c["text"], "design_ref": c["ref"]},
            "level_note": c["note"],
            "technique": c["technique"],
        })
    na = [{"property_id": p, "reason": NOT_YET.get(p, "not claimed yet: its specification/driver is still being built (see DESIGN.md section 6); no check is registered")}
          for p in props if p not in CHECKS]
    try:
        hooks = subprocess.check_output(["git", "-C", "/repo", "log", "--format=%h %s", "--grep=^verif-hook:"]).decode().split("\n")
        hooks = [h.split()[0] for h in hooks if h.strip()]
    except Exception:
        hooks = []
    m = {
        "version": 1,
        "setup_cmd": "sh tools/setup.sh",
        "hooks": {
            "guard": "NNG_VERIF",
            "enable": "checks build /repo's working tree into /verif/.work/build-<variant> with -DCMAKE_C_FLAGS='-DNNG_VERIF "
                      "-fsanitize=address,undefined ...' (tools/vlib.py build_lib)",
            "baseline_off_cmd": "sh tools/baseline_off.sh",
            "source_commits": hooks,
            "add_only": True,
        },
        "engines": [
            {"name": "tlc", "path": "/opt/veriftools/tla/tla2tools.jar", "serves_properties": sorted(CHECKS),
             "kind_free_text": "TLC explicit-state model checker on the TLA+ specs under spec/"},
            {"name": "conformance", "path": "tools/ + harness/", "serves_properties": sorted(CHECKS),
             "kind_free_text": "behaviours exported from TLC (edge cover, simulation, enumerated inputs) replayed on the real code "
                               "(ASan+UBSan, accounting allocator) and judged against the TLC graph; recorded traces validated by TLC"},
        ],
        "checks": checks,
        "not_applicable": na,
        "notes": "One entry point: tools/vcheck <ID> --tier quick|thorough. Known findings: known_findings.txt.",
    }
    with open(os.path.join(ROOT, "MANIFEST.json"), "w") as f:
        json.dump(m, f, indent=1)
    print("MANIFEST.json: %d checks, %d not claimed" % (len(checks), len(na)))


main()
