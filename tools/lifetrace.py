"""Normalises NNG_VERIF life-cycle trace points (H-LIFE: o in sock, ctx, dialer, listener, pipe) for
spec/trace/TraceLife.tla.

The recorded trace is split by process (the sequence number q restarts) and then by socket: every end point,
pipe and context belongs to exactly one socket, named in its creation record.  Within a socket the objects are
renamed to small numbers (the smallest free number of their kind; a number is free again once the object was
destroyed), so that the TLA+ state stays small however many pipes a test churns through.  Nothing else is
interpreted here: a record about a pointer that does not name a live object of that kind is passed on with
object number 0, which no action of the specification accepts.

Output records:  [e, a, b, n1, n2, n3]   (e: action name; a, b: object numbers; n*: integers)
A socket's records end with "end" (the process is over, or the socket and all its objects were destroyed)."""
import json

KINDS = ("sock", "ctx", "dialer", "listener", "pipe")
RES = {"ok": 0, "rej_cb": 1, "rej_proto": 2}


class Part:
    """one socket and its objects"""

    def __init__(self, key):
        self.key = key
        self.recs = []
        self.free = {"e": [], "p": [], "c": []}
        self.next = {"e": 1, "p": 1, "c": 1}
        self.maxn = {"e": 0, "p": 0, "c": 0}
        self.live = 0          # objects (incl. the socket) not yet destroyed
        self.closing = False

    def alloc(self, k):
        if self.free[k]:
            self.free[k].sort()
            n = self.free[k].pop(0)
        else:
            n = self.next[k]
            self.next[k] += 1
        self.maxn[k] = max(self.maxn[k], n)
        self.live += 1
        return n

    def release(self, k, n):
        if n > 0:
            self.free[k].append(n)
            self.live -= 1

    def emit(self, e, a=0, b=0, n1=0, n2=0, n3=0):
        self.recs.append(dict(e=e, a=a, b=b, n1=int(n1), n2=int(n2), n3=int(n3)))


def normalise(lines):
    """lines: raw ndjson records in recording order.  Returns (list of Part (finished, in order of completion), stats)."""
    parts = []
    stats = dict(records=0, dropped=0, sockets=0, processes=0, pipes=0, unknown=0)
    state = {}

    def new_process():
        for pt in state.get("open_parts", []):
            pt.emit("end", n1=0)      # the process ended (or the trace was cut) with the socket still there
            parts.append(pt)
        state.clear()
        state.update(obj={}, sockid={}, ctxid={}, open_parts=[], lastq=0)
        stats["processes"] += 1

    new_process()
    stats["processes"] = 0
    for ln in lines:
        ln = ln.strip()
        if not ln or ln[0] != "{":
            continue
        try:
            r = json.loads(ln)
        except ValueError:
            continue
        o = r.get("o")
        if o not in KINDS:
            continue
        q = r.get("q", 0)
        if q <= state["lastq"]:
            new_process()
        state["lastq"] = q
        stats["records"] += 1
        e, p = r.get("e"), r.get("p")
        obj = state["obj"]          # ptr -> (kind, part, number)
        ent = obj.get(p)

        def lookup(kind):
            """(part, number) of the live object of that kind at p, or (None, 0)"""
            if ent is not None and ent[0] == kind:
                return ent[1], ent[2]
            return None, 0

        if o == "sock":
            if e == "open":
                pt = Part((stats["processes"], q))
                pt.live = 1
                obj[p] = ("sock", pt, 0)
                state["sockid"][r.get("id")] = pt
                state["open_parts"].append(pt)
                stats["sockets"] += 1
                pt.emit("s_open")
                continue
            pt, _ = lookup("sock")
            if e == "find":
                if pt is None:
                    pt = state["sockid"].get(r.get("id"))
                if pt is None:
                    stats["dropped"] += 1     # an id that never named a socket of this process
                    continue
                pt.emit("s_find", n1=r.get("rv", 0))
                continue
            if pt is None:
                stats["unknown"] += 1
                continue
            if e == "ep_add":
                n = pt.alloc("e")
                obj[r["ep"]] = ("dialer" if r["k"] == "d" else "listener", pt, n)
                pt.emit("s_ep_add", a=n, n1=1 if r["k"] == "d" else 0)
            elif e == "closing":
                pt.closing = True
                pt.emit("s_closing")
            elif e == "shut":
                pt.emit("s_shut")
            elif e == "closed":
                pt.emit("s_closed")
            elif e == "destroy":
                pt.emit("s_destroy")
                del obj[p]
                pt.live -= 1
            else:
                pt.emit("unknown_" + str(e))
        elif o == "ctx":
            if e == "open":
                spt = obj.get(r.get("sock"))
                if spt is None or spt[0] != "sock":
                    stats["unknown"] += 1
                    continue
                pt = spt[1]
                n = pt.alloc("c")
                obj[p] = ("ctx", pt, n)
                state["ctxid"][r.get("id")] = (pt, n, p)
                pt.emit("c_open", a=n)
                continue
            pt, n = lookup("ctx")
            if e == "find":
                if pt is None:
                    c = state["ctxid"].get(r.get("id"))
                    if c is None:
                        stats["dropped"] += 1
                        continue
                    pt, n = c[0], 0       # the context object is gone: the failure is always allowed
                pt.emit("c_find_fail", a=n)
                continue
            if pt is None:
                stats["unknown"] += 1
                continue
            if e == "close":
                pt.emit("c_close", a=n, n1=1 if r.get("by") == "sock" else 0)
            elif e == "destroy":
                pt.emit("c_destroy", a=n)
                del obj[p]
                pt.release("c", n)
            else:
                pt.emit("unknown_" + str(e))
        elif o in ("dialer", "listener"):
            pt, n = lookup(o)
            if e == "find":
                stats["dropped"] += 1      # failed lookup by id: always allowed for a closed end point
                continue
            if pt is None:
                if e == "destroy":
                    stats["dropped"] += 1  # an end point whose creation failed before it was added to a socket
                else:
                    stats["unknown"] += 1
                continue
            if e == "create":
                pt.emit("e_create", a=n)
            elif e == "connect":
                pt.emit("d_connect", a=n)
            elif e == "connect_cb":
                pt.emit("d_connect_cb", a=n, n1=r.get("rv", 0), n2=r.get("user", 0))
            elif e == "timer":
                pt.emit("d_timer", a=n, n1=r["bo"], n2=r["ini"], n3=r["max"])
            elif e == "pipe_set":
                pe = obj.get(r.get("pipe"))
                pt.emit("d_pipe_set", a=n, b=pe[2] if pe is not None and pe[0] == "pipe" and pe[1] is pt else 0)
            elif e == "accept":
                pt.emit("l_accept", a=n)
            elif e == "accept_cb":
                pt.emit("l_accept_cb", a=n, n1=r.get("rv", 0))
            elif e == "closed":
                pt.emit("e_closed", a=n)
            elif e == "reap":
                pt.emit("e_reap", a=n)
            elif e == "destroy":
                pt.emit("e_destroy", a=n)
                del obj[p]
                pt.release("e", n)
            else:
                pt.emit("unknown_" + str(e))
        elif o == "pipe":
            if e == "add":
                spt = obj.get(r.get("sock"))
                ept = obj.get(r.get("ep"))
                if spt is None or spt[0] != "sock":
                    stats["unknown"] += 1
                    continue
                pt = spt[1]
                n = pt.alloc("p")
                obj[p] = ("pipe", pt, n)
                stats["pipes"] += 1
                pt.emit("p_add", a=n, b=ept[2] if ept is not None and ept[0] in ("dialer", "listener") and ept[1] is pt else 0)
                continue
            pt, n = lookup("pipe")
            if e == "find":
                if pt is not None:
                    pt.emit("p_find_closed", a=n)
                else:
                    stats["dropped"] += 1
                continue
            if pt is None:
                # a step on something that is not a live pipe: keep it, attributed to the socket of the last pipe seen
                stats["unknown"] += 1
                if state.get("lastpart") is not None:
                    state["lastpart"].emit("p_" + str(e), a=0)
                continue
            state["lastpart"] = pt
            if e == "close_try":
                pt.emit("p_close_try", a=n)
            elif e == "close":
                pt.emit("p_close", a=n)
            elif e == "ev":
                pt.emit("p_ev", a=n, n1=r["ev"], n2=r.get("cb", 0))
            elif e == "ev_off":
                pt.emit("p_ev_off", a=n, n1=r["ev"])
            elif e == "start":
                pt.emit("p_start", a=n, n1=RES.get(r.get("res"), 9))
            elif e == "reap":
                pt.emit("p_reap", a=n)
            elif e == "unreg":
                pt.emit("p_unreg", a=n)
            elif e == "stopped":
                pt.emit("p_stopped", a=n)
            elif e == "remove":
                pt.emit("p_remove", a=n, n1=r.get("redial", 0))
            elif e == "destroy":
                pt.emit("p_destroy", a=n)
                del obj[p]
                pt.release("p", n)
            else:
                pt.emit("unknown_" + str(e))
        # a socket whose objects are all gone is finished
        for pt in list(state["open_parts"]):
            if pt.live <= 0:
                pt.emit("end", n1=1)
                parts.append(pt)
                state["open_parts"].remove(pt)
    new_process()
    return parts, stats


def write_norm(parts, path):
    """Concatenates the sockets' records; each socket starts with a "new" record carrying the object numbers in use."""
    n = 0
    with open(path, "w") as f:
        for pt in parts:
            f.write(json.dumps(dict(e="new", a=0, b=0, n1=max(1, pt.maxn["p"]), n2=max(1, pt.maxn["e"]), n3=max(1, pt.maxn["c"]))) + "\n")
            n += 1
            for r in pt.recs:
                f.write(json.dumps(r) + "\n")
                n += 1
    return n


if __name__ == "__main__":
    import sys
    parts, st = normalise(open(sys.argv[1], errors="replace"))
    n = write_norm(parts, sys.argv[2])
    print(st, "sockets:", len(parts), "records:", n, "max objects:",
          max([p.maxn["p"] for p in parts] or [0]), max([p.maxn["e"] for p in parts] or [0]), max([p.maxn["c"] for p in parts] or [0]))
