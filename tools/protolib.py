"""Shared pieces of the protocol checks (C03-C09, C12, C13, C15): the command vocabulary of
harness/drv_proto.c and signatures for divergences."""
import json
from vlib import *
from replay import replay_walks

DRV = ["drv_proto.c", "vtran.c", "dee.c", "acct.c"]


def proto_cmd(a, obs=None):
    k = a["a"]
    if k == "send":
        hdr = "".join(" h%d" % w for w in a.get("hdr", [])) + "".join(" hp%d" % w for w in a.get("hdrp", []))
        return "send %d %s %d %d%s" % (a.get("op", 0), a["mode"], a["m"], a.get("ctx", 0), hdr)
    if k == "recv":
        return "recv %d %s %d" % (a.get("op", 0), a["mode"], a.get("ctx", 0))
    if k == "cancel":
        return "cancel %d" % a["op"]
    if k == "run":
        return "run %s %d" % (a["task"], a.get("id", 0))
    if k == "connect":
        if "side" in a:          # device mode: left (requesters) or right (repliers) socket
            return "connect %d %s" % (a["p"], a["side"])
        return "connect %d%s" % (a["p"], (" %d" % a["peer"]) if "peer" in a else "")
    if k == "take":
        return "take %d" % a["p"]
    if k == "inject":
        hopval = {"h1": 1, "h8": 8, "h9": 9, "h255": 255, "h256": 256, "h300": 300, "hTop": 0x80000000, "hMax": 0xffffffff}
        words = "".join(" w%d" % hopval.get(w, w) for w in a.get("hdr", []))
        if "words" in a:         # device mode: the complete wire image as [kind, n] words
            ws = "".join(" w%s%d" % ("" if w[0] == "h" else w[0], w[1]) for w in a["words"])
            return "inject %d -%s" % (a["p"], ws)
        if "hdrw" in a:
            words = "".join(" w%s" % (w[1:] if w[0] == "h" else w) for w in a["hdrw"])
        if "rkind" in a:
            words = {"cur": " wr%d" % a["rtag"], "old": " wr%d" % a["rtag"], "unsent": " wr%d" % a["rtag"], "nobit": " wn%d" % a["rtag"], "unknown": " wu", "short": ""}[a["rkind"]]
        return "inject %d %s%s" % (a["p"], "-" if a.get("short") else a["m"], words)
    if k == "dial" and "mode" in a:
        return "dial %s %d" % (a["mode"], a["op"])
    if k in ("dial", "dfail", "lclose", "dclose", "close", "probe", "devstart", "devcancel"):
        return k
    if k == "reject":
        return "reject %d" % (1 if a["on"] else 0)
    if k in ("peer_close", "pipe_close"):
        return "%s %d" % (k, a["p"])
    if k == "setopt":
        return "setopt %s %s %d" % (a["name"], a.get("type", "int"), a["val"])
    if k == "tick":
        return "tick %d" % a["d"]
    if k in ("ctx_open", "ctx_close"):
        return "%s %d" % (k, a["ctx"])
    if k in ("sub", "unsub"):
        t = a["topic"]
        hx = "6161616161" if t == ["LONG"] else "".join("%02x" % ord(c) for c in t)
        return "%s %d %s" % (k, a.get("ctx", 0), hx or "-")
    if k == "ctxopt":
        if a.get("inf"):
            a = dict(a, val=-1)
        if a["ctx"] == 0:
            return "setopt %s %s %d" % (a["name"], a.get("type", "int"), a["val"])
        return "ctxopt %d %s %s %d" % (a["ctx"], a["name"], a.get("type", "int"), a["val"])
    raise Broken("no command for action %s" % a)


def sig_proto(proto):
    def f(acts, idx, step, allowed):
        a = acts[idx] if idx < len(acts) else {"a": "end"}
        name = a["a"] + ("." + a["task"] if a.get("task") else "") + ("." + a["mode"] if a.get("mode") else "")
        what = "?"
        if step is not None and allowed:
            exp = allowed[0]
            if canon(step[1]) != exp["out"]:
                what = "out"
                if isinstance(step[1], dict) and isinstance(exp["out"], dict):
                    ks = [k for k in sorted(set(step[1]) | set(exp["out"])) if canon(step[1]).get(k) != exp["out"].get(k)]
                    what = "out." + ",".join(ks)
                    if ks == ["rv"]:
                        what += ":%s-for-%s" % (step[1].get("rv"), exp["out"].get("rv"))
            else:
                o, e = canon(step[2] or {}), exp["obs"]
                what = "obs." + ",".join(k for k in sorted(set(o) | set(e)) if o.get(k) != e.get(k))
        prev = acts[idx - 1] if idx > 0 else {"a": "init"}
        pname = prev["a"] + ("." + prev["task"] if prev.get("task") else "")
        return "%s.%s-after-%s:%s" % (proto, name, pname, what)
    return f


def replay_proto(v, proto, raw, spec, cfg, rng, maxlen=30, nrandom=300, limit=None, timeout=1500, chunk=150, auto=False,
                 sig_override=None, setup=(), by_class=False):
    exe = build_driver("drv_proto", DRV)
    sc = getattr(v, "scale", 1.0)
    if sc != 1.0:     # aggregate checks (C03, C15) replay a fraction of every protocol's walks
        limit = max(100, int((limit or 6000) * sc))
        nrandom = max(20, int(nrandom * sc))
    g = tlc_edges(spec, cfg, timeout=timeout)
    v.cov["states"] += g["distinct"]
    v.cov["transitions"] += len(g["edges"])
    if by_class:
        # large macro-step graphs: every class of transition (the specification's AbsV forgets message and operation numbers)
        walks, total, covered = cover_walks_fast(g, rng, maxlen=maxlen, limit=limit, by_class=True)
    else:
        walks, total, covered = cover_walks(g, rng, maxlen=maxlen, limit=limit)
    extra = random_walks(g, rng, nrandom, maxlen * 2)
    n = replay_walks(v, g, walks + extra, exe, "x", lambda a, o=None: proto_cmd(a), lambda ia: "", spec + ":" + cfg,
                     sig_of=sig_override or sig_proto(proto), check_fin=False, chunk=chunk,
                     prelude=("auto 1\n" if auto else "") + "proto %s %s" % (proto, raw if isinstance(raw, str) else (1 if raw else 0)) + "".join("\n!" + x for x in setup))
    log("%s: %d/%d edges covered by %d walks (+%d random), %d validated" % (spec, covered, total, len(walks), len(extra), n))
    v.cov.setdefault("edge_cover", {})[spec + ":" + cfg + ("@" + proto if proto == "respondent" else "")] = dict(edges=total, covered=covered, walks=len(walks), by_class=by_class,
                                                               random_walks=len(extra), validated=n, states=g["nstates"])
    return n, total, covered


def replay_sim(v, proto, raw, spec, cfg, nsim, depth, auto=False, timeout=1500, chunk=150, setup=(), sig_override=None, drv_env=None):
    """Random behaviours generated by TLC -simulate (for graphs too large to export completely)."""
    exe = build_driver("drv_proto", DRV)
    nsim = max(100, int(nsim * getattr(v, "scale", 1.0)))
    g = tlc_edges(spec, cfg, timeout=timeout, simulate=nsim, depth=depth, seed=v.seed, cache=False)
    v.cov["transitions"] += len(g["edges"])
    v.cov["states"] += g["nstates"]
    walks = [w for w in g["walks"] if w]
    n = replay_walks(v, g, walks, exe, "x", lambda a, o=None: proto_cmd(a), lambda ia: "", spec + ":" + cfg,
                     sig_of=sig_override or sig_proto(proto), check_fin=False, chunk=chunk, linear=True, drv_env=drv_env,
                     prelude=("auto 1\n" if auto else "") + "proto %s %s" % (proto, raw if isinstance(raw, str) else (1 if raw else 0)) + "".join("\n!" + x for x in setup))
    log("%s: %d simulated behaviours (depth %d), %d validated" % (spec, len(walks), depth, n))
    v.cov.setdefault("edge_cover", {})[spec + ":" + cfg + ("@" + raw if isinstance(raw, str) else "") + ("@" + proto if proto == "respondent" else "")] = dict(edges=len(g["edges"]), covered=len(g["edges"]), walks=len(walks),
                                                               random_walks=0, validated=n, states=g["nstates"])
    return n
