#!/bin/sh
# developer helper: run a check, print the verdict lines and the exit code
out=$(mktemp)
timeout ${T:-1500} tools/vcheck "$@" > $out 2>&1; rc=$?
grep -i "^\[vcheck\]\|^VIOLATION\|^KNOWN\|^SPEC-DRIFT\|BROKEN\|^Error\|Traceback\|violated\|^(\.\.\." $out | cut -c1-${W:-500} | tail -${N:-15}
echo "rc=$rc"
rm -f $out
