"""spec -> code replay for specs whose driver speaks the line protocol of harness/drv_data.c
(W/E framing, 'R walk step json' results).  The behaviours are walks of the TLC-exported graph;
the observed run is accepted iff it is a path of that graph (GraphJudge)."""
import json, os, subprocess, time
from vlib import *
from vlib import canon, matches


def run_driver(exe, cmdfile, timeout, env=None):
    """Runs the driver; returns (rc, stdout_lines, stderr_text)."""
    e = dict(os.environ)
    e.update(asan_env())
    if env:
        e.update(env)
    try:
        p = subprocess.run([exe, cmdfile], env=e, timeout=timeout, stdout=subprocess.PIPE, stderr=subprocess.PIPE,
                           preexec_fn=_nocore)
        return p.returncode, p.stdout.decode("utf-8", "replace").splitlines(), p.stderr.decode("utf-8", "replace")
    except subprocess.TimeoutExpired as ex:
        return 124, (ex.stdout or b"").decode("utf-8", "replace").splitlines(), (ex.stderr or b"").decode("utf-8", "replace")


def _nocore():
    import resource
    resource.setrlimit(resource.RLIMIT_CORE, (0, 0))


def observer_sig(stderr):
    """Short signature of a sanitizer / panic report."""
    import re
    m = re.search(r"ERROR: AddressSanitizer: (\S+)", stderr)
    if m:
        fr = re.findall(r"#\d+ 0x[0-9a-f]+ in (\w+)", stderr)
        fr = [f for f in fr if not f.startswith("__") and f not in ("memcpy", "memmove", "memset", "malloc", "free", "calloc",
                                                                      "nni_plat_abort", "nni_panic", "abort", "raise")]
        if m.group(1) == "ABRT":
            return "panic:%s" % (fr[0] if fr else "?")
        return "asan:%s:%s" % (m.group(1), fr[0] if fr else "?")
    m = re.search(r"runtime error: (.*)", stderr)
    if m:
        fr = re.findall(r"#\d+ 0x[0-9a-f]+ in (\w+)", stderr)
        return "ubsan:%s:%s" % (re.sub(r"[^a-z]+", "-", m.group(1).lower())[:40], fr[0] if fr else "?")
    m = re.search(r"Panic: (.*)", stderr) or re.search(r"panic: (.*)", stderr)
    if m:
        return "panic:" + re.sub(r"[^A-Za-z0-9]+", "-", m.group(1))[:50]
    if "ACCT:" in stderr:
        return "acct:" + re.sub(r"[^A-Za-z ]+", "", stderr.split("ACCT:")[1].splitlines()[0]).strip().replace(" ", "-")[:40]
    return None


def _run_chunk(args):
    exe, cmdfile, timeout, drv_env = args
    return run_driver(exe, cmdfile, timeout, drv_env)


def replay_walks(v, g, walks, exe, obj, to_cmd, init_cmd, tag, sig_of=None, chunk=250, timeout=300,
                 check_fin=True, drv_env=None, jobs=None, prelude=None, linear=False):
    """Replays walks (lists of edge indices) of graph g through the driver, chunks in parallel.
    to_cmd(act_in) -> 'action args' ; init_cmd(init_act) -> 'init args'.
    Records violations on v.  Returns number of walks validated."""
    from concurrent.futures import ThreadPoolExecutor
    edges = g["edges"]
    judge = GraphJudge(g)
    rdir = os.path.join(WORK, "replay-" + v.prop)
    os.makedirs(rdir, exist_ok=True)
    ftag = tag.replace("/", "_").replace(":", "_")
    validated = 0
    nsteps = 0
    crashes = 0
    crash_sigs = {}
    # work list of (first walk index, list of walk indices)
    todo = [list(range(i, min(i + chunk, len(walks)))) for i in range(0, len(walks), chunk)]
    serial = 0
    while todo:
        batchset, todo = todo, []
        jobsargs = []
        for idxs in batchset:
            serial += 1
            cmdfile = os.path.join(rdir, "%s-%d.cmd" % (ftag, serial))
            with open(cmdfile, "w") as f:
                for wid in idxs:
                    w = walks[wid]
                    s0 = edges[w[0]][0]
                    f.write("W %d\n" % wid)
                    if prelude is not None:
                        # drivers with a free-form command language (drv_proto): no object prefix
                        f.write(prelude + "\n")
                        for ei in w:
                            f.write(to_cmd(act_in(edges[ei][2])) + "\n")
                    else:
                        f.write("%s %s\n" % (obj, init_cmd(g["init_acts"][str(s0)])))
                        for ei in w:
                            f.write("%s %s\n" % (obj, to_cmd(act_in(edges[ei][2]))))
                    f.write("E\n")
            jobsargs.append((exe, cmdfile, timeout, drv_env))
        with ThreadPoolExecutor(max_workers=jobs or min(NCPU, 16)) as ex:
            results = list(ex.map(_run_chunk, jobsargs))
        for idxs, (exe_, cmdfile, _, _), (rc, lines, err) in zip(batchset, jobsargs, results):
            res = {}
            ends = {}
            begun = -1
            for ln in lines:
                if ln.startswith("R "):
                    _, wid, st, js = ln.split(" ", 3)
                    res.setdefault(int(wid), []).append(json.loads(js))
                elif ln.startswith("X "):
                    _, wid, js = ln.split(" ", 2)
                    ends[int(wid)] = json.loads(js)
                elif ln.startswith("B "):
                    begun = int(ln.split()[1])
            completed = rc == 0 and lines and lines[-1] == "Z"
            for wid in idxs:
                w = walks[wid]
                if wid not in ends:
                    break
                s0 = edges[w[0]][0]
                steps = []
                for k, ei in enumerate(w):
                    r = res.get(wid, [])
                    if k >= len(r):
                        break
                    steps.append((act_in(edges[ei][2]), r[k].get("out"), r[k].get("obs")))
                if linear:
                    # behaviours from TLC -simulate: each step is judged against the walk's own edge
                    ok, idx, allowed = True, len(steps), None
                    for k2, (ain, oout, oobs) in enumerate(steps):
                        e = edges[w[k2]]
                        if not (matches(canon(oout), e[2].get("out")) and matches(canon(oobs), e[3])):
                            ok, idx, allowed = False, k2, [dict(out=e[2].get("out"), obs=e[3])]
                            break
                else:
                    ok, idx, allowed = judge.run(s0, steps)
                nsteps += len(steps)
                acts = [edges[ei][2] for ei in w]
                beh = [g["init_acts"][str(s0)]] + [act_in(a) for a in acts]
                if not ok or len(steps) != len(w):
                    a = acts[idx] if idx < len(acts) else {}
                    sig = (sig_of(acts, idx, steps[idx] if idx < len(steps) else None, allowed) if sig_of
                           else "%s.%s:diverge" % (obj, a.get("a")))
                    v.violation(sig, "step %d (%s): implementation did %s, specification allows %s" % (
                        idx, json.dumps(act_in(a), sort_keys=True),
                        json.dumps(dict(out=steps[idx][1], obs=steps[idx][2]), sort_keys=True) if idx < len(steps) else "nothing",
                        json.dumps(allowed, sort_keys=True)[:600]),
                        dict(spec=tag, driver=os.path.basename(exe), behaviour=beh, diverged_at=idx,
                             observed=steps[idx][1:] if idx < len(steps) else None, allowed=allowed, cmdfile=cmdfile, walk=wid))
                    continue
                end = ends[wid]
                dst = edges[w[-1]][1]
                fin = g["fins"].get(str(dst))
                if check_fin and end.get("fin") != fin:
                    sig = "%s.fin:content" % obj
                    if sig_of:
                        sig = sig_of(acts, len(acts), ("fin", end.get("fin")), fin)
                    v.violation(sig, "final drain returned %s, specification holds %s" % (end.get("fin"), fin),
                                dict(spec=tag, driver=os.path.basename(exe), behaviour=beh, diverged_at=len(w),
                                     observed=end, expected_fin=fin, cmdfile=cmdfile, walk=wid))
                    continue
                if end.get("leak", 0) != 0 or end.get("mism", 0) != 0 or end.get("badfree", 0) != 0:
                    v.violation("%s.alloc:balance" % obj, "allocator imbalance after teardown: %s" % json.dumps(end),
                                dict(spec=tag, driver=os.path.basename(exe), behaviour=beh, observed=end, cmdfile=cmdfile, walk=wid))
                    continue
                validated += 1
                if validated <= 2:
                    v.sample(dict(spec=tag, behaviour=beh[:12], observed_last=steps[-1][1:] if steps else None))
            if completed:
                continue
            # the driver died (sanitizer / panic / watchdog) in walk `begun`
            crashes += 1
            bad = begun if begun in idxs else idxs[0]
            w = walks[bad]
            acts = [edges[ei][2] for ei in w]
            s0 = edges[w[0]][0]
            osig = observer_sig(err) or ("watchdog" if rc == 124 else "exit-%d" % rc)
            ndone = len(res.get(bad, []))
            last = acts[ndone].get("a") if ndone < len(acts) else "end"
            sig = "%s.%s:%s" % (obj, last, osig)
            v.violation(sig, "driver aborted in walk %d at step %d (%s): %s" % (bad, ndone, last, osig),
                        dict(spec=tag, driver=os.path.basename(exe),
                             behaviour=[g["init_acts"][str(s0)]] + [act_in(a) for a in acts],
                             diverged_at=ndone, observer=osig, stderr=err[-3000:], cmdfile=cmdfile, walk=bad))
            rest = idxs[idxs.index(bad) + 1:]
            # the remaining walks of the chunk are replayed, unless this kind of abort has been seen often enough: a change that
            # makes every other walk hang would otherwise cost one watchdog period per walk
            crash_sigs[osig] = crash_sigs.get(osig, 0) + 1
            if rest and crashes <= 60 and crash_sigs[osig] <= (3 if ("watchdog" in osig or "exit-97" in osig) else 12):
                todo.append(rest)
            elif rest:
                v.cov["walks_skipped_after_repeated_aborts"] = v.cov.get("walks_skipped_after_repeated_aborts", 0) + len(rest)
    v.cov["traces_validated_against_impl"] += validated
    v.cov["evaluations"] += nsteps
    return validated
