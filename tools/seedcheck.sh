#!/bin/sh
# seedcheck.sh <seed-id> <check-id> [tier]: scratch worktree of /repo HEAD + seeded/<id>/patch.diff, run the check against it
# (tools/seedrun.sh: /repo, /verif/.work and /verif/evidence are not touched), remove the worktree.  Exit status of the check.
S=$1; C=$2; T=${3:-quick}; WT=/tmp/sk-$S-$C
git -C /repo worktree remove --force $WT 2>/dev/null; rm -rf $WT
git -C /repo worktree add --detach $WT HEAD >/dev/null 2>&1 || exit 2
( cd $WT && git apply /verif/seeded/$S/patch.diff ) || { echo "$S: patch does not apply to HEAD"; git -C /repo worktree remove --force $WT; exit 2; }
/verif/tools/seedrun.sh $WT $C $T; rc=$?
git -C /repo worktree remove --force $WT; rm -rf $WT
exit $rc
