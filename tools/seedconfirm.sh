#!/bin/sh
# seedconfirm.sh <agent-worktree> <seed-id>: take patch.diff/demo.c/notes.txt of a sub-agent's seeded change, and confirm in a
# scratch worktree of /repo HEAD that (1) the demo passes on the clean tree, (2) fails with the patch (ASan build),
# (3) the repository's tests pass with the patch.  Results go to seeded/<id>/verify.txt.
A=$1; S=$2; D=/verif/seeded/$S; W=/tmp/sc-$S
mkdir -p $D; cp $A/_seed/patch.diff $A/_seed/demo.c $D/; cp $A/_seed/notes.txt $D/ 2>/dev/null
git -C /repo worktree remove --force $W 2>/dev/null; rm -rf $W
git -C /repo worktree add --detach $W HEAD >/dev/null 2>&1 || exit 2
bld() { cmake -G Ninja -S $W -B $W/_a -DBUILD_SHARED_LIBS=OFF -DNNG_TESTS=ON -DNNG_TOOLS=OFF -DNNG_SANITIZER=address >/dev/null 2>&1 && ninja -C $W/_a nng_testing >/dev/null 2>&1; }
demo() { cc -O1 -g -fsanitize=address -I$W/include -I$W/src -I$W/src/supplemental/websocket -I$W/src/supplemental/http -I$W/src/supplemental/sha1 -I$W/src/supplemental/base64 -DNNG_STATIC_LIB -DNNG_PRIVATE -DNNG_TEST_LIB $D/demo.c $W/_a/libnng_testing.a -lpthread -o $W/_a/demo 2>$W/_a/demo.cc.log || { echo build-failed; return; }
         ( cd $W/_a && ASAN_OPTIONS=detect_leaks=0 timeout 300 ./demo $DEMOARG >demo.out 2>&1; echo "exit=$?" ); }
bld || { echo "$S: clean build failed" | tee -a $D/verify.txt; exit 1; }
C=$(demo)
( cd $W && git apply $D/patch.diff ) || { echo "$S: patch does not apply" | tee -a $D/verify.txt; git -C /repo worktree remove --force $W; exit 1; }
bld || { echo "$S: patched build failed" | tee -a $D/verify.txt; exit 1; }
P=$(demo)
cmake -G Ninja -S $W -B $W/_b -DNNG_TESTS=ON >/dev/null 2>&1 && cmake --build $W/_b -j8 >/dev/null 2>&1
R=$(cd /tmp && ctest --test-dir $W/_b -j6 --timeout 900 2>&1 | grep -E "tests passed|^\s+[0-9]+ - " | tr '\n' ' ')
echo "$S: $(date -u +%FT%TZ) demo clean: $C | demo patched: $P | ctest with patch: $R" | tee -a $D/verify.txt
git -C /repo worktree remove --force $W; rm -rf $W
