#!/bin/sh
# seedprep.sh <property-id> <tag> [focus]: prepare a scratch worktree /tmp/seed-<tag> of /repo HEAD for a sub-agent that is to write
# a seeded change breaking <property-id>.  The worktree gets TASK.md holding only the text of the property and the
# deliverable format (nothing from /verif).  Prints the worktree path.
P=$1; T=$2; F=$3; W=/tmp/seed-$T
git -C /repo worktree remove --force $W 2>/dev/null; rm -rf $W
git -C /repo worktree add --detach $W HEAD >/dev/null 2>&1 || exit 2
mkdir -p $W/_seed
python3 - "$P" "$W" "$F" <<'PY'
import json, sys
pid, w, focus = sys.argv[1], sys.argv[2], (sys.argv[3] if len(sys.argv) > 3 else "")
for line in open("/verif/properties.jsonl"):
    p = json.loads(line)
    if p["id"] == pid:
        break
else:
    sys.exit("no such property")
q = p.get("quantifier", {})
txt = f"""# Task: a seeded change to nanomsg/nng that breaks one semantic property

You work ONLY inside this directory ({w}), a scratch git worktree of the nng C library (do not touch /repo or /verif, do
not read /verif).  The library builds offline; there is no network.

## The property ({p['id']}): {p['title']}

{p['statement']}

Quantified over: {q.get('text','')}

Why the repository's tests cannot settle it: {p.get('why_tests_cant','')}

Code it is anchored in: {json.dumps(p.get('anchors', ''))}

## What to produce

A small change to the library sources under src/ (a few lines, the kind of slip or "simplification" a real contributor
could make; NOT a deliberate backdoor, not a change guarded by a magic value) such that

1. the library still compiles and the repository's existing test suite still passes (build: `cmake -G Ninja -S . -B _b
   -DNNG_TESTS=ON && cmake --build _b -j8`; run: `ctest --test-dir _b -j6 --timeout 900`; `nng.platform.resolver_test`
   fails offline on the unchanged tree too and does not count; if an unrelated transport test fails once with
   "address in use", run it again alone);
2. the property above is violated, but only when something specific happens: a particular interleaving, a fault or
   disconnect at a particular point, a multi-step sequence of operations, an unusual but legal input or option value, or
   two cooperating sites that each look fine alone.  Ordinary use (what the tests and a casual user do) must not expose it;
3. a demonstration program `_seed/demo.c` (single C file, public API preferred; internal headers allowed) exits 0 on the
   unchanged tree and non-zero (or crashes under AddressSanitizer) with your change.  It is compiled like this:
   `cmake -G Ninja -S . -B _a -DBUILD_SHARED_LIBS=OFF -DNNG_TESTS=ON -DNNG_TOOLS=OFF -DNNG_SANITIZER=address && ninja -C _a nng_testing`
   `cc -O1 -g -fsanitize=address -Iinclude -Isrc -DNNG_STATIC_LIB -DNNG_PRIVATE -DNNG_TEST_LIB _seed/demo.c _a/libnng_testing.a -lpthread -o _a/demo`
   and run without arguments, in under 60 seconds, deterministic if at all possible (say so if it is probabilistic and
   make it loop until it is reliable).

Prefer a part of the code or a situation that is NOT the most obvious one for this property: pick a less-travelled path
(an option combination, a second context, a resize, a close or disconnect at an awkward moment, a boundary value, a
less-used transport or protocol variant covered by the property).  Do not change tests.  Do not change public headers.
{("Part of the property to aim at this time (other parts have been done already): " + focus) if focus else ""}

Deliverables, all in `{w}/_seed/`:
* `patch.diff`  - `git diff` of your change to src/ only (must apply with `git apply` to a clean checkout of this commit);
* `demo.c`      - the demonstration;
* `notes.txt`   - (1) what the change does and which clause of the property it breaks, (2) exactly what is needed for it
                  to manifest, (3) what you ran: the demo on the clean tree (exit 0), the demo with the change (failure
                  output), and the ctest summary line with the change applied.

Before you finish: make sure `git diff` shows only your change to src/, that you really ran all three things in (3), and
leave the change applied in the worktree.  Remove your build directories `_a` and `_b` at the end (rm -rf _a _b).
Your final message: a five-line summary (file/function changed, what breaks, what it needs, demo results, ctest result).
"""
open(w + "/TASK.md", "w").write(txt)
PY
echo $W
