#!/bin/sh
# seedrun.sh <repo-worktree> <check-id> [tier]: run a check against a scratch worktree of nng (e.g. one with a seeded
# change applied) without touching /repo, /verif/.work or /verif/evidence.  Work dir: <worktree>/_vw (remove it afterwards).
R=$1; C=$2; T=${3:-quick}
cd /verif
out=$(mktemp)
VERIF_REPO=$R VERIF_WORK=$R/_vw timeout ${TMO:-2400} tools/vcheck $C --tier $T > $out 2>&1; rc=$?
grep -i "^VIOLATION\|^KNOWN\|BROKEN\|^(\.\.\." $out | cut -c1-${W:-400} | tail -${N:-6}
echo "rc=$rc"
rm -f $out
exit $rc
