#!/bin/sh
# seedtest.sh <seed-dir> <check-id> [tier]: apply seeded/<dir>/patch.diff to /repo, run the check, undo.
D=/verif/seeded/$1; C=$2; T=${3:-quick}
cd /repo || exit 2
git diff --quiet || { echo "/repo has local changes"; exit 2; }
git apply "$D/patch.diff" || { echo "patch does not apply"; exit 2; }
cd /verif
out=$(mktemp)
timeout ${TMO:-1800} tools/vcheck $C --tier $T > $out 2>&1; rc=$?
grep -i "^\[vcheck\]\|^VIOLATION\|^KNOWN\|BROKEN\|^(\.\.\." $out | cut -c1-${W:-400} | tail -${N:-6}
echo "rc=$rc"
git -C /repo checkout -- .
rm -f $out
exit $rc
