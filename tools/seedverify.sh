#!/bin/sh
# seedverify.sh <seed-dir>: confirm in a scratch worktree that the seeded change compiles and the repository's
# tests still pass (resolver_test fails offline on the clean tree too).  Result appended to seeded/<dir>/verify.txt
S=$1; D=/verif/seeded/$S; W=/tmp/sv-$S
git -C /repo worktree remove --force $W 2>/dev/null; rm -rf $W
git -C /repo worktree add --detach $W HEAD >/dev/null 2>&1 || exit 2
( cd $W && git apply $D/patch.diff ) || { echo "$S: patch does not apply" | tee -a $D/verify.txt; git -C /repo worktree remove --force $W; exit 1; }
cmake -G Ninja -S $W -B $W/_b -DNNG_TESTS=ON >/dev/null 2>&1 && cmake --build $W/_b -j16 >/dev/null 2>&1 || { echo "$S: build failed" | tee -a $D/verify.txt; git -C /repo worktree remove --force $W; exit 1; }
R=$(ctest --test-dir $W/_b -j8 --timeout 900 2>&1 | grep -E "tests passed|Failed|\*\*\*" | tr '\n' ' ')
echo "$S: $(date -u +%FT%TZ) with patch: $R" | tee -a $D/verify.txt
git -C /repo worktree remove --force $W; rm -rf $W
