#!/bin/sh
# Run once after a fresh restore (offline): warm the build trees the checks use.
set -e
cd "$(dirname "$0")/.."
python3 - <<'PY'
import sys
sys.path.insert(0, "tools")
import vlib
vlib.build_lib("asan")
vlib.build_driver("drv_data", ["drv_data.c", "acct.c"])
vlib.build_driver("drv_url", ["drv_url.c", "acct.c"])
vlib.build_driver("drv_aio", ["drv_aio.c", "dee.c", "acct.c"])
vlib.build_driver("drv_xq", ["drv_xq.c", "dee.c", "acct.c"])
vlib.build_driver("drv_proto", ["drv_proto.c", "vtran.c", "dee.c", "acct.c"])
vlib.build_lib("plain")
PY
echo setup-ok
