#!/bin/sh
# Run once after a fresh restore (offline): warm the build trees the checks use.
set -e
cd "$(dirname "$0")/.."
python3 - <<'PY'
import sys
sys.path.insert(0, "tools")
import vlib
vlib.build_lib("asan")
vlib.build_driver("drv_data", ["drv_data.c", "acct.c"])
PY
echo setup-ok
