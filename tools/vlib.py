"""Common machinery for the /verif checks: build, TLC runs, edge export, edge cover,
graph judge, evidence, known findings.  Python3 stdlib only."""
import fcntl, hashlib, json, os, random, re, shutil, subprocess, sys, time

ROOT = os.path.dirname(os.path.dirname(os.path.abspath(__file__)))
REPO = os.environ.get("VERIF_REPO", "/repo")
WORK = os.environ.get("VERIF_WORK") or os.path.join(ROOT, ".work")
# a scratch run (VERIF_REPO=<worktree> VERIF_WORK=<dir>: seeded changes) keeps its evidence out of /verif/evidence
EVID = os.path.join(WORK, "evidence") if os.environ.get("VERIF_WORK") else os.path.join(ROOT, "evidence")
SPEC = os.path.join(ROOT, "spec")
HARN = os.path.join(ROOT, "harness")
TLA_JAR = "/opt/veriftools/tla/tla2tools.jar"
NCPU = os.cpu_count() or 4

os.makedirs(WORK, exist_ok=True)


def log(*a):
    print("[vcheck]", *a, file=sys.stderr, flush=True)


class Broken(Exception):
    """The check itself could not run (exit 2) -- never a verdict."""


def sh(cmd, timeout=600, cwd=None, env=None, check=True, stdin=None):
    e = dict(os.environ)
    if env:
        e.update(env)
    try:
        p = subprocess.run(cmd, cwd=cwd, env=e, timeout=timeout, stdout=subprocess.PIPE,
                           stderr=subprocess.STDOUT, input=stdin)
    except subprocess.TimeoutExpired as ex:
        out = (ex.stdout or b"").decode("utf-8", "replace")
        if check:
            raise Broken("timeout after %ss: %s\n%s" % (timeout, cmd, out[-2000:]))
        return 124, out
    out = p.stdout.decode("utf-8", "replace")
    if check and p.returncode != 0:
        raise Broken("command failed (%d): %s\n%s" % (p.returncode, cmd, out[-4000:]))
    return p.returncode, out


# --------------------------------------------------------------------------
# building libnng (from /repo's current working tree) and the drivers

VARIANTS = {
    # hooks on, ASan+UBSan: every conformance driver uses this one
    "asan": dict(cflags="-DNNG_VERIF -g -O1 -fsanitize=address,undefined -fno-sanitize=nonnull-attribute "
                        "-fno-sanitize-recover=undefined -fno-omit-frame-pointer",
                 ldflags="-fsanitize=address,undefined"),
    # hooks on, no sanitizer (fast; used by throughput-heavy trace recording)
    "plain": dict(cflags="-DNNG_VERIF -g -O1 -fno-omit-frame-pointer", ldflags=""),
    "tsan": dict(cflags="-DNNG_VERIF -g -O1 -fsanitize=thread -fno-omit-frame-pointer",
                 ldflags="-fsanitize=thread"),
}


class _Lock:
    def __init__(self, name):
        self.path = os.path.join(WORK, name + ".lock")

    def __enter__(self):
        self.f = open(self.path, "w")
        fcntl.flock(self.f, fcntl.LOCK_EX)

    def __exit__(self, *a):
        fcntl.flock(self.f, fcntl.LOCK_UN)
        self.f.close()


def build_lib(variant="asan"):
    """(Re)build static libnng_testing.a from REPO's working tree. Incremental."""
    v = VARIANTS[variant]
    bdir = os.path.join(WORK, "build-" + variant)
    with _Lock("build-" + variant):
        t0 = time.time()
        if not os.path.exists(os.path.join(bdir, "build.ninja")):
            os.makedirs(bdir, exist_ok=True)
            sh(["cmake", "-G", "Ninja", "-S", REPO, "-B", bdir, "-DBUILD_SHARED_LIBS=OFF",
                "-DNNG_TESTS=ON", "-DNNG_TOOLS=OFF", "-DNNG_ENABLE_COVERAGE=OFF",
                "-DCMAKE_BUILD_TYPE=None", "-DCMAKE_C_FLAGS=" + v["cflags"],
                "-DCMAKE_EXE_LINKER_FLAGS=" + v["ldflags"]], timeout=300)
        rc, out = sh(["ninja", "-C", bdir, "nng_testing"], timeout=900, check=False)
        if rc != 0:
            # cmake may need to re-glob after files were added: retry once from scratch
            shutil.rmtree(bdir, ignore_errors=True)
            os.makedirs(bdir, exist_ok=True)
            sh(["cmake", "-G", "Ninja", "-S", REPO, "-B", bdir, "-DBUILD_SHARED_LIBS=OFF",
                "-DNNG_TESTS=ON", "-DNNG_TOOLS=OFF", "-DNNG_ENABLE_COVERAGE=OFF",
                "-DCMAKE_BUILD_TYPE=None", "-DCMAKE_C_FLAGS=" + v["cflags"],
                "-DCMAKE_EXE_LINKER_FLAGS=" + v["ldflags"]], timeout=300)
            sh(["ninja", "-C", bdir, "nng_testing"], timeout=900)
        log("libnng[%s] built in %.1fs" % (variant, time.time() - t0))
    return os.path.join(bdir, "libnng_testing.a")


def build_driver(name, sources, variant="asan", extra=()):
    lib = build_lib(variant)
    v = VARIANTS[variant]
    out = os.path.join(WORK, "bin-" + variant)
    os.makedirs(out, exist_ok=True)
    exe = os.path.join(out, name)
    with _Lock("drv-" + variant + "-" + name):
        srcs = [os.path.join(HARN, s) for s in sources]
        defs = ["-DNNG_STATIC_LIB", "-DNNG_PRIVATE"]
        for line in open(os.path.join(WORK, "build-" + variant, "build.ninja")):
            if line.strip().startswith("DEFINES =") and "NNG_PLATFORM" in line:
                defs = [d for d in line.split("=", 1)[1].split() if d.startswith("-D")]
                break
        cmd = (["cc"] + v["cflags"].split() + ["-no-pie", "-Wall", "-DNNG_TEST_LIB"] + defs + [
               "-I" + os.path.join(REPO, "include"), "-I" + os.path.join(REPO, "src"),
               "-I" + HARN, "-o", exe] + srcs + [lib, "-lpthread"] + list(extra))
        sh(cmd, timeout=300)
    return exe


def build_repo_tests(variant="plain", targets=()):
    """Build some of the repository's own test programs (with hooks on)."""
    build_lib(variant)
    bdir = os.path.join(WORK, "build-" + variant)
    with _Lock("build-" + variant):
        sh(["ninja", "-C", bdir] + list(targets), timeout=1200)
    return bdir


def asan_env(extra=None):
    e = {"ASAN_OPTIONS": "abort_on_error=0:exitcode=77:detect_leaks=0:allocator_may_return_null=1:"
                         "detect_stack_use_after_return=0:handle_abort=1",
         "UBSAN_OPTIONS": "print_stacktrace=1:halt_on_error=1:exitcode=78"}
    if extra:
        e.update(extra)
    return e


# --------------------------------------------------------------------------
# TLC

_TLC_STATS = re.compile(r"(\d+) states generated, (\d+) distinct states found, (\d+) states left on queue")
_TLC_DEPTH = re.compile(r"The depth of the complete state graph search is (\d+)")


def _cfg_path(spec_dir, cfg):
    return os.path.join(spec_dir, cfg)


def tlc(spec_rel, cfg, workers=None, timeout=900, simulate=None, depth=None, seed=None, env=None,
        extra=(), xmx="8g", deadlock=False, want_cov=False, tool_mode=False):
    """Run TLC on SPEC/<spec_rel> with SPEC/<dir>/<cfg>.  Returns a dict."""
    spec_path = os.path.join(SPEC, spec_rel)
    sdir = os.path.dirname(spec_path)
    import uuid
    meta = os.path.join(WORK, "tlc", "%d-%s" % (os.getpid(), uuid.uuid4().hex[:12]))
    os.makedirs(meta, exist_ok=True)
    cp = TLA_JAR + ":/opt/veriftools/tla/CommunityModules-deps.jar"
    cmd = ["java", "-Xmx" + xmx, "-XX:+UseParallelGC", "-cp", _tlc_cp(), "tlc2.TLC",
           "-metadir", meta, "-noGenerateSpecTE", "-config", cfg, "-workers", str(workers or "auto")]
    if not deadlock:
        cmd += ["-deadlock"]
    if want_cov:
        cmd += ["-coverage", "1"]
    if simulate:
        cmd += ["-simulate", "num=%d" % simulate]
        if depth:
            cmd += ["-depth", str(depth)]
    if seed is not None:
        cmd += ["-seed", str(seed)]
    cmd += list(extra) + [os.path.basename(spec_path)]
    t0 = time.time()
    rc, out = sh(cmd, timeout=timeout, cwd=sdir, env=env, check=False)
    shutil.rmtree(meta, ignore_errors=True)
    res = dict(rc=rc, out=out, wall=time.time() - t0, cmd=" ".join(cmd), generated=0, distinct=0, depth=0)
    for m in _TLC_STATS.finditer(out):
        res["generated"], res["distinct"] = int(m.group(1)), int(m.group(2))
    m = _TLC_DEPTH.search(out)
    if m:
        res["depth"] = int(m.group(1))
    res["violation"] = None
    if rc == 124:
        res["status"] = "timeout"
    elif "Error: Invariant" in out or "is violated" in out or "Error: Action property" in out \
            or "Temporal properties were violated" in out:
        m = re.search(r"Error: (Invariant (\S+) is violated|Action property (\S+) is violated|Temporal properties were violated)", out)
        res["status"] = "violation"
        res["violation"] = m.group(0) if m else "violated"
    elif rc == 0 and ("Model checking completed. No error has been found" in out or simulate or
                      "Finished in" in out):
        res["status"] = "ok"
    else:
        res["status"] = "error"
    if want_cov:
        res["coverage"] = _parse_cov(out)
    return res


_cp_cache = []


def _tlc_cp():
    if not _cp_cache:
        cands = [TLA_JAR]
        d = os.path.dirname(TLA_JAR)
        for f in sorted(os.listdir(d)):
            if f.endswith(".jar") and os.path.join(d, f) != TLA_JAR:
                cands.append(os.path.join(d, f))
        _cp_cache.append(":".join(cands))
    return _cp_cache[0]


def _parse_cov(out):
    cov = {}
    for m in re.finditer(r"<(\w+) line (\d+), col \d+ to line \d+, col \d+ of module (\w+)>: (\d+):(\d+)", out):
        cov[m.group(1)] = dict(distinct=int(m.group(4)), taken=int(m.group(5)))
    return cov


def tlc_require_ok(res, what):
    if res["status"] != "ok":
        raise Broken("%s: TLC status=%s (%s)\n%s" % (what, res["status"], res.get("violation"), res["out"][-3000:]))
    return res


def tlc_trace_states(out):
    """Parse the counterexample printed by TLC into a list of dicts var->text (best effort)."""
    states = []
    cur = None
    for line in out.splitlines():
        m = re.match(r"State (\d+): (.*)", line)
        if m:
            cur = {"_hdr": m.group(2)}
            states.append(cur)
            continue
        if cur is not None:
            m = re.match(r"(/\\ )?(\w+) = (.*)", line)
            if m:
                cur[m.group(2)] = m.group(3)
                cur["_last"] = m.group(2)
            elif line.strip() == "":
                cur = None
            elif "_last" in cur:
                cur[cur["_last"]] += " " + line.strip()
    return states


# --------------------------------------------------------------------------
# Edge export:   every spec that is bound by replay defines
#   lastAct : record  [a |-> name, ... inputs ..., out |-> expected result record]
#   SId     : the state without ghosts-for-export (identity of a node)
#   Obs     : observable projection compared against the implementation
# and a cfg <X>_gen.cfg with ACTION_CONSTRAINT ExportEdge, where
#   ExportEdge == PrintT(<<"E", ToJson([s |-> SId, sa |-> lastAct.a, d |-> SId', act |-> lastAct', obs |-> Obs'])>>)

def tlc_edges(spec_rel, cfg, timeout=900, env=None, cache=True, simulate=None, depth=None, seed=None):
    """Complete edge list of the state graph (BFS, 1 worker) or -- with simulate=N -- the edges of N
    random behaviours of length depth (g["walks"] then lists them in order)."""
    spec_path = os.path.join(SPEC, spec_rel)
    sdir = os.path.dirname(spec_path)
    h = hashlib.sha256()
    for f in (os.path.basename(spec_path), cfg):
        h.update(open(os.path.join(sdir, f), "rb").read())
    h.update(json.dumps([env or {}, simulate, depth, seed, "v2"], sort_keys=True).encode())
    key = h.hexdigest()[:20]
    cdir = os.path.join(WORK, "edges")
    os.makedirs(cdir, exist_ok=True)
    cfile = os.path.join(cdir, "%s-%s-%s.json" % (os.path.basename(spec_rel), cfg, key))
    if cache and os.path.exists(cfile):
        with open(cfile) as f:
            return json.load(f)
    res = tlc(spec_rel, cfg, workers=1, timeout=timeout, env=env, simulate=simulate, depth=depth, seed=seed)
    if res["status"] != "ok":
        raise Broken("edge export %s/%s: TLC %s\n%s" % (spec_rel, cfg, res["status"], res["out"][-3000:]))
    edges = []
    ids = {}
    inits = set()
    init_acts = {}
    fins = {}
    simwalks = []

    nabs = []         # node -> abstraction class (the state with message tags forgotten), for class-wise edge covers
    absids = {}

    def nid(x, ab=None):
        k = json.dumps(x, sort_keys=True)
        if k not in ids:
            ids[k] = len(ids)
            # the specification's own abstraction (AbsV) if it exports one, else the state with message tags forgotten
            ak = json.dumps(ab if ab is not None else abstract(x), sort_keys=True)
            nabs.append(absids.setdefault(ak, len(absids)))
        return ids[k]
    def dsort(x):
        if isinstance(x, list):
            return sorted((dsort(v) for v in x), key=lambda z: json.dumps(z, sort_keys=True))
        if isinstance(x, dict):
            return {k: dsort(v) for k, v in x.items()}
        return x
    raw = []
    for line in res["out"].splitlines():
        if not line.startswith('<<"E", "'):
            continue
        raw.append(json.loads(json.loads(line[len('<<"E", '):-2])))
    if simulate:
        # TLC evaluates the action constraint for candidate successors too: a behaviour is recovered by
        # grouping consecutive records with the same source (state, last action) and keeping, in each
        # group, the record whose target is the source of the next group.
        groups = []
        for e in raw:
            k = json.dumps([dsort(e["s"]), e["sa"]], sort_keys=True)
            # (consecutive records from the initial state are the candidates of one first step as well: a behaviour has at
            # least two steps, so two behaviours never follow each other with only init-sourced records in between)
            if groups and groups[-1][0] == k:
                groups[-1][1].append(e)
            else:
                groups.append((k, [e]))
        chosen = []
        for gi, (k, es) in enumerate(groups):
            nxt = groups[gi + 1][0] if gi + 1 < len(groups) else None
            pick = None
            for e in es:
                if nxt is not None and json.dumps([dsort(e["d"]), e["act"]], sort_keys=True) == nxt:
                    pick = e
                    break
            if pick is not None:
                chosen.append(pick)
        raw = chosen
    for e in raw:
        s, d = nid(dsort(e["s"]) if simulate else e["s"], e.get("sabs")), nid(dsort(e["d"]) if simulate else e["d"], e.get("dabs"))
        if e["sa"]["a"] == "init":
            inits.add(s)
            init_acts[str(s)] = e["sa"]
            if simulate:
                simwalks.append([])
        if simulate and simwalks:
            simwalks[-1].append(len(edges))
        edges.append([s, d, canon(e["act"]), canon(e["obs"])])
        fins[str(d)] = e.get("fin")
    g = dict(nabs=nabs, edges=edges, inits=sorted(inits), init_acts=init_acts, fins=fins, nstates=len(ids), walks=simwalks, generated=res["generated"],
             distinct=res["distinct"], depth=res["depth"], wall=res["wall"], cmd=res["cmd"])
    with open(cfile, "w") as f:
        json.dump(g, f)
    return g


def abstract(x):
    """Forget message tags (integers >= 100): two states that differ only in which messages they hold are one class."""
    if isinstance(x, bool):
        return x
    if isinstance(x, int):
        return "M" if x >= 100 else x
    if isinstance(x, list):
        return [abstract(v) for v in x]
    if isinstance(x, dict):
        return {k: abstract(v) for k, v in x.items()}
    return x


def canon(x):
    """Canonical form for comparison: lists under keys starting with S_ are sets."""
    if isinstance(x, dict):
        return {k: (sorted((canon(v) for v in x[k]), key=lambda z: json.dumps(z, sort_keys=True))
                    if k.startswith("S_") and isinstance(x[k], list) else canon(x[k])) for k in x}
    if isinstance(x, list):
        return [canon(v) for v in x]
    return x


def matches(obs, exp):
    """obs == exp, except that an expected string "a|b" stands for either alternative (outcomes that depend on a race the
    driver does not control, e.g. the reaper against the closing thread)."""
    if isinstance(exp, str) and "|" in exp:
        return obs in exp.split("|")
    if isinstance(exp, dict) and isinstance(obs, dict):
        return set(exp) == set(obs) and all(matches(obs[k], exp[k]) for k in exp)
    if isinstance(exp, list) and isinstance(obs, list):
        return len(exp) == len(obs) and all(matches(o, e) for o, e in zip(obs, exp))
    return obs == exp


def act_in(act):
    """The part of an action record the driver is given (everything except the expected output)."""
    return {k: v for k, v in act.items() if k != "out"}


def cover_walks(g, rng, maxlen=30, limit=None, budget_edges=None, budget_s=1200, by_class=False):
    """Walks from an initial state that together cover every edge of g.
    Greedy: take an uncovered out-edge if there is one, otherwise jump along a shortest path to the
    nearest state that has one.  Each walk is a list of edge indices (<= maxlen unless a single
    approach path is longer).  If limit is given, stop after that many walks."""
    from collections import deque
    edges = g["edges"]
    out_e = {}
    seen = set()
    unc = {}          # state -> list of uncovered out-edge indices
    total = 0
    for i, (s, d, a, o) in enumerate(edges):
        out_e.setdefault(s, []).append(i)
        if by_class and g.get("nabs"):
            # one representative per (class of source, action with tags forgotten, class of target)
            k = (g["nabs"][s], g["nabs"][d], json.dumps(abstract(a), sort_keys=True))
        else:
            k = (s, d, json.dumps(a, sort_keys=True))
        if k in seen:
            continue
        seen.add(k)
        unc.setdefault(s, []).append(i)
        total += 1
    for s in unc:
        rng.shuffle(unc[s])
    remaining = total
    walks = []
    inits = g["inits"] or [0]

    def path_to_uncovered(src):
        if unc.get(src):
            return []
        prev = {src: None}
        dq = deque([src])
        while dq:
            s = dq.popleft()
            for i in out_e.get(s, ()):
                d = edges[i][1]
                if d in prev:
                    continue
                prev[d] = i
                if unc.get(d):
                    path = []
                    while prev[d] is not None:
                        path.append(prev[d])
                        d = edges[prev[d]][0]
                    path.reverse()
                    return path
                dq.append(d)
        return None
    dead_inits = set()
    t_start = time.time()
    while remaining > 0:
        if time.time() - t_start > budget_s:
            # very large graphs: the greedy cover gets slow when only far-away edges are left; the cover stays partial
            log("cover_walks: time budget of %ds reached with %d of %d edges covered" % (budget_s, total - remaining, total))
            break
        live = [i for i in inits if i not in dead_inits]
        if not live:
            break
        cur = rng.choice(live)
        start = cur
        walk = []
        while True:
            p = path_to_uncovered(cur)
            if p is None:
                break
            if walk and len(walk) + len(p) + 1 > maxlen:
                break
            walk += p
            if p:
                cur = edges[p[-1]][1]
            # now take uncovered edges greedily
            while unc.get(cur) and (len(walk) < maxlen or not walk):
                i = unc[cur].pop()
                remaining -= 1
                walk.append(i)
                cur = edges[i][1]
            if len(walk) >= maxlen:
                break
        if not walk:
            dead_inits.add(start)
            continue
        walks.append(walk)
        if limit and len(walks) >= limit:
            break
    return walks, total, total - remaining


def cover_walks_fast(g, rng, maxlen=30, limit=None, by_class=True, near=3):
    """Edge cover for large graphs: one breadth-first tree from the initial state gives every state its shortest approach path;
    each walk goes to the source of a still uncovered (class of) edge and then keeps taking uncovered edges, looking at most
    `near` steps ahead for the next one.  Linear in the total length of the walks."""
    from collections import deque
    edges = g["edges"]
    nabs = g.get("nabs") if by_class else None
    out_e = {}
    for i, (s, d, a, o) in enumerate(edges):
        out_e.setdefault(s, []).append(i)
    # classes still to cover: class key -> list of member edges
    key_of = []
    members = {}
    for i, (s, d, a, o) in enumerate(edges):
        k = (nabs[s], nabs[d], json.dumps(abstract(a), sort_keys=True)) if nabs else (s, d, json.dumps(a, sort_keys=True))
        key_of.append(k)
        members.setdefault(k, []).append(i)
    uncovered = set(members)
    total = len(uncovered)
    inits = g["inits"] or [0]
    parent = {i: None for i in inits}
    depth = {i: 0 for i in inits}
    dq = deque(inits)
    while dq:
        x = dq.popleft()
        for i in out_e.get(x, ()):
            d = edges[i][1]
            if d not in parent:
                parent[d] = i
                depth[d] = depth[x] + 1
                dq.append(d)

    def approach(n):
        path = []
        while parent.get(n) is not None:
            path.append(parent[n])
            n = edges[parent[n]][0]
        path.reverse()
        return path

    def take(i, walk):
        walk.append(i)
        uncovered.discard(key_of[i])

    def next_uncovered(cur):
        """an uncovered edge at most `near` steps away: list of edges to take"""
        lst = [i for i in out_e.get(cur, ()) if key_of[i] in uncovered]
        if lst:
            return [rng.choice(lst)]
        seen = {cur: []}
        fr = [cur]
        for _ in range(near):
            nf = []
            for x in fr:
                for i in out_e.get(x, ()):
                    d = edges[i][1]
                    if d in seen:
                        continue
                    seen[d] = seen[x] + [i]
                    cand = [j for j in out_e.get(d, ()) if key_of[j] in uncovered]
                    if cand:
                        return seen[d] + [rng.choice(cand)]
                    nf.append(d)
            fr = nf
        return None
    # deepest targets first: their approach paths pass many shallower states
    order = sorted(members, key=lambda k: -min(depth.get(edges[i][0], 1 << 30) for i in members[k]))
    walks = []
    for k in order:
        if k not in uncovered:
            continue
        cands = [i for i in members[k] if edges[i][0] in depth]
        if not cands:
            uncovered.discard(k)      # not reachable from an initial state
            total -= 1
            continue
        i0 = min(cands, key=lambda i: depth[edges[i][0]])
        walk = []
        for i in approach(edges[i0][0]):
            take(i, walk)
        take(i0, walk)
        cur = edges[i0][1]
        while len(walk) < maxlen:
            nx = next_uncovered(cur)
            if nx is None or len(walk) + len(nx) > maxlen:
                break
            for i in nx:
                take(i, walk)
            cur = edges[walk[-1]][1]
        walks.append(walk)
    rng.shuffle(walks)
    if limit and len(walks) > limit:
        walks = walks[:limit]
        cov = set()
        for w in walks:
            cov.update(key_of[i] for i in w)
        return walks, total, len(cov)
    return walks, total, total - len(uncovered)


def random_walks(g, rng, n, maxlen):
    edges = g["edges"]
    out_e = {}
    for i, (s, d, a, o) in enumerate(edges):
        out_e.setdefault(s, []).append(i)
    inits = g["inits"] or [0]
    walks = []
    for _ in range(n):
        cur = rng.choice(inits)
        w = []
        for _ in range(maxlen):
            lst = out_e.get(cur)
            if not lst:
                break
            i = rng.choice(lst)
            w.append(i)
            cur = edges[i][1]
        if w:
            walks.append(w)
    return walks


class GraphJudge:
    """Accepts an observed run iff it is a path of the TLC-generated graph (nondeterminism is
    resolved by the observed output/observation)."""

    def __init__(self, g):
        self.g = g
        self.out = {}
        for i, (s, d, a, o) in enumerate(g["edges"]):
            self.out.setdefault((s, json.dumps(act_in(a), sort_keys=True)), []).append(i)

    def run(self, start, steps):
        """steps: list of (act_in dict, observed out, observed obs). Returns (ok, index, allowed)."""
        cur = {start}
        for n, (ain, oout, oobs) in enumerate(steps):
            oout, oobs = canon(oout), canon(oobs)
            k = json.dumps(ain, sort_keys=True)
            nxt = set()
            allowed = []
            for s in cur:
                for i in self.out.get((s, k), []):
                    _, d, a, o = self.g["edges"][i]
                    allowed.append(dict(out=a.get("out"), obs=o))
                    if matches(oout, a.get("out")) and matches(oobs, o):
                        nxt.add(d)
            if not nxt:
                return False, n, allowed
            cur = nxt
        return True, len(steps), None


# --------------------------------------------------------------------------
# known findings, evidence, verdict

def load_known():
    """known_findings.txt lines:  open: property=<id> sig=<sig> <text>   |   fixed: property=<id> <commit> <text>"""
    res = []
    p = os.path.join(ROOT, "known_findings.txt")
    if os.path.exists(p):
        for line in open(p):
            line = line.strip()
            if line.startswith("open:"):
                m = re.match(r"open:\s+property=(\S+)\s+sig=(\S+)\s*(.*)", line)
                if m:
                    res.append(dict(prop=m.group(1), sig=m.group(2), text=m.group(3)))
    return res


class Verdict:
    def __init__(self, prop, tier, seed, level="model_checking"):
        self.prop, self.tier, self.seed, self.level = prop, tier, seed, level
        self.t0 = time.time()
        self.cov = dict(states=0, transitions=0, traces_validated_against_impl=0, samples=[],
                        evaluations=0, distinct_nontrivial=0, rule="", tlc_runs=[], actions_never_taken=[])
        self.assumptions = []
        self.violations = []   # (sig, text, replay_path)
        self.known_seen = []
        self.known = [k for k in load_known() if k["prop"] == prop]
        self.drift = []

    def add_tlc(self, name, res):
        self.cov["states"] += res.get("distinct", 0)
        self.cov["transitions"] += res.get("generated", 0)
        ent = dict(name=name, distinct=res.get("distinct"), generated=res.get("generated"),
                   depth=res.get("depth"), wall_s=round(res.get("wall", 0), 1), status=res.get("status"))
        if res.get("coverage"):
            never = [a for a, c in res["coverage"].items() if c["taken"] == 0]
            ent["actions"] = {a: c["taken"] for a, c in res["coverage"].items()}
            self.cov["actions_never_taken"] += ["%s:%s" % (name, a) for a in never]
        self.cov["tlc_runs"].append(ent)

    def sample(self, s):
        if len(self.cov["samples"]) < 6:
            self.cov["samples"].append(s)

    def violation(self, sig, text, replay_obj):
        for k in self.known:
            if k["sig"] == sig:
                if sig not in [x[0] for x in self.known_seen]:
                    self.known_seen.append((sig, k["text"] or text))
                return False
        rdir = os.path.join(WORK, "replay")
        os.makedirs(rdir, exist_ok=True)
        path = os.path.join(rdir, "%s-%s-%d.json" % (self.prop, re.sub(r"[^A-Za-z0-9_.-]", "_", sig)[:60], len(self.violations)))
        replay_obj = dict(replay_obj)
        replay_obj.update(property=self.prop, signature=sig, text=text, seed=self.seed)
        with open(path, "w") as f:
            json.dump(replay_obj, f, indent=1)
        self.violations.append((sig, text, path))
        return True

    def finish(self):
        ev = dict(property_id=self.prop, tier=self.tier, seed=self.seed, level=self.level,
                  coverage=self.cov, assumptions=self.assumptions,
                  wall_s=round(time.time() - self.t0, 2), violations=len(self.violations))
        ev["coverage"]["known_findings_seen"] = [s for s, _ in self.known_seen]
        ev["coverage"]["spec_drift"] = self.drift
        if not ev["coverage"]["samples"]:
            ev["coverage"]["samples"] = ["(none)"]
        os.makedirs(EVID, exist_ok=True)
        with open(os.path.join(EVID, self.prop + ".json"), "w") as f:
            json.dump(ev, f, indent=1, sort_keys=True)
        for sig, text in self.known_seen:
            print("KNOWN-FINDING: property=%s sig=%s %s" % (self.prop, sig, text))
        for d in self.drift:
            print("SPEC-DRIFT property=%s %s" % (self.prop, d))
        seen = set()
        for sig, text, path in self.violations:
            if sig in seen:
                continue
            seen.add(sig)
            if len(seen) <= 25:
                print("VIOLATION property=%s replay=%s sig=%s %s" % (self.prop, path, sig, text[:1500]))
        if len(seen) > 25:
            print("(... %d more distinct violation signatures, see %s)" % (len(seen) - 25, os.path.join(WORK, "replay")))
        sys.stdout.flush()
        return 1 if self.violations else 0
